(** C01 — world-level lemmas and the main theorems about [lmtp_data]. *)
From Coq Require Import String Ascii List Bool ZArith Lia.
From Raven Require Import Base.GoStr Model.Store Model.Ops Model.Deliver Spec.DeliverSpec
  Proof.StoreInv Proof.DeliverStore.
Import ListNotations.
Local Open Scope Z_scope.

Lemma key_eqb_spec a b : reflect (a = b) (key_eqb a b).
Proof.
  destruct a as [l d|e], b as [l' d'|e']; simpl; try (constructor; discriminate).
  - destruct (str_eqb_spec l l'); simpl; [|constructor; congruence].
    destruct (str_eqb_spec d d'); constructor; congruence.
  - destruct (str_eqb_spec e e'); constructor; congruence.
Qed.

Lemma get_put_same w k u : get (put w k u) k = Some u.
Proof.
  unfold get, put. simpl. induction (w_stores w) as [|[k' u'] r IH]; simpl.
  - destruct (key_eqb_spec k k); [reflexivity | congruence].
  - destruct (key_eqb_spec k' k); simpl.
    + destruct (key_eqb_spec k' k); [reflexivity | congruence].
    + destruct (key_eqb_spec k' k); [congruence | exact IH].
Qed.

Lemma get_put_other w k u k' : k' <> k -> get (put w k u) k' = get w k'.
Proof.
  intros N. unfold get, put. simpl. induction (w_stores w) as [|[k0 u0] r IH]; simpl.
  - destruct (key_eqb_spec k k'); [congruence | reflexivity].
  - destruct (key_eqb_spec k0 k); simpl.
    + subst k0. destruct (key_eqb_spec k k'); [congruence | reflexivity].
    + destruct (key_eqb_spec k0 k'); [reflexivity | exact IH].
Qed.

Lemma getd_links w k t : links (us (getd w k t)) = links_of w k.
Proof. unfold getd, links_of. destruct (get w k); [reflexivity|]. cbn [us]. unfold init. apply init5_links. Qed.

Lemma getd_below w k t : WInv w -> msgs_below (getd w k t).
Proof.
  intros I. unfold getd. destruct (get w k) as [u|] eqn:G; [now apply (I k)|]. unfold msgs_below. cbn [umsgs]. intros r [].
Qed.

Lemma WInv_put w k u : WInv w -> msgs_below u -> WInv (put w k u).
Proof.
  intros I B k' u' G. destruct (key_eqb_spec k' k) as [->|N].
  - rewrite get_put_same in G. now injection G as <-.
  - rewrite get_put_other in G by exact N. now apply (I k').
Qed.

Lemma links_of_put_same w k u : links_of (put w k u) k = links (us u).
Proof. unfold links_of. now rewrite get_put_same. Qed.
Lemma links_of_put_other w k u k' : k' <> k -> links_of (put w k u) k' = links_of w k'.
Proof. intros N. unfold links_of. now rewrite get_put_other. Qed.

(** what an attempt with outcome "delivered" did *)
Definition accepted_core (a : attempt) (folder : str) (p : parsed) : Prop :=
  exists k u' m l np,
    key_of (a_before a) (a_rcpt a) = Some k /\
    get (a_after a) k = Some u' /\
    links (us u') = links_of (a_before a) k ++ [l] /\
    find_name (us u') (target_folder folder p) = Some m /\ lk_mbox l = mb_id m /\
    parts_of (p_shape p) = Some np /\
    msg_of u' (lk_msg l) = Some (stored_rec (lk_msg l) p np) /\
    (forall k', k' <> k -> get (a_after a) k' = get (a_before a) k').

Definition att_ok (folder : str) (p : parsed) (a : attempt) : Prop :=
  (a_ok a = false -> rejected_ok a) /\ (a_ok a = true -> accepted_core a folder p).

Lemma deliver_message_spec w folder r p t w' ok :
  WInv w -> deliver_message w folder r p t = (w', ok) ->
  WInv w' /\ att_ok folder p (mkAtt w w' r ok).
Proof.
  intros I. unfold deliver_message. destruct (key_of w r) as [k|] eqn:K.
  - destruct (deliver_store (getd w k t) (target_folder folder p) p t) as [u' ok'] eqn:D.
    intros [= <- <-].
    destruct (deliver_store_spec _ _ _ _ _ _ (getd_below w k t I) D) as (B' & Hf & Ht).
    split; [now apply WInv_put|]. split; simpl.
    + intros E k'. simpl. destruct (key_eqb_spec k' k) as [->|N].
      * rewrite links_of_put_same, (Hf E). apply getd_links.
      * now apply links_of_put_other.
    + intros E. destruct (Ht E) as (m' & l & np & H1 & H2 & H3 & H4 & H5).
      exists k, u', m', l, np. simpl. rewrite get_put_same, <- (getd_links w k t).
      repeat split; auto. intros k' N. now apply get_put_other.
  - intros [= <- <-]. split; [exact I|]. split; simpl; [|discriminate].
    intros _ k. reflexivity.
Qed.

Lemma deliver_all_spec folder p clk rs : forall w i w' atts,
  WInv w -> deliver_all w folder rs p clk i = (w', atts) ->
  WInv w' /\ map a_rcpt atts = rs /\ chain w atts w' /\ Forall (att_ok folder p) atts.
Proof.
  induction rs as [|r rest IH]; intros w i w' atts I; simpl.
  - intros [= <- <-]. simpl. auto.
  - destruct (deliver_message w folder r p (clk i)) as [w1 ok] eqn:D.
    destruct (deliver_all w1 folder rest p clk (S i)) as [w2 atts'] eqn:A.
    intros [= <- <-]. destruct (deliver_message_spec _ _ _ _ _ _ _ I D) as (I1 & Hatt).
    destruct (IH _ _ _ _ I1 A) as (I2 & Em & Ch & Fa).
    split; [exact I2|]. simpl. rewrite Em. repeat split; auto.
Qed.

Lemma Forall2_map_self {A B} (P : B -> A -> Prop) (f : A -> B) (l : list A) :
  (forall a, In a l -> P (f a) a) -> Forall2 P (map f l) l.
Proof.
  induction l as [|x r IH]; intros H; simpl; constructor.
  - apply H. now left.
  - apply IH. intros a Ha. apply H. now right.
Qed.

(** ---- C01, outside the finding classes ------------------------------------------- *)

Lemma c01_accept_iff_visible_l w folder rs p clk :
  WInv w -> classify w folder rs p clk = None -> spec_C01 w folder rs p clk.
Proof.
  intros I. unfold classify, spec_C01, lmtp_data. destruct (p_ok p); simpl.
  - destruct (deliver_all w folder rs p clk 0) as [w' atts] eqn:A.
    destruct (deliver_all_spec _ _ _ _ _ _ _ _ I A) as (_ & Em & Ch & Fa).
    destruct (existsb (mismatch (results_of atts)) atts) eqn:Mm; [discriminate|].
    intros _.
    split; [now rewrite map_length|]. split; [exact Em|]. split; [exact Ch|].
    rewrite <- Em, map_map. apply Forall2_map_self. intros a Ha.
    pose proof (proj1 (Forall_forall _ _) Fa a Ha) as [Hrej Hacc].
    assert (Eq : a_ok a = is_2xx (reply_for (results_of atts) (a_rcpt a))).
    { destruct (Bool.eqb (a_ok a) (is_2xx (reply_for (results_of atts) (a_rcpt a)))) eqn:E.
      - now apply eqb_prop.
      - exfalso. assert (X : existsb (mismatch (results_of atts)) atts = true).
        { apply existsb_exists. exists a. split; [exact Ha|]. unfold mismatch. now rewrite E. }
        congruence. }
    unfold position_ok. rewrite <- Eq. destruct (a_ok a) eqn:Ok.
    + destruct (Hacc eq_refl) as (k & u' & m & l & np & H1 & H2 & H3 & H4 & H5 & H6 & H7 & H8).
      assert (Hpos : (0 <? np)%nat = true).
      { destruct (p_shape p); simpl in *; try discriminate; injection H6 as <-; reflexivity. }
      exists k, u', m, l. repeat split; auto.
      * unfold reconstructs. rewrite H7. destruct (stored_rec_intact (lk_msg l) p np) as (_ & A2 & _). rewrite A2. exact Hpos.
      * exists (stored_rec (lk_msg l) p np). destruct (stored_rec_intact (lk_msg l) p np) as (A1 & A2 & A3).
        rewrite A1, A2, A3. auto.
    + now apply Hrej.
  - intros _. split; [now rewrite map_length|]. split; [rewrite map_map; apply map_id|].
    split.
    + induction rs as [|r rest IH]; simpl; auto.
    + induction rs as [|r rest IH]; simpl; constructor; [|exact IH]. intros k. reflexivity.
Qed.

(** a position answered 4xx/5xx adds nothing — in EVERY transaction outside
    class CDupLastResult (the other two classes do not affect this half) *)
Lemma c01_reject_adds_nothing_l w folder rs p clk :
  WInv w ->
  let '(w', replies, atts) := lmtp_data w folder rs p clk in
  (forall a, In a atts -> mismatch (results_of atts) a = false) ->
  forall c a, In (c, a) (combine replies atts) -> is_2xx c = false -> rejected_ok a.
Proof.
  intros I. unfold lmtp_data. destruct (p_ok p); simpl.
  - destruct (deliver_all w folder rs p clk 0) as [w' atts] eqn:A.
    destruct (deliver_all_spec _ _ _ _ _ _ _ _ I A) as (_ & Em & _ & Fa).
    intros Hm c a Hin Hc. rewrite <- Em, map_map in Hin.
    assert (Ha : In a atts) by (eapply in_combine_r; eauto).
    assert (c = reply_for (results_of atts) (a_rcpt a)).
    { clear - Hin. remember (results_of atts) as m eqn:Em0. clear Em0.
      induction atts as [|x r IH]; simpl in Hin; [contradiction|].
      destruct Hin as [[= <- <-]|H]; [reflexivity | now apply IH]. }
    subst c. pose proof (proj1 (Forall_forall _ _) Fa a Ha) as [Hrej _]. apply Hrej.
    pose proof (Hm a Ha) as M. unfold mismatch in M. apply negb_false_iff, eqb_prop in M. congruence.
  - intros _ c a Hin _. apply in_combine_r in Hin. apply in_map_iff in Hin.
    destruct Hin as (r & <- & _). intros k. reflexivity.
Qed.

(** one reply per recipient, always *)
Lemma c01_one_reply_per_recipient_l w folder rs p clk :
  length (snd (fst (lmtp_data w folder rs p clk))) = length rs.
Proof.
  unfold lmtp_data. destruct (p_ok p); simpl; [|apply map_length].
  destruct (deliver_all w folder rs p clk 0). simpl. apply map_length.
Qed.

(** ---- the reply of a position whose recipient string does not occur later
         is the outcome of that position's own attempt --------------------------- *)

Lemma rlookup_results atts : forall m r,
  rlookup (fold_left (fun m a => (a_rcpt a, a_ok a) :: m) atts m) r =
  match find (fun a => str_eqb (a_rcpt a) r) (rev atts) with
  | Some a => Some (a_ok a)
  | None => rlookup m r
  end.
Proof.
  induction atts as [|x l IH]; intros m r; simpl; [reflexivity|].
  rewrite IH. clear IH. induction (rev l) as [|y q IHq]; simpl.
  - unfold rlookup. simpl. destruct (str_eqb (a_rcpt x) r); reflexivity.
  - destruct (str_eqb (a_rcpt y) r); [reflexivity | exact IHq].
Qed.

Lemma c01_mismatch_needs_duplicate_l (pre post : list attempt) (a : attempt) :
  (forall b, In b post -> a_rcpt b <> a_rcpt a) ->
  mismatch (results_of (pre ++ a :: post)) a = false.
Proof.
  intros N. unfold mismatch, reply_for, results_of. rewrite rlookup_results.
  rewrite rev_app_distr. simpl. rewrite <- app_assoc. simpl.
  assert (F : find (fun b => str_eqb (a_rcpt b) (a_rcpt a)) (rev post ++ a :: rev pre) = Some a).
  { assert (N' : forall b, In b (rev post) -> a_rcpt b <> a_rcpt a) by (intros b Hb; apply N; now apply in_rev).
    clear N. induction (rev post) as [|y q IH]; simpl.
    - now rewrite str_eqb_refl.
    - destruct (str_eqb_spec (a_rcpt y) (a_rcpt a)) as [E|_].
      + exfalso. apply (N' y); [now left | exact E].
      + apply IH. intros b Hb. apply N'. now right. }
  rewrite F. destruct (a_ok a); reflexivity.
Qed.

(** ---- an acceptable recipient is not refused when UIDNEXT is truthful ---------- *)

Lemma key_of_put w k u r : key_of (put w k u) r = key_of w r.
Proof. reflexivity. Qed.

Lemma getd_fresh w k t : WFresh w -> fresh_store (us (getd w k t)).
Proof.
  intros F. unfold getd. destruct (get w k) as [u|] eqn:G; [now apply (F k)|]. cbn [us]. unfold init. apply fresh_init5.
Qed.

Lemma deliver_message_fresh w folder r p t :
  WFresh w -> deliverable w folder r p = true ->
  exists w', deliver_message w folder r p t = (w', true) /\ WFresh w' /\ w_roles w' = w_roles w.
Proof.
  intros F D. unfold deliverable in D. apply andb_true_iff in D. destruct D as [D D3].
  apply andb_true_iff in D. destruct D as [D1 D2].
  unfold deliver_message. destruct (key_of w r) as [k|]; [|discriminate].
  destruct (deliver_store_fresh_ok (getd w k t) (target_folder folder p) p t) as (u' & E & F').
  - now apply getd_fresh.
  - intros X. rewrite X in D2. discriminate.
  - intros X. rewrite X in D3. discriminate.
  - rewrite E. eexists. split; [reflexivity|]. split; [|reflexivity].
    intros k' u0 G. destruct (key_eqb_spec k' k) as [->|N].
    + rewrite get_put_same in G. now injection G as <-.
    + rewrite get_put_other in G by exact N. now apply (F k').
Qed.

Lemma deliverable_roles w w' folder r p :
  w_roles w' = w_roles w -> deliverable w' folder r p = deliverable w folder r p.
Proof. intros E. unfold deliverable, key_of. now rewrite E. Qed.

Lemma deliver_all_fresh folder p clk rs : forall w i,
  WFresh w -> forallb (fun r => deliverable w folder r p) rs = true ->
  forallb a_ok (snd (deliver_all w folder rs p clk i)) = true.
Proof.
  induction rs as [|r rest IH]; intros w i F D; simpl; [reflexivity|].
  simpl in D. apply andb_true_iff in D. destruct D as [D1 D2].
  destruct (deliver_message_fresh w folder r p (clk i) F D1) as (w1 & E & F1 & Er).
  rewrite E. specialize (IH w1 (S i) F1).
  destruct (deliver_all w1 folder rest p clk (S i)) as [w2 atts]. simpl in *. apply IH.
  apply forallb_forall. intros x Hx. rewrite (deliverable_roles w w1 folder x p Er).
  exact (proj1 (forallb_forall _ _) D2 x Hx).
Qed.

Lemma results_all_true atts r :
  forallb a_ok atts = true -> reply_for (results_of atts) r = R250.
Proof.
  intros H. unfold reply_for, results_of. rewrite rlookup_results.
  destruct (find (fun a => str_eqb (a_rcpt a) r) (rev atts)) as [a|] eqn:F; [|reflexivity].
  apply find_some in F. destruct F as [F _]. apply in_rev in F.
  rewrite (proj1 (forallb_forall _ _) H a F). reflexivity.
Qed.

Lemma c01_no_spurious_refusal_l w folder rs p clk :
  WFresh w -> p_ok p = true -> forallb (fun r => deliverable w folder r p) rs = true ->
  Forall (fun c => c = R250) (snd (fst (lmtp_data w folder rs p clk))).
Proof.
  intros F E D. unfold lmtp_data. rewrite E. simpl.
  pose proof (deliver_all_fresh folder p clk rs w 0%nat F D) as A.
  destruct (deliver_all w folder rs p clk 0) as [w' atts]. simpl in *.
  apply Forall_forall. intros c Hc. apply in_map_iff in Hc. destruct Hc as (r & <- & _).
  now apply results_all_true.
Qed.
