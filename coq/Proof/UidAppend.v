(** C03 — APPENDUID announces the UID under which the message is then found. *)
From Coq Require Import String Ascii List Bool ZArith Lia.
From Raven Require Import Base.GoStr Model.Store Model.Ops Spec.UidSpec Proof.StoreInv.
Import ListNotations.
Local Open Scope Z_scope.

Lemma find_app_last {A} (p : A -> bool) l x :
  (forall y, In y l -> p y = false) -> p x = true -> find p (l ++ [x]) = Some x.
Proof.
  induction l as [|a l IH]; simpl; intros H Hx; [now rewrite Hx|].
  rewrite (H a (or_introl eq_refl)). apply IH; auto.
Qed.

Lemma appenduid_truthful_l : forall s f fl s' v u,
  Inv s ->
  step s (OAppend f fl) = (s', RAppendUid v u) ->
  exists m l, In m (mboxes s') /\ In l (links s') /\ mb_name m = f /\ mb_validity m = v /\
              lk_mbox l = mb_id m /\ lk_uid l = u /\ lk_msg l = next_msg s /\ lk_gid l = gser s.
Proof.
  intros s f fl s' v u I H. pose proof (inv_msg s I) as Hmsg. simpl in H. unfold op_append in H.
  destruct (find_name s f) as [m0|] eqn:Fn; [|discriminate].
  apply find_name_some in Fn. destruct Fn as [Hm0 En].
  unfold store_message in H.
  set (s2 := mkStore (mboxes s) (links s) (next_msg s + 1) (glog s) (gused s) (gser s)) in *.
  assert (E : CoreEq s s2) by (repeat split; simpl; lia).
  assert (I2 : Inv s2) by (eapply Inv_core_eq; eauto).
  assert (Hf : find_id s2 (mb_id m0) = Some m0) by (apply find_id_in; auto).
  destruct (add_message_good s2 (next_msg s) (mb_id m0) fl m0 I2 Hf ltac:(simpl; lia)) as (s3 & Ea & _ & Em & El & _).
  rewrite Ea in H.
  set (new := mkLink (fresh_id (map lk_id (links s2))) (next_msg s) (mb_id m0) (mb_next m0) fl (gser s2)) in *.
  assert (Fi : find_id s3 (mb_id m0) = Some (bump_row (mb_id m0) m0)).
  { unfold find_id. rewrite Em. pose proof (find_id_bump s2 (mb_id m0) m0 Hf) as K.
    unfold find_id, bump in K. simpl in K. exact K. }
  rewrite Fi in H. rewrite El in H.
  rewrite (find_app_last _ (links s2) new) in H.
  - injection H as <- <- <-. exists (bump_row (mb_id m0) m0), new. repeat split.
    + rewrite Em. now apply in_map.
    + rewrite El. apply in_or_app. right. now left.
    + now rewrite bump_row_name.
    + simpl. now rewrite bump_row_id.
  - intros y Hy. simpl in Hy. pose proof (Hmsg y Hy).
    destruct (lk_msg y =? next_msg s) eqn:X; [apply Z.eqb_eq in X; lia | reflexivity].
  - simpl. now rewrite !Z.eqb_refl.
Qed.

(** in a state satisfying the invariant an APPEND to an existing mailbox succeeds *)
Lemma append_succeeds_l : forall s f fl m,
  Inv s -> find_name s f = Some m ->
  exists v u, snd (step s (OAppend f fl)) = RAppendUid v u.
Proof.
  intros s f fl m I Fn. simpl. unfold op_append. rewrite Fn.
  apply find_name_some in Fn. destruct Fn as [Hm _].
  unfold store_message.
  set (s2 := mkStore (mboxes s) (links s) (next_msg s + 1) (glog s) (gused s) (gser s)).
  assert (E : CoreEq s s2) by (repeat split; simpl; lia).
  assert (I2 : Inv s2) by (eapply Inv_core_eq; eauto).
  assert (Hf : find_id s2 (mb_id m) = Some m) by (apply find_id_in; auto).
  destruct (add_message_good s2 (next_msg s) (mb_id m) fl m I2 Hf ltac:(simpl; lia)) as (s3 & -> & _).
  simpl. eauto.
Qed.
