(** The executable spec [spec_b] is implied by the propositional one (so that
    [spec_b s = false], computed on a witness, refutes it). *)
From Coq Require Import String Ascii List Bool ZArith Lia.
From Raven Require Import Base.GoStr Model.Store Model.Ops Spec.UidSpec.
Import ListNotations.
Local Open Scope Z_scope.

Lemma truthful_b_complete s : uidnext_truthful s -> truthful_b s = true.
Proof.
  intros H. unfold truthful_b. apply forallb_forall. intros m Hm.
  apply forallb_forall. intros e He.
  destruct (key_eqb e m) eqn:K; [|reflexivity]. simpl.
  unfold key_eqb in K. apply andb_true_iff in K. destruct K as [K1 K2].
  apply str_eqb_eq in K1. apply Z.eqb_eq in K2.
  apply Z.ltb_lt. now apply H.
Qed.

Lemma functional_b_complete s : uid_functional s -> functional_b s = true.
Proof.
  intros H. unfold functional_b. apply forallb_forall. intros e1 H1.
  apply forallb_forall. intros e2 H2.
  destruct (str_eqb (ge_name e1) (ge_name e2) && (ge_validity e1 =? ge_validity e2) && (ge_uid e1 =? ge_uid e2)) eqn:K;
    [|reflexivity]. simpl.
  apply andb_true_iff in K. destruct K as [K K3].
  apply andb_true_iff in K. destruct K as [K1 K2].
  apply str_eqb_eq in K1. apply Z.eqb_eq in K2. apply Z.eqb_eq in K3.
  apply Z.eqb_eq. now apply H.
Qed.

Lemma truthful_b_false s : truthful_b s = false -> ~ uidnext_truthful s.
Proof. intros E H. apply truthful_b_complete in H. congruence. Qed.

Lemma functional_b_false s : functional_b s = false -> ~ uid_functional s.
Proof. intros E H. apply functional_b_complete in H. congruence. Qed.

(** witnesses (all on the store of a new account whose default mailboxes were
    created at second 100) of the five repaired classes; the clock readings in
    [w_same_second] are the SAME second for both CREATEs *)
Definition A : str := S_ "A".
Definition TRASH : str := S_ "Trash".
Definition DELETED : str := S_ "\Deleted".

Definition w_copy_stale : list op := [OAppend INBOX []; OUidCopy 1 [UOne 1] TRASH].
Definition w_copy_reuse : list op :=
  [OAppend TRASH []; OAppend TRASH []; OAppend INBOX [];
   OUidStore 4 [UOne 2] SAdd [DELETED]; OExpunge 4; OUidCopy 1 [UOne 1] TRASH].
Definition w_move : list op := [OAppend INBOX []; OUidStore 1 [UOne 1] SAdd [JUNK]].
Definition w_rename_inbox : list op := [OAppend INBOX []; ORename INBOX A 101].
Definition w_same_second : list op :=
  [OCreate A 101; OAppend A []; ODelete A; OCreate A 101; OAppend A []].

(** regression: the first-round witnesses of the repaired classes are now clean
    histories on which the property holds *)
Lemma repaired_witnesses_fine :
  forallb (fun h => clean (init 100) h && spec_b (run h (init 100)))
          [w_copy_stale; w_copy_reuse; w_move; w_rename_inbox; w_same_second] = true.
Proof. vm_compute. reflexivity. Qed.

