(** C09: ParseSequenceSetWithDB / ParseUIDSequenceSetWithDB address exactly
    the denotation of every well-formed set. *)
From Coq Require Import String Ascii List Bool Arith ZArith Lia.
From Raven Require Import Base.GoStr Base.GoStrFacts Base.GoStrZ Model.SeqSet Spec.SeqSet Proof.SeqSetStr.
Import ListNotations.
Local Open Scope Z_scope.

Definition inst_num (top : Z) (a : snum) : snum := match a with Num n => Num n | Star => Num top end.
Definition inst (top : Z) (it : item) : item :=
  match it with One a => One (inst_num top a) | Range a b => Range (inst_num top a) (inst_num top b) end.

Definition in64 (n : Z) : Prop := 0 <= n <= max_int64.

Lemma wf_num_in64 a : wf_num a = true -> forall top, in64 top -> in64 (val top a).
Proof.
  destruct a as [n|]; simpl; intros H top Ht; [|exact Ht].
  apply andb_true_iff in H. destruct H as [H1 H2]. apply Z.leb_le in H1. apply Z.ltb_lt in H2.
  unfold in64, max_int64. lia.
Qed.

Lemma wf_num_pos a : wf_num a = true -> forall top, 0 < top -> 0 < val top a.
Proof.
  destruct a as [n|]; simpl; intros H top Ht; [|exact Ht].
  apply andb_true_iff in H. destruct H as [H1 _]. apply Z.leb_le in H1. lia.
Qed.

(** printed numbers *)
Lemma print_num_no_byte a c : wf_num a = true -> is_digit c = false -> Ascii.eqb c c_star = false ->
  contains_byte (print_num a) c = false.
Proof.
  destruct a as [n|]; simpl; intros H Hc Hs.
  - apply digits_no_byte; [|exact Hc]. apply itoa_digits.
    apply (wf_num_in64 (Num n) H 0). unfold in64, max_int64. lia.
  - unfold contains_byte. simpl. unfold c_star in Hs. now rewrite Hs.
Qed.

Lemma print_num_nospace a : wf_num a = true -> forallb (fun c => negb (is_space c)) (print_num a) = true.
Proof.
  destruct a as [n|]; simpl; intros H; [|reflexivity].
  apply digits_no_space, itoa_digits. apply (wf_num_in64 (Num n) H 0). unfold in64, max_int64. lia.
Qed.

Lemma print_item_no_comma it : wf_item it = true -> contains_byte (print_item it) c_comma = false.
Proof.
  destruct it as [a|a b]; cbn [print_item wf_item]; intros H.
  - now apply print_num_no_byte.
  - apply andb_true_iff in H. destruct H as [Ha Hb].
    rewrite !contains_byte_app, !print_num_no_byte by (assumption || reflexivity). reflexivity.
Qed.

Lemma print_item_nospace it : wf_item it = true -> forallb (fun c => negb (is_space c)) (print_item it) = true.
Proof.
  destruct it as [a|a b]; cbn [print_item wf_item]; intros H.
  - now apply print_num_nospace.
  - apply andb_true_iff in H. destruct H as [Ha Hb].
    rewrite !forallb_app, !print_num_nospace by assumption. reflexivity.
Qed.

Lemma wf_forall s : wf s = true -> s <> [] /\ forall it, In it s -> wf_item it = true.
Proof.
  destruct s as [|x s]; [discriminate|]. intros H. split; [discriminate|].
  unfold wf in H. now apply forallb_forall.
Qed.

Lemma split_print s : wf s = true -> split_byte (print s) c_comma = map print_item s.
Proof.
  intros H. destruct (wf_forall s H) as [Hne Hall]. unfold print. apply split_join.
  - destruct s; [congruence | discriminate].
  - apply Forall_forall. intros x Hx. apply in_map_iff in Hx. destruct Hx as (it & <- & Hit).
    now apply print_item_no_comma, Hall.
Qed.

(** "*" textually replaced by the count *)
Lemma replace_print_num a top : wf_num a = true -> in64 top ->
  replace_byte (print_num a) c_star (itoa top) = itoa (val top a).
Proof.
  destruct a as [n|]; simpl; intros H Ht.
  - apply replace_byte_id, digits_no_byte; [|reflexivity]. apply itoa_digits.
    apply (wf_num_in64 (Num n) H 0). unfold in64, max_int64. lia.
  - unfold replace_byte. simpl. now rewrite app_nil_r.
Qed.

Definition pr_inst (top : Z) (it : item) : str :=
  match it with
  | One a => itoa (val top a)
  | Range a b => itoa (val top a) ++ [c_colon] ++ itoa (val top b)
  end.

Lemma replace_print_item it top : wf_item it = true -> in64 top ->
  replace_byte (print_item it) c_star (itoa top) = pr_inst top it.
Proof.
  destruct it as [a|a b]; cbn [print_item wf_item pr_inst]; intros H Ht.
  - now apply replace_print_num.
  - apply andb_true_iff in H. destruct H as [Ha Hb].
    rewrite !replace_byte_app, !replace_print_num by assumption. reflexivity.
Qed.

Lemma pr_inst_no_comma it top : wf_item it = true -> in64 top -> contains_byte (pr_inst top it) c_comma = false.
Proof.
  intros H Ht. destruct it as [a|a b]; cbn [pr_inst wf_item] in *.
  - apply digits_no_byte; [|reflexivity]. now apply itoa_digits, wf_num_in64.
  - apply andb_true_iff in H. destruct H as [Ha Hb].
    rewrite !contains_byte_app.
    rewrite (digits_no_byte (itoa (val top a))), (digits_no_byte (itoa (val top b)));
      try reflexivity; now apply itoa_digits, wf_num_in64.
Qed.

Lemma split_replaced s top : wf s = true -> in64 top ->
  split_byte (replace_byte (print s) c_star (itoa top)) c_comma = map (pr_inst top) s.
Proof.
  intros H Ht. destruct (wf_forall s H) as [Hne Hall]. unfold print.
  rewrite replace_byte_join by reflexivity. rewrite map_map.
  rewrite (map_ext_in _ (pr_inst top)) by (intros it Hit; apply replace_print_item; auto).
  apply split_join.
  - destruct s; [congruence | discriminate].
  - apply Forall_forall. intros x Hx. apply in_map_iff in Hx. destruct Hx as (it & <- & Hit).
    apply pr_inst_no_comma; auto.
Qed.

(** one part of ParseSequenceSetWithDB on an instantiated item *)
Lemma seq_part_item it total i : wf_item it = true -> in64 total -> 0 < total ->
  In i (seq_part total (pr_inst total it)) <-> (1 <= i <= total /\ denote_item total it i = true).
Proof.
  intros H Ht Hpos. destruct it as [a|a b]; simpl in H.
  - pose proof (wf_num_in64 a H total Ht) as Ha. pose proof (wf_num_pos a H total Hpos) as Hp.
    unfold seq_part, pr_inst. rewrite trim_space_id by (apply digits_no_space, itoa_digits, Ha).
    rewrite digits_no_byte by (try reflexivity; apply itoa_digits, Ha).
    rewrite atoi_itoa by exact Ha.
    replace (0 <? val total a) with true by (symmetry; apply Z.ltb_lt; lia). simpl.
    destruct (val total a <=? total) eqn:E.
    + apply Z.leb_le in E. simpl. rewrite Z.eqb_eq. lia.
    + apply Z.leb_gt in E. simpl. rewrite Z.eqb_eq. lia.
  - apply andb_true_iff in H. destruct H as [Hwa Hwb].
    pose proof (wf_num_in64 a Hwa total Ht) as Ha. pose proof (wf_num_pos a Hwa total Hpos) as Hpa.
    pose proof (wf_num_in64 b Hwb total Ht) as Hb. pose proof (wf_num_pos b Hwb total Hpos) as Hpb.
    assert (Da : forallb is_digit (itoa (val total a)) = true) by now apply itoa_digits.
    assert (Db : forallb is_digit (itoa (val total b)) = true) by now apply itoa_digits.
    unfold seq_part, pr_inst.
    rewrite trim_space_id
      by (rewrite !forallb_app, (digits_no_space _ Da), (digits_no_space _ Db); reflexivity).
    rewrite !contains_byte_app. replace (contains_byte [c_colon] c_colon) with true by reflexivity.
    rewrite orb_true_l, orb_true_r.
    rewrite split_byte_two by (apply digits_no_byte; [assumption | reflexivity]).
    rewrite !atoi_itoa by assumption.
    replace (0 <? val total a) with true by (symmetry; apply Z.ltb_lt; lia).
    replace (0 <? val total b) with true by (symmetry; apply Z.ltb_lt; lia). cbn [andb].
    unfold denote_item. destruct (val total b <? val total a) eqn:E.
    + apply Z.ltb_lt in E. rewrite in_zrange, andb_true_iff, !Z.leb_le. lia.
    + apply Z.ltb_ge in E. rewrite in_zrange, andb_true_iff, !Z.leb_le. lia.
Qed.

Theorem store_set_exact : forall (s : seqset) (total i : Z),
  wf s = true -> in64 total ->
  (In i (parse_seqset_db (print s) total) <-> In i (addressed s total)).
Proof.
  intros s total i H Ht. unfold parse_seqset_db, addressed.
  rewrite filter_In, in_zrange. unfold denote. rewrite existsb_exists.
  destruct (total =? 0) eqn:E0.
  - apply Z.eqb_eq in E0. subst. simpl. lia.
  - apply Z.eqb_neq in E0. assert (Hpos : 0 < total) by (unfold in64 in Ht; lia).
    rewrite split_replaced by assumption. rewrite in_flat_map.
    destruct (wf_forall s H) as [_ Hall]. split.
    + intros (x & Hx & Hi). apply in_map_iff in Hx. destruct Hx as (it & <- & Hit).
      apply seq_part_item in Hi; auto. destruct Hi as [Hr Hd]. split; [exact Hr|]. now exists it.
    + intros (Hr & it & Hit & Hd). exists (pr_inst total it). split; [now apply in_map|].
      apply seq_part_item; auto.
Qed.

(** ---- UID sets ---- *)

Lemma max_uid_same uids : max_uid_of uids = max_uid uids.
Proof. reflexivity. Qed.

Lemma max_uid_ge uids u : In u uids -> u <= max_uid uids.
Proof.
  induction uids as [|x l IH]; [contradiction|]. simpl. intros [->|H]; [lia|]. specialize (IH H). lia.
Qed.

Lemma max_uid_in uids : uids <> [] -> Forall (fun u => 0 < u) uids -> In (max_uid uids) uids.
Proof.
  induction uids as [|x l IH]; [congruence|]. intros _ HF. inversion HF as [|? ? Hx Hl]; subst.
  destruct l as [|y l].
  - simpl. left. lia.
  - assert (K : In (max_uid (y :: l)) (y :: l)) by (apply IH; [discriminate | exact Hl]).
    change (max_uid (x :: y :: l)) with (Z.max x (max_uid (y :: l))).
    destruct (Z.max_spec x (max_uid (y :: l))) as [[_ E]|[_ E]]; rewrite E; [right; exact K | left; reflexivity].
Qed.

Lemma print_num_star_eq a : wf_num a = true ->
  str_eqb (print_num a) s_star = match a with Star => true | Num _ => false end.
Proof.
  destruct a as [n|]; simpl; intros H; [|reflexivity].
  assert (Hi : in64 n) by (apply (wf_num_in64 (Num n) H 0); unfold in64, max_int64; lia).
  pose proof (itoa_digits n Hi) as Hd. pose proof (itoa_nonempty n Hi) as Hne.
  destruct (itoa n) as [|c r]; [congruence|]. simpl in Hd. apply andb_true_iff in Hd. destruct Hd as [Hc _].
  destruct (digit_facts c Hc) as (_ & Hs & _). unfold s_star, c_star. simpl. now rewrite Hs.
Qed.

Lemma uid_bound a maxu : wf_num a = true ->
  (if str_eqb (print_num a) s_star then maxu else atoi_lossy (print_num a)) = val maxu a.
Proof.
  intros H. rewrite print_num_star_eq by exact H. destruct a as [n|]; [|reflexivity].
  simpl. apply atoi_lossy_itoa. apply (wf_num_in64 (Num n) H 0). unfold in64, max_int64. lia.
Qed.

Lemma uid_part_item it uids u : wf_item it = true -> uids <> [] -> Forall (fun u => 0 < u) uids ->
  In u (uid_part uids (max_uid uids) (print_item it)) <-> (In u uids /\ denote_item (max_uid uids) it u = true).
Proof.
  intros H Hne Hpos. unfold uid_part. rewrite trim_space_id by now apply print_item_nospace.
  destruct it as [a|a b]; simpl in H; cbn [print_item].
  - rewrite print_num_star_eq by exact H. destruct a as [n|].
    + assert (Hi : in64 n) by (apply (wf_num_in64 (Num n) H 0); unfold in64, max_int64; lia).
      cbn [print_num]. rewrite digits_no_byte by (try reflexivity; now apply itoa_digits).
      rewrite atoi_itoa by exact Hi. unfold denote_item, val.
      destruct (existsb (Z.eqb n) uids) eqn:E.
      * apply existsb_exists in E. destruct E as (x & Hx & Ex). apply Z.eqb_eq in Ex. subst x.
        simpl. rewrite Z.eqb_eq. split; [intros [<-|[]]; auto | intros [_ ->]; auto].
      * simpl. split; [contradiction|]. intros [Hin Eq]. apply Z.eqb_eq in Eq. subst u.
        assert (existsb (Z.eqb n) uids = true) by (apply existsb_exists; exists n; split; [exact Hin | apply Z.eqb_refl]).
        congruence.
    + simpl. rewrite Z.eqb_eq. split.
      * intros [<-|[]]. split; [now apply max_uid_in | reflexivity].
      * intros [_ ->]. now left.
  - apply andb_true_iff in H. destruct H as [Hwa Hwb].
    assert (Hc : contains_byte (print_num a ++ [c_colon] ++ print_num b) c_colon = true).
    { rewrite !contains_byte_app. replace (contains_byte [c_colon] c_colon) with true by reflexivity.
      now rewrite orb_true_l, orb_true_r. }
    assert (Es : str_eqb (print_num a ++ [c_colon] ++ print_num b) s_star = false).
    { destruct (str_eqb (print_num a ++ [c_colon] ++ print_num b) s_star) eqn:Es; [|reflexivity].
      apply str_eqb_eq in Es. rewrite Es in Hc. discriminate. }
    change (":"%char) with c_colon. rewrite Es, Hc.
    rewrite split_byte_two by (apply print_num_no_byte; auto).
    rewrite !uid_bound by assumption.
    unfold denote_item. destruct (val (max_uid uids) b <? val (max_uid uids) a) eqn:E.
    + apply Z.ltb_lt in E. rewrite filter_In, !andb_true_iff, !Z.leb_le.
      split; intros [H1 H2]; (split; [exact H1 | lia]).
    + apply Z.ltb_ge in E. rewrite filter_In, !andb_true_iff, !Z.leb_le.
      split; intros [H1 H2]; (split; [exact H1 | lia]).
Qed.

Theorem uid_set_exact : forall (s : seqset) (uids : list Z) (u : Z),
  wf s = true -> Forall (fun u => 0 < u) uids ->
  (In u (parse_uidset_db (print s) uids) <-> In u (addressed_uids s uids)).
Proof.
  intros s uids u H Hpos. unfold parse_uidset_db, addressed_uids. rewrite max_uid_same.
  rewrite filter_In. unfold denote. rewrite existsb_exists.
  destruct uids as [|x l].
  - simpl. tauto.
  - assert (Hne : x :: l <> []) by discriminate.
    pose proof (max_uid_in (x :: l) Hne Hpos) as Hin.
    assert (Hm : 0 < max_uid (x :: l)) by (rewrite Forall_forall in Hpos; now apply Hpos).
    replace (max_uid (x :: l) =? 0) with false by (symmetry; apply Z.eqb_neq; lia).
    rewrite split_print by exact H. rewrite in_flat_map.
    destruct (wf_forall s H) as [_ Hall]. split.
    + intros (p & Hp & Hi). apply in_map_iff in Hp. destruct Hp as (it & <- & Hit).
      apply uid_part_item in Hi; auto. destruct Hi as [Hu Hd]. split; [exact Hu|]. now exists it.
    + intros (Hu & it & Hit & Hd). exists (print_item it). split; [now apply in_map|].
      apply uid_part_item; auto.
Qed.

(** non-vacuity helpers *)
Lemma addressed_bounds s total i : In i (addressed s total) -> 1 <= i <= total.
Proof. unfold addressed. rewrite filter_In, in_zrange. tauto. Qed.
