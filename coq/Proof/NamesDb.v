(** C11 (after the fix of the LIKE child query): outside the remaining finding classes db.RenameMailboxPerUser and
    db.DeleteMailboxPerUser compute the set semantics of Spec/Names.v. *)
From Coq Require Import String Ascii List Bool Arith ZArith Lia.
From Raven Require Import Base.GoStr Base.GoStrFacts Model.Pattern Model.Names Spec.Names
  Proof.NamesRange Proof.NamesUpdates Proof.NamesParents.
Import ListNotations.

Lemma filter_range_children old ns : filter (child_range old) ns = filter (is_child old) ns.
Proof. apply filter_ext. intros m. apply child_range_is_child. Qed.

Lemma existsb_false_forall {A} (f : A -> bool) l : existsb f l = false -> forall x, In x l -> f x = false.
Proof.
  intros H x Hx. destruct (f x) eqn:E; [|reflexivity].
  assert (existsb f l = true) by (apply existsb_exists; eauto). congruence.
Qed.

(** RENAME old new (neither is INBOX) on a table where no name lies below [new]: parents of
    [new] are added, the row and exactly its children move, nothing else changes *)
Theorem db_rename_clean bs old new :
  NoDup (names bs) ->
  str_eqb (to_upper new) INBOX = false -> str_eqb (to_upper old) INBOX = false ->
  exists_box bs old = true -> exists_box bs new = false ->
  existsb (fun m => is_child new m) (names (add_missing (parents new) bs)) = false ->
  db_rename bs old new = (map (ren old new) (add_missing (parents new) bs), ROk).
Proof.
  intros Hnd Hn Ho Eo En Hfree.
  unfold db_rename. rewrite Hn, Ho, Eo, En. simpl.
  rewrite create_missing_parents. set (bs1 := add_missing (parents new) bs) in *.
  assert (Hnew1 : ~ In new (names bs1)).
  { unfold bs1. rewrite add_missing_names. intros [H|H].
    - apply exists_box_false in En. contradiction.
    - apply parents_child in H. rewrite is_child_self in H. discriminate. }
  rewrite filter_range_children.
  destruct (rename_tx_clean bs1 old new) as (us & E1 & E2).
  - unfold bs1. now apply add_missing_nodup.
  - exact Hnew1.
  - intros m Hm. now apply (existsb_false_forall _ _ Hfree).
  - rewrite E1. unfold upd_name. rewrite (proj2 (exists_box_false bs1 new) Hnew1), andb_false_r.
    rewrite E2. reflexivity.
Qed.

(** DELETE: the children test is the hierarchical one, the protected names are exact *)
Theorem db_delete_clean bs n :
  db_delete bs n =
  if str_eqb (to_upper n) INBOX then (bs, RNo)
  else if negb (exists_box bs n) then (bs, RNo)
  else if existsb (fun b => is_child n (mb_name b)) bs then (bs, RNo)
  else if mem_str n protected_names then (bs, RNo)
  else (filter (fun b => negb (str_eqb (mb_name b) n)) bs, ROk).
Proof.
  unfold db_delete.
  replace (existsb (fun b => child_range n (mb_name b)) bs)
    with (existsb (fun b => is_child n (mb_name b)) bs); [reflexivity|].
  induction bs as [|b bs IH]; simpl; [reflexivity|]. now rewrite IH, child_range_is_child.
Qed.

(** what the set semantics of RENAME means, name by name *)
Theorem ren_names old new bs m :
  In m (names (map (ren old new) bs)) <->
  exists k, In k (names bs) /\
    m = (if str_eqb k old then new else if is_child old k then new ++ skipn (length old) k else k).
Proof.
  unfold names. rewrite map_map, in_map_iff. split.
  - intros (b & E & Hb). exists (mb_name b). split; [now apply in_map|].
    rewrite <- E. unfold ren. destruct (str_eqb (mb_name b) old); [reflexivity|].
    destruct (is_child old (mb_name b)); reflexivity.
  - intros (k & Hk & ->). apply in_map_iff in Hk as (b & <- & Hb). exists b. split; [|exact Hb].
    unfold ren. destruct (str_eqb (mb_name b) old); [reflexivity|].
    destruct (is_child old (mb_name b)); reflexivity.
Qed.

(** cargo travels with the name: RENAME changes no row's links or uid_next *)
Theorem ren_keeps_cargo old new b :
  mb_msgs (ren old new b) = mb_msgs b /\ mb_next (ren old new b) = mb_next b.
Proof.
  unfold ren. destruct (str_eqb (mb_name b) old); [split; reflexivity|].
  destruct (is_child old (mb_name b)); split; reflexivity.
Qed.

Lemma canon_inbox n : str_eqb (canon n) INBOX = str_eqb (to_upper n) INBOX.
Proof.
  unfold canon, normalize_name, equal_fold. change (to_upper INBOX) with INBOX.
  destruct (str_eqb (to_upper n) INBOX) eqn:E; [apply str_eqb_refl|].
  apply str_eqb_neq. intros ->. apply str_eqb_neq in E. apply E. reflexivity.
Qed.

(** the same two facts against the spec functions *)
Theorem db_rename_refines st old new :
  NoDup (names (boxes st)) ->
  is_nil old = false -> is_nil new = false -> reserved new = false ->
  str_eqb (canon new) INBOX = false -> str_eqb (canon old) INBOX = false ->
  exists_box (boxes st) old = true -> exists_box (boxes st) new = false ->
  existsb (fun m => is_child new m) (names (add_missing (parents new) (boxes st))) = false ->
  (let '(bs, r) := db_rename (boxes st) old new in (with_boxes st bs, r)) = spec_rename st old new.
Proof.
  intros Hnd Ho Hn Hr Cn Co Eo En H5.
  unfold spec_rename. rewrite Ho, Hn, Hr, Cn, Co, Eo, En. simpl.
  rewrite canon_inbox in Cn, Co. rewrite db_rename_clean by assumption.
  rewrite nodupb_true; [reflexivity|].
  apply ren_nodup.
  - now apply add_missing_nodup.
  - rewrite add_missing_names. intros [H|H].
    + apply exists_box_false in En. contradiction.
    + apply parents_child in H. rewrite is_child_self in H. discriminate.
  - intros m Hm. now apply (existsb_false_forall _ _ H5).
Qed.

Theorem db_delete_refines st n :
  is_nil n = false ->
  (let '(bs, r) := db_delete (boxes st) n in (with_boxes st bs, r)) = spec_delete st n.
Proof.
  intros Hn. unfold spec_delete. rewrite Hn, canon_inbox, db_delete_clean.
  destruct (str_eqb (to_upper n) INBOX); [destruct st; reflexivity|].
  destruct (negb (exists_box (boxes st) n)); [destruct st; reflexivity|].
  destruct (existsb (fun b => is_child n (mb_name b)) (boxes st)); [destruct st; reflexivity|].
  destruct (mem_str n protected_names); [destruct st; reflexivity|]. reflexivity.
Qed.
