(** C01 — concrete witnesses.  No class is reproducible on raven's current
    code any more; the result-map defect is still in the code but
    needs a store whose UIDNEXT lags behind, which no operation produces any
    more (raven 02d2f67, 30e4be8): it is witnessed on such a world, not on a
    history.  The repaired behaviours are kept as regression examples. *)
From Coq Require Import String Ascii List Bool ZArith Lia.
From Raven Require Import Base.GoStr Model.Store Model.Ops Model.Deliver Spec.DeliverSpec.
Import ListNotations.
Local Open Scope Z_scope.

Definition U1 : str := S_ "u@example.com".
Definition U2 : str := S_ "v@example.com".
Definition KU1 : key := KUser (S_ "u") (S_ "example.com").
Definition clk0 : nat -> Z := fun _ => 100.
Definition p_plain : parsed := mkParsed true false 3 Single 0 false.
Definition p_noparse : parsed := mkParsed false false 2 Single 0 false.
Definition p_nob : parsed := mkParsed true false 5 MultiNoBoundary 0 false.

(** ---- the result map, on a world whose INBOX has UIDNEXT behind ----------------- *)

Definition force_link (s : store) (uid : Z) : store :=
  match insert_link s 1 1 uid [] with Some s' => s' | None => s end.

(** INBOX holds UIDs 1 and 2, uid_next = 2 (what "deliver; UID COPY 1 INBOX"
    left behind before raven 02d2f67) *)
Definition s_lag : store := force_link (fst (op_deliver (init 100) INBOX 100)) 2.
(** INBOX holds UIDs 1 and 3, uid_next = 2 *)
Definition s_gap : store := force_link (fst (op_deliver (init 100) INBOX 100)) 3.
Definition w_lag : world := mkW [] [(KU1, mkU s_lag [])].
Definition w_gap : world := mkW [] [(KU1, mkU s_gap [])].

Lemma WInv_one k s : WInv (mkW [] [(k, mkU s [])]).
Proof.
  intros k' u G. unfold get in G. simpl in G. destruct (key_eqb k k'); [|discriminate].
  injection G as <-. intros r [].
Qed.

Lemma refuted_dup_last_result :
  exists w folder rs p clk, WInv w /\
    classify w folder rs p clk = Some CDupLastResult /\
    snd (fst (lmtp_data w folder rs p clk)) = [R250; R250] /\
    ~ spec_C01 w folder rs p clk.
Proof.
  exists w_lag, INBOX, [U1; U1], p_plain, clk0. split; [apply WInv_one|].
  split; [vm_compute; reflexivity|]. split; [vm_compute; reflexivity|].
  unfold spec_C01.
  remember (lmtp_data w_lag INBOX [U1; U1] p_plain clk0) as res eqn:E.
  vm_compute in E. subst res.
  intros (_ & _ & _ & H). inversion H as [|c a rc ra Hp _]; subst. clear H.
  unfold position_ok in Hp. simpl in Hp.
  destruct Hp as (k & u' & m & l & Hk & Hg & Hl & _).
  vm_compute in Hk. injection Hk as <-. vm_compute in Hg. injection Hg as <-.
  unfold links_of in Hl. vm_compute in Hl. discriminate.
Qed.

Lemma refuted_dup_rejected_but_stored :
  exists w folder rs p clk, WInv w /\
    classify w folder rs p clk = Some CDupLastResult /\
    snd (fst (lmtp_data w folder rs p clk)) = [R550; R550] /\
    ~ spec_C01 w folder rs p clk.
Proof.
  exists w_gap, INBOX, [U1; U1], p_plain, clk0. split; [apply WInv_one|].
  split; [vm_compute; reflexivity|]. split; [vm_compute; reflexivity|].
  unfold spec_C01.
  remember (lmtp_data w_gap INBOX [U1; U1] p_plain clk0) as res eqn:E.
  vm_compute in E. subst res.
  intros (_ & _ & _ & H). inversion H as [|c a rc ra Hp _]; subst. clear H.
  unfold position_ok in Hp. simpl in Hp. specialize (Hp KU1).
  unfold links_of in Hp. vm_compute in Hp. discriminate.
Qed.

(** ---- regression scenarios: the histories that used to fail ------------------- *)

(** deliver one message to u; the user copies it inside INBOX *)
Definition h_stale : list wop :=
  [WLmtp INBOX [U1] p_plain clk0; WImap KU1 100 (OUidCopy 1 [UOne 1] INBOX)].
Definition h_gap : list wop :=
  [WLmtp INBOX [U1] p_plain clk0; WImap KU1 100 (OUidCopy 1 [UOne 1] INBOX);
   WImap KU1 100 (OUidCopy 1 [UOne 1] INBOX);
   WImap KU1 100 (OUidStore 1 [UOne 2] SAdd [S_ "\Deleted"]); WImap KU1 100 (OExpunge 1)].

(** non-vacuity: a transaction outside every class, after a history with
    deliveries, an APPEND, a UID COPY into another mailbox, EXPUNGE, a rename of
    the (emptied) INBOX; recipients: a user with history, a new user, a role
    address, a duplicate, a malformed address *)
Definition R1 : str := S_ "sales@example.com".
Definition h_mixed : list wop :=
  [WLmtp INBOX [U1; R1] p_plain clk0;
   WImap KU1 100 (OAppend INBOX [S_ "\Seen"]);
   WImap KU1 100 (OUidCopy 1 [UOne 1] (S_ "Trash"));
   WImap KU1 100 (OUidStore 1 [URange 1 2] SAdd [S_ "\Deleted"]);
   WImap KU1 100 (OExpunge 1);
   WImap KU1 101 (ORename INBOX (S_ "Old") 101)].
Definition p_multi : parsed := mkParsed true false 5 (MultiB 3) 1 false.
Definition rs_mixed : list str := [U1; U2; R1; U1; S_ "bad"; S_ "x@y@z"].
