(** C01 — concrete witnesses: raven's current code violates the statement in
    three classes (and refuses acceptable recipients after a UID COPY). *)
From Coq Require Import String Ascii List Bool ZArith Lia.
From Raven Require Import Base.GoStr Model.Store Model.Ops Model.Deliver Spec.DeliverSpec.
Import ListNotations.
Local Open Scope Z_scope.

Definition U1 : str := S_ "u@example.com".
Definition U2 : str := S_ "v@example.com".
Definition KU1 : key := KUser (S_ "u") (S_ "example.com").
Definition clk0 : nat -> Z := fun _ => 100.
Definition p_plain : parsed := mkParsed true false 3 Single.
Definition p_noparse : parsed := mkParsed false false 2 Single.
Definition p_nob : parsed := mkParsed true false 5 MultiNoBoundary.

(** deliver one message to u; the user copies it inside INBOX (UID COPY 1 INBOX:
    UID 2 is taken, uid_next stays 2) *)
Definition h_stale : list wop :=
  [WLmtp INBOX [U1] p_plain clk0; WImap KU1 100 (OUidCopy 1 [UOne 1] INBOX)].

Lemma refuted_single_554 :
  exists w folder rs p clk, classify w folder rs p clk = Some CSingle554 /\ ~ spec_C01 w folder rs p clk.
Proof.
  exists (w0 []), INBOX, [U1; U2], p_noparse, clk0. split; [reflexivity|].
  unfold spec_C01. simpl. intros (H & _). discriminate.
Qed.

Lemma refuted_noboundary :
  exists w folder rs p clk, classify w folder rs p clk = Some CNoBoundary /\ ~ spec_C01 w folder rs p clk.
Proof.
  exists (w0 []), INBOX, [U1], p_nob, clk0. split; [vm_compute; reflexivity|].
  unfold spec_C01.
  remember (lmtp_data (w0 []) INBOX [U1] p_nob clk0) as res eqn:E. vm_compute in E. subst res.
  intros (_ & _ & _ & H). inversion H as [|c a rc ra Hp _]; subst. clear H.
  unfold position_ok in Hp. simpl in Hp.
  destruct Hp as (k & u' & m & l & Hk & Hg & Hl & _ & _ & Hr & _).
  vm_compute in Hk. injection Hk as <-. vm_compute in Hg. injection Hg as <-.
  unfold links_of in Hl. vm_compute in Hl. injection Hl as <-.
  vm_compute in Hr. discriminate.
Qed.

Lemma refuted_dup_last_result :
  exists h folder rs p clk,
    classify (wrun h (w0 [])) folder rs p clk = Some CDupLastResult /\
    ~ spec_C01 (wrun h (w0 [])) folder rs p clk.
Proof.
  exists h_stale, INBOX, [U1; U1], p_plain, clk0. split; [vm_compute; reflexivity|].
  unfold spec_C01.
  remember (lmtp_data (wrun h_stale (w0 [])) INBOX [U1; U1] p_plain clk0) as res eqn:E.
  vm_compute in E. subst res.
  intros (_ & _ & _ & H). inversion H as [|c a rc ra Hp _]; subst. clear H.
  unfold position_ok in Hp. simpl in Hp.
  destruct Hp as (k & u' & m & l & Hk & Hg & Hl & _).
  vm_compute in Hk. injection Hk as <-. vm_compute in Hg. injection Hg as <-.
  unfold links_of in Hl. vm_compute in Hl. discriminate.
Qed.

(** deliver; UID COPY 1 INBOX twice; expunge UID 2: uid_next = 2 is free, 3 is
    taken.  <u>,<u>: the first attempt stores UID 2, the second fails; both
    positions are answered 550 although one message was added *)
Definition h_gap : list wop :=
  [WLmtp INBOX [U1] p_plain clk0; WImap KU1 100 (OUidCopy 1 [UOne 1] INBOX);
   WImap KU1 100 (OUidCopy 1 [UOne 1] INBOX);
   WImap KU1 100 (OUidStore 1 [UOne 2] SAdd [S_ "\Deleted"]); WImap KU1 100 (OExpunge 1)].

Lemma refuted_dup_rejected_but_stored :
  exists h folder rs p clk,
    classify (wrun h (w0 [])) folder rs p clk = Some CDupLastResult /\
    snd (fst (lmtp_data (wrun h (w0 [])) folder rs p clk)) = [R550; R550] /\
    ~ spec_C01 (wrun h (w0 [])) folder rs p clk.
Proof.
  exists h_gap, INBOX, [U1; U1], p_plain, clk0. split; [vm_compute; reflexivity|].
  split; [vm_compute; reflexivity|].
  unfold spec_C01.
  remember (lmtp_data (wrun h_gap (w0 [])) INBOX [U1; U1] p_plain clk0) as res eqn:E.
  vm_compute in E. subst res.
  intros (_ & _ & _ & H). inversion H as [|c a rc ra Hp _]; subst. clear H.
  unfold position_ok in Hp. simpl in Hp. specialize (Hp KU1).
  unfold links_of in Hp. vm_compute in Hp. discriminate.
Qed.

(** the same history, one acceptable recipient: refused with 550 *)
Lemma refuted_stale_uidnext_refusal :
  exists h folder rs p clk,
    p_ok p = true /\ forallb (fun r => deliverable (wrun h (w0 [])) folder r p) rs = true /\
    snd (fst (lmtp_data (wrun h (w0 [])) folder rs p clk)) = [R550].
Proof.
  exists h_stale, INBOX, [U1], p_plain, clk0. split; [reflexivity|]. split; vm_compute; reflexivity.
Qed.

(** non-vacuity: a transaction outside every class, after a history with
    deliveries, an APPEND, a UID COPY into another mailbox, EXPUNGE, a rename of
    the (emptied) INBOX; recipients: a user with history, a new user, a role
    address, a duplicate, a malformed address *)
Definition R1 : str := S_ "sales@example.com".
Definition h_mixed : list wop :=
  [WLmtp INBOX [U1; R1] p_plain clk0;
   WImap KU1 100 (OAppend INBOX [S_ "\Seen"]);
   WImap KU1 100 (OUidCopy 1 [UOne 1] (S_ "Trash"));
   WImap KU1 100 (OUidStore 1 [URange 1 2] SAdd [S_ "\Deleted"]);
   WImap KU1 100 (OExpunge 1);
   WImap KU1 101 (ORename INBOX (S_ "Old") 101)].
Definition p_multi : parsed := mkParsed true false 5 (MultiB 3).
Definition rs_mixed : list str := [U1; U2; R1; U1; S_ "bad"; S_ "x@y@z"].
