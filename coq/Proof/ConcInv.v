(** C08 — invariants of the concurrent model, for EVERY schedule and any
    number of threads (induction over the schedule). *)
From Coq Require Import String Ascii List Bool ZArith Lia Arith.
From Raven Require Import Base.GoStr Model.Store Model.Ops Model.Conc Proof.StoreInv Proof.ConcStore.
Import ListNotations.
Local Open Scope Z_scope.

(** ---- lists ----------------------------------------------------------------------- *)

Lemma nth_error_replace {A} (x : A) : forall l i j,
  nth_error (replace i x l) j =
  if Nat.eqb j i then match nth_error l i with Some _ => Some x | None => None end
  else nth_error l j.
Proof.
  induction l as [|y r IH]; intros i j.
  - simpl. destruct i, j; simpl; try reflexivity; destruct (Nat.eqb _ _); reflexivity.
  - destruct i as [|i], j as [|j]; simpl; try reflexivity. apply IH.
Qed.

Lemma replace_length {A} (x : A) : forall l i, length (replace i x l) = length l.
Proof. induction l; destruct i; simpl; auto. Qed.

(** ---- what one micro-step of a thread does -------------------------------------------- *)

Inductive effect (s : store) (th : thread) (s' : store) (th' : thread) : Prop :=
| EQuiet : links s' = links s -> next_msg s' = next_msg s ->
           owns th' = owns th -> is_okst th' = is_okst th ->
           (is_okst th = true -> t_st th' = t_st th) -> effect s th s' th'
| EStore mb : t_st th = SStore mb -> links s' = links s -> next_msg s' = next_msg s + 1 ->
           t_st th' = SAlloc mb (next_msg s) -> effect s th s' th'
| EInsert mb m u : t_st th = SInsert mb m u ->
           insert_link s m mb u (prog_flags (t_prog th)) = Some s' ->
           t_st th' = SOk mb m u -> effect s th s' th'
| EAtomic a : t_prog th = PAtomic a -> t_st th = SAtomic ->
           s' = fst (step s (aop_op a)) -> owns th' = None -> is_okst th' = false ->
           effect s th s' th'.

Lemma bump_links s mb : links (bump s mb) = links s /\ next_msg (bump s mb) = next_msg s.
Proof. split; reflexivity. Qed.

Lemma thread_step_effect s th s' th' :
  thread_step s th = (s', th') -> t_prog th' = t_prog th /\ effect s th s' th'.
Proof.
  destruct th as [p st]. unfold thread_step, store_message. cbn [t_prog t_st].
  destruct p as [f t|f fl|a|f t ti|ti]; destruct st; intros H;
  repeat match type of H with
   | context [match mboxes ?a with _ => _ end] => destruct (mboxes a) eqn:?
   | context [match find_name ?a ?b with _ => _ end] => destruct (find_name a b) eqn:?
   | context [match create_mailbox_row ?a ?b ?c with _ => _ end] =>
       destruct (create_mailbox_row a b c) as [[? ?]|] eqn:?
   | context [match find_id ?a ?b with _ => _ end] => destruct (find_id a b) eqn:?
   | context [match insert_link ?a ?b ?c ?d ?e with _ => _ end] => destruct (insert_link a b c d e) eqn:?
   | context [step ?a ?b] => destruct (step a b) eqn:?
   end; injection H as <- <-; (split; [reflexivity|]);
  try (eapply EInsert; [reflexivity|eassumption|reflexivity]; fail);
  try (eapply EStore; reflexivity; fail);
  try (eapply EAtomic; try reflexivity;
       match goal with E : step _ _ = _ |- _ => rewrite E; reflexivity end; fail);
  try (match goal with C : create_mailbox_row _ _ _ = Some _ |- _ =>
         destruct (create_row_links _ _ _ _ _ C) end);
  try (match goal with |- context [add_defaults ?s ?t] => destruct (add_defaults_links s t) end);
  apply EQuiet; auto; discriminate.
Qed.

(** ---- the invariant ------------------------------------------------------------------------ *)

Record CInv (c : config) : Prop := mkCInv {
  ci_uniq : uniq (c_store c);
  ci_below : forall l, In l (links (c_store c)) -> lk_msg l < next_msg (c_store c);
  ci_own : forall i th m, nth_error (c_threads c) i = Some th -> owns th = Some m ->
           m < next_msg (c_store c);
  ci_distinct : forall i j thi thj m, i <> j ->
           nth_error (c_threads c) i = Some thi -> nth_error (c_threads c) j = Some thj ->
           owns thi = Some m -> owns thj = Some m -> False;
  ci_nolink : forall i th m, nth_error (c_threads c) i = Some th -> owns th = Some m ->
           is_okst th = false -> forall l, In l (links (c_store c)) -> lk_msg l <> m
}.

Definition store_ok (s : store) : Prop :=
  uniq s /\ forall l, In l (links s) -> lk_msg l < next_msg s.

Lemma start_owns p : owns (start p) = None.
Proof. destruct p; reflexivity. Qed.

Lemma init_inv s ps : store_ok s -> CInv (init_cfg s ps).
Proof.
  intros [U B]. unfold init_cfg.
  assert (N : forall i th m, nth_error (map start ps) i = Some th -> owns th = Some m -> False).
  { intros i th m H O. apply nth_error_In in H. apply in_map_iff in H. destruct H as (p & <- & _).
    rewrite start_owns in O. discriminate. }
  split; cbn [c_store c_threads]; auto.
  - intros i th m H O. exfalso. eauto.
  - intros i j thi thj m _ H _ O _. eauto.
  - intros i th m H O. exfalso. eauto.
Qed.

Lemma sched_step_inv c i : CInv c -> CInv (sched_step c i).
Proof.
  intros I. unfold sched_step. destruct (nth_error (c_threads c) i) as [th|] eqn:N; [|exact I].
  destruct (thread_step (c_store c) th) as [s' th'] eqn:T.
  destruct (thread_step_effect _ _ _ _ T) as [P E].
  destruct I as [U B O D NL].
  assert (NR : forall j thj, nth_error (replace i th' (c_threads c)) j = Some thj ->
               (j = i /\ thj = th') \/ (j <> i /\ nth_error (c_threads c) j = Some thj)).
  { intros j thj H. rewrite nth_error_replace in H. destruct (Nat.eqb_spec j i) as [->|NE].
    - rewrite N in H. injection H as <-. auto.
    - auto. }
  destruct E as [EL EN EO EK _ | mb ES EL EN ES' | mb m u ES EI ES' | a EP ES -> EO EK].
  - (* quiet *)
    unfold uniq in U. split; unfold uniq; cbn [c_store c_threads]; try rewrite EL; try rewrite EN; auto.
    + intros j thj m H Ow. destruct (NR _ _ H) as [[-> ->]|[NE H']]; [rewrite EO in Ow|]; eauto.
    + intros j k thj thk m NE Hj Hk Oj Ok.
      destruct (NR _ _ Hj) as [[-> ->]|[NEj Hj']]; destruct (NR _ _ Hk) as [[-> ->]|[NEk Hk']].
      * congruence.
      * rewrite EO in Oj. eapply (D i k); eauto.
      * rewrite EO in Ok. eapply (D j i); eauto.
      * eapply (D j k); eauto.
    + intros j thj m H Ow Ok. destruct (NR _ _ H) as [[-> ->]|[NE H']].
      * rewrite EO in Ow. rewrite EK in Ok. eauto.
      * eauto.
  - (* store_message *)
    assert (Oth' : owns th' = Some (next_msg (c_store c))). { unfold owns. rewrite ES'. reflexivity. }
    unfold uniq in U. split; unfold uniq; cbn [c_store c_threads]; try rewrite EL; try rewrite EN; auto.
    + intros l Hl. specialize (B l Hl). lia.
    + intros j thj m H Ow. destruct (NR _ _ H) as [[-> ->]|[NE H']].
      * rewrite Oth' in Ow. injection Ow as <-. lia.
      * specialize (O _ _ _ H' Ow). lia.
    + intros j k thj thk m NE Hj Hk Oj Ok.
      destruct (NR _ _ Hj) as [[-> ->]|[NEj Hj']]; destruct (NR _ _ Hk) as [[-> ->]|[NEk Hk']].
      * congruence.
      * rewrite Oth' in Oj. injection Oj as <-. specialize (O _ _ _ Hk' Ok). lia.
      * rewrite Oth' in Ok. injection Ok as <-. specialize (O _ _ _ Hj' Oj). lia.
      * eapply (D j k); eauto.
    + intros j thj m H Ow Ok l Hl. destruct (NR _ _ H) as [[-> ->]|[NE H']].
      * rewrite Oth' in Ow. injection Ow as <-. specialize (B l Hl). lia.
      * eauto.
  - (* insert OK *)
    assert (Oth : owns th = Some m). { unfold owns. rewrite ES. reflexivity. }
    assert (Oth' : owns th' = Some m). { unfold owns. rewrite ES'. reflexivity. }
    assert (Kth' : is_okst th' = true). { unfold is_okst. rewrite ES'. reflexivity. }
    destruct (insert_link_shape _ _ _ _ _ _ EI) as (_ & _ & EN & _).
    split; cbn [c_store c_threads]; try rewrite EN.
    + eapply insert_link_uniq; eauto.
    + intros l Hl. destruct (insert_link_in _ _ _ _ _ _ _ EI Hl) as [A|[A _]]; auto.
      rewrite A. eauto.
    + intros j thj m' H Ow. destruct (NR _ _ H) as [[-> ->]|[NE H']]; eauto.
      rewrite Oth' in Ow. injection Ow as <-. eauto.
    + intros j k thj thk m' NE Hj Hk Oj Ok.
      destruct (NR _ _ Hj) as [[-> ->]|[NEj Hj']]; destruct (NR _ _ Hk) as [[-> ->]|[NEk Hk']].
      * congruence.
      * rewrite Oth' in Oj. injection Oj as <-. eapply (D i k); eauto.
      * rewrite Oth' in Ok. injection Ok as <-. eapply (D j i); eauto.
      * eapply (D j k); eauto.
    + intros j thj m' H Ow Ok l Hl. destruct (NR _ _ H) as [[-> ->]|[NE H']]; [congruence|].
      destruct (insert_link_in _ _ _ _ _ _ _ EI Hl) as [A|[A _]]; [eauto|].
      rewrite A. intros ->. eapply (D j i); eauto.
  - (* atomic operation *)
    destruct (atomic_ext a (c_store c)) as [XU XM XN].
    split; cbn [c_store c_threads]; try rewrite XN; auto.
    + intros l Hl. destruct (XM l Hl) as (l0 & H0 & E0). rewrite <- E0. auto.
    + intros j thj m H Ow. destruct (NR _ _ H) as [[-> ->]|[NE H']]; [congruence|eauto].
    + intros j k thj thk m NE Hj Hk Oj Ok.
      destruct (NR _ _ Hj) as [[-> ->]|[NEj Hj']]; destruct (NR _ _ Hk) as [[-> ->]|[NEk Hk']];
        try congruence. eapply (D j k); eauto.
    + intros j thj m H Ow Ok l Hl. destruct (NR _ _ H) as [[-> ->]|[NE H']]; [congruence|].
      destruct (XM l Hl) as (l0 & H0 & E0). rewrite <- E0. eauto.
Qed.

Lemma run_sched_inv sch : forall c, CInv c -> CInv (run_sched sch c).
Proof.
  induction sch as [|i r IH]; simpl; intros c I; auto. apply IH. apply sched_step_inv. exact I.
Qed.

(** ---- (a) UNIQUE(mailbox, uid) for every schedule ------------------------------------------- *)

Lemma c08_uid_unique_l : forall s ps sch,
  store_ok s ->
  NoDup (map lkey (links (c_store (run_sched sch (init_cfg s ps))))).
Proof. intros s ps sch H. apply (ci_uniq _ (run_sched_inv sch _ (init_inv s ps H))). Qed.

(** ---- (c) a failed thread added nothing; distinct threads, distinct messages ---------------- *)

Lemma c08_failed_l : forall s ps sch i th m,
  store_ok s ->
  nth_error (c_threads (run_sched sch (init_cfg s ps))) i = Some th ->
  t_st th = SFail (Some m) ->
  forall l, In l (links (c_store (run_sched sch (init_cfg s ps)))) -> lk_msg l <> m.
Proof.
  intros s ps sch i th m H N F.
  apply (ci_nolink _ (run_sched_inv sch _ (init_inv s ps H)) i th m N).
  - unfold owns. rewrite F. reflexivity.
  - unfold is_okst. rewrite F. reflexivity.
Qed.

Lemma c08_pending_l : forall s ps sch i th m,
  store_ok s ->
  nth_error (c_threads (run_sched sch (init_cfg s ps))) i = Some th ->
  owns th = Some m -> is_okst th = false ->
  forall l, In l (links (c_store (run_sched sch (init_cfg s ps)))) -> lk_msg l <> m.
Proof.
  intros s ps sch i th m H N O K.
  apply (ci_nolink _ (run_sched_inv sch _ (init_inv s ps H)) i th m N O K).
Qed.

Lemma c08_own_message_l : forall s ps sch i j thi thj m,
  store_ok s -> i <> j ->
  nth_error (c_threads (run_sched sch (init_cfg s ps))) i = Some thi ->
  nth_error (c_threads (run_sched sch (init_cfg s ps))) j = Some thj ->
  owns thi = Some m -> owns thj = Some m -> False.
Proof.
  intros s ps sch i j thi thj m H NE. apply (ci_distinct _ (run_sched_inv sch _ (init_inv s ps H))). exact NE.
Qed.

(** fresh messages: a thread's message id was not in use before the run *)
Lemma c08_fresh_l : forall sch c, CInv c ->
  next_msg (c_store c) <= next_msg (c_store (run_sched sch c)).
Proof.
  induction sch as [|i r IH]; simpl; intros c I; [lia|].
  specialize (IH _ (sched_step_inv c i I)).
  assert (next_msg (c_store c) <= next_msg (c_store (sched_step c i))); [|lia].
  unfold sched_step. destruct (nth_error (c_threads c) i) as [th|]; [|lia].
  destruct (thread_step (c_store c) th) as [s' th'] eqn:T.
  destruct (thread_step_effect _ _ _ _ T) as [_ E]. cbn [c_store].
  destruct E as [_ EN _ _ _| mb _ _ EN _ | mb m u _ EI _ | a _ _ -> _ _]; try lia.
  - destruct (insert_link_shape _ _ _ _ _ _ EI) as (_ & _ & EN & _). lia.
  - rewrite (ext_next _ _ (atomic_ext a (c_store c))). lia.
Qed.
