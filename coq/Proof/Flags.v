(** C10 — the flag algebra of CalculateNewFlags is the set algebra of Spec/FlagSet.v *)
From Coq Require Import String Ascii List Bool Arith.
From Raven Require Import Base.GoStr Model.Flags Spec.FlagSet.
Import ListNotations.

Lemma mem_In f m : mem f m = true <-> In f m.
Proof.
  unfold mem. rewrite existsb_exists. split.
  - intros [g [Hin He]]. apply str_eqb_eq in He. now subst.
  - intros Hin. exists f. split; [assumption | apply str_eqb_refl].
Qed.

Lemma mem_false f m : mem f m = false <-> ~ In f m.
Proof. rewrite <- mem_In. destruct (mem f m); split; congruence. Qed.

Lemma str_eqb_neq a b : str_eqb a b = false <-> a <> b.
Proof. destruct (str_eqb_spec a b); split; congruence. Qed.

Lemma str_eqb_sym a b : str_eqb a b = str_eqb b a.
Proof. destruct (str_eqb_spec a b), (str_eqb_spec b a); congruence. Qed.

Lemma set_add_In f m g : In g (set_add f m) <-> g = f \/ In g m.
Proof.
  unfold set_add. destruct (mem f m) eqn:E.
  - apply mem_In in E. split; [now right | intros [->|H]; assumption].
  - rewrite in_app_iff. simpl. split; [intros [H|[H|[]]]; auto | intros [H|H]; auto].
Qed.

Lemma NoDup_snoc {A} (l : list A) x : NoDup l -> ~ In x l -> NoDup (l ++ [x]).
Proof.
  induction l as [|y l IH]; simpl; intros Hn Hx.
  - constructor; [intros [] | constructor].
  - inversion Hn as [|? ? Hy Hl]; subst. constructor.
    + rewrite in_app_iff. simpl. intros [H|[H|[]]]; [auto | subst; auto].
    + apply IH; auto.
Qed.

Lemma to_set_gen l : forall m g, In g (fold_left (fun m f => set_add f m) l m) <-> In g m \/ In g l.
Proof.
  induction l as [|f l IH]; intros m g; simpl.
  - split; [auto | intros [H|[]]; auto].
  - rewrite IH, set_add_In. split.
    + intros [[->|H]|H]; auto.
    + intros [H|[<-|H]]; auto.
Qed.

(** parseFlagsToSet keeps exactly the atoms *)
Lemma to_set_In l g : In g (to_set l) <-> In g l.
Proof. unfold to_set. rewrite to_set_gen. simpl. split; [intros [[]|H]; auto | auto]. Qed.

(** ---------- keys ---------- *)

Lemma eqf_key a b : eqf a b = true <-> fkey a = fkey b.
Proof. unfold eqf, equal_fold, fkey. apply str_eqb_eq. Qed.

Lemma eqf_false a b : eqf a b = false <-> fkey a <> fkey b.
Proof. rewrite <- eqf_key. destruct (eqf a b); split; congruence. Qed.

Lemma mem_ci_In f m : mem_ci f m = true <-> In (fkey f) (keys m).
Proof.
  unfold mem_ci, keys. rewrite existsb_exists, in_map_iff. split.
  - intros [g [Hin He]]. apply eqf_key in He. exists g. auto.
  - intros [g [He Hin]]. exists g. split; [assumption|]. apply eqf_key. auto.
Qed.

Lemma mem_ci_false f m : mem_ci f m = false <-> ~ In (fkey f) (keys m).
Proof. rewrite <- mem_ci_In. destruct (mem_ci f m); split; congruence. Qed.

Lemma mem_ci_keys f m : mem_ci f m = mem (fkey f) (keys m).
Proof.
  apply eq_iff_eq_true. now rewrite mem_ci_In, mem_In.
Qed.

Lemma keys_app a b : keys (a ++ b) = keys a ++ keys b.
Proof. apply map_app. Qed.

Lemma set_add_ci_keys f m k : In k (keys (set_add_ci f m)) <-> k = fkey f \/ In k (keys m).
Proof.
  unfold set_add_ci. destruct (mem_ci f m) eqn:E.
  - apply mem_ci_In in E. split; [now right | intros [->|H]; assumption].
  - rewrite keys_app, in_app_iff. simpl. split; [intros [H|[H|[]]]; auto | intros [H|H]; auto].
Qed.

Lemma set_del_ci_keys f m k : In k (keys (set_del_ci f m)) <-> In k (keys m) /\ k <> fkey f.
Proof.
  unfold set_del_ci, keys. rewrite !in_map_iff. split.
  - intros [g [Hk Hg]]. apply filter_In in Hg. destruct Hg as [Hg Hn].
    apply negb_true_iff, eqf_false in Hn. split; [exists g; auto | congruence].
  - intros [[g [Hk Hg]] Hn]. exists g. split; [assumption|]. apply filter_In. split; [assumption|].
    apply negb_true_iff, eqf_false. congruence.
Qed.

Lemma set_add_ci_NoDup f m : NoDup (keys m) -> NoDup (keys (set_add_ci f m)).
Proof.
  intros H. unfold set_add_ci. destruct (mem_ci f m) eqn:E; [assumption|].
  apply mem_ci_false in E. rewrite keys_app. now apply NoDup_snoc.
Qed.

Lemma NoDup_map_filter {A B} (f : A -> B) p l : NoDup (map f l) -> NoDup (map f (filter p l)).
Proof.
  induction l as [|x l IH]; simpl; intros H; [constructor|].
  inversion H as [|? ? Hx Hn]; subst. destruct (p x); simpl; [|auto].
  constructor; [|auto]. intros Hin. apply Hx. apply in_map_iff in Hin. destruct Hin as [y [Hy1 Hy2]].
  apply filter_In in Hy2. rewrite <- Hy1. apply in_map. tauto.
Qed.

Lemma set_del_ci_NoDup f m : NoDup (keys m) -> NoDup (keys (set_del_ci f m)).
Proof. intros H. unfold set_del_ci, keys. now apply NoDup_map_filter. Qed.

Lemma recent_cases f : (eqf f RECENT = true /\ fkey f = fkey RECENT) \/ (eqf f RECENT = false /\ fkey f <> fkey RECENT).
Proof. destruct (eqf f RECENT) eqn:E; [left | right]; split; auto; [now apply eqf_key | now apply eqf_false]. Qed.

Lemma add_all_keys new : forall m k, In k (keys (add_all new m)) <-> In k (keys m) \/ named new k.
Proof.
  unfold add_all, named. induction new as [|f new IH]; intros m k; simpl.
  - split; [auto | intros [H|[[] _]]; auto].
  - rewrite IH. destruct (recent_cases f) as [[E Hk]|[E Hk]]; rewrite E.
    + split; intros [H|[H1 H2]]; auto.
      destruct H1 as [<-|H1]; [congruence | auto].
    + rewrite set_add_ci_keys. split.
      * intros [[->|H]|[H1 H2]]; auto.
      * intros [H|[[<-|H1] H2]]; auto.
Qed.

Lemma del_all_keys new : forall m k, In k (keys (del_all new m)) <-> In k (keys m) /\ ~ named new k.
Proof.
  unfold del_all, named. induction new as [|f new IH]; intros m k; simpl.
  - split; [intros H; split; [auto | intros [[] _]] | intros [H _]; auto].
  - rewrite IH. destruct (recent_cases f) as [[E Hk]|[E Hk]]; rewrite E.
    + split; intros [H Hx]; split; auto.
      * intros [[<-|H1] H2]; [congruence | apply Hx; auto].
      * intros [H1 H2]. apply Hx; auto.
    + rewrite set_del_ci_keys. split.
      * intros [[H Hg] Hx]. split; auto. intros [[<-|H1] H2]; [congruence | apply Hx; auto].
      * intros [H Hx]. split; [split; auto|].
        -- intros ->. apply Hx. split; auto.
        -- intros [H1 H2]. apply Hx; auto.
Qed.

Lemma add_all_NoDup new : forall m, NoDup (keys m) -> NoDup (keys (add_all new m)).
Proof.
  unfold add_all. induction new as [|f new IH]; intros m H; simpl; [assumption|].
  apply IH. destruct (eqf f RECENT); [assumption | now apply set_add_ci_NoDup].
Qed.

Lemma del_all_NoDup new : forall m, NoDup (keys m) -> NoDup (keys (del_all new m)).
Proof.
  unfold del_all. induction new as [|f new IH]; intros m H; simpl; [assumption|].
  apply IH. destruct (eqf f RECENT); [assumption | now apply set_del_ci_NoDup].
Qed.

Lemma to_set_ci_gen l : forall m k, In k (keys (fold_left (fun m f => set_add_ci f m) l m)) <-> In k (keys m) \/ In k (keys l).
Proof.
  induction l as [|f l IH]; intros m k; simpl.
  - split; [auto | intros [H|[]]; auto].
  - rewrite IH, set_add_ci_keys. split.
    + intros [[->|H]|H]; auto.
    + intros [H|[<-|H]]; auto.
Qed.

Lemma to_set_ci_keys l k : In k (keys (to_set_ci l)) <-> In k (keys l).
Proof. unfold to_set_ci. rewrite to_set_ci_gen. simpl. split; [intros [[]|H]; auto | auto]. Qed.

Lemma to_set_ci_NoDup_gen l : forall m, NoDup (keys m) -> NoDup (keys (fold_left (fun m f => set_add_ci f m) l m)).
Proof.
  induction l as [|f l IH]; intros m H; simpl; [assumption|].
  apply IH. now apply set_add_ci_NoDup.
Qed.

Lemma to_set_ci_NoDup l : NoDup (keys (to_set_ci l)).
Proof. apply to_set_ci_NoDup_gen. constructor. Qed.

(** every atom kept is a spelling that was supplied *)
Lemma set_add_ci_incl f m g : In g (set_add_ci f m) -> g = f \/ In g m.
Proof.
  unfold set_add_ci. destruct (mem_ci f m); [auto|]. rewrite in_app_iff. simpl. intuition.
Qed.
Lemma set_del_ci_incl f m g : In g (set_del_ci f m) -> In g m.
Proof. unfold set_del_ci. rewrite filter_In. tauto. Qed.

Lemma add_all_incl new : forall m g, In g (add_all new m) -> In g m \/ In g new.
Proof.
  unfold add_all. induction new as [|f new IH]; intros m g; simpl; [auto|].
  intros H. apply IH in H. destruct H as [H|H]; [|auto].
  destruct (eqf f RECENT); [auto|]. apply set_add_ci_incl in H. destruct H as [->|H]; auto.
Qed.
Lemma del_all_incl new : forall m g, In g (del_all new m) -> In g m.
Proof.
  unfold del_all. induction new as [|f new IH]; intros m g; simpl; [auto|].
  intros H. apply IH in H. destruct (eqf f RECENT); [auto|]. now apply set_del_ci_incl in H.
Qed.
Lemma to_set_ci_incl l g : In g (to_set_ci l) -> In g l.
Proof.
  unfold to_set_ci. assert (K : forall m, In g (fold_left (fun m f => set_add_ci f m) l m) -> In g m \/ In g l).
  { induction l as [|f l IH]; intros m; simpl; [auto|]. intros H. apply IH in H. destruct H as [H|H]; [|auto].
    apply set_add_ci_incl in H. destruct H as [->|H]; auto. }
  intros H. apply K in H. destruct H as [[]|H]; assumption.
Qed.

Lemma item_of_cases s it : item_of s = Some it ->
  (it = Replace /\ s = IT_FLAGS) \/ (it = Add /\ s = IT_ADD) \/ (it = Remove /\ s = IT_DEL).
Proof.
  unfold item_of.
  destruct (str_eqb_spec s IT_FLAGS); [intros [= <-]; auto|].
  destruct (str_eqb_spec s IT_ADD); [intros [= <-]; auto|].
  destruct (str_eqb_spec s IT_DEL); [intros [= <-]; auto 6|]. discriminate.
Qed.

(** CalculateNewFlags computes exactly the set algebra on flag keys, for all
    inputs; no flag twice in any spelling; only supplied spellings are kept. *)
Theorem calculate_new_flags_exact (cur new : list str) (s : str) (it : item) :
  item_of s = Some it ->
  (forall k, In k (keys (calculate_new_flags cur new s)) <-> apply_rel it cur new k)
  /\ NoDup (keys (calculate_new_flags cur new s))
  /\ (forall f, In f (calculate_new_flags cur new s) -> In f cur \/ In f new).
Proof.
  intros H. destruct (item_of_cases _ _ H) as [[-> ->]|[[-> ->]|[-> ->]]];
    unfold calculate_new_flags; cbn [apply_rel].
  - change (str_eqb IT_FLAGS IT_FLAGS) with true. cbv iota. split; [|split].
    + intros k. rewrite add_all_keys. simpl. split; [intros [[]|H1]; auto | auto].
    + apply add_all_NoDup. constructor.
    + intros f Hf. apply add_all_incl in Hf. destruct Hf as [[]|Hf]; auto.
  - change (str_eqb IT_ADD IT_FLAGS) with false. change (str_eqb IT_ADD IT_ADD) with true. cbv iota. split; [|split].
    + intros k. now rewrite add_all_keys, to_set_ci_keys.
    + apply add_all_NoDup, to_set_ci_NoDup.
    + intros f Hf. apply add_all_incl in Hf. destruct Hf as [Hf|Hf]; auto. left. now apply to_set_ci_incl.
  - change (str_eqb IT_DEL IT_FLAGS) with false. change (str_eqb IT_DEL IT_ADD) with false.
    change (str_eqb IT_DEL IT_DEL) with true. cbv iota. split; [|split].
    + intros k. now rewrite del_all_keys, to_set_ci_keys.
    + apply del_all_NoDup, to_set_ci_NoDup.
    + intros f Hf. left. apply del_all_incl in Hf. now apply to_set_ci_incl.
Qed.

(** any other data item leaves the set as it is (HandleStore rejects it before) *)
Lemma calculate_new_flags_other cur new s : item_of s = None ->
  forall k, In k (keys (calculate_new_flags cur new s)) <-> In k (keys cur).
Proof.
  unfold item_of, calculate_new_flags. intros H k.
  destruct (str_eqb s IT_FLAGS); [discriminate|].
  destruct (str_eqb s IT_ADD); [discriminate|].
  destruct (str_eqb s IT_DEL); [discriminate|]. apply to_set_ci_keys.
Qed.

(** the boolean oracle agrees with the relation *)
Lemma named_b_spec new k : named_b new k = true <-> named new k.
Proof.
  unfold named_b, named. rewrite andb_true_iff, mem_In, negb_true_iff, str_eqb_neq. tauto.
Qed.

Lemma apply_b_spec it cur new k : apply_b it cur new k = true <-> apply_rel it cur new k.
Proof.
  destruct it; simpl.
  - apply named_b_spec.
  - rewrite orb_true_iff, mem_In, named_b_spec. tauto.
  - rewrite andb_true_iff, mem_In, negb_true_iff. rewrite <- named_b_spec.
    destruct (named_b new k); split; intros [H1 H2]; split; auto; congruence.
Qed.

(** for every data item, only supplied spellings are kept *)
Lemma calc_incl cur new s f : In f (calculate_new_flags cur new s) -> In f cur \/ In f new.
Proof.
  unfold calculate_new_flags.
  destruct (str_eqb s IT_FLAGS).
  { intros Hf. apply add_all_incl in Hf. destruct Hf as [[]|Hf]; auto. }
  destruct (str_eqb s IT_ADD).
  { intros Hf. apply add_all_incl in Hf. destruct Hf as [Hf|Hf]; auto. left. now apply to_set_ci_incl. }
  destruct (str_eqb s IT_DEL).
  { intros Hf. left. apply del_all_incl in Hf. now apply to_set_ci_incl. }
  intros Hf. left. now apply to_set_ci_incl.
Qed.
