(** C10 — the flag algebra of CalculateNewFlags is the set algebra of Spec/FlagSet.v *)
From Coq Require Import String Ascii List Bool Arith.
From Raven Require Import Base.GoStr Model.Flags Spec.FlagSet.
Import ListNotations.

Lemma mem_In f m : mem f m = true <-> In f m.
Proof.
  unfold mem. rewrite existsb_exists. split.
  - intros [g [Hin He]]. apply str_eqb_eq in He. now subst.
  - intros Hin. exists f. split; [assumption | apply str_eqb_refl].
Qed.

Lemma mem_false f m : mem f m = false <-> ~ In f m.
Proof. rewrite <- mem_In. destruct (mem f m); split; congruence. Qed.

Lemma str_eqb_neq a b : str_eqb a b = false <-> a <> b.
Proof. destruct (str_eqb_spec a b); split; congruence. Qed.

Lemma str_eqb_sym a b : str_eqb a b = str_eqb b a.
Proof. destruct (str_eqb_spec a b), (str_eqb_spec b a); congruence. Qed.

Lemma set_add_In f m g : In g (set_add f m) <-> g = f \/ In g m.
Proof.
  unfold set_add. destruct (mem f m) eqn:E.
  - apply mem_In in E. split; [now right | intros [->|H]; assumption].
  - rewrite in_app_iff. simpl. split; [intros [H|[H|[]]]; auto | intros [H|H]; auto].
Qed.

Lemma set_del_In f m g : In g (set_del f m) <-> In g m /\ g <> f.
Proof.
  unfold set_del. rewrite filter_In, negb_true_iff, str_eqb_sym, str_eqb_neq.
  split; intros [H1 H2]; split; auto.
Qed.

Lemma NoDup_snoc {A} (l : list A) x : NoDup l -> ~ In x l -> NoDup (l ++ [x]).
Proof.
  induction l as [|y l IH]; simpl; intros Hn Hx.
  - constructor; [intros [] | constructor].
  - inversion Hn as [|? ? Hy Hl]; subst. constructor.
    + rewrite in_app_iff. simpl. intros [H|[H|[]]]; [auto | subst; auto].
    + apply IH; auto.
Qed.

Lemma set_add_NoDup f m : NoDup m -> NoDup (set_add f m).
Proof.
  intros H. unfold set_add. destruct (mem f m) eqn:E; [assumption|].
  apply mem_false in E. now apply NoDup_snoc.
Qed.

Lemma set_del_NoDup f m : NoDup m -> NoDup (set_del f m).
Proof. intros H. unfold set_del. now apply NoDup_filter. Qed.

(** generic fold facts *)
Lemma add_all_In new : forall m g, In g (add_all new m) <-> In g m \/ named new g.
Proof.
  unfold add_all, named. induction new as [|f new IH]; intros m g; simpl.
  - split; [auto | intros [H|[[] _]]; auto].
  - rewrite IH. destruct (str_eqb_spec f RECENT) as [->|Hn].
    + split; intros [H|[H1 H2]]; auto.
      destruct H1 as [<-|H1]; [congruence | auto].
    + rewrite set_add_In. split.
      * intros [[->|H]|[H1 H2]]; auto.
      * intros [H|[[<-|H1] H2]]; auto.
Qed.

Lemma del_all_In new : forall m g, In g (del_all new m) <-> In g m /\ ~ named new g.
Proof.
  unfold del_all, named. induction new as [|f new IH]; intros m g; simpl.
  - split; [intros H; split; [auto | intros [[] _]] | intros [H _]; auto].
  - rewrite IH. destruct (str_eqb_spec f RECENT) as [->|Hn].
    + split; intros [H Hx]; split; auto.
      * intros [[<-|H1] H2]; [congruence | apply Hx; auto].
      * intros [H1 H2]. apply Hx; auto.
    + rewrite set_del_In. split.
      * intros [[H Hg] Hx]. split; auto. intros [[<-|H1] H2]; [congruence | apply Hx; auto].
      * intros [H Hx]. split; [split; auto|].
        -- intros ->. apply Hx. split; auto.
        -- intros [H1 H2]. apply Hx; auto.
Qed.

Lemma add_all_NoDup new : forall m, NoDup m -> NoDup (add_all new m).
Proof.
  unfold add_all. induction new as [|f new IH]; intros m H; simpl; [assumption|].
  apply IH. destruct (str_eqb f RECENT); [assumption | now apply set_add_NoDup].
Qed.

Lemma del_all_NoDup new : forall m, NoDup m -> NoDup (del_all new m).
Proof.
  unfold del_all. induction new as [|f new IH]; intros m H; simpl; [assumption|].
  apply IH. destruct (str_eqb f RECENT); [assumption | now apply set_del_NoDup].
Qed.

Lemma to_set_gen l : forall m g, In g (fold_left (fun m f => set_add f m) l m) <-> In g m \/ In g l.
Proof.
  induction l as [|f l IH]; intros m g; simpl.
  - split; [auto | intros [H|[]]; auto].
  - rewrite IH, set_add_In. split.
    + intros [[->|H]|H]; auto.
    + intros [H|[<-|H]]; auto.
Qed.

Lemma to_set_In l g : In g (to_set l) <-> In g l.
Proof. unfold to_set. rewrite to_set_gen. simpl. split; [intros [[]|H]; auto | auto]. Qed.

Lemma to_set_NoDup_gen l : forall m, NoDup m -> NoDup (fold_left (fun m f => set_add f m) l m).
Proof.
  induction l as [|f l IH]; intros m H; simpl; [assumption|].
  apply IH. now apply set_add_NoDup.
Qed.

Lemma to_set_NoDup l : NoDup (to_set l).
Proof. apply to_set_NoDup_gen. constructor. Qed.

Lemma item_of_cases s it : item_of s = Some it ->
  (it = Replace /\ s = IT_FLAGS) \/ (it = Add /\ s = IT_ADD) \/ (it = Remove /\ s = IT_DEL).
Proof.
  unfold item_of.
  destruct (str_eqb_spec s IT_FLAGS); [intros [= <-]; auto|].
  destruct (str_eqb_spec s IT_ADD); [intros [= <-]; auto|].
  destruct (str_eqb_spec s IT_DEL); [intros [= <-]; auto 6|]. discriminate.
Qed.

(** CalculateNewFlags computes exactly the set algebra, for all inputs. *)
Theorem calculate_new_flags_exact (cur new : list str) (s : str) (it : item) :
  item_of s = Some it ->
  (forall f, In f (calculate_new_flags cur new s) <-> apply_rel it cur new f)
  /\ NoDup (calculate_new_flags cur new s).
Proof.
  intros H. destruct (item_of_cases _ _ H) as [[-> ->]|[[-> ->]|[-> ->]]];
    unfold calculate_new_flags; cbn [apply_rel].
  - change (str_eqb IT_FLAGS IT_FLAGS) with true. cbv iota. split.
    + intros f. rewrite add_all_In. simpl. split; [intros [[]|H1]; auto | auto].
    + apply add_all_NoDup. constructor.
  - change (str_eqb IT_ADD IT_FLAGS) with false. change (str_eqb IT_ADD IT_ADD) with true. cbv iota. split.
    + intros f. now rewrite add_all_In, to_set_In.
    + apply add_all_NoDup, to_set_NoDup.
  - change (str_eqb IT_DEL IT_FLAGS) with false. change (str_eqb IT_DEL IT_ADD) with false.
    change (str_eqb IT_DEL IT_DEL) with true. cbv iota. split.
    + intros f. now rewrite del_all_In, to_set_In.
    + apply del_all_NoDup, to_set_NoDup.
Qed.

(** any other data item leaves the set as it is (HandleStore rejects it before) *)
Lemma calculate_new_flags_other cur new s : item_of s = None ->
  forall f, In f (calculate_new_flags cur new s) <-> In f cur.
Proof.
  unfold item_of, calculate_new_flags. intros H f.
  destruct (str_eqb s IT_FLAGS); [discriminate|].
  destruct (str_eqb s IT_ADD); [discriminate|].
  destruct (str_eqb s IT_DEL); [discriminate|]. apply to_set_In.
Qed.

(** the boolean oracle agrees with the relation *)
Lemma named_b_spec new f : named_b new f = true <-> named new f.
Proof.
  unfold named_b, named. rewrite andb_true_iff, mem_In, negb_true_iff, str_eqb_neq. tauto.
Qed.

Lemma apply_b_spec it cur new f : apply_b it cur new f = true <-> apply_rel it cur new f.
Proof.
  destruct it; simpl.
  - apply named_b_spec.
  - rewrite orb_true_iff, mem_In, named_b_spec. tauto.
  - rewrite andb_true_iff, mem_In, negb_true_iff. rewrite <- named_b_spec.
    destruct (named_b new f); split; intros [H1 H2]; split; auto; congruence.
Qed.
