(** C03 — history-level theorems: the invariant holds after every clean
    history; UIDs are never reused, UIDNEXT never decreases, a (name,
    UIDVALIDITY) pair that disappeared never returns. *)
From Coq Require Import String Ascii List Bool ZArith Lia.
From Raven Require Import Base.GoStr Model.Store Model.Ops Spec.UidSpec Proof.StoreInv Proof.OpsInv.
Import ListNotations.
Local Open Scope Z_scope.
Local Opaque step_class.

Fixpoint Clean (s : store) (h : list op) : Prop :=
  match h with
  | [] => True
  | o :: r => flat_step s o = true /\ step_class s o = None /\ Clean (fst (step s o)) r
  end.

Lemma classify_none i s h : classify_from i s h = None ->
  forall j, classify_from j s h = None.
Proof.
  revert i s. induction h as [|o r IH]; simpl; intros i s H j; [reflexivity|].
  destruct (step_class s o); [discriminate|]. eapply IH; eauto.
Qed.

Lemma clean_Clean s h : clean s h = true -> Clean s h.
Proof.
  unfold clean. revert s. induction h as [|o r IH]; simpl; intros s H; [exact I|].
  apply andb_true_iff in H. destruct H as [H1 H2]. apply andb_true_iff in H1. destruct H1 as [F1 F2].
  destruct (step_class s o) eqn:C; [discriminate|].
  repeat split; auto. apply IH. rewrite F2. simpl.
  destruct (classify_from 1 (fst (step s o)) r) eqn:K; [discriminate|].
  now rewrite (classify_none _ _ _ K 0%nat).
Qed.

Lemma run_cons o h s : run (o :: h) s = run h (fst (step s o)).
Proof. reflexivity. Qed.

Lemma run_app h1 h2 s : run (h1 ++ h2) s = run h2 (run h1 s).
Proof. unfold run. apply fold_left_app. Qed.

Lemma Clean_app s h1 h2 : Clean s (h1 ++ h2) <-> Clean s h1 /\ Clean (run h1 s) h2.
Proof.
  revert s. induction h1 as [|o r IH]; intros s.
  - simpl. tauto.
  - cbn [app Clean]. rewrite run_cons. rewrite IH. tauto.
Qed.

Lemma run_good h : forall s, Inv s -> Clean s h -> Good s (run h s).
Proof.
  induction h as [|o r IH]; intros s I C.
  - now apply Good_refl.
  - destruct C as (F & K & C). rewrite run_cons.
    pose proof (step_good s o I F K) as G. eapply Good_trans; [exact G|].
    apply IH; auto. apply G.
Qed.

Lemma Inv_empty : Inv empty_store.
Proof.
  constructor; simpl.
  - constructor.
  - constructor.
  - constructor.
  - intros l [].
  - intros m l _ [].
  - intros e [].
  - intros m [].
  - intros e1 e2 [].
  - intros m e [].
  - intros l [].
Qed.

Lemma Inv_create_or_same s n t : Inv s -> Inv (create_or_same s n t).
Proof.
  intros I. unfold create_or_same. destruct (create_mailbox_row s n t) as [[s' id]|] eqn:C; [|exact I].
  apply (create_row_good s n t s' id I C).
Qed.

Lemma Inv_init5 t1 t2 t3 t4 t5 : Inv (init5 t1 t2 t3 t4 t5).
Proof. unfold init5. repeat apply Inv_create_or_same. apply Inv_empty. Qed.

(** ---- consequences --------------------------------------------------------- *)

Section FromInv.
Variable s0 : store.
Hypothesis I0 : Inv s0.

Lemma hist_invariants h : Clean s0 h ->
  let s := run h s0 in
  uid_functional s /\ uidnext_truthful s /\ visible_logged s /\ store_unique s.
Proof.
  intros C. destruct (run_good h s0 I0 C) as [I _]. simpl.
  repeat split; try apply I.
Qed.

Lemma hist_existing_below h : Clean s0 h ->
  forall m l, In m (mboxes (run h s0)) -> In l (links (run h s0)) -> lk_mbox l = mb_id m ->
              lk_uid l < mb_next m.
Proof.
  intros C m l Hm Hl E. destruct (run_good h s0 I0 C) as [I _]. now apply (Inv_uid_below _ m l I).
Qed.

Lemma hist_ascending h1 h2 : Clean s0 (h1 ++ h2) ->
  forall e', In e' (glog (run (h1 ++ h2) s0)) -> ~ In e' (glog (run h1 s0)) ->
  forall e, In e (glog (run h1 s0)) -> ge_name e = ge_name e' -> ge_validity e = ge_validity e' ->
            ge_uid e < ge_uid e'.
Proof.
  intros C. apply Clean_app in C. destruct C as [C1 C2].
  destruct (run_good h1 s0 I0 C1) as [I1 _].
  destruct (run_good h2 _ I1 C2) as [_ (_ & _ & _ & A)]. rewrite run_app. exact A.
Qed.

Lemma hist_no_reuse h1 h2 n v u g1 g2 : Clean s0 (h1 ++ h2) ->
  visible (run h1 s0) n v u g1 -> visible (run (h1 ++ h2) s0) n v u g2 -> g1 = g2.
Proof.
  intros C V1 V2. apply Clean_app in C. destruct C as [C1 C2].
  destruct (run_good h1 s0 I0 C1) as [I1 _].
  destruct (run_good h2 _ I1 C2) as [I2 (L & _)]. rewrite run_app in V2.
  destruct V1 as (m1 & l1 & Hm1 & Hl1 & <- & <- & E1 & <- & <-).
  destruct V2 as (m2 & l2 & Hm2 & Hl2 & En & Ev & E2 & Eu & <-).
  pose proof (inv_logged _ I1 m1 l1 Hm1 Hl1 E1) as P1. apply L in P1.
  pose proof (inv_logged _ I2 m2 l2 Hm2 Hl2 E2) as P2.
  apply (inv_fun _ I2 _ _ P1 P2); simpl; congruence.
Qed.

Lemma hist_next_monotone h1 h2 n v x1 x2 : Clean s0 (h1 ++ h2) ->
  advertises (run h1 s0) n v x1 -> advertises (run (h1 ++ h2) s0) n v x2 -> x1 <= x2.
Proof.
  intros C A1 A2. apply Clean_app in C. destruct C as [C1 C2].
  destruct (run_good h1 s0 I0 C1) as [I1 _].
  destruct (run_good h2 _ I1 C2) as [I2 (_ & _ & M & _)]. rewrite run_app in A2.
  destruct A1 as (m1 & Hm1 & <- & <- & <-). destruct A2 as (m2 & Hm2 & En & Ev & <-).
  destruct (M m2 Hm2) as [(m & Hm & En' & Ev' & Le)|N].
  - assert (m = m1) as ->; [|exact Le].
    apply (NoDup_map_inj mb_name (mboxes (run h1 s0))); auto; [apply I1 | congruence].
  - exfalso. apply N. rewrite En, Ev. now apply (inv_used_m _ I1).
Qed.

Lemma hist_validity_never_returns h1 h2 h3 n v : Clean s0 (h1 ++ h2 ++ h3) ->
  (exists x, advertises (run h1 s0) n v x) ->
  ~ (exists x, advertises (run (h1 ++ h2) s0) n v x) ->
  ~ (exists x, advertises (run (h1 ++ h2 ++ h3) s0) n v x).
Proof.
  intros C [x1 A1] N2 [x3 A3].
  apply Clean_app in C. destruct C as [C1 C]. apply Clean_app in C. destruct C as [C2 C3].
  destruct (run_good h1 s0 I0 C1) as [I1 _].
  destruct (run_good h2 _ I1 C2) as [I2 (_ & U2 & _)].
  destruct (run_good h3 _ I2 C3) as [I3 (_ & _ & M & _)].
  rewrite !run_app in *.
  destruct A1 as (m1 & Hm1 & En1 & Ev1 & _). destruct A3 as (m3 & Hm3 & En3 & Ev3 & _).
  destruct (M m3 Hm3) as [(m & Hm & En' & Ev' & _)|N].
  - apply N2. exists (mb_next m). exists m. repeat split; auto; congruence.
  - apply N. apply U2.
    rewrite En3, Ev3, <- En1, <- Ev1. now apply (inv_used_m _ I1).
Qed.

End FromInv.

(** ---- the statements of Properties/C03.v ------------------------------------ *)

Lemma c03_invariants_l : forall t1 t2 t3 t4 t5 h,
  clean (init5 t1 t2 t3 t4 t5) h = true ->
  let s := run h (init5 t1 t2 t3 t4 t5) in
  uid_functional s /\ uidnext_truthful s /\ visible_logged s /\ store_unique s.
Proof. intros. apply hist_invariants; [apply Inv_init5 | now apply clean_Clean]. Qed.

Lemma c03_uidnext_above_existing_l : forall t1 t2 t3 t4 t5 h,
  clean (init5 t1 t2 t3 t4 t5) h = true ->
  forall m l, In m (mboxes (run h (init5 t1 t2 t3 t4 t5))) ->
              In l (links (run h (init5 t1 t2 t3 t4 t5))) -> lk_mbox l = mb_id m ->
              lk_uid l < mb_next m.
Proof. intros until h. intros C. apply hist_existing_below; [apply Inv_init5 | now apply clean_Clean]. Qed.

Lemma c03_added_uids_ascend_l : forall t1 t2 t3 t4 t5 h1 h2,
  clean (init5 t1 t2 t3 t4 t5) (h1 ++ h2) = true ->
  forall e', In e' (glog (run (h1 ++ h2) (init5 t1 t2 t3 t4 t5))) ->
             ~ In e' (glog (run h1 (init5 t1 t2 t3 t4 t5))) ->
  forall e, In e (glog (run h1 (init5 t1 t2 t3 t4 t5))) ->
            ge_name e = ge_name e' -> ge_validity e = ge_validity e' -> ge_uid e < ge_uid e'.
Proof. intros until h2. intros C. apply hist_ascending; [apply Inv_init5 | now apply clean_Clean]. Qed.

Lemma c03_no_uid_reuse_l : forall t1 t2 t3 t4 t5 h1 h2 n v u g1 g2,
  clean (init5 t1 t2 t3 t4 t5) (h1 ++ h2) = true ->
  visible (run h1 (init5 t1 t2 t3 t4 t5)) n v u g1 ->
  visible (run (h1 ++ h2) (init5 t1 t2 t3 t4 t5)) n v u g2 -> g1 = g2.
Proof. intros until g2. intros C. apply hist_no_reuse; [apply Inv_init5 | now apply clean_Clean]. Qed.

Lemma c03_uidnext_never_decreases_l : forall t1 t2 t3 t4 t5 h1 h2 n v x1 x2,
  clean (init5 t1 t2 t3 t4 t5) (h1 ++ h2) = true ->
  advertises (run h1 (init5 t1 t2 t3 t4 t5)) n v x1 ->
  advertises (run (h1 ++ h2) (init5 t1 t2 t3 t4 t5)) n v x2 -> x1 <= x2.
Proof. intros until x2. intros C. apply hist_next_monotone; [apply Inv_init5 | now apply clean_Clean]. Qed.

Lemma c03_validity_fresh_l : forall t1 t2 t3 t4 t5 h1 h2 h3 n v,
  clean (init5 t1 t2 t3 t4 t5) (h1 ++ h2 ++ h3) = true ->
  (exists x, advertises (run h1 (init5 t1 t2 t3 t4 t5)) n v x) ->
  ~ (exists x, advertises (run (h1 ++ h2) (init5 t1 t2 t3 t4 t5)) n v x) ->
  ~ (exists x, advertises (run (h1 ++ h2 ++ h3) (init5 t1 t2 t3 t4 t5)) n v x).
Proof. intros until v. intros C. apply hist_validity_never_returns; [apply Inv_init5 | now apply clean_Clean]. Qed.

Lemma inv_reachable_l : forall t1 t2 t3 t4 t5 h,
  clean (init5 t1 t2 t3 t4 t5) h = true -> Inv (run h (init5 t1 t2 t3 t4 t5)).
Proof. intros. apply run_good; [apply Inv_init5 | now apply clean_Clean]. Qed.
