(** C09: the SQL whole-word test for \Deleted (instr on the lower-cased flag
    string between blanks) is the case-insensitive flag-atom test, for every
    flag string whose only white space is the single blank raven's writers use. *)
From Coq Require Import String Ascii List Bool Arith ZArith Lia.
From Raven Require Import Base.GoStr Base.GoStrFacts Base.GoStrZ Model.SeqSet Model.Expunge Spec.SeqSet Proof.SeqSetStr.
Import ListNotations.

Definition nosp (u : str) : bool := forallb (fun c => negb (Ascii.eqb c sp)) u.

Lemma contains_unfold s sub :
  contains s sub = has_prefix s sub || match s with [] => false | _ :: s' => contains s' sub end.
Proof.
  unfold contains. destruct s as [|c s]; cbn [index]; destruct (has_prefix _ sub); try reflexivity.
  destruct (index s sub); reflexivity.
Qed.

Section Word.
  Variable d : str.
  Hypothesis d_nosp : nosp d = true.
  Let W := sp :: d ++ [sp].

  Lemma prefix_word u r : nosp u = true -> has_prefix (u ++ sp :: r) (d ++ [sp]) = str_eqb d u.
  Proof.
    revert u d_nosp. clear W. induction d as [|x d' IH]; intros u Hd Hu.
    - destruct u as [|c u]; [reflexivity|]. cbn [app has_prefix str_eqb].
      cbn in Hu. apply andb_true_iff in Hu. destruct Hu as [Hc _]. apply negb_true_iff in Hc.
      now rewrite eqb_swap, Hc.
    - cbn in Hd. apply andb_true_iff in Hd. destruct Hd as [Hx Hd]. apply negb_true_iff in Hx.
      destruct u as [|c u]; cbn [app has_prefix str_eqb].
      + now rewrite Hx.
      + cbn in Hu. apply andb_true_iff in Hu. destruct Hu as [_ Hu]. now rewrite IH.
  Qed.

  Lemma skip_word u z : nosp u = true -> contains (u ++ z) W = contains z W.
  Proof.
    induction u as [|c u IH]; intros Hu; [reflexivity|].
    cbn in Hu. apply andb_true_iff in Hu. destruct Hu as [Hc Hu]. apply negb_true_iff in Hc.
    cbn [app]. rewrite contains_unfold. unfold W at 1. cbn [has_prefix]. rewrite eqb_swap, Hc. cbn [andb orb].
    now apply IH.
  Qed.

  Lemma tail_blank : contains [sp] W = false.
  Proof.
    rewrite contains_unfold. unfold W. cbn [has_prefix]. rewrite Ascii.eqb_refl. cbn [andb].
    assert (E : has_prefix [] (d ++ [sp]) = false) by (destruct d; reflexivity).
    rewrite E. rewrite contains_unfold. reflexivity.
  Qed.

  Lemma scan_words : forall x cur, nosp cur = true ->
    contains (sp :: rev cur ++ x ++ [sp]) W = existsb (str_eqb d) (split_byte_aux x sp cur).
  Proof.
    induction x as [|c x IH]; intros cur Hc.
    - assert (Hr : nosp (rev cur) = true) by (unfold nosp; now rewrite forallb_rev).
      cbn [app split_byte_aux existsb]. rewrite orb_false_r.
      rewrite contains_unfold. unfold W at 1. cbn [has_prefix]. rewrite Ascii.eqb_refl. cbn [andb].
      rewrite (prefix_word (rev cur) [] Hr). rewrite (skip_word (rev cur) [sp] Hr), tail_blank.
      now rewrite orb_false_r.
    - cbn [split_byte_aux]. destruct (Ascii.eqb c sp) eqn:E.
      + apply Ascii.eqb_eq in E. subst c.
        assert (Hr : nosp (rev cur) = true) by (unfold nosp; now rewrite forallb_rev).
        cbn [existsb app]. rewrite contains_unfold. unfold W at 1. cbn [has_prefix]. rewrite Ascii.eqb_refl. cbn [andb].
        rewrite (prefix_word (rev cur) (x ++ [sp]) Hr). f_equal.
        rewrite (skip_word (rev cur) (sp :: x ++ [sp]) Hr).
        apply (IH [] eq_refl).
      + replace (sp :: rev cur ++ (c :: x) ++ [sp]) with (sp :: rev (c :: cur) ++ x ++ [sp])
          by (cbn [rev app]; now rewrite <- app_assoc).
        apply IH. cbn. now rewrite E.
  Qed.

  Lemma word_between_blanks x : contains ([sp] ++ x ++ [sp]) W = existsb (str_eqb d) (split_byte x sp).
  Proof. exact (scan_words x [] eq_refl). Qed.
End Word.

(** fields = non-empty pieces between blanks, when the blank is the only white space *)
Definition nonempty (p : str) : bool := match p with [] => false | _ => true end.

Lemma rev_cons_nonempty (c : ascii) cur : nonempty (rev (c :: cur)) = true.
Proof. cbn [rev]. destruct (rev cur); reflexivity. Qed.

Definition blank_ws' (s : str) : bool := forallb (fun c => negb (is_space c) || Ascii.eqb c sp) s.
Lemma blank_ws_eq s : blank_ws s = blank_ws' s.
Proof. reflexivity. Qed.

Lemma fields_split : forall s cur, blank_ws' s = true ->
  fields_aux s cur = filter nonempty (split_byte_aux s sp cur).
Proof.
  induction s as [|c s IH]; intros cur H.
  - cbn [fields_aux split_byte_aux filter]. destruct cur as [|x cur]; [reflexivity|].
    now rewrite rev_cons_nonempty.
  - cbn in H. apply andb_true_iff in H. destruct H as [Hc Hs].
    cbn [fields_aux split_byte_aux]. destruct (is_space c) eqn:S.
    + cbn in Hc. rewrite Hc. cbn [filter]. rewrite <- (IH [] Hs).
      destruct cur as [|x cur]; [reflexivity|]. now rewrite rev_cons_nonempty.
    + assert (E : Ascii.eqb c sp = false).
      { destruct (Ascii.eqb_spec c sp) as [->|]; [discriminate S | reflexivity]. }
      rewrite E. now apply IH.
Qed.

Lemma existsb_map {A B} (f : B -> bool) (g : A -> B) l : existsb f (map g l) = existsb (fun x => f (g x)) l.
Proof. induction l as [|x l IH]; [reflexivity|]. cbn. now rewrite IH. Qed.

Lemma existsb_ext {A} (f g : A -> bool) l : (forall x, f x = g x) -> existsb f l = existsb g l.
Proof. intros H. induction l as [|x l IH]; [reflexivity|]. cbn. now rewrite H, IH. Qed.

Lemma existsb_filter {A} (f g : A -> bool) l :
  (forall x, f x = true -> g x = true) -> existsb f (filter g l) = existsb f l.
Proof.
  intros H. induction l as [|x l IH]; [reflexivity|]. cbn [filter existsb].
  destruct (g x) eqn:G; cbn [existsb]; [now rewrite IH|].
  destruct (f x) eqn:F; [rewrite (H x F) in G; discriminate | exact IH].
Qed.

(** case folding *)
Lemma lower_upper_c c : lower_c (upper_c c) = lower_c c.
Proof. apply Ascii.eqb_eq. revert c. ascii_sweep (fun c => Ascii.eqb (lower_c (upper_c c)) (lower_c c)). Qed.
Lemma upper_lower_c c : upper_c (lower_c c) = upper_c c.
Proof. apply Ascii.eqb_eq. revert c. ascii_sweep (fun c => Ascii.eqb (upper_c (lower_c c)) (upper_c c)). Qed.
Lemma lower_sp c : Ascii.eqb (lower_c c) sp = Ascii.eqb c sp.
Proof.
  assert (K : forall c, Bool.eqb (Ascii.eqb (lower_c c) sp) (Ascii.eqb c sp) = true)
    by (ascii_sweep (fun c => Bool.eqb (Ascii.eqb (lower_c c) sp) (Ascii.eqb c sp))).
  now apply eqb_prop.
Qed.

Lemma to_lower_upper a : to_lower (to_upper a) = to_lower a.
Proof. unfold to_lower, to_upper. rewrite map_map. apply map_ext. exact lower_upper_c. Qed.
Lemma to_upper_lower a : to_upper (to_lower a) = to_upper a.
Proof. unfold to_lower, to_upper. rewrite map_map. apply map_ext. exact upper_lower_c. Qed.

Lemma fold_lower a b : equal_fold a b = str_eqb (to_lower a) (to_lower b).
Proof.
  unfold equal_fold. destruct (str_eqb_spec (to_upper a) (to_upper b)) as [E|N];
    destruct (str_eqb_spec (to_lower a) (to_lower b)) as [E'|N']; try reflexivity; exfalso.
  - apply N'. rewrite <- (to_lower_upper a), <- (to_lower_upper b). now rewrite E.
  - apply N. rewrite <- (to_upper_lower a), <- (to_upper_lower b). now rewrite E'.
Qed.

Lemma str_eqb_sym a b : str_eqb a b = str_eqb b a.
Proof. destruct (str_eqb_spec a b), (str_eqb_spec b a); congruence. Qed.

Lemma split_lower : forall s cur,
  split_byte_aux (to_lower s) sp (to_lower cur) = map to_lower (split_byte_aux s sp cur).
Proof.
  induction s as [|c s IH]; intros cur.
  - cbn. unfold to_lower. now rewrite map_rev.
  - cbn [to_lower map split_byte_aux]. rewrite lower_sp. destruct (Ascii.eqb c sp).
    + cbn [map]. f_equal; [unfold to_lower; now rewrite map_rev | apply (IH [])].
    + apply (IH (c :: cur)).
Qed.

Theorem sql_deleted_is_flag_atom flags : blank_ws flags = true -> sql_deleted flags = has_deleted flags.
Proof.
  intros H. rewrite blank_ws_eq in H. unfold sql_deleted, has_deleted, fields.
  change (S_ " \deleted ") with (sp :: S_ "\deleted" ++ [sp]).
  rewrite (word_between_blanks (S_ "\deleted") eq_refl (to_lower flags)).
  rewrite (fields_split flags [] H).
  rewrite existsb_filter by (intros x Hx; destruct x; [discriminate Hx | reflexivity]).
  unfold split_byte. change (@nil ascii) with (to_lower []) at 1. rewrite (split_lower flags []).
  rewrite existsb_map. apply existsb_ext. intros f. rewrite fold_lower, str_eqb_sym. reflexivity.
Qed.
