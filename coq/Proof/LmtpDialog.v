(** C16 — the session automaton of Model/Lmtp.v satisfies the dialogue checker
    of Spec/LmtpDialog.v on EVERY input (the three finding classes of the
    first round are repaired in raven; no classification is left).  Proof:
    simulation between the server's state and the abstract transaction phase. *)
From Coq Require Import String Ascii List Bool ZArith NArith Lia.
From Raven Require Import Base.GoStr Model.Lmtp Spec.LmtpDialog.
Import ListNotations.
Local Open Scope Z_scope.

Section Sim.
  Variable accepts : str -> bool.
  Variable delivers : str -> str -> bool.
  Variable over : str -> str -> bool.
  Variable c : cfg.

  Definition sim (s : st) (m : mode) (p : phase) : Prop :=
    greeted p = negb (is_nil (helo s)) /\
    in_tx p = mail_seen s /\
    accepted p = rcpts s /\
    match m with
    | MCmd => awaiting p = None
    | MData _ => awaiting p = Some (rcpts s) /\ rcpts s <> []
    end.

  Lemma sim0 : sim st0 MCmd phase0.
  Proof. repeat split. Qed.

  (** the per-recipient replies (delivery result, or 552 for an over-quota
      recipient, each in its own position) complete the transaction in the checker *)
  Lemma deliver_run maxr d : forall rs p,
    rs <> [] -> awaiting p = Some rs ->
    dialog_run maxr p (map (fun r => if over r d then Refuse r 552
                                     else Deliver r d (delivers r d)) rs) = Some (end_tx p).
  Proof.
    induction rs as [|r rs IH]; intros p N A; [congruence|].
    cbn [map dialog_run].
    assert (E : dialog_step maxr p (if over r d then Refuse r 552 else Deliver r d (delivers r d))
                = Some (match rs with [] => end_tx p | _ => await p rs end)).
    { unfold dialog_step. rewrite A. destruct (over r d); now rewrite str_eqb_refl. }
    rewrite E. destruct rs as [|r' rs'].
    - reflexivity.
    - rewrite (IH (await p (r' :: rs'))); [reflexivity|discriminate|reflexivity].
  Qed.

  Lemma refuse_run maxr code : forall rs p,
    rs <> [] -> awaiting p = Some rs ->
    dialog_run maxr p (map (fun r => Refuse r code) rs) = Some (end_tx p).
  Proof.
    induction rs as [|r rs IH]; intros p N A; [congruence|].
    cbn [map dialog_run]. unfold dialog_step. rewrite A. rewrite str_eqb_refl.
    destruct rs as [|r' rs'].
    - reflexivity.
    - rewrite (IH (await p (r' :: rs'))); [reflexivity|discriminate|reflexivity].
  Qed.

  Ltac case_if :=
    match goal with
    | |- context [if ?b then _ else _] => let E := fresh "E" in destruct b eqn:E
    | H : context [if ?b then _ else _] |- _ => let E := fresh "E" in destruct b eqn:E
    end.

  Lemma handle_sim s p cmd args s' evs nx :
    sim s MCmd p ->
    handle c s cmd args = (s', evs, nx) ->
    exists p', dialog_run (max_rcpts c) p evs = Some p' /\
               sim s' (match nx with NData => MData d0 | _ => MCmd end) p'.
  Proof.
    intros (G & T & A & W) H. cbn in W.
    unfold handle in H.
    repeat (case_if || match type of H with context [match ?x with Some _ => _ | None => _ end] => destruct x eqn:? end).
    all: inversion H; subst; clear H.
    all: cbn [dialog_run dialog_step]; unfold dialog_step; rewrite W; cbn [N.eqb Pos.eqb].
    all: try (rewrite G, T); try rewrite T; try rewrite A; unfold below_limit; try rewrite A.
    all: repeat match goal with
             | H : is_nil ?x = _ |- _ => rewrite H
             | H : negb ?x = true |- _ => apply negb_true_iff in H; rewrite H
             | H : negb ?x = false |- _ => apply negb_false_iff in H; rewrite H
             | H : mail_seen ?x = _ |- _ => rewrite H
             end.
    all: cbn [negb andb orb].
    all: try match goal with E : (?a >=? ?b) = true |- _ =>
           rewrite Z.geb_leb in E; apply Z.leb_le in E;
           replace (a <? b) with false by (symmetry; apply Z.ltb_ge; lia) end.
    all: try match goal with E : (?a >=? ?b) = false |- _ =>
           rewrite Z.geb_leb in E; apply Z.leb_gt in E;
           replace (a <? b) with true by (symmetry; apply Z.ltb_lt; lia) end.
    all: try match goal with E : is_nil_l ?l = _ |- _ =>
           unfold is_nil_l in E; destruct l eqn:?; try discriminate E end.
    all: cbn [negb andb orb nonempty].
    all: eexists; (split; [reflexivity|]); unfold sim; cbn; repeat split; auto; try congruence.
    all: match goal with E : is_nil ?a = false |- true = negb (is_nil ?a) => now rewrite E end.
  Qed.

  Lemma step_sim s m p line s' m' evs q :
    sim s m p ->
    step accepts delivers over c s m line = (s', m', evs, q) ->
    exists p', dialog_run (max_rcpts c) p evs = Some p' /\ sim s' m' p'.
  Proof.
    intros S H. destruct m as [|d]; cbn [step] in H.
    - destruct (parse_cmd line) as [[cmd args]|].
      + destruct (handle c s cmd args) as [[s1 e1] nx] eqn:Hh.
        destruct (handle_sim _ _ _ _ _ _ _ S Hh) as (p' & R & S').
        exists p'. destruct nx; injection H as <- <- <- <-; auto.
      + injection H as <- <- <- <-. exists p. split; [reflexivity|exact S].
    - destruct (data_line (max_size c) d line).
      + destruct S as (G & T & A & W & NE).
        assert (SR : sim (reset s) MCmd (end_tx p)) by (unfold sim; cbn; repeat split; auto).
        unfold finish_data, reject in H.
        destruct (data_end d); [destruct (accepts data)|..]; injection H as <- <- <- <-;
          exists (end_tx p); (split; [|exact SR]);
          first [apply deliver_run; auto | apply refuse_run; auto].
      + injection H as <- <- <- <-. exists p. split; [reflexivity|exact S].
  Qed.

  Lemma dialog_run_app maxr a : forall p b,
    dialog_run maxr p (a ++ b) =
    match dialog_run maxr p a with Some p' => dialog_run maxr p' b | None => None end.
  Proof.
    induction a as [|e a IH]; intros p b; cbn; [reflexivity|].
    destruct (dialog_step maxr p e); [apply IH|reflexivity].
  Qed.

  Lemma run_sim ls : forall s m p,
    sim s m p ->
    exists p', dialog_run (max_rcpts c) p (fst (run accepts delivers over c s m ls)) = Some p'.
  Proof.
    induction ls as [|l ls IH]; intros s m p S; cbn [run] in *.
    - destruct m; cbn [fst]; [exists p; reflexivity|].
      destruct S as (_ & _ & _ & W & NE). exists p. cbn. unfold dialog_step. rewrite W.
      destruct (rcpts s); [congruence|reflexivity].
    - destruct (step accepts delivers over c s m l) as [[[s1 m1] e1] q] eqn:Hs.
      destruct (step_sim _ _ _ _ _ _ _ _ S Hs) as (p' & R & S').
      destruct q.
      + cbn [fst]. eauto.
      + destruct (run accepts delivers over c s1 m1 ls) as [e r] eqn:Hr. cbn [fst] in *.
        specialize (IH s1 m1 p' S'). rewrite Hr in IH. cbn [fst] in IH.
        destruct IH as (p'' & R'). exists p''. rewrite dialog_run_app, R. exact R'.
  Qed.

  (** (a)(c)(d)(e) on the reply trace, for every stream of lines *)
  Theorem dialog_ok_run ls :
    dialog_ok (max_rcpts c) (fst (run accepts delivers over c st0 MCmd ls)) = true.
  Proof.
    unfold dialog_ok.
    destruct (run_sim ls st0 MCmd phase0 sim0) as (p' & ->). reflexivity.
  Qed.

  (** (c) the recipient limit as an invariant of the server's state *)
  Lemma step_rcpts_bound s m line s' m' evs q :
    0 <= max_rcpts c ->
    Z.of_nat (length (rcpts s)) <= max_rcpts c ->
    step accepts delivers over c s m line = (s', m', evs, q) ->
    Z.of_nat (length (rcpts s')) <= max_rcpts c.
  Proof.
    intros M B H. destruct m as [|d]; cbn [step] in H.
    - destruct (parse_cmd line) as [[cmd args]|]; [|injection H as <- <- <- <-; exact B].
      destruct (handle c s cmd args) as [[s1 e1] nx] eqn:Hh.
      assert (Z.of_nat (length (rcpts s1)) <= max_rcpts c).
      { unfold handle in Hh.
        repeat (case_if || match type of Hh with context [match ?x with Some _ => _ | None => _ end] => destruct x eqn:? end).
        all: inversion Hh; subst; clear Hh; cbn [rcpts reset length]; try lia.
        rewrite app_length. cbn [length].
        match goal with E : (_ >=? _) = false |- _ => rewrite Z.geb_leb in E; apply Z.leb_gt in E end. lia. }
      destruct nx; injection H as <- <- <- <-; auto.
    - destruct (data_line (max_size c) d line).
      + unfold finish_data, reject in H.
        destruct (data_end d); [destruct (accepts data)|..]; injection H as <- <- <- <-; cbn; lia.
      + injection H as <- <- <- <-; auto.
  Qed.

  Theorem rcpts_bound ls : forall s m,
    0 <= max_rcpts c ->
    Z.of_nat (length (rcpts s)) <= max_rcpts c ->
    Z.of_nat (length (rcpts (fst (run_state accepts delivers over c s m ls)))) <= max_rcpts c.
  Proof.
    induction ls as [|l ls IH]; intros s m M B; cbn [run_state]; [exact B|].
    destruct (step accepts delivers over c s m l) as [[[s1 m1] e1] q] eqn:Hs.
    pose proof (step_rcpts_bound _ _ _ _ _ _ _ M B Hs).
    destruct q; [exact H|apply IH; auto].
  Qed.
End Sim.
