(** C08 — (e) no spurious failure, for EVERY schedule: in a thread set of
    deliveries, appends and CREATEs a thread is refused only if it is an APPEND
    to a folder that did not exist when the run started, or a delivery to the
    empty folder name — both fail on their own as well.  No thread fails after
    its message row was written (no orphan), and UIDNEXT stays above every UID. *)
From Coq Require Import String Ascii List Bool ZArith Lia Arith.
From Raven Require Import Base.GoStr Model.Store Model.Ops Model.Conc Proof.StoreInv
  Proof.ConcStore Proof.ConcInv Proof.ConcAck.
Import ListNotations.
Local Open Scope Z_scope.

Definition NA (s : store) : Prop :=
  forall l m, In l (links s) -> In m (mboxes s) -> mb_id m = lk_mbox l -> lk_uid l < mb_next m.
Definition HOME (s : store) : Prop :=
  forall l, In l (links s) -> exists m, In m (mboxes s) /\ mb_id m = lk_mbox l.
Definition IDS (s : store) : Prop := NoDup (map mb_id (mboxes s)).
Definition has_row (s : store) (mb : Z) : Prop := exists m, In m (mboxes s) /\ mb_id m = mb.
Definition has_name (s : store) (f : str) : Prop := exists m, In m (mboxes s) /\ mb_name m = f.

Definition good_store (s : store) : Prop := NA s /\ HOME s /\ IDS s.

(** rows persist (id, name), uid_next never decreases, new rows have new ids *)
Record Pres (s s' : store) : Prop := mkPres {
  p_kept : forall m, In m (mboxes s) ->
           exists m', In m' (mboxes s') /\ mb_id m' = mb_id m /\ mb_name m' = mb_name m;
  p_from : forall m', In m' (mboxes s') ->
           (exists m, In m (mboxes s) /\ mb_id m = mb_id m' /\ mb_next m <= mb_next m') \/
           (forall m, In m (mboxes s) -> mb_id m <> mb_id m');
  p_ids : IDS s -> IDS s'
}.

Lemma Pres_refl s : Pres s s.
Proof.
  split; auto.
  - intros m H. exists m. auto.
  - intros m H. left. exists m. repeat split; auto. lia.
Qed.

Lemma Pres_mboxes_eq s s' : mboxes s' = mboxes s -> Pres s s'.
Proof.
  intros E. split; unfold IDS; rewrite E; auto.
  - intros m H. exists m. auto.
  - intros m H. left. exists m. repeat split; auto. lia.
Qed.

Lemma Pres_bump s mb : Pres s (bump s mb).
Proof.
  split; unfold bump, IDS; simpl.
  - intros m H. exists (bump_row mb m). split; [apply in_map; exact H|].
    rewrite bump_row_id, bump_row_name. auto.
  - intros m' H. apply in_map_iff in H. destruct H as (m & <- & H). left. exists m.
    rewrite bump_row_id. repeat split; auto. unfold bump_row. destruct (mb_id m =? mb); simpl; lia.
  - rewrite map_map. intros H. erewrite map_ext; [exact H|]. intros m. simpl. apply bump_row_id.
Qed.

Lemma Pres_create s n t s' id :
  create_mailbox_row s n t = Some (s', id) ->
  Pres s s' /\ links s' = links s /\ has_row s' id /\ has_name s' n.
Proof.
  unfold create_mailbox_row. destruct n as [|a n]; [discriminate|].
  destruct (find_name s (a :: n)); [discriminate|]. intros [= <- <-]. simpl.
  set (nid := fresh_id (map mb_id (mboxes s))).
  assert (F : forall m, In m (mboxes s) -> mb_id m <> nid).
  { intros m H E. pose proof (fresh_id_gt (map mb_id (mboxes s)) (mb_id m) (in_map _ _ _ H)).
    fold nid in H0. lia. }
  repeat split; simpl; auto.
  - intros m H. exists m. split; [apply in_or_app; auto|auto].
  - intros m' H. apply in_app_or in H. destruct H as [H|[<-|[]]].
    + left. exists m'. repeat split; auto. lia.
    + right. exact F.
  - unfold IDS. simpl. rewrite map_app. simpl. intros N. apply NoDup_app_one; auto.
    intros C. apply in_map_iff in C. destruct C as (m & E & H). eapply F; eauto.
  - eexists. split; [apply in_or_app; right; left; reflexivity|reflexivity].
  - eexists. split; [apply in_or_app; right; left; reflexivity|reflexivity].
Qed.

Lemma Pres_trans a b c : Pres a b -> Pres b c -> Pres a c.
Proof.
  intros [K1 F1 I1] [K2 F2 I2]. split; auto.
  - intros m H. destruct (K1 m H) as (m1 & H1 & E1 & E1'). destruct (K2 m1 H1) as (m2 & H2 & E2 & E2').
    exists m2. repeat split; auto; congruence.
  - intros m'' H. destruct (F2 m'' H) as [(m' & H' & E & L)|N].
    + destruct (F1 m' H') as [(m & Hm & E0 & L0)|N0].
      * left. exists m. repeat split; auto; try congruence; lia.
      * right. intros m Hm. rewrite <- E. auto.
    + right. intros m Hm. destruct (K1 m Hm) as (m1 & H1 & E1 & _). rewrite <- E1. auto.
Qed.

Lemma Pres_create_or_same s n t : Pres s (create_or_same s n t).
Proof.
  unfold create_or_same. destruct (create_mailbox_row s n t) as [[s' id]|] eqn:C; [|apply Pres_refl].
  apply (Pres_create _ _ _ _ _ C).
Qed.

Lemma Pres_defaults s t : Pres s (add_defaults s t).
Proof.
  unfold add_defaults. repeat (eapply Pres_trans; [|apply Pres_create_or_same]). apply Pres_refl.
Qed.

(** CREATE (with its intermediate hierarchy) only appends rows *)
Lemma create_parents_pres s name t : Pres s (fst (create_parents s name t)).
Proof.
  unfold create_parents. destruct (contains_byte name SLASH); cbn [fst]; [|apply Pres_refl].
  generalize (parent_paths name). intros ps. revert s.
  induction ps as [|p r IH]; simpl; intros s; [apply Pres_refl|].
  destruct p as [|c p]; [apply IH|].
  destruct (equal_fold (c :: p) INBOX); [apply IH|].
  destruct (find_name s (c :: p)); [apply IH|].
  destruct (create_mailbox_row s (c :: p) t) as [[s2 id]|] eqn:C; [|apply IH].
  eapply Pres_trans; [apply (Pres_create _ _ _ _ _ C) | apply IH].
Qed.

Lemma op_create_pres s n t : Pres s (fst (op_create s n t)).
Proof.
  unfold op_create. destruct (trim_suffix n [SLASH]) as [|c name] eqn:T; [cbn [fst]; apply Pres_refl|].
  destruct (str_eqb (to_upper (c :: name)) INBOX); [cbn [fst]; apply Pres_refl|].
  destruct (is_role_ns (c :: name)); [cbn [fst]; apply Pres_refl|].
  destruct (find_name s (c :: name)); [cbn [fst]; apply Pres_refl|].
  pose proof (create_parents_pres s (c :: name) t) as P.
  destruct (create_mailbox_row (fst (create_parents s (c :: name) t)) (c :: name) t) as [[s2 id]|] eqn:C;
    cbn [fst]; auto.
  eapply Pres_trans; [exact P | apply (Pres_create _ _ _ _ _ C)].
Qed.

(** ---- consequences of Pres for the store invariants (links unchanged) ---------------------- *)

Lemma has_row_pres s s' mb : Pres s s' -> has_row s mb -> has_row s' mb.
Proof. intros P (m & H & E). destruct (p_kept _ _ P m H) as (m' & H' & E' & _). exists m'. split; congruence. Qed.
Lemma has_name_pres s s' f : Pres s s' -> has_name s f -> has_name s' f.
Proof. intros P (m & H & E). destruct (p_kept _ _ P m H) as (m' & H' & _ & E'). exists m'. split; congruence. Qed.

Lemma good_pres s s' : Pres s s' -> links s' = links s -> good_store s -> good_store s'.
Proof.
  intros P L (N & H & I). repeat split.
  - intros l m' Hl Hm E. rewrite L in Hl. destruct (p_from _ _ P m' Hm) as [(m & Hm0 & E0 & Le)|F].
    + specialize (N l m Hl Hm0). rewrite E0 in N. specialize (N E). lia.
    + destruct (H l Hl) as (m & Hm0 & E0). exfalso. apply (F m Hm0). congruence.
  - intros l Hl. rewrite L in Hl. destruct (H l Hl) as (m & Hm & E).
    destruct (p_kept _ _ P m Hm) as (m' & Hm' & E' & _). exists m'. split; congruence.
  - apply (p_ids _ _ P I).
Qed.

(** ---- per-thread invariant ------------------------------------------------------------------- *)

Definition prog_folder (p : prog) : str :=
  match p with PDeliver f _ => f | PAppend f _ => f | PFirstDeliver f _ _ => f | _ => [] end.
Definition is_append (p : prog) : bool := match p with PAppend _ _ => true | _ => false end.

Definition th_ok (s0 s : store) (th : thread) : Prop :=
  match t_st th with
  | SStore mb | SAlloc mb _ => has_row s mb
  | SInsert mb _ u =>
      has_row s mb /\
      (forall m, In m (mboxes s) -> mb_id m = mb -> u < mb_next m) /\
      (forall l, In l (links s) -> lk_mbox l = mb -> lk_uid l <> u)
  | SCreate => find_name s0 (prog_folder (t_prog th)) = None
  | SRelookup => find_name s0 (prog_folder (t_prog th)) = None /\
                 (prog_folder (t_prog th) = [] \/ has_name s (prog_folder (t_prog th)))
  | SFail o => o = None /\ find_name s0 (prog_folder (t_prog th)) = None /\
               (is_append (t_prog th) = true \/ prog_folder (t_prog th) = [])
  | _ => True
  end.

Lemma th_ok_pres s0 s s' th :
  Pres s s' -> links s' = links s -> th_ok s0 s th -> th_ok s0 s' th.
Proof.
  intros P L. unfold th_ok. destruct (t_st th); auto.
  - intros [A [B|B]]; split; auto. right. eapply has_name_pres; eauto.
  - apply has_row_pres; auto.
  - apply has_row_pres; auto.
  - intros (R & N & K). split; [eapply has_row_pres; eauto|]. split.
    + intros m' Hm E. destruct (p_from _ _ P m' Hm) as [(m & Hm0 & E0 & Le)|F].
      * specialize (N m Hm0). rewrite E0 in N. specialize (N E). lia.
      * destruct R as (m & Hm0 & E0). exfalso. apply (F m Hm0). congruence.
    + rewrite L. exact K.
Qed.

Record TInv (s0 : store) (c : config) : Prop := mkTInv {
  ti_good : good_store (c_store c);
  ti_names : forall f, has_name s0 f -> has_name (c_store c) f;
  ti_progs : all_progs simple c;
  ti_th : forall i th, nth_error (c_threads c) i = Some th -> th_ok s0 (c_store c) th;
  ti_pair : forall i j thi thj mb mi ui mj uj, i <> j ->
            nth_error (c_threads c) i = Some thi -> nth_error (c_threads c) j = Some thj ->
            t_st thi = SInsert mb mi ui -> t_st thj = SInsert mb mj uj -> ui <> uj
}.

Lemma find_name_has s f : find_name s f = None <-> ~ has_name s f.
Proof.
  split.
  - intros N (m & H & E). eapply find_name_none; eauto.
  - intros N. destruct (find_name s f) as [m|] eqn:F; auto. exfalso. apply N.
    destruct (find_name_some _ _ _ F). exists m. auto.
Qed.

Lemma find_id_has s mb : has_row s mb -> find_id s mb <> None.
Proof.
  intros (m & H & E) N. unfold find_id in N. pose proof (find_none _ _ N m H) as X. simpl in X.
  rewrite E, Z.eqb_refl in X. discriminate.
Qed.

Lemma init_tinv s ps : good_store s -> forallb simple ps = true -> TInv s (init_cfg s ps).
Proof.
  intros G S.
  assert (ST : forall i th, nth_error (map start ps) i = Some th -> exists p, th = start p).
  { intros i th H. apply nth_error_In in H. apply in_map_iff in H. destruct H as (p & <- & _). eauto. }
  split; cbn [init_cfg c_store c_threads]; auto.
  - apply init_progs. exact S.
  - intros i th H. destruct (ST _ _ H) as (p & ->). destruct p; exact I.
  - intros i j thi thj mb mi ui mj uj _ H _ E. destruct (ST _ _ H) as (p & ->). destruct p; discriminate.
Qed.

(** generic re-establishment when the link table is unchanged and the stepping
    thread does not end in [SInsert] *)
Lemma tinv_links_same s0 c i th s' th' :
  TInv s0 c -> nth_error (c_threads c) i = Some th ->
  Pres (c_store c) s' -> links s' = links (c_store c) ->
  t_prog th' = t_prog th -> th_ok s0 s' th' ->
  (forall mb m u, t_st th' = SInsert mb m u ->
     forall j thj mj uj, j <> i -> nth_error (c_threads c) j = Some thj ->
                         t_st thj = SInsert mb mj uj -> u <> uj) ->
  TInv s0 (mkCfg s' (replace i th' (c_threads c))).
Proof.
  intros [G NM PR TH PA] N P L EP OK NEW.
  assert (NR : forall j thj, nth_error (replace i th' (c_threads c)) j = Some thj ->
               (j = i /\ thj = th') \/ (j <> i /\ nth_error (c_threads c) j = Some thj)).
  { intros j thj H. rewrite nth_error_replace in H. destruct (Nat.eqb_spec j i) as [->|NE].
    - rewrite N in H. injection H as <-. auto.
    - auto. }
  split; cbn [c_store c_threads].
  - eapply good_pres; eauto.
  - intros f H. eapply has_name_pres; eauto.
  - intros j thj H. destruct (NR _ _ H) as [[-> ->]|[_ H']]; [rewrite EP|]; eauto.
  - intros j thj H. destruct (NR _ _ H) as [[-> ->]|[_ H']]; auto. eapply th_ok_pres; eauto.
  - intros j k thj thk mb mj uj mk uk NE Hj Hk Sj Sk.
    destruct (NR _ _ Hj) as [[-> ->]|[NEj Hj']]; destruct (NR _ _ Hk) as [[-> ->]|[NEk Hk']].
    + congruence.
    + exact (NEW mb mj uj Sj k thk mk uk NEk Hk' Sk).
    + intros E. symmetry in E. revert E. exact (NEW mb mk uk Sk j thj mj uj NEj Hj' Sj).
    + exact (PA j k thj thk mb mj uj mk uk NE Hj' Hk' Sj Sk).
Qed.

Lemma not_insert_new (th' : thread) :
  (forall mb m u, t_st th' <> SInsert mb m u) ->
  forall (c : config) (i : nat) mb m u, t_st th' = SInsert mb m u ->
     forall j thj mj uj, j <> i -> nth_error (c_threads c) j = Some thj ->
                         t_st thj = SInsert mb mj uj -> u <> uj.
Proof. intros H c i mb m u E. exfalso. eapply H; eauto. Qed.

Lemma sched_step_tinv s0 c i : TInv s0 c -> TInv s0 (sched_step c i).
Proof.
  intros T. unfold sched_step. destruct (nth_error (c_threads c) i) as [th|] eqn:N; [|exact T].
  pose proof (ti_th _ _ T i th N) as OK. pose proof (ti_progs _ _ T i th N) as SP.
  destruct T as [G NM PR TH PA]. destruct G as (GN & GH & GI).
  assert (T : TInv s0 c) by (split; auto; repeat split; auto).
  destruct th as [p st]. unfold thread_step, store_message. cbn [t_prog t_st] in *.
  assert (SAME : forall th', t_prog th' = p -> th_ok s0 (c_store c) th' ->
                 (forall mb m u, t_st th' <> SInsert mb m u) ->
                 TInv s0 (mkCfg (c_store c) (replace i th' (c_threads c)))).
  { intros th' EP O NI.
    apply (tinv_links_same s0 c i _ (c_store c) th' T N); [apply Pres_refl|reflexivity|exact EP|exact O|].
    intros mb m u E. exfalso. eapply NI; eauto. }
  assert (NOOP : TInv s0 (mkCfg (c_store c) (replace i (mkThread p st) (c_threads c)))).
  { apply (tinv_links_same s0 c i _ (c_store c) _ T N); [apply Pres_refl|reflexivity|reflexivity|exact OK|].
    intros mb m u E j thj mj uj NE Hj Sj.
    exact (PA i j (mkThread p st) thj mb m u mj uj (fun X => NE (eq_sym X)) N Hj E Sj). }
  destruct p as [f t|f fl|a|f t ti|ti]; destruct st; try exact NOOP.
  (* ---- PDeliver ---- *)
  - (* lookup *)
    destruct (find_name (c_store c) f) as [m|] eqn:F.
    + apply SAME; [reflexivity| |discriminate]. unfold th_ok. simpl.
      destruct (find_name_some _ _ _ F). exists m. auto.
    + apply SAME; [reflexivity| |discriminate]. unfold th_ok. simpl.
      apply find_name_has. intros H. apply find_name_has in F. auto.
  - (* create *)
    destruct (create_mailbox_row (c_store c) f t) as [[s1 id]|] eqn:C.
    + destruct (Pres_create _ _ _ _ _ C) as (P & L & R & _).
      apply (tinv_links_same s0 c i _ s1 _ T N); [exact P|exact L|reflexivity|exact R|].
      intros mb m u E. discriminate.
    + apply SAME; [reflexivity| |discriminate]. unfold th_ok in *. simpl in *. split; auto.
      unfold create_mailbox_row in C. destruct f as [|a f]; auto. right.
      destruct (find_name (c_store c) (a :: f)) as [m|] eqn:F; [|discriminate].
      destruct (find_name_some _ _ _ F). exists m. auto.
  - (* relookup *)
    unfold th_ok in OK. simpl in OK. destruct OK as [O1 O2].
    destruct (find_name (c_store c) f) as [m|] eqn:F.
    + apply SAME; [reflexivity| |discriminate]. unfold th_ok. simpl.
      destruct (find_name_some _ _ _ F). exists m. auto.
    + apply SAME; [reflexivity| |discriminate]. unfold th_ok. simpl. repeat split; auto.
      right. destruct O2 as [O2|O2]; auto. apply find_name_has in F. contradiction.
  - (* store message *)
    apply (tinv_links_same s0 c i _ _ _ T N); [apply Pres_mboxes_eq; reflexivity|reflexivity|reflexivity| |].
    + unfold th_ok in *. simpl in *. destruct OK as (m & H & E). exists m. auto.
    + intros mb' m u E. discriminate.
  - (* allocate *)
    unfold th_ok in OK. simpl in OK.
    destruct (find_id (c_store c) mb) as [m|] eqn:F; [|exfalso; eapply find_id_has; eauto].
    destruct (find_id_some _ _ _ F) as [Hm Em].
    assert (UQ : forall m', In m' (mboxes (c_store c)) -> mb_id m' = mb -> m' = m).
    { intros m' H' E'. eapply (NoDup_map_inj mb_id); eauto. congruence. }
    apply (tinv_links_same s0 c i _ _ _ T N); [apply Pres_bump|reflexivity|reflexivity| |].
    + unfold th_ok. simpl. split; [eapply has_row_pres; [apply Pres_bump|exact OK]|]. split.
      * intros m' H' E'. apply in_map_iff in H'. destruct H' as (m0 & <- & H0).
        rewrite bump_row_id in E'. rewrite (UQ m0 H0 E'). unfold bump_row.
        rewrite Em, Z.eqb_refl. simpl. lia.
      * intros l Hl El. specialize (GN l m Hl Hm). rewrite Em in GN. specialize (GN (eq_sym El)). lia.
    + intros mb' m' u E j thj mj uj NE Hj Sj. injection E as <- _ <-.
      pose proof (TH j thj Hj) as Oj. unfold th_ok in Oj. rewrite Sj in Oj.
      destruct Oj as (_ & B & _). specialize (B m Hm Em). lia.
  - (* insert *)
    unfold th_ok in OK. simpl in OK. destruct OK as (R & B & K). cbn [prog_flags].
    destruct (insert_link (c_store c) msg mb uid []) as [s1|] eqn:I.
    2:{ exfalso. unfold insert_link in I. rewrite (existsb_at_uid_false (c_store c) mb uid) in I; [discriminate|].
        intros l Hl El. auto. }
    destruct (insert_link_shape _ _ _ _ _ _ I) as (_ & L & _ & M).
    assert (NR : forall j thj, nth_error (replace i (mkThread (PDeliver f t) (SOk mb msg uid)) (c_threads c)) j = Some thj ->
                 (j = i /\ thj = mkThread (PDeliver f t) (SOk mb msg uid)) \/ (j <> i /\ nth_error (c_threads c) j = Some thj)).
    { intros j thj H. rewrite nth_error_replace in H. destruct (Nat.eqb_spec j i) as [->|NE].
      - rewrite N in H. injection H as <-. auto.
      - auto. }
    split; cbn [c_store c_threads].
    + repeat split.
      * intros l m Hl Hm E. rewrite M in Hm. rewrite L in Hl. apply in_app_or in Hl.
        destruct Hl as [Hl|[<-|[]]]; [eapply GN; eauto|]. simpl in *. apply B; auto.
      * intros l Hl. rewrite M. rewrite L in Hl. apply in_app_or in Hl.
        destruct Hl as [Hl|[<-|[]]]; [auto|]. simpl. exact R.
      * unfold IDS. rewrite M. exact GI.
    + intros f' H. destruct (NM f' H) as (m & Hm & E). exists m. rewrite M. auto.
    + intros j thj H. destruct (NR _ _ H) as [[-> ->]|[_ H']]; [reflexivity|eauto].
    + intros j thj H. destruct (NR _ _ H) as [[-> ->]|[NE H']]; [exact Logic.I|].
      pose proof (TH j thj H') as Oj. unfold th_ok in *. destruct (t_st thj) eqn:Sj; auto;
        unfold has_row, has_name in *; try rewrite M; auto.
      destruct Oj as (Rj & Bj & Kj). repeat split; auto. intros l Hl El. rewrite L in Hl.
        apply in_app_or in Hl. destruct Hl as [Hl|[<-|[]]]; [auto|]. simpl in *. subst mb0.
        exact (PA i j _ thj mb msg uid _ _ (fun X => NE (eq_sym X)) N H' eq_refl Sj).
    + intros j k thj thk mb' mj uj mk uk NE Hj Hk Sj Sk.
      destruct (NR _ _ Hj) as [[-> ->]|[NEj Hj']]; destruct (NR _ _ Hk) as [[-> ->]|[NEk Hk']];
        try discriminate. exact (PA j k thj thk mb' mj uj mk uk NE Hj' Hk' Sj Sk).
  (* ---- PAppend ---- *)
  - destruct (find_name (c_store c) f) as [m|] eqn:F.
    + apply SAME; [reflexivity| |discriminate]. unfold th_ok. simpl.
      destruct (find_name_some _ _ _ F). exists m. auto.
    + apply SAME; [reflexivity| |discriminate]. unfold th_ok. simpl. repeat split; auto.
      apply find_name_has. intros H. apply find_name_has in F. auto.
  - apply (tinv_links_same s0 c i _ _ _ T N); [apply Pres_mboxes_eq; reflexivity|reflexivity|reflexivity| |].
    + unfold th_ok in *. simpl in *. destruct OK as (m & H & E). exists m. auto.
    + intros mb' m u E. discriminate.
  - unfold th_ok in OK. simpl in OK.
    destruct (find_id (c_store c) mb) as [m|] eqn:F; [|exfalso; eapply find_id_has; eauto].
    destruct (find_id_some _ _ _ F) as [Hm Em].
    assert (UQ : forall m', In m' (mboxes (c_store c)) -> mb_id m' = mb -> m' = m).
    { intros m' H' E'. eapply (NoDup_map_inj mb_id); eauto. congruence. }
    apply (tinv_links_same s0 c i _ _ _ T N); [apply Pres_bump|reflexivity|reflexivity| |].
    + unfold th_ok. simpl. split; [eapply has_row_pres; [apply Pres_bump|exact OK]|]. split.
      * intros m' H' E'. apply in_map_iff in H'. destruct H' as (m0 & <- & H0).
        rewrite bump_row_id in E'. rewrite (UQ m0 H0 E'). unfold bump_row.
        rewrite Em, Z.eqb_refl. simpl. lia.
      * intros l Hl El. specialize (GN l m Hl Hm). rewrite Em in GN. specialize (GN (eq_sym El)). lia.
    + intros mb' m' u E j thj mj uj NE Hj Sj. injection E as <- _ <-.
      pose proof (TH j thj Hj) as Oj. unfold th_ok in Oj. rewrite Sj in Oj.
      destruct Oj as (_ & B & _). specialize (B m Hm Em). lia.
  - unfold th_ok in OK. simpl in OK. destruct OK as (R & B & K). cbn [prog_flags].
    destruct (insert_link (c_store c) msg mb uid fl) as [s1|] eqn:I.
    2:{ exfalso. unfold insert_link in I. rewrite (existsb_at_uid_false (c_store c) mb uid) in I; [discriminate|].
        intros l Hl El. auto. }
    destruct (insert_link_shape _ _ _ _ _ _ I) as (_ & L & _ & M).
    assert (NR : forall j thj, nth_error (replace i (mkThread (PAppend f fl) (SOk mb msg uid)) (c_threads c)) j = Some thj ->
                 (j = i /\ thj = mkThread (PAppend f fl) (SOk mb msg uid)) \/ (j <> i /\ nth_error (c_threads c) j = Some thj)).
    { intros j thj H. rewrite nth_error_replace in H. destruct (Nat.eqb_spec j i) as [->|NE].
      - rewrite N in H. injection H as <-. auto.
      - auto. }
    split; cbn [c_store c_threads].
    + repeat split.
      * intros l m Hl Hm E. rewrite M in Hm. rewrite L in Hl. apply in_app_or in Hl.
        destruct Hl as [Hl|[<-|[]]]; [eapply GN; eauto|]. simpl in *. apply B; auto.
      * intros l Hl. rewrite M. rewrite L in Hl. apply in_app_or in Hl.
        destruct Hl as [Hl|[<-|[]]]; [auto|]. simpl. exact R.
      * unfold IDS. rewrite M. exact GI.
    + intros f' H. destruct (NM f' H) as (m & Hm & E). exists m. rewrite M. auto.
    + intros j thj H. destruct (NR _ _ H) as [[-> ->]|[_ H']]; [reflexivity|eauto].
    + intros j thj H. destruct (NR _ _ H) as [[-> ->]|[NE H']]; [exact Logic.I|].
      pose proof (TH j thj H') as Oj. unfold th_ok in *. destruct (t_st thj) eqn:Sj; auto;
        unfold has_row, has_name in *; try rewrite M; auto.
      destruct Oj as (Rj & Bj & Kj). repeat split; auto. intros l Hl El. rewrite L in Hl.
        apply in_app_or in Hl. destruct Hl as [Hl|[<-|[]]]; [auto|]. simpl in *. subst mb0.
        exact (PA i j _ thj mb msg uid _ _ (fun X => NE (eq_sym X)) N H' eq_refl Sj).
    + intros j k thj thk mb' mj uj mk uk NE Hj Hk Sj Sk.
      destruct (NR _ _ Hj) as [[-> ->]|[NEj Hj']]; destruct (NR _ _ Hk) as [[-> ->]|[NEk Hk']];
        try discriminate. exact (PA j k thj thk mb' mj uj mk uk NE Hj' Hk' Sj Sk).
  (* ---- PAtomic (simple: CREATE) ---- *)
  - destruct a; try discriminate. cbn [aop_op step].
    destruct (op_create (c_store c) name t) as [s1 r] eqn:E.
    pose proof (op_create_pres (c_store c) name t) as P. pose proof (op_create_links (c_store c) name t) as [L _].
    rewrite E in P, L. cbn [fst] in P, L.
    apply (tinv_links_same s0 c i _ s1 _ T N); [exact P|exact L|reflexivity|exact Logic.I|].
    intros mb m u X. discriminate.
  (* ---- first contact: count, initialisation transaction ---- *)
  - destruct (mboxes (c_store c)) eqn:MB; apply SAME; try reflexivity; try exact Logic.I; discriminate.
  - destruct (mboxes (c_store c)) eqn:MB.
    + apply (tinv_links_same s0 c i _ _ _ T N); [apply Pres_defaults|apply add_defaults_links|reflexivity|exact Logic.I|].
      intros mb m u X. discriminate.
    + apply SAME; try reflexivity; try exact Logic.I; discriminate.
  (* ---- PFirstDeliver: as PDeliver ---- *)
  - (* lookup *)
    destruct (find_name (c_store c) f) as [m|] eqn:F.
    + apply SAME; [reflexivity| |discriminate]. unfold th_ok. simpl.
      destruct (find_name_some _ _ _ F). exists m. auto.
    + apply SAME; [reflexivity| |discriminate]. unfold th_ok. simpl.
      apply find_name_has. intros H. apply find_name_has in F. auto.
  - (* create *)
    destruct (create_mailbox_row (c_store c) f t) as [[s1 id]|] eqn:C.
    + destruct (Pres_create _ _ _ _ _ C) as (P & L & R & _).
      apply (tinv_links_same s0 c i _ s1 _ T N); [exact P|exact L|reflexivity|exact R|].
      intros mb m u E. discriminate.
    + apply SAME; [reflexivity| |discriminate]. unfold th_ok in *. simpl in *. split; auto.
      unfold create_mailbox_row in C. destruct f as [|a f]; auto. right.
      destruct (find_name (c_store c) (a :: f)) as [m|] eqn:F; [|discriminate].
      destruct (find_name_some _ _ _ F). exists m. auto.
  - (* relookup *)
    unfold th_ok in OK. simpl in OK. destruct OK as [O1 O2].
    destruct (find_name (c_store c) f) as [m|] eqn:F.
    + apply SAME; [reflexivity| |discriminate]. unfold th_ok. simpl.
      destruct (find_name_some _ _ _ F). exists m. auto.
    + apply SAME; [reflexivity| |discriminate]. unfold th_ok. simpl. repeat split; auto.
      right. destruct O2 as [O2|O2]; auto. apply find_name_has in F. contradiction.
  - (* store message *)
    apply (tinv_links_same s0 c i _ _ _ T N); [apply Pres_mboxes_eq; reflexivity|reflexivity|reflexivity| |].
    + unfold th_ok in *. simpl in *. destruct OK as (m & H & E). exists m. auto.
    + intros mb' m u E. discriminate.
  - (* allocate *)
    unfold th_ok in OK. simpl in OK.
    destruct (find_id (c_store c) mb) as [m|] eqn:F; [|exfalso; eapply find_id_has; eauto].
    destruct (find_id_some _ _ _ F) as [Hm Em].
    assert (UQ : forall m', In m' (mboxes (c_store c)) -> mb_id m' = mb -> m' = m).
    { intros m' H' E'. eapply (NoDup_map_inj mb_id); eauto. congruence. }
    apply (tinv_links_same s0 c i _ _ _ T N); [apply Pres_bump|reflexivity|reflexivity| |].
    + unfold th_ok. simpl. split; [eapply has_row_pres; [apply Pres_bump|exact OK]|]. split.
      * intros m' H' E'. apply in_map_iff in H'. destruct H' as (m0 & <- & H0).
        rewrite bump_row_id in E'. rewrite (UQ m0 H0 E'). unfold bump_row.
        rewrite Em, Z.eqb_refl. simpl. lia.
      * intros l Hl El. specialize (GN l m Hl Hm). rewrite Em in GN. specialize (GN (eq_sym El)). lia.
    + intros mb' m' u E j thj mj uj NE Hj Sj. injection E as <- _ <-.
      pose proof (TH j thj Hj) as Oj. unfold th_ok in Oj. rewrite Sj in Oj.
      destruct Oj as (_ & B & _). specialize (B m Hm Em). lia.
  - (* insert *)
    unfold th_ok in OK. simpl in OK. destruct OK as (R & B & K). cbn [prog_flags].
    destruct (insert_link (c_store c) msg mb uid []) as [s1|] eqn:I.
    2:{ exfalso. unfold insert_link in I. rewrite (existsb_at_uid_false (c_store c) mb uid) in I; [discriminate|].
        intros l Hl El. auto. }
    destruct (insert_link_shape _ _ _ _ _ _ I) as (_ & L & _ & M).
    assert (NR : forall j thj, nth_error (replace i (mkThread (PFirstDeliver f t ti) (SOk mb msg uid)) (c_threads c)) j = Some thj ->
                 (j = i /\ thj = mkThread (PFirstDeliver f t ti) (SOk mb msg uid)) \/ (j <> i /\ nth_error (c_threads c) j = Some thj)).
    { intros j thj H. rewrite nth_error_replace in H. destruct (Nat.eqb_spec j i) as [->|NE].
      - rewrite N in H. injection H as <-. auto.
      - auto. }
    split; cbn [c_store c_threads].
    + repeat split.
      * intros l m Hl Hm E. rewrite M in Hm. rewrite L in Hl. apply in_app_or in Hl.
        destruct Hl as [Hl|[<-|[]]]; [eapply GN; eauto|]. simpl in *. apply B; auto.
      * intros l Hl. rewrite M. rewrite L in Hl. apply in_app_or in Hl.
        destruct Hl as [Hl|[<-|[]]]; [auto|]. simpl. exact R.
      * unfold IDS. rewrite M. exact GI.
    + intros f' H. destruct (NM f' H) as (m & Hm & E). exists m. rewrite M. auto.
    + intros j thj H. destruct (NR _ _ H) as [[-> ->]|[_ H']]; [reflexivity|eauto].
    + intros j thj H. destruct (NR _ _ H) as [[-> ->]|[NE H']]; [exact Logic.I|].
      pose proof (TH j thj H') as Oj. unfold th_ok in *. destruct (t_st thj) eqn:Sj; auto;
        unfold has_row, has_name in *; try rewrite M; auto.
      destruct Oj as (Rj & Bj & Kj). repeat split; auto. intros l Hl El. rewrite L in Hl.
        apply in_app_or in Hl. destruct Hl as [Hl|[<-|[]]]; [auto|]. simpl in *. subst mb0.
        exact (PA i j _ thj mb msg uid _ _ (fun X => NE (eq_sym X)) N H' eq_refl Sj).
    + intros j k thj thk mb' mj uj mk uk NE Hj Hk Sj Sk.
      destruct (NR _ _ Hj) as [[-> ->]|[NEj Hj']]; destruct (NR _ _ Hk) as [[-> ->]|[NEk Hk']];
        try discriminate. exact (PA j k thj thk mb' mj uj mk uk NE Hj' Hk' Sj Sk).
  (* ---- PLogin ---- *)
  - destruct (mboxes (c_store c)) eqn:MB; apply SAME; try reflexivity; try exact Logic.I; discriminate.
  - destruct (mboxes (c_store c)) eqn:MB.
    + apply (tinv_links_same s0 c i _ _ _ T N); [apply Pres_defaults|apply add_defaults_links|reflexivity|exact Logic.I|].
      intros mb m u X. discriminate.
    + apply SAME; try reflexivity; try exact Logic.I; discriminate.
Qed.

Lemma run_sched_tinv s0 sch : forall c, TInv s0 c -> TInv s0 (run_sched sch c).
Proof.
  induction sch as [|i r IH]; simpl; intros c I; auto. apply IH. apply sched_step_tinv. exact I.
Qed.

(** ---- the theorems ------------------------------------------------------------------------------ *)

Lemma c08_no_spurious_failure_l : forall s ps sch i th o,
  good_store s -> forallb simple ps = true ->
  nth_error (c_threads (run_sched sch (init_cfg s ps))) i = Some th ->
  t_st th = SFail o ->
  o = None /\ find_name s (prog_folder (t_prog th)) = None /\
  (is_append (t_prog th) = true \/ prog_folder (t_prog th) = []).
Proof.
  intros s ps sch i th o G S N F.
  pose proof (ti_th _ _ (run_sched_tinv s sch _ (init_tinv s ps G S)) i th N) as O.
  unfold th_ok in O. rewrite F in O. exact O.
Qed.

Lemma c08_counters_agree_l : forall s ps sch,
  good_store s -> forallb simple ps = true ->
  forall l m, In l (links (c_store (run_sched sch (init_cfg s ps)))) ->
              In m (mboxes (c_store (run_sched sch (init_cfg s ps)))) ->
              mb_id m = lk_mbox l -> lk_uid l < mb_next m.
Proof.
  intros s ps sch G S.
  destruct (ti_good _ _ (run_sched_tinv s sch _ (init_tinv s ps G S))) as (NA' & _ & _). exact NA'.
Qed.

Lemma good_store_init_l : forall t, good_store (init t).
Proof.
  intros t. unfold good_store, NA, HOME, IDS, init, init5. simpl. repeat split.
  - intros l m [].
  - intros l [].
  - repeat constructor; simpl; intuition discriminate.
Qed.

Lemma good_store_empty_l : good_store empty_store.
Proof.
  unfold good_store, NA, HOME, IDS, empty_store. simpl. repeat split.
  - intros l m [].
  - intros l [].
  - constructor.
Qed.

(** first contact, regression instance of the repaired initialisation race
    (fixes/c08-init-defaults-lock.patch): two first deliveries and a LOGIN for
    a brand-new user all count an empty mailboxes table before any of them
    initialises; all three succeed, five default mailboxes, UIDs 1 and 2 *)
Definition f_ps : list prog := [PFirstDeliver INBOX 0 7; PFirstDeliver INBOX 0 8; PLogin 9].
Definition f_sch : list tid := [0; 1; 2; 1; 0; 2; 0; 0; 0; 0; 0; 1; 1; 1; 1; 1]%nat.

Lemma c08_regression_first_contact_l :
  eval_first (f_ps, f_sch) = ([1; 1; 1], 5, 3, 2, 1).
Proof. vm_compute. reflexivity. Qed.
