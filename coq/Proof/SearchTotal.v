(** C19 — the fuel [eval_tokens] supplies is enough for EVERY token list, so
    the model never returns [None]: the SEARCH evaluator has no run-time failure
    and HandleSearch / UID SEARCH never end in [RPanic]. *)
From Coq Require Import String Ascii List Bool Arith NArith ZArith Lia.
From Raven Require Import Base.GoStr Base.GoStrFacts Model.Search.
From Raven Require Model.SeqSet.
Import ListNotations.

Lemma andk_total c k : k <> None -> andk c k <> None.
Proof. destruct c; simpl; congruence. Qed.
Lemma notk_total r k : r <> None -> k <> None -> notk r k <> None.
Proof. destruct r as [[|]|]; simpl; congruence. Qed.
Lemma ork_total r1 r2 k : r1 <> None -> r2 <> None -> k <> None -> ork r1 r2 k <> None.
Proof. destruct r1 as [[|]|], r2 as [[|]|]; simpl; congruence. Qed.
Lemma seqk_total r k : r <> None -> k <> None -> seqk r k <> None.
Proof. destruct r as [[|]|]; simpl; congruence. Qed.

Lemma measure_cons t r : tokens_measure (t :: r) = (S (length t) + tokens_measure r)%nat.
Proof. reflexivity. Qed.
Lemma measure_firstn n l : (tokens_measure (firstn n l) <= tokens_measure l)%nat.
Proof. revert n. induction l as [|t l IH]; intros [|n]; cbn [firstn]; rewrite ?measure_cons; try (cbn; lia). specialize (IH n). lia. Qed.
Lemma measure_skipn n l : (tokens_measure (skipn n l) <= tokens_measure l)%nat.
Proof. revert n. induction l as [|t l IH]; intros [|n]; cbn [skipn]; rewrite ?measure_cons; try (cbn; lia). specialize (IH n). lia. Qed.

(** the tokens of a string weigh at most its length plus one *)
Lemma pst_measure s : forall cur inq d,
  (tokens_measure (pst s cur inq d) <= length s + length cur + 1)%nat.
Proof.
  induction s as [|ch s IH]; intros cur inq d; cbn [pst].
  - destruct cur; [cbn; lia|]. rewrite measure_cons, rev_length. cbn. lia.
  - assert (A : forall inq' d', (tokens_measure (pst s (ch :: cur) inq' d') <= length (ch :: s) + length cur + 1)%nat).
    { intros inq' d'. specialize (IH (ch :: cur) inq' d'). cbn [length] in *. lia. }
    destruct (Ascii.eqb ch dq); [apply A|]. destruct (Ascii.eqb ch lpar); [apply A|]. destruct (Ascii.eqb ch rpar); [apply A|].
    destruct (Ascii.eqb ch sp || Ascii.eqb ch tab); [|apply A].
    destruct (inq || (0 <? d)%Z); [apply A|].
    destruct cur as [|c cur].
    + specialize (IH [] inq d). cbn [length] in *. lia.
    + rewrite measure_cons, rev_length. specialize (IH [] inq d). cbn [length] in *. lia.
Qed.

Lemma removelast_len {A} (r : list A) : r <> [] -> S (length (removelast r)) = length r.
Proof.
  induction r as [|x r IH]; [congruence|]. intros _. destruct r as [|y r]; [reflexivity|].
  change (removelast (x :: y :: r)) with (x :: removelast (y :: r)). cbn [length]. rewrite IH by discriminate. reflexivity.
Qed.

Lemma group_inner_length t : is_group t = true -> (length (group_inner t) + 2 <= length t)%nat.
Proof.
  unfold is_group, group_inner. destruct t as [|c r]; [discriminate|]. destruct (rev r) as [|c2 r'] eqn:E; [discriminate|].
  intros _. assert (N : r <> []) by (intros ->; discriminate E).
  pose proof (removelast_len r N). cbn [length]. lia.
Qed.

Ltac finish_rest IH L :=
  repeat (first [apply andk_total | apply notk_total | apply ork_total | apply seqk_total
                | (apply IH; rewrite ?measure_cons in *;
                   repeat match goal with
                          | |- context [tokens_measure (firstn ?n ?l)] => pose proof (measure_firstn n l); generalize dependent (tokens_measure (firstn n l)); intros
                          | |- context [tokens_measure (skipn ?n ?l)] => pose proof (measure_skipn n l); generalize dependent (tokens_measure (skipn n l)); intros
                          end; lia)
                | discriminate ]).

(** evaluateTokens terminates within the fuel: measure < fuel *)
Lemma eval_loop_total T m : forall f toks ctx, (tokens_measure toks < f)%nat -> eval_loop T m f toks ctx <> None.
Proof.
  induction f as [|f IH]; intros toks ctx L; [lia|].
  destruct toks as [|t rest]; [discriminate|]. rewrite measure_cons in L.
  cbn [eval_loop]. cbv zeta.
  destruct (is_group (to_upper t)) eqn:G.
  { apply seqk_total; [|apply IH; lia]. apply IH.
    assert (G' : is_group t = true).
    { unfold is_group in *. destruct t as [|c r]; [discriminate|]. cbn [to_upper map] in G. fold (to_upper r) in G.
      unfold to_upper in G. rewrite <- map_rev in G. destruct (rev r); [discriminate|]. cbn [map] in G.
      apply andb_true_iff in G as [G1 G2]. apply Ascii.eqb_eq in G1, G2.
      assert (E1 : c = lpar) by (apply (upper_c_fix_inv lpar); [reflexivity | reflexivity | exact G1]).
      assert (E2 : a = rpar) by (apply (upper_c_fix_inv rpar); [reflexivity | reflexivity | exact G2]).
      subst. reflexivity. }
    pose proof (group_inner_length _ G') as GI.
    pose proof (pst_measure (group_inner t) [] false 0%Z) as P. unfold parse_search_tokens. cbn [length] in P. lia. }
  destruct (Model.SeqSet.is_sequence_set (to_upper t)); [apply andk_total, IH; lia|].
  destruct (kw_of (to_upper t)) as [k|]; [|apply IH; lia].
  destruct k;
    repeat (match goal with
            | |- context [match ?l with [] => _ | _ :: _ => _ end] => is_var l; destruct l
            | |- context [if (?a <? ?b)%nat then _ else _] => destruct (a <? b)%nat
            end);
    finish_rest IH L.
  all: try (apply IH;
    repeat match goal with
           | |- context [tokens_measure (firstn ?n ?l)] => pose proof (measure_firstn n l); generalize dependent (tokens_measure (firstn n l)); intros
           | |- context [tokens_measure (skipn ?n ?l)] => pose proof (measure_skipn n l); generalize dependent (tokens_measure (skipn n l)); intros
           end; lia).
  apply IH.
  match goal with |- context [tokens_measure (firstn ?n (skipn ?k rest))] =>
    pose proof (measure_firstn n (skipn k rest)); pose proof (measure_skipn k rest) end. lia.
Qed.

(** evaluateTokens never fails *)
Theorem eval_tokens_total T m toks : eval_tokens T m toks <> None.
Proof. unfold eval_tokens. apply eval_loop_total. lia. Qed.

Lemma collect_total T toks msgs : collect_seq T toks msgs <> None.
Proof.
  induction msgs as [|m ms IH]; [discriminate|]. cbn [collect_seq].
  destruct (matches_search_criteria T m toks) eqn:E.
  - destruct (collect_seq T toks ms); [discriminate | congruence].
  - exfalso. destruct toks; [discriminate E|]. cbn [matches_search_criteria] in E. now apply eval_tokens_total in E.
Qed.

Theorem selected_never_panics T args (by_uid : bool) msgs : search_selected T args by_uid msgs <> RPanic.
Proof.
  unfold search_selected.
  destruct (length args <? 1)%nat; [discriminate|].
  match goal with |- (if ?c then _ else _) <> _ => destruct c; [discriminate|] end.
  match goal with |- (if ?c then _ else _) <> _ => destruct c; [discriminate|] end.
  destruct (evaluate_search_criteria T (fill_max msgs) _) eqn:E; [discriminate|].
  unfold evaluate_search_criteria in E. now apply collect_total in E.
Qed.

Theorem search_never_panics T parts msgs : handle_search T parts msgs <> RPanic.
Proof. apply selected_never_panics. Qed.
Theorem uid_search_never_panics T parts msgs : handle_uid_search T parts msgs <> RPanic.
Proof. apply selected_never_panics. Qed.

