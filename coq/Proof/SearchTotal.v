(** C19 — since fix bb43d4f no input makes the SEARCH evaluator panic: the
    model never returns [None], so HandleSearch never ends in [RPanic]. *)
From Coq Require Import String Ascii List Bool Arith NArith ZArith Lia.
From Raven Require Import Base.GoStr Model.Search.
Import ListNotations.

Lemma andk_total c k : k <> None -> andk c k <> None.
Proof. destruct c; simpl; congruence. Qed.
Lemma notk_total r k : r <> None -> k <> None -> notk r k <> None.
Proof. destruct r as [[|]|]; simpl; congruence. Qed.
Lemma ork_total r1 r2 k : r1 <> None -> r2 <> None -> k <> None -> ork r1 r2 k <> None.
Proof. destruct r1 as [[|]|], r2 as [[|]|]; simpl; congruence. Qed.

(** the slices NOT / OR hand to the recursive call *)
Definition slice_ok (l : list str) : Prop :=
  match l with
  | [_] => True
  | [k; _] => requires_argument (to_upper k) = true
  | _ => False
  end.

Ltac finish := repeat (first [apply andk_total | discriminate]).

(** on a slice the evaluator never reaches its recursive call *)
Lemma slice1_total T rec m k : eval_loop T rec m [k] <> None.
Proof.
  cbn [eval_loop]. cbv zeta. destruct (is_sequence_set (to_upper k)); [finish|].
  destruct (kw_of (to_upper k)) as [w|]; [|discriminate]. destruct w; finish.
Qed.

Lemma slice_total T rec m l : slice_ok l -> eval_loop T rec m l <> None.
Proof.
  destruct l as [|k [|a [|? ?]]]; cbn [slice_ok]; try contradiction; intros H; [apply slice1_total|].
  cbn [eval_loop]. cbv zeta.
  destruct (is_sequence_set (to_upper k)).
  { apply andk_total. destruct (is_sequence_set (to_upper a)); [finish|].
    destruct (kw_of (to_upper a)) as [w|]; [|discriminate]. destruct w; finish. }
  unfold requires_argument in H. destruct (kw_of (to_upper k)) as [w|]; [|discriminate H].
  destruct w; try discriminate H; finish.
Qed.

Lemma eval_loop_total T rec m : (forall l, slice_ok l -> rec l <> None) ->
  forall n toks, (length toks <= n)%nat -> eval_loop T rec m toks <> None.
Proof.
  intros R. induction n as [|n IHn]; intros toks L.
  - destruct toks; [discriminate | simpl in L; lia].
  - destruct toks as [|t rest]; [discriminate|]. cbn [length] in L.
    cbn [eval_loop]. cbv zeta.
    destruct (is_sequence_set (to_upper t)); [apply andk_total, IHn; lia|].
    destruct (kw_of (to_upper t)) as [k|]; [|apply IHn; lia].
    destruct k;
      repeat (match goal with
              | |- context [match ?l with [] => _ | _ :: _ => _ end] => is_var l; destruct l; cbn [length] in L
              | |- context [if requires_argument ?x then _ else _] => let E := fresh "E" in destruct (requires_argument x) eqn:E
              end);
      try discriminate;
      repeat (first [apply andk_total | apply notk_total | apply ork_total
                    | (apply R; cbn [slice_ok]; first [exact I | assumption])
                    | (apply IHn; cbn [length] in *; lia)]).
Qed.

Lemma eval_tokens_slices T m l : slice_ok l -> forall d, eval_tokens_d (S d) T m l <> None.
Proof. intros H d. cbn [eval_tokens_d]. now apply slice_total. Qed.

(** evaluateTokens never panics *)
Theorem eval_tokens_total T m toks : eval_tokens T m toks <> None.
Proof.
  unfold eval_tokens. cbn [eval_tokens_d]. apply eval_loop_total with (n := length toks); [|lia].
  intros l H. now apply slice_total.
Qed.

Lemma collect_total T toks msgs : collect_seq T toks msgs <> None.
Proof.
  induction msgs as [|m ms IH]; [discriminate|]. cbn [collect_seq].
  destruct (matches_search_criteria T m toks) eqn:E.
  - destruct (collect_seq T toks ms); [discriminate | congruence].
  - exfalso. destruct toks; [discriminate E|]. cbn [matches_search_criteria] in E. now apply eval_tokens_total in E.
Qed.

Theorem selected_never_panics T args (by_uid : bool) msgs : search_selected T args by_uid msgs <> RPanic.
Proof.
  unfold search_selected.
  destruct (length args <? 1)%nat; [discriminate|].
  match goal with |- (if ?c then _ else _) <> _ => destruct c; [discriminate|] end.
  match goal with |- (if ?c then _ else _) <> _ => destruct c; [discriminate|] end.
  destruct (evaluate_search_criteria T msgs _) eqn:E; [discriminate|].
  unfold evaluate_search_criteria in E. now apply collect_total in E.
Qed.

Theorem search_never_panics T parts msgs : handle_search T parts msgs <> RPanic.
Proof. apply selected_never_panics. Qed.
Theorem uid_search_never_panics T parts msgs : handle_uid_search T parts msgs <> RPanic.
Proof. apply selected_never_panics. Qed.
