(** C19 — parseIMAPDate on printed dates. *)
From Coq Require Import String Ascii List Bool Arith NArith ZArith Lia.
From Raven Require Import Base.GoStr Base.GoStrFacts Model.Search Spec.Search Model.SearchClass Proof.SearchTok Proof.SearchAtoms.
Import ListNotations.
Local Open Scope Z_scope.
Local Arguments is_digit : simpl never.
Local Arguments mk_date : simpl never.

Lemma minus_not_digit : is_digit minus = false. Proof. reflexivity. Qed.

Lemma parse_print_date d : date_ok d = true -> parse_imap_date (print_date d) = sdate_val d.
Proof.
  destruct d as [[dd mon] yyyy]. unfold date_ok.
  intros H. repeat (apply andb_true_iff in H as [H ?]).
  destruct (sdate_val (dd, mon, yyyy)) as [v|] eqn:Ev; [|discriminate].
  rewrite <- Ev. unfold sdate_val in *.
  destruct ((1 <=? mon) && (mon <=? 12)) eqn:Em; [|discriminate].
  apply andb_true_iff in Em as [E1 E2]. apply Z.leb_le in E1, E2.
  destruct yyyy as [|y1 [|y2 [|y3 [|y4 [|? ?]]]]]; try discriminate.
  assert (Hy : forallb is_digit [y1; y2; y3; y4] = true) by assumption. simpl in Hy.
  assert (M : mon = 1 \/ mon = 2 \/ mon = 3 \/ mon = 4 \/ mon = 5 \/ mon = 6 \/ mon = 7 \/ mon = 8 \/ mon = 9 \/ mon = 10 \/ mon = 11 \/ mon = 12) by lia.
  destruct dd as [|a [|b [|? ?]]]; try discriminate.
  - assert (Ha : is_digit a = true) by (simpl in H; now rewrite andb_true_r in H).
    repeat (destruct M as [-> | M]); try subst mon;
      (unfold print_date, parse_imap_date; simpl; rewrite Ha; rewrite Hy; reflexivity).
  - assert (Ha : is_digit a = true) by (simpl in H; now apply andb_true_iff in H).
    assert (Hb : is_digit b = true) by (simpl in H; apply andb_true_iff in H as [_ H]; now rewrite andb_true_r in H).
    repeat (destruct M as [-> | M]); try subst mon;
      (unfold print_date, parse_imap_date; simpl; rewrite Ha, Hb; rewrite Hy; reflexivity).
Qed.

Lemma date_plain d : date_ok d = true ->
  forallb (fun c => negb (is_space c) && negb (Ascii.eqb c dq) && negb (Ascii.eqb c lpar) && negb (Ascii.eqb c rpar)) (print_date d) = true.
Proof.
  destruct d as [[dd mon] yyyy]. unfold date_ok.
  intros H. repeat (apply andb_true_iff in H as [H ?]).
  assert (D : forall s, forallb is_digit s = true ->
     forallb (fun c => negb (is_space c) && negb (Ascii.eqb c dq) && negb (Ascii.eqb c lpar) && negb (Ascii.eqb c rpar)) s = true).
  { intros s. apply forallb_impl. intros c Hc. destruct (digit_facts c Hc) as (_ & _ & _ & _ & _ & _ & A & B & C & D). now rewrite A, B, C, D. }
  destruct (sdate_val (dd, mon, yyyy)) eqn:Ev; [|discriminate]. unfold sdate_val in Ev.
  destruct ((1 <=? mon) && (mon <=? 12)) eqn:Em; [|discriminate].
  apply andb_true_iff in Em as [E1 E2]. apply Z.leb_le in E1, E2.
  assert (M : mon = 1 \/ mon = 2 \/ mon = 3 \/ mon = 4 \/ mon = 5 \/ mon = 6 \/ mon = 7 \/ mon = 8 \/ mon = 9 \/ mon = 10 \/ mon = 11 \/ mon = 12) by lia.
  unfold print_date. rewrite forallb_app. apply andb_true_iff. split; [now apply D|].
  repeat (destruct M as [-> | M]); try subst mon; simpl; now apply D.
Qed.
