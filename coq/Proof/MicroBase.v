(** C07 — refinement for the operations of Model/Ops.v that store no message
    (UID COPY, COPY, UID STORE, EXPUNGE, CLOSE, CREATE, DELETE, RENAME,
    SUBSCRIBE): the micro-steps, executed one by one, produce exactly the
    store [step] produces. *)
From Coq Require Import String Ascii List Bool ZArith Arith Lia.
From Raven Require Import Base.GoStr Model.Store Model.Ops Model.Micro Proof.MicroRefine.
Import ListNotations.
Local Open Scope Z_scope.

Lemma set_links_id s : set_links s (links s) = s.
Proof. destruct s; reflexivity. Qed.

Lemma with_st_st d s : d_st (with_st d s) = s.
Proof. reflexivity. Qed.
Lemma with_st_twice d s s' : with_st (with_st d s) s' = with_st d s'.
Proof. reflexivity. Qed.
Lemma ready_with_st d s : ready (with_st d s) = ready d.
Proof. reflexivity. Qed.

(** ---- UID STORE: one step per message -------------------------------------------- *)

Lemma store_fold sel mode new uids : forall d,
  run_steps d (map (MStoreOne sel mode new) uids)
  = with_st d (fold_left (fun s' u => uidstore_one s' sel mode new u) uids (d_st d)).
Proof.
  induction uids as [|u r IH]; intros d; simpl.
  - symmetry. apply with_st_id.
  - unfold run_steps in *. simpl. rewrite IH. reflexivity.
Qed.

(** ---- EXPUNGE: one DELETE per row id ------------------------------------------------ *)

Lemma delete_links_twice s p q :
  delete_links (delete_links s p) q = delete_links s (fun l => p l || q l).
Proof.
  unfold delete_links, set_links. simpl. f_equal.
  induction (links s) as [|l r IH]; simpl; [reflexivity|].
  destruct (p l); simpl; [exact IH|]. destruct (q l); simpl; [exact IH|]. now rewrite IH.
Qed.

Lemma delete_links_ext s p q :
  (forall l, In l (links s) -> p l = q l) -> delete_links s p = delete_links s q.
Proof.
  intros H. unfold delete_links. f_equal. apply filter_ext_in. intros l Hl. now rewrite (H l Hl).
Qed.

Lemma dellink_fold ids : forall d,
  run_steps d (map MDelLink ids)
  = with_st d (delete_links (d_st d) (fun l => existsb (Z.eqb (lk_id l)) ids)).
Proof.
  induction ids as [|i r IH]; intros d.
  - simpl. unfold delete_links. simpl.
    replace (filter (fun _ => true) (links (d_st d))) with (links (d_st d)).
    + rewrite set_links_id. symmetry. apply with_st_id.
    + induction (links (d_st d)); simpl; congruence.
  - unfold run_steps in *. simpl. rewrite IH. cbn [d_st with_st].
    rewrite delete_links_twice. reflexivity.
Qed.

Lemma in_ins_by_uid x l ls : In x (ins_by_uid l ls) <-> x = l \/ In x ls.
Proof.
  induction ls as [|y r IH]; simpl; [intuition|].
  destruct (lk_uid l <=? lk_uid y); simpl; [intuition|]. rewrite IH. intuition.
Qed.
Lemma in_sort_by_uid x ls : In x (sort_by_uid ls) <-> In x ls.
Proof.
  induction ls as [|y r IH]; simpl; [tauto|]. rewrite in_ins_by_uid, IH. intuition.
Qed.

Lemma NoDup_map_eq {A B} (k : A -> B) l x y :
  NoDup (map k l) -> In x l -> In y l -> k x = k y -> x = y.
Proof.
  induction l as [|a r IH]; simpl; [tauto|]. intros N Hx Hy E. inversion N as [|? ? Hn N']; subst.
  destruct Hx as [->|Hx], Hy as [->|Hy]; auto.
  - exfalso. apply Hn. rewrite E. now apply in_map.
  - exfalso. apply Hn. rewrite <- E. now apply in_map.
Qed.

Lemma expunge_refines d sel :
  NoDup (map lk_id (links (d_st d))) ->
  run_steps d (map MDelLink (expunge_ids (d_st d) sel))
  = with_st d (delete_links (d_st d) (fun l => in_mbox sel l && is_deleted l)).
Proof.
  intros N. rewrite dellink_fold. f_equal. apply delete_links_ext. intros l Hl.
  unfold expunge_ids, links_sorted, links_in.
  destruct (in_mbox sel l && is_deleted l) eqn:E.
  - apply andb_true_iff in E. destruct E as [E1 E2].
    apply existsb_exists. exists (lk_id l). split; [|apply Z.eqb_refl].
    apply in_map. apply filter_In. split; [|exact E2].
    apply (proj2 (in_sort_by_uid _ _)). apply filter_In. auto.
  - apply not_true_is_false. intros X. apply existsb_exists in X. destruct X as (i & Hi & Ei).
    apply Z.eqb_eq in Ei. apply in_map_iff in Hi. destruct Hi as (l' & Eid & Hl').
    apply filter_In in Hl'. destruct Hl' as [Hl' D']. apply (proj1 (in_sort_by_uid _ _)) in Hl'.
    apply filter_In in Hl'. destruct Hl' as [Hl' M'].
    assert (l = l') by (apply (NoDup_map_eq lk_id (links (d_st d))); auto; congruence).
    subst l'. rewrite M', D' in E. discriminate.
Qed.

(** ---- parents of CREATE / RENAME ------------------------------------------------------ *)

Lemma parents_refines ps t : forall d,
  ready d = true ->
  run_steps d (parent_steps (d_st d) ps t) = with_st d (after_parents (d_st d) ps t).
Proof.
  induction ps as [|p r IH]; intros d Hr.
  - simpl. symmetry. apply with_st_id.
  - unfold after_parents in *. cbn [parent_steps fold_left].
    destruct (find_name (d_st d) p); [apply IH; auto|].
    destruct (create_mailbox_row (d_st d) p t) as [[s' i]|] eqn:Cr; [|apply IH; auto].
    rewrite run_steps_app, (create_steps_refines d p t s' i Hr Cr).
    pose proof (IH (with_st d s')) as X. cbn [d_st with_st] in X.
    rewrite X by (rewrite ready_with_st; auto). reflexivity.
Qed.

(** Model/Ops.v's [create_parents] (one loop that skips the empty path and the
    case variants of INBOX) is the fold over the filtered list [parents_of] *)
Lemma create_parents_eq s name t :
  create_parents s name t = (after_parents s (parents_of name) t, true).
Proof.
  unfold create_parents, parents_of, after_parents. destruct (contains_byte name SLASH); [|reflexivity].
  f_equal. generalize (parent_paths name). intros ps. revert s.
  induction ps as [|p r IH]; intros s; [reflexivity|].
  cbn [fold_left filter]. destruct p as [|c p']; cbn [skip_parent negb]; [apply IH|].
  destruct (equal_fold (c :: p') INBOX); cbn [negb]; [apply IH|]. cbn [fold_left]. apply IH.
Qed.

Lemma ready_file_schema d : ready d = true -> d_file d && (1 <=? d_schema d)%nat = true.
Proof.
  unfold ready. intros Hr. apply andb_true_iff in Hr. destruct Hr as [Hf Hs]. rewrite Hf.
  apply Nat.leb_le in Hs. unfold NTABLES in Hs. cbn [andb]. apply Nat.leb_le. lia.
Qed.

(** ---- all base operations ------------------------------------------------------------ *)

Lemma base_refines d o :
  ready d = true -> base_ok o = true ->
  NoDup (map lk_id (links (d_st d))) ->
  run_steps d (base_steps (d_st d) o) = with_st d (fst (step (d_st d) o)).
Proof.
  intros Hr Hb N. set (s := d_st d).
  assert (Hid : d = with_st d s) by (symmetry; apply with_st_id).
  destruct o as [f t|f fl|sel set dest|sel set dest|sel set mode fl|sel|sel|n t|n|a b t];
    try discriminate; cbn [base_steps step].
  - (* uid copy *)
    unfold op_uidcopy. fold s. destruct (resolve_uids s sel set) as [|u us]; [exact Hid|].
    destruct (find_name s dest) as [dm|]; [|exact Hid].
    unfold run_steps. cbn [fold_left exec]. fold s.
    destruct (uidcopy_loop s sel (mb_id dm) (u :: us) (mb_next dm)); [reflexivity|exact Hid].
  - (* copy *)
    unfold op_copy. fold s. destruct (resolve_seqs s sel set) as [|u us]; [exact Hid|].
    destruct (find_name s dest) as [dm|]; [|exact Hid].
    unfold run_steps. cbn [fold_left exec]. fold s.
    destruct (copy_loop s sel (mb_id dm) (u :: us) (mb_next dm)); [reflexivity|exact Hid].
  - (* uid store *) unfold op_uidstore. cbn [fst]. apply store_fold.
  - (* expunge *) unfold op_expunge. cbn [fst]. now apply expunge_refines.
  - (* close *) unfold op_close, op_expunge. cbn [fst]. now apply expunge_refines.
  - (* create *)
    unfold op_create. fold s. destruct (trim_suffix n [SLASH]) as [|c r] eqn:En; [exact Hid|].
    set (name := c :: r) in *.
    destruct (str_eqb (to_upper name) INBOX); [exact Hid|].
    destruct (is_role_ns name); [exact Hid|].
    destruct (find_name s name); [exact Hid|].
    rewrite create_parents_eq. cbn [fst].
    rewrite run_steps_app. unfold s. rewrite parents_refines by auto. fold s.
    set (s1 := after_parents s (parents_of name) t).
    destruct (create_mailbox_row s1 name t) as [[s2 i]|] eqn:Cr; [|reflexivity].
    pose proof (create_steps_refines (with_st d s1) name t s2 i) as X. cbn [d_st with_st] in X.
    rewrite X; auto.
  - (* delete *)
    unfold op_delete. fold s. destruct n as [|c r]; [exact Hid|]. set (name := c :: r).
    destruct (str_eqb (to_upper name) INBOX); [exact Hid|].
    destruct (find_name s name) as [m|]; [|exact Hid].
    destruct (children s name); [|exact Hid].
    destruct (existsb _ _); [exact Hid|]. reflexivity.
  - (* rename *)
    unfold op_rename. fold s.
    destruct a as [|ca ra]; [exact Hid|]. destruct b as [|cb rb]; [exact Hid|].
    set (a := ca :: ra) in *. set (b := cb :: rb) in *.
    destruct (is_role_ns b); [exact Hid|].
    destruct (str_eqb (to_upper b) INBOX); [exact Hid|].
    destruct (str_eqb (to_upper a) INBOX).
    + (* RENAME INBOX: parents and the new row autocommit, then one transaction *)
      unfold rename_inbox. destruct (find_name s b); [exact Hid|].
      destruct (find_name s INBOX) as [ib|]; [|exact Hid].
      rewrite create_parents_eq. cbn [negb].
      rewrite run_steps_app. unfold s. rewrite parents_refines by auto. fold s.
      set (s0 := after_parents s (parents_of b) t).
      destruct (create_mailbox_row s0 b t) as [[s1 nid]|] eqn:Cr; [|reflexivity].
      rewrite run_steps_app.
      pose proof (create_steps_refines (with_st d s0) b t s1 nid) as X. cbn [d_st with_st] in X.
      rewrite X; auto. unfold run_steps. cbn [fold_left exec d_st with_st].
      unfold reparent_max.
      match goal with |- context [reparent ?a ?b ?c] => destruct (reparent a b c) end; reflexivity.
    + (* RENAME: one transaction, parents included *)
      destruct (find_name s a) as [m|]; [|exact Hid].
      destruct (find_name s b); [exact Hid|].
      rewrite create_parents_eq. cbn [negb].
      unfold run_steps. cbn [fold_left exec]. rewrite (ready_file_schema d Hr). fold s.
      change (rename_tx7 s (mb_id m) a b (parents_of b) t)
        with (rename_tx (after_parents s (parents_of b) t) (mb_id m) a b).
      destruct (rename_tx (after_parents s (parents_of b) t) (mb_id m) a b); [reflexivity|exact Hid].
Qed.
