(** C15: removal / copy operations never change the blob state. *)
From Coq Require Import String Ascii List Bool Arith Lia.
From Raven Require Import Base.GoStr Model.Blobs Model.BlobLinks Spec.BlobSpec Proof.Blobs Proof.BlobsMono.
Import ListNotations.

Section Links.
Variable key : str -> str -> str.
Variable okey : str -> str.

Lemma mfold_world evs : forall s,
  m_world (fold_left (mstep key okey) evs s) = fold_left (step key okey) (stores_of evs) (m_world s).
Proof.
  induction evs as [|e evs IH]; intros s; simpl; [reflexivity|].
  destruct e as [e|m|m]; simpl; rewrite IH; [destruct e|..]; reflexivity.
Qed.

(** the blob table, bucket and part rows after any history with copies and
    removals are those of the history with the copies and removals left out *)
Lemma removals_invisible evs : m_world (mrun key okey evs) = run key okey (stores_of evs).
Proof. unfold mrun, run. rewrite mfold_world. reflexivity. Qed.

Lemma stores_of_app a b : stores_of (a ++ b) = stores_of a ++ stores_of b.
Proof. induction a as [|[e|m|m] a IH]; simpl; rewrite ?IH; reflexivity. Qed.

(** inserting a removal or a copy anywhere in a history changes no read *)
Lemma removal_anywhere a b x :
  (exists m, x = MRemove m \/ x = MCopy m) ->
  m_world (mrun key okey (a ++ x :: b)) = m_world (mrun key okey (a ++ b)).
Proof.
  intros (m & [->| ->]); rewrite !removals_invisible, !stores_of_app; reflexivity.
Qed.

Lemma read_own_octets_with_removals :
  (forall a b, okey a = okey b -> a = b) -> (forall a, okey a <> []) ->
  forall (evs : list mevent) (m k : nat) (row : partrow) (reader_s3 : bool) (o : oracle),
  row_of (m_world (mrun key okey evs)) m k = Some row ->
  spec_read (r_own row) (read_failed reader_s3 (m_world (mrun key okey evs)) row o)
            (rd (read_part reader_s3 (m_world (mrun key okey evs)) row o)).
Proof.
  intros Hi Hn evs. rewrite removals_invisible. exact (read_own_octets key okey Hi Hn (stores_of evs)).
Qed.

End Links.

(** regression example for seeded change C02-4 (about WRONG code only): a
    release keyed by the wrong id frees a blob that a part row still uses.
    Table: blob 1 (referenced by bob's part row) with count 1.  EXPUNGE of a
    message that reuses a stale message_mailbox row id releases blob 1 again:
    the row is deleted although one part row still points at it. *)
Example wrong_id_release_frees_live_blob :
  let table := [Some (mkBlob (S_ "h1") (FLocal (S_ "attachment")) 1)] in
  let bobs_row := mkRow (Some 1) [] [] (S_ "attachment") in
  release table 1 = [None] /\ r_blob bobs_row = Some 1.
Proof. vm_compute. split; reflexivity. Qed.

(** regression example for seeded change C08-4 (about WRONG code only):
    INSERT .. ON CONFLICT DO UPDATE leaves last_insert_rowid alone, so
    LastInsertId() is the id of the row this connection inserted before — a
    foreign blob; blobHoldsContent fails on it and the reference of THAT blob
    is given back.  Table: blob 1 = victim (count 1, used by another user's
    part), blob 2 = the content both sessions store (winner inserted it). *)
Example upsert_last_insert_id_is_foreign :
  let table := [Some (mkBlob (S_ "hv") (FLocal (S_ "victim")) 1); Some (mkBlob (S_ "hx") (FLocal (S_ "new")) 1)] in
  let last_insert_id_of_losing_connection := 1 in
  (* DO UPDATE branch: count of blob 2 goes up, the id returned is 1 *)
  let returned := last_insert_id_of_losing_connection in
  blob_holds [mkBlob (S_ "hv") (FLocal (S_ "victim")) 1; mkBlob (S_ "hx") (FLocal (S_ "new")) 2] returned (S_ "new") None = false /\
  release table returned = [None; Some (mkBlob (S_ "hx") (FLocal (S_ "new")) 1)].
Proof. vm_compute. split; reflexivity. Qed.
