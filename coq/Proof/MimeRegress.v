(** C02 — regression examples about the behaviour BEFORE the fixes C02-2 and
    C02-3 (they do not mention the current model), and non-vacuity examples. *)
From Coq Require Import String Ascii List Bool Arith NArith ZArith.
From Raven Require Import Base.GoStr Base.GoStrMime Spec.Mime Model.MimeHeaders Model.MimeStore
  Model.MimeBoundary Spec.MimeCheck Proof.MimeTree Proof.MimeMulti Proof.MimeLeaf Proof.MimeRoundtrip.
Import ListNotations.

(** extractAllHeaders before C02-3: first line trimmed on both sides *)
Definition old_hdr_store (h : header) : header :=
  match split (snd h) crlf with
  | [] => (trim_space (fst h), [])
  | l0 :: ls => (trim_space (fst h), trim_space l0 ++ flat_map (fun l => crlf ++ l) ls)
  end.
Definition h_fold : header := (S_ "Subject", S_ " hi  " ++ crlf ++ S_ " there").

Lemma old_fold_ws_lost : hdr_eqv h_fold (out_hdr (old_hdr_store h_fold)) = false.
Proof. vm_compute. reflexivity. Qed.

(** boundaries before C02-2: two fetches read two clock values *)
Lemma old_boundary_unstable :
  str_eqb (old_gen_boundary (S_ "multipart/mixed") 1790887695926728677)
          (old_gen_boundary (S_ "multipart/mixed") 1790887696187990678) = false.
Proof. vm_compute. reflexivity. Qed.

Lemma boundary_example : gen_boundary (S_ "multipart/mixed") 5 17 = S_ "----=_Part_Mixed_5_17".
Proof. vm_compute. reflexivity. Qed.

(** ---- the former witnesses now satisfy the property in the model *)
Definition H0 : list header := [(S_ "From", S_ " a@x.org"); (S_ "To", S_ " b@y.org"); (S_ "Subject", S_ " witness")].
Definition txt : mime := Leaf (mk_leaf (S_ "text/plain") (S_ "utf-8") [] [] [] [] [] (S_ "see attachment")).
Definition att64 : mime :=
  Leaf (mk_leaf (S_ "application/octet-stream") [] [] (S_ "base64") (S_ "attachment; filename=""f.bin""") (S_ "f.bin") []
                (S_ "cGxhaW4gd29yZHMgb25seQ==")).
Definition attraw : mime :=
  Leaf (mk_leaf (S_ "application/octet-stream") [] [] (S_ "binary") (S_ "attachment; filename=""g.bin""") (S_ "g.bin") []
                (S_ "plain words only")).
Definition m_first : msg := mk_msg H0 (Multipart (S_ "mixed") [txt; att64]).
Definition m_second : msg := mk_msg H0 (Multipart (S_ "mixed") [txt; attraw]).
Definition bs_after_first : blobs := fst (store hid [] [] m_first).

Lemma dedup_witness_ok :
  wf_msg m_second = true
  /\ spec_ok m_second (roundtrip hid [] bs_after_first m_second []) = true
  /\ omsg_eqb (roundtrip hid [] bs_after_first m_second []) (roundtrip hid [] [] m_second []) = true
  /\ omsg_eqb (roundtrip hid [true; true] bs_after_first m_second []) (roundtrip hid [] [] m_second []) = true.
Proof. vm_compute. repeat split; reflexivity. Qed.

(** with every blob write failing nothing reaches the blob table, and the message still comes back *)
Lemma faulty_store_example :
  fst (store hid [true; true] [] m_first) = [] /\ spec_ok m_first (roundtrip hid [true; true] [] m_first []) = true.
Proof. vm_compute. split; reflexivity. Qed.

Definition m_deep : msg :=
  mk_msg (H0 ++ [(S_ "MIME-Version", S_ " 1.0")])
    (Multipart (S_ "Mixed")
       [ Multi (S_ "alternative")
           [ txt;
             Multi (S_ "related")
               [ Leaf (mk_leaf (S_ "text/html") (S_ "utf-8") [] (S_ "quoted-printable") [] [] [] (S_ "<p>caf=C3=A9=" ++ crlf ++ S_ "</p>"));
                 Multi (S_ "mixed") [ Leaf (mk_leaf (S_ "image/png") [] [] (S_ "base64") (S_ "inline") [] (S_ "<i1@x>") (S_ "iVBORw0KGgo=")) ] ] ];
         att64;
         Leaf (mk_leaf (S_ "application/pdf") [] (S_ "report.pdf") (S_ "base64") [] [] [] (S_ "JVBERi0xLjQgeA=="));
         Leaf (mk_leaf (S_ "multipart/alternative") [] [] [] [] [] [] (S_ "opaque content"));
         Leaf (mk_leaf [] [] [] [] [] [] [] (S_ "default typed part" ++ crlf)) ]).
Lemma deep_is_wf : wf_msg m_deep = true.
Proof. vm_compute. reflexivity. Qed.

Definition m_nob : msg :=
  mk_msg (H0 ++ [(S_ "Content-Type", S_ " multipart/mixed"); (S_ "Content-Transfer-Encoding", S_ " 8bit")])
         (Single (S_ ".dot" ++ crlf ++ S_ "body" ++ bs [0; 233] ++ S_ " no newline")).
Lemma single_is_wf : wf_msg m_nob = true.
Proof. reflexivity. Qed.
