(** Trace-level consequences of Proof/Protocol.v: the step lemmas about
    authentication and selection lifted, by induction over the command list,
    to EVERY run of the connection transition system (C06). *)
From Coq Require Import String List Bool Arith Lia.
From Raven Require Import Model.ProtoFacts Model.Protocol Proof.Protocol.
Import ListNotations.
Local Open Scope list_scope.

(** the observation of a LOGIN / AUTHENTICATE line that was accepted: its own
    tagged completion is OK, the connection was on TLS before the line and the
    auth backend answered 200 *)
Definition accepted_login (o : obs) : Prop :=
  is_login (o_word o) = true /\ e_reply_ok (o_env o) = true /\
  c_tls (o_pre o) = true /\ e_ok200 (o_env o) = true.

(** a command that turns an unauthenticated session into an authenticated one *)
Definition becomes_auth (o : obs) : Prop :=
  c_auth (o_pre o) = false /\ c_auth (o_post o) = true.

Lemma run_pre_post t : forall cmds st stf tr,
  run t st cmds = Some (stf, tr) ->
  Forall (fun o => step t (o_pre o) (o_word o) (o_env o) = Some (o_post o, o_events o)) tr.
Proof.
  induction cmds as [|[w e] rest IH]; intros st stf tr Hr; simpl in Hr.
  - inversion Hr; subst. constructor.
  - destruct (step t st w e) as [[st1 evs]|] eqn:S; [|discriminate].
    destruct (run t st1 rest) as [[sf tr1]|] eqn:R; [|discriminate].
    inversion Hr; subst; clear Hr. constructor; [simpl; exact S | eapply IH; exact R].
Qed.

(** every observation of a run in which the session turns authenticated is an
    accepted login *)
Lemma every_auth_edge_is_accepted_login t :
  guards_ok t = true -> f_auth_final t = true ->
  forall cmds st stf tr, Inv st -> run t st cmds = Some (stf, tr) ->
  Forall (fun o => becomes_auth o -> accepted_login o) tr.
Proof.
  intros G AF cmds st stf tr HI Hr.
  destruct (run_ok t G cmds st stf tr HI Hr) as [_ Fo].
  pose proof (run_pre_post t cmds st stf tr Hr) as Fs.
  rewrite Forall_forall in *. intros o Ho [A0 A1].
  destruct (Fo o Ho) as [Ipre _].
  exact (auth_only_by_accepted_login t (o_pre o) (o_word o) (o_env o) (o_post o) (o_events o)
           G AF Ipre (Fs o Ho) A0 A1).
Qed.

(** a run that starts unauthenticated and ends authenticated contains an
    accepted login *)
Lemma auth_run_has_accepted_login t :
  guards_ok t = true -> f_auth_final t = true ->
  forall cmds st stf tr, Inv st -> c_auth st = false ->
  run t st cmds = Some (stf, tr) -> c_auth stf = true -> Exists accepted_login tr.
Proof.
  intros G AF cmds. induction cmds as [|[w e] rest IH]; intros st stf tr HI A0 Hr A1; simpl in Hr.
  - inversion Hr; subst. rewrite A0 in A1. discriminate.
  - destruct (step t st w e) as [[st1 evs]|] eqn:S; [|discriminate].
    destruct (run t st1 rest) as [[sf tr1]|] eqn:R; [|discriminate].
    inversion Hr; subst; clear Hr.
    destruct (step_ok t st w e st1 evs G HI S) as [I1 _].
    destruct (c_auth st1) eqn:A.
    + apply Exists_cons_hd. unfold accepted_login; simpl.
      exact (auth_only_by_accepted_login t st w e st1 evs G AF HI S A0 A).
    + apply Exists_cons_tl. exact (IH st1 stf tr1 I1 A R A1).
Qed.

(** the statement for a fresh connection of either kind, and with it: a
    session in which a mailbox is selected has gone through an accepted login *)
Lemma fresh_auth_needs_accepted_login t :
  guards_ok t = true -> f_auth_final t = true ->
  forall tls cmds stf tr, run t (init_state tls) cmds = Some (stf, tr) ->
  (c_auth stf = true \/ c_sel stf = true) -> Exists accepted_login tr.
Proof.
  intros G AF tls cmds stf tr Hr H.
  destruct (run_ok t G cmds (init_state tls) stf tr (Inv_init tls) Hr) as [[Hsa _] _].
  assert (A1 : c_auth stf = true) by (destruct H as [H|H]; [exact H | exact (Hsa H)]).
  exact (auth_run_has_accepted_login t G AF cmds (init_state tls) stf tr (Inv_init tls) eq_refl Hr A1).
Qed.

(** no accepted login in the sequence => every command of it ran
    unauthenticated with nothing selected (so, by the gate theorem, touched no
    user store) *)
Lemma no_login_stays_out t :
  guards_ok t = true -> f_auth_final t = true ->
  forall cmds st stf tr, Inv st -> c_auth st = false ->
  run t st cmds = Some (stf, tr) -> Forall (fun o => ~ accepted_login o) tr ->
  c_auth stf = false /\ Forall (fun o => c_auth (o_pre o) = false /\ c_sel (o_pre o) = false) tr.
Proof.
  intros G AF cmds. induction cmds as [|[w e] rest IH]; intros st stf tr HI A0 Hr Hn; simpl in Hr.
  - inversion Hr; subst. split; [exact A0 | constructor].
  - destruct (step t st w e) as [[st1 evs]|] eqn:S; [|discriminate].
    destruct (run t st1 rest) as [[sf tr1]|] eqn:R; [|discriminate].
    inversion Hr; subst; clear Hr.
    destruct (step_ok t st w e st1 evs G HI S) as [I1 _].
    inversion Hn as [|o l Hno Hnl]; subst.
    assert (A : c_auth st1 = false).
    { destruct (c_auth st1) eqn:A; [|reflexivity]. exfalso. apply Hno.
      unfold accepted_login; simpl.
      exact (auth_only_by_accepted_login t st w e st1 evs G AF HI S A0 A). }
    destruct (IH st1 stf tr1 I1 A R Hnl) as [Af Ft].
    split; [exact Af|]. constructor; [|exact Ft]. simpl. split; [exact A0|].
    destruct HI as [Hsa _]. destruct (c_sel st) eqn:Se; [|reflexivity].
    rewrite (Hsa eq_refl) in A0. discriminate.
Qed.
