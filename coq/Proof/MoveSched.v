(** C03 — for EVERY interleaving of other sessions' complete commands between
    the statements of a Junk/NonJunk move or a UID COPY, as the tree orders
    them (uid_next read inside the transaction), the store invariant survives:
    no UID is reused, UIDNEXT stays above every UID ever visible and never
    decreases. *)
From Coq Require Import String Ascii List Bool ZArith Lia.
From Raven Require Import Base.GoStr Model.Store Model.Ops Spec.UidSpec Model.UidView Model.MoveSched
  Proof.StoreInv Proof.OpsInv Proof.UidHist Proof.UidSpecB.
Import ListNotations.
Local Open Scope Z_scope.

(** ---- the message counter never decreases, whatever the operation ------------- *)

Lemma insert_link_nm s msg mb u fl s' : insert_link s msg mb u fl = Some s' -> next_msg s' = next_msg s.
Proof. unfold insert_link. destruct (existsb _ _); [discriminate|]. intros [= <-]. reflexivity. Qed.

Lemma create_row_nm s n t s' id : create_mailbox_row s n t = Some (s', id) -> next_msg s' = next_msg s.
Proof. intros H. apply create_row_shape in H. destruct H as (_ & _ & ->). reflexivity. Qed.

Lemma rename_row_nm s mb n s' : rename_row s mb n = Some s' -> next_msg s' = next_msg s.
Proof.
  unfold rename_row. destruct (find_id s mb); [|intros [= <-]; reflexivity].
  destruct (existsb _ _); [discriminate|]. intros [= <-]. reflexivity.
Qed.

Lemma reparent_nm s a b s' : reparent s a b = Some s' -> next_msg s' = next_msg s.
Proof.
  unfold reparent. destruct (a =? b); [intros [= <-]; reflexivity|].
  destruct (existsb _ _); [discriminate|]. intros [= <-]. reflexivity.
Qed.

Lemma uidcopy_loop_nm uids : forall s sel d n s', uidcopy_loop s sel d uids n = Some s' -> next_msg s' = next_msg s.
Proof.
  induction uids as [|u r IH]; simpl; intros s sel d n s' H.
  - injection H as <-. reflexivity.
  - destruct (find_link s sel u) as [l|]; [|eauto].
    destruct (insert_link s (lk_msg l) d n _) as [s1|] eqn:E; [|discriminate].
    apply insert_link_nm in E. rewrite (IH _ _ _ _ _ H). exact E.
Qed.

Lemma copy_loop_nm seqs : forall s sel d n s', copy_loop s sel d seqs n = Some s' -> next_msg s' = next_msg s.
Proof.
  induction seqs as [|u r IH]; simpl; intros s sel d n s' H.
  - injection H as <-. reflexivity.
  - destruct (nth_error _ _) as [l|]; [|discriminate].
    destruct (insert_link s (lk_msg l) d n _) as [s1|] eqn:E; [|discriminate].
    apply insert_link_nm in E. rewrite (IH _ _ _ _ _ H). exact E.
Qed.

Lemma move_message_nm s msg src su d fl : next_msg (fst (move_message s msg src su d fl)) = next_msg s.
Proof.
  unfold move_message. destruct (find_name s d) as [m|]; [|reflexivity].
  destruct (mb_id m =? src); [reflexivity|].
  destruct (insert_link s msg (mb_id m) (mb_next m) fl) as [s1|] eqn:E; [|reflexivity].
  simpl. now apply insert_link_nm in E.
Qed.

Lemma uidstore_one_nm s sel mode new u : next_msg (uidstore_one s sel mode new u) = next_msg s.
Proof.
  unfold uidstore_one. destruct (find_link s sel u) as [l|]; [|reflexivity].
  destruct (negb _ && _).
  - pose proof (move_message_nm s (lk_msg l) sel u SPAM (fremove NONJUNK (calc_flags (lk_flags l) new mode))) as K.
    destruct (move_message _ _ _ _ SPAM _) as [s1 ok]. destruct ok; [exact K | reflexivity].
  - destruct (negb _ && _); [|reflexivity].
    pose proof (move_message_nm s (lk_msg l) sel u INBOX (fremove JUNK (calc_flags (lk_flags l) new mode))) as K.
    destruct (move_message _ _ _ _ INBOX _) as [s1 ok]. destruct ok; [exact K | reflexivity].
Qed.

Lemma add_message_nm s msg mb fl : next_msg (fst (add_message s msg mb fl)) = next_msg s.
Proof.
  unfold add_message. destruct (find_id s mb) as [m|]; [|reflexivity].
  destruct (insert_link (bump s mb) msg mb (mb_next m) fl) as [s2|] eqn:E; [|reflexivity].
  simpl. now apply insert_link_nm in E.
Qed.

Lemma create_parents_nm s n t : next_msg (fst (create_parents s n t)) = next_msg s.
Proof.
  unfold create_parents. destruct (contains_byte n SLASH); [|reflexivity]. simpl.
  generalize (parent_paths n). intros l. revert s. induction l as [|p l IH]; intros s; [reflexivity|].
  simpl. rewrite IH. destruct p; [reflexivity|]. destruct (equal_fold _ INBOX); [reflexivity|].
  destruct (find_name s _); [reflexivity|].
  destruct (create_mailbox_row s _ t) as [[s' id]|] eqn:C; [|reflexivity]. now apply create_row_nm in C.
Qed.

Lemma rename_fold_nm (new old : str) (ch : list mbox) : forall acc s', 
  fold_left (fun acc c => match acc with None => None
                          | Some s' => rename_row s' (mb_id c) (new ++ skipn (length old) (mb_name c)) end) ch acc = Some s' ->
  exists s0, acc = Some s0 /\ next_msg s' = next_msg s0.
Proof.
  induction ch as [|c ch IH]; simpl; intros acc s' H.
  - exists s'. auto.
  - apply IH in H. destruct H as (s1 & E & En). destruct acc as [s0|]; [|discriminate].
    exists s0. split; auto. apply rename_row_nm in E. congruence.
Qed.

Lemma step_nm s o : next_msg s <= next_msg (fst (step s o)).
Proof.
  destruct o; simpl.
  - unfold op_deliver. destruct (find_name s folder) as [m|].
    + unfold store_message. pose proof (add_message_nm (fst (store_message s)) (next_msg s) (mb_id m) []) as K.
      unfold store_message in K. simpl in *. destruct (add_message _ _ _ _) as [s3 ok]. simpl in *. lia.
    + destruct (create_mailbox_row s folder t) as [[s' id]|] eqn:C; [|simpl; lia].
      apply create_row_nm in C. unfold store_message.
      pose proof (add_message_nm (fst (store_message s')) (next_msg s') id []) as K.
      unfold store_message in K. simpl in *. destruct (add_message _ _ _ _) as [s3 ok]. simpl in *. lia.
  - unfold op_append. destruct (find_name s folder) as [m|]; [|simpl; lia].
    pose proof (add_message_nm (fst (store_message s)) (next_msg s) (mb_id m) flags) as K.
    unfold store_message in *. simpl in *. destruct (add_message _ _ _ _) as [s3 ok]. simpl in *.
    destruct ok; simpl; lia.
  - unfold op_uidcopy. destruct (resolve_uids s sel set); [simpl; lia|].
    destruct (find_name s dest) as [m|]; [|simpl; lia].
    destruct (uidcopy_loop _ _ _ _ _) eqn:E; [|simpl; lia]. apply uidcopy_loop_nm in E. simpl. lia.
  - unfold op_copy. destruct (resolve_seqs s sel set); [simpl; lia|].
    destruct (find_name s dest) as [m|]; [|simpl; lia].
    destruct (copy_loop _ _ _ _ _) eqn:E; [|simpl; lia]. apply copy_loop_nm in E. simpl. lia.
  - unfold op_uidstore. simpl. generalize (resolve_uids s sel set). intros l. revert s.
    induction l as [|u l IH]; intros s; simpl; [lia|].
    specialize (IH (uidstore_one s sel mode flags u)). rewrite uidstore_one_nm in IH. exact IH.
  - lia.
  - lia.
  - unfold op_create. destruct (trim_suffix name [SLASH]) as [|c r] eqn:En; [simpl; lia|]. rewrite <- En.
    destruct (str_eqb _ INBOX); [simpl; lia|]. destruct (is_role_ns _); [simpl; lia|].
    destruct (find_name s _); [simpl; lia|].
    pose proof (create_parents_nm s (trim_suffix name [SLASH]) t) as K.
    destruct (create_mailbox_row _ _ t) as [[s2 id]|] eqn:C; simpl; [apply create_row_nm in C|]; lia.
  - unfold op_delete. destruct name; [simpl; lia|]. destruct (str_eqb _ INBOX); [simpl; lia|].
    destruct (find_name s _); [|simpl; lia]. destruct (children s _); [|simpl; lia].
    destruct (existsb _ _); simpl; lia.
  - unfold op_rename. destruct old; [simpl; lia|]. destruct new; [simpl; lia|].
    destruct (is_role_ns _); [simpl; lia|]. destruct (str_eqb _ INBOX); [simpl; lia|].
    destruct (str_eqb _ INBOX).
    + unfold rename_inbox. destruct (find_name s _); [simpl; lia|]. destruct (find_name s INBOX) as [ib|]; [|simpl; lia].
      pose proof (create_parents_nm s (a0 :: new) t) as K. destruct (create_parents s (a0 :: new) t) as [s0 ok].
      simpl in K. destruct ok; [|simpl; lia]. change (negb true) with false. cbv iota.
      destruct (create_mailbox_row s0 (a0 :: new) t) as [[s1 nid]|] eqn:C; [|simpl; lia]. apply create_row_nm in C.
      destruct (reparent _ _ _) eqn:R; simpl; [apply reparent_nm in R; simpl in R|]; lia.
    + destruct (find_name s (a :: old)) as [m|]; [|simpl; lia]. destruct (find_name s _); [simpl; lia|].
      pose proof (create_parents_nm s (a0 :: new) t) as K. destruct (create_parents s (a0 :: new) t) as [s1 ok].
      simpl in K. destruct ok; [|simpl; lia]. change (negb true) with false. cbv iota.
      unfold rename_tx. destruct (rename_row s1 (mb_id m) (a0 :: new)) as [s2|] eqn:R; [|simpl; lia].
      destruct (fold_left _ _ (Some s2)) as [s3|] eqn:F; [|simpl; lia].
      apply rename_fold_nm in F. destruct F as (s0 & E0 & En). injection E0 as <-.
      apply rename_row_nm in R. simpl. lia.
Qed.

Lemma run_nm e : forall s, next_msg s <= next_msg (run e s).
Proof.
  induction e as [|o e IH]; intros s; [simpl; lia|].
  change (run (o :: e) s) with (run e (fst (step s o))). pose proof (step_nm s o). specialize (IH (fst (step s o))). lia.
Qed.

(** ---- the transactions -------------------------------------------------------- *)

Lemma move_tx_good s msg src su d fl : Inv s -> msg < next_msg s -> Good s (fst (move_tx s msg src su d fl)).
Proof.
  intros I Hmsg. unfold move_tx. destruct (find_id s d) as [m|] eqn:Hf; [|now apply Good_refl].
  pose proof (find_id_some _ _ _ Hf) as [_ Ei]. subst d.
  pose proof (set_next_self s (mb_id m) m (inv_ids s I) Hf) as Es.
  assert (IT : Inv (set_next s (mb_id m) (mb_next m))) by (rewrite Es; exact I).
  destruct (insert_set_good s msg (mb_id m) (mb_next m) fl m IT Hf Hmsg) as (s' & -> & G & _).
  rewrite Es in G. simpl. eapply Good_trans; [exact G|]. apply Good_delete_links. apply G.
Qed.

Lemma two_runs_good s e0 e1 : Inv s -> Clean s e0 -> Clean (run e0 s) e1 -> Good s (run e1 (run e0 s)).
Proof.
  intros I C0 C1. pose proof (run_good e0 s I C0) as G0.
  eapply Good_trans; [exact G0|]. apply run_good; [apply G0 | exact C1].
Qed.

Lemma move_sched_good s msg src su dest fl e0 e1 busy :
  Inv s -> msg < next_msg s -> Clean s e0 -> Clean (run e0 s) e1 ->
  Good s (fst (move_sched s msg src su dest fl e0 e1 busy)).
Proof.
  intros I Hmsg C0 C1. pose proof (two_runs_good s e0 e1 I C0 C1) as G. unfold move_sched.
  destruct (find_name (run e0 s) dest) as [d|]; [|exact G].
  destruct (mb_id d =? src); [exact G|]. destruct busy; [exact G|].
  eapply Good_trans; [exact G|]. apply move_tx_good; [apply G|].
  pose proof (run_nm e0 s). pose proof (run_nm e1 (run e0 s)). lia.
Qed.

Lemma uidstore1_sched_good s sel mode new u e0 e1 busy :
  Inv s -> Clean s e0 -> Clean (run e0 s) e1 -> Good s (uidstore1_sched s sel mode new u e0 e1 busy).
Proof.
  intros I C0 C1. pose proof (two_runs_good s e0 e1 I C0 C1) as G.
  unfold uidstore1_sched, uidstore1_sched_gen.
  destruct (find_link s sel u) as [l|] eqn:Fl; [|exact G].
  assert (Hmsg : lk_msg l < next_msg s) by (apply (inv_msg s I); eapply find_link_in'; exact Fl).
  assert (SF : forall s1 fl, Good s s1 -> Good s (set_flags s1 sel u fl)).
  { intros s1 fl G1. eapply Good_trans; [exact G1|]. apply Good_core_eq; [apply set_flags_core | apply G1]. }
  destruct (negb _ && _).
  - pose proof (move_sched_good s (lk_msg l) sel u SPAM (fremove NONJUNK (calc_flags (lk_flags l) new mode)) e0 e1 busy I Hmsg C0 C1) as Q.
    destruct (move_sched _ _ _ _ SPAM _ _ _ _) as [s1 ok]. destruct ok; [exact Q | now apply SF].
  - destruct (negb _ && _).
    + pose proof (move_sched_good s (lk_msg l) sel u INBOX (fremove JUNK (calc_flags (lk_flags l) new mode)) e0 e1 busy I Hmsg C0 C1) as Q.
      destruct (move_sched _ _ _ _ INBOX _ _ _ _) as [s1 ok]. destruct ok; [exact Q | now apply SF].
    + now apply SF.
Qed.

Lemma uidcopy_sched_good s sel set dest e0 e1 busy :
  Inv s -> Clean s e0 -> Clean (run e0 s) e1 -> Good s (fst (uidcopy_sched s sel set dest e0 e1 busy)).
Proof.
  intros I C0 C1. pose proof (two_runs_good s e0 e1 I C0 C1) as G. unfold uidcopy_sched.
  destruct (resolve_uids s sel set) as [|u r]; [exact G|].
  destruct (find_name (run e0 s) dest) as [d|]; [|exact G]. destruct busy; [exact G|].
  set (s1 := run e1 (run e0 s)) in *.
  destruct (find_id s1 (mb_id d)) as [m|] eqn:Hf; [|exact G].
  pose proof (find_id_some _ _ _ Hf) as [_ Ei].
  assert (I1 : Inv s1) by apply G.
  pose proof (set_next_self s1 (mb_id d) m (inv_ids s1 I1) Hf) as Es.
  assert (IT : Inv (set_next s1 (mb_id d) (mb_next m))) by (rewrite Es; exact I1).
  pose proof (uidcopy_loop_good (u :: r) s1 sel (mb_id d) (mb_next m) m IT Hf) as K.
  destruct (uidcopy_loop s1 sel (mb_id d) (u :: r) (mb_next m)); simpl; [|exact G].
  rewrite Es in K. eapply Good_trans; eauto.
Qed.

(** what [Good] means for a client *)
Lemma Good_client s s' : Inv s -> Good s s' ->
  uid_functional s' /\ uidnext_truthful s' /\
  (forall n v x1 x2, advertises s n v x1 -> advertises s' n v x2 -> x1 <= x2) /\
  (forall n v u g1 g2, visible s n v u g1 -> visible s' n v u g2 -> g1 = g2).
Proof.
  intros I [I' (L & U & M & A)]. split; [apply I'|]. split; [apply I'|]. split.
  - intros n v x1 x2 (m1 & Hm1 & <- & <- & <-) (m2 & Hm2 & En & Ev & <-).
    destruct (M m2 Hm2) as [(m & Hm & En' & Ev' & Le)|N].
    + assert (m = m1) as ->; [|exact Le].
      apply (NoDup_map_inj mb_name (mboxes s)); auto; [apply I | congruence].
    + exfalso. apply N. rewrite En, Ev. now apply (inv_used_m _ I).
  - intros n v u g1 g2 (m1 & l1 & Hm1 & Hl1 & <- & <- & E1 & <- & <-) (m2 & l2 & Hm2 & Hl2 & En & Ev & E2 & Eu & <-).
    pose proof (inv_logged _ I m1 l1 Hm1 Hl1 E1) as P1. apply L in P1.
    pose proof (inv_logged _ I' m2 l2 Hm2 Hl2 E2) as P2.
    apply (inv_fun _ I' _ _ P1 P2); simpl; congruence.
Qed.

Lemma junk_move_all_schedules_l : forall s sel mode new u e0 e1 busy,
  Inv s -> clean s e0 = true -> clean (run e0 s) e1 = true ->
  let s' := uidstore1_sched s sel mode new u e0 e1 busy in
  uid_functional s' /\ uidnext_truthful s' /\
  (forall n v x1 x2, advertises s n v x1 -> advertises s' n v x2 -> x1 <= x2) /\
  (forall n v u' g1 g2, visible s n v u' g1 -> visible s' n v u' g2 -> g1 = g2).
Proof.
  intros s sel mode new u e0 e1 busy I C0 C1. apply Good_client; [exact I|].
  apply uidstore1_sched_good; auto; now apply clean_Clean.
Qed.

Lemma uidcopy_all_schedules_l : forall s sel set dest e0 e1 busy,
  Inv s -> clean s e0 = true -> clean (run e0 s) e1 = true ->
  let s' := fst (uidcopy_sched s sel set dest e0 e1 busy) in
  uid_functional s' /\ uidnext_truthful s' /\
  (forall n v x1 x2, advertises s n v x1 -> advertises s' n v x2 -> x1 <= x2) /\
  (forall n v u' g1 g2, visible s n v u' g1 -> visible s' n v u' g2 -> g1 = g2).
Proof.
  intros s sel set dest e0 e1 busy I C0 C1. apply Good_client; [exact I|].
  apply uidcopy_sched_good; auto; now apply clean_Clean.
Qed.

(** with no other session the statement-level forms are the operations of the histories *)
Lemma move_sched_sequential_l : forall s msg src su dest fl,
  Inv s -> move_sched s msg src su dest fl [] [] false = move_message s msg src su dest fl.
Proof.
  intros s msg src su dest fl I. unfold move_sched, move_message, move_tx. simpl.
  destruct (find_name s dest) as [d|] eqn:Fn; [|reflexivity].
  destruct (mb_id d =? src); [reflexivity|].
  apply find_name_some in Fn. destruct Fn as [Hd _]. now rewrite (find_id_in s d I Hd).
Qed.

Lemma uidcopy_sched_sequential_l : forall s sel set dest,
  Inv s -> uidcopy_sched s sel set dest [] [] false = op_uidcopy s sel set dest.
Proof.
  intros s sel set dest I. unfold uidcopy_sched, op_uidcopy. simpl.
  destruct (resolve_uids s sel set) as [|u r]; [reflexivity|].
  destruct (find_name s dest) as [d|] eqn:Fn; [|reflexivity].
  apply find_name_some in Fn. destruct Fn as [Hd _]. now rewrite (find_id_in s d I Hd).
Qed.

(** regression (seeded change C03-4): "read uid_next with the destination id
    before BEGIN, write it back as an absolute value" is refuted by the
    three-writer schedule: two deliveries to Spam and another session's
    STORE \Deleted + EXPUNGE of the first of them, between L and the transaction *)
Definition c034_env : list op :=
  [ODeliver SPAM 0; ODeliver SPAM 0; OUidStore 5 [UOne 3] SAdd [DELETED]; OExpunge 5].
Lemma stale_move_refuted :
  let s := run sched2_prep (init 100) in
  clean s c034_env = true /\
  spec_b (uidstore1_sched s 1 SAdd [JUNK] 1 [] c034_env false) = true /\
  spec_b (uidstore1_sched_stale s 1 SAdd [JUNK] 1 [] c034_env) = false.
Proof. vm_compute. repeat split. Qed.

(** regression (seeded change C08-5): RENAME INBOX x that reads INBOX's uid_next
    up front and writes it into the target later is refuted by ONE delivery to
    INBOX between the creation of the target row and the transaction; the tree's
    order (counter copied inside the transaction) passes the same schedule *)
Definition c085_env : list op := [ODeliver INBOX 0].
Lemma stale_rename_inbox_refuted :
  let s := run sched2_prep (init 100) in
  clean s c085_env = true /\
  spec_b (fst (rename_inbox_sched s (S_ "R1") 200 c085_env)) = true /\
  spec_b (fst (rename_inbox_sched_stale s (S_ "R1") 200 c085_env)) = false.
Proof. vm_compute. repeat split. Qed.


(** regression (before raven 8552cfb): RENAME INBOX x overwrote the target's counter
    with INBOX's; with an APPEND to the just created target in the window (INBOX
    empty) the target advertised UIDNEXT 1 while holding UID 1.  With MAX the same
    schedule is fine. *)
Definition c03w_env : list op := [OAppend (S_ "R1") []].
Lemma overwrite_rename_inbox_refuted :
  clean (init 100) [] = true /\
  spec_b (fst (rename_inbox_sched (init 100) (S_ "R1") 200 c03w_env)) = true /\
  spec_b (fst (rename_inbox_sched_overwrite (init 100) (S_ "R1") 200 c03w_env)) = false.
Proof. vm_compute. repeat split. Qed.

(** what the window still allows on the current tree: a message added to the target
    AND expunged again inside the window leaves no row for UNIQUE to trip over,
    and INBOX's message then takes the same UID under the target's (name, validity) *)
Definition c03w2_env : list op :=
  [OAppend (S_ "R1") []; OUidStore 6 [UOne 1] SAdd [DELETED]; OExpunge 6].
Lemma window_expunged_uid_reused :
  let s := run [OAppend INBOX []] (init 100) in
  spec_b (fst (rename_inbox_sched s (S_ "R1") 200 [])) = true /\
  spec_b (fst (rename_inbox_sched s (S_ "R1") 200 c03w2_env)) = false.
Proof. vm_compute. repeat split. Qed.
