(** C19 — assembly: the tokens of a fragment program survive the tokenizer;
    SEARCH on the printed program returns the specified list; results are
    ascending and duplicate free for EVERY input. *)
From Coq Require Import String Ascii List Bool Arith NArith ZArith Lia Sorted.
From Raven Require Import Base.GoStr Base.GoStrFacts Model.Search Model.SearchText Spec.Search Model.SearchClass
  Proof.SearchTok Proof.SearchAtoms Proof.SearchDate Proof.SearchEval Proof.SearchToks Proof.SearchExact.
From Raven Require Model.SeqSet Spec.SeqSet.
Import ListNotations.
Local Open Scope Z_scope.
Local Arguments Ascii.eqb : simpl never.

(** ** the fuel [eval_tokens] supplies is enough for every program *)
Lemma measure_app a b : tokens_measure (a ++ b) = (tokens_measure a + tokens_measure b)%nat.
Proof. induction a as [|t a IH]; [reflexivity|]. cbn [app tokens_measure fold_right] in *. fold (tokens_measure (a ++ b)). fold (tokens_measure a). lia. Qed.

Lemma measure_join toks : (tokens_measure toks <= S (length (join toks [sp])))%nat.
Proof.
  induction toks as [|t toks IH]; [cbn; lia|]. destruct toks as [|t2 toks].
  - cbn. lia.
  - change (join (t :: t2 :: toks) [sp]) with (t ++ sp :: join (t2 :: toks) [sp]).
    rewrite app_length. cbn [length]. cbn [tokens_measure fold_right] in *. fold (tokens_measure (t2 :: toks)) in *. lia.
Qed.

Lemma measure_pos k : (1 <= tokens_measure (key_tokens k))%nat.
Proof.
  pose proof (key_tokens_nonempty k) as N. destruct (key_tokens k); [congruence|]. cbn. lia.
Qed.

Lemma pdepth_measure l : Forall (fun k => (depth k + 1 <= tokens_measure (key_tokens k))%nat) l ->
  (pdepth l <= tokens_measure (flat_map key_tokens l))%nat.
Proof.
  induction 1 as [|k l H _ IH]; [cbn; lia|]. cbn [pdepth fold_right flat_map]. fold (pdepth l). rewrite measure_app. lia.
Qed.

Lemma depth_measure k : (depth k + 1 <= tokens_measure (key_tokens k))%nat.
Proof.
  induction k as [k A | k IH | a b IHa IHb | l IH] using key_ind2.
  - pose proof (measure_pos k). destruct k; try contradiction; cbn [depth]; lia.
  - cbn [depth key_tokens]. change (tokens_measure (S_ "NOT" :: key_tokens k)) with (4 + tokens_measure (key_tokens k))%nat. lia.
  - cbn [depth key_tokens]. change (tokens_measure (S_ "OR" :: key_tokens a ++ key_tokens b)) with (3 + tokens_measure (key_tokens a ++ key_tokens b))%nat.
    rewrite measure_app. lia.
  - pose proof (pdepth_measure l IH) as P. pose proof (measure_join (flat_map key_tokens l)) as J.
    cbn [depth key_tokens]. fold (pdepth l). cbn [tokens_measure fold_right length]. rewrite app_length. cbn [length]. lia.
Qed.

Lemma eval_tokens_prog mb i sm ks :
  In (i, sm) (numbered mb) -> mb_ok mb = true -> forallb wf_key ks = true -> classify ks mb = None ->
  eval_tokens go_text (to_msg mb (i, sm)) (prog_tokens ks) = Some (spec_all (Z.of_nat (length mb)) (last_uid mb) ks i sm).
Proof.
  intros Hin Hmb W C. unfold eval_tokens. apply (prog_step mb i sm Hin Hmb ks W C).
  apply pdepth_measure. apply Forall_forall. intros k _. apply depth_measure.
Qed.

(** ** the listing: HandleSearch's max fields, the highest UID is the last one *)
Lemma numbered_length {A} (l : list A) : forall i, length (number_from i l) = length l.
Proof. induction l as [|x l IH]; intros i; [reflexivity|]. cbn. now rewrite IH. Qed.

Lemma last_uid_map n u l : forall i d0 d1, m_uid d0 = s_uid d1 ->
  m_uid (last (map (to_msg_in n u) (number_from i l)) d0) = s_uid (last l d1).
Proof.
  induction l as [|x l IH]; intros i d0 d1 E; [exact E|].
  destruct l as [|y l]; [reflexivity|].
  change (last (x :: y :: l) d1) with (last (y :: l) d1).
  change (number_from i (x :: y :: l)) with ((i, x) :: number_from (i + 1) (y :: l)).
  cbn [map]. change (last (?a :: map (to_msg_in n u) (number_from (i + 1) (y :: l))) d0)
    with (last (map (to_msg_in n u) (number_from (i + 1) (y :: l))) d0).
  now apply IH.
Qed.

Lemma fill_max_to_msgs mb : fill_max (to_msgs mb) = to_msgs mb.
Proof.
  unfold fill_max, to_msgs, to_msg. rewrite map_length. unfold numbered. rewrite numbered_length.
  rewrite (last_uid_map _ _ mb 1 (mk_msg 0 0 [] [] (0, 0, 0) 0 0) (mk_smsg 0 [] [] (0, 0, 0)) eq_refl). fold (last_uid mb).
  rewrite map_map. apply map_ext. intros [i m]. reflexivity.
Qed.

Lemma asc_last l : Spec.SeqSet.ascendingb l = true -> forall x, (forall y, In y (x :: l) -> 0 < y) ->
  Spec.SeqSet.ascendingb (x :: l) = true -> x <= last (x :: l) 0 /\ Spec.SeqSet.max_uid (x :: l) = last (x :: l) 0.
Proof.
  induction l as [|y l IH]; intros A x P Ax.
  - cbn. split; [lia|]. specialize (P x (or_introl eq_refl)). lia.
  - cbn [Spec.SeqSet.ascendingb] in Ax. apply andb_true_iff in Ax as [Lt Ay]. apply Z.ltb_lt in Lt.
    assert (Al : Spec.SeqSet.ascendingb l = true).
    { cbn [Spec.SeqSet.ascendingb] in Ay. destruct l; [reflexivity|]. now apply andb_true_iff in Ay as [_ ?]. }
    destruct (IH Al y (fun z Hz => P z (or_intror Hz)) Ay) as [Le Mx].
    change (last (x :: y :: l) 0) with (last (y :: l) 0).
    unfold Spec.SeqSet.max_uid in *. cbn [fold_right] in *. split; lia.
Qed.

Lemma last_is_max mb : mb_ok mb = true -> last_uid mb = max_uid mb.
Proof.
  unfold mb_ok. intros H. apply andb_true_iff in H as [H P]. apply andb_true_iff in H as [_ A].
  unfold last_uid, max_uid. destruct mb as [|m0 mb]; [reflexivity|].
  assert (L : forall l d, s_uid (last l d) = last (map s_uid l) (s_uid d)).
  { induction l as [|a l IHl]; intros d; [reflexivity|]. destruct l; [reflexivity|]. exact (IHl d). }
  rewrite L. cbn [map s_uid] in *.
  assert (Pz : forall y, In y (s_uid m0 :: map s_uid mb) -> 0 < y).
  { intros y Hy. change (s_uid m0 :: map s_uid mb) with (map s_uid (m0 :: mb)) in Hy. apply in_map_iff in Hy as (z & <- & Hz).
    rewrite forallb_forall in P. apply Z.ltb_lt. now apply P. }
  assert (Al : Spec.SeqSet.ascendingb (map s_uid mb) = true).
  { cbn [Spec.SeqSet.ascendingb] in A. destruct (map s_uid mb); [reflexivity|]. now apply andb_true_iff in A as [_ ?]. }
  destruct (asc_last _ Al _ Pz A) as [_ E]. now rewrite E.
Qed.

Lemma print_not_blank ks mb : wf_prog ks = true -> classify ks mb = None -> trim_space (print_prog ks) <> [].
Proof.
  unfold wf_prog. destruct ks as [|k ks]; [discriminate|]. intros W C.
  pose proof (prog_toks_ok _ _ W C) as T. unfold print_prog.
  destruct (prog_tokens (k :: ks)) as [|t1 toks] eqn:E.
  - unfold prog_tokens in E. cbn [flat_map] in E. apply app_eq_nil in E as [E _]. now apply key_tokens_nonempty in E.
  - cbn [forallb] in T. apply andb_true_iff in T as [T1 _]. destruct t1 as [|c t1]; [discriminate|].
    apply tok_ok_head in T1. destruct toks; cbn [join app]; now apply trim_space_nonempty.
Qed.

Lemma msc_eq T m toks : matches_search_criteria T m toks = eval_tokens T m toks.
Proof. destruct toks; reflexivity. Qed.

Lemma collect_spec mb (P : Z * smsg -> bool) toks l :
  (forall im, In im l -> eval_tokens go_text (to_msg mb im) toks = Some (P im)) ->
  collect_seq go_text toks (map (to_msg mb) l) = Some (map (to_msg mb) (filter P l)).
Proof.
  induction l as [|im l IH]; intros H; [reflexivity|].
  cbn [map collect_seq]. rewrite msc_eq, (H im) by now left. rewrite IH by (intros; apply H; now right).
  cbn [filter]. destruct (P im); reflexivity.
Qed.

Lemma map_seq_to_msg mb l : map m_seq (map (to_msg mb) l) = map fst l.
Proof. induction l as [|[i m] l IH]; [reflexivity|]. cbn [map to_msg to_msg_in m_seq fst]. now rewrite IH. Qed.
Lemma map_uid_to_msg mb l : map m_uid (map (to_msg mb) l) = map (fun '(i, m) => s_uid m) l.
Proof. induction l as [|[i m] l IH]; [reflexivity|]. cbn [map to_msg to_msg_in m_uid]. now rewrite IH. Qed.

Lemma key_supported mb k : key_class k mb = None -> supported k = true.
Proof.
  induction k as [k A | k IH | a b IHa IHb | l IH] using key_ind2; intros C.
  - rewrite (atomic_class k mb A) in C. destruct k; try reflexivity; try contradiction; discriminate.
  - cbn [key_class supported] in *. auto.
  - cbn [key_class supported] in *. destruct (key_class a mb) eqn:C1; [discriminate|]. now rewrite IHa, IHb.
  - cbn [key_class supported] in *. apply first_class_none in C. apply forallb_forall. rewrite Forall_forall in *. auto.
Qed.

Lemma classify_supported ks mb : classify ks mb = None -> forallb supported ks = true.
Proof.
  induction ks as [|k ks IH]; intros C; [reflexivity|]. cbn [classify] in C.
  destruct (key_class k mb) eqn:C1; [discriminate|]. cbn [forallb]. now rewrite (key_supported mb k C1), (IH C).
Qed.

(** the evaluator on the printed program selects exactly the specified entries *)
Lemma evaluate_exact ks mb : wf_prog ks = true -> mb_ok mb = true -> classify ks mb = None ->
  evaluate_search_criteria go_text (to_msgs mb) (print_prog ks)
  = Some (map (to_msg mb) (filter (fun '(i, m) => spec_all (Z.of_nat (length mb)) (max_uid mb) ks i m) (numbered mb))).
Proof.
  intros W Hmb C. unfold evaluate_search_criteria.
  pose proof (print_not_blank ks mb W C) as NB. destruct (trim_space (print_prog ks)) eqn:E; [congruence|]. clear E NB.
  assert (W' : forallb wf_key ks = true) by (unfold wf_prog in W; now destruct ks).
  unfold print_prog. rewrite parse_print by (eapply prog_toks_ok; eassumption).
  unfold to_msgs.
  apply (collect_spec mb (fun '(i, m) => spec_all (Z.of_nat (length mb)) (max_uid mb) ks i m)).
  intros [i sm] Hin. rewrite <- (last_is_max mb Hmb). now apply eval_tokens_prog.
Qed.

(** SEARCH (message.evaluateSearchCriteria on the printed program) returns
    exactly the specified sequence numbers *)
Theorem search_exact ks mb : wf_prog ks = true -> mb_ok mb = true -> classify ks mb = None ->
  search (to_msgs mb) (print_prog ks) = Some (spec_search_list ks mb)
  /\ spec_search ks mb = SOk (spec_search_list ks mb).
Proof.
  intros W Hmb C. split.
  - unfold search. rewrite (evaluate_exact ks mb W Hmb C). cbn [option_map]. now rewrite map_seq_to_msg.
  - unfold spec_search. now rewrite (classify_supported ks mb C).
Qed.

(** UID SEARCH: the same entries, their UIDs *)
Theorem uid_search_exact ks mb : wf_prog ks = true -> mb_ok mb = true -> classify ks mb = None ->
  uid_search (to_msgs mb) (print_prog ks) = Some (spec_uid_search_list ks mb)
  /\ spec_uid_search ks mb = SOk (spec_uid_search_list ks mb).
Proof.
  intros W Hmb C. split.
  - unfold uid_search. rewrite (evaluate_exact ks mb W Hmb C). cbn [option_map]. now rewrite map_uid_to_msg.
  - unfold spec_uid_search. now rewrite (classify_supported ks mb C).
Qed.

(** ** ascending, duplicate free, for every criteria string and every text semantics *)
Lemma collect_sorted (proj : msg -> Z) T toks msgs : forall l,
  StronglySorted Z.lt (map proj msgs) -> collect_seq T toks msgs = Some l ->
  StronglySorted Z.lt (map proj l) /\ incl (map proj l) (map proj msgs).
Proof.
  induction msgs as [|m ms IH]; intros l S H; cbn [collect_seq] in H.
  - injection H as <-. split; [constructor | intros x []].
  - destruct (matches_search_criteria T m toks) as [b|]; [|discriminate].
    destruct (collect_seq T toks ms) as [l'|] eqn:E; [|discriminate]. injection H as <-.
    cbn [map] in S. apply StronglySorted_inv in S as [S1 S2]. destruct (IH l' S1 eq_refl) as [I1 I2].
    destruct b; cbn [map].
    + split.
      * constructor; [exact I1|]. rewrite Forall_forall in *. intros x Hx. apply S2. now apply I2.
      * intros x [<- | Hx]; [now left | right; now apply I2].
    + split; [exact I1 | intros x Hx; right; now apply I2].
Qed.

Lemma sorted_nodup l : StronglySorted Z.lt l -> NoDup l.
Proof.
  induction 1 as [|x l S IH F]; constructor; [|exact IH].
  intros Hx. rewrite Forall_forall in F. specialize (F x Hx). lia.
Qed.

Lemma fill_max_proj (by_uid : bool) msgs :
  map (if by_uid then m_uid else m_seq) (fill_max msgs) = map (if by_uid then m_uid else m_seq) msgs.
Proof. unfold fill_max. rewrite map_map. apply map_ext. intros m. destruct by_uid; reflexivity. Qed.

(** ascending, duplicate free, inside the mailbox: SEARCH (sequence numbers) and
    UID SEARCH (UIDs), for every argument list, text semantics and listing *)
Theorem selected_ascending T args (by_uid : bool) msgs l :
  StronglySorted Z.lt (map (if by_uid then m_uid else m_seq) msgs) -> search_selected T args by_uid msgs = ROk l ->
  StronglySorted Z.lt l /\ NoDup l /\ incl l (map (if by_uid then m_uid else m_seq) msgs).
Proof.
  intros S H. unfold search_selected in H.
  destruct (length args <? 1)%nat; [discriminate|].
  match type of H with (if ?c then _ else _) = _ => destruct c; [discriminate|] end.
  match type of H with (if ?c then _ else _) = _ => destruct c; [discriminate|] end.
  match type of H with match ?e with _ => _ end = _ => destruct e as [l'|] eqn:E; [|discriminate] end.
  injection H as <-. unfold evaluate_search_criteria in E.
  rewrite <- (fill_max_proj by_uid msgs) in S |- *.
  destruct (collect_sorted _ _ _ _ _ S E) as [A B]. repeat split; try assumption. now apply sorted_nodup.
Qed.

Theorem search_ascending T parts msgs l :
  StronglySorted Z.lt (map m_seq msgs) -> handle_search T parts msgs = ROk l ->
  StronglySorted Z.lt l /\ NoDup l /\ incl l (map m_seq msgs).
Proof. intros S H. exact (selected_ascending T _ false msgs l S H). Qed.

Theorem uid_search_ascending T parts msgs l :
  StronglySorted Z.lt (map m_uid msgs) -> handle_uid_search T parts msgs = ROk l ->
  StronglySorted Z.lt l /\ NoDup l /\ incl l (map m_uid msgs).
Proof. intros S H. exact (selected_ascending T _ true msgs l S H). Qed.
