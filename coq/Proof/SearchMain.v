(** C19 — assembly: the tokens of a fragment program survive the tokenizer;
    SEARCH on the printed program returns the specified list; results are
    ascending and duplicate free for EVERY input. *)
From Coq Require Import String Ascii List Bool Arith NArith ZArith Lia Sorted.
From Raven Require Import Base.GoStr Base.GoStrFacts Model.Search Model.SearchText Spec.Search Model.SearchClass
  Proof.SearchTok Proof.SearchAtoms Proof.SearchDate Proof.SearchEval Proof.SearchExact.
Import ListNotations.
Local Open Scope Z_scope.
Local Arguments Ascii.eqb : simpl never.

Definition plain (c : ascii) : bool :=
  negb (is_space c) && negb (Ascii.eqb c dq) && negb (Ascii.eqb c lpar) && negb (Ascii.eqb c rpar).

Lemma plain_scan t : forallb plain t = true -> tok_scan t false = true.
Proof.
  induction t as [|c t IH]; intros H; [reflexivity|]. cbn [forallb] in H. apply andb_true_iff in H as [H1 H2].
  unfold plain in H1. repeat (apply andb_true_iff in H1 as [H1 ?]).
  repeat match goal with X : negb _ = true |- _ => apply negb_true_iff in X end.
  cbn [tok_scan]. rewrite H3. rewrite H0, H, H1. cbn [negb andb]. now apply IH.
Qed.

Lemma plain_tok t : t <> [] -> forallb plain t = true -> tok_ok t = true.
Proof. intros N H. destruct t; [congruence|]. now apply plain_scan. Qed.

Lemma digits_plain d : forallb is_digit d = true -> forallb plain d = true.
Proof.
  apply forallb_impl. intros c H. destruct (digit_facts c H) as (_ & _ & _ & _ & _ & _ & A & B & C & D).
  unfold plain. now rewrite A, B, C, D.
Qed.

Lemma quote_scan v : string_ok v = true -> tok_scan (v ++ [dq]) true = true.
Proof.
  induction v as [|c v IH]; intros H; [reflexivity|]. cbn [string_ok forallb] in H. apply andb_true_iff in H as [H1 H2].
  unfold qchar_ok in H1. repeat (apply andb_true_iff in H1 as [H1 ?]). apply negb_true_iff in H1.
  cbn [app tok_scan]. rewrite H1. now apply IH.
Qed.

Lemma quote_tok v : string_ok v = true -> tok_ok (quote v) = true.
Proof. intros H. unfold quote, tok_ok. cbn [tok_scan]. rewrite Ascii.eqb_refl. cbn [negb]. now apply quote_scan. Qed.

Lemma simple_toks_ok k mb : wf_key k = true -> simple_class k mb = None -> forallb tok_ok (key_tokens k) = true.
Proof.
  intros W C. destruct k; cbn [simple_class] in C; try discriminate; cbn [key_tokens wf_key] in *.
  - reflexivity.
  - destruct f; reflexivity.
  - destruct f; reflexivity.
  - reflexivity.
  - destruct (atom_facts w W) as (A1 & _ & _ & _ & A5). cbn [forallb]. rewrite (plain_tok w A1 A5). reflexivity.
  - destruct (atom_facts w W) as (A1 & _ & _ & _ & A5). cbn [forallb]. rewrite (plain_tok w A1 A5). reflexivity.
  - unfold set_class in C. destruct s as [|[[d|]|[a|] [b|]] [|? ?]]; try discriminate; unfold set_ok in W; cbn in W; rewrite andb_true_r in W.
    + destruct (numeral_digits d W) as [Hd Hne]. unfold print_set. cbn [map join print_item print_snum forallb].
      rewrite (plain_tok d Hne (digits_plain d Hd)). reflexivity.
    + apply andb_true_iff in W as [Wa Wb]. destruct (numeral_digits a Wa) as [Hda Hnea]. destruct (numeral_digits b Wb) as [Hdb Hneb].
      unfold print_set. cbn [map join print_item print_snum forallb]. rewrite (plain_tok (a ++ colon :: b)); [reflexivity | now destruct a |].
      rewrite forallb_app, (digits_plain a Hda). cbn [forallb]. now rewrite (digits_plain b Hdb).
  - unfold set_class in C. destruct s as [|[[d|]|[a|] [b|]] [|? ?]]; try discriminate; unfold set_ok in W; cbn in W; rewrite andb_true_r in W.
    + destruct (numeral_digits d W) as [Hd Hne]. unfold print_set. cbn [map join print_item print_snum forallb].
      rewrite (plain_tok d Hne (digits_plain d Hd)). reflexivity.
    + apply andb_true_iff in W as [Wa Wb]. destruct (numeral_digits a Wa) as [Hda Hnea]. destruct (numeral_digits b Wb) as [Hdb Hneb].
      unfold print_set. cbn [map join print_item print_snum forallb]. rewrite (plain_tok (a ++ colon :: b)); [reflexivity | now destruct a |].
      rewrite forallb_app, (digits_plain a Hda). cbn [forallb]. now rewrite (digits_plain b Hdb).
  - cbn [forallb]. rewrite (quote_tok v W). destruct h; reflexivity.
  - apply andb_true_iff in W as [W1 W2]. cbn [forallb]. now rewrite (quote_tok f W1), (quote_tok v W2).
  - cbn [forallb]. now rewrite (quote_tok v W).
  - cbn [forallb]. now rewrite (quote_tok v W).
  - destruct (numeral_digits n W) as [Hd Hne]. cbn [forallb]. now rewrite (plain_tok n Hne (digits_plain n Hd)).
  - destruct (numeral_digits n W) as [Hd Hne]. cbn [forallb]. now rewrite (plain_tok n Hne (digits_plain n Hd)).
  - cbn [forallb]. rewrite (plain_tok (print_date d)).
    + destruct sent, c; reflexivity.
    + destruct d as [[dd mon] yyyy]. unfold print_date. intros E. destruct dd; cbn [app] in E; discriminate E.
    + exact (date_plain d W).
Qed.

Lemma key_toks_ok k mb : wf_key k = true -> key_class k mb = None -> forallb tok_ok (key_tokens k) = true.
Proof.
  intros W C. destruct k; try (apply simple_toks_ok with (mb := mb); assumption).
  - cbn [key_class] in C. apply operand_inv in C as [_ C]. cbn [key_tokens wf_key forallb] in *.
    now rewrite (simple_toks_ok k mb W C).
  - cbn [key_class] in C. destruct (operand_class k1 mb) eqn:C1; [discriminate|].
    apply operand_inv in C1 as [_ C1]. apply operand_inv in C as [_ C2].
    cbn [wf_key] in W. apply andb_true_iff in W as [W1 W2].
    cbn [key_tokens forallb]. rewrite forallb_app. now rewrite (simple_toks_ok k1 mb W1 C1), (simple_toks_ok k2 mb W2 C2).
Qed.

Lemma prog_toks_ok ks mb : forallb wf_key ks = true -> classify ks mb = None -> forallb tok_ok (prog_tokens ks) = true.
Proof.
  induction ks as [|k ks IH]; intros W C; [reflexivity|].
  cbn [forallb] in W. apply andb_true_iff in W as [W1 W2].
  cbn [classify] in C. destruct (key_class k mb) eqn:C1; [discriminate|].
  unfold prog_tokens. cbn [flat_map]. rewrite forallb_app. rewrite (key_toks_ok k mb W1 C1). now apply IH.
Qed.

Lemma key_tokens_nonempty k : key_tokens k <> [].
Proof. destruct k; discriminate. Qed.

Lemma tok_ok_head c t : tok_ok (c :: t) = true -> is_space c = false.
Proof.
  unfold tok_ok. cbn [tok_scan]. destruct (Ascii.eqb_spec c dq) as [->|_]; [reflexivity|].
  intros H. repeat (apply andb_true_iff in H as [H ?]). now apply negb_true_iff.
Qed.

Lemma print_not_blank ks mb : wf_prog ks = true -> classify ks mb = None -> trim_space (print_prog ks) <> [].
Proof.
  unfold wf_prog. destruct ks as [|k ks]; [discriminate|]. intros W C.
  pose proof (prog_toks_ok _ _ W C) as T. unfold print_prog.
  destruct (prog_tokens (k :: ks)) as [|t1 toks] eqn:E.
  - unfold prog_tokens in E. cbn [flat_map] in E. apply app_eq_nil in E as [E _]. now apply key_tokens_nonempty in E.
  - cbn [forallb] in T. apply andb_true_iff in T as [T1 _]. destruct t1 as [|c t1]; [discriminate|].
    apply tok_ok_head in T1. destruct toks; cbn [join app]; now apply trim_space_nonempty.
Qed.

Lemma msc_eq T m toks : matches_search_criteria T m toks = eval_tokens T m toks.
Proof. destruct toks; reflexivity. Qed.

Lemma collect_spec (P : Z * smsg -> bool) toks l :
  (forall im, In im l -> eval_tokens go_text (to_msg im) toks = Some (P im)) ->
  collect_seq go_text toks (map to_msg l) = Some (map to_msg (filter P l)).
Proof.
  induction l as [|im l IH]; intros H; [reflexivity|].
  cbn [map collect_seq]. rewrite msc_eq, (H im) by now left. rewrite IH by (intros; apply H; now right).
  cbn [filter]. destruct (P im); reflexivity.
Qed.

Lemma map_seq_to_msg l : map m_seq (map to_msg l) = map fst l.
Proof. induction l as [|[i m] l IH]; [reflexivity|]. cbn [map to_msg m_seq fst]. now rewrite IH. Qed.
Lemma map_uid_to_msg l : map m_uid (map to_msg l) = map (fun '(i, m) => s_uid m) l.
Proof. induction l as [|[i m] l IH]; [reflexivity|]. cbn [map to_msg m_uid]. now rewrite IH. Qed.

Lemma classify_supported ks mb : classify ks mb = None -> forallb supported ks = true.
Proof.
  induction ks as [|k ks IH]; intros C; [reflexivity|]. cbn [classify] in C.
  destruct (key_class k mb) eqn:C1; [discriminate|]. cbn [forallb]. rewrite (IH C), andb_true_r.
  destruct k; try reflexivity; cbn [key_class] in C1.
  - apply operand_inv in C1 as [A _]. cbn [supported]. destruct k; try reflexivity; discriminate.
  - destruct (operand_class k1 mb) eqn:C2; [discriminate|]. apply operand_inv in C2 as [A1 _]. apply operand_inv in C1 as [A2 _].
    cbn [supported]. destruct k1; try discriminate; destruct k2; try discriminate; reflexivity.
  - discriminate.
  - discriminate.
Qed.

(** the evaluator on the printed program selects exactly the specified entries *)
Lemma evaluate_exact ks mb : wf_prog ks = true -> mb_ok mb = true -> classify ks mb = None ->
  evaluate_search_criteria go_text (to_msgs mb) (print_prog ks)
  = Some (map to_msg (filter (fun '(i, m) => spec_all (Z.of_nat (length mb)) (max_uid mb) ks i m) (numbered mb))).
Proof.
  intros W Hmb C. unfold evaluate_search_criteria.
  pose proof (print_not_blank ks mb W C) as NB. destruct (trim_space (print_prog ks)) eqn:E; [congruence|]. clear E NB.
  assert (W' : forallb wf_key ks = true) by (unfold wf_prog in W; now destruct ks).
  unfold print_prog. rewrite parse_print by (eapply prog_toks_ok; eassumption).
  unfold to_msgs.
  apply (collect_spec (fun '(i, m) => spec_all (Z.of_nat (length mb)) (max_uid mb) ks i m)).
  intros [i sm] Hin. now apply eval_tokens_prog with (mb := mb).
Qed.

(** SEARCH (message.evaluateSearchCriteria on the printed program) returns
    exactly the specified sequence numbers *)
Theorem search_exact ks mb : wf_prog ks = true -> mb_ok mb = true -> classify ks mb = None ->
  search (to_msgs mb) (print_prog ks) = Some (spec_search_list ks mb)
  /\ spec_search ks mb = SOk (spec_search_list ks mb).
Proof.
  intros W Hmb C. split.
  - unfold search. rewrite (evaluate_exact ks mb W Hmb C). cbn [option_map]. now rewrite map_seq_to_msg.
  - unfold spec_search. now rewrite (classify_supported ks mb C).
Qed.

(** UID SEARCH: the same entries, their UIDs *)
Theorem uid_search_exact ks mb : wf_prog ks = true -> mb_ok mb = true -> classify ks mb = None ->
  uid_search (to_msgs mb) (print_prog ks) = Some (spec_uid_search_list ks mb)
  /\ spec_uid_search ks mb = SOk (spec_uid_search_list ks mb).
Proof.
  intros W Hmb C. split.
  - unfold uid_search. rewrite (evaluate_exact ks mb W Hmb C). cbn [option_map]. now rewrite map_uid_to_msg.
  - unfold spec_uid_search. now rewrite (classify_supported ks mb C).
Qed.

(** ** ascending, duplicate free, for every criteria string and every text semantics *)
Lemma collect_sorted (proj : msg -> Z) T toks msgs : forall l,
  StronglySorted Z.lt (map proj msgs) -> collect_seq T toks msgs = Some l ->
  StronglySorted Z.lt (map proj l) /\ incl (map proj l) (map proj msgs).
Proof.
  induction msgs as [|m ms IH]; intros l S H; cbn [collect_seq] in H.
  - injection H as <-. split; [constructor | intros x []].
  - destruct (matches_search_criteria T m toks) as [b|]; [|discriminate].
    destruct (collect_seq T toks ms) as [l'|] eqn:E; [|discriminate]. injection H as <-.
    cbn [map] in S. apply StronglySorted_inv in S as [S1 S2]. destruct (IH l' S1 eq_refl) as [I1 I2].
    destruct b; cbn [map].
    + split.
      * constructor; [exact I1|]. rewrite Forall_forall in *. intros x Hx. apply S2. now apply I2.
      * intros x [<- | Hx]; [now left | right; now apply I2].
    + split; [exact I1 | intros x Hx; right; now apply I2].
Qed.

Lemma sorted_nodup l : StronglySorted Z.lt l -> NoDup l.
Proof.
  induction 1 as [|x l S IH F]; constructor; [|exact IH].
  intros Hx. rewrite Forall_forall in F. specialize (F x Hx). lia.
Qed.

(** ascending, duplicate free, inside the mailbox: SEARCH (sequence numbers) and
    UID SEARCH (UIDs), for every argument list, text semantics and listing *)
Theorem selected_ascending T args (by_uid : bool) msgs l :
  StronglySorted Z.lt (map (if by_uid then m_uid else m_seq) msgs) -> search_selected T args by_uid msgs = ROk l ->
  StronglySorted Z.lt l /\ NoDup l /\ incl l (map (if by_uid then m_uid else m_seq) msgs).
Proof.
  intros S H. unfold search_selected in H.
  destruct (length args <? 1)%nat; [discriminate|].
  match type of H with (if ?c then _ else _) = _ => destruct c; [discriminate|] end.
  match type of H with (if ?c then _ else _) = _ => destruct c; [discriminate|] end.
  match type of H with match ?e with _ => _ end = _ => destruct e as [l'|] eqn:E; [|discriminate] end.
  injection H as <-. unfold evaluate_search_criteria in E.
  destruct (collect_sorted _ _ _ _ _ S E) as [A B]. repeat split; try assumption. now apply sorted_nodup.
Qed.

Theorem search_ascending T parts msgs l :
  StronglySorted Z.lt (map m_seq msgs) -> handle_search T parts msgs = ROk l ->
  StronglySorted Z.lt l /\ NoDup l /\ incl l (map m_seq msgs).
Proof. intros S H. exact (selected_ascending T _ false msgs l S H). Qed.

Theorem uid_search_ascending T parts msgs l :
  StronglySorted Z.lt (map m_uid msgs) -> handle_uid_search T parts msgs = ROk l ->
  StronglySorted Z.lt l /\ NoDup l /\ incl l (map m_uid msgs).
Proof. intros S H. exact (selected_ascending T _ true msgs l S H). Qed.
