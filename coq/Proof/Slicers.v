(** C12, function layer: no modelled slicing function panics, on any input
    (the code after the fix wave, fixes/c12-2 … c12-7). *)
From Coq Require Import String Ascii List Bool Arith NArith ZArith Lia.
From Raven Require Import Base.GoStr Base.GoStrFacts Model.Slicers.
Import ListNotations.
Local Open Scope char_scope.

(** ---- slice / index facts ---- *)
Lemma slice_none_iff (s : str) (i j : Z) :
  slice s i j = None <-> ~ (0 <= i /\ i <= j /\ j <= zlen s)%Z.
Proof.
  unfold slice, zlen.
  destruct (Z.leb_spec 0 i); destruct (Z.leb_spec i j);
    destruct (Z.leb_spec j (Z.of_nat (length s))); simpl; split; intros H'; try discriminate; try lia;
    try reflexivity; exfalso; apply H'; lia.
Qed.

Lemma slice_some (s : str) (i j : Z) :
  (0 <= i)%Z -> (i <= j)%Z -> (j <= zlen s)%Z -> exists r, slice s i j = Some r.
Proof.
  intros H1 H2 H3. destruct (slice s i j) eqn:E; [eauto|].
  apply slice_none_iff in E. exfalso. apply E. lia.
Qed.

Lemma index_byte_lt (s : str) (c : ascii) (i : nat) : index_byte s c = Some i -> i < length s.
Proof.
  revert i; induction s as [|d s IH]; simpl; intros i H; [discriminate|].
  destruct (Ascii.eqb d c).
  - injection H as <-. lia.
  - destruct (index_byte s c) as [k|]; simpl in H; [|discriminate].
    injection H as <-. specialize (IH k eq_refl). lia.
Qed.

Lemma index_byte_nth (s : str) (c : ascii) (i : nat) :
  index_byte s c = Some i -> nth_error s i = Some c.
Proof.
  revert i; induction s as [|d s IH]; simpl; intros i H; [discriminate|].
  destruct (Ascii.eqb_spec d c) as [->|N].
  - injection H as <-. reflexivity.
  - destruct (index_byte s c) as [k|]; simpl in H; [|discriminate].
    injection H as <-. simpl. now apply IH.
Qed.

Lemma has_prefix_len (s p : str) : has_prefix s p = true -> length p <= length s.
Proof.
  revert s; induction p as [|c p IH]; intros s H; simpl in *; [lia|].
  destruct s as [|d s]; [discriminate|]. apply andb_true_iff in H as [_ H].
  apply IH in H. simpl. lia.
Qed.

Lemma index_le (s sub : str) (i : nat) : index s sub = Some i -> i + length sub <= length s.
Proof.
  revert i; induction s as [|d s IH]; intros i H.
  - simpl in H. destruct (has_prefix [] sub) eqn:P; [|discriminate].
    injection H as <-. apply has_prefix_len in P. simpl in *. lia.
  - simpl in H. destruct (has_prefix (d :: s) sub) eqn:P.
    + injection H as <-. apply has_prefix_len in P. simpl in *. lia.
    + destruct (index s sub) as [k|]; simpl in H; [|discriminate].
      injection H as <-. specialize (IH k eq_refl). simpl. lia.
Qed.

(** ---- parseAddressList ---- *)
Lemma addr_tail_some (name email : str) :
  (let '(mailbox, host) :=
     if contains_byte email "@" then split_at_first email "@" else (email, []) in
   Some (S_ "(" ++ quote_or_nil name ++ S_ " NIL " ++ quote_or_nil mailbox ++ S_ " "
           ++ quote_or_nil host ++ S_ ")")) <> None.
Proof.
  destruct (contains_byte email "@"); [destruct (split_at_first email "@")|]; discriminate.
Qed.

Lemma index_byte_contains (a : str) (c : ascii) (i : nat) :
  index_byte a c = Some i -> contains_byte a c = true.
Proof.
  intros Hi. apply index_byte_nth in Hi. apply nth_error_In in Hi.
  unfold contains_byte. apply existsb_exists. exists c. split; [exact Hi | apply Ascii.eqb_refl].
Qed.

Lemma index_byte_skipn (s : str) (c : ascii) (i : nat) :
  index_byte s c = Some i -> exists r, skipn i s = c :: r.
Proof.
  revert i; induction s as [|d s IH]; simpl; intros i H; [discriminate|].
  destruct (Ascii.eqb_spec d c) as [->|N].
  - injection H as <-. simpl. eauto.
  - destruct (index_byte s c) as [k|]; simpl in H; [|discriminate].
    injection H as <-. simpl. now apply IH.
Qed.

Lemma slice_from_skipn (s : str) (i : nat) :
  i <= length s -> slice_from s (Z.of_nat i) = Some (skipn i s).
Proof.
  intros H. unfold slice_from, slice.
  destruct (Z.leb_spec 0 (Z.of_nat i)); [|lia].
  destruct (Z.leb_spec (Z.of_nat i) (Z.of_nat (length s))); [|lia].
  destruct (Z.leb_spec (Z.of_nat (length s)) (Z.of_nat (length s))); [|lia]. simpl.
  rewrite Nat2Z.id. f_equal. apply firstn_all2. rewrite skipn_length. lia.
Qed.

Theorem addr_struct_total (a : str) : addr_struct a <> None.
Proof.
  unfold addr_struct.
  destruct (index_byte a "<") as [st|] eqn:E1; [|apply addr_tail_some].
  pose proof (index_byte_lt _ _ _ E1) as L1.
  rewrite slice_from_skipn by lia.
  destruct (index_byte_skipn _ _ _ E1) as [r Hr]. rewrite Hr.
  destruct (index_byte ("<" :: r) ">") as [en0|] eqn:E2; [|apply addr_tail_some].
  pose proof (index_byte_lt _ _ _ E2) as L2.
  assert (1 <= en0).
  { destruct en0; [|lia]. apply index_byte_nth in E2. simpl in E2. discriminate. }
  assert (Len : length ("<" :: r) = length a - st) by (rewrite <- Hr; apply skipn_length).
  destruct (slice_some a 0 (Z.of_nat st)) as [n0 Hn0]; unfold zlen; try lia.
  unfold slice_to. rewrite Hn0.
  destruct (slice_some a (Z.of_nat st + 1) (Z.of_nat en0 + Z.of_nat st)) as [em Hem]; unfold zlen; try lia.
  rewrite Hem. apply addr_tail_some.
Qed.

Lemma addr_structs_total (l : list str) : addr_structs l <> None.
Proof.
  induction l as [|e l IH]; simpl; [discriminate|].
  destruct (trim_space e) as [|c a] eqn:T; [exact IH|].
  destruct (addr_struct (c :: a)) as [s|] eqn:A; [|now apply addr_struct_total in A].
  destruct (addr_structs l); [discriminate | congruence].
Qed.

Theorem parse_fallback_total (a : str) : parse_fallback a <> None.
Proof.
  unfold parse_fallback. destruct a as [|c a]; [discriminate|].
  destruct (addr_structs (split_byte (c :: a) ",")) as [l|] eqn:E; [destruct l; discriminate|].
  now apply addr_structs_total in E.
Qed.

Lemma last_index_byte_lt (s : str) (c : ascii) (k : nat) : last_index_byte s c = Some k -> k < length s.
Proof.
  unfold last_index_byte. destruct (index_byte (rev s) c) as [j|] eqn:E; [|discriminate].
  intros H. injection H as <-. apply index_byte_lt in E. rewrite rev_length in E. lia.
Qed.

Lemma render_mail_addr_total (na : str * str) : render_mail_addr na <> None.
Proof.
  destruct na as [name addr]. unfold render_mail_addr.
  destruct (last_index_byte addr "@") as [k|] eqn:E; [|discriminate].
  apply last_index_byte_lt in E.
  destruct (slice_some addr 0 (Z.of_nat k)) as [m Hm]; unfold zlen; try lia.
  unfold slice_to. rewrite Hm.
  destruct (slice_some addr (Z.of_nat k + 1) (zlen addr)) as [h Hh]; unfold zlen; try lia.
  unfold slice_from. unfold zlen in Hh. rewrite Hh. discriminate.
Qed.

Lemma render_mail_addrs_total (l : list (str * str)) : render_mail_addrs l <> None.
Proof.
  induction l as [|a l IH]; simpl; [discriminate|].
  destruct (render_mail_addr a) eqn:E; [|now apply render_mail_addr_total in E].
  destruct (render_mail_addrs l); [discriminate | congruence].
Qed.

(** whatever net/mail answers *)
Theorem parse_address_list_total (mp : str -> option (list (str * str))) (a : str) : parse_address_list mp a <> None.
Proof.
  unfold parse_address_list. destruct a as [|c a]; [discriminate|].
  destruct (mp (c :: a)) as [[|x l]|]; try apply parse_fallback_total.
  destruct (render_mail_addrs (x :: l)) eqn:E; [discriminate | now apply render_mail_addrs_total in E].
Qed.

(** ---- extractHeader ---- *)
Lemma eh_loop_total (lines : list str) (hu : str) (inh : bool) (acc : str) :
  eh_loop lines hu inh acc <> None.
Proof.
  revert inh acc; induction lines as [|l0 rest IH]; intros inh acc; simpl; [discriminate|].
  destruct (trim_right l0 [CR]) as [|c line] eqn:T; [discriminate|].
  destruct (is_sp_tab c).
  - destruct inh; apply IH.
  - destruct (index_byte (c :: line) ":") as [ci|] eqn:I; [|apply IH].
    pose proof (index_byte_lt _ _ _ I) as L.
    destruct (slice_some (c :: line) 0 (Z.of_nat ci)) as [cur Hc]; unfold zlen; try lia.
    unfold slice_to. rewrite Hc.
    destruct (str_eqb (to_upper (trim_space cur)) hu); [|apply IH].
    destruct (slice_some (c :: line) (Z.of_nat ci + 1) (zlen (c :: line))) as [v Hv]; unfold zlen; try lia.
    unfold slice_from. unfold zlen in Hv. rewrite Hv. apply IH.
Qed.

Theorem extract_header_total (raw name : str) : extract_header raw name <> None.
Proof. apply eh_loop_total. Qed.

Lemma extract_header_some (raw name : str) : exists v, extract_header raw name = Some v.
Proof.
  destruct (extract_header raw name) eqn:E; [eauto|]. now apply extract_header_total in E.
Qed.

(** ---- BuildEnvelope ---- *)
Theorem build_envelope_total (mp : str -> option (list (str * str))) (raw : str) : build_envelope mp raw <> None.
Proof.
  unfold build_envelope.
  repeat match goal with
  | |- context [extract_header raw ?n] =>
      let v := fresh "v" in let E := fresh "E" in
      destruct (extract_header_some raw n) as [v E]; rewrite E; clear E
  end.
  repeat match goal with
  | |- context [parse_address_list mp ?x] =>
      let E := fresh "E" in
      destruct (parse_address_list mp x) eqn:E; [|now apply parse_address_list_total in E]; clear E
  end.
  discriminate.
Qed.

(** ---- the partial-range arithmetic (slicePartial) ---- *)
Theorem partial_apply_total (p : str) (st ln : Z) : partial_apply p st ln <> None.
Proof.
  unfold partial_apply.
  destruct (Z.ltb_spec st 0); simpl; [discriminate|].
  destruct (Z.ltb_spec ln 0); simpl; [discriminate|].
  destruct (Z.geb_spec st (zlen p)); simpl; [discriminate|].
  destruct (Z.gtb_spec ln (zlen p - st)); rewrite slice_none_iff; lia.
Qed.

(** what it returns: the clamped window, for in-range arguments *)
Theorem partial_apply_window (p : str) (st ln : Z) :
  (0 <= st)%Z -> (0 <= ln)%Z ->
  partial_apply p st ln = Some (firstn (Z.to_nat ln) (skipn (Z.to_nat st) p)).
Proof.
  intros H1 H2. unfold partial_apply.
  destruct (Z.ltb_spec st 0); [lia|]. destruct (Z.ltb_spec ln 0); [lia|]. simpl.
  destruct (Z.geb_spec st (zlen p)) as [G|G]; simpl.
  - rewrite skipn_all2 by (unfold zlen in G; lia). now rewrite firstn_nil.
  - unfold slice, zlen in *.
    destruct (Z.gtb_spec ln (Z.of_nat (length p) - st)) as [K|K].
    + destruct (Z.leb_spec 0 st); [|lia]. destruct (Z.leb_spec st (st + (Z.of_nat (length p) - st))); [|lia].
      destruct (Z.leb_spec (st + (Z.of_nat (length p) - st)) (Z.of_nat (length p))); [|lia]. simpl.
      f_equal. rewrite !firstn_all2; try reflexivity; rewrite skipn_length; lia.
    + destruct (Z.leb_spec 0 st); [|lia]. destruct (Z.leb_spec st (st + ln)); [|lia].
      destruct (Z.leb_spec (st + ln) (Z.of_nat (length p))); [|lia]. simpl.
      do 2 f_equal. lia.
Qed.

(** ---- parseFetchItem / parseFetchItems ---- *)
Lemma nth_some {A} (l : list A) (i : nat) : i < length l -> exists x, nth_error l i = Some x.
Proof. intros H. destruct (nth_error l i) eqn:E; [eauto|]. apply nth_error_None in E. lia. Qed.

Theorem parse_fetch_item_total (tok : str) : parse_fetch_item tok <> None.
Proof.
  unfold parse_fetch_item.
  destruct (index_byte tok "[") as [o|] eqn:I; [|discriminate].
  pose proof (index_byte_lt _ _ _ I) as L.
  destruct (slice_some tok 0 (Z.of_nat o)) as [nm Hn]; unfold zlen; try lia.
  unfold slice_to at 1. rewrite Hn.
  destruct (slice_some tok (Z.of_nat o + 1) (zlen tok)) as [rest Hr]; unfold zlen; try lia.
  unfold slice_from at 1. unfold zlen in Hr. rewrite Hr.
  destruct (index_byte rest "]") as [e|] eqn:J; [|discriminate].
  pose proof (index_byte_lt _ _ _ J) as L2.
  destruct (slice_some rest 0 (Z.of_nat e)) as [sec Hs]; unfold zlen; try lia.
  unfold slice_to. rewrite Hs.
  destruct (slice_some rest (Z.of_nat e + 1) (zlen rest)) as [rng Hg]; unfold zlen; try lia.
  unfold slice_from. unfold zlen in Hg. rewrite Hg.
  destruct (Nat.leb_spec 2 (length rng)) as [G|G]; [|discriminate].
  destruct (nth_some rng 0) as [c0 ->]; [lia|].
  destruct (nth_some rng (length rng - 1)) as [cl ->]; [lia|].
  destruct (Ascii.eqb c0 "<" && Ascii.eqb cl ">"); [|discriminate].
  destruct (slice_some rng 1 (zlen rng - 1)) as [spec Hsp]; unfold zlen in *; try lia.
  rewrite Hsp.
  destruct (sscan_d_dot_d spec) as [[a|] [b|]]; try discriminate.
  destruct ((0 <=? a)%Z && (0 <=? b)%Z); discriminate.
Qed.

Lemma flush_item_total (items : str) (st e : nat) : st <= e -> e <= length items -> flush_item items st e <> None.
Proof.
  intros H1 H2. unfold flush_item. destruct (Nat.ltb_spec st e); [|discriminate].
  destruct (slice_some items (Z.of_nat st) (Z.of_nat e)) as [tok ->]; unfold zlen; try lia.
  destruct (parse_fetch_item tok) eqn:E; [discriminate | now apply parse_fetch_item_total in E].
Qed.

Lemma pfi_loop_total (items : str) : forall (rest : str) (i st : nat) (b : bool),
  st <= i -> i + length rest = length items -> pfi_loop items rest i st b <> None.
Proof.
  induction rest as [|c r IH]; intros i st b H1 H2; simpl in *.
  - apply flush_item_total; lia.
  - destruct b; [apply IH; lia|].
    destruct (Ascii.eqb c "["); [apply IH; lia|].
    destruct (is_item_sep c); [|apply IH; lia].
    destruct (flush_item items st i) eqn:F; [|apply flush_item_total in F; [contradiction|lia|lia]].
    destruct (pfi_loop items r (S i) (S i) false) eqn:P; [discriminate|].
    apply IH in P; [contradiction|lia|lia].
Qed.

Theorem parse_fetch_items_total (items : str) : parse_fetch_items items <> None.
Proof. apply pfi_loop_total; simpl; lia. Qed.

(** ---- headerFieldNames, splitMessage, the part-number prefix, addSection ---- *)
Theorem header_field_names_total (section : str) : header_field_names section <> None.
Proof.
  unfold header_field_names.
  destruct (index_byte section "(") as [o|] eqn:I; [|discriminate].
  pose proof (index_byte_lt _ _ _ I) as L.
  destruct (slice_some section (Z.of_nat o + 1) (zlen section)) as [fs Hf]; unfold zlen; try lia.
  unfold slice_from. unfold zlen in Hf. rewrite Hf.
  destruct (index_byte fs ")") as [cp|] eqn:J; [|discriminate].
  pose proof (index_byte_lt _ _ _ J) as L2.
  destruct (slice_some fs 0 (Z.of_nat cp)) as [fs' Hs]; unfold zlen; try lia.
  unfold slice_to. rewrite Hs. destruct (fields fs'); discriminate.
Qed.

Theorem split_message_total (msg : str) : split_message msg <> None.
Proof.
  unfold split_message. destruct (index msg crlfcrlf) as [i|] eqn:I; [|discriminate].
  apply index_le in I. simpl in I.
  destruct (slice_some msg 0 (Z.of_nat i + 4)) as [h Hh]; unfold zlen; try lia.
  unfold slice_to. rewrite Hh.
  destruct (slice_some msg (Z.of_nat i + 4) (zlen msg)) as [b Hb]; unfold zlen; try lia.
  unfold slice_from. unfold zlen in Hb. rewrite Hb. discriminate.
Qed.

Theorem numeric_part_num_total (section : str) : numeric_part_num section <> None.
Proof.
  unfold numeric_part_num. destruct (index (to_upper section) (S_ ".MIME")) as [i|] eqn:I; [|discriminate].
  apply index_le in I. rewrite to_upper_length in I. simpl in I.
  destruct (slice_some section 0 (Z.of_nat i)) as [r Hr]; unfold zlen; try lia.
  unfold slice_to. rewrite Hr. discriminate.
Qed.

Theorem apply_partial_total (it : fitem) (data : str) : apply_partial it data <> None.
Proof. unfold apply_partial. destruct (f_partial it) as [[a b]|]; [apply partial_apply_total | discriminate]. Qed.

(** ---- BuildBodyStructure single-part body ---- *)
Theorem bs_single_body_total (raw : str) : bs_single_body raw <> None.
Proof.
  unfold bs_single_body, slice_from.
  destruct (index raw crlfcrlf) as [i|] eqn:I.
  - apply index_le in I. simpl in I.
    destruct (slice_some raw (Z.of_nat i + 4) (Z.of_nat (length raw))) as [r ->]; unfold zlen; try lia. discriminate.
  - destruct (index raw lflf) as [i|] eqn:J; [|discriminate].
    apply index_le in J. simpl in J.
    destruct (slice_some raw (Z.of_nat i + 2) (Z.of_nat (length raw))) as [r ->]; unfold zlen; try lia. discriminate.
Qed.

(** ---- regression facts about the OLD code, stated on Go's slicing primitive
    only (they do not mention the current model) ---- *)
Example old_address_angle_slice : slice (S_ ">a<") 3 0 = None.           (* addr[start+1:end] for ">a<" *)
Proof. reflexivity. Qed.
Example old_partial_negative_slice : slice (S_ "body") (-1) 4 = None.     (* payload[-1:4] *)
Proof. reflexivity. Qed.
Example old_header_fields_slice : slice_from (S_ "BODY[HEADER.FIELDS]") 20 = None.   (* items[start+prefixLen:] before 182d3e8 / 4d6a9a4 *)
Proof. reflexivity. Qed.
Example old_bodystructure_slice : slice_from (S_ "A: b" ++ crlf ++ S_ "C: d" ++ [LF; LF]) 14 = None.
Proof. reflexivity. Qed.
