(** C12, function layer: each modelled slicing function panics exactly on its
    finding class (so: never, outside the class). *)
From Coq Require Import String Ascii List Bool Arith NArith ZArith Lia.
From Raven Require Import Base.GoStr Model.Slicers.
Import ListNotations.
Local Open Scope char_scope.

(** ---- slice / index facts ---- *)
Lemma slice_none_iff (s : str) (i j : Z) :
  slice s i j = None <-> ~ (0 <= i /\ i <= j /\ j <= zlen s)%Z.
Proof.
  unfold slice, zlen.
  destruct (Z.leb_spec 0 i); destruct (Z.leb_spec i j);
    destruct (Z.leb_spec j (Z.of_nat (length s))); simpl; split; intros H'; try discriminate; try lia;
    try reflexivity; exfalso; apply H'; lia.
Qed.

Lemma slice_some (s : str) (i j : Z) :
  (0 <= i)%Z -> (i <= j)%Z -> (j <= zlen s)%Z -> exists r, slice s i j = Some r.
Proof.
  intros H1 H2 H3. destruct (slice s i j) eqn:E; [eauto|].
  apply slice_none_iff in E. exfalso. apply E. lia.
Qed.

Lemma index_byte_lt (s : str) (c : ascii) (i : nat) : index_byte s c = Some i -> i < length s.
Proof.
  revert i; induction s as [|d s IH]; simpl; intros i H; [discriminate|].
  destruct (Ascii.eqb d c).
  - injection H as <-. lia.
  - destruct (index_byte s c) as [k|]; simpl in H; [|discriminate].
    injection H as <-. specialize (IH k eq_refl). lia.
Qed.

Lemma index_byte_nth (s : str) (c : ascii) (i : nat) :
  index_byte s c = Some i -> nth_error s i = Some c.
Proof.
  revert i; induction s as [|d s IH]; simpl; intros i H; [discriminate|].
  destruct (Ascii.eqb_spec d c) as [->|N].
  - injection H as <-. reflexivity.
  - destruct (index_byte s c) as [k|]; simpl in H; [|discriminate].
    injection H as <-. simpl. now apply IH.
Qed.

Lemma has_prefix_len (s p : str) : has_prefix s p = true -> length p <= length s.
Proof.
  revert s; induction p as [|c p IH]; intros s H; simpl in *; [lia|].
  destruct s as [|d s]; [discriminate|]. apply andb_true_iff in H as [_ H].
  apply IH in H. simpl. lia.
Qed.

Lemma index_le (s sub : str) (i : nat) : index s sub = Some i -> i + length sub <= length s.
Proof.
  revert i; induction s as [|d s IH]; intros i H.
  - simpl in H. destruct (has_prefix [] sub) eqn:P; [|discriminate].
    injection H as <-. apply has_prefix_len in P. simpl in *. lia.
  - simpl in H. destruct (has_prefix (d :: s) sub) eqn:P.
    + injection H as <-. apply has_prefix_len in P. simpl in *. lia.
    + destruct (index s sub) as [k|]; simpl in H; [|discriminate].
      injection H as <-. specialize (IH k eq_refl). simpl. lia.
Qed.

(** ---- parseAddressList ---- *)
Lemma addr_tail_some (name email : str) :
  (let '(mailbox, host) :=
     if contains_byte email "@" then split_at_first email "@" else (email, []) in
   Some (S_ "(" ++ quote_or_nil name ++ S_ " NIL " ++ quote_or_nil mailbox ++ S_ " "
           ++ quote_or_nil host ++ S_ ")")) <> None.
Proof.
  destruct (contains_byte email "@"); [destruct (split_at_first email "@")|]; discriminate.
Qed.

Lemma index_byte_contains (a : str) (c : ascii) (i : nat) :
  index_byte a c = Some i -> contains_byte a c = true.
Proof.
  intros Hi. apply index_byte_nth in Hi. apply nth_error_In in Hi.
  unfold contains_byte. apply existsb_exists. exists c. split; [exact Hi | apply Ascii.eqb_refl].
Qed.

Lemma addr_struct_none_iff (a : str) : addr_struct a = None <-> angle_bad a = true.
Proof.
  unfold addr_struct, angle_bad.
  destruct (index_byte a "<") as [st|] eqn:E1.
  2:{ split; [intros H; exfalso; revert H | discriminate].
      destruct (contains_byte a "<" && contains_byte a ">"); apply addr_tail_some. }
  destruct (index_byte a ">") as [en|] eqn:E2.
  2:{ split; [intros H; exfalso; revert H | discriminate].
      destruct (contains_byte a "<" && contains_byte a ">"); apply addr_tail_some. }
  rewrite (index_byte_contains _ _ _ E1), (index_byte_contains _ _ _ E2). simpl.
  pose proof (index_byte_lt _ _ _ E1) as L1. pose proof (index_byte_lt _ _ _ E2) as L2.
  destruct (slice_some a 0 (Z.of_nat st)) as [n0 Hn0]; unfold zlen; try lia.
  unfold slice_to. rewrite Hn0.
  destruct (slice a (Z.of_nat st + 1) (Z.of_nat en)) as [em|] eqn:Sl.
  - split; intros H.
    + exfalso. revert H. apply addr_tail_some.
    + exfalso. apply Nat.ltb_lt in H.
      assert (N : slice a (Z.of_nat st + 1) (Z.of_nat en) = None).
      { apply slice_none_iff. lia. }
      congruence.
  - split; intros _; [|reflexivity].
    apply slice_none_iff in Sl. unfold zlen in Sl. apply Nat.ltb_lt.
    assert (st <> en).
    { intros ->. apply index_byte_nth in E1. apply index_byte_nth in E2.
      rewrite E1 in E2. discriminate. }
    lia.
Qed.

Lemma addr_structs_none_iff (l : list str) :
  addr_structs l = None <-> existsb (fun e => angle_bad (trim_space e)) l = true.
Proof.
  induction l as [|e l IH]; simpl; [split; discriminate|].
  destruct (trim_space e) as [|c a] eqn:T.
  - rewrite IH. unfold angle_bad at 2. simpl. reflexivity.
  - destruct (addr_struct (c :: a)) as [s|] eqn:A.
    + assert (B : angle_bad (c :: a) = false).
      { destruct (angle_bad (c :: a)) eqn:B; [|reflexivity].
        apply addr_struct_none_iff in B. congruence. }
      rewrite B. simpl. rewrite <- IH.
      destruct (addr_structs l); split; congruence.
    + apply addr_struct_none_iff in A. rewrite A. simpl. split; reflexivity.
Qed.

Theorem parse_address_list_none_iff (a : str) :
  parse_address_list a = None <-> classify_address_list a = Some AddressAngle.
Proof.
  unfold parse_address_list, classify_address_list.
  destruct a as [|c a].
  - simpl. split; discriminate.
  - destruct (addr_structs (split_byte (c :: a) ",")) as [l|] eqn:E.
    + assert (N : existsb (fun e => angle_bad (trim_space e)) (split_byte (c :: a) ",") = false).
      { destruct (existsb _ _) eqn:X; [|reflexivity]. apply addr_structs_none_iff in X. congruence. }
      rewrite N. split; [destruct l; discriminate | discriminate].
    + apply addr_structs_none_iff in E. rewrite E. split; reflexivity.
Qed.

Theorem parse_address_list_total (a : str) :
  classify_address_list a = None -> parse_address_list a <> None.
Proof. intros C H. apply parse_address_list_none_iff in H. congruence. Qed.

(** ---- extractHeader ---- *)
Lemma eh_loop_total (lines : list str) (hu : str) (inh : bool) (acc : str) :
  eh_loop lines hu inh acc <> None.
Proof.
  revert inh acc; induction lines as [|l0 rest IH]; intros inh acc; simpl; [discriminate|].
  destruct (trim_right l0 [CR]) as [|c line] eqn:T; [discriminate|].
  destruct (is_sp_tab c).
  - destruct inh; apply IH.
  - destruct (index_byte (c :: line) ":") as [ci|] eqn:I; [|apply IH].
    pose proof (index_byte_lt _ _ _ I) as L.
    destruct (slice_some (c :: line) 0 (Z.of_nat ci)) as [cur Hc]; unfold zlen; try lia.
    unfold slice_to. rewrite Hc.
    destruct (str_eqb (to_upper (trim_space cur)) hu); [|apply IH].
    destruct (slice_some (c :: line) (Z.of_nat ci + 1) (zlen (c :: line))) as [v Hv]; unfold zlen; try lia.
    unfold slice_from. unfold zlen in Hv. rewrite Hv. apply IH.
Qed.

Theorem extract_header_total (raw name : str) : extract_header raw name <> None.
Proof. apply eh_loop_total. Qed.

Lemma extract_header_some (raw : str) (name : string) :
  extract_header raw (S_ name) = Some (header_or_empty raw name).
Proof.
  unfold header_or_empty. destruct (extract_header raw (S_ name)) eqn:E; [reflexivity|].
  now apply extract_header_total in E.
Qed.

(** ---- BuildEnvelope ---- *)
Theorem build_envelope_total (raw : str) :
  classify_envelope raw = None -> build_envelope raw <> None.
Proof.
  unfold classify_envelope, build_envelope. intros C.
  rewrite !extract_header_some.
  destruct (existsb _ _) eqn:X in C; [discriminate|]. clear C.
  cbn [existsb] in X. repeat (apply orb_false_iff in X as [?H X]).
  repeat match goal with
  | H : match classify_address_list ?v with Some _ => true | None => false end = false |- _ =>
      let E := fresh "E" in
      destruct (classify_address_list v) eqn:E in H; [discriminate|];
      apply parse_address_list_total in E; clear H;
      destruct (parse_address_list v); [|congruence]
  end.
  discriminate.
Qed.

Theorem build_envelope_none_classified (raw : str) :
  build_envelope raw = None -> classify_envelope raw = Some AddressAngle.
Proof.
  intros H. destruct (classify_envelope raw) as [f|] eqn:C.
  - unfold classify_envelope in C. destruct (existsb _ _) in C; congruence.
  - now apply build_envelope_total in C.
Qed.

(** ---- the partial-range arithmetic ---- *)
Lemma partial_apply_none_iff (p : str) (st ln : Z) :
  partial_apply p st ln = None <-> partial_bad p st ln = true.
Proof.
  unfold partial_apply, partial_bad.
  destruct (Z.ltb_spec st (zlen p)) as [L|L]; simpl; [|split; discriminate].
  set (e := wrap64 (st + ln)).
  destruct (Z.gtb_spec e (zlen p)) as [G|G]; rewrite slice_none_iff, orb_true_iff, !Z.ltb_lt; lia.
Qed.

Theorem numeric_partial_none_iff (rest payload : str) :
  numeric_partial rest payload = None <-> classify_numeric_partial rest payload = Some PartialNegative.
Proof.
  unfold numeric_partial, classify_numeric_partial.
  destruct rest as [|c r]; [split; discriminate|].
  destruct (Ascii.eqb_spec c "<") as [->|N]; [|split; discriminate].
  destruct (index_byte ("<" :: r) ">") as [cl|] eqn:I; [|split; discriminate].
  pose proof (index_byte_lt _ _ _ I) as L.
  assert (1 <= cl).
  { destruct cl; [|lia]. apply index_byte_nth in I. simpl in I. discriminate. }
  destruct (slice_some ("<" :: r) 1 (Z.of_nat cl)) as [spec Hs]; unfold zlen; try lia.
  rewrite Hs. destruct (sscan_d_dot_d spec) as [[a|] [b|]]; try (split; discriminate).
  rewrite partial_apply_none_iff. destruct (partial_bad payload a b); split; congruence.
Qed.

Theorem text_partial_none_iff (items body : str) :
  text_partial items body = None <-> classify_text_partial items body = Some TextPartialNegative.
Proof.
  unfold text_partial, classify_text_partial.
  destruct (index_byte items "<") as [si|] eqn:I1.
  2:{ destruct (contains_byte items "<" && contains_byte items ">"); split; discriminate. }
  destruct (index_byte items ">") as [ei|] eqn:I2.
  2:{ destruct (contains_byte items "<" && contains_byte items ">"); split; discriminate. }
  rewrite (index_byte_contains _ _ _ I1), (index_byte_contains _ _ _ I2). simpl.
  destruct (Nat.ltb_spec si ei) as [L|L]; [|split; discriminate].
  pose proof (index_byte_lt _ _ _ I2) as L2.
  destruct (slice_some items (Z.of_nat si + 1) (Z.of_nat ei)) as [spec Hs]; unfold zlen; try lia.
  rewrite Hs. destruct (sscan_d_dot_d spec) as [oa ob].
  rewrite partial_apply_none_iff.
  match goal with |- context [partial_bad ?p ?a ?b] => destruct (partial_bad p a b) end; split; congruence.
Qed.

(** ---- HEADER.FIELDS ---- *)
Lemma slice_to_lt_some (s : str) (c : ascii) (i : nat) :
  index_byte s c = Some i -> exists r, slice_to s (Z.of_nat i) = Some r.
Proof. intros H. apply index_byte_lt in H. apply slice_some; unfold zlen; lia. Qed.

Lemma hf_tail_some (fs : str) :
  (match index_byte fs ")" with
   | Some cp =>
       ' fs' <- slice_to fs (Z.of_nat cp) ;;
       match fields fs' with
       | [] => Some (Some hf_defaults)
       | l => Some (Some (map (fun f => to_upper (trim_space f)) l))
       end
   | None => Some (Some hf_defaults)
   end) <> None.
Proof.
  destruct (index_byte fs ")") as [cp|] eqn:I; [|discriminate].
  destruct (slice_to_lt_some _ _ _ I) as [r ->]. destruct (fields r); discriminate.
Qed.

Theorem header_fields_none_iff (items : str) :
  header_fields items = None <-> classify_header_fields items = Some HeaderFieldsShort.
Proof.
  unfold header_fields, classify_header_fields, contains.
  set (up := to_upper items).
  destruct (index up hf_peek) as [st|] eqn:P.
  - simpl. unfold slice_from.
    destruct (slice items (Z.of_nat st + 25) (Z.of_nat (length items))) as [fs|] eqn:S.
    + assert (~ (Z.of_nat st + 25 > zlen items)%Z).
      { intros G. assert (N : slice items (Z.of_nat st + 25) (Z.of_nat (length items)) = None)
          by (apply slice_none_iff; unfold zlen in *; lia). congruence. }
      destruct (Z.gtb_spec (Z.of_nat st + 25) (zlen items)); [lia|].
      split; [intros H'; exfalso; revert H'; apply hf_tail_some | discriminate].
    + apply slice_none_iff in S. unfold zlen in *.
      destruct (Z.gtb_spec (Z.of_nat st + 25) (Z.of_nat (length items))); [split; reflexivity | lia].
  - destruct (index up hf_body) as [st|] eqn:B; simpl; [|split; discriminate].
    unfold slice_from.
    destruct (slice items (Z.of_nat st + 20) (Z.of_nat (length items))) as [fs|] eqn:S.
    + assert (~ (Z.of_nat st + 20 > zlen items)%Z).
      { intros G. assert (N : slice items (Z.of_nat st + 20) (Z.of_nat (length items)) = None)
          by (apply slice_none_iff; unfold zlen in *; lia). congruence. }
      destruct (Z.gtb_spec (Z.of_nat st + 20) (zlen items)); [lia|].
      split; [intros H'; exfalso; revert H'; apply hf_tail_some | discriminate].
    + apply slice_none_iff in S. unfold zlen in *.
      destruct (Z.gtb_spec (Z.of_nat st + 20) (Z.of_nat (length items))); [split; reflexivity | lia].
Qed.

(** ---- BuildBodyStructure single-part body ---- *)
Theorem bs_single_body_none_iff (raw : str) :
  bs_single_body raw = None <-> classify_bs_single raw = Some BodystructureLfTail.
Proof.
  unfold bs_single_body, classify_bs_single, slice_from.
  destruct (index raw crlfcrlf) as [i|] eqn:I.
  - apply index_le in I. simpl in I.
    destruct (slice_some raw (Z.of_nat i + 4) (Z.of_nat (length raw))) as [r ->]; unfold zlen; try lia.
    split; discriminate.
  - destruct (index raw lflf) as [i|] eqn:J; [|split; discriminate].
    rewrite slice_none_iff. unfold zlen.
    destruct (Z.gtb_spec (Z.of_nat i + 4) (Z.of_nat (length raw))); split; try reflexivity; try discriminate; lia.
Qed.

(** generic corollary shape: outside the class, no panic *)
Lemma total_of_iff {A} (o : option A) (c : option finding) (f : finding) :
  (o = None <-> c = Some f) -> c = None -> o <> None.
Proof. intros [H _] C E. apply H in E. congruence. Qed.
