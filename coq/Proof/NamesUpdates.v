(** C11: the sequential, UNIQUE-checked row updates of RenameMailboxPerUser
    compute the simultaneous renaming when the new names are fresh. *)
From Coq Require Import String Ascii List Bool Arith ZArith Lia.
From Raven Require Import Base.GoStr Base.GoStrFacts Base.Like Model.Pattern Model.Names Spec.Names.
Import ListNotations.

Lemma exists_box_in bs n : exists_box bs n = true <-> In n (names bs).
Proof.
  unfold exists_box, names. rewrite existsb_exists, in_map_iff. split.
  - intros (b & Hb & E). apply str_eqb_eq in E. eauto.
  - intros (b & E & Hb). exists b. split; [exact Hb|]. now apply str_eqb_eq.
Qed.

Lemma exists_box_false bs n : exists_box bs n = false <-> ~ In n (names bs).
Proof. rewrite <- exists_box_in. destruct (exists_box bs n); split; congruence. Qed.

Lemma str_eqb_neq a b : str_eqb a b = false <-> a <> b.
Proof. destruct (str_eqb_spec a b); split; congruence. Qed.

Lemma str_eqb_sym a b : str_eqb a b = str_eqb b a.
Proof. destruct (str_eqb_spec a b), (str_eqb_spec b a); congruence. Qed.

Lemma names_set_name c n bs :
  names (set_name c n bs) = map (fun m => if str_eqb m c then n else m) (names bs).
Proof.
  unfold names, set_name. rewrite !map_map. apply map_ext. intros b.
  destruct (str_eqb (mb_name b) c); reflexivity.
Qed.

Fixpoint assoc (k : str) (us : list (str * str)) : option str :=
  match us with
  | [] => None
  | (a, b) :: us' => if str_eqb k a then Some b else assoc k us'
  end.

Definition ren_by (us : list (str * str)) (b : mbox) : mbox :=
  match assoc (mb_name b) us with Some n => set_box_name b n | None => b end.

Lemma assoc_none k us : ~ In k (map fst us) -> assoc k us = None.
Proof.
  induction us as [|[a b] us IH]; simpl; [reflexivity|]. intros H.
  destruct (str_eqb_spec k a) as [->|N]; [tauto|]. apply IH. tauto.
Qed.

Lemma assoc_map_in (g : str -> str) k l :
  In k l -> assoc k (map (fun c => (c, g c)) l) = Some (g k).
Proof.
  induction l as [|a l IH]; simpl; [tauto|]. intros [->|H].
  - now rewrite str_eqb_refl.
  - destruct (str_eqb_spec k a) as [->|N]; [reflexivity|]. now apply IH.
Qed.

Lemma apply_updates_ok us : forall bs,
  (forall n, In n (map snd us) -> ~ In n (names bs)) ->
  NoDup (map snd us) ->
  (forall n, In n (map snd us) -> ~ In n (map fst us)) ->
  apply_updates us bs = Some (map (ren_by us) bs).
Proof.
  induction us as [|[c n] us IH]; intros bs Hfresh Hnd Hdisj; simpl.
  - f_equal. symmetry. rewrite <- (map_id bs) at 2. apply map_ext. reflexivity.
  - unfold upd_name.
    assert (E : exists_box bs n = false).
    { apply exists_box_false. apply Hfresh. simpl. auto. }
    rewrite E, andb_false_r.
    inversion Hnd as [|? ? Hn Hnd']; subst.
    rewrite IH; try assumption.
    + f_equal. unfold set_name. rewrite map_map. apply map_ext. intros b.
      unfold ren_by at 2. simpl.
      destruct (str_eqb (mb_name b) c) eqn:Ec.
      * unfold ren_by. simpl. rewrite assoc_none; [reflexivity|].
        intros Hin. apply (Hdisj n); simpl; auto.
      * reflexivity.
    + intros n' Hn' Hin. rewrite names_set_name in Hin. apply in_map_iff in Hin as (m & Em & Hm).
      destruct (str_eqb m c).
      * subst n'. contradiction.
      * subst m. apply (Hfresh n'); simpl; auto.
    + intros n' Hn' Hin. apply (Hdisj n'); simpl; auto.
Qed.

Lemma slice_from_ok (c : str) (k : nat) : k <= length c -> slice_from c (Z.of_nat k) = Some (skipn k c).
Proof.
  intros H. unfold slice_from, slice.
  replace ((0 <=? Z.of_nat k)%Z && (Z.of_nat k <=? Z.of_nat (length c))%Z && (Z.of_nat (length c) <=? Z.of_nat (length c))%Z) with true.
  2:{ symmetry. rewrite !andb_true_iff. repeat split; apply Z.leb_le; lia. }
  rewrite Nat2Z.id. f_equal. apply firstn_all2. rewrite skipn_length. lia.
Qed.

Lemma is_child_split p m : is_child p m = true <-> exists r, m = p ++ delim :: r.
Proof.
  unfold is_child. rewrite has_prefix_spec. split; intros [r E]; exists r; rewrite E, <- app_assoc; reflexivity.
Qed.

Lemma is_child_skipn p r : skipn (length p) (p ++ delim :: r) = delim :: r.
Proof. rewrite skipn_app, Nat.sub_diag, skipn_all2 by lia. reflexivity. Qed.

Lemma child_updates_ok old new cs :
  (forall c, In c cs -> is_child old c = true) ->
  child_updates old new cs = Some (map (fun c => (c, new ++ skipn (length old) c)) cs).
Proof.
  induction cs as [|c cs IH]; intros H; simpl; [reflexivity|].
  rewrite slice_from_ok.
  - rewrite IH; [reflexivity|]. intros; apply H; simpl; auto.
  - destruct (proj1 (is_child_split old c) (H c (or_introl eq_refl))) as [r ->].
    rewrite app_length. lia.
Qed.

Lemma NoDup_map_inj_in {A B} (f : A -> B) l :
  NoDup l -> (forall x y, In x l -> In y l -> f x = f y -> x = y) -> NoDup (map f l).
Proof.
  induction 1 as [|a l Ha Hl IH]; intros Hinj; simpl; constructor.
  - intros Hin. apply in_map_iff in Hin as (y & E & Hy).
    assert (y = a) by (apply Hinj; simpl; auto). subst. contradiction.
  - apply IH. intros; apply Hinj; simpl; auto.
Qed.

Lemma is_child_self p : is_child p p = false.
Proof.
  destruct (is_child p p) eqn:E; [|reflexivity].
  apply is_child_split in E as [r E]. apply (f_equal (@length _)) in E.
  rewrite app_length in E. simpl in E. lia.
Qed.

Lemma NoDup_filter {A} (f : A -> bool) l : NoDup l -> NoDup (filter f l).
Proof.
  induction 1; simpl; [constructor|]. destruct (f x); [constructor|]; auto.
  rewrite filter_In. tauto.
Qed.

Lemma NoDup_set_name c n bs :
  NoDup (names bs) -> ~ In n (names bs) -> NoDup (names (set_name c n bs)).
Proof.
  intros Hnd Hn. rewrite names_set_name.
  induction (names bs) as [|m l IH]; simpl; [constructor|].
  inversion Hnd; subst. simpl in Hn.
  destruct (str_eqb_spec m c) as [->|N].
  - constructor.
    + intros Hin. apply in_map_iff in Hin as (y & E & Hy).
      destruct (str_eqb_spec y c); subst; tauto.
    + apply IH; tauto.
  - constructor.
    + intros Hin. apply in_map_iff in Hin as (y & E & Hy).
      destruct (str_eqb_spec y c); subst; tauto.
    + apply IH; tauto.
Qed.

(** the transaction of RenameMailboxPerUser: the children are selected BEFORE the row is
    renamed; when no name of the table lies below [new] the updates succeed and compute the
    simultaneous renaming (also for a [new] below [old] itself: RENAME a a/b) *)
Lemma rename_tx_clean bs1 old new :
  NoDup (names bs1) ->
  ~ In new (names bs1) ->
  (forall m, In m (names bs1) -> is_child new m = false) ->
  let cs := filter (is_child old) (names bs1) in
  exists us, child_updates old new cs = Some us /\
             apply_updates us (set_name old new bs1) = Some (map (ren old new) bs1).
Proof.
  intros Hnd Hnew Hfree cs. set (bs2 := set_name old new bs1).
  set (g := fun c : str => new ++ skipn (length old) c).
  exists (map (fun c => (c, g c)) cs). split.
  { apply child_updates_ok. intros c Hc. apply filter_In in Hc. tauto. }
  assert (Hin2 : forall m, In m (names bs2) -> m = new \/ In m (names bs1)).
  { intros m Hm. unfold bs2 in Hm. rewrite names_set_name in Hm. apply in_map_iff in Hm as (y & E & Hy).
    destruct (str_eqb y old); subst; auto. }
  assert (Hfree2 : forall m, In m (names bs2) -> is_child new m = false).
  { intros m Hm. destruct (Hin2 m Hm) as [->|H]; [apply is_child_self | now apply Hfree]. }
  assert (Htarget : forall c, In c cs -> is_child new (g c) = true).
  { intros c Hc. apply filter_In in Hc as [_ Hc]. apply is_child_split in Hc as [r ->].
    unfold g. rewrite is_child_skipn. apply is_child_split. now exists r. }
  assert (Hkeys : forall k, In k (map fst (map (fun c => (c, g c)) cs)) -> In k (names bs1) /\ is_child old k = true).
  { intros k Hk. rewrite map_map in Hk. simpl in Hk. rewrite map_id in Hk. apply filter_In in Hk. exact Hk. }
  rewrite apply_updates_ok.
  - f_equal. unfold bs2, set_name. rewrite map_map. apply map_ext_in. intros b Hb.
    unfold ren. destruct (str_eqb (mb_name b) old) eqn:Eo.
    + unfold ren_by. simpl. rewrite assoc_none; [reflexivity|].
      intros Hin. apply Hkeys in Hin as [Hin _]. contradiction.
    + unfold ren_by. destruct (is_child old (mb_name b)) eqn:Ec.
      * rewrite assoc_map_in; [reflexivity|]. apply filter_In. split; [|exact Ec]. now apply in_map.
      * rewrite assoc_none; [reflexivity|]. intros Hin. apply Hkeys in Hin as [_ Hin]. congruence.
  - intros n Hn Hin. rewrite map_map in Hn. simpl in Hn. apply in_map_iff in Hn as (c & <- & Hc).
    pose proof (Htarget c Hc) as T. rewrite (Hfree2 _ Hin) in T. discriminate T.
  - rewrite map_map. simpl. apply NoDup_map_inj_in.
    + apply NoDup_filter. exact Hnd.
    + intros x y Hx Hy E. apply filter_In in Hx as [_ Hx]. apply filter_In in Hy as [_ Hy].
      apply is_child_split in Hx as [rx ->]. apply is_child_split in Hy as [ry ->].
      unfold g in E. rewrite !is_child_skipn in E. apply app_inv_head in E. congruence.
  - intros n Hn Hin. rewrite map_map in Hn. simpl in Hn.
    apply in_map_iff in Hn as (c & <- & Hc). apply Hkeys in Hin as [Hin _].
    pose proof (Htarget c Hc) as T. rewrite (Hfree _ Hin) in T. discriminate T.
Qed.

(** the renaming keeps names unique under the same conditions *)
Lemma ren_nodup bs1 old new :
  NoDup (names bs1) ->
  ~ In new (names bs1) ->
  (forall m, In m (names bs1) -> is_child new m = false) ->
  NoDup (names (map (ren old new) bs1)).
Proof.
  intros Hnd Hnew Hfree.
  set (f := fun k : str => if str_eqb k old then new else if is_child old k then new ++ skipn (length old) k else k).
  assert (E : names (map (ren old new) bs1) = map f (names bs1)).
  { unfold names. rewrite !map_map. apply map_ext. intros b. unfold ren, f.
    destruct (str_eqb (mb_name b) old); [reflexivity|]. destruct (is_child old (mb_name b)); reflexivity. }
  rewrite E. apply NoDup_map_inj_in; [exact Hnd|].
  assert (Hch : forall k, is_child old k = true -> is_child new (new ++ skipn (length old) k) = true).
  { intros k Hk. apply is_child_split in Hk as [r ->]. rewrite is_child_skipn. apply is_child_split. now exists r. }
  intros x y Hx Hy. unfold f.
  destruct (str_eqb_spec x old) as [->|Nx], (str_eqb_spec y old) as [->|Ny]; try congruence.
  - destruct (is_child old y) eqn:Cy; intros Ee.
    + exfalso. pose proof (Hch y Cy) as T. rewrite <- Ee, is_child_self in T. discriminate.
    + subst y. contradiction.
  - destruct (is_child old x) eqn:Cx; intros Ee.
    + exfalso. pose proof (Hch x Cx) as T. rewrite Ee, is_child_self in T. discriminate.
    + subst x. contradiction.
  - destruct (is_child old x) eqn:Cx, (is_child old y) eqn:Cy; intros Ee.
    + apply is_child_split in Cx as [rx ->]. apply is_child_split in Cy as [ry ->].
      rewrite !is_child_skipn in Ee. apply app_inv_head in Ee. congruence.
    + exfalso. pose proof (Hch x Cx) as T. rewrite Ee, (Hfree _ Hy) in T. discriminate.
    + exfalso. pose proof (Hch y Cy) as T. rewrite <- Ee, (Hfree _ Hx) in T. discriminate.
    + exact Ee.
Qed.

Lemma mem_str_in n l : mem_str n l = true <-> In n l.
Proof.
  unfold mem_str. rewrite existsb_exists. split.
  - intros (x & Hx & E). apply str_eqb_eq in E. now subst.
  - intros H. exists n. split; [exact H | apply str_eqb_refl].
Qed.

Lemma nodupb_true l : NoDup l -> nodupb l = true.
Proof.
  induction 1 as [|x l Hx Hl IH]; simpl; [reflexivity|]. rewrite IH, andb_true_r.
  apply negb_true_iff. destruct (mem_str x l) eqn:E; [|reflexivity]. apply mem_str_in in E. contradiction.
Qed.
