(** The command-line tokenizer: round trip for atoms and quoted strings,
    agreement with strings.Fields on lines without a double quote, and
    termination within the length of the line. *)
From Coq Require Import String Ascii List Bool Arith NArith Lia.
From Raven Require Import Base.GoStr Base.GoStrFacts Model.CmdTokenizer Spec.CmdArgs.
Import ListNotations.
Local Open Scope char_scope.

Definition nospace (w : str) : bool := forallb (fun c => negb (is_space c)) w.

Definition esc (s : str) : str :=
  flat_map (fun c => if Ascii.eqb c DQUOTE || Ascii.eqb c BSLASH then [BSLASH; c] else [c]) s.

Lemma quoted_end_esc s rest : quoted_end (esc s ++ DQUOTE :: rest) = Some (esc s ++ [DQUOTE], rest).
Proof.
  induction s as [|c s IH]; simpl.
  - reflexivity.
  - destruct (Ascii.eqb c DQUOTE) eqn:Q; simpl.
    + rewrite IH. reflexivity.
    + destruct (Ascii.eqb c BSLASH) eqn:B; simpl.
      * rewrite IH. reflexivity.
      * rewrite Q, B, IH. reflexivity.
Qed.

Lemma unescape_esc s : unescape (esc s) = s.
Proof.
  induction s as [|c s IH]; simpl; [reflexivity|].
  destruct (Ascii.eqb c DQUOTE) eqn:Q; simpl.
  - rewrite Q. simpl. now rewrite IH.
  - destruct (Ascii.eqb c BSLASH) eqn:B; simpl.
    + rewrite B, orb_true_r. now rewrite IH.
    + rewrite B. now rewrite IH.
Qed.

(** ParseQuotedString is the inverse of QuoteString, for ALL octet strings *)
Theorem parse_quote_roundtrip s : parse_quoted (quote_string s) = s.
Proof.
  unfold parse_quoted, quote_string. fold (esc s). change (Ascii.eqb DQUOTE DQUOTE) with true.
  assert (L : length (DQUOTE :: esc s ++ [DQUOTE]) = S (S (length (esc s)))) by (simpl; rewrite app_length; simpl; lia).
  rewrite L. cbn [Nat.leb andb].
  assert (Sx : has_suffix (DQUOTE :: esc s ++ [DQUOTE]) [DQUOTE] = true).
  { unfold has_suffix. change (DQUOTE :: esc s ++ [DQUOTE]) with ((DQUOTE :: esc s) ++ [DQUOTE]).
    rewrite rev_app_distr. reflexivity. }
  rewrite Sx. cbn [skipn]. replace (S (S (length (esc s))) - 2) with (length (esc s)) by lia.
  rewrite firstn_app, firstn_all, Nat.sub_diag. simpl. rewrite app_nil_r. apply unescape_esc.
Qed.

Lemma atom_c_inv c : atom_c c = true -> is_space c = false /\ Ascii.eqb c DQUOTE = false.
Proof. unfold atom_c. rewrite !andb_true_iff, !negb_true_iff. tauto. Qed.

Theorem parse_atom s : atom_ok s = true -> parse_quoted s = s.
Proof.
  unfold atom_ok, parse_quoted. destruct s as [|c s]; [reflexivity|]. rewrite andb_true_iff. intros [H _].
  simpl in H. apply andb_true_iff in H as [Hc _]. apply atom_c_inv in Hc as [_ Q]. now rewrite Q.
Qed.

Theorem parse_render f s : arg_ok (f, s) = true -> parse_quoted (render_arg f s) = s.
Proof. destruct f; simpl; intros H; [now apply parse_atom|apply parse_quote_roundtrip]. Qed.

(** ---- one field ---- *)
Definition boundary (rest : str) : Prop := rest = [] \/ exists c r, rest = c :: r /\ is_space c = true.

Lemma span_word w rest : nospace w = true -> boundary rest -> span_nonspace (w ++ rest) = (w, rest).
Proof.
  intros N B. induction w as [|c w IH]; simpl.
  - destruct B as [->|(c & r & -> & S)]; [reflexivity|]. simpl. now rewrite S.
  - simpl in N. apply andb_true_iff in N as [Nc Nw]. apply negb_true_iff in Nc. rewrite Nc, (IH Nw). reflexivity.
Qed.

Lemma atom_nospace s : forallb atom_c s = true -> nospace s = true.
Proof.
  unfold nospace. induction s as [|c s IH]; [reflexivity|]. simpl. rewrite !andb_true_iff. intros [Hc Hs].
  apply atom_c_inv in Hc as [S _]. now rewrite S, IH.
Qed.

(** one iteration of the loop on a rendered argument followed by a boundary *)
Lemma split_one f s rest fuel : arg_ok (f, s) = true -> boundary rest ->
  split_quoted (S fuel) (render_arg f s ++ rest) = render_arg f s :: split_quoted fuel rest.
Proof.
  intros A B. destruct f; cbn [arg_ok fst snd] in A; cbn [render_arg].
  - unfold atom_ok in A. apply andb_true_iff in A as [Ha Ne]. destruct s as [|c s]; [discriminate|].
    pose proof (atom_nospace _ Ha) as N. simpl in Ha. apply andb_true_iff in Ha as [Hc _].
    apply atom_c_inv in Hc as [Sc Qc].
    change ((c :: s) ++ rest) with (c :: (s ++ rest)). cbn [split_quoted drop_while]. rewrite Sc, Qc.
    change (c :: s ++ rest) with ((c :: s) ++ rest). rewrite (span_word _ _ N B). reflexivity.
  - unfold quote_string. fold (esc s). change ((DQUOTE :: esc s ++ [DQUOTE]) ++ rest) with (DQUOTE :: ((esc s ++ [DQUOTE]) ++ rest)).
    cbn [split_quoted drop_while]. change (is_space DQUOTE) with false. cbv iota. rewrite Ascii.eqb_refl.
    rewrite <- app_assoc. cbn [app]. rewrite quoted_end_esc.
    assert (E : span_nonspace rest = ([], rest)) by (apply (span_word [] rest eq_refl B)).
    rewrite E. now rewrite app_nil_r.
Qed.

Lemma split_nil fuel : split_quoted fuel [] = [].
Proof. destruct fuel; reflexivity. Qed.

Lemma split_skip_space fuel c r : is_space c = true -> split_quoted (S fuel) (c :: r) = split_quoted (S fuel) r.
Proof. intros S. cbn [split_quoted drop_while]. now rewrite S. Qed.

Lemma split_line args : forall fuel, length args < fuel -> forallb arg_ok args = true ->
  split_quoted fuel (render_line args) = map (fun a => render_arg (fst a) (snd a)) args.
Proof.
  induction args as [|[f s] l IH]; intros fuel L A.
  - simpl. apply split_nil.
  - simpl in A. apply andb_true_iff in A as [A1 A2]. destruct fuel as [|fuel]; [simpl in L; lia|].
    destruct l as [|b l'].
    + cbn [render_line fst snd map]. rewrite <- (app_nil_r (render_arg f s)) at 1.
      rewrite (split_one _ _ [] fuel A1 (or_introl eq_refl)), split_nil. reflexivity.
    + change (render_line ((f, s) :: b :: l')) with (render_arg f s ++ " " :: render_line (b :: l')).
      rewrite (split_one _ _ _ fuel A1); [|right; eexists; eexists; split; [reflexivity|reflexivity]].
      destruct fuel as [|fuel']; [simpl in L; lia|].
      rewrite (split_skip_space fuel' " " _ eq_refl), IH; [reflexivity|simpl in *; lia|exact A2].
Qed.

(** ---- agreement with Fields ---- *)
Theorem split_no_quote line : contains_byte line DQUOTE = false -> split_command_line line = fields line.
Proof. intros H. unfold split_command_line. now rewrite H. Qed.

(** fields of atoms separated by single blanks *)
Lemma fields_aux_word w rest cur : nospace w = true ->
  fields_aux (w ++ rest) cur = fields_aux rest (rev w ++ cur).
Proof.
  revert cur; induction w as [|c w IH]; intros cur H; [reflexivity|].
  simpl in H. apply andb_true_iff in H as [Hc Hw]. apply negb_true_iff in Hc.
  simpl. rewrite Hc, (IH _ Hw). now rewrite <- app_assoc.
Qed.

Lemma rev_nonempty (s : str) : s <> [] -> rev s <> [].
Proof. destruct s; [congruence|]. intros _ E. apply (f_equal (@length ascii)) in E. rewrite rev_length in E. discriminate. Qed.

Lemma fields_aux_end cur : cur <> [] -> fields_aux [] cur = [rev cur].
Proof. destruct cur; [congruence|reflexivity]. Qed.

Lemma fields_aux_space cur rest : cur <> [] -> fields_aux (" " :: rest) cur = rev cur :: fields_aux rest [].
Proof. destruct cur; [congruence|reflexivity]. Qed.

Lemma fields_atoms args : forallb arg_ok args = true -> forallb (fun a => match fst a with AtomForm => true | QuotedForm => false end) args = true ->
  fields (render_line args) = map (fun a => render_arg (fst a) (snd a)) args.
Proof.
  unfold fields. induction args as [|[f s] l IH]; intros A T; [reflexivity|].
  simpl in A, T. apply andb_true_iff in A as [A1 A2]. apply andb_true_iff in T as [T1 T2].
  destruct f; [|discriminate]. cbn [fst snd arg_ok] in A1. unfold atom_ok in A1. apply andb_true_iff in A1 as [Ha Ne].
  pose proof (atom_nospace _ Ha) as N.
  assert (Es : s <> []) by (destruct s; [discriminate|discriminate]).
  pose proof (rev_nonempty _ Es) as Er.
  destruct l as [|b l'].
  - cbn [render_line fst snd render_arg map]. rewrite <- (app_nil_r s) at 1.
    rewrite (fields_aux_word _ _ _ N), app_nil_r, (fields_aux_end _ Er), rev_involutive. reflexivity.
  - change (render_line ((AtomForm, s) :: b :: l')) with (s ++ " " :: render_line (b :: l')).
    rewrite (fields_aux_word _ _ _ N), app_nil_r, (fields_aux_space _ _ Er), rev_involutive.
    cbn [map fst snd render_arg]. f_equal. apply IH; assumption.
Qed.

(** ---- (a) the round trip ---- *)
Lemma render_nonempty f s : arg_ok (f, s) = true -> 1 <= length (render_arg f s).
Proof.
  destruct f; cbn [arg_ok fst snd render_arg]; intros A.
  - unfold atom_ok in A. apply andb_true_iff in A as [_ N]. destruct s; [discriminate|simpl; lia].
  - simpl. lia.
Qed.

Lemma render_line_length args : forallb arg_ok args = true -> length args <= length (render_line args).
Proof.
  induction args as [|[f s] l IH]; intros A; [simpl; lia|].
  simpl in A. apply andb_true_iff in A as [A1 A2]. pose proof (render_nonempty _ _ A1) as L1.
  destruct l as [|b l']; [cbn [render_line fst snd length]; lia|].
  change (render_line ((f, s) :: b :: l')) with (render_arg f s ++ " " :: render_line (b :: l')).
  rewrite app_length. cbn [length]. specialize (IH A2). cbn [length] in IH. lia.
Qed.

Lemma contains_app_l a b c : contains_byte a c = true -> contains_byte (a ++ b) c = true.
Proof. unfold contains_byte. rewrite existsb_app. intros ->. reflexivity. Qed.

Lemma contains_app_r a b c : contains_byte b c = true -> contains_byte (a ++ b) c = true.
Proof. unfold contains_byte. rewrite existsb_app. intros ->. apply orb_true_r. Qed.

Lemma no_quote_all_atoms args : contains_byte (render_line args) DQUOTE = false ->
  forallb (fun a => match fst a with AtomForm => true | QuotedForm => false end) args = true.
Proof.
  induction args as [|[f s] l IH]; intros H; [reflexivity|].
  assert (Hq : forall x, contains_byte (quote_string x) DQUOTE = true) by (intros x; unfold quote_string, contains_byte; simpl; reflexivity).
  destruct l as [|b l'].
  - cbn [render_line fst snd] in H. destruct f; [reflexivity|]. cbn [render_arg] in H. rewrite Hq in H. discriminate.
  - change (render_line ((f, s) :: b :: l')) with (render_arg f s ++ " " :: render_line (b :: l')) in H.
    cbn [forallb fst]. destruct f.
    + cbn [andb]. apply IH. destruct (contains_byte (render_line (b :: l')) DQUOTE) eqn:E; [|reflexivity].
      rewrite (contains_app_r _ (" " :: render_line (b :: l'))) in H; [discriminate|].
      unfold contains_byte in *. simpl. exact E.
    + rewrite (contains_app_l _ _ _ (Hq s)) in H. discriminate.
Qed.

(** For EVERY list of arguments, each written as an atom (non-empty, no white
    space, quote or backslash) or as a quoted string of ARBITRARY octets, and
    separated by single blanks: the fields are exactly the written arguments *)
Theorem split_roundtrip args : forallb arg_ok args = true ->
  split_command_line (render_line args) = map (fun a => render_arg (fst a) (snd a)) args.
Proof.
  intros A. unfold split_command_line. destruct (contains_byte (render_line args) DQUOTE) eqn:Q.
  - apply split_line; [|exact A]. pose proof (render_line_length _ A). lia.
  - apply fields_atoms; [exact A|now apply no_quote_all_atoms].
Qed.

(** ---- (c) the loop ends within the length of the line ---- *)
Lemma drop_while_len f (s : str) : length (drop_while f s) <= length s.
Proof. induction s as [|c s IH]; simpl; [lia|]. destruct (f c); simpl; lia. Qed.

Lemma quoted_end_len s q r : quoted_end s = Some (q, r) -> length r < length s.
Proof.
  remember (length s) as n eqn:En. revert s En q r. induction n as [n IH] using lt_wf_ind. intros s En q r.
  destruct s as [|c s1]; [discriminate|]. simpl. destruct (Ascii.eqb c DQUOTE).
  - intros H; injection H as _ <-. subst n. simpl. lia.
  - destruct (Ascii.eqb c BSLASH).
    + destruct s1 as [|e s2]; [discriminate|]. destruct (quoted_end s2) as [[q' r']|] eqn:E; [|discriminate].
      intros H; injection H as _ <-. pose proof (IH (length s2) ltac:(subst n; simpl; lia) s2 eq_refl _ _ E). subst n. simpl. lia.
    + destruct (quoted_end s1) as [[q' r']|] eqn:E; [|discriminate].
      intros H; injection H as _ <-. pose proof (IH (length s1) ltac:(subst n; simpl; lia) s1 eq_refl _ _ E). subst n. simpl. lia.
Qed.

Lemma span_len s : length (snd (span_nonspace s)) <= length s.
Proof. induction s as [|c s IH]; simpl; [lia|]. destruct (is_space c); simpl; [lia|]. destruct (span_nonspace s); simpl in *; lia. Qed.

Lemma span_progress c s : is_space c = false -> length (snd (span_nonspace (c :: s))) < length (c :: s).
Proof. intros H. simpl. rewrite H. pose proof (span_len s). destruct (span_nonspace s); simpl in *; lia. Qed.

Lemma drop_while_head (s : str) c r : drop_while is_space s = c :: r -> is_space c = false.
Proof.
  induction s as [|d s IH]; simpl; [discriminate|]. destruct (is_space d) eqn:E; [exact IH|].
  intros H; injection H as <- _. exact E.
Qed.

(** more fuel than the line is long never changes the result: every iteration
    consumes at least one octet *)
Theorem split_fuel_enough : forall f1 f2 s, length s < f1 -> length s < f2 ->
  split_quoted f1 s = split_quoted f2 s.
Proof.
  induction f1 as [|f1 IH]; intros f2 s L1 L2; [lia|]. destruct f2 as [|f2]; [lia|].
  cbn [split_quoted]. pose proof (drop_while_len is_space s) as Ld.
  destruct (drop_while is_space s) as [|c r] eqn:D; [reflexivity|].
  pose proof (drop_while_head _ _ _ D) as Sc.
  assert (K : forall q rest0, length (snd (span_nonspace rest0)) < length (c :: r) ->
              (let '(w, rest) := span_nonspace rest0 in (q ++ w) :: split_quoted f1 rest)
              = (let '(w, rest) := span_nonspace rest0 in (q ++ w) :: split_quoted f2 rest)).
  { intros q rest0 H. destruct (span_nonspace rest0) as [w rest]. simpl in H. f_equal. apply IH; simpl in *; lia. }
  destruct (Ascii.eqb c DQUOTE).
  - destruct (quoted_end r) as [[q rest]|] eqn:E.
    + apply K. pose proof (quoted_end_len _ _ _ E). pose proof (span_len rest). simpl. lia.
    + apply K. now apply span_progress.
  - apply K. now apply span_progress.
Qed.

Corollary split_command_line_total line : forall extra,
  split_quoted (S (length line) + extra) line = split_quoted (S (length line)) line.
Proof. intros extra. apply split_fuel_enough; lia. Qed.
