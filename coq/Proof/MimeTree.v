(** C02 — the flattening of parseMultipart (pre-order rows with parent
    indices), the relative part numbers given by the store and the rebuild
    by parent id + part number recover the tree: [build (rows of t) = tmap t]
    for every well-formed tree.  Part 1: facts about [seg] and [rowsP_aux]. *)
From Coq Require Import String Ascii List Bool Arith NArith ZArith Lia.
From Raven Require Import Base.GoStr Base.GoStrMime Spec.Mime Model.MimeHeaders Model.MimeStore
  Proof.MimeBlob Proof.MimeRows.
Import ListNotations.

(** ---- induction over trees *)
Lemma mime_ind2 (P : mime -> Prop) :
  (forall l, P (Leaf l)) -> (forall st ks, Forall P ks -> P (Multi st ks)) -> forall t, P t.
Proof.
  intros HL HM. fix IH 1. intros [l|st ks]; [apply HL|]. apply HM.
  induction ks as [|k r IHr]; constructor; [apply IH | exact IHr].
Qed.

(** every leaf is readable (quoted-printable decodes), every container has a part *)
Fixpoint wf_tree (t : mime) : bool :=
  match t with
  | Leaf l => match parse_leaf None l with Some _ => true | None => false end
  | Multi _ ks => nonempty_l ks && forallb wf_tree ks
  end.

(** fuel the rebuild needs *)
Fixpoint need (t : mime) : nat :=
  match t with
  | Leaf _ => 0
  | Multi _ ks => S (fold_right (fun k a => need k + a) 0 ks)
  end.

(** what a leaf looks like after store + rebuild *)
Definition leaf_image (l : leaf) : leaf :=
  match parse_leaf None l with
  | Some p => emit_leaf [] (mk_row 0 None p None)
  | None => l
  end.

Fixpoint tmap (t : mime) : mime :=
  match t with
  | Leaf l => Leaf (leaf_image l)
  | Multi st ks => Multi (to_lower st) (map tmap ks)
  end.

(** ---- seg *)
Lemma seg_multi p k st ks : seg p k (Multi st ks) = container_part p st :: segs k (S k) ks.
Proof.
  simpl. f_equal. generalize (S k). induction ks as [|t r IH]; intros a; simpl; [reflexivity|].
  now rewrite IH.
Qed.

Lemma segs_cons par a t r :
  segs par a (t :: r) = seg (Some par) a t ++ segs par (a + length (seg (Some par) a t)) r.
Proof. reflexivity. Qed.

Lemma parse_leaf_parent p l :
  parse_leaf p l = match parse_leaf None l with
                   | Some x => Some (mk_pp p (pp_type x) (pp_disp x) (pp_cte x) (pp_charset x) (pp_filename x) (pp_cid x) (pp_text x))
                   | None => None
                   end.
Proof. unfold parse_leaf. destruct (if equal_fold (l_cte l) s_qp then qp_decode (l_body l) else Some (l_body l)); reflexivity. Qed.

(** the first row of a well-formed node is the node itself, with the given parent *)
Lemma seg_head t : forall p k, wf_tree t = true -> exists x tl, seg p k t = x :: tl /\ pp_parent x = p.
Proof.
  destruct t as [l|st ks]; intros p k W.
  - simpl in *. rewrite parse_leaf_parent. destruct (parse_leaf None l); [|discriminate]. eexists _, _. split; reflexivity.
  - rewrite seg_multi. eexists _, _. split; reflexivity.
Qed.

Definition par_ge (k : nat) (x : ppart) : Prop := exists j, pp_parent x = Some j /\ k <= j.

(** all rows below a node point at or behind the node *)
Lemma seg_tl_ge : forall t p k, Forall (par_ge k) (tl (seg p k t)).
Proof.
  induction t as [l|st ks IH] using mime_ind2; intros p k.
  - simpl. destruct (parse_leaf p l); constructor.
  - rewrite seg_multi. cbn [tl].
    assert (G : forall a, k < a -> Forall (par_ge k) (segs k a ks)).
    { induction IH as [|t r Ht _ IHr]; intros a Ha; [constructor|].
      rewrite segs_cons. apply Forall_app. split.
      - specialize (Ht (Some k) a).
        destruct (seg (Some k) a t) as [|x tl0] eqn:E; [constructor|].
        constructor.
        + assert (HP : pp_parent x = Some k).
          { destruct t as [l|st' ks'].
            - simpl in E. rewrite parse_leaf_parent in E. destruct (parse_leaf None l); [|discriminate].
              injection E as <- _. reflexivity.
            - rewrite seg_multi in E. injection E as <- _. reflexivity. }
          exists k. split; [exact HP | lia].
        + cbn [tl] in Ht. eapply Forall_impl; [|exact Ht]. intros y (j & Hj & Hle). exists j. split; [exact Hj | lia].
      - apply IHr. lia. }
    apply G. lia.
Qed.

(** parents lie before their children ([a] = index of the first element) *)
Fixpoint pok (a : nat) (l : list ppart) : Prop :=
  match l with
  | [] => True
  | x :: r => match pp_parent x with Some j => j < a | None => True end /\ pok (S a) r
  end.

Lemma pok_app : forall l1 l2 a, pok a (l1 ++ l2) <-> pok a l1 /\ pok (a + length l1) l2.
Proof.
  induction l1 as [|x l1 IH]; intros l2 a; simpl.
  - rewrite Nat.add_0_r. tauto.
  - rewrite IH. replace (S a + length l1) with (a + S (length l1)) by lia. tauto.
Qed.

Definition plt (p : option nat) (k : nat) : Prop := match p with Some j => j < k | None => True end.

Lemma seg_pok : forall t p k, plt p k -> pok k (seg p k t).
Proof.
  induction t as [l|st ks IH] using mime_ind2; intros p k Hp.
  - simpl. rewrite parse_leaf_parent. destruct (parse_leaf None l); simpl; [|exact I]. split; [exact Hp | exact I].
  - rewrite seg_multi. simpl. split; [exact Hp|].
    assert (G : forall a, k < a -> pok a (segs k a ks)).
    { induction IH as [|t r Ht _ IHr]; intros a Ha; [exact I|].
      rewrite segs_cons. apply pok_app. split; [apply Ht; simpl; lia | apply IHr; lia]. }
    apply G. lia.
Qed.

Lemma need_le_len : forall t p k, wf_tree t = true -> need t <= length (seg p k t).
Proof.
  induction t as [l|st ks IH] using mime_ind2; intros p k W.
  - simpl. lia.
  - rewrite seg_multi. simpl need. simpl length. apply le_n_S.
    simpl in W. apply andb_true_iff in W as [_ W].
    assert (G : forall a, fold_right (fun k0 a0 => need k0 + a0) 0 ks <= length (segs k a ks)).
    { induction IH as [|t r Ht _ IHr]; intros a; [simpl; lia|].
      simpl in W. apply andb_true_iff in W as [W1 W2].
      rewrite segs_cons, app_length. simpl fold_right.
      specialize (Ht (Some k) a W1). specialize (IHr W2 (a + length (seg (Some k) a t))). lia. }
    apply G.
Qed.

(** ---- rowsP_aux *)
Lemma rowsP_aux_app : forall a d b, rowsP_aux d (a ++ b) = rowsP_aux d a ++ rowsP_aux (d ++ a) b.
Proof.
  induction a as [|x a IH]; intros d b; simpl.
  - now rewrite app_nil_r.
  - rewrite IH. now rewrite <- app_assoc.
Qed.

Lemma rowsP_aux_length : forall l d, length (rowsP_aux d l) = length l.
Proof. induction l as [|x l IH]; intros d; simpl; [reflexivity | now rewrite IH]. Qed.

Definition ixf {A} (a : nat) (l : list A) : list (nat * A) := combine (seq a (length l)) l.

Lemma ixf_cons {A} a (x : A) l : ixf a (x :: l) = (a, x) :: ixf (S a) l.
Proof. reflexivity. Qed.

Lemma ixf_app {A} : forall (l1 l2 : list A) a, ixf a (l1 ++ l2) = ixf a l1 ++ ixf (a + length l1) l2.
Proof.
  induction l1 as [|x l1 IH]; intros l2 a.
  - simpl. now rewrite Nat.add_0_r.
  - simpl app. rewrite !ixf_cons, IH. do 3 f_equal. simpl. lia.
Qed.

Lemma indexed_ixf {A} (l : list A) : indexed l = ixf 0 l.
Proof. reflexivity. Qed.

Lemma ixf_In {A} : forall (l : list A) a j y, In (j, y) (ixf a l) -> In y l.
Proof. intros l a j y H. unfold ixf in H. now apply in_combine_r in H. Qed.

Definition isk (k : option nat) (jr : nat * row) : bool := opt_nat_eqb (r_parent (snd jr)) k.

Lemma opt_nat_eqb_eq a b : opt_nat_eqb a b = true <-> a = b.
Proof.
  destruct a as [x|], b as [y|]; simpl; try (split; congruence).
  rewrite Nat.eqb_eq. split; congruence.
Qed.

Lemma parent_db_some d x k : parent_db d x = Some k -> pp_parent x = Some k.
Proof.
  unfold parent_db. destruct (pp_parent x) as [j|]; [|discriminate].
  destruct (j <? length d); [congruence | discriminate].
Qed.

(** rows that do not point at [k] contribute no child of [k] *)
Lemma filter_none_k k : forall l d a,
  Forall (fun x => pp_parent x <> Some k) l -> filter (isk (Some k)) (ixf a (rowsP_aux d l)) = [].
Proof.
  induction l as [|x l IH]; intros d a H; [reflexivity|].
  inversion H as [|? ? Hx Hl]; subst. cbn [rowsP_aux]. rewrite ixf_cons. cbn [filter].
  unfold isk at 1. cbn [snd r_parent].
  destruct (opt_nat_eqb (parent_db d x) (Some k)) eqn:E.
  - apply opt_nat_eqb_eq, parent_db_some in E. contradiction.
  - apply IH. exact Hl.
Qed.

(** rows that point at an earlier row are no roots *)
Lemma filter_none_root : forall l d a,
  a = length d -> pok a l -> Forall (fun x => pp_parent x <> None) l ->
  filter (isk None) (ixf a (rowsP_aux d l)) = [].
Proof.
  induction l as [|x l IH]; intros d a Ha Hp H; [reflexivity|].
  inversion H as [|? ? Hx Hl]; subst. cbn [rowsP_aux]. rewrite ixf_cons. cbn [filter].
  unfold isk at 1. cbn [snd r_parent]. destruct Hp as [Hp1 Hp2].
  unfold parent_db. destruct (pp_parent x) as [j|] eqn:E; [|contradiction].
  apply Nat.ltb_lt in Hp1. rewrite Hp1. cbn [opt_nat_eqb].
  apply IH; [rewrite app_length; simpl; lia | exact Hp2 | exact Hl].
Qed.

(** ---- part numbers are ascending among the rows with the same parent *)
Fixpoint ssorted_pn (l : list (nat * row)) : Prop :=
  match l with
  | [] => True
  | x :: r => Forall (fun y => r_pn (snd x) < r_pn (snd y)) r /\ ssorted_pn r
  end.

Lemma sort_sorted : forall l, ssorted_pn l -> sort_pn l = l.
Proof.
  induction l as [|x l IH]; intros H; [reflexivity|].
  destruct H as [H1 H2]. unfold sort_pn in *. simpl. rewrite (IH H2).
  destruct l as [|y l']; [reflexivity|]. simpl.
  inversion H1 as [|? ? Hy _]; subst.
  destruct (r_pn (snd y) <=? r_pn (snd x)) eqn:E; [apply Nat.leb_le in E; lia | reflexivity].
Qed.

Lemma filter_len_app {A} (f : A -> bool) l1 l2 : length (filter f l1) <= length (filter f (l1 ++ l2)).
Proof. rewrite filter_app, app_length. lia. Qed.

Lemma pn_ge : forall l D y, In y (rowsP_aux D l) ->
  S (length (filter (same_parent (r_part y)) D)) <= r_pn y /\ r_blob y = None
  /\ (forall k, r_parent y = Some k -> pp_parent (r_part y) = Some k).
Proof.
  induction l as [|x l IH]; intros D y H; [contradiction|].
  cbn [rowsP_aux] in H. destruct H as [<- | H].
  - cbn. split; [lia|]. split; [reflexivity|]. intros k. apply parent_db_some.
  - apply IH in H as (H1 & H2 & H3). split; [|split; assumption].
    pose proof (filter_len_app (same_parent (r_part y)) D [x]). lia.
Qed.

Lemma filter_sorted k : forall l d a, ssorted_pn (filter (isk (Some k)) (ixf a (rowsP_aux d l))).
Proof.
  induction l as [|x l IH]; intros d a; [exact I|].
  cbn [rowsP_aux]. rewrite ixf_cons. cbn [filter].
  unfold isk at 1. cbn [snd r_parent].
  destruct (opt_nat_eqb (parent_db d x) (Some k)) eqn:E; [|apply IH].
  split; [|apply IH].
  apply opt_nat_eqb_eq, parent_db_some in E.
  apply Forall_forall. intros [j y] Hy. apply filter_In in Hy as [Hy Q].
  apply ixf_In in Hy. apply pn_ge in Hy as (G1 & _ & G3).
  unfold isk in Q. cbn [snd] in Q. apply opt_nat_eqb_eq in Q. apply G3 in Q.
  cbn [snd r_pn].
  assert (S1 : same_parent (r_part y) x = true) by (unfold same_parent; rewrite E, Q; simpl; apply Nat.eqb_refl).
  rewrite filter_app in G1. cbn [filter] in G1. rewrite S1 in G1. rewrite app_length in G1. cbn [length] in G1.
  assert (S2 : filter (same_parent (r_part y)) d = filter (same_parent x) d).
  { apply filter_ext. intros q. unfold same_parent. now rewrite E, Q. }
  rewrite S2 in G1. lia.
Qed.
