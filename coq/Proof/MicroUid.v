(** C07 (d), partial — the UID rules (C03's invariant [Inv]) in the crash
    states INSIDE a delivery / APPEND / EXPUNGE: after the message rows, after
    "UPDATE uid_next" alone (the gap), after the link, and after any subset
    of an EXPUNGE's per-row DELETEs. *)
From Coq Require Import String Ascii List Bool ZArith Arith Lia.
From Raven Require Import Base.GoStr Model.Store Model.Ops Model.Micro Spec.UidSpec Proof.StoreInv
  Proof.OpsInv Proof.MicroRefine Proof.MicroBase.
Import ListNotations.
Local Open Scope Z_scope.

Lemma in_bump_inv s mb m' : In m' (mboxes (bump s mb)) -> exists m, In m (mboxes s) /\ m' = bump_row mb m.
Proof. unfold bump. cbn. intros H. apply in_map_iff in H. destruct H as (m & E & H). eauto. Qed.

(** "UPDATE mailboxes SET uid_next = uid_next + 1" alone keeps the invariant:
    a crash right after it only skips a UID *)
Lemma Inv_bump s mb : Inv s -> Inv (bump s mb).
Proof.
  intros [I1 I2 I3 I4 I5 I6 I7 I8 I9].
  assert (En : map mb_name (mboxes (bump s mb)) = map mb_name (mboxes s)).
  { unfold bump. cbn. rewrite map_map. apply map_ext. intros; apply bump_row_name. }
  assert (Ei : map mb_id (mboxes (bump s mb)) = map mb_id (mboxes s)).
  { unfold bump. cbn. rewrite map_map. apply map_ext. intros; apply bump_row_id. }
  constructor.
  - now rewrite En.
  - now rewrite Ei.
  - exact I3.
  - intros l Hl. destruct (I4 l Hl) as (m & Hm & E). exists (bump_row mb m). split.
    + unfold bump. cbn. now apply in_map.
    + now rewrite bump_row_id.
  - intros m' l Hm' Hl E. apply in_bump_inv in Hm'. destruct Hm' as (m & Hm & ->).
    rewrite bump_row_name, bump_row_validity. rewrite bump_row_id in E. now apply I5.
  - exact I6.
  - intros m' Hm'. apply in_bump_inv in Hm'. destruct Hm' as (m & Hm & ->).
    rewrite bump_row_name, bump_row_validity. now apply I7.
  - exact I8.
  - intros m' e Hm' He En' Ev. apply in_bump_inv in Hm'. destruct Hm' as (m & Hm & ->).
    rewrite bump_row_name in En'. rewrite bump_row_validity in Ev.
    pose proof (I9 m e Hm He En' Ev). rewrite bump_row_next. destruct (mb_id m =? mb); lia.
Qed.

(** the three store states a crash can leave inside AddMessageToMailbox, and
    the state after the message rows, all satisfy the UID rules *)
Lemma add_message_crash_states s msg mb fl m :
  Inv s -> find_id s mb = Some m ->
  Inv (fst (store_message s)) /\ Inv (bump s mb) /\ Inv (fst (add_message s msg mb fl)).
Proof.
  intros I F. split; [|split].
  - eapply Inv_core_eq; [apply store_message_core|exact I].
  - now apply Inv_bump.
  - destruct (add_message_good s msg mb fl m I F) as (s2 & E & G & _). rewrite E. apply G.
Qed.

(** any subset of the per-row DELETEs of an EXPUNGE / CLOSE *)
Lemma expunge_crash_states d ids k :
  Inv (d_st d) -> Inv (d_st (run_steps d (firstn k (map MDelLink ids)))).
Proof.
  intros I. rewrite firstn_map, dellink_fold. cbn [d_st with_st]. now apply Good_delete_links.
Qed.
