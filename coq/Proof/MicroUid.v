(** C07 (d), partial — the UID rules (C03's invariant [Inv]) in the crash
    states INSIDE a delivery / APPEND / EXPUNGE: after the message rows, after
    "UPDATE uid_next" alone (the gap), after the link, and after any subset
    of an EXPUNGE's per-row DELETEs. *)
From Coq Require Import String Ascii List Bool ZArith Arith Lia.
From Raven Require Import Base.GoStr Model.Store Model.Ops Model.Micro Spec.UidSpec Proof.StoreInv
  Proof.OpsInv Proof.MicroRefine Proof.MicroBase.
Import ListNotations.
Local Open Scope Z_scope.

Lemma in_bump_inv s mb m' : In m' (mboxes (bump s mb)) -> exists m, In m (mboxes s) /\ m' = bump_row mb m.
Proof. unfold bump. cbn. intros H. apply in_map_iff in H. destruct H as (m & E & H). eauto. Qed.

(** "UPDATE mailboxes SET uid_next = uid_next + 1" alone keeps the invariant:
    a crash right after it only skips a UID *)
Lemma Inv_bump s mb : Inv s -> Inv (bump s mb).
Proof.
  intros [I1 I2 I3 I4 I5 I6 I7 I8 I9 I10].
  assert (En : map mb_name (mboxes (bump s mb)) = map mb_name (mboxes s)).
  { unfold bump. cbn. rewrite map_map. apply map_ext. intros; apply bump_row_name. }
  assert (Ei : map mb_id (mboxes (bump s mb)) = map mb_id (mboxes s)).
  { unfold bump. cbn. rewrite map_map. apply map_ext. intros; apply bump_row_id. }
  constructor.
  - now rewrite En.
  - now rewrite Ei.
  - exact I3.
  - intros l Hl. destruct (I4 l Hl) as (m & Hm & E). exists (bump_row mb m). split.
    + unfold bump. cbn. now apply in_map.
    + now rewrite bump_row_id.
  - intros m' l Hm' Hl E. apply in_bump_inv in Hm'. destruct Hm' as (m & Hm & ->).
    rewrite bump_row_name, bump_row_validity. rewrite bump_row_id in E. now apply I5.
  - exact I6.
  - intros m' Hm'. apply in_bump_inv in Hm'. destruct Hm' as (m & Hm & ->).
    rewrite bump_row_name, bump_row_validity. now apply I7.
  - exact I8.
  - intros m' e Hm' He En' Ev. apply in_bump_inv in Hm'. destruct Hm' as (m & Hm & ->).
    rewrite bump_row_name in En'. rewrite bump_row_validity in Ev.
    pose proof (I9 m e Hm He En' Ev). rewrite bump_row_next. destruct (mb_id m =? mb); lia.
  - exact I10.
Qed.

(** the three store states a crash can leave inside AddMessageToMailbox, and
    the state after the message rows, all satisfy the UID rules *)
Lemma add_message_crash_states s msg mb fl m :
  Inv s -> find_id s mb = Some m -> msg < next_msg s ->
  Inv (fst (store_message s)) /\ Inv (bump s mb) /\ Inv (fst (add_message s msg mb fl)).
Proof.
  intros I F Hm. split; [|split].
  - eapply Inv_core_eq; [apply store_message_core|exact I].
  - now apply Inv_bump.
  - destruct (add_message_good s msg mb fl m I F Hm) as (s2 & E & G & _). rewrite E. apply G.
Qed.

(** ---- the UIDVALIDITY allocator gap (raven da328ca) ------------------------------------ *)

Lemma fold_max_nonneg l : 0 <= fold_right Z.max 0 l.
Proof. induction l; simpl; lia. Qed.

Lemma fold_max_app l x : fold_right Z.max 0 (l ++ [x]) = Z.max (fold_right Z.max 0 l) (Z.max x 0).
Proof. induction l as [|y l IH]; simpl; [lia|]. rewrite IH. lia. Qed.

(** A crash between the allocator statement and the INSERT of
    CreateMailboxPerUser: no mailbox, no link, no log entry changed; only the
    high-water mark of the stamps moved up to the stamp that was handed out —
    so the next mailbox created gets a strictly larger UIDVALIDITY (a skipped
    stamp, like the skipped UID of the uid_next gap) — and the UID rules hold. *)
Lemma validity_gap_state d n t :
  ready d = true ->
  let c := run_steps d (firstn 1 (create_steps (d_st d) n t)) in
  mboxes (d_st c) = mboxes (d_st d) /\ links (d_st c) = links (d_st d) /\ glog (d_st c) = glog (d_st d) /\
  d_msgs c = d_msgs d /\ d_subs c = d_subs d /\
  vhigh (d_st c) = next_validity (d_st d) t /\
  (forall t', next_validity (d_st d) t < next_validity (d_st c) t') /\
  (Inv (d_st d) -> Inv (d_st c)).
Proof.
  intros Hr. destruct (ready_schema2 d Hr) as (F & S2 & _).
  unfold create_steps, run_steps. cbn [firstn fold_left exec]. rewrite F, S2. cbn [andb d_st with_st d_msgs d_subs].
  assert (V : vhigh (alloc_validity (d_st d) n t) = next_validity (d_st d) t).
  { unfold vhigh, alloc_validity. cbn [gused]. rewrite map_app. cbn [map snd]. rewrite fold_max_app.
    unfold next_validity, vhigh. pose proof (fold_max_nonneg (map snd (gused (d_st d)))). lia. }
  do 5 (split; [reflexivity|]). split; [exact V|]. split.
  - intros t'. unfold next_validity at 2. rewrite V. lia.
  - intros [I1 I2 I3 I4 I5 I6 I7 I8 I9 I10]. constructor; cbn [alloc_validity mboxes links glog gused next_msg]; auto.
    + intros e He. apply in_or_app. left. now apply I6.
    + intros m Hm. apply in_or_app. left. now apply I7.
Qed.

(** any subset of the per-row DELETEs of an EXPUNGE / CLOSE *)
Lemma expunge_crash_states d ids k :
  Inv (d_st d) -> Inv (d_st (run_steps d (firstn k (map MDelLink ids)))).
Proof.
  intros I. rewrite firstn_map, dellink_fold. cbn [d_st with_st]. now apply Good_delete_links.
Qed.
