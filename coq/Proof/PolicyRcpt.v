(** C17 — RCPT phase: handleRCPT against the documented RCPT-time policies. *)
From Coq Require Import String Ascii List Bool Arith ZArith Lia.
From Raven Require Import Base.GoStr Model.Policy Spec.Policy.
Import ListNotations.
Local Open Scope Z_scope.

Definition none_b {A} (v : option A) : bool := match v with None => true | Some _ => false end.

Definition dom_test (cfg : config) (a : str) : bool :=
  match allowed_domains cfg with [] => false | _ => negb (domain_listed cfg a) end.

Definition spec_rcpt_rest (cfg : config) (d : db) (a : str) : option reason :=
  if dom_test cfg a then Some WhyDomain
  else if (reject_unknown_user cfg && negb (known d a)) then Some WhyUnknown else None.

Lemma spec_rcpt_unfold cfg d n a :
  spec_rcpt cfg d n a = if (max_recipients cfg <=? n) then Some WhyLimit else spec_rcpt_rest cfg d a.
Proof. reflexivity. Qed.

Lemma user_is_names n dom u : user_is n dom u = true -> u_name u = n /\ u_domain u = dom.
Proof. unfold user_is. rewrite andb_true_iff, !str_eqb_eq. tauto. Qed.

(** one address that passed the recipient-count test *)
Lemma rcpt_addr_agree cfg d rec a :
  rcpt_ok (fst (handle_rcpt_addr cfg d rec a)) = none_b (spec_rcpt_rest cfg d a) /\
  snd (handle_rcpt_addr cfg d rec a) = if none_b (spec_rcpt_rest cfg d a) then rec ++ [a] else rec.
Proof.
  unfold handle_rcpt_addr, spec_rcpt_rest, dom_test, domain_listed, known,
         check_recipient_exists, extract_domain, extract_local_part, role_mailbox_exists.
  change (get_role_mailbox_by_email d a) with (is_role d a).
  destruct (extract_parts a) as [[n dom]|]; cbn [option_map fst snd].
  - change (get_user_by_username d n dom) with (user_enabled d n dom).
    destruct (allowed_domains cfg) as [|a0 al] eqn:EA.
    + destruct (reject_unknown_user cfg); cbn [andb none_b fst snd]; [|split; reflexivity].
      destruct (is_role d a), (user_enabled d n dom); cbn; split; reflexivity.
    + set (L := existsb (str_eqb dom) (a0 :: al)). destruct L; cbn [negb]; [|split; reflexivity].
      destruct (reject_unknown_user cfg); cbn [andb none_b fst snd]; [|split; reflexivity].
      destruct (is_role d a), (user_enabled d n dom); cbn; split; reflexivity.
  - destruct (allowed_domains cfg) as [|a0 al] eqn:EA; cbn [negb].
    + destruct (reject_unknown_user cfg); split; reflexivity.
    + split; reflexivity.
Qed.

Lemma rcpt_phase cfg d : forall addrs rec,
  map rcpt_ok (fst (handle_rcpts_addr cfg d rec addrs))
    = map none_b (spec_rcpts cfg d (Z.of_nat (length rec)) addrs) /\
  snd (handle_rcpts_addr cfg d rec addrs)
    = rec ++ accepted_of addrs (spec_rcpts cfg d (Z.of_nat (length rec)) addrs).
Proof.
  induction addrs as [|a rest IH]; intros rec.
  - cbn. now rewrite app_nil_r.
  - cbn [handle_rcpts_addr spec_rcpts].
    rewrite spec_rcpt_unfold.
    destruct (max_recipients cfg <=? Z.of_nat (length rec)) eqn:EL.
    + destruct (handle_rcpts_addr cfg d rec rest) as [rs fin] eqn:ER.
      specialize (IH rec). rewrite ER in IH. destruct IH as [IH1 IH2].
      cbn [fst snd map none_b accepted_of rcpt_ok] in *. split; [now f_equal | exact IH2].
    + destruct (rcpt_addr_agree cfg d rec a) as [A1 A2].
      destruct (handle_rcpt_addr cfg d rec a) as [r rec'] eqn:EH. cbn [fst snd] in A1, A2.
      destruct (handle_rcpts_addr cfg d rec' rest) as [rs fin] eqn:ER.
      specialize (IH rec'). rewrite ER in IH. destruct IH as [IH1 IH2].
      cbn [fst snd] in *.
      destruct (spec_rcpt_rest cfg d a) as [w|] eqn:ES; cbn [none_b] in *; subst rec'.
      * cbn [map none_b accepted_of]. split; [now rewrite A1, IH1 | exact IH2].
      * cbn [map none_b accepted_of]. rewrite app_length, Nat2Z.inj_add in IH1, IH2.
        split; [now rewrite A1, IH1 | rewrite IH2, <- app_assoc; reflexivity].
Qed.
