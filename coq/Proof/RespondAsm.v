(** C13 — the assembly of processFetchForMessage (every literal inside the
    part of its item, F14 fix) yields a well-formed FETCH response that pairs
    every item with its own value, for EVERY list of contributions; and the
    LIST/LSUB/STATUS lines are well-formed for every mailbox name (F15 fix:
    names go through utils.QuoteString). *)
From Coq Require Import String Ascii List Bool Arith NArith Lia.
From Raven Require Import Base.GoStr Base.GoStrFacts Spec.Grammar Model.Respond
     Proof.Grammar Proof.RespondTok.
Import ListNotations.

(** ---- generic facts ---- *)

Lemma join_snoc (l : list str) x sep : l <> [] -> join (l ++ [x]) sep = join l sep ++ sep ++ x.
Proof.
  induction l as [|a l IH]; intros H; [congruence|].
  destruct l as [|b l]; [reflexivity|].
  change (join ((a :: b :: l) ++ [x]) sep) with (a ++ sep ++ join ((b :: l) ++ [x]) sep).
  rewrite IH by discriminate.
  change (join (a :: b :: l) sep) with (a ++ sep ++ join (b :: l) sep).
  now rewrite <- !app_assoc.
Qed.

Lemma join_app2 (a b : list str) sep : a <> [] -> b <> [] ->
  join (a ++ b) sep = join a sep ++ sep ++ join b sep.
Proof.
  induction a as [|x a IH]; intros Ha Hb; [congruence|].
  destruct a as [|y a].
  - destruct b as [|z b]; [congruence|]. reflexivity.
  - change (join ((x :: y :: a) ++ b) sep) with (x ++ sep ++ join ((y :: a) ++ b) sep).
    rewrite IH by (discriminate || assumption).
    change (join (x :: y :: a) sep) with (x ++ sep ++ join (y :: a) sep).
    now rewrite <- !app_assoc.
Qed.

Lemma join_length_ge (ts : list str) sep : Forall (fun t => t <> []) ts -> length ts <= length (join ts sep).
Proof.
  induction ts as [|t ts IH]; intros H; [cbn; lia|].
  inversion H as [|? ? Ht Hts]; subst. destruct ts as [|u ts].
  - cbn. destruct t; [congruence|cbn; lia].
  - change (join (t :: u :: ts) sep) with (t ++ sep ++ join (u :: ts) sep).
    rewrite !app_length. specialize (IH Hts). destruct t; [congruence|]. cbn [length] in *. lia.
Qed.

Lemma span_digits_app ds : forall acc c r, forallb is_digit ds = true -> is_digit c = false ->
  span_digits (ds ++ c :: r) acc = (rev acc ++ ds, c :: r).
Proof.
  induction ds as [|d ds IH]; intros acc c r H Hc.
  - cbn [app span_digits]. rewrite Hc. now rewrite app_nil_r.
  - cbn [forallb] in H. apply andb_true_iff in H as [Hd Hds].
    cbn [app span_digits]. rewrite Hd. rewrite IH by assumption. cbn [rev].
    now rewrite <- app_assoc.
Qed.

Lemma inl_chain a : forall s b, inl s (a ++ b) = match inl s a with Some s1 => inl s1 b | None => None end.
Proof.
  induction a as [|c a IH]; intros s b; [reflexivity|].
  cbn [app inl]. destruct (badish (step s c)); [reflexivity|]. apply IH.
Qed.

Lemma inl_plain p d : forallb plain_byte p = true -> inl (Norm, d) p = Some (Norm, d).
Proof. intros H. apply (nosplit_inl _ _ 0 true _ 0). now apply nosplit_plain. Qed.

(** a balanced line that does not start with CR, followed by CRLF, is a
    complete response *)
Lemma wf_line c l : Ascii.eqb c CR = false -> bal (c :: l) -> wf_stream (send (c :: l)) = true.
Proof.
  intros Hc H. unfold wf_stream, send. rewrite run_app.
  assert (E : run (Start, 0) (c :: l) = (Norm, 0)).
  { apply inl_run in H. cbn [run fold_left] in *. cbn [step] in *. now rewrite Hc. }
  rewrite E. reflexivity.
Qed.

(** ---- the assembly ---- *)

Definition toks_of (plan : list out) : list str := flat_pairs (map pair_of plan).

Lemma part_text_pair o : part_text o = fst (pair_of o) ++ [SP] ++ snd (pair_of o).
Proof. destruct o; reflexivity. Qed.

Lemma join_parts plan : join (map part_text plan) [SP] = join (toks_of plan) [SP].
Proof.
  unfold toks_of. induction plan as [|o plan IH]; [reflexivity|].
  destruct plan as [|o2 plan].
  - cbn [map flat_pairs join]. rewrite part_text_pair. destruct (pair_of o). reflexivity.
  - change (join (map part_text (o :: o2 :: plan)) [SP])
      with (part_text o ++ [SP] ++ join (map part_text (o2 :: plan)) [SP]).
    rewrite IH, part_text_pair. cbn [map flat_pairs].
    destruct (pair_of o) as [n v]. destruct (pair_of o2) as [n2 v2]. cbn [fst snd flat_pairs join].
    now rewrite <- !app_assoc.
Qed.

Lemma fetch_line_body seq plan : plan <> [] ->
  fetch_line seq plan = S_ "* " ++ dec seq ++ S_ " FETCH (" ++ join (toks_of plan) [SP] ++ [RP].
Proof.
  intros Hne. unfold fetch_line. destruct plan as [|o plan]; [congruence|].
  now rewrite join_parts.
Qed.

(** each contribution is made of single tokens, the name being an item name *)
Definition out_okb (o : out) : bool :=
  match o with
  | Inline n v => tokb n && item_name_ok n && tokb v
  | Lit n _ => tokb n && item_name_ok n
  end.

Lemma toks_tokp plan : forallb out_okb plan = true -> Forall tokp (toks_of plan).
Proof.
  unfold toks_of. induction plan as [|o plan IH]; intros H; [constructor|].
  cbn [forallb] in H. apply andb_true_iff in H as [Ho Hp]. specialize (IH Hp).
  destruct o as [n v|n p]; cbn [out_okb] in Ho; cbn [map pair_of flat_pairs].
  - apply andb_true_iff in Ho as [Ho Hv]. apply andb_true_iff in Ho as [Hn _].
    constructor; [now apply tokb_tokp|]. constructor; [now apply tokb_tokp|exact IH].
  - apply andb_true_iff in Ho as [Hn _].
    constructor; [now apply tokb_tokp|]. constructor; [apply tokp_lit_text|exact IH].
Qed.

Lemma names_ok plan : forallb out_okb plan = true ->
  forallb (fun p => item_name_ok (fst p)) (map pair_of plan) = true.
Proof.
  induction plan as [|o plan IH]; intros H; [reflexivity|].
  cbn [forallb] in H. apply andb_true_iff in H as [Ho Hp]. cbn [map forallb]. rewrite (IH Hp), andb_true_r.
  destruct o; cbn [out_okb pair_of fst] in *; repeat (apply andb_true_iff in Ho as [Ho ?]); assumption.
Qed.

Lemma toks_nonempty plan : plan <> [] -> toks_of plan <> [].
Proof. destruct plan as [|o plan]; [congruence|]. unfold toks_of. cbn. destruct (pair_of o). discriminate. Qed.

Theorem fetch_assembly_ok seq plan :
  plan <> [] -> forallb out_okb plan = true ->
  wf_stream (send (fetch_line seq plan)) = true
  /\ fetch_pairs (send (fetch_line seq plan)) = Some (dec seq, map pair_of plan).
Proof.
  intros Hne Hok.
  pose proof (toks_tokp plan Hok) as Htok.
  rewrite (fetch_line_body seq plan Hne).
  assert (Hbal : bal (join (toks_of plan) [SP])).
  { apply bal_join. eapply Forall_impl; [|exact Htok]. intros t. apply tokp_bal. }
  split.
  - change (S_ "* ") with ("*"%char :: [SP]). cbn [app]. apply wf_line; [reflexivity|].
    unfold bal. change ("*"%char :: SP :: ?x) with (("*"%char :: [SP]) ++ x).
    rewrite inl_chain. change (inl (Norm, 0) ["*"%char; SP]) with (Some (Norm, 0)). cbn iota.
    rewrite inl_chain, (inl_plain _ 0 (dec_plain seq)).
    rewrite inl_chain. change (inl (Norm, 0) (S_ " FETCH (")) with (Some (Norm, 1)). cbn iota.
    rewrite inl_chain, (bal_at _ 1 Hbal). reflexivity.
  - unfold fetch_pairs, send.
    change (has_prefix ((S_ "* " ++ ?x) ++ crlf) (S_ "* ")) with true. cbn iota.
    change (skipn 2 ((S_ "* " ++ ?x) ++ crlf)) with (x ++ crlf).
    rewrite <- !app_assoc.
    change (S_ " FETCH (" ++ ?x) with (SP :: (S_ "FETCH (" ++ x)).
    rewrite span_digits_app by (apply dec_digits || reflexivity). cbn [rev app].
    pose proof (dec_nonempty seq) as Hd. destruct (dec seq) as [|d0 ds] eqn:Ed; [congruence|].
    change (SP :: (S_ "FETCH (" ++ ?x)) with (S_ " FETCH (" ++ x).
    rewrite has_prefix_app.
    change (skipn 8 (S_ " FETCH (" ++ ?x)) with x.
    rewrite tokens_join.
    + rewrite str_eqb_refl. unfold toks_of. rewrite pair_up_flat, (names_ok plan Hok). reflexivity.
    + exact Htok.
    + now apply toks_nonempty.
    + right. eexists. reflexivity.
    + rewrite app_length. pose proof (join_length_ge (toks_of plan) [SP]) as Hl.
      assert (Forall (fun t : str => t <> []) (toks_of plan)).
      { eapply Forall_impl; [|exact Htok]. intros t [Ht _]. exact Ht. }
      specialize (Hl H). lia.
Qed.

(** nothing recognised: raven answers FLAGS () *)
Lemma fetch_line_default seq : fetch_line seq [] = fetch_line seq [Inline (S_ "FLAGS") (S_ "()")].
Proof. reflexivity. Qed.

(** ---- LIST / LSUB / STATUS ---- *)

Lemma tokp_quote_string s : clean s = true -> tokp (quote_string s).
Proof.
  intros H. unfold quote_string. split; [discriminate|].
  cbn [nosplit]. change (boundary (Norm, 0) 0 && false && is_sep DQ) with false. cbn iota.
  change (step (Norm, 0) DQ) with (Quo, 0). cbn [badish fst].
  change (br_step (Norm, 0) 0 DQ) with 0.
  apply nn_nosplit, nn_quoted, H.
Qed.

Lemma unquote_quote_string s : unquote (quote_string s) = Some s.
Proof.
  unfold quote_string, unquote. change (Ascii.eqb DQ DQ) with true. cbn iota.
  rewrite rev_app_distr. cbn [rev app]. change (Ascii.eqb DQ DQ) with true. cbn iota.
  now rewrite rev_involutive, unescape_escape.
Qed.

(** attribute / flag lists: no parenthesis, quote, brace, CR, LF *)
Lemma inl_flags f : forall d, forallb flag_byte f = true -> inl (Norm, d) f = Some (Norm, d).
Proof.
  induction f as [|c f IH]; intros d H; [reflexivity|].
  cbn [forallb] in H. apply andb_true_iff in H as [Hc Hf].
  unfold flag_byte in Hc. repeat (apply andb_true_iff in Hc as [Hc ?]).
  repeat match goal with H : negb _ = true |- _ => apply negb_true_iff in H end.
  cbn [inl step]. unfold step_norm.
  repeat match goal with H : Ascii.eqb c _ = false |- _ => rewrite H; clear H end.
  cbn [badish fst]. now apply IH.
Qed.

Theorem list_line_wf kw attrs name :
  forallb plain_byte kw = true -> forallb flag_byte attrs = true -> clean name = true ->
  wf_stream (send (list_line kw attrs name)) = true.
Proof.
  intros Hk Ha Hn. unfold list_line.
  change (S_ "* ") with ("*"%char :: [SP]). cbn [app]. apply wf_line; [reflexivity|].
  unfold bal. change ("*"%char :: SP :: ?x) with (("*"%char :: [SP]) ++ x).
  rewrite inl_chain. change (inl (Norm, 0) ["*"%char; SP]) with (Some (Norm, 0)). cbn iota.
  rewrite inl_chain, (inl_plain _ 0 Hk).
  rewrite inl_chain. change (inl (Norm, 0) (S_ " (")) with (Some (Norm, 1)). cbn iota.
  rewrite inl_chain, (inl_flags _ 1 Ha).
  rewrite inl_chain. change (inl (Norm, 1) (S_ ") ""/"" ")) with (Some (Norm, 0)). cbn iota.
  exact (tokp_bal _ (tokp_quote_string _ Hn)).
Qed.

Lemma bal_status_items items : Forall (fun kv => forallb plain_byte (fst kv) = true) items ->
  bal (join (map (fun kv : str * nat => fst kv ++ [SP] ++ dec (snd kv)) items) [SP]).
Proof.
  intros H. apply bal_join. apply Forall_map. eapply Forall_impl; [|exact H].
  intros [k v] Hk. cbn [fst snd] in *. unfold bal.
  rewrite inl_chain, (inl_plain _ 0 Hk). rewrite inl_chain. change (inl (Norm, 0) [SP]) with (Some (Norm, 0)).
  cbn iota. apply inl_plain, dec_plain.
Qed.

Theorem status_line_wf name items :
  clean name = true -> Forall (fun kv => forallb plain_byte (fst kv) = true) items ->
  wf_stream (send (status_line name items)) = true.
Proof.
  intros Hn Hi. unfold status_line.
  change (S_ "* STATUS ") with ("*"%char :: S_ " STATUS "). cbn [app]. apply wf_line; [reflexivity|].
  unfold bal. change ("*"%char :: S_ " STATUS " ++ ?x) with (S_ "* STATUS " ++ x).
  rewrite inl_chain. change (inl (Norm, 0) (S_ "* STATUS ")) with (Some (Norm, 0)). cbn iota.
  rewrite inl_chain, (tokp_bal _ (tokp_quote_string _ Hn)).
  rewrite inl_chain. change (inl (Norm, 0) (S_ " (")) with (Some (Norm, 1)). cbn iota.
  rewrite inl_chain.
  match goal with |- context [inl (Norm, 1) ?x] =>
    replace (inl (Norm, 1) x) with (Some (Norm, 1))
      by (symmetry; exact (bal_at _ 1 (bal_status_items _ Hi))) end.
  reflexivity.
Qed.
