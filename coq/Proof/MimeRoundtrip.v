(** C02 — the property for all well-formed messages: store + fetch returns an
    equivalent message, independent of the blob history and of later stores. *)
From Coq Require Import String Ascii List Bool Arith NArith ZArith Lia.
From Raven Require Import Base.GoStr Base.GoStrMime Spec.Mime Model.MimeHeaders Model.MimeStore Model.MimeBoundary
  Spec.MimeCheck Proof.MimeBlob Proof.MimeTrim Proof.MimeRows Proof.MimeTree Proof.MimeTree2 Proof.MimeMulti
  Proof.MimeSingle Proof.MimeLeaf.
Import ListNotations.

(** well-formed message of the grammar, as far as the tree-level model needs it:
    at least one header field (for a multipart message: one that is not
    MIME-Version / Content-Type / Content-Transfer-Encoding), every container has a
    part, transfer encodings decode, encoding names carry no surrounding blanks,
    file names are not blank *)
Definition wf_msg (m : msg) : bool :=
  match m_body m with
  | Single _ => nonempty_l (m_hdrs m)
  | Multipart st ks => wf_kids ks && forallb wf_leaves ks && nonempty_l (kept_hdrs (m_hdrs m) st)
  end.

Section All.
Variable hash : str -> str.

Theorem roundtrip_all : forall (faults : list bool) (bs later : blobs) (m : msg),
  wf_msg m = true -> spec_ok m (roundtrip hash faults bs m later) = true.
Proof.
  intros faults bs later [hs [b|st ks]] W; unfold wf_msg in W; cbn [m_body m_hdrs] in W.
  - apply single_roundtrip. destruct hs; [discriminate | discriminate].
  - apply andb_true_iff in W as [W W3]. apply andb_true_iff in W as [W1 W2].
    rewrite (multi_result hash faults bs later hs st ks W1) by (destruct (kept_hdrs hs st); [discriminate | discriminate]).
    unfold spec_ok, msg_equiv. cbn [m_body]. rewrite equal_fold_self_lower. cbn [andb].
    now apply kids_equiv_tmap.
Qed.

Theorem independent_all : forall (f1 f2 : list bool) (bs1 bs2 later1 later2 : blobs) (m : msg),
  wf_msg m = true -> roundtrip hash f1 bs1 m later1 = roundtrip hash f2 bs2 m later2.
Proof.
  intros f1 f2 bs1 bs2 l1 l2 [hs [b|st ks]] W; unfold wf_msg in W; cbn [m_body m_hdrs] in W.
  - apply single_independent. destruct hs; [discriminate | discriminate].
  - apply andb_true_iff in W as [W W3]. apply andb_true_iff in W as [W1 W2].
    assert (K : kept_hdrs hs st <> []) by (destruct (kept_hdrs hs st); [discriminate | discriminate]).
    now rewrite (multi_result hash f1 bs1 l1 hs st ks W1 K), (multi_result hash f2 bs2 l2 hs st ks W1 K).
Qed.

End All.

(** the header fields of a multipart message other than the three MIME fields come back in order *)
Lemma is_mime_hdr_trim n : is_mime_hdr (trim_space n) = is_mime_hdr n.
Proof. unfold is_mime_hdr. now rewrite trim_space_idem. Qed.

Lemma kept_hdrs_eq hs st :
  kept_hdrs hs st = map hdr_store (filter (fun h => negb (is_mime_hdr (fst h))) hs).
Proof.
  unfold kept_hdrs. induction hs as [|h t IH].
  - cbn [app map filter]. rewrite fst_hdr_store, is_mime_hdr_trim. reflexivity.
  - cbn [app map filter]. rewrite fst_hdr_store, is_mime_hdr_trim.
    destruct (negb (is_mime_hdr (fst h))); cbn [map]; now rewrite IH.
Qed.

Theorem multipart_headers_kept hs st :
  Forall2 (fun h h' => hdr_eqv h h' = true)
          (filter (fun h => negb (is_mime_hdr (fst h))) hs) (map out_hdr (kept_hdrs hs st)).
Proof. rewrite kept_hdrs_eq. apply hdrs_kept. Qed.
