(** C02 — facts about the blob table. *)
From Coq Require Import String Ascii List Bool Arith NArith ZArith Lia.
From Raven Require Import Base.GoStr Base.GoStrMime Spec.Mime Model.MimeHeaders Model.MimeStore.
Import ListNotations.

Lemma get_blob_app (bs later : blobs) (id : nat) :
  id < length bs -> get_blob (bs ++ later) id = get_blob bs id.
Proof.
  intros H. unfold get_blob. now rewrite nth_error_app1.
Qed.
