(** C07 — crash points: refinement of whole workloads, decomposition of a crash
    state into "acknowledged operations + a prefix of the operation in flight",
    recovery of usable states, permanence of torn stores, clean restart. *)
From Coq Require Import String Ascii List Bool ZArith Arith Lia.
From Raven Require Import Base.GoStr Model.Store Model.Ops Model.Micro Spec.UidSpec Spec.Crash
  Proof.StoreInv Proof.MicroRefine Proof.MicroBase Proof.MicroWF.
Import ListNotations.
Local Open Scope Z_scope.

(** ---- every operation is refined by its micro-steps ---------------------------- *)

Definition op_plain (o : cop) : bool := match o with CBase o' => rename_plain o' | _ => true end.

Lemma refines d o : WF d -> op_plain o = true -> run_steps d (micro d o) = fst (big d o).
Proof.
  intros W P. destruct o as [t1 t2 t3 t4 t5|f t sh t1 t2 t3 t4 t5|f fl sh|o|n|n].
  - apply open_refines.
  - apply deliver_refines. apply wf_below. now apply opened_WF.
  - destruct (ready d) eqn:Hr.
    + apply append_refines; auto. now apply wf_below.
    + cbn [micro big]. rewrite Hr. reflexivity.
  - cbn [micro big]. destruct (ready d) eqn:Hr; [|reflexivity].
    destruct (base_ok o) eqn:Hb; cbn [andb].
    + rewrite base_refines; auto; [|now apply wf_ids]. destruct (step (d_st d) o); reflexivity.
    + destruct o; try discriminate; reflexivity.
  - cbn [micro big]. destruct (ready d); reflexivity.
  - cbn [micro big]. destruct (ready d); reflexivity.
Qed.

Definition big_all (d : dstore) (h : list cop) : dstore := fold_left (fun d' o => fst (big d' o)) h d.

Lemma run_all_WF h : forall d, WF d -> WF (run_all d h).
Proof.
  induction h as [|o r IH]; intros d W; [exact W|].
  cbn [run_all fold_left]. apply IH. apply run_WF; auto. now apply micro_guards.
Qed.

Lemma run_all_big h : forall d, WF d -> forallb op_plain h = true -> run_all d h = big_all d h.
Proof.
  induction h as [|o r IH]; intros d W P; [reflexivity|].
  cbn [forallb] in P. apply andb_true_iff in P. destruct P as [P1 P2].
  unfold run_all, big_all in *. cbn [fold_left]. rewrite refines by auto.
  apply IH; auto. rewrite <- refines by auto. apply run_WF; auto. now apply micro_guards.
Qed.

Lemma all_steps_run h : forall d, run_steps d (all_steps d h) = run_all d h.
Proof.
  induction h as [|o r IH]; intros d; [reflexivity|].
  cbn [all_steps]. rewrite run_steps_app, IH. reflexivity.
Qed.

(** a crash after the last micro-step = the clean end of the workload *)
Lemma crash_full d h : crash_at d h (length (all_steps d h)) = run_all d h.
Proof. unfold crash_at. rewrite firstn_all. apply all_steps_run. Qed.

(** ---- decomposition ---------------------------------------------------------------- *)

(** Every crash state is: all operations of a prefix [h1] of the workload
    executed completely, plus a proper prefix of the micro-steps of the next
    operation [o] — or the whole workload.  An operation is acknowledged only
    after its last micro-step, so the acknowledged operations are among [h1]. *)
Lemma crash_decomposition h : forall d k,
  crash_at d h k = run_all d h \/
  exists h1 o h2 j, h = h1 ++ o :: h2 /\ (j < length (micro (run_all d h1) o))%nat /\
    crash_at d h k = run_steps (run_all d h1) (firstn j (micro (run_all d h1) o)).
Proof.
  induction h as [|o r IH]; intros d k.
  - left. unfold crash_at. destruct k; reflexivity.
  - destruct (Nat.ltb k (length (micro d o))) eqn:Hk.
    + right. apply Nat.ltb_lt in Hk. exists [], o, r, k. repeat split; auto.
      unfold crash_at. cbn [all_steps run_all fold_left].
      rewrite firstn_app. replace (k - length (micro d o))%nat with 0%nat by lia.
      cbn [firstn]. now rewrite app_nil_r.
    + apply Nat.ltb_ge in Hk.
      assert (E : crash_at d (o :: r) k
                  = crash_at (run_steps d (micro d o)) r (k - length (micro d o))).
      { unfold crash_at. cbn [all_steps]. rewrite firstn_app, run_steps_app.
        rewrite firstn_all2 by lia. reflexivity. }
      rewrite E. destruct (IH (run_steps d (micro d o)) (k - length (micro d o))%nat)
        as [H|(h1 & o' & h2 & j & Eh & Hj & Ec)].
      * left. exact H.
      * right. exists (o :: h1), o', h2, j. subst r. repeat split; auto.
Qed.

(** ---- recovery of usable states -------------------------------------------------- *)

Lemma usable_reopens c t1 t2 t3 t4 t5 :
  usable c = true ->
  snd (big c (COpen t1 t2 t3 t4 t5)) = ROk /\
  ready (fst (big c (COpen t1 t2 t3 t4 t5))) = true /\
  has_inbox (fst (big c (COpen t1 t2 t3 t4 t5))) = true /\
  d_file (fst (big c (COpen t1 t2 t3 t4 t5))) = true.
Proof.
  intros U. cbn [big fst snd]. unfold opened. unfold usable in U.
  destruct (d_file c) eqn:F; cbn [negb orb] in U.
  - apply andb_true_iff in U. destruct U. repeat split; auto.
  - repeat split; reflexivity.
Qed.

Lemma inv_add_ok s m : Inv s -> In m (mboxes s) -> add_ok s (mb_id m) = true.
Proof.
  intros I Hm. unfold add_ok. rewrite (find_id_in s m I Hm).
  apply negb_true_iff. apply existsb_at_uid_false. intros l Hl El Eu.
  pose proof (Inv_uid_below s m l I Hm Hl El). lia.
Qed.

(** a delivery into an existing mailbox of a ready store whose uid_next is
    not stale is accepted, adds exactly one link, and everything listed is complete *)
Lemma ready_deliver_ok d f t sh t1 t2 t3 t4 t5 m :
  WF d -> d_file d = true -> ready d = true ->
  find_name (d_st d) f = Some m -> add_ok (d_st d) (mb_id m) = true ->
  let dr := big d (CDeliver f t sh t1 t2 t3 t4 t5) in
  snd dr = ROk /\ links_complete (fst dr) /\
  length (links (d_st (fst dr))) = S (length (links (d_st d))).
Proof.
  intros W F R Fn Ok.
  pose proof (deliver_refines d f t sh t1 t2 t3 t4 t5) as Ref.
  assert (Eo : opened d t1 t2 t3 t4 t5 = d) by (unfold opened; now rewrite F).
  rewrite Eo in Ref. specialize (Ref (wf_below d W)).
  assert (Wr : WF (fst (big d (CDeliver f t sh t1 t2 t3 t4 t5)))).
  { rewrite <- Ref. apply run_WF; auto. now apply micro_guards. }
  split; [|split; [now apply wf_complete|]]; clear Ref Wr;
    cbn [big]; rewrite Eo, R; unfold op_deliver; rewrite Fn; unfold store_message, add_message;
    unfold add_ok in Ok; cbn [find_id mboxes] in *;
    change (find_id (mkStore (mboxes (d_st d)) (links (d_st d)) (next_msg (d_st d) + 1) (glog (d_st d))
              (gused (d_st d)) (gser (d_st d))) (mb_id m)) with (find_id (d_st d) (mb_id m));
    destruct (find_id (d_st d) (mb_id m)) as [m'|]; try discriminate;
    apply negb_true_iff in Ok; unfold insert_link; cbn [bump links set_mboxes]; rewrite Ok; cbn.
  - reflexivity.
  - rewrite app_length. cbn. lia.
Qed.

(** ---- torn stores stay torn ------------------------------------------------------ *)

Lemma torn_micro c o : d_file c = true -> ready c = false -> micro c o = [].
Proof.
  intros F R. destruct o; cbn [micro]; unfold open_steps; rewrite ?F, ?R; try reflexivity.
  cbn [run_steps fold_left app]. unfold run_steps. cbn [fold_left]. now rewrite R.
Qed.

(** no later operation — login, delivery, anything — changes a store whose
    file exists without the essential tables: initUserDB is never run again *)
Lemma torn_forever h : forall c, d_file c = true -> ready c = false -> run_all c h = c.
Proof.
  induction h as [|o r IH]; intros c F R; [reflexivity|].
  cbn [run_all fold_left]. rewrite torn_micro by auto. now apply IH.
Qed.

Lemma torn_rejects c f t sh t1 t2 t3 t4 t5 :
  d_file c = true -> ready c = false -> snd (big c (CDeliver f t sh t1 t2 t3 t4 t5)) = RNo.
Proof. intros F R. cbn [big]. unfold opened. rewrite F, R. reflexivity. Qed.

(** ---- clean restart ------------------------------------------------------------------ *)

(** reopening an existing store changes nothing *)
Lemma reopen_id d t1 t2 t3 t4 t5 :
  d_file d = true -> big d (COpen t1 t2 t3 t4 t5) = (d, ROk) /\ micro d (COpen t1 t2 t3 t4 t5) = [].
Proof. intros F. cbn [big micro]. unfold opened, open_steps. now rewrite F. Qed.

(** ---- the UID gap ---------------------------------------------------------------------- *)

(** a crash between "UPDATE uid_next" and "INSERT message_mailbox" leaves no
    link and a uid_next that skipped one value *)
Lemma gap_state d msg mb fl m :
  find_id (d_st d) mb = Some m ->
  let c := run_steps d (firstn 1 (add_steps (d_st d) msg mb fl)) in
  links (d_st c) = links (d_st d) /\ find_id (d_st c) mb = Some (bump_row mb m) /\
  mb_next (bump_row mb m) = mb_next m + 1.
Proof.
  intros F. unfold add_steps. rewrite F. cbn. repeat split.
  - now apply find_id_bump.
  - rewrite bump_row_next. apply find_id_some in F. destruct F as [_ ->]. now rewrite Z.eqb_refl.
Qed.

(** ---- classes ---------------------------------------------------------------------------- *)

Lemma classify_none_usable c : classify_state c = None <-> usable c = true.
Proof.
  unfold classify_state, usable. destruct (d_file c), (ready c), (has_inbox c); cbn; split; congruence.
Qed.

Lemma outside_classes_usable h k : classify h k = None -> usable (crash_at absent h k) = true.
Proof. intros H. now apply classify_none_usable. Qed.

Lemma crash_links_complete h k : WF (crash_at absent h k).
Proof. apply crash_WF, WF_absent. Qed.

(** witnesses: first contact of a new user, the process dies during store creation *)
Definition W_OPEN : list cop := [COpen 100 100 100 100 100].
Definition W_SHAPE : shape := mkShape 3 2 [false].

(** crash after "create file" + 3 CREATE TABLE statements: the store is torn
    for ever: every later workload leaves it as it is, every delivery is rejected *)
Lemma refuted_torn_schema :
  exists h k, classify h k = Some CTornSchema /\
    (forall h', run_all (crash_at absent h k) h' = crash_at absent h k) /\
    (forall f t sh t1 t2 t3 t4 t5,
        snd (big (crash_at absent h k) (CDeliver f t sh t1 t2 t3 t4 t5)) = RNo) /\
    recovers_b (crash_at absent h k) 200 W_SHAPE = false.
Proof.
  exists W_OPEN, 4%nat. split; [vm_compute; reflexivity|]. split; [|split].
  - intros h'. apply torn_forever; vm_compute; reflexivity.
  - intros. apply torn_rejects; vm_compute; reflexivity.
  - vm_compute. reflexivity.
Qed.

(** crash after the 26 schema statements and before INSERT INBOX: the next
    login opens the file as it is — no INBOX *)
Lemma refuted_no_inbox :
  exists h k, classify h k = Some CNoInbox /\
    (forall t1 t2 t3 t4 t5,
        has_inbox (fst (big (crash_at absent h k) (COpen t1 t2 t3 t4 t5))) = false) /\
    recovers_b (crash_at absent h k) 200 W_SHAPE = false.
Proof.
  exists W_OPEN, 27%nat. split; [vm_compute; reflexivity|]. split.
  - intros. vm_compute. reflexivity.
  - vm_compute. reflexivity.
Qed.

(** non-vacuity: a workload with every kind of operation; all its crash points
    outside store creation are usable and recover *)
Definition W_MIXED : list cop :=
  [COpen 100 100 100 100 100;
   CDeliver INBOX 100 W_SHAPE 100 100 100 100 100;
   CAppend INBOX [S_ "\Seen"] (mkShape 6 3 [false; false; true]);
   CBase (OUidCopy 1 [URange 1 2] (S_ "Trash"));
   CBase (OUidStore 1 [URange 1 2] SAdd [S_ "\Deleted"]);
   CBase (OExpunge 1);
   CBase (OCreate (S_ "a/b/c") 101);
   CBase (ORename (S_ "a/b") (S_ "x/y") 102);
   CBase (ORename INBOX (S_ "old") 103);
   CBase (ODelete (S_ "x/y/c"));
   CSubscribe (S_ "x"); CUnsubscribe (S_ "x")].

Definition all_points (h : list cop) : list nat := seq 0 (S (length (all_steps absent h))).
