(** C07 — crash points: refinement of whole workloads, decomposition of a crash
    state into "acknowledged operations + a prefix of the operation in flight",
    recovery of usable states, permanence of torn stores, clean restart. *)
From Coq Require Import String Ascii List Bool ZArith Arith Lia.
From Raven Require Import Base.GoStr Model.Store Model.Ops Model.Micro Spec.UidSpec Spec.Crash
  Proof.StoreInv Proof.MicroRefine Proof.MicroBase Proof.MicroWF Proof.MicroInbox.
Import ListNotations.
Local Open Scope Z_scope.

(** ---- every operation is refined by its micro-steps ---------------------------- *)

Lemma refines d o : WF d -> run_steps d (micro d o) = fst (big d o).
Proof.
  intros W. destruct o as [t1 t2 t3 t4 t5|f t sh|f fl sh|o|n|n].
  - apply open_refines.
  - destruct (ready d) eqn:Hr.
    + apply deliver_refines; auto. now apply wf_below.
    + cbn [micro big]. rewrite Hr. reflexivity.
  - destruct (ready d) eqn:Hr.
    + apply append_refines; auto. now apply wf_below.
    + cbn [micro big]. rewrite Hr. reflexivity.
  - cbn [micro big]. destruct (ready d) eqn:Hr; [|reflexivity].
    destruct (base_ok o) eqn:Hb; cbn [andb].
    + rewrite base_refines; auto; [|now apply wf_ids]. destruct (step (d_st d) o); reflexivity.
    + destruct o; try discriminate; reflexivity.
  - cbn [micro big]. destruct (ready d); reflexivity.
  - cbn [micro big]. destruct (ready d); reflexivity.
Qed.

Definition big_all (d : dstore) (h : list cop) : dstore := fold_left (fun d' o => fst (big d' o)) h d.

Lemma run_all_WF h : forall d, WF d -> WF (run_all d h).
Proof.
  induction h as [|o r IH]; intros d W; [exact W|].
  cbn [run_all fold_left]. apply IH. apply run_WF; auto. now apply micro_guards.
Qed.

Lemma run_all_big h : forall d, WF d -> run_all d h = big_all d h.
Proof.
  induction h as [|o r IH]; intros d W; [reflexivity|].
  unfold run_all, big_all in *. cbn [fold_left]. rewrite refines by auto.
  apply IH; auto. rewrite <- refines by auto. apply run_WF; auto. now apply micro_guards.
Qed.

Lemma all_steps_run h : forall d, run_steps d (all_steps d h) = run_all d h.
Proof.
  induction h as [|o r IH]; intros d; [reflexivity|].
  cbn [all_steps]. rewrite run_steps_app, IH. reflexivity.
Qed.

(** a crash after the last micro-step = the clean end of the workload *)
Lemma crash_full d h : crash_at d h (length (all_steps d h)) = run_all d h.
Proof. unfold crash_at. rewrite firstn_all. apply all_steps_run. Qed.

(** ---- decomposition ---------------------------------------------------------------- *)

(** Every crash state is: all operations of a prefix [h1] of the workload
    executed completely, plus a proper prefix of the micro-steps of the next
    operation [o] — or the whole workload.  An operation is acknowledged only
    after its last micro-step, so the acknowledged operations are among [h1]. *)
Lemma crash_decomposition h : forall d k,
  crash_at d h k = run_all d h \/
  exists h1 o h2 j, h = h1 ++ o :: h2 /\ (j < length (micro (run_all d h1) o))%nat /\
    crash_at d h k = run_steps (run_all d h1) (firstn j (micro (run_all d h1) o)).
Proof.
  induction h as [|o r IH]; intros d k.
  - left. unfold crash_at. destruct k; reflexivity.
  - destruct (Nat.ltb k (length (micro d o))) eqn:Hk.
    + right. apply Nat.ltb_lt in Hk. exists [], o, r, k. repeat split; auto.
      unfold crash_at. cbn [all_steps run_all fold_left].
      rewrite firstn_app. replace (k - length (micro d o))%nat with 0%nat by lia.
      cbn [firstn]. now rewrite app_nil_r.
    + apply Nat.ltb_ge in Hk.
      assert (E : crash_at d (o :: r) k
                  = crash_at (run_steps d (micro d o)) r (k - length (micro d o))).
      { unfold crash_at. cbn [all_steps]. rewrite firstn_app, run_steps_app.
        rewrite firstn_all2 by lia. reflexivity. }
      rewrite E. destruct (IH (run_steps d (micro d o)) (k - length (micro d o))%nat)
        as [H|(h1 & o' & h2 & j & Eh & Hj & Ec)].
      * left. exact H.
      * right. exists (o :: h1), o', h2, j. subst r. repeat split; auto.
Qed.

(** ---- recovery ------------------------------------------------------------------------ *)

Lemma HasI_has_inbox d : HasI d -> has_inbox d = true.
Proof.
  unfold HasI, names, has_inbox, find_name. intros H. apply in_map_iff in H. destruct H as (m & En & Hm).
  destruct (find (fun m0 => str_eqb (mb_name m0) INBOX) (mboxes (d_st d))) eqn:F; [reflexivity|].
  exfalso. pose proof (find_none _ _ F m Hm) as X. cbv beta in X. rewrite En, str_eqb_refl in X. discriminate.
Qed.

(** at every crash point of every workload the next GetUserDB answers OK and
    leaves a store with its file, all tables and an INBOX *)
Lemma every_crash_state_reopens h k t1 t2 t3 t4 t5 :
  snd (big (crash_at absent h k) (COpen t1 t2 t3 t4 t5)) = ROk /\
  usable (fst (big (crash_at absent h k) (COpen t1 t2 t3 t4 t5))) = true.
Proof.
  destruct (crash_reopens h k t1 t2 t3 t4 t5) as (A & B & C & D). split; [exact A|].
  unfold usable. rewrite D, B, (HasI_has_inbox _ C). reflexivity.
Qed.

Lemma inv_add_ok s m : Inv s -> In m (mboxes s) -> add_ok s (mb_id m) = true.
Proof.
  intros I Hm. unfold add_ok. rewrite (find_id_in s m I Hm).
  apply negb_true_iff. apply existsb_at_uid_false. intros l Hl El Eu.
  pose proof (Inv_uid_below s m l I Hm Hl El). lia.
Qed.

(** a delivery into an existing mailbox of a ready store whose uid_next is
    not stale is accepted, adds exactly one link, and everything listed is complete *)
Lemma ready_deliver_ok d f t sh m :
  WF d -> ready d = true ->
  find_name (d_st d) f = Some m -> add_ok (d_st d) (mb_id m) = true ->
  let dr := big d (CDeliver f t sh) in
  snd dr = ROk /\ links_complete (fst dr) /\
  length (links (d_st (fst dr))) = S (length (links (d_st d))).
Proof.
  intros W R Fn Ok.
  pose proof (deliver_refines d f t sh (wf_below d W) R) as Ref.
  assert (Wr : WF (fst (big d (CDeliver f t sh)))).
  { rewrite <- Ref. apply run_WF; auto. now apply micro_guards. }
  split; [|split; [now apply wf_complete|]]; clear Ref Wr;
    cbn [big]; rewrite R; unfold op_deliver; rewrite Fn; unfold store_message, add_message;
    unfold add_ok in Ok; cbn [find_id mboxes] in *;
    change (find_id (mkStore (mboxes (d_st d)) (links (d_st d)) (next_msg (d_st d) + 1) (glog (d_st d))
              (gused (d_st d)) (gser (d_st d))) (mb_id m)) with (find_id (d_st d) (mb_id m));
    destruct (find_id (d_st d) (mb_id m)) as [m'|]; try discriminate;
    apply negb_true_iff in Ok; unfold insert_link; cbn [bump links set_mboxes]; rewrite Ok; cbn.
  - reflexivity.
  - rewrite app_length. cbn. lia.
Qed.

(** ---- clean restart ------------------------------------------------------------------ *)

(** reopening a complete store changes nothing (the 26 schema statements are
    no-ops, the default mailboxes are not touched) *)
Lemma reopen_id d t1 t2 t3 t4 t5 :
  d_file d = true -> d_schema d = NSCHEMA -> mboxes (d_st d) <> [] ->
  big d (COpen t1 t2 t3 t4 t5) = (d, ROk) /\ run_steps d (micro d (COpen t1 t2 t3 t4 t5)) = d.
Proof.
  intros F S M. cbn [micro]. rewrite open_refines. cbn [big].
  assert (E : opened d t1 t2 t3 t4 t5 = d).
  { unfold opened, file_of. rewrite F. destruct (mboxes (d_st d)) eqn:Mb; [contradiction|].
    rewrite S. destruct d; cbn in *; subst; reflexivity. }
  now rewrite E.
Qed.

(** ---- regression: the code before fixes/store-init-idempotent.patch ----------------- *)

(** GetUserDB as it was: nothing when the file exists; otherwise create file,
    schema, five separate INSERTs *)
Definition old_open_steps (d : dstore) (t : Z) : list mstep :=
  if d_file d then []
  else MCreateFile :: map MSchema (seq 0 NSCHEMA)
       ++ [MInsMailbox INBOX t; MInsMailbox (S_ "Sent") t; MInsMailbox (S_ "Drafts") t;
           MInsMailbox (S_ "Trash") t; MInsMailbox SPAM t].

(** ---- the UID gap ---------------------------------------------------------------------- *)

(** a crash between "UPDATE uid_next" and "INSERT message_mailbox" leaves no
    link and a uid_next that skipped one value *)
Lemma gap_state d msg mb fl m :
  find_id (d_st d) mb = Some m ->
  let c := run_steps d (firstn 1 (add_steps (d_st d) msg mb fl)) in
  links (d_st c) = links (d_st d) /\ find_id (d_st c) mb = Some (bump_row mb m) /\
  mb_next (bump_row mb m) = mb_next m + 1.
Proof.
  intros F. unfold add_steps. rewrite F. cbn. repeat split.
  - now apply find_id_bump.
  - rewrite bump_row_next. apply find_id_some in F. destruct F as [_ ->]. now rewrite Z.eqb_refl.
Qed.

(** ---- witnesses ------------------------------------------------------------------------ *)

Lemma crash_links_complete h k : WF (crash_at absent h k).
Proof. apply crash_WF, WF_absent. Qed.

Definition W_OPEN : list cop := [COpen 100 100 100 100 100].
Definition W_SHAPE : shape := mkShape 3 2 [false].

(** non-vacuity: a workload with every kind of operation; all its crash points
    outside store creation are usable and recover *)
Definition W_MIXED : list cop :=
  [COpen 100 100 100 100 100;
   CDeliver INBOX 100 W_SHAPE;
   CAppend INBOX [S_ "\Seen"] (mkShape 6 3 [false; false; true]);
   CBase (OUidCopy 1 [URange 1 2] (S_ "Trash"));
   CBase (OUidStore 1 [URange 1 2] SAdd [S_ "\Deleted"]);
   CBase (OExpunge 1);
   CBase (OCreate (S_ "a/b/c") 101);
   CBase (ORename (S_ "a/b") (S_ "x/y") 102);
   CBase (ORename INBOX (S_ "old") 103);
   CBase (ODelete (S_ "x/y/c"));
   CSubscribe (S_ "x"); CUnsubscribe (S_ "x")].

Definition all_points (h : list cop) : list nat := seq 0 (S (length (all_steps absent h))).

(** ---- reopening never touches the rows of an initialised store ------------------------- *)

(** At every crash point (and at every clean stop) of every workload: if the
    mailbox table holds a row, the next GetUserDB leaves mailboxes (names,
    UIDVALIDITY, UIDNEXT), links, messages, subscriptions and deliveries exactly
    as they are — in particular a default mailbox the user deleted or renamed
    away does not come back. *)
Lemma reopen_keeps_rows h k t1 t2 t3 t4 t5 :
  let c := crash_at absent h k in
  mboxes (d_st c) <> [] ->
  let d' := fst (big c (COpen t1 t2 t3 t4 t5)) in
  d_st d' = d_st c /\ d_msgs d' = d_msgs c /\ d_subs d' = d_subs c /\ d_deliv d' = d_deliv c
  /\ run_steps c (micro c (COpen t1 t2 t3 t4 t5)) = d'.
Proof.
  intros c Hne d'. pose proof (crash_MB h k absent BI_absent) as M. fold c in M.
  assert (F : d_file c = true).
  { destruct (d_file c) eqn:Fd; [reflexivity|]. exfalso. apply Hne. exact (mb_nofile c M Fd). }
  unfold d'. cbn [big fst micro]. rewrite open_refines. unfold opened, file_of. rewrite F.
  destruct (mboxes (d_st c)) eqn:Mb; [contradiction|]. cbn. repeat split.
Qed.

(** ---- the observed-state spec on workloads that remove NON-EMPTY mailboxes ------------- *)

Definition ARCH : str := S_ "Archive".
Definition W_REMOVE : list cop :=
  [COpen 100 100 100 100 100;
   CDeliver INBOX 100 W_SHAPE;
   CBase (OCreate ARCH 101);
   CAppend ARCH [] (mkShape 6 3 [false; false; true]);
   CAppend ARCH [S_ "\Seen"] W_SHAPE;
   CBase (OUidCopy 6 [URange 1 2] (S_ "Trash"));
   CBase (OUidStore 6 [UOne 1] SAdd [S_ "\Deleted"]);
   CBase (OExpunge 6);
   CBase (ORename ARCH (S_ "Arch2") 102);
   CBase (ODelete (S_ "Arch2"));
   CAppend INBOX [] W_SHAPE;
   CBase (ORename INBOX (S_ "old") 103)].

(** the store a non-atomic DELETE leaves when the process dies between its two
    statements: the mailbox still listed, its links gone *)
Definition emptied (d : dstore) (mb : Z) : dstore := with_st d (delete_links (d_st d) (in_mbox mb)).
