(** C14 (d) — facts about Model/Envelope.v: QuoteOrNIL is decoded back to the
    field value by every IMAP client (all strings); computed witnesses of the
    address-list defect classes. *)
From Coq Require Import String Ascii List Bool Arith Lia.
From Raven Require Import Base.GoStr Base.GoStrFacts Model.Envelope Spec.EnvelopeSpec.
Import ListNotations.

Lemma replace_two_passes s :
  replace_byte (replace_byte s BSL [BSL; BSL]) DQ [BSL; DQ] = qs_escape s.
Proof.
  unfold replace_byte, qs_escape. induction s as [|c s IH]; [reflexivity|].
  cbn [flat_map]. rewrite flat_map_app, IH. f_equal.
  destruct (Ascii.eqb_spec c BSL) as [->|N1]; [reflexivity|].
  destruct (Ascii.eqb_spec c DQ) as [->|N2]; [reflexivity|].
  cbn [flat_map app]. rewrite (proj2 (Ascii.eqb_neq c DQ) N2). reflexivity.
Qed.

Lemma quote_or_nil_imap_q s : quote_or_nil s = imap_q s.
Proof.
  destruct s as [|c s]; [reflexivity|].
  unfold quote_or_nil, imap_q. now rewrite replace_two_passes.
Qed.

Lemma unq_body_escape s : unq_body (qs_escape s ++ [DQ]) = Some s.
Proof.
  induction s as [|c s IH]; [reflexivity|].
  unfold qs_escape in *. cbn [flat_map].
  destruct (Ascii.eqb_spec c DQ) as [->|N1].
  - cbn. cbn in IH. rewrite IH. reflexivity.
  - destruct (Ascii.eqb_spec c BSL) as [->|N2].
    + cbn. cbn in IH. rewrite IH. reflexivity.
    + cbn [orb app unq_body].
      rewrite (proj2 (Ascii.eqb_neq c DQ) N1), (proj2 (Ascii.eqb_neq c BSL) N2).
      rewrite IH. reflexivity.
Qed.

(** every field value survives QuoteOrNIL: the empty string is NIL, anything else decodes to itself *)
Theorem quote_roundtrip s : imap_unquote (quote_or_nil s) = Some s.
Proof.
  destruct s as [|c s]; [reflexivity|].
  rewrite quote_or_nil_imap_q. unfold imap_q, imap_unquote.
  replace (str_eqb ([DQ] ++ qs_escape (c :: s) ++ [DQ]) NIL) with false by reflexivity.
  cbn [app]. rewrite Ascii.eqb_refl. apply unq_body_escape.
Qed.

(** ---- address lists ---- *)

Lemma index_byte_app_notin a c b :
  contains_byte a c = false -> index_byte (a ++ c :: b) c = Some (length a).
Proof.
  unfold contains_byte. induction a as [|d a IH]; intros H; cbn [app index_byte length].
  - now rewrite Ascii.eqb_refl.
  - cbn [existsb] in H. apply orb_false_iff in H. destruct H as [H1 H2].
    rewrite Ascii.eqb_sym in H1. rewrite H1, (IH H2). reflexivity.
Qed.

Lemma contains_byte_rev a c : contains_byte (rev a) c = contains_byte a c.
Proof.
  unfold contains_byte. induction a as [|d a IH]; [reflexivity|].
  cbn [rev existsb]. rewrite existsb_app, IH. cbn [existsb]. rewrite orb_false_r. apply orb_comm.
Qed.

Lemma last_index_at local dom :
  contains_byte dom AT_ = false -> last_index_byte (local ++ [AT_] ++ dom) AT_ = Some (length local).
Proof.
  intros H. unfold last_index_byte.
  rewrite !rev_app_distr. cbn [rev app]. rewrite <- app_assoc. cbn [app].
  rewrite index_byte_app_notin by (now rewrite contains_byte_rev).
  rewrite rev_length, !app_length. cbn [length]. f_equal. lia.
Qed.

Lemma render_mail_addr_expected a :
  dom_ok a = true -> render_mail_addr (mail_addr a) = expected_struct a.
Proof.
  destruct a as [[name local] dom]. cbn [dom_ok mail_addr]. intros H. apply negb_true_iff in H.
  unfold render_mail_addr, expected_struct. rewrite (last_index_at local dom H).
  replace (firstn (length local) (local ++ [AT_] ++ dom)) with local
    by (rewrite firstn_app, Nat.sub_diag, firstn_all; cbn [firstn]; now rewrite app_nil_r).
  replace (skipn (S (length local)) (local ++ [AT_] ++ dom)) with dom.
  2:{ replace (S (length local)) with (length (local ++ [AT_])) by (rewrite app_length; cbn; lia).
      rewrite app_assoc, skipn_app, Nat.sub_diag, skipn_all. reflexivity. }
  now rewrite !quote_or_nil_imap_q.
Qed.

(** Whenever net/mail reads a header as the mailboxes l (display name, local
    part, domain), the ENVELOPE address list is exactly the RFC 3501 structure
    of l: for all header texts, names (commas, quotes, backslashes included),
    local parts (also with "@" inside) and domains. *)
Theorem address_list_agrees (mail_parse : str -> option (list (str * str))) s l :
  s <> [] -> l <> [] -> forallb dom_ok l = true ->
  mail_parse s = Some (map mail_addr l) ->
  parse_address_list mail_parse s = Some (expected_list l).
Proof.
  intros Hs Hl Hd Hm. unfold parse_address_list.
  destruct s as [|c s]; [congruence|]. rewrite Hm.
  destruct l as [|a l]; [congruence|]. cbn [map].
  unfold expected_list. do 3 f_equal.
  change (render_mail_addr (mail_addr a) :: map render_mail_addr (map mail_addr l))
    with (map render_mail_addr (map mail_addr (a :: l))).
  rewrite map_map. f_equal. apply map_ext_in. intros x Hx.
  apply render_mail_addr_expected. rewrite forallb_forall in Hd. now apply Hd.
Qed.

(** a header net/mail rejects is read as before *)
Lemma address_list_fallback (mail_parse : str -> option (list (str * str))) s :
  mail_parse s = None -> s <> [] -> parse_address_list mail_parse s = parse_fallback s.
Proof. intros H N. unfold parse_address_list. destruct s; [congruence|]. now rewrite H. Qed.

Definition w_name_comma : str := S_ "Doe, John".
Definition w_name_qp : str := [ascii_of_nat 74; ascii_of_nat 111; SP; DQ; ascii_of_nat 88; DQ].  (* Jo DQUOTE X DQUOTE *)

(** regression examples: what the comma splitting (the only reading before the
    repair) made of quoted display names *)
Example old_split_breaks_name_with_comma : fallback_ok w_name_comma (S_ "john") (S_ "example.com") = false.
Proof. vm_compute. reflexivity. Qed.

Example old_split_keeps_quoted_pair_backslashes : fallback_ok w_name_qp (S_ "john") (S_ "example.com") = false.
Proof. vm_compute. reflexivity. Qed.

Example fallback_plain_name_ok : fallback_ok (S_ "Bob Smith") (S_ "bob") (S_ "example.com") = true.
Proof. vm_compute. reflexivity. Qed.
