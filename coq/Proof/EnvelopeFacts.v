(** C14 (d) — facts about Model/Envelope.v: QuoteOrNIL is decoded back to the
    field value by every IMAP client (all strings); computed witnesses of the
    address-list defect classes. *)
From Coq Require Import String Ascii List Bool Arith Lia.
From Raven Require Import Base.GoStr Base.GoStrFacts Model.Envelope Spec.EnvelopeSpec.
Import ListNotations.

Lemma replace_two_passes s :
  replace_byte (replace_byte s BSL [BSL; BSL]) DQ [BSL; DQ] = qs_escape s.
Proof.
  unfold replace_byte, qs_escape. induction s as [|c s IH]; [reflexivity|].
  cbn [flat_map]. rewrite flat_map_app, IH. f_equal.
  destruct (Ascii.eqb_spec c BSL) as [->|N1]; [reflexivity|].
  destruct (Ascii.eqb_spec c DQ) as [->|N2]; [reflexivity|].
  cbn [flat_map app]. rewrite (proj2 (Ascii.eqb_neq c DQ) N2). reflexivity.
Qed.

Lemma quote_or_nil_imap_q s : quote_or_nil s = imap_q s.
Proof.
  destruct s as [|c s]; [reflexivity|].
  unfold quote_or_nil, imap_q. now rewrite replace_two_passes.
Qed.

Lemma unq_body_escape s : unq_body (qs_escape s ++ [DQ]) = Some s.
Proof.
  induction s as [|c s IH]; [reflexivity|].
  unfold qs_escape in *. cbn [flat_map].
  destruct (Ascii.eqb_spec c DQ) as [->|N1].
  - cbn. cbn in IH. rewrite IH. reflexivity.
  - destruct (Ascii.eqb_spec c BSL) as [->|N2].
    + cbn. cbn in IH. rewrite IH. reflexivity.
    + cbn [orb app unq_body].
      rewrite (proj2 (Ascii.eqb_neq c DQ) N1), (proj2 (Ascii.eqb_neq c BSL) N2).
      rewrite IH. reflexivity.
Qed.

(** every field value survives QuoteOrNIL: the empty string is NIL, anything else decodes to itself *)
Theorem quote_roundtrip s : imap_unquote (quote_or_nil s) = Some s.
Proof.
  destruct s as [|c s]; [reflexivity|].
  rewrite quote_or_nil_imap_q. unfold imap_q, imap_unquote.
  replace (str_eqb ([DQ] ++ qs_escape (c :: s) ++ [DQ]) NIL) with false by reflexivity.
  cbn [app]. rewrite Ascii.eqb_refl. apply unq_body_escape.
Qed.

Definition w_name_comma : str := S_ "Doe, John".
Definition w_name_qp : str := [ascii_of_nat 74; ascii_of_nat 111; SP; DQ; ascii_of_nat 88; DQ].  (* Jo DQUOTE X DQUOTE *)

Lemma refuted_name_comma :
  exists name local dom, classify_addr name = Some NameComma /\ addr_ok name local dom = false.
Proof. exists w_name_comma, (S_ "john"), (S_ "example.com"). split; vm_compute; reflexivity. Qed.

Lemma refuted_name_quoted_pair :
  exists name local dom, classify_addr name = Some NameQuotedPair /\ addr_ok name local dom = false.
Proof. exists w_name_qp, (S_ "john"), (S_ "example.com"). split; vm_compute; reflexivity. Qed.
