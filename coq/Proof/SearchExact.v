(** C19 — NOT / OR over operands of the fragment, the implicit AND over a
    program, and the assembly: SEARCH on a printed program of the fragment
    returns exactly the specified list. *)
From Coq Require Import String Ascii List Bool Arith NArith ZArith Lia Sorted.
From Raven Require Import Base.GoStr Base.GoStrFacts Model.Search Model.SearchText Spec.Search Model.SearchClass
  Proof.SearchTok Proof.SearchAtoms Proof.SearchDate Proof.SearchEval.
Import ListNotations.
Local Open Scope Z_scope.
Local Arguments Ascii.eqb : simpl never.

(** operands of NOT / OR in the fragment have the shape NOT / OR expect *)
Lemma key_shape k mb : wf_key k = true -> arity_ok k = true -> simple_class k mb = None -> shape (key_tokens k).
Proof.
  intros W A C. destruct k; cbn [arity_ok] in A; try discriminate; cbn [key_tokens].
  - left. eexists. split; reflexivity.
  - left. eexists. split; [reflexivity|]. destruct f; reflexivity.
  - left. eexists. split; [reflexivity|]. destruct f; reflexivity.
  - left. eexists. split; reflexivity.
  - right. do 2 eexists. split; reflexivity.
  - right. do 2 eexists. split; reflexivity.
  - left. eexists. split; [reflexivity|]. cbn [wf_key] in W. cbn [simple_class] in C. unfold set_class in C.
    destruct s as [|[[d|]|[a|] [b|]] [|? ?]]; try discriminate; unfold set_ok in W; cbn in W; rewrite andb_true_r in W.
    + destruct (numeral_digits d W) as [Hd Hne]. unfold print_set. cbn [map join print_item print_snum].
      destruct d as [|c d]; [congruence|]. apply ra_digit. cbn in Hd. now apply andb_true_iff in Hd.
    + apply andb_true_iff in W as [Wa Wb]. destruct (numeral_digits a Wa) as [Hd Hne].
      unfold print_set. cbn [map join print_item print_snum].
      destruct a as [|c a]; [congruence|]. cbn [app]. apply ra_digit. cbn in Hd. now apply andb_true_iff in Hd.
  - right. do 2 eexists. split; reflexivity.
  - right. do 2 eexists. split; [reflexivity|]. destruct h; reflexivity.
  - right. do 2 eexists. split; reflexivity.
  - right. do 2 eexists. split; reflexivity.
  - right. do 2 eexists. split; reflexivity.
  - right. do 2 eexists. split; reflexivity.
  - right. do 2 eexists. split; [reflexivity|]. destruct sent, c; reflexivity.
Qed.

Lemma operand_inv k mb : operand_class k mb = None -> arity_ok k = true /\ simple_class k mb = None.
Proof.
  unfold operand_class. destruct k; cbn [arity_ok]; try discriminate; intros H; split; (reflexivity || exact H).
Qed.

Lemma andk_some b c : andk b (Some c) = Some (b && c).
Proof. destruct b; reflexivity. Qed.

Section Prog.
Variables (nseq maxuid : Z).
Variable mb : list smsg.
Variables (i : Z) (sm : smsg).
Hypothesis Hin : In (i, sm) (numbered mb).
Hypothesis Hmb : mb_ok mb = true.
Notation m := (to_msg (i, sm)).
Notation SP := (spec_eval nseq maxuid).

(** what the recursive call of evaluateTokens returns on an operand *)
Definition rec_ok (rec : list str -> option bool) : Prop :=
  forall k, wf_key k = true -> simple_class k mb = None -> rec (key_tokens k) = Some (SP k i sm).

Lemma rec_ok_loop rec : rec_ok (eval_loop go_text rec m).
Proof.
  intros k W C. rewrite <- (app_nil_r (key_tokens k)).
  rewrite (simple_step rec nseq maxuid mb i sm Hin Hmb k [] W C). cbn [eval_loop]. now rewrite andk_some, andb_true_r.
Qed.

Lemma key_step rec k rest : rec_ok rec -> wf_key k = true -> key_class k mb = None ->
  eval_loop go_text rec m (key_tokens k ++ rest) = andk (SP k i sm) (eval_loop go_text rec m rest).
Proof.
  intros R W C. destruct k; try (apply (simple_step rec nseq maxuid mb i sm Hin Hmb); assumption).
  - (* NOT *) cbn [key_class] in C. apply operand_inv in C as [A C]. cbn [wf_key] in W.
    cbn [key_tokens]. rewrite <- app_comm_cons. rewrite el_not by (eapply key_shape; eassumption).
    rewrite (R k W C). cbn [spec_eval]. destruct (SP k i sm); reflexivity.
  - (* OR *) cbn [key_class] in C. destruct (operand_class k1 mb) eqn:C1; [discriminate|].
    apply operand_inv in C1 as [A1 C1]. apply operand_inv in C as [A2 C2].
    cbn [wf_key] in W. apply andb_true_iff in W as [W1 W2].
    cbn [key_tokens]. rewrite <- app_comm_cons, <- app_assoc.
    rewrite el_or by (eapply key_shape; eassumption).
    rewrite (R k1 W1 C1), (R k2 W2 C2). cbn [spec_eval].
    destruct (SP k1 i sm), (SP k2 i sm); reflexivity.
Qed.

Lemma prog_step rec ks : rec_ok rec -> forallb wf_key ks = true -> classify ks mb = None ->
  eval_loop go_text rec m (prog_tokens ks) = Some (spec_all nseq maxuid ks i sm).
Proof.
  intros R. induction ks as [|k ks IH]; intros W C; [reflexivity|].
  cbn [forallb] in W. apply andb_true_iff in W as [W1 W2].
  cbn [classify] in C. destruct (key_class k mb) eqn:C1; [discriminate|].
  unfold prog_tokens. cbn [flat_map]. rewrite key_step by assumption.
  fold (prog_tokens ks). rewrite IH by assumption. rewrite andk_some. reflexivity.
Qed.

Lemma eval_tokens_prog ks : forallb wf_key ks = true -> classify ks mb = None ->
  eval_tokens go_text m (prog_tokens ks) = Some (spec_all nseq maxuid ks i sm).
Proof.
  intros W C. unfold eval_tokens. cbn [eval_tokens_d]. apply prog_step; try assumption. apply rec_ok_loop.
Qed.
End Prog.
