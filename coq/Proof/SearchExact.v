(** C19 — searchKeyLength on printed keys, NOT / OR over complete keys,
    parenthesised lists, and the implicit AND over a program: a key of the
    fragment evaluates to its specification and the loop continues. *)
From Coq Require Import String Ascii List Bool Arith NArith ZArith Lia.
From Raven Require Import Base.GoStr Base.GoStrFacts Model.Search Model.SearchText Spec.Search Model.SearchClass
  Proof.SearchTok Proof.SearchAtoms Proof.SearchDate Proof.SearchEval Proof.SearchToks.
From Raven Require Model.SeqSet Spec.SeqSet Proof.FetchSearchExact.
Import ListNotations.
Local Arguments Ascii.eqb : simpl never.

Lemma firstn_len_app {A} (l r : list A) : firstn (length l) (l ++ r) = l.
Proof. induction l as [|x l IH]; [destruct r; reflexivity|]. cbn. now rewrite IH. Qed.
Lemma skipn_len_app {A} (l r : list A) : skipn (length l) (l ++ r) = r.
Proof. induction l as [|x l IH]; [reflexivity|]. cbn. exact IH. Qed.

Lemma andk_some b c : andk b (Some c) = Some (b && c).
Proof. destruct b; reflexivity. Qed.

(** ** searchKeyLength *)
Lemma kw_of_lpar t : kw_of (lpar :: t) = None.
Proof. reflexivity. Qed.

Lemma upper_group s : to_upper (lpar :: s ++ [rpar]) = lpar :: to_upper s ++ [rpar].
Proof. unfold to_upper. cbn [map]. rewrite map_app. reflexivity. Qed.

Lemma is_group_group s : is_group (lpar :: s ++ [rpar]) = true.
Proof. unfold is_group. rewrite rev_app_distr. reflexivity. Qed.

Lemma group_inner_group s : group_inner (lpar :: s ++ [rpar]) = s.
Proof. unfold group_inner. apply removelast_last. Qed.

Lemma simple_key_len mb k rest f : atomic k -> wf_key k = true -> simple_class k mb = None ->
  key_len (S f) (key_tokens k ++ rest) = length (key_tokens k).
Proof.
  intros A W C. destruct k; try contradiction; cbn [simple_class] in C; try discriminate; cbn [key_tokens app];
    try reflexivity.
  - destruct f0; reflexivity.
  - destruct f0; reflexivity.
  - cbn [wf_key] in W. unfold set_ok in W.
    destruct (print_set_facts s W) as (U & _ & HD & _). destruct (head_facts _ HD U) as (K & _ & R).
    cbn [key_len length]. unfold ra in R. rewrite U in *. now rewrite K, R.
  - destruct h; reflexivity.
  - destruct sent, c; reflexivity.
Qed.

Lemma key_len_key mb k : wf_key k = true -> key_class k mb = None ->
  forall rest f, (length (key_tokens k ++ rest) < f)%nat -> key_len f (key_tokens k ++ rest) = length (key_tokens k).
Proof.
  induction k as [k A | k IH | a b IHa IHb | l IH] using key_ind2; intros W C rest f L.
  - destruct f as [|f]; [lia|]. rewrite (atomic_class k mb A) in C. now apply simple_key_len with (mb := mb).
  - cbn [key_class wf_key] in *. destruct f as [|f]; [lia|]. cbn [key_tokens app] in *.
    change (key_len (S f) (S_ "NOT" :: key_tokens k ++ rest)) with (1 + key_len f (key_tokens k ++ rest))%nat.
    rewrite IH; [reflexivity | assumption | assumption | cbn [length] in L; lia].
  - cbn [key_class wf_key] in *. apply andb_true_iff in W as [W1 W2].
    destruct (key_class a mb) eqn:C1; [discriminate|].
    destruct f as [|f]; [lia|]. cbn [key_tokens app] in *. rewrite <- app_assoc in *.
    change (key_len (S f) (S_ "OR" :: key_tokens a ++ key_tokens b ++ rest))
      with (let n1 := key_len f (key_tokens a ++ key_tokens b ++ rest) in
            1 + n1 + key_len f (skipn n1 (key_tokens a ++ key_tokens b ++ rest)))%nat.
    cbv zeta. cbn [length] in L. rewrite app_length in L.
    assert (La : (length (key_tokens a ++ key_tokens b ++ rest) < f)%nat) by (rewrite !app_length in *; lia).
    assert (Lb : (length (key_tokens b ++ rest) < f)%nat) by (rewrite !app_length in *; lia).
    rewrite (IHa W1 eq_refl _ _ La). rewrite skipn_len_app. rewrite (IHb W2 C _ _ Lb).
    cbn [length]. rewrite app_length. lia.
  - destruct f as [|f]; [lia|]. cbn [key_tokens app]. cbn [key_len]. rewrite upper_group, kw_of_lpar.
    unfold requires_argument. rewrite kw_of_lpar. reflexivity.
Qed.

Lemma search_key_length_key mb k rest : wf_key k = true -> key_class k mb = None ->
  search_key_length (key_tokens k ++ rest) = length (key_tokens k).
Proof. intros W C. unfold search_key_length. apply key_len_key with (mb := mb); try assumption. lia. Qed.

(** ** evaluation *)
(** fuel a key needs below the iteration that evaluates it: nesting of NOT / OR
    slices and of parenthesised lists *)
Fixpoint depth (k : key) : nat :=
  match k with
  | KNot k' => 2 + depth k'
  | KOr a b => 2 + Nat.max (depth a) (depth b)
  | KGroup l => 1 + fold_right (fun k' n => S (Nat.max (depth k') n)) O l
  | _ => 0
  end.
Definition pdepth (l : list key) : nat := fold_right (fun k' n => S (Nat.max (depth k') n)) O l.

Lemma spec_all_cons n u k ks i sm : spec_all n u (k :: ks) i sm = spec_eval n u k i sm && spec_all n u ks i sm.
Proof. reflexivity. Qed.

Section Prog.
Variable mb : list smsg.
Notation nseq := (Z.of_nat (length mb)).
Notation maxuid := (last_uid mb).
Variables (i : Z) (sm : smsg).
Hypothesis Hin : In (i, sm) (numbered mb).
Hypothesis Hmb : mb_ok mb = true.
Notation m := (to_msg mb (i, sm)).
Notation SP := (spec_eval nseq maxuid).
Notation EV := (eval_loop go_text m).

(** the implicit AND over a list of keys, given the step property of each *)
Lemma list_step (l : list key) :
  Forall (fun k => forall f rest ctx, (depth k <= f)%nat ->
            EV (S f) (key_tokens k ++ rest) ctx = andk (SP k i sm) (EV f rest ctx)) l ->
  forall f ctx, (pdepth l <= f)%nat -> EV (S f) (flat_map key_tokens l) ctx = Some (spec_all nseq maxuid l i sm).
Proof.
  induction 1 as [|k l Hk _ IH]; intros f ctx L; [reflexivity|].
  cbn [pdepth fold_right] in L. fold (pdepth l) in L. cbn [flat_map]. rewrite Hk by lia.
  destruct f as [|f]; [lia|]. rewrite IH by lia. rewrite andk_some. reflexivity.
Qed.

Lemma key_step k : wf_key k = true -> key_class k mb = None ->
  forall f rest ctx, (depth k <= f)%nat -> EV (S f) (key_tokens k ++ rest) ctx = andk (SP k i sm) (EV f rest ctx).
Proof.
  induction k as [k A | k IH | a b IHa IHb | l IH] using key_ind2; intros W C f rest ctx L.
  - rewrite (atomic_class k mb A) in C. now apply (simple_step f mb i sm Hin Hmb ctx).
  - (* NOT *) pose proof (search_key_length_key mb k (rest ++ ctx) ltac:(exact W) ltac:(exact C)) as KL.
    cbn [key_class wf_key depth] in *. cbn [key_tokens app]. rewrite el_not. cbv zeta. rewrite <- app_assoc, KL.
    replace (length (key_tokens k ++ rest) <? length (key_tokens k))%nat with false
      by (symmetry; apply Nat.ltb_ge; rewrite app_length; lia).
    rewrite firstn_len_app, skipn_len_app.
    destruct f as [|[|f]]; try lia.
    pose proof (IH W C (S f) [] (rest ++ ctx) ltac:(lia)) as Ek. rewrite app_nil_r in Ek. rewrite Ek.
    cbn [eval_loop andk]. cbn [spec_eval]. destruct (SP k i sm); reflexivity.
  - (* OR *) cbn [key_class wf_key depth] in *. apply andb_true_iff in W as [W1 W2].
    destruct (key_class a mb) eqn:C1; [discriminate|].
    pose proof (search_key_length_key mb a (key_tokens b ++ rest ++ ctx) W1 C1) as KL1.
    pose proof (search_key_length_key mb b (rest ++ ctx) W2 C) as KL2.
    cbn [key_tokens app]. rewrite <- app_assoc. rewrite el_or. cbv zeta.
    replace ((key_tokens a ++ key_tokens b ++ rest) ++ ctx) with (key_tokens a ++ key_tokens b ++ rest ++ ctx)
      by (now rewrite <- !app_assoc).
    rewrite KL1, skipn_len_app, KL2.
    replace (length (key_tokens a ++ key_tokens b ++ rest) <? length (key_tokens a) + length (key_tokens b))%nat with false
      by (symmetry; apply Nat.ltb_ge; rewrite !app_length; lia).
    rewrite !skipn_len_app, firstn_len_app, firstn_len_app.
    replace (skipn (length (key_tokens a) + length (key_tokens b)) (key_tokens a ++ key_tokens b ++ rest)) with rest
      by (rewrite app_assoc, <- app_length; symmetry; apply skipn_len_app).
    destruct f as [|[|f]]; try lia.
    pose proof (IHa W1 eq_refl (S f) [] ((key_tokens b ++ rest) ++ ctx) ltac:(lia)) as Ea. rewrite app_nil_r in Ea. rewrite Ea.
    pose proof (IHb W2 C (S f) [] (rest ++ ctx) ltac:(lia)) as Eb. rewrite app_nil_r in Eb. rewrite Eb.
    cbn [eval_loop andk]. cbn [spec_eval]. destruct (SP a i sm), (SP b i sm); reflexivity.
  - (* parenthesised list *) cbn [key_class wf_key depth] in *. apply andb_true_iff in W as [W _].
    apply first_class_none in C. rewrite forallb_forall in W.
    cbn [key_tokens app]. rewrite el_group by (rewrite upper_group; apply is_group_group).
    rewrite group_inner_group.
    assert (TO : forallb tok_ok (flat_map key_tokens l) = true).
    { apply (flat_toks_ok (fun _ => True)). rewrite Forall_forall in *. intros k Hk. apply key_toks_ok with (mb := mb); auto. }
    rewrite parse_print by exact TO.
    destruct f as [|f]; [lia|].
    rewrite (list_step l); [| | fold (pdepth l) in L; lia].
    + cbn [seqk spec_eval]. unfold spec_all. destruct (forallb _ l); reflexivity.
    + rewrite Forall_forall in *. intros k Hk f' rest' ctx' L'. apply IH; auto.
Qed.

Lemma prog_step ks : forallb wf_key ks = true -> classify ks mb = None ->
  forall f, (pdepth ks <= f)%nat -> EV (S f) (prog_tokens ks) [] = Some (spec_all nseq maxuid ks i sm).
Proof.
  intros W C f L. apply list_step; [|exact L]. rewrite forallb_forall in W.
  assert (CF : Forall (fun k => key_class k mb = None) ks).
  { clear W L. induction ks as [|k ks IH]; constructor; cbn [classify] in C; destruct (key_class k mb) eqn:E; try discriminate; auto. }
  rewrite Forall_forall in *. intros k Hk f' rest ctx L'. apply key_step; auto.
Qed.
End Prog.
