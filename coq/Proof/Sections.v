(** C14 — proofs about Model/Sections.v: size, header/text split, partial
    slicing, announced leaf size. (The part-path theorem is in SectionsTree.v.) *)
From Coq Require Import String Ascii List Bool Arith Lia.
From Raven Require Import Base.GoStr Base.GoStrFacts Model.Sections Spec.Attrs.
Import ListNotations.

(** ---- strings.Index ---- *)

Lemma index_some_split s sub : forall i,
  index s sub = Some i -> exists a b, s = a ++ sub ++ b /\ length a = i.
Proof.
  induction s as [|c s IH]; intros i H.
  - simpl in H. destruct (has_prefix [] sub) eqn:E; [|discriminate].
    injection H as <-. apply has_prefix_spec in E. destruct E as [r E].
    exists [], r. split; [exact E | reflexivity].
  - cbn [index] in H. destruct (has_prefix (c :: s) sub) eqn:E.
    + injection H as <-. apply has_prefix_spec in E. destruct E as [r E].
      exists [], r. split; [exact E | reflexivity].
    + destruct (index s sub) as [j|] eqn:J; [|discriminate].
      simpl in H. injection H as <-.
      destruct (IH j eq_refl) as (a & b & -> & L).
      exists (c :: a), b. split; [reflexivity | simpl; now rewrite L].
Qed.

(** ---- (a) ---- *)

Lemma size_is_length raw rows b :
  fetch_item raw rows SecAll None = Some b -> size_of raw = length b.
Proof. simpl. intros H. injection H as <-. reflexivity. Qed.

(** ---- (b) ---- *)

Inductive msg_class := HeaderBlankLine.

Definition classify_msg (raw : str) : option msg_class :=
  match index raw sep4 with Some _ => Some HeaderBlankLine | None => None end.

Lemma header_text_no_separator raw :
  classify_msg raw = None -> header_of raw ++ text_of raw = raw.
Proof.
  unfold classify_msg, header_of, text_of.
  destruct (index raw sep4); [discriminate|]. intros _. apply app_nil_r.
Qed.

(** the exact form of the defect: the two octets of the blank line are missing *)
Lemma header_text_law raw :
  classify_msg raw = Some HeaderBlankLine -> header_of raw ++ crlf ++ text_of raw = raw.
Proof.
  unfold classify_msg, header_of, text_of.
  destruct (index raw sep4) as [i|] eqn:E; [|discriminate]. intros _.
  destruct (index_some_split _ _ _ E) as (a & b & -> & L). subst i.
  unfold sep4.
  replace (length a + 2) with (length (a ++ crlf)) by (rewrite app_length; reflexivity).
  replace (length a + 4) with (length (a ++ crlf ++ crlf)) by (rewrite !app_length; simpl; lia).
  replace (a ++ (crlf ++ crlf) ++ b) with ((a ++ crlf) ++ (crlf ++ b)) at 1
    by (rewrite <- !app_assoc; reflexivity).
  rewrite firstn_app, Nat.sub_diag, firstn_all, app_nil_r.
  replace (a ++ (crlf ++ crlf) ++ b) with ((a ++ crlf ++ crlf) ++ b) at 1
    by (rewrite <- !app_assoc; reflexivity).
  rewrite skipn_app, Nat.sub_diag, skipn_all. simpl skipn.
  rewrite <- !app_assoc. reflexivity.
Qed.

Lemma header_text_fails raw :
  classify_msg raw = Some HeaderBlankLine -> header_of raw ++ text_of raw <> raw.
Proof.
  intros C E. pose proof (header_text_law raw C) as L.
  apply (f_equal (@length ascii)) in E. apply (f_equal (@length ascii)) in L.
  rewrite !app_length in *. simpl in L. lia.
Qed.

Lemma header_text_all raw :
  header_text_ok raw = true <-> classify_msg raw = None.
Proof.
  unfold header_text_ok. rewrite str_eqb_eq. split.
  - intros E. destruct (classify_msg raw) as [[]|] eqn:C; [|reflexivity].
    exfalso. exact (header_text_fails raw C E).
  - apply header_text_no_separator.
Qed.

(** ---- (e) ---- *)

Lemma partial_cut_slice p o n : partial_cut p o n = slice_spec p o n.
Proof.
  unfold partial_cut, slice_spec.
  destruct (length p <=? o) eqn:Ho.
  - apply Nat.leb_le in Ho. rewrite skipn_all2 by lia. now rewrite firstn_nil.
  - apply Nat.leb_gt in Ho.
    destruct (length p - o <? n) eqn:He; [|reflexivity].
    apply Nat.ltb_lt in He.
    rewrite !firstn_all2; [reflexivity | rewrite skipn_length; lia | rewrite skipn_length; lia].
Qed.

Inductive item_class := PartialIgnored.

Definition classify_item (s : section) (part : option (nat * nat)) : option item_class :=
  match s, part with
  | SecAll, Some _ => Some PartialIgnored
  | SecHeader, Some _ => Some PartialIgnored
  | _, _ => None
  end.

Definition expected (x : str) (part : option (nat * nat)) : str :=
  match part with None => x | Some (o, n) => slice_spec x o n end.

Lemma partial_slice raw rows s part x :
  classify_item s part = None ->
  fetch_item raw rows s None = Some x ->
  fetch_item raw rows s part = Some (expected x part).
Proof.
  destruct part as [[o n]|]; [|intros _ H; exact H].
  destruct s as [| | |p]; simpl; try discriminate; intros _.
  - intros H. injection H as <-. now rewrite partial_cut_slice.
  - destruct (section_of rows p) as [|c|r]; intros H; try discriminate.
    + injection H as <-. unfold slice_spec. rewrite skipn_nil, firstn_nil. reflexivity.
    + injection H as <-. now rewrite partial_cut_slice.
Qed.

(** the exact form of the defect: the partial is not looked at *)
Lemma partial_ignored_law raw rows s part :
  classify_item s part = Some PartialIgnored ->
  fetch_item raw rows s part = fetch_item raw rows s None.
Proof. destruct s, part as [[o n]|]; simpl; try discriminate; reflexivity. Qed.

(** ---- (c) announced size of a leaf ---- *)

Section Reader.
  Variable reader_part : str -> str.
  (** Go's multipart.Reader returns a part's content without the CRLF that
      precedes the next delimiter line *)
  Hypothesis reader_inverts_writer :
    forall w, has_suffix w crlf = true -> reader_part w = strip2 w.

  Definition announced_size (enc c : str) : nat := length (reader_part (written_content enc c)).

  Lemma has_suffix_app_crlf c : has_suffix (c ++ crlf) crlf = true.
  Proof. unfold has_suffix. rewrite rev_app_distr. apply has_prefix_app. Qed.

  Lemma strip2_app_crlf c : strip2 (c ++ crlf) = c.
  Proof.
    unfold strip2. rewrite app_length. simpl.
    replace (length c + 2 - 2) with (length c + 0) by lia.
    rewrite firstn_app_2. simpl. apply app_nil_r.
  Qed.

  Lemma written_has_crlf enc c : has_suffix (written_content enc c) crlf = true.
  Proof.
    unfold written_content.
    set (c' := if is_base64 enc && negb (already_wrapped c) then _ else c).
    destruct (has_suffix c' crlf) eqn:E; [exact E | apply has_suffix_app_crlf].
  Qed.

  Lemma leaf_size_agrees enc c :
    classify_leaf enc c = None -> announced_size enc c = length c.
  Proof.
    unfold classify_leaf, announced_size.
    destruct (str_eqb_spec (written_content enc c) (c ++ crlf)) as [E|_].
    - intros _. rewrite E, reader_inverts_writer by apply has_suffix_app_crlf.
      now rewrite strip2_app_crlf.
    - destruct (is_base64 enc && negb (already_wrapped c)); discriminate.
  Qed.

  Lemma has_suffix_split c : has_suffix c crlf = true -> exists d, c = d ++ crlf.
  Proof.
    unfold has_suffix. intros H. apply has_prefix_spec in H. destruct H as [r H].
    exists (rev r). apply (f_equal (@rev ascii)) in H.
    rewrite rev_involutive, rev_app_distr, rev_involutive in H. exact H.
  Qed.

  (** without re-wrapping, the class TrailingCRLF is exactly "content ends in CRLF" *)
  Lemma trailing_crlf_iff enc c :
    is_base64 enc && negb (already_wrapped c) = false ->
    (classify_leaf enc c = Some TrailingCRLF <-> has_suffix c crlf = true).
  Proof.
    intros B. unfold classify_leaf, written_content. rewrite B.
    destruct (has_suffix c crlf) eqn:S.
    - destruct (str_eqb_spec c (c ++ crlf)) as [E|_].
      + apply (f_equal (@length ascii)) in E. rewrite app_length in E. simpl in E. lia.
      + split; reflexivity.
    - rewrite str_eqb_refl. split; discriminate.
  Qed.

  (** the exact form of the defect: announced 2 octets less than BODY[p] returns *)
  Lemma trailing_crlf_law enc c :
    is_base64 enc && negb (already_wrapped c) = false ->
    has_suffix c crlf = true -> announced_size enc c + 2 = length c.
  Proof.
    intros B S. unfold announced_size, written_content. rewrite B, S.
    rewrite reader_inverts_writer by exact S.
    destruct (has_suffix_split c S) as [d ->].
    rewrite strip2_app_crlf, app_length. reflexivity.
  Qed.
End Reader.

(** witnesses of the defect classes (computed) *)
Definition w_raw : str := S_ "A: b" ++ crlf ++ crlf ++ S_ "body" ++ crlf.
Definition w_leaf_crlf : str := S_ "hello" ++ crlf.
Definition w_b64 : str := concat (repeat (S_ "QUJD") 30).

Lemma refuted_header_text :
  exists raw, classify_msg raw = Some HeaderBlankLine /\ header_text_ok raw = false.
Proof. exists w_raw. split; vm_compute; reflexivity. Qed.

Lemma refuted_partial_ignored :
  exists raw s o n x, classify_item s (Some (o, n)) = Some PartialIgnored /\
    fetch_item raw [] s None = Some x /\
    fetch_item raw [] s (Some (o, n)) <> Some (slice_spec x o n).
Proof.
  exists w_raw, SecAll, 0, 3, w_raw. split; [reflexivity|]. split; [reflexivity|].
  vm_compute. discriminate.
Qed.

Lemma refuted_trailing_crlf :
  forall reader_part, (forall w, has_suffix w crlf = true -> reader_part w = strip2 w) ->
  exists enc c, classify_leaf enc c = Some TrailingCRLF /\ announced_size reader_part enc c <> length c.
Proof.
  intros rp H. exists (S_ "7bit"), w_leaf_crlf. split; [vm_compute; reflexivity|].
  unfold announced_size. rewrite H by (vm_compute; reflexivity). vm_compute. discriminate.
Qed.

Lemma refuted_rewrap :
  forall reader_part, (forall w, has_suffix w crlf = true -> reader_part w = strip2 w) ->
  exists enc c, classify_leaf enc c = Some Rewrap /\ announced_size reader_part enc c <> length c.
Proof.
  intros rp H. exists (S_ "base64"), w_b64. split; [vm_compute; reflexivity|].
  unfold announced_size. rewrite H by (vm_compute; reflexivity). vm_compute. discriminate.
Qed.
