(** C14 — proofs about Model/Sections.v: size, header/text split, partial
    slicing, announced leaf size. (The part-path theorem is in SectionsTree.v.) *)
From Coq Require Import String Ascii List Bool Arith NArith Lia.
From Raven Require Import Base.GoStr Base.GoStrFacts Model.Sections Spec.Attrs.
Import ListNotations.

(** ---- strings.Index ---- *)

Lemma index_some_split s sub : forall i,
  index s sub = Some i -> exists a b, s = a ++ sub ++ b /\ length a = i.
Proof.
  induction s as [|c s IH]; intros i H.
  - simpl in H. destruct (has_prefix [] sub) eqn:E; [|discriminate].
    injection H as <-. apply has_prefix_spec in E. destruct E as [r E].
    exists [], r. split; [exact E | reflexivity].
  - cbn [index] in H. destruct (has_prefix (c :: s) sub) eqn:E.
    + injection H as <-. apply has_prefix_spec in E. destruct E as [r E].
      exists [], r. split; [exact E | reflexivity].
    + destruct (index s sub) as [j|] eqn:J; [|discriminate].
      simpl in H. injection H as <-.
      destruct (IH j eq_refl) as (a & b & -> & L).
      exists (c :: a), b. split; [reflexivity | simpl; now rewrite L].
Qed.

(** ---- loadRawMsg is the identity on every text that has a CRLF ---- *)

Lemma load_raw_transparent recon : contains recon crlf = true -> load_raw recon = recon.
Proof. unfold load_raw. now intros ->. Qed.

(** ---- (a) ---- *)

Lemma size_is_length raw rows b :
  fetch_item raw rows SecAll None = Some b -> size_of raw = length b.
Proof. simpl. intros H. injection H as <-. reflexivity. Qed.

(** ---- (b) ---- *)

Lemma header_text raw : header_of raw ++ text_of raw = raw.
Proof.
  unfold header_of, text_of.
  destruct (index raw sep4) as [i|]; [apply firstn_skipn | apply app_nil_r].
Qed.

Lemma header_text_ok_all raw : header_text_ok raw = true.
Proof. unfold header_text_ok. apply str_eqb_eq, header_text. Qed.

(** the header section is everything before the first blank line, and the blank line *)
Lemma header_ends_with_blank_line raw i :
  index raw sep4 = Some i -> header_of raw = firstn i raw ++ sep4.
Proof.
  intros E. unfold header_of. rewrite E.
  destruct (index_some_split _ _ _ E) as (a & b & -> & L). subst i.
  replace (length a + 4) with (length (a ++ sep4)) by (rewrite app_length; reflexivity).
  rewrite app_assoc. rewrite firstn_app, Nat.sub_diag, firstn_all. cbn [firstn]. rewrite app_nil_r.
  rewrite <- app_assoc. rewrite firstn_app, Nat.sub_diag, firstn_all. cbn [firstn]. now rewrite app_nil_r.
Qed.

(** ---- (e) ---- *)

Lemma partial_cut_slice p o n : partial_cut p o n = slice_spec p o n.
Proof.
  unfold partial_cut, slice_spec.
  destruct (length p <=? o) eqn:Ho.
  - apply Nat.leb_le in Ho. rewrite skipn_all2 by lia. now rewrite firstn_nil.
  - apply Nat.leb_gt in Ho.
    destruct (length p - o <? n) eqn:He; [|reflexivity].
    apply Nat.ltb_lt in He.
    rewrite !firstn_all2; [reflexivity | rewrite skipn_length; lia | rewrite skipn_length; lia].
Qed.

Definition expected (x : str) (part : option (nat * nat)) : str :=
  match part with None => x | Some (o, n) => slice_spec x o n end.

Lemma cut_expected x part : cut x part = expected x part.
Proof. destruct part as [[o n]|]; [apply partial_cut_slice | reflexivity]. Qed.

Lemma partial_slice raw rows s part x :
  fetch_item raw rows s None = Some x ->
  fetch_item raw rows s part = Some (expected x part).
Proof.
  destruct s as [| | |p]; cbn [fetch_item cut].
  - intros H. injection H as <-. now rewrite cut_expected.
  - intros H. injection H as <-. now rewrite cut_expected.
  - intros H. injection H as <-. now rewrite cut_expected.
  - destruct (section_of rows p) as [|c|r]; intros H; try discriminate.
    + injection H as <-. destruct part as [[o n]|]; [|reflexivity].
      cbn [expected]. unfold slice_spec. now rewrite skipn_nil, firstn_nil.
    + injection H as <-. now rewrite cut_expected.
Qed.

(** ---- (c) announced size of a leaf ---- *)

Section Reader.
  Variable reader_part : str -> str.
  (** Go's multipart.Reader returns a part's content without the CRLF that
      precedes the next delimiter line *)
  Hypothesis reader_inverts_writer :
    forall w, has_suffix w crlf = true -> reader_part w = strip2 w.

  Definition announced_size (enc c : str) : nat := length (reader_part (written_content enc c)).

  Lemma has_suffix_app_crlf c : has_suffix (c ++ crlf) crlf = true.
  Proof. unfold has_suffix. rewrite rev_app_distr. apply has_prefix_app. Qed.

  Lemma strip2_app_crlf c : strip2 (c ++ crlf) = c.
  Proof.
    unfold strip2. rewrite app_length. simpl.
    replace (length c + 2 - 2) with (length c + 0) by lia.
    rewrite firstn_app_2. simpl. apply app_nil_r.
  Qed.

  (** for EVERY leaf: what BODYSTRUCTURE announces is the length of what BODY[p] returns *)
  Lemma leaf_size_agrees enc c : announced_size enc c = length c.
  Proof.
    unfold announced_size, written_content.
    rewrite reader_inverts_writer by apply has_suffix_app_crlf.
    now rewrite strip2_app_crlf.
  Qed.

  (** and the reader gives back the stored content itself *)
  Lemma leaf_content_agrees enc c : reader_part (written_content enc c) = c.
  Proof.
    unfold written_content. rewrite reader_inverts_writer by apply has_suffix_app_crlf.
    apply strip2_app_crlf.
  Qed.
End Reader.

(** witnesses of the defect classes (computed) *)
Definition w_raw : str := S_ "A: b" ++ crlf ++ crlf ++ S_ "body" ++ crlf.
Definition w_leaf_crlf : str := S_ "hello" ++ crlf.
Definition w_b64 : str := concat (repeat (S_ "QUJD") 30).

(** regression examples about the behaviour before the repairs (stand-alone
    definitions, not the current model): the header cut msg[:i+2] lost the
    blank line; a partial on BODY[] was not applied *)
Example old_header_cut_lost_the_blank_line :
  firstn (4 + 2) w_raw ++ skipn (4 + 4) w_raw <> w_raw /\ index w_raw sep4 = Some 4.
Proof. split; [vm_compute; discriminate | vm_compute; reflexivity]. Qed.

Example old_whole_item_is_not_the_slice : w_raw <> slice_spec w_raw 0 3.
Proof. vm_compute. discriminate. Qed.

(** ---- the writer before the repairs (stand-alone, for regression examples):
    CRLF appended only when absent; base64 text re-wrapped at 76 ---- *)
Fixpoint old_wrap76 (fuel : nat) (s : str) : str :=
  match fuel with
  | O => []
  | S f => match s with [] => [] | _ => firstn 76 s ++ crlf ++ old_wrap76 f (skipn 76 s) end
  end.
Definition old_written_content (base64 : bool) (content : str) : str :=
  let content :=
    if base64
    then let raw := filter (fun c => negb (Ascii.eqb c CR) && negb (Ascii.eqb c LF)) content in
         old_wrap76 (S (length raw)) raw
    else content in
  if has_suffix content crlf then content else content ++ crlf.

Example old_trailing_crlf_announced_two_less :
  length (strip2 (old_written_content false w_leaf_crlf)) + 2 = length w_leaf_crlf.
Proof. vm_compute. reflexivity. Qed.

Example old_rewrap_announced_another_size :
  length (strip2 (old_written_content true w_b64)) = 122 /\ length w_b64 = 120.
Proof. split; vm_compute; reflexivity. Qed.

(** regression record (seeded change C14-3): a slice that counts UTF-8
    CHARACTERS (what SQLite's substr does on a TEXT value) is not the octet
    slice <o.n> as soon as a 2-octet sequence is involved.  Stand-alone
    definition; the model's contents are octet strings ([str]) and
    [partial_cut] counts octets. *)
Definition is_cont (c : ascii) : bool := ((128 <=? N_of_ascii c) && (N_of_ascii c <=? 191))%N.
Fixpoint drop_conts (s : str) : str :=
  match s with [] => [] | c :: s' => if is_cont c then drop_conts s' else s end.
Fixpoint skip_chars (k : nat) (s : str) : str :=
  match k, s with
  | O, _ => s
  | S k', [] => []
  | S k', _ :: s' => skip_chars k' (drop_conts s')
  end.
Fixpoint take_chars (k : nat) (s : str) : str :=
  match k, s with
  | O, _ => []
  | S k', [] => []
  | S k', c :: s' =>
      let rest := drop_conts s' in
      c :: firstn (length s' - length rest) s' ++ take_chars k' rest
  end.
Definition char_slice (s : str) (o n : nat) : str := take_chars n (skip_chars o s).

Definition w_e_acute_a : str := bs [195; 169; 97]%nat.     (* U+00E9 as C3 A9, then "a" *)

Example char_slice_is_not_the_octet_slice :
  char_slice w_e_acute_a 1 1 = bs [97]%nat /\ slice_spec w_e_acute_a 1 1 = bs [169]%nat /\
  char_slice w_e_acute_a 0 1 = bs [195; 169]%nat /\ slice_spec w_e_acute_a 0 1 = bs [195]%nat.
Proof. repeat split; vm_compute; reflexivity. Qed.
