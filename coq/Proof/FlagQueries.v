(** C10 — (a) in readable form, (b) the flag queries, (c) copies. *)
From Coq Require Import String Ascii List Bool Arith ZArith Lia.
From Raven Require Import Base.GoStr Base.GoStrFacts Model.Flags Spec.FlagSet Proof.Flags Model.FlagStore
     Spec.FlagHistory Proof.FlagStore Proof.FlagStoreSeq.
Import ListNotations.
Local Open Scope Z_scope.

(** what the reference update does to one row *)
Definition row_ok (mb : Z) (T : list Z) (it : item) (new : list str) (l l' : link) : Prop :=
  lk_msg l' = lk_msg l /\ lk_mbox l' = lk_mbox l /\ lk_uid l' = lk_uid l /\
  (if in_mbox mb l && memZ (lk_uid l) T
   then (forall k, In k (keys (lk_flags l')) <-> apply_rel it (lk_flags l) new k)
        /\ NoDup (keys (lk_flags l'))
        /\ (forall f, In f (lk_flags l') -> In f (lk_flags l) \/ In f new)
   else l' = l).

Lemma spec_update_meaning ls mb T s it new :
  item_of s = Some it -> Forall2 (row_ok mb T it new) ls (spec_update ls mb T s new).
Proof.
  intros Hi. rewrite spec_update_upd. induction ls as [|l ls IH]; simpl; constructor; [|assumption].
  unfold row_ok. rewrite upd_msg_, upd_mbox_, upd_uid_. repeat split.
  unfold upd. destruct (in_mbox mb l && memZ (lk_uid l) T); [|reflexivity].
  simpl. now apply calculate_new_flags_exact.
Qed.

Theorem uid_store_meaning e s silent mb q item new it :
  uniq_keys (links s) -> item_of item = Some it -> flags_valid new = true ->
  classify e s (OUidStore false silent mb q item new) = None ->
  let s' := step e s (OUidStore false silent mb q item new) in
  Forall2 (row_ok mb (expand_uid (links s) mb q) it new) (links s) (links s')
  /\ nexts s' = nexts s /\ next_msg s' = next_msg s.
Proof.
  intros Hu Hi Hv Hc. rewrite (step_exact e s _ Hu Hc). simpl. rewrite Hv. simpl. split; [|auto]. now apply spec_update_meaning.
Qed.

Theorem seq_store_meaning e s silent mb q item new it :
  uniq_keys (links s) -> item_of item = Some it -> flags_valid new = true ->
  classify e s (OStore false silent mb q item new) = None ->
  let s' := step e s (OStore false silent mb q item new) in
  Forall2 (row_ok mb (seq_targets (links s) mb q) it new) (links s) (links s')
  /\ nexts s' = nexts s /\ next_msg s' = next_msg s.
Proof.
  intros Hu Hi Hv Hc. rewrite (step_exact e s _ Hu Hc). simpl. rewrite Hv. simpl. split; [|auto]. now apply spec_update_meaning.
Qed.

(** the sequence set denotes rows of the selected mailbox: every target is the
    uid of the row at an expanded position *)
Lemma seq_targets_spec ls mb q u :
  In u (seq_targets ls mb q) <->
  exists n l, In n (expand_seq ls mb q) /\ nth_link ls mb n = Some l /\ lk_uid l = u.
Proof.
  unfold seq_targets. rewrite in_flat_map. split.
  - intros [n [Hn Hu]]. destruct (nth_link ls mb n) as [l|] eqn:E; [|contradiction].
    destruct Hu as [<-|[]]. now exists n, l.
  - intros [n [l [Hn [Hl <-]]]]. exists n. split; [assumption|]. rewrite Hl. now left.
Qed.

(** (c) rows outside the selected mailbox are never touched by a STORE *)
Theorem store_other_mailbox_untouched e s o mb :
  uniq_keys (links s) -> classify e s o = None ->
  (exists si q item new, o = OStore false si mb q item new \/ o = OUidStore false si mb q item new) ->
  forall l, In l (links s) -> lk_mbox l <> mb -> In l (links (step e s o)).
Proof.
  intros Hu Hc [si [q [item [new Ho]]]] l Hl Hmb. rewrite (step_exact e s o Hu Hc).
  assert (K : forall T, In l (spec_update (links s) mb T item new)).
  { intros T. rewrite spec_update_upd. apply in_map_iff. exists l. split; [|assumption].
    unfold upd, in_mbox. apply Z.eqb_neq in Hmb. now rewrite Hmb. }
  destruct Ho as [->| ->]; simpl; destruct (negb (flags_valid new)); simpl; try assumption; apply K.
Qed.

(** flags a copy starts with: the original's, plus \Recent unless it is there
    in some spelling *)
Lemma copy_flags_spec fl f :
  In f (copy_flags fl) <-> In f fl \/ (f = RECENT /\ ~ In (fkey RECENT) (keys fl)).
Proof.
  unfold copy_flags. destruct (mem_ci RECENT fl) eqn:E.
  - apply mem_ci_In in E. split; [auto | intros [H|[_ H]]; [assumption | contradiction]].
  - apply mem_ci_false in E. rewrite in_app_iff. simpl.
    split; [intros [H|[<-|[]]]; auto | intros [H|[-> _]]; auto].
Qed.

Lemma copy_flags_recent fl : In (fkey RECENT) (keys (copy_flags fl)).
Proof.
  unfold copy_flags. destruct (mem_ci RECENT fl) eqn:E; [now apply mem_ci_In|].
  rewrite keys_app, in_app_iff. right. now left.
Qed.

(** (d) an operation of a session that opened the mailbox with EXAMINE changes nothing *)
Definition read_only_op (o : op) : Prop :=
  match o with
  | OStore ro _ _ _ _ _ => ro = true
  | OUidStore ro _ _ _ _ _ => ro = true
  | OExpunge ro _ => ro = true
  | _ => False
  end.

Theorem examine_changes_nothing e s o : read_only_op o -> step e s o = s.
Proof. destruct o; simpl; try contradiction; intros ->; reflexivity. Qed.

(** ---------- (b) queries: whole-word, case-insensitive tests are membership
    of the flag's key ---------- *)

Lemma has_flag_exact fl q : has_flag fl q = has_key_of q fl.
Proof. apply mem_ci_keys. Qed.

Lemma key_holds_exact k fl : key_holds k fl = spec_key_holds k fl.
Proof. destruct k; simpl; now rewrite ?has_flag_exact. Qed.

Lemma positions_ext {A} (p q : A -> bool) l : (forall x, p x = q x) ->
  forall i, positions p i l = positions q i l.
Proof.
  intros H. induction l as [|x l IH]; simpl; intros i; [reflexivity|]. now rewrite H, IH.
Qed.

Lemma filter_ext_l {A} (p q : A -> bool) l : (forall x, p x = q x) -> filter p l = filter q l.
Proof. intros H. induction l as [|x l IH]; simpl; [reflexivity|]. now rewrite H, IH. Qed.

Theorem search_exact ls mb k : search ls mb k = spec_search ls mb k.
Proof. unfold search, spec_search. apply positions_ext. intros l. apply key_holds_exact. Qed.

Theorem unseen_exact ls mb :
  unseen_count ls mb = spec_unseen_count ls mb /\ first_unseen ls mb = spec_first_unseen ls mb.
Proof.
  unfold unseen_count, spec_unseen_count, first_unseen, spec_first_unseen. split.
  - f_equal. f_equal. apply filter_ext_l. intros l. now rewrite has_flag_exact.
  - f_equal. apply positions_ext. intros l. now rewrite has_flag_exact.
Qed.

(** what FETCH (UID FLAGS) reports is the table: a row is in the view of its mailbox *)
Lemma view_complete ls mb l : In l ls -> lk_mbox l = mb -> In (lk_uid l, lk_flags l) (view ls mb).
Proof.
  intros Hl Hm. unfold view. apply in_map_iff. exists l. split; [reflexivity|]. now apply mbox_links_In.
Qed.
Lemma view_sound ls mb u fl : In (u, fl) (view ls mb) -> exists l, In l ls /\ lk_mbox l = mb /\ lk_uid l = u /\ lk_flags l = fl.
Proof.
  unfold view. intros H. apply in_map_iff in H. destruct H as [l [[= <- <-] Hl]].
  apply mbox_links_In in Hl. exists l. tauto.
Qed.
Lemma view_iff ls mb u fl :
  In (u, fl) (view ls mb) <-> exists l, In l ls /\ lk_mbox l = mb /\ lk_uid l = u /\ lk_flags l = fl.
Proof.
  split; [apply view_sound|]. intros [l [Hl [Hm [<- <-]]]]. now apply view_complete.
Qed.

(** ---------- the auto-move fails: no mailbox is named Spam ---------- *)

Lemma will_move_no_spam e mb item new l : mb = inbox_id e -> will_move e None mb item new l = false.
Proof.
  intros ->. unfold will_move. destruct (junk_added _ _); [reflexivity|].
  destruct (nonjunk_added _ _); [|reflexivity]. now rewrite Z.eqb_refl.
Qed.

Lemma junk_class_no_spam e mb item new rows : mb = inbox_id e -> junk_class e None mb item new rows = None.
Proof.
  intros H. unfold junk_class. replace (existsb (will_move e None mb item new) rows) with false; [reflexivity|].
  symmetry. induction rows as [|l rows IH]; simpl; [reflexivity|]. now rewrite (will_move_no_spam e mb item new l H).
Qed.

(** With Spam renamed or deleted, MoveMessageToMailbox fails ("destination
    mailbox not found") and STORE / UID STORE in INBOX store Junk - and every
    flag named with it - in place, like any other flag: the accepted STORE is
    exact for every set, data item, flag list and .SILENT. *)
Theorem failed_move_stores_in_place e s silent mb q item new it :
  uniq_keys (links s) -> item_of item = Some it -> flags_valid new = true ->
  spam s = None -> mb = inbox_id e ->
  Forall2 (row_ok mb (seq_targets (links s) mb q) it new) (links s) (links (step e s (OStore false silent mb q item new)))
  /\ Forall2 (row_ok mb (expand_uid (links s) mb q) it new) (links s) (links (step e s (OUidStore false silent mb q item new))).
Proof.
  intros Hu Hi Hv Hs Hm. split.
  - apply (seq_store_meaning e s silent mb q item new it Hu Hi Hv). simpl. rewrite Hv, Hs. simpl. now apply junk_class_no_spam.
  - apply (uid_store_meaning e s silent mb q item new it Hu Hi Hv). simpl. rewrite Hv, Hs. simpl. now apply junk_class_no_spam.
Qed.

(** ---------- reports do not depend on the asking session ---------- *)

(** STATUS UNSEEN / MESSAGES of any two sessions - whatever they have selected
    (the mailbox asked about or another or none), however they selected it, and
    whatever their cached counters hold - are equal; SEARCH and FETCH of two
    sessions that have the same mailbox selected are equal. *)
Theorem reports_independent_of_session ss ss' s :
  (forall mb, status_unseen ss s mb = status_unseen ss' s mb)
  /\ (forall mb, status_messages ss s mb = status_messages ss' s mb)
  /\ (ss_selected ss = ss_selected ss' ->
      (forall k, sess_search ss s k = sess_search ss' s k) /\ sess_fetch ss s = sess_fetch ss' s).
Proof.
  split; [reflexivity|]. split; [reflexivity|]. unfold sess_search, sess_fetch. intros ->. split; reflexivity.
Qed.

(** ... and they are the set-membership answers about the table *)
Theorem session_reports_exact ss s :
  (forall mb, status_unseen ss s mb = spec_unseen_count (links s) mb)
  /\ (forall k, sess_search ss s k = spec_search (links s) (ss_selected ss) k)
  /\ (forall u fl, In (u, fl) (sess_fetch ss s) <->
        exists l, In l (links s) /\ lk_mbox l = ss_selected ss /\ lk_uid l = u /\ lk_flags l = fl)
  /\ (forall mb, status_messages ss s mb = Z.of_nat (length (view (links s) mb))).
Proof.
  split; [intros mb; apply unseen_exact|]. split; [intros k; apply search_exact|].
  split; [intros u fl; apply view_iff|].
  intros mb. unfold status_messages, view, mbox_links. rewrite map_length. f_equal.
  assert (K : forall l, length (sort_uid l) = length l).
  { induction l as [|x l IH]; [reflexivity|]. unfold sort_uid in *. simpl.
    assert (Hi : forall y m, length (ins_uid y m) = S (length m)).
    { intros y m. induction m as [|z m IHm]; simpl; [reflexivity|]. destruct (lk_uid y <=? lk_uid z); simpl; [reflexivity | now rewrite IHm]. }
    now rewrite Hi, IH. }
  now rewrite K.
Qed.
