(** C10 — (a) in readable form, (b) the flag queries, (c) copies. *)
From Coq Require Import String Ascii List Bool Arith ZArith Lia.
From Raven Require Import Base.GoStr Base.GoStrFacts Model.Flags Spec.FlagSet Proof.Flags Model.FlagStore
     Spec.FlagHistory Proof.FlagStore Proof.FlagStoreSeq.
Import ListNotations.
Local Open Scope Z_scope.

(** what the reference update does to one row *)
Definition row_ok (mb : Z) (T : list Z) (it : item) (new : list str) (l l' : link) : Prop :=
  lk_msg l' = lk_msg l /\ lk_mbox l' = lk_mbox l /\ lk_uid l' = lk_uid l /\
  (if in_mbox mb l && memZ (lk_uid l) T
   then (forall f, In f (lk_flags l') <-> apply_rel it (lk_flags l) new f) /\ NoDup (lk_flags l')
   else l' = l).

Lemma spec_update_meaning ls mb T s it new :
  item_of s = Some it -> Forall2 (row_ok mb T it new) ls (spec_update ls mb T s new).
Proof.
  intros Hi. rewrite spec_update_upd. induction ls as [|l ls IH]; simpl; constructor; [|assumption].
  unfold row_ok. rewrite upd_msg_, upd_mbox_, upd_uid_. repeat split.
  unfold upd. destruct (in_mbox mb l && memZ (lk_uid l) T); [|reflexivity].
  simpl. now apply calculate_new_flags_exact.
Qed.

Theorem uid_store_meaning e s silent mb q item new it :
  uniq_keys (links s) -> item_of item = Some it ->
  classify e s (OUidStore false silent mb q item new) = None ->
  let s' := step e s (OUidStore false silent mb q item new) in
  Forall2 (row_ok mb (expand_uid (links s) mb q) it new) (links s) (links s')
  /\ nexts s' = nexts s /\ next_msg s' = next_msg s.
Proof.
  intros Hu Hi Hc. rewrite (step_exact e s _ Hu Hc). simpl. split; [|auto]. now apply spec_update_meaning.
Qed.

Theorem seq_store_meaning e s silent mb q item new it :
  uniq_keys (links s) -> item_of item = Some it ->
  classify e s (OStore false silent mb q item new) = None ->
  let s' := step e s (OStore false silent mb q item new) in
  Forall2 (row_ok mb (seq_targets (links s) mb q) it new) (links s) (links s')
  /\ nexts s' = nexts s /\ next_msg s' = next_msg s.
Proof.
  intros Hu Hi Hc. rewrite (step_exact e s _ Hu Hc). simpl. split; [|auto]. now apply spec_update_meaning.
Qed.

(** the sequence set denotes rows of the selected mailbox: every target is the
    uid of the row at an expanded position *)
Lemma seq_targets_spec ls mb q u :
  In u (seq_targets ls mb q) <->
  exists n l, In n (expand_seq ls mb q) /\ nth_link ls mb n = Some l /\ lk_uid l = u.
Proof.
  unfold seq_targets. rewrite in_flat_map. split.
  - intros [n [Hn Hu]]. destruct (nth_link ls mb n) as [l|] eqn:E; [|contradiction].
    destruct Hu as [<-|[]]. now exists n, l.
  - intros [n [l [Hn [Hl <-]]]]. exists n. split; [assumption|]. rewrite Hl. now left.
Qed.

(** (c) rows outside the selected mailbox are never touched by a STORE *)
Theorem store_other_mailbox_untouched e s o mb :
  uniq_keys (links s) -> classify e s o = None ->
  (exists si q item new, o = OStore false si mb q item new \/ o = OUidStore false si mb q item new) ->
  forall l, In l (links s) -> lk_mbox l <> mb -> In l (links (step e s o)).
Proof.
  intros Hu Hc [si [q [item [new Ho]]]] l Hl Hmb. rewrite (step_exact e s o Hu Hc).
  assert (K : forall T, In l (spec_update (links s) mb T item new)).
  { intros T. rewrite spec_update_upd. apply in_map_iff. exists l. split; [|assumption].
    unfold upd, in_mbox. apply Z.eqb_neq in Hmb. now rewrite Hmb. }
  destruct Ho as [->| ->]; simpl; apply K.
Qed.

(** flags a copy starts with: the original's, plus \Recent unless some atom contains it *)
Lemma copy_flags_spec fl f :
  In f (copy_flags fl) <-> In f fl \/ (f = RECENT /\ flags_contain fl RECENT = false).
Proof.
  unfold copy_flags, flags_contain. destruct (existsb _ fl).
  - split; [auto | intros [H|[_ H]]; [assumption | discriminate]].
  - rewrite in_app_iff. simpl. split; [intros [H|[<-|[]]]; auto | intros [H|[-> _]]; auto].
Qed.

(** ---------- (b) queries ---------- *)

Lemma contains_refl q : contains q q = true.
Proof.
  unfold contains. destruct q as [|c q]; [reflexivity|].
  cbn [index]. pose proof (has_prefix_app [] (c :: q)) as H. rewrite app_nil_r in H. now rewrite H.
Qed.

Lemma flags_contain_exact fl q : no_proper_super fl q = true -> flags_contain fl q = mem q fl.
Proof.
  unfold no_proper_super, flags_contain, mem. induction fl as [|f fl IH]; simpl; [reflexivity|].
  intros H. apply andb_true_iff in H. destruct H as [H1 H2]. rewrite (IH H2). f_equal.
  destruct (str_eqb_spec f q) as [->|Hn].
  - now rewrite contains_refl, str_eqb_refl.
  - rewrite orb_false_r in H1. apply negb_true_iff in H1. rewrite H1.
    symmetry. apply str_eqb_neq. congruence.
Qed.

Lemma like_has_exact fl q : no_proper_super_ci fl q = true -> like_has fl q = mem q fl.
Proof.
  unfold no_proper_super_ci, like_has, mem. induction fl as [|f fl IH]; simpl; [reflexivity|].
  intros H. apply andb_true_iff in H. destruct H as [H1 H2]. rewrite (IH H2). f_equal.
  destruct (str_eqb_spec f q) as [->|Hn].
  - now rewrite contains_refl, str_eqb_refl.
  - rewrite orb_false_r in H1. apply negb_true_iff in H1. rewrite H1.
    symmetry. apply str_eqb_neq. congruence.
Qed.

Lemma key_holds_exact k fl :
  (forall q, In q (key_atoms k) -> no_proper_super fl q = true) -> key_holds k fl = spec_key_holds k fl.
Proof.
  intros H. destruct k as [q|q|]; simpl in *.
  - apply flags_contain_exact, H. now left.
  - f_equal. apply flags_contain_exact, H. now left.
  - rewrite !flags_contain_exact; auto.
Qed.

Lemma positions_ext {A} (p q : A -> bool) l : (forall x, In x l -> p x = q x) ->
  forall i, positions p i l = positions q i l.
Proof.
  induction l as [|x l IH]; simpl; intros H i; [reflexivity|].
  rewrite (H x (or_introl eq_refl)), IH; [reflexivity|]. intros y Hy. apply H. now right.
Qed.

Theorem search_exact ls mb k :
  (forall l q, In l ls -> lk_mbox l = mb -> In q (key_atoms k) -> no_proper_super (lk_flags l) q = true) ->
  search ls mb k = spec_search ls mb k.
Proof.
  intros H. unfold search, spec_search. apply positions_ext. intros l Hl.
  apply mbox_links_In in Hl. destruct Hl as [Hl Hm]. apply key_holds_exact. intros q Hq. now apply (H l q).
Qed.

Lemma filter_ext_in_l {A} (p q : A -> bool) l : (forall x, In x l -> p x = q x) -> filter p l = filter q l.
Proof.
  induction l as [|x l IH]; simpl; intros H; [reflexivity|].
  rewrite (H x (or_introl eq_refl)), IH; [reflexivity|]. intros y Hy. apply H. now right.
Qed.

Theorem unseen_exact ls mb :
  (forall l, In l ls -> lk_mbox l = mb -> no_proper_super_ci (lk_flags l) SEEN = true) ->
  unseen_count ls mb = spec_unseen_count ls mb /\ first_unseen ls mb = spec_first_unseen ls mb.
Proof.
  intros H. unfold unseen_count, spec_unseen_count, first_unseen, spec_first_unseen. split.
  - f_equal. f_equal. apply filter_ext_in_l. intros l Hl. apply filter_In in Hl. destruct Hl as [Hl Hm].
    f_equal. apply like_has_exact, H; [assumption|]. unfold in_mbox in Hm. now apply Z.eqb_eq.
  - f_equal. apply positions_ext. intros l Hl. apply mbox_links_In in Hl. destruct Hl as [Hl Hm].
    f_equal. now apply like_has_exact, H.
Qed.

(** what FETCH (UID FLAGS) reports is the table: a row is in the view of its mailbox *)
Lemma view_complete ls mb l : In l ls -> lk_mbox l = mb -> In (lk_uid l, lk_flags l) (view ls mb).
Proof.
  intros Hl Hm. unfold view. apply in_map_iff. exists l. split; [reflexivity|]. now apply mbox_links_In.
Qed.
Lemma view_sound ls mb u fl : In (u, fl) (view ls mb) -> exists l, In l ls /\ lk_mbox l = mb /\ lk_uid l = u /\ lk_flags l = fl.
Proof.
  unfold view. intros H. apply in_map_iff in H. destruct H as [l [[= <- <-] Hl]].
  apply mbox_links_In in Hl. exists l. tauto.
Qed.
Lemma view_iff ls mb u fl :
  In (u, fl) (view ls mb) <-> exists l, In l ls /\ lk_mbox l = mb /\ lk_uid l = u /\ lk_flags l = fl.
Proof.
  split; [apply view_sound|]. intros [l [Hl [Hm [<- <-]]]]. now apply view_complete.
Qed.
