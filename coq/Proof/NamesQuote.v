(** C11: the token LIST/LSUB/STATUS write for a mailbox name (utils.QuoteString)
    reads back, as an IMAP quoted string, as exactly that name -- all byte strings. *)
From Coq Require Import String Ascii List Bool Arith.
From Raven Require Import Base.GoStr Base.GoStrFacts Model.Pattern Model.Names Spec.Names.
Import ListNotations.

Definition esc1 (c : ascii) : str :=
  if Ascii.eqb c bslash then [bslash; bslash] else if Ascii.eqb c dq then [bslash; dq] else [c].

Lemma replace_twice s :
  replace_byte (replace_byte s bslash [bslash; bslash]) dq [bslash; dq] = flat_map esc1 s.
Proof.
  unfold replace_byte. induction s as [|c s IH]; simpl; [reflexivity|].
  rewrite flat_map_app, IH. f_equal. unfold esc1.
  destruct (Ascii.eqb c bslash) eqn:E; simpl.
  - reflexivity.
  - destruct (Ascii.eqb c dq); reflexivity.
Qed.

Lemma unescape_bs_bs s : unescape (bslash :: bslash :: s) = option_map (cons bslash) (unescape s).
Proof. reflexivity. Qed.
Lemma unescape_bs_dq s : unescape (bslash :: dq :: s) = option_map (cons dq) (unescape s).
Proof. reflexivity. Qed.
Lemma unescape_plain c s :
  Ascii.eqb c bslash = false -> Ascii.eqb c dq = false -> unescape (c :: s) = option_map (cons c) (unescape s).
Proof. intros H1 H2. cbn [unescape]. unfold bsl. now rewrite H1, H2. Qed.

Lemma unescape_esc s : unescape (flat_map esc1 s) = Some s.
Proof.
  induction s as [|c s IH]; [reflexivity|]. cbn [flat_map]. unfold esc1 at 1.
  destruct (Ascii.eqb c bslash) eqn:Eb.
  - apply Ascii.eqb_eq in Eb. subst c. cbn [app]. now rewrite unescape_bs_bs, IH.
  - destruct (Ascii.eqb c dq) eqn:Eq.
    + apply Ascii.eqb_eq in Eq. subst c. cbn [app]. now rewrite unescape_bs_dq, IH.
    + cbn [app]. now rewrite unescape_plain, IH.
Qed.

Lemma decode_quoted r : decode_astring (dq :: r ++ [dq]) = unescape r.
Proof.
  unfold decode_astring. replace (Ascii.eqb dq dq) with true by reflexivity.
  rewrite rev_app_distr. cbn [rev app]. replace (Ascii.eqb dq dq) with true by reflexivity.
  now rewrite rev_involutive.
Qed.

Theorem quote_string_reads_back s : decode_astring (quote_string s) = Some s.
Proof. unfold quote_string. rewrite replace_twice, decode_quoted. apply unescape_esc. Qed.
