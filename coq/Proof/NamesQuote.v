(** C11: the token LIST/LSUB/STATUS write for a mailbox name (utils.QuoteString,
    [quote_string] of Model/CmdTokenizer.v) reads back, as an IMAP quoted string
    ([decode_astring], the strict reader of Spec/Names.v), as exactly that name. *)
From Coq Require Import String Ascii List Bool Arith.
From Raven Require Import Base.GoStr Base.GoStrFacts Model.Pattern Model.CmdTokenizer Model.Names Spec.Names.
Import ListNotations.

Definition escf (c : ascii) : str := if Ascii.eqb c DQUOTE || Ascii.eqb c BSLASH then [BSLASH; c] else [c].

Lemma quote_string_esc s : quote_string s = DQUOTE :: flat_map escf s ++ [DQUOTE].
Proof. reflexivity. Qed.

Lemma strict_bs_bs s : unescape_strict (BSLASH :: BSLASH :: s) = option_map (cons BSLASH) (unescape_strict s).
Proof. reflexivity. Qed.
Lemma strict_bs_dq s : unescape_strict (BSLASH :: DQUOTE :: s) = option_map (cons DQUOTE) (unescape_strict s).
Proof. reflexivity. Qed.
Lemma strict_plain c s :
  Ascii.eqb c BSLASH = false -> Ascii.eqb c DQUOTE = false ->
  unescape_strict (c :: s) = option_map (cons c) (unescape_strict s).
Proof. intros H1 H2. cbn [unescape_strict]. unfold bsl. change dq with DQUOTE. now rewrite H1, H2. Qed.

Lemma strict_esc s : unescape_strict (flat_map escf s) = Some s.
Proof.
  induction s as [|c s IH]; [reflexivity|]. cbn [flat_map]. unfold escf at 1.
  destruct (Ascii.eqb c DQUOTE) eqn:Eq.
  - apply Ascii.eqb_eq in Eq. subst c. cbn [orb app]. now rewrite strict_bs_dq, IH.
  - destruct (Ascii.eqb c BSLASH) eqn:Eb.
    + apply Ascii.eqb_eq in Eb. subst c. cbn [orb app]. now rewrite strict_bs_bs, IH.
    + cbn [orb app]. now rewrite strict_plain, IH.
Qed.

Lemma decode_quoted r : decode_astring (dq :: r ++ [dq]) = unescape_strict r.
Proof.
  unfold decode_astring. replace (Ascii.eqb dq dq) with true by reflexivity.
  rewrite rev_app_distr. cbn [rev app]. replace (Ascii.eqb dq dq) with true by reflexivity.
  now rewrite rev_involutive.
Qed.

Theorem quote_string_reads_back s : decode_astring (quote_string s) = Some s.
Proof. rewrite quote_string_esc. change DQUOTE with dq. rewrite decode_quoted. apply strict_esc. Qed.
