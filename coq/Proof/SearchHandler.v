(** C19 — facts about the command level: SearchSelectedMailbox's CHARSET
    handling, for SEARCH and UID SEARCH alike. *)
From Coq Require Import String Ascii List Bool Arith NArith ZArith Lia.
From Raven Require Import Base.GoStr Model.Search.
Import ListNotations.
Local Open Scope Z_scope.

Lemma str_eqb_false a b : a <> b -> str_eqb a b = false.
Proof. intros N. destruct (str_eqb_spec a b); congruence. Qed.

(** any charset other than US-ASCII / UTF-8 is refused with NO, whatever the
    text operations, the rest of the command and the mailbox are *)
Lemma badcharset_args :
  forall (T : text_ops) (kwd cs : str) (rest : list str) (by_uid : bool) (msgs : list msg),
    to_upper kwd = S_ "CHARSET" ->
    to_upper cs <> S_ "US-ASCII" -> to_upper cs <> S_ "UTF-8" ->
    search_selected T (kwd :: cs :: rest) by_uid msgs = RNo.
Proof.
  intros T kwd cs rest by_uid msgs Hk H1 H2.
  unfold search_selected. cbn [length Nat.ltb Nat.leb nth andb]. rewrite Hk. rewrite str_eqb_refl. cbn [andb].
  rewrite (str_eqb_false _ _ H1), (str_eqb_false _ _ H2). reflexivity.
Qed.

Lemma badcharset_no :
  forall (T : text_ops) (tag cmd kwd cs : str) (rest : list str) (msgs : list msg),
    to_upper kwd = S_ "CHARSET" ->
    to_upper cs <> S_ "US-ASCII" -> to_upper cs <> S_ "UTF-8" ->
    handle_search T (tag :: cmd :: kwd :: cs :: rest) msgs = RNo.
Proof. intros. unfold handle_search. cbn [skipn]. now apply badcharset_args. Qed.

Lemma uid_badcharset_no :
  forall (T : text_ops) (tag uid cmd kwd cs : str) (rest : list str) (msgs : list msg),
    to_upper kwd = S_ "CHARSET" ->
    to_upper cs <> S_ "US-ASCII" -> to_upper cs <> S_ "UTF-8" ->
    handle_uid_search T (tag :: uid :: cmd :: kwd :: cs :: rest) msgs = RNo.
Proof. intros. unfold handle_uid_search. cbn [skipn]. now apply badcharset_args. Qed.

(** the supported charsets do not change the result: the charset is dropped *)
Lemma charset_dropped_args :
  forall (T : text_ops) (kwd cs k : str) (rest : list str) (by_uid : bool) (msgs : list msg),
    to_upper kwd = S_ "CHARSET" ->
    (to_upper cs = S_ "US-ASCII" \/ to_upper cs = S_ "UTF-8") ->
    to_upper k <> S_ "CHARSET" ->
    search_selected T (kwd :: cs :: k :: rest) by_uid msgs = search_selected T (k :: rest) by_uid msgs.
Proof.
  intros T kwd cs k rest by_uid msgs Hk Hcs Hn.
  unfold search_selected. cbn [length Nat.ltb Nat.leb nth andb]. rewrite Hk, str_eqb_refl. rewrite (str_eqb_false _ _ Hn).
  rewrite andb_false_r. cbn [andb].
  assert (E : negb (str_eqb (to_upper cs) (S_ "US-ASCII")) && negb (str_eqb (to_upper cs) (S_ "UTF-8")) = false).
  { destruct Hcs as [-> | ->]; reflexivity. }
  rewrite E. cbn [skipn]. reflexivity.
Qed.

Lemma charset_dropped :
  forall (T : text_ops) (tag cmd kwd cs k : str) (rest : list str) (msgs : list msg),
    to_upper kwd = S_ "CHARSET" ->
    (to_upper cs = S_ "US-ASCII" \/ to_upper cs = S_ "UTF-8") ->
    to_upper k <> S_ "CHARSET" ->
    handle_search T (tag :: cmd :: kwd :: cs :: k :: rest) msgs = handle_search T (tag :: cmd :: k :: rest) msgs.
Proof. intros. unfold handle_search. cbn [skipn]. now apply charset_dropped_args. Qed.
