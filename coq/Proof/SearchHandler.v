(** C19 — facts about the command level: HandleSearch's CHARSET handling. *)
From Coq Require Import String Ascii List Bool Arith NArith ZArith Lia.
From Raven Require Import Base.GoStr Model.Search.
Import ListNotations.
Local Open Scope Z_scope.

Lemma str_eqb_false a b : a <> b -> str_eqb a b = false.
Proof. intros N. destruct (str_eqb_spec a b); congruence. Qed.

(** any charset other than US-ASCII / UTF-8 is refused with NO, whatever the
    text operations, the rest of the command and the mailbox are *)
Lemma badcharset_no :
  forall (T : text_ops) (tag cmd kwd cs : str) (rest : list str) (msgs : list msg),
    to_upper kwd = S_ "CHARSET" ->
    to_upper cs <> S_ "US-ASCII" -> to_upper cs <> S_ "UTF-8" ->
    handle_search T (tag :: cmd :: kwd :: cs :: rest) msgs = RNo.
Proof.
  intros T tag cmd kwd cs rest msgs Hk H1 H2.
  unfold handle_search.
  replace (Z.of_nat (length (tag :: cmd :: kwd :: cs :: rest)) <? 3) with false
    by (symmetry; apply Z.ltb_ge; simpl length; lia).
  replace (3 <? Z.of_nat (length (tag :: cmd :: kwd :: cs :: rest))) with true
    by (symmetry; apply Z.ltb_lt; simpl length; lia).
  cbn [nth andb]. rewrite Hk. rewrite str_eqb_refl. cbn [andb].
  rewrite (str_eqb_false _ _ H1), (str_eqb_false _ _ H2). reflexivity.
Qed.

(** the supported charsets do not change the result: the charset is dropped *)
Lemma charset_dropped :
  forall (T : text_ops) (tag cmd kwd cs k : str) (rest : list str) (msgs : list msg),
    to_upper kwd = S_ "CHARSET" ->
    (to_upper cs = S_ "US-ASCII" \/ to_upper cs = S_ "UTF-8") ->
    to_upper k <> S_ "CHARSET" ->
    handle_search T (tag :: cmd :: kwd :: cs :: k :: rest) msgs = handle_search T (tag :: cmd :: k :: rest) msgs.
Proof.
  intros T tag cmd kwd cs k rest msgs Hk Hcs Hn.
  unfold handle_search.
  replace (Z.of_nat (length (tag :: cmd :: kwd :: cs :: k :: rest)) <? 3) with false
    by (symmetry; apply Z.ltb_ge; simpl length; lia).
  replace (3 <? Z.of_nat (length (tag :: cmd :: kwd :: cs :: k :: rest))) with true
    by (symmetry; apply Z.ltb_lt; simpl length; lia).
  replace (Z.of_nat (length (tag :: cmd :: k :: rest)) <? 3) with false
    by (symmetry; apply Z.ltb_ge; simpl length; lia).
  cbn [nth andb]. rewrite Hk, str_eqb_refl. rewrite (str_eqb_false _ _ Hn). rewrite andb_false_r.
  cbn [andb].
  assert (E : negb (str_eqb (to_upper cs) (S_ "US-ASCII")) && negb (str_eqb (to_upper cs) (S_ "UTF-8")) = false).
  { destruct Hcs as [-> | ->]; reflexivity. }
  rewrite E. cbn [length Nat.leb skipn]. reflexivity.
Qed.
