(** C04 — the IMAP path end to end: only a 200 from the backend, for exactly
    the supplied pair, binds a session, and only to the store of that address;
    for every sequence of attempts and backend behaviours. *)
From Coq Require Import String Ascii List Bool Arith NArith ZArith Lia.
From Raven Require Import Base.GoStr Spec.Json Model.CmdTokenizer Model.Auth Spec.AuthSpec Proof.AuthJson Proof.AuthIdent.
Import ListNotations.
Local Open Scope char_scope.

Lemma address_of_email d u : address_of d u = email_of d u.
Proof. reflexivity. Qed.

(** a [Direct] answer is never OK *)
Definition creds_wf (c : creds) : Prop := match c with Direct R_OK => False | _ => True end.

Lemma login_creds_wf au tls line : creds_wf (login_creds au tls line).
Proof.
  unfold login_creds. destruct (split_command_line (trim_space line)) as [|t [|cmd rest]]; simpl; auto.
  destruct (str_eqb _ _); simpl; auto.
  destruct rest as [|a [|b rest]]; simpl; auto. destruct au, tls; simpl; auto.
Qed.

Lemma authplain_creds_wf au tls data : creds_wf (authplain_creds au tls data).
Proof.
  unfold authplain_creds. destruct au; simpl; auto. destruct tls; simpl; auto.
  destruct (str_eqb _ _); simpl; auto.
  destruct (plain_fields _) as [[u p]|]; simpl; auto.
  destruct u; simpl; auto. destruct p; simpl; auto.
Qed.

Lemma entry_creds_wf au e : creds_wf (entry_creds au e).
Proof. destruct e; [apply login_creds_wf|apply authplain_creds_wf]. Qed.

(** (b): whatever the credentials, the entry point and the configuration,
    OK implies the backend answered 200 (and the account is usable) *)
Theorem only_200 d c b ens init : creds_wf c ->
  answer (run_creds d c b ens init) = R_OK ->
  accepted b = true /\ init = true /\
  exists u p, c = Creds u p
    /\ ens (extract_username u) (get_user_domain d u) = bound (run_creds d c b ens init)
    /\ bound (run_creds d c b ens init) <> None.
Proof.
  destruct c as [u p|r]; simpl.
  - intros _. unfold authenticate_user. destruct d as [|d0 d']; [discriminate|]. destruct (multi_at u); [discriminate|].
    destruct (accepted b); [|discriminate].
    destruct (ens (extract_username u) (get_user_domain (d0 :: d') u)) as [row|] eqn:En; [|discriminate].
    destruct init; simpl; try discriminate. intros _. split; [reflexivity|]. split; [reflexivity|].
    exists u, p. split; [reflexivity|]. split; [exact En|discriminate].
  - intros W ->. contradiction.
Qed.

Lemma direct_no_access d c b ens init :
  (exists r, c = Direct r /\ r <> R_OK) ->
  sent (run_creds d c b ens init) = [] /\ answer (run_creds d c b ens init) <> R_OK.
Proof. intros (r & -> & N). simpl. split; [reflexivity|exact N]. Qed.

Lemma login_direct au tls line : au = true \/ tls = false ->
  exists r, login_creds au tls line = Direct r /\ r <> R_OK.
Proof.
  intros H. unfold login_creds.
  destruct (split_command_line (trim_space line)) as [|t [|cmd rest]]; try (eexists; split; [reflexivity|discriminate]).
  destruct (str_eqb _ _); try (eexists; split; [reflexivity|discriminate]).
  destruct rest as [|a [|b0 rest]]; try (eexists; split; [reflexivity|discriminate]).
  destruct au; [eexists; split; [reflexivity|discriminate]|].
  destruct H as [H | ->]; [discriminate|]. eexists; split; [reflexivity|discriminate].
Qed.

Lemma authplain_direct au tls data : au = true \/ tls = false ->
  exists r, authplain_creds au tls data = Direct r /\ r <> R_OK.
Proof.
  intros H. unfold authplain_creds. destruct au; [eexists; split; [reflexivity|discriminate]|].
  destruct H as [H | ->]; [discriminate|]. eexists; split; [reflexivity|discriminate].
Qed.

(** the session is bound to exactly the row EnsureUserAndMailboxes returned *)
Theorem binds_what_ensure_returns d u p b ens init :
  answer (authenticate_user d u p b ens init) = R_OK ->
  bound (authenticate_user d u p b ens init) = ens (extract_username u) (get_user_domain d u).
Proof.
  intros H.
  destruct (only_200 d (Creds u p) b ens init I H) as (_ & _ & u' & p' & E & B & _).
  injection E as <- <-. symmetry. exact B.
Qed.

(** (e): nothing is sent to the backend from a connection without TLS *)
Theorem no_tls_no_request d e b ens init au :
  (match e with E_login tls _ => tls | E_authplain tls _ => tls end) = false ->
  let r := run_creds d (entry_creds au e) b ens init in sent r = [] /\ answer r <> R_OK.
Proof.
  intros H. apply direct_no_access. destruct e as [tls line|tls data]; cbn [entry_creds]; subst.
  - apply login_direct. now right.
  - apply authplain_direct. now right.
Qed.

(** an authenticated session answers every further LOGIN / AUTHENTICATE
    without consulting the backend and without re-binding *)
Theorem authed_no_request d e b ens init :
  let r := run_creds d (entry_creds true e) b ens init in sent r = [] /\ answer r <> R_OK.
Proof.
  apply direct_no_access. destruct e as [tls line|tls data]; cbn [entry_creds].
  - apply login_direct. now left.
  - apply authplain_direct. now left.
Qed.

(** a user name with more than one '@' is refused before the backend is contacted *)
Theorem multi_at_refused d u p b ens init : multi_at u = true ->
  let r := authenticate_user d u p b ens init in sent r = [] /\ answer r = R_NO /\ bound r = None.
Proof.
  intros M. unfold authenticate_user. destruct d; [repeat split|]. rewrite M. repeat split.
Qed.

(** the property for one attempt with supplied (u, p), every default domain,
    every backend outcome; [in_domain]: address and password are valid UTF-8 *)
Theorem imap_attempt_spec d u p b ens init :
  ensure_sound ens ->
  in_domain d u p = true ->
  imap_spec d u p (accepted b) (authenticate_user d u p b ens init).
Proof.
  intros ES C. unfold in_domain in C. apply andb_true_iff in C as [C1 C2].
  assert (Hd : d = [] \/ d <> []) by (destruct d; [now left|right; discriminate]).
  unfold imap_spec, authenticate_user. destruct Hd as [->|Hd]; [reflexivity|].
  destruct d as [|d0 d'] eqn:Ed; [congruence|]. rewrite <- Ed in *. clear Ed.
  destruct (multi_at u) eqn:M; [reflexivity|].
  assert (C3 : count_byte u AT <= 1) by (unfold multi_at in M; apply Nat.ltb_ge in M; exact M).
  destruct (accepted b); [|reflexivity].
  destruct (ens (extract_username u) (get_user_domain d u)) as [row|] eqn:En; [|reflexivity].
  apply ES in En. subst row. destruct init; [|reflexivity].
  simpl. split; [reflexivity|]. split.
  - eexists; split; [reflexivity|]. rewrite <- address_of_email. now apply body_exact_valid.
  - eexists; split; [reflexivity|]. now apply bound_identity.
Qed.

(** ---- sessions: every sequence of attempts / backend behaviours ---- *)

Lemma sess_step_cases s a :
  (answer (run_attempt (authed s) a) = R_OK /\ sess_step s a = mk_sess true (bound (run_attempt (authed s) a)))
  \/ (answer (run_attempt (authed s) a) <> R_OK /\ sess_step s a = s).
Proof.
  unfold sess_step. destruct (answer (run_attempt (authed s) a)); [left; split; reflexivity| | |];
    right; split; try reflexivity; discriminate.
Qed.

Lemma sess_step_authed s a : authed s = true -> sess_step s a = s.
Proof.
  intros H. destruct (sess_step_cases s a) as [[A _]|[_ S]]; [|exact S].
  rewrite H in A. unfold run_attempt in A.
  destruct (authed_no_request (a_domain a) (a_entry a) (a_backend a) (a_ens a) (a_init a)) as [_ N].
  contradiction.
Qed.

(** no re-binding: once authenticated the session keeps its identity *)
Theorem session_no_rebind l s : authed s = true -> fold_left sess_step l s = s.
Proof.
  induction l as [|a l IH]; intros H; cbn [fold_left]; [reflexivity|].
  rewrite (sess_step_authed s a H). now apply IH.
Qed.

Lemma session_inv l s0 : authed s0 = false ->
  (fold_left sess_step l s0 = s0 /\ Forall (fun a => answer (run_attempt false a) <> R_OK) l)
  \/ exists a, In a l /\ answer (run_attempt false a) = R_OK
               /\ fold_left sess_step l s0 = mk_sess true (bound (run_attempt false a)).
Proof.
  induction l as [|a l IH]; intros H0; cbn [fold_left].
  - left. split; [reflexivity|constructor].
  - destruct (sess_step_cases s0 a) as [[A S]|[A S]]; rewrite H0 in A.
    + right. exists a. split; [now left|]. split; [exact A|].
      rewrite S. rewrite H0. apply session_no_rebind. reflexivity.
    + rewrite S. destruct (IH H0) as [[E F]|(a' & I & O & E)].
      * left. split; [exact E|]. constructor; assumption.
      * right. exists a'. split; [now right|]. split; assumption.
Qed.

(** a session is authenticated only through an attempt the backend accepted
    (made while not yet authenticated), and acts on the store that attempt bound *)
Theorem session_only_200 l :
  let s := run_session l in
  (authed s = false /\ who s = None)
  \/ exists a u p, In a l /\ entry_creds false (a_entry a) = Creds u p
       /\ accepted (a_backend a) = true /\ a_init a = true
       /\ authed s = true /\ who s = bound (run_attempt false a).
Proof.
  unfold run_session. destruct (session_inv l (mk_sess false None) eq_refl) as [[E _]|(a & I & O & E)].
  - left. rewrite E. split; reflexivity.
  - right. unfold run_attempt in O.
    destruct (only_200 _ _ _ _ _ (entry_creds_wf false (a_entry a)) O) as (A & N & u & p & C & _ & _).
    exists a, u, p. rewrite E. repeat split; auto.
Qed.

(** ... and when no attempt falls into a finding class, the store is the one
    of the address that attempt supplied, which the backend saw verbatim *)
Theorem session_bound_exact l :
  (forall a, In a l -> ensure_sound (a_ens a)) ->
  (forall a u p, In a l -> entry_creds false (a_entry a) = Creds u p -> in_domain (a_domain a) u p = true) ->
  forall row, who (run_session l) = Some row ->
  exists a u p, In a l /\ entry_creds false (a_entry a) = Creds u p /\ accepted (a_backend a) = true
    /\ store_of (address_of (a_domain a) u) row
    /\ exists body, sent (run_attempt false a) = [body] /\ body_exact body (address_of (a_domain a) u) p.
Proof.
  intros ES K row Hrow.
  destruct (session_only_200 l) as [[_ N]|(a & u & p & I & C & A & N & _ & Hw)].
  - rewrite N in Hrow. discriminate.
  - exists a, u, p.
    pose proof (imap_attempt_spec (a_domain a) u p (a_backend a) (a_ens a) (a_init a) (ES a I) (K a u p I C)) as S.
    unfold imap_spec in S. rewrite Hw in Hrow. unfold run_attempt, run_creds in *. rewrite C in *.
    destruct (answer _) eqn:An; try (rewrite S in Hrow; discriminate).
    destruct S as (_ & Bd & row' & B & St). rewrite B in Hrow. injection Hrow as <-.
    repeat split; auto.
Qed.

(** the executable spec used on observations agrees with the Prop *)
Lemma pairs_eqb_refl l : pairs_eqb l l = true.
Proof. induction l as [|[k v] l IH]; simpl; [reflexivity|]. unfold pair_eqb. simpl. now rewrite !str_eqb_refl, IH. Qed.

Lemma pairs_eqb_eq a b : pairs_eqb a b = true -> a = b.
Proof.
  revert b; induction a as [|[k v] a IH]; intros [|[k' v'] b]; simpl; try discriminate; [reflexivity|].
  unfold pair_eqb; simpl. rewrite !andb_true_iff. intros [[K V] R].
  apply str_eqb_eq in K, V. subst. now rewrite (IH _ R).
Qed.

Lemma body_exact_b_iff body e p : body_exact_b body e p = true <-> body_exact body e p.
Proof.
  unfold body_exact_b, body_exact. destruct (json_fields body) as [l|]; split; intros H; try discriminate.
  - now rewrite (pairs_eqb_eq _ _ H).
  - injection H as ->. apply pairs_eqb_refl.
Qed.

Lemma imap_spec_b_iff d u p acc r : imap_spec_b d u p acc r = true <-> imap_spec d u p acc r.
Proof.
  unfold imap_spec_b, imap_spec. destruct (answer r).
  - rewrite !andb_true_iff. split.
    + intros [[A B] C]. split; [exact A|]. split.
      * destruct (sent r) as [|body [|? ?]]; try discriminate. exists body. split; [reflexivity|]. now apply body_exact_b_iff.
      * destruct (bound r) as [row|]; [|discriminate]. exists row. split; [reflexivity|]. now apply str_eqb_eq in C.
    + intros (A & (body & S & B) & (row & Bo & St)). rewrite S, Bo. repeat split; auto.
      * now apply body_exact_b_iff.
      * apply str_eqb_eq. exact St.
  - destruct (bound r); split; intros; congruence.
  - destruct (bound r); split; intros; congruence.
  - destruct (bound r); split; intros; congruence.
Qed.
