(** C10 — plain STORE (sequence numbers), invariant, histories. *)
From Coq Require Import String Ascii List Bool Arith ZArith Lia.
From Raven Require Import Base.GoStr Model.Flags Spec.FlagSet Proof.Flags Model.FlagStore Spec.FlagHistory Proof.FlagStore.
Import ListNotations.
Local Open Scope Z_scope.

(** ---------- ORDER BY uid commutes with a uid-preserving row map ---------- *)

Lemma ins_uid_map (g : link -> link) x l :
  (forall y, lk_uid (g y) = lk_uid y) -> ins_uid (g x) (map g l) = map g (ins_uid x l).
Proof.
  intros H. induction l as [|y l IH]; simpl; [reflexivity|].
  rewrite !H. destruct (lk_uid x <=? lk_uid y); simpl; [reflexivity | now rewrite IH].
Qed.

Lemma sort_uid_map (g : link -> link) l :
  (forall y, lk_uid (g y) = lk_uid y) -> sort_uid (map g l) = map g (sort_uid l).
Proof.
  intros H. induction l as [|x l IH]; simpl; [reflexivity|].
  unfold sort_uid in *. simpl. rewrite IH. now apply ins_uid_map.
Qed.

Lemma filter_map_pres {A} (p : A -> bool) (g : A -> A) l :
  (forall x, p (g x) = p x) -> filter p (map g l) = map g (filter p l).
Proof.
  intros H. induction l as [|x l IH]; simpl; [reflexivity|]. rewrite H. destruct (p x); simpl; now rewrite IH.
Qed.

Lemma mbox_links_upd ls mb T item new mb' :
  mbox_links (map (upd mb T item new) ls) mb' = map (upd mb T item new) (mbox_links ls mb').
Proof.
  unfold mbox_links. rewrite filter_map_pres.
  - apply sort_uid_map. intros y. apply upd_uid_.
  - intros x. unfold in_mbox. now rewrite upd_mbox_.
Qed.

Lemma nth_link_upd ls mb T item new mb' n :
  nth_link (map (upd mb T item new) ls) mb' n = option_map (upd mb T item new) (nth_link ls mb' n).
Proof.
  unfold nth_link. destruct (n <? 1); [reflexivity|]. rewrite mbox_links_upd. apply nth_error_map.
Qed.

Lemma ins_uid_In x l y : In y (ins_uid x l) <-> y = x \/ In y l.
Proof.
  induction l as [|z l IH]; simpl; [intuition|].
  destruct (lk_uid x <=? lk_uid z); simpl; [intuition|]. rewrite IH. intuition.
Qed.

Lemma sort_uid_In l y : In y (sort_uid l) <-> In y l.
Proof.
  induction l as [|x l IH]; simpl; [reflexivity|].
  unfold sort_uid in *. simpl. rewrite ins_uid_In, IH. intuition.
Qed.

Lemma mbox_links_In ls mb l : In l (mbox_links ls mb) <-> In l ls /\ lk_mbox l = mb.
Proof. unfold mbox_links. rewrite sort_uid_In, filter_In. unfold in_mbox. now rewrite Z.eqb_eq. Qed.

Lemma nth_link_In ls mb n l0 : nth_link ls mb n = Some l0 -> In l0 ls /\ lk_mbox l0 = mb.
Proof.
  unfold nth_link. destruct (n <? 1); [discriminate|]. intros H. apply nth_error_In in H. now apply mbox_links_In.
Qed.

(** ---------- plain STORE ---------- *)

Definition targets1 (ls : list link) (mb n : Z) : list Z :=
  match nth_link ls mb n with Some l => [lk_uid l] | None => [] end.

Lemma has_twin_false ls mb l0 : has_twin ls mb l0 = false ->
  forall l, In l ls -> lk_msg l = lk_msg l0 -> lk_mbox l = mb -> lk_uid l = lk_uid l0.
Proof.
  unfold has_twin. intros H l Hl Hm Hb.
  rewrite <- not_true_iff_false, existsb_exists in H.
  destruct (Z.eq_dec (lk_uid l) (lk_uid l0)) as [|Hn]; [assumption|]. exfalso. apply H.
  exists l. split; [assumption|]. unfold in_mbox.
  rewrite !andb_true_iff, negb_true_iff, !Z.eqb_eq, Z.eqb_neq. auto.
Qed.

Lemma store_seq_one_spec e ls mb item new n :
  uniq_keys ls ->
  (forall l0, nth_link ls mb n = Some l0 -> junk_trigger e mb item new l0 = None /\ has_twin ls mb l0 = false) ->
  store_seq_one e mb item new ls n = spec_update ls mb (targets1 ls mb n) item new.
Proof.
  intros Hu Ht. unfold store_seq_one, targets1. destruct (nth_link ls mb n) as [l0|] eqn:En.
  - destruct (Ht l0 eq_refl) as [Hj Hw]. rewrite (no_trigger_row _ _ _ _ _ _ _ Hj).
    destruct (nth_link_In _ _ _ _ En) as [Hin Hmb].
    unfold upd_msg. rewrite spec_update_upd. apply map_ext_in. intros l Hl.
    unfold upd, in_mbox, memZ. simpl. rewrite orb_false_r.
    destruct ((lk_msg l =? lk_msg l0) && (lk_mbox l =? mb)) eqn:E.
    + apply andb_true_iff in E. destruct E as [E1 E2]. apply Z.eqb_eq in E1, E2.
      pose proof (has_twin_false _ _ _ Hw l Hl E1 E2) as Hq.
      assert (l = l0) by (apply (uniq_inj ls Hu); auto; unfold lkey; congruence). subst l.
      now rewrite E2, !Z.eqb_refl.
    + destruct ((lk_mbox l =? mb) && (lk_uid l =? lk_uid l0)) eqn:E'; [|reflexivity].
      apply andb_true_iff in E'. destruct E' as [E1 E2]. apply Z.eqb_eq in E1, E2.
      assert (l = l0) by (apply (uniq_inj ls Hu); auto; unfold lkey; congruence). subst l.
      rewrite Z.eqb_refl, E1, Z.eqb_refl in E. discriminate.
  - now rewrite spec_update_nil.
Qed.

Definition targets (ls : list link) (mb : Z) (ns : list Z) : list Z := flat_map (targets1 ls mb) ns.

Lemma targets1_upd ls mb T item new n :
  targets1 (map (upd mb T item new) ls) mb n = targets1 ls mb n.
Proof.
  unfold targets1. rewrite nth_link_upd. destruct (nth_link ls mb n); simpl; [now rewrite upd_uid_ | reflexivity].
Qed.

Lemma existsb_map_l {A B} (f : A -> B) p l : existsb p (map f l) = existsb (fun x => p (f x)) l.
Proof. induction l as [|x l IH]; simpl; [reflexivity | now rewrite IH]. Qed.
Lemma existsb_ext_l {A} (p q : A -> bool) l : (forall x, p x = q x) -> existsb p l = existsb q l.
Proof. intros H. induction l as [|x l IH]; simpl; [reflexivity | now rewrite H, IH]. Qed.

Lemma has_twin_upd ls mb T item new l :
  has_twin (map (upd mb T item new) ls) mb (upd mb T item new l) = has_twin ls mb l.
Proof.
  unfold has_twin. rewrite existsb_map_l. apply existsb_ext_l. intros l'.
  unfold in_mbox. now rewrite !upd_msg_, !upd_uid_, !upd_mbox_.
Qed.

Lemma store_seq_fold e mb item new : forall ns ls,
  uniq_keys ls ->
  (forall n l0, In n ns -> nth_link ls mb n = Some l0 ->
     junk_trigger e mb item new l0 = None /\ has_twin ls mb l0 = false) ->
  fold_left (store_seq_one e mb item new) ns ls = spec_update ls mb (targets ls mb ns) item new.
Proof.
  induction ns as [|n ns IH]; intros ls Hu Ht; simpl.
  - now rewrite spec_update_nil.
  - rewrite store_seq_one_spec; auto.
    2:{ intros l0 Hf. apply (Ht n l0); auto. now left. }
    rewrite IH.
    + rewrite spec_update_compose. f_equal. f_equal. unfold targets.
      apply flat_map_ext. intros a. rewrite spec_update_upd. apply targets1_upd.
    + unfold uniq_keys. rewrite spec_update_upd, map_lkey_upd. exact Hu.
    + intros n' l0' Hin Hf. rewrite spec_update_upd in *. rewrite nth_link_upd in Hf.
      destruct (nth_link ls mb n') as [l0|] eqn:Ef; [|discriminate]. simpl in Hf. injection Hf as <-.
      destruct (Ht n' l0 (or_intror Hin) Ef) as [Hj Hw]. split.
      * unfold upd. destruct (in_mbox mb l0 && memZ (lk_uid l0) (targets1 ls mb n)); [apply junk_trigger_after | assumption].
      * now rewrite has_twin_upd.
Qed.

Lemma seq_targets_eq ls mb q : seq_targets ls mb q = targets ls mb (expand_seq ls mb q).
Proof. reflexivity. Qed.

Lemma rows_of_targets ls mb ns n l0 : uniq_keys ls ->
  In n ns -> nth_link ls mb n = Some l0 -> In l0 (rows_of_uids ls mb (targets ls mb ns)).
Proof.
  intros Hu Hn Hf. destruct (nth_link_In _ _ _ _ Hf) as [Hin Hmb].
  apply (rows_of_uids_In ls mb _ (lk_uid l0)).
  - unfold targets. apply in_flat_map. exists n. split; [assumption|]. unfold targets1. rewrite Hf. now left.
  - unfold find_key. destruct (find (has_key mb (lk_uid l0)) ls) as [l1|] eqn:E.
    + apply find_some in E. destruct E as [H1 H2]. f_equal. apply (uniq_inj ls Hu); auto.
      apply has_key_lkey in H2. rewrite H2. unfold lkey. now rewrite Hmb.
    + exfalso. pose proof (find_none _ _ E l0 Hin) as Hx. unfold has_key in Hx.
      now rewrite Hmb, !Z.eqb_refl in Hx.
Qed.

Theorem store_seq_exact e ls mb q item new :
  uniq_keys ls ->
  junk_class e mb item new (rows_of_uids ls mb (seq_targets ls mb q)) true = None ->
  existsb (has_twin ls mb) (rows_of_uids ls mb (seq_targets ls mb q)) = false ->
  store_seq e ls mb q item new = spec_update ls mb (seq_targets ls mb q) item new.
Proof.
  intros Hu Hc Hw. unfold store_seq. rewrite seq_targets_eq in *. apply store_seq_fold; [assumption|].
  intros n l0 Hin Hf. pose proof (rows_of_targets _ _ _ _ _ Hu Hin Hf) as Hr. split.
  - apply (junk_class_none _ _ _ _ _ _ Hc). assumption.
  - rewrite <- not_true_iff_false, existsb_exists in Hw.
    destruct (has_twin ls mb l0) eqn:E; [|reflexivity]. exfalso. apply Hw. now exists l0.
Qed.

(** ---------- one step, outside the classes, is the reference step ---------- *)

Theorem step_exact e s o :
  uniq_keys (links s) -> classify e s o = None -> step e s o = spec_step e s o.
Proof.
  intros Hu Hc. destruct o as [ro si mb q item new|ro si mb q item new|mb q dest|mb fl|ro mb]; simpl in *.
  - destruct ro; [discriminate|].
    destruct (junk_class e mb item new _ true) eqn:Ej; [discriminate|].
    destruct (existsb (has_twin (links s) mb) _) eqn:Ew; [discriminate|].
    now rewrite store_seq_exact.
  - destruct ro; [discriminate|]. now rewrite store_uid_exact.
  - reflexivity.
  - reflexivity.
  - destruct ro; [discriminate | reflexivity].
Qed.

(** ---------- UNIQUE(mailbox_id, uid) is an invariant of every operation ---------- *)

Lemma uniq_insert ls l ls' : uniq_keys ls -> insert ls l = Some ls' -> uniq_keys ls'.
Proof.
  unfold insert, uniq_keys. destruct (existsb _ ls) eqn:E; [discriminate|]. intros Hu [= <-].
  rewrite map_app. simpl. apply NoDup_snoc; [assumption|].
  intros Hin. apply in_map_iff in Hin. destruct Hin as [x [Hk Hx]].
  rewrite <- not_true_iff_false, existsb_exists in E. apply E. exists x. split; [assumption|].
  apply has_key_lkey. exact Hk.
Qed.

Lemma uniq_filter p ls : uniq_keys ls -> uniq_keys (filter p ls).
Proof.
  unfold uniq_keys. induction ls as [|x ls IH]; simpl; intros H; [constructor|].
  inversion H as [|? ? Hx Hn]; subst. destruct (p x); simpl; [|auto].
  constructor; [|auto]. intros Hin. apply Hx. apply in_map_iff in Hin. destruct Hin as [y [Hy1 Hy2]].
  apply filter_In in Hy2. rewrite <- Hy1. apply in_map. tauto.
Qed.

Lemma uniq_map_pres (g : link -> link) ls : (forall l, lkey (g l) = lkey l) -> uniq_keys ls -> uniq_keys (map g ls).
Proof. intros H Hu. unfold uniq_keys. rewrite map_map. erewrite map_ext; [exact Hu|]. exact H. Qed.

Lemma uniq_move ls msg src dest fl ls' : uniq_keys ls -> move ls msg src dest fl = Some ls' -> uniq_keys ls'.
Proof.
  unfold move. destruct (src =? dest); [now intros Hu [= <-]|].
  destruct (insert ls _) as [l1|] eqn:E; [|discriminate]. intros Hu [= <-].
  apply uniq_filter. eapply uniq_insert; eauto.
Qed.

Lemma uniq_store_row e ls mb l0 item new stmt :
  (forall ls fl, uniq_keys ls -> uniq_keys (stmt ls fl)) -> uniq_keys ls -> uniq_keys (store_row e ls mb l0 item new stmt).
Proof.
  intros Hs Hu. unfold store_row. cbv zeta.
  destruct (junk_added _ _).
  - destruct (move _ _ _ _ _) eqn:E; [eapply uniq_move; eauto | auto].
  - destruct (nonjunk_added _ _); [|auto].
    destruct (move _ _ _ _ _) eqn:E; [eapply uniq_move; eauto | auto].
Qed.

Lemma uniq_fold {A} (f : list link -> A -> list link) xs :
  (forall ls x, uniq_keys ls -> uniq_keys (f ls x)) -> forall ls, uniq_keys ls -> uniq_keys (fold_left f xs ls).
Proof. intros H. induction xs as [|x xs IH]; simpl; auto. Qed.

Lemma uniq_copy_loop mb dest : forall uids ls nu ls', uniq_keys ls -> copy_loop ls mb dest nu uids = Some ls' -> uniq_keys ls'.
Proof.
  induction uids as [|u us IH]; simpl; intros ls nu ls' Hu H; [now injection H as <-|].
  destruct (find_key ls mb u); [|eauto].
  destruct (insert ls _) eqn:E; [|discriminate]. eapply IH; [|exact H]. eapply uniq_insert; eauto.
Qed.

Theorem uniq_step e s o : uniq_keys (links s) -> uniq_keys (links (step e s o)).
Proof.
  intros Hu. destruct o as [ro si mb q item new|ro si mb q item new|mb q dest|mb fl|ro mb]; simpl.
  - unfold store_seq. apply uniq_fold; [|assumption]. intros ls n H. unfold store_seq_one.
    destruct (nth_link ls mb n); [|assumption]. apply uniq_store_row; [|assumption].
    intros ls0 fl0 H0. unfold upd_msg. apply uniq_map_pres; [|assumption]. intros l0. now destruct (_ && _).
  - unfold store_uid. apply uniq_fold; [|assumption]. intros ls n H. unfold store_uid_one.
    destruct (find_key ls mb n); [|assumption]. apply uniq_store_row; [|assumption].
    intros ls0 fl0 H0. unfold upd_uid. apply uniq_map_pres; [|assumption]. intros l0. now destruct (has_key _ _ _).
  - unfold copy_uid. destruct (copy_loop _ _ _ _ _) eqn:E; [|assumption]. eapply uniq_copy_loop; eauto.
  - unfold append. destruct (insert _ _) eqn:E; simpl; [eapply uniq_insert; eauto | assumption].
  - unfold expunge. now apply uniq_filter.
Qed.

(** ---------- histories ---------- *)

Theorem history_exact e : forall h s,
  uniq_keys (links s) -> hist_class e s h = None -> run e s h = spec_run e s h.
Proof.
  induction h as [|o h IH]; intros s Hu Hc; simpl in *; [reflexivity|].
  destruct (classify e s o) eqn:E; [discriminate|].
  rewrite <- (step_exact e s o Hu E). apply IH; [now apply uniq_step | assumption].
Qed.

Lemma uniq_keys_b_spec ls : uniq_keys_b ls = true -> uniq_keys ls.
Proof.
  unfold uniq_keys. induction ls as [|l ls IH]; simpl; intros H; [constructor|].
  apply andb_true_iff in H. destruct H as [H1 H2]. constructor; [|auto].
  intros Hin. apply in_map_iff in Hin. destruct Hin as [x [Hk Hx]].
  apply negb_true_iff in H1. rewrite <- not_true_iff_false, existsb_exists in H1. apply H1.
  exists x. split; [assumption|]. now apply has_key_lkey.
Qed.
