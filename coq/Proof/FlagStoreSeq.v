(** C10 — steps, the UNIQUE invariant, histories. *)
From Coq Require Import String Ascii List Bool Arith ZArith Lia.
From Raven Require Import Base.GoStr Model.Flags Spec.FlagSet Proof.Flags Model.FlagStore Spec.FlagHistory Proof.FlagStore.
Import ListNotations.
Local Open Scope Z_scope.

Lemma ins_uid_In x l y : In y (ins_uid x l) <-> y = x \/ In y l.
Proof.
  induction l as [|z l IH]; simpl; [intuition|].
  destruct (lk_uid x <=? lk_uid z); simpl; [intuition|]. rewrite IH. intuition.
Qed.

Lemma sort_uid_In l y : In y (sort_uid l) <-> In y l.
Proof.
  induction l as [|x l IH]; simpl; [reflexivity|].
  unfold sort_uid in *. simpl. rewrite ins_uid_In, IH. intuition.
Qed.

Lemma mbox_links_In ls mb l : In l (mbox_links ls mb) <-> In l ls /\ lk_mbox l = mb.
Proof. unfold mbox_links. rewrite sort_uid_In, filter_In. unfold in_mbox. now rewrite Z.eqb_eq. Qed.

Lemma nth_link_In ls mb n l0 : nth_link ls mb n = Some l0 -> In l0 ls /\ lk_mbox l0 = mb.
Proof.
  unfold nth_link. destruct (n <? 1); [discriminate|]. intros H. apply nth_error_In in H. now apply mbox_links_In.
Qed.

(** ---------- one step, outside the classes, is the reference step ---------- *)

Theorem step_exact e s o :
  uniq_keys (links s) -> classify e s o = None -> step e s o = spec_step e s o.
Proof.
  intros Hu Hc. destruct o as [ro si mb q item new|ro si mb q item new|mb q dest|mb q dest|mb fl|ro mb|del|id]; simpl in *.
  - destruct (ro || negb (flags_valid new)); [reflexivity|]. now rewrite store_seq_exact.
  - destruct (ro || negb (flags_valid new)); [reflexivity|]. now rewrite store_uid_exact.
  - reflexivity.
  - reflexivity.
  - reflexivity.
  - destruct ro; reflexivity.
  - reflexivity.
  - reflexivity.
Qed.

(** ---------- UNIQUE(mailbox_id, uid) is an invariant of every operation ---------- *)

Lemma uniq_insert ls l ls' : uniq_keys ls -> insert ls l = Some ls' -> uniq_keys ls'.
Proof.
  unfold insert, uniq_keys. destruct (existsb _ ls) eqn:E; [discriminate|]. intros Hu [= <-].
  rewrite map_app. simpl. apply NoDup_snoc; [assumption|].
  intros Hin. apply in_map_iff in Hin. destruct Hin as [x [Hk Hx]].
  rewrite <- not_true_iff_false, existsb_exists in E. apply E. exists x. split; [assumption|].
  apply has_key_lkey. exact Hk.
Qed.

Lemma uniq_filter p ls : uniq_keys ls -> uniq_keys (filter p ls).
Proof.
  unfold uniq_keys. induction ls as [|x ls IH]; simpl; intros H; [constructor|].
  inversion H as [|? ? Hx Hn]; subst. destruct (p x); simpl; [|auto].
  constructor; [|auto]. intros Hin. apply Hx. apply in_map_iff in Hin. destruct Hin as [y [Hy1 Hy2]].
  apply filter_In in Hy2. rewrite <- Hy1. apply in_map. tauto.
Qed.

Lemma uniq_map_pres (g : link -> link) ls : (forall l, lkey (g l) = lkey l) -> uniq_keys ls -> uniq_keys (map g ls).
Proof. intros H Hu. unfold uniq_keys. rewrite map_map. erewrite map_ext; [exact Hu|]. exact H. Qed.

Lemma uniq_move s msg src u dest fl s' : uniq_keys (links s) -> move s msg src u dest fl = Some s' -> uniq_keys (links s').
Proof.
  unfold move. destruct dest as [dest|]; [|discriminate]. destruct (src =? dest); [discriminate|].
  destruct (insert (links s) _) as [l1|] eqn:E; [|discriminate]. intros Hu [= <-]. simpl.
  apply uniq_filter. eapply uniq_insert; eauto.
Qed.

Lemma uniq_upd_uid mb u ls fl : uniq_keys ls -> uniq_keys (upd_uid mb u ls fl).
Proof. intros H. unfold upd_uid. apply uniq_map_pres; [|assumption]. intros l0. now destruct (has_key _ _ _). Qed.

Lemma uniq_store_row e s mb l0 item new :
  uniq_keys (links s) -> uniq_keys (links (store_row e s mb l0 item new)).
Proof.
  intros Hu. unfold store_row. cbv zeta.
  destruct (junk_added _ _).
  - destruct (move _ _ _ _ _ _) eqn:E; [eapply uniq_move; eauto | now apply uniq_upd_uid].
  - destruct (nonjunk_added _ _); [|now apply uniq_upd_uid].
    destruct (move _ _ _ _ _ _) eqn:E; [eapply uniq_move; eauto | now apply uniq_upd_uid].
Qed.

Lemma uniq_fold {A} (f : st -> A -> st) xs :
  (forall s x, uniq_keys (links s) -> uniq_keys (links (f s x))) ->
  forall s, uniq_keys (links s) -> uniq_keys (links (fold_left f xs s)).
Proof. intros H. induction xs as [|x xs IH]; simpl; auto. Qed.

Lemma uniq_store_uid_one e mb item new s u :
  uniq_keys (links s) -> uniq_keys (links (store_uid_one e mb item new s u)).
Proof.
  intros H. unfold store_uid_one. destruct (find_key (links s) mb u); [now apply uniq_store_row | assumption].
Qed.

Lemma uniq_copy_loop mb dest : forall uids ls nu ls' nu',
  uniq_keys ls -> copy_loop ls mb dest nu uids = Some (ls', nu') -> uniq_keys ls'.
Proof.
  induction uids as [|u us IH]; simpl; intros ls nu ls' nu' Hu H; [now injection H as <- _|].
  destruct (find_key ls mb u); [|eauto].
  destruct (insert ls _) eqn:E; [|discriminate]. eapply IH; [|exact H]. eapply uniq_insert; eauto.
Qed.

Lemma uniq_copy_seq_loop mb dest : forall ns ls nu ls' nu',
  uniq_keys ls -> copy_seq_loop ls mb dest nu ns = Some (ls', nu') -> uniq_keys ls'.
Proof.
  induction ns as [|n ns IH]; simpl; intros ls nu ls' nu' Hu H; [now injection H as <- _|].
  destruct (nth_link ls mb n); [|discriminate].
  destruct (insert ls _) eqn:E; [|discriminate]. eapply IH; [|exact H]. eapply uniq_insert; eauto.
Qed.

Lemma uniq_copy_finish s dest r :
  uniq_keys (links s) -> (forall ls nu, r = Some (ls, nu) -> uniq_keys ls) -> uniq_keys (links (copy_finish s dest r)).
Proof.
  intros Hu H. unfold copy_finish. destruct r as [[ls nu]|]; [|assumption]. simpl. now apply (H ls nu).
Qed.

Theorem uniq_step e s o : uniq_keys (links s) -> uniq_keys (links (step e s o)).
Proof.
  intros Hu. destruct o as [ro si mb q item new|ro si mb q item new|mb q dest|mb q dest|mb fl|ro mb|del|id]; simpl.
  - destruct (ro || negb (flags_valid new)); [assumption|]. unfold store_seq. apply uniq_fold; [|assumption]. intros; now apply uniq_store_uid_one.
  - destruct (ro || negb (flags_valid new)); [assumption|]. unfold store_uid. apply uniq_fold; [|assumption]. intros; now apply uniq_store_uid_one.
  - unfold copy_uid. destruct (expand_uid (links s) mb q) as [|u0 us]; [assumption|].
    apply uniq_copy_finish; [assumption|]. intros ls nu E. eapply uniq_copy_loop; eauto.
  - unfold copy_seq. destruct (expand_seq (links s) mb q) as [|u0 us]; [assumption|].
    apply uniq_copy_finish; [assumption|]. intros ls nu E. eapply uniq_copy_seq_loop; eauto.
  - destruct (flags_valid fl); [|assumption].
    unfold append. destruct (insert _ _) eqn:E; simpl; [eapply uniq_insert; eauto | assumption].
  - destruct ro; [assumption|]. simpl. unfold expunge. now apply uniq_filter.
  - unfold drop_spam. destruct (spam s); [|assumption]. destruct del; simpl; [now apply uniq_filter | assumption].
  - unfold create_spam. destruct (spam s); assumption.
Qed.

(** ---------- histories ---------- *)

Theorem history_exact e : forall h s,
  uniq_keys (links s) -> hist_class e s h = None -> run e s h = spec_run e s h.
Proof.
  induction h as [|o h IH]; intros s Hu Hc; simpl in *; [reflexivity|].
  destruct (classify e s o) eqn:E; [discriminate|].
  rewrite <- (step_exact e s o Hu E). apply IH; [now apply uniq_step | assumption].
Qed.

Lemma uniq_keys_b_spec ls : uniq_keys_b ls = true -> uniq_keys ls.
Proof.
  unfold uniq_keys. induction ls as [|l ls IH]; simpl; intros H; [constructor|].
  apply andb_true_iff in H. destruct H as [H1 H2]. constructor; [|auto].
  intros Hin. apply in_map_iff in Hin. destruct Hin as [x [Hk Hx]].
  apply negb_true_iff in H1. rewrite <- not_true_iff_false, existsb_exists in H1. apply H1.
  exists x. split; [assumption|]. now apply has_key_lkey.
Qed.
