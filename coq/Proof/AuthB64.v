(** C04 — base64: Go's StdEncoding decoder (model) inverts the RFC 4648
    encoder, for ALL octet strings. *)
From Coq Require Import String Ascii List Bool Arith NArith ZArith Lia.
From Raven Require Import Base.GoStr Base.GoStrFacts Base.GoStrB64.
Import ListNotations.
Local Open Scope char_scope.
Local Open Scope N_scope.


Definition chr_ok (i : nat) : bool :=
  let n := N.of_nat i in
  match b64_val (b64_chr n) with Some m => N.eqb m n | None => false end
  && negb (is_crlf (b64_chr n)) && negb (is_space (b64_chr n)) && negb (Ascii.eqb (b64_chr n) PAD).

Lemma chr_table : forallb chr_ok (seq 0 64) = true.
Proof. vm_compute. reflexivity. Qed.

Lemma chr_props n : n < 64 ->
  b64_val (b64_chr n) = Some n /\ is_crlf (b64_chr n) = false /\ is_space (b64_chr n) = false.
Proof.
  intros H. pose proof chr_table as T. rewrite forallb_forall in T.
  specialize (T (N.to_nat n)). unfold chr_ok in T. rewrite N2Nat.id in T.
  assert (I : In (N.to_nat n) (seq 0 64)) by (apply in_seq; lia).
  apply T in I. rewrite !andb_true_iff, !negb_true_iff in I. destruct I as [[[I1 I2] I3] _].
  destruct (b64_val (b64_chr n)) as [m|]; [|discriminate]. apply N.eqb_eq in I1. subst. auto.
Qed.

Lemma pad_props : b64_val PAD = None /\ is_crlf PAD = false /\ is_space PAD = false.
Proof. repeat split. Qed.

Lemma byte_lt a : byte_of a < 256.
Proof. unfold byte_of. apply N_ascii_bounded. Qed.

Lemma byte_back a x : x = byte_of a -> ascii_of_N x = a.
Proof. intros ->. apply ascii_N_embedding. Qed.

Ltac split_dm x k :=
  let q := fresh "q" in let r := fresh "r" in
  pose proof (N.div_mod' x k) as ?; pose proof (N.mod_lt x k ltac:(discriminate)) as ?;
  set (q := x / k) in *; set (r := x mod k) in *; clearbody q r.

Lemma q_bytes v x y z : y < 256 -> z < 256 -> x < 256 -> v = x * 65536 + y * 256 + z ->
  (v / 65536) mod 256 = x /\ (v / 256) mod 256 = y /\ v mod 256 = z.
Proof.
  intros Hy Hz Hx ->. repeat split.
  - assert (E : x = (x * 65536 + y * 256 + z) / 65536) by (apply N.div_unique with (r := y * 256 + z); lia).
    rewrite <- E. now apply N.mod_small.
  - assert (E : x * 256 + y = (x * 65536 + y * 256 + z) / 256) by (apply N.div_unique with (r := z); lia).
    rewrite <- E. symmetry. apply N.mod_unique with (q := x); lia.
  - symmetry. apply N.mod_unique with (q := x * 256 + y); lia.
Qed.

Lemma q_full x y z : x < 256 -> y < 256 -> z < 256 ->
  let v := quantum (x / 4) ((x mod 4) * 16 + y / 16) ((y mod 16) * 4 + z / 64) (z mod 64) in
  (v / 65536) mod 256 = x /\ (v / 256) mod 256 = y /\ v mod 256 = z.
Proof.
  intros Hx Hy Hz v. apply q_bytes; auto. unfold v, quantum.
  split_dm x 4. split_dm y 16. split_dm z 64. lia.
Qed.

Lemma q_two x y : x < 256 -> y < 256 ->
  let v := quantum (x / 4) ((x mod 4) * 16 + y / 16) ((y mod 16) * 4) 0 in
  (v / 65536) mod 256 = x /\ (v / 256) mod 256 = y.
Proof.
  intros Hx Hy v.
  assert (E : v = x * 65536 + y * 256 + 0) by (unfold v, quantum; split_dm x 4; split_dm y 16; lia).
  assert (Z0 : 0 < 256) by lia.
  destruct (q_bytes v x y 0 Hy Z0 Hx E) as (A & B & _). split; assumption.
Qed.

Lemma q_one x : x < 256 ->
  let v := quantum (x / 4) ((x mod 4) * 16) 0 0 in (v / 65536) mod 256 = x.
Proof.
  intros Hx v.
  assert (E : v = x * 65536 + 0 * 256 + 0) by (unfold v, quantum; split_dm x 4; lia).
  assert (Z0 : 0 < 256) by lia.
  destruct (q_bytes v x 0 0 Z0 Z0 Hx E) as (A & _ & _). assumption.
Qed.

Lemma sextets x y z : x < 256 -> y < 256 -> z < 256 ->
  x / 4 < 64 /\ (x mod 4) * 16 + y / 16 < 64 /\ (y mod 16) * 4 + z / 64 < 64 /\ z mod 64 < 64
  /\ (x mod 4) * 16 < 64 /\ (y mod 16) * 4 < 64.
Proof.
  intros Hx Hy Hz. split_dm x 4. split_dm y 16. split_dm z 64. repeat split; lia.
Qed.

Theorem b64_quanta_encode s : b64_quanta (b64_encode s) = Some s.
Proof.
  remember (length s) as n eqn:En. revert s En.
  induction n as [n IH] using lt_wf_ind. intros s En.
  destruct s as [|a [|b [|c rest]]].
  - reflexivity.
  - pose proof (byte_lt a) as Ha.
    destruct (sextets _ _ _ Ha Ha Ha) as (S0 & _ & _ & _ & S1 & _).
    cbn [b64_encode b64_quanta].
    rewrite (proj1 (chr_props _ S0)), (proj1 (chr_props _ S1)).
    change (b64_val PAD) with (@None N). rewrite Ascii.eqb_refl. cbn [andb is_nil_str].
    unfold q_b0. rewrite (q_one _ Ha). now rewrite (byte_back a).
  - pose proof (byte_lt a) as Ha. pose proof (byte_lt b) as Hb.
    destruct (sextets _ _ _ Ha Hb Hb) as (S0 & S1 & _ & _ & _ & S2).
    cbn [b64_encode b64_quanta].
    rewrite (proj1 (chr_props _ S0)), (proj1 (chr_props _ S1)), (proj1 (chr_props _ S2)).
    change (b64_val PAD) with (@None N). rewrite Ascii.eqb_refl. cbn [andb is_nil_str].
    unfold q_b0, q_b1. destruct (q_two _ _ Ha Hb) as [E0 E1]. rewrite E0, E1.
    now rewrite (byte_back a), (byte_back b).
  - pose proof (byte_lt a) as Ha. pose proof (byte_lt b) as Hb. pose proof (byte_lt c) as Hc.
    destruct (sextets _ _ _ Ha Hb Hc) as (S0 & S1 & S2 & S3 & _ & _).
    cbn [b64_encode b64_quanta].
    rewrite (proj1 (chr_props _ S0)), (proj1 (chr_props _ S1)), (proj1 (chr_props _ S2)), (proj1 (chr_props _ S3)).
    rewrite (IH (length rest)); [|subst n; simpl; lia|reflexivity].
    unfold q_b0, q_b1, q_b2. destruct (q_full _ _ _ Ha Hb Hc) as (E0 & E1 & E2). rewrite E0, E1, E2.
    now rewrite (byte_back a), (byte_back b), (byte_back c).
Qed.

(** every octet of an encoding is an alphabet octet or '=': no CR/LF, no blank *)
Lemma encode_chars s : forallb (fun c => negb (is_crlf c) && negb (is_space c)) (b64_encode s) = true.
Proof.
  remember (length s) as n eqn:En. revert s En.
  induction n as [n IH] using lt_wf_ind. intros s En.
  assert (K : forall m, m < 64 -> negb (is_crlf (b64_chr m)) && negb (is_space (b64_chr m)) = true).
  { intros m Hm. destruct (chr_props _ Hm) as (_ & A & B). now rewrite A, B. }
  destruct s as [|a [|b [|c rest]]].
  - reflexivity.
  - pose proof (byte_lt a) as Ha. destruct (sextets _ _ _ Ha Ha Ha) as (S0 & _ & _ & _ & S1 & _).
    cbn [b64_encode forallb]. rewrite (K _ S0), (K _ S1). reflexivity.
  - pose proof (byte_lt a) as Ha. pose proof (byte_lt b) as Hb.
    destruct (sextets _ _ _ Ha Hb Hb) as (S0 & S1 & _ & _ & _ & S2).
    cbn [b64_encode forallb]. rewrite (K _ S0), (K _ S1), (K _ S2). reflexivity.
  - pose proof (byte_lt a) as Ha. pose proof (byte_lt b) as Hb. pose proof (byte_lt c) as Hc.
    destruct (sextets _ _ _ Ha Hb Hc) as (S0 & S1 & S2 & S3 & _ & _).
    cbn [b64_encode forallb]. rewrite (K _ S0), (K _ S1), (K _ S2), (K _ S3).
    rewrite (IH (length rest)); [reflexivity|subst n; simpl; lia|reflexivity].
Qed.

Lemma filter_all {A} (f : A -> bool) l : forallb f l = true -> filter f l = l.
Proof. induction l as [|x l IH]; [reflexivity|]. simpl. intros H. apply andb_true_iff in H as [H1 H2]. now rewrite H1, IH. Qed.

(** base64.StdEncoding.DecodeString (model) after RFC 4648 encoding is the identity *)
Theorem b64_roundtrip s : b64_decode (b64_encode s) = Some s.
Proof.
  unfold b64_decode. rewrite filter_all; [apply b64_quanta_encode|].
  pose proof (encode_chars s) as H. revert H. generalize (b64_encode s). intros l.
  induction l as [|c l IH]; [reflexivity|]. cbn [forallb]. rewrite !andb_true_iff.
  intros [[H1 _] H2]. split; auto.
Qed.
