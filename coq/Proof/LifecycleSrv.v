(** C20 — proofs about the Shutdown models of Model/LifecycleSrv.v *)
From Coq Require Import List Bool Arith Lia.
From Raven Require Import Base.GoStr Model.Lifecycle Model.LifecycleSrv Spec.Lifecycle.
Import ListNotations.

Definition inv (s : srv) : Prop := chan_closed s = true -> listening s = false.
Definition stopped (s : srv) : Prop := panicked s = true \/ listening s = false.

Lemma srv_run_cons k s e h :
  srv_run k s (e :: h) = (fst (srv_run k (fst (sstep_srv k s e)) h), snd (sstep_srv k s e) ++ snd (srv_run k (fst (sstep_srv k s e)) h)).
Proof. cbn [srv_run]. destruct (sstep_srv k s e) as [s1 o]. cbn [fst snd]. destruct (srv_run k s1 h). reflexivity. Qed.

Lemma srv_run_app_fst k s a b : fst (srv_run k s (a ++ b)) = fst (srv_run k (fst (srv_run k s a)) b).
Proof.
  revert s. induction a as [|e a IH]; intro s; [reflexivity|].
  rewrite <- app_comm_cons, !srv_run_cons. cbn [fst]. apply IH.
Qed.

Lemma inv_step k s e : inv s -> inv (fst (sstep_srv k s e)).
Proof.
  unfold inv. destruct s as [l c n w p]. destruct k, e, p, l, c, w, n as [|[|n]]; cbn; intros H; auto; try (intro; discriminate).
Qed.

Lemma inv_run k s h : inv s -> inv (fst (srv_run k s h)).
Proof.
  revert s. induction h as [|e h IH]; intros s H; [exact H|].
  rewrite srv_run_cons. cbn [fst]. apply IH, inv_step, H.
Qed.

Lemma shutdown_stops k s : inv s -> stopped (fst (sstep_srv k s Shutdown)).
Proof.
  unfold inv, stopped. destruct s as [l c n w p]. destruct k, p, c, l, w, n as [|n]; cbn; intro H; auto;
    try (specialize (H eq_refl); discriminate).
Qed.

Lemma stopped_step k s e : stopped s -> stopped (fst (sstep_srv k s e)).
Proof.
  unfold stopped. destruct s as [l c n w p]. destruct k, e, p, l, c, w, n as [|[|n]]; cbn; intros [H|H]; auto; discriminate.
Qed.

Lemma stopped_refuses k s h : stopped s -> forallb (fun o => match o with ORefused => true | _ => false end) (connect_outs k s h) = true.
Proof.
  revert s. induction h as [|e h IH]; intros s H; [reflexivity|].
  cbn [connect_outs]. pose proof (stopped_step k s e H) as H1.
  destruct (sstep_srv k s e) as [s1 o] eqn:E. cbn [fst] in H1.
  destruct e; try (apply IH; exact H1).
  rewrite forallb_app, (IH s1 H1), andb_true_r.
  unfold stopped in H. destruct s as [l c n w p]. cbn in H.
  unfold sstep_srv in E. cbn [panicked listening] in E.
  destruct p; [inversion E; reflexivity|]. destruct H as [H|H]; [discriminate|]. subst l. inversion E. reflexivity.
Qed.

(** (c1) after a Shutdown call, whatever happened before, no connection is accepted *)
Lemma shutdown_stops_accepting k h1 h2 :
  forallb (fun o => match o with ORefused => true | _ => false end)
          (connect_outs k (fst (srv_run k srv_init (h1 ++ [Shutdown]))) h2) = true.
Proof.
  apply stopped_refuses. rewrite srv_run_app_fst. rewrite srv_run_cons. cbn [fst srv_run].
  apply shutdown_stops, inv_run. unfold inv, srv_init. cbn. intro; discriminate.
Qed.

(** (c2) the first lmtp.Shutdown returns at once, however many sessions are in flight *)
Lemma lmtp_shutdown_returns s :
  panicked s = false -> chan_closed s = false ->
  snd (sstep_srv SvcLMTP s Shutdown) = [OShutReturned] /\ inflight (fst (sstep_srv SvcLMTP s Shutdown)) = inflight s.
Proof. destruct s as [l c n w p]. cbn. intros -> ->. cbn. split; reflexivity. Qed.

(** a second (third, ...) lmtp.Shutdown returns and changes nothing *)
Lemma lmtp_shutdown_idempotent s :
  panicked s = false -> chan_closed s = true -> sstep_srv SvcLMTP s Shutdown = (s, [OShutReturned]).
Proof. destruct s as [l c n w p]. cbn. intros -> ->. reflexivity. Qed.

Lemma never_panics k h : forall s, panicked s = false -> panicked (fst (srv_run k s h)) = false.
Proof.
  induction h as [|e h IH]; intros s H; [exact H|].
  rewrite srv_run_cons. cbn [fst]. apply IH.
  destruct s as [l c n w p]. cbn in H. subst p. destruct k, e, l, c, w, n as [|[|n]]; reflexivity.
Qed.

Lemma lmtp_double_shutdown_returns :
  snd (srv_run SvcLMTP srv_init [Shutdown; Shutdown]) = [OShutReturned; OShutReturned].
Proof. vm_compute. reflexivity. Qed.

(** (c3) sasl.Shutdown returns exactly when the connections in flight have ended *)
Definition is_shutdown (e : sev) : bool := match e with Shutdown => true | _ => false end.
Definition is_end (e : sev) : bool := match e with SessionEnd => true | _ => false end.

Definition blocked (n : nat) : srv := mk_srv false true n true false.

Lemma sasl_first_shutdown s :
  panicked s = false -> chan_closed s = false ->
  sstep_srv SvcSASL s Shutdown =
    if inflight s =? 0 then (mk_srv false true 0 false false, [OShutReturned])
    else (blocked (inflight s), [OShutBlocked]).
Proof. destruct s as [l c n w p]. cbn. intros -> ->. reflexivity. Qed.

Lemma sasl_drains h : forall n,
  0 < n -> existsb is_shutdown h = false -> n <= length (filter is_end h) ->
  In OShutReturned (snd (srv_run SvcSASL (blocked n) h)).
Proof.
  induction h as [|e h IH]; intros n Hn Hs Hc; cbn in Hc; [lia|].
  rewrite srv_run_cons. cbn [snd]. apply in_or_app.
  destruct e; cbn in Hs; try discriminate.
  - right. cbn. apply IH; assumption.
  - destruct n as [|[|m]]; [lia| left; cbn; auto |].
    right. cbn. apply (IH (S m)); [lia | exact Hs | cbn in Hc; lia].
Qed.

Lemma sasl_waits_for_sessions h : forall n,
  0 < n -> existsb is_end h = false ->
  ~ In OShutReturned (snd (srv_run SvcSASL (blocked n) h)) /\ fst (srv_run SvcSASL (blocked n) h) = blocked n.
Proof.
  induction h as [|e h IH]; intros n Hn Hs; [cbn; auto|].
  rewrite srv_run_cons. cbn [fst snd].
  destruct (IH n Hn (proj2 (orb_false_elim _ _ Hs))) as [H1 H2].
  destruct e; cbn in Hs; try discriminate.
  - change (sstep_srv SvcSASL (blocked n) Connect) with (blocked n, [ORefused]). cbn [fst snd].
    split; [|exact H2]. intro H. apply in_app_or in H as [H|H]; [cbn in H; destruct H as [H|[]]; discriminate | exact (H1 H)].
  - change (sstep_srv SvcSASL (blocked n) Shutdown) with (blocked n, [OShutBlocked]). cbn [fst snd].
    split; [|exact H2]. intro H. apply in_app_or in H as [H|H]; [cbn in H; destruct H as [H|[]]; discriminate | exact (H1 H)].
Qed.

(** (c4) the LMTP transaction: an acknowledgement is never ahead of its store *)
Lemma number_from_in {A} (l : list A) : forall i j x, In (j, x) (number_from i l) -> i <= j.
Proof.
  induction l as [|y l IH]; intros i j x H; cbn in H; [contradiction|].
  destruct H as [H|H]; [inversion H; lia | apply IH in H; lia].
Qed.

Lemma firstn_In' {A} (x : A) : forall n l, In x (firstn n l) -> In x l.
Proof.
  induction n as [|n IH]; intros [|y l] H; cbn in H; try contradiction.
  destruct H as [H|H]; [left; exact H | right; apply IH, H].
Qed.

Lemma ack_not_before_store (results : list bool) (k i : nat) :
  In (Ack i true) (firstn k (data_trace results)) -> In (Store i true) (firstn k (data_trace results)).
Proof.
  unfold data_trace. set (A := map (fun '(i, ok) => Store i ok) (number_from 0 results)).
  set (B := map (fun '(i, ok) => Ack i ok) (number_from 0 results)).
  rewrite !firstn_app. intro H. apply in_app_or in H as [H|H].
  - exfalso. apply firstn_In' in H. unfold A in H. apply in_map_iff in H as [[j x] [E _]]. discriminate.
  - apply in_or_app. left.
    assert (Hk : length A <= k).
    { destruct (le_lt_dec (length A) k) as [L|L]; [exact L|].
      replace (k - length A) with 0 in H by lia. cbn in H. contradiction. }
    rewrite firstn_all2 by exact Hk.
    apply firstn_In' in H. unfold B in H. apply in_map_iff in H as [[j x] [E Hin]]. inversion E; subst.
    unfold A. apply in_map_iff. exists (i, true). split; [reflexivity | exact Hin].
Qed.

(** lmtp.Shutdown does not touch sessions: a session's run is the same
    function of its own read outcomes whether or not Shutdown was called
    (Shutdown changes [srv] only; sessions are not a component of it) *)
Definition sys := (srv * list lstate)%type.
Inductive sysev := SysShutdown | SysSess (i : nat) (e : event).

Fixpoint upd {A} (l : list A) (i : nat) (f : A -> A) : list A :=
  match l, i with
  | [], _ => []
  | x :: l', O => f x :: l'
  | x :: l', S j => x :: upd l' j f
  end.

Definition sys_step (cf : lconf) (s : sys) (e : sysev) : sys :=
  match e with
  | SysShutdown => (fst (sstep_srv SvcLMTP (fst s) Shutdown), snd s)
  | SysSess i ev => (fst s, upd (snd s) i (fun st => fst (lstep cf st ev)))
  end.

Definition sys_run cf (s : sys) (h : list sysev) : sys := fold_left (sys_step cf) h s.

Definition drop_shutdown (h : list sysev) : list sysev :=
  filter (fun e => match e with SysShutdown => false | _ => true end) h.

Lemma lmtp_shutdown_noninterference cf h : forall s,
  snd (sys_run cf s h) = snd (sys_run cf s (drop_shutdown h)).
Proof.
  induction h as [|e h IH]; intro s; [reflexivity|].
  destruct e as [|i ev]; cbn [drop_shutdown filter sys_run fold_left].
  - unfold sys_run in IH. rewrite IH. fold (drop_shutdown h).
    clear IH. generalize (drop_shutdown h). intro h'.
    assert (G : forall (h' : list sysev) (a b : sys), snd a = snd b -> snd (fold_left (sys_step cf) h' a) = snd (fold_left (sys_step cf) h' b)).
    { clear. induction h' as [|e h' IH]; intros a b E; [exact E|]. cbn [fold_left]. apply IH.
      destruct e; cbn [sys_step snd]; rewrite E; reflexivity. }
    apply G. reflexivity.
  - apply IH.
Qed.
