(** the OR cursor arithmetic never indexes out of range (after fix c12-6) *)
From Coq Require Import String Ascii List Bool Arith Lia.
From Raven Require Import Base.GoStr Model.Slicers Model.SearchOr.
Import ListNotations.

Lemma nth_some {A} (l : list A) (i : nat) : i < length l -> exists x, nth_error l i = Some x.
Proof.
  intros H. destruct (nth_error l i) eqn:E; [eauto|]. apply nth_error_None in E. lia.
Qed.

Lemma take_key_some (tokens : list str) (i : nat) :
  i < length tokens -> exists k j, take_key tokens i = Some (k, j) /\ (j = i \/ j = i + 1) /\ j < length tokens.
Proof.
  intros H. unfold take_key. destruct (nth_some tokens i H) as [t ->].
  destruct (Nat.ltb_spec (i + 1) (length tokens)) as [L|L]; simpl.
  - destruct (requires_argument (to_upper t)).
    + destruct (nth_some tokens (i + 1) L) as [a ->]. eexists _, _. split; [reflexivity|]. lia.
    + eexists _, _. split; [reflexivity|]. lia.
  - eexists _, _. split; [reflexivity|]. lia.
Qed.

Lemma take_key_none (tokens : list str) (i : nat) : length tokens <= i -> take_key tokens i = None.
Proof. intros H. unfold take_key. apply nth_error_None in H. now rewrite H. Qed.

Theorem or_step_total (tokens : list str) (i : nat) : or_step tokens i <> None.
Proof.
  unfold or_step.
  destruct (Nat.leb_spec (length tokens) (i + 2)) as [G|G]; [discriminate|].
  destruct (take_key_some tokens (i + 1)) as [k1 [j [-> [_ Hj]]]]; [lia|].
  destruct (Nat.leb_spec (length tokens) (j + 1)) as [G2|G2]; [discriminate|].
  destruct (take_key_some tokens (j + 1)) as [k2 [j2 [-> _]]]; [lia|]. discriminate.
Qed.

(** regression fact about the OLD code (before fix c12-6), stated without the
    current model: reading the second key at cursor i+3 of a 3-token list *)
Example old_or_second_key_out_of_range :
  nth_error [S_ "OR"; S_ "KEYWORD"; S_ "x"] 3 = None.
Proof. reflexivity. Qed.
