(** the OR cursor arithmetic indexes out of range exactly when OR is the third
    token from the end and its first key takes an argument *)
From Coq Require Import String Ascii List Bool Arith Lia.
From Raven Require Import Base.GoStr Model.Slicers Model.SearchOr.
Import ListNotations.

Lemma nth_some {A} (l : list A) (i : nat) : i < length l -> exists x, nth_error l i = Some x.
Proof.
  intros H. destruct (nth_error l i) eqn:E; [eauto|]. apply nth_error_None in E. lia.
Qed.

Lemma take_key_some (tokens : list str) (i : nat) :
  i < length tokens -> exists k j, take_key tokens i = Some (k, j) /\ (j = i \/ j = i + 1) /\ j < length tokens.
Proof.
  intros H. unfold take_key. destruct (nth_some tokens i H) as [t ->].
  destruct (Nat.ltb_spec (i + 1) (length tokens)) as [L|L]; simpl.
  - destruct (requires_argument (to_upper t)).
    + destruct (nth_some tokens (i + 1) L) as [a ->]. eexists _, _. split; [reflexivity|]. lia.
    + eexists _, _. split; [reflexivity|]. lia.
  - eexists _, _. split; [reflexivity|]. lia.
Qed.

Lemma take_key_none (tokens : list str) (i : nat) : length tokens <= i -> take_key tokens i = None.
Proof. intros H. unfold take_key. apply nth_error_None in H. now rewrite H. Qed.

Theorem or_step_none_iff (tokens : list str) (i : nat) :
  or_step tokens i = None <-> classify_or tokens i = Some SearchOrArity.
Proof.
  unfold or_step, classify_or.
  destruct (Nat.leb_spec (length tokens) (i + 2)) as [G|G].
  - destruct (Nat.eqb_spec (i + 3) (length tokens)); [lia|]. simpl. split; discriminate.
  - assert (H1 : i + 1 < length tokens) by lia.
    unfold take_key at 1. destruct (nth_some tokens (i + 1) H1) as [t E]. rewrite E.
    destruct (Nat.ltb_spec (i + 1 + 1) (length tokens)) as [L|L]; [|lia]. simpl.
    destruct (requires_argument (to_upper t)) eqn:R.
    + destruct (nth_some tokens (i + 1 + 1) L) as [a ->].
      destruct (Nat.eqb_spec (i + 3) (length tokens)) as [Q|Q]; simpl.
      * rewrite take_key_none by lia. split; reflexivity.
      * destruct (take_key_some tokens (i + 1 + 1 + 1)) as [k [j [-> _]]]; [lia|]. split; discriminate.
    + rewrite andb_false_r.
      destruct (take_key_some tokens (i + 1 + 1)) as [k [j [-> _]]]; [lia|]. split; discriminate.
Qed.
