(** C07 — the micro-step lists of Model/Micro.v refine the big-step operations
    ([big], i.e. Model/Ops.v's [step] for the mailbox/link tables):
      run_steps d (micro d o) = fst (big d o). *)
From Coq Require Import String Ascii List Bool ZArith Arith Lia.
From Raven Require Import Base.GoStr Model.Store Model.Ops Model.Micro.
Import ListNotations.
Local Open Scope Z_scope.

Lemma run_steps_app d a b : run_steps d (a ++ b) = run_steps (run_steps d a) b.
Proof. apply fold_left_app. Qed.

Lemma with_st_id d : with_st d (d_st d) = d.
Proof. destruct d; reflexivity. Qed.
Lemma with_msgs_id d : with_msgs d (d_msgs d) = d.
Proof. destruct d; reflexivity. Qed.

(** ---- GetUserDB ------------------------------------------------------------------- *)

Definition set_schema (d : dstore) (n : nat) : dstore :=
  mkD (d_file d) n (d_st d) (d_msgs d) (d_subs d) (d_deliv d).

(** the 27 CREATE ... IF NOT EXISTS statements, issued in order on an existing
    file, complete the schema from wherever an earlier run stopped *)
Lemma schema_run d :
  d_file d = true ->
  run_steps d (map MSchema (seq 0 NSCHEMA)) = set_schema d (Nat.max NSCHEMA (d_schema d)).
Proof.
  destruct d as [f n s ms sb dl]. cbn [d_file d_schema]. intros ->.
  do 28 (destruct n as [|n]; [vm_compute; reflexivity|]).
  vm_compute. reflexivity.
Qed.

Lemma file_of_file d : d_file (file_of d) = true.
Proof. unfold file_of. destruct (d_file d) eqn:F; [exact F|reflexivity]. Qed.

Lemma open_refines d t1 t2 t3 t4 t5 :
  run_steps d (open_steps d t1 t2 t3 t4 t5) = opened d t1 t2 t3 t4 t5.
Proof.
  unfold open_steps, opened. rewrite !run_steps_app.
  assert (E1 : run_steps d (if d_file d then [] else [MCreateFile]) = file_of d).
  { unfold file_of. destruct (d_file d); reflexivity. }
  rewrite E1. set (d' := file_of d). rewrite (schema_run d' (file_of_file d)).
  destruct (mboxes (d_st d')) eqn:M.
  - unfold run_steps. cbn [fold_left exec set_schema d_file d_schema d_st]. unfold d'. rewrite file_of_file. fold d'.
    replace (1 <=? Nat.max NSCHEMA (d_schema d'))%nat with true
      by (symmetry; apply Nat.leb_le; unfold NSCHEMA; lia).
    cbn [andb]. rewrite M. unfold with_st, set_schema. cbn. unfold d'. now rewrite file_of_file.
  - unfold run_steps, set_schema. cbn [fold_left]. unfold d'. now rewrite file_of_file.
Qed.

(** ---- StoreMessage ---------------------------------------------------------------- *)

(** every row of [messages] has an id below the next rowid *)
Definition msgs_below (d : dstore) : Prop :=
  forall m, In m (d_msgs d) -> m_id m < next_msg (d_st d).

Lemma upd_last f id l m :
  (forall x, In x l -> m_id x <> id) -> m_id m = id ->
  upd_msg f id (l ++ [m]) = l ++ [f m].
Proof.
  intros Hl Hm. unfold upd_msg. rewrite map_app. f_equal.
  - rewrite <- (map_id l) at 2. apply map_ext_in. intros x Hx.
    destruct (m_id x =? id) eqn:E; [|reflexivity]. apply Z.eqb_eq in E. now apply Hl in Hx.
  - simpl. rewrite Hm, Z.eqb_refl. reflexivity.
Qed.

Lemma iter_shift {A} (f : A -> A) n x : Nat.iter n f (f x) = f (Nat.iter n f x).
Proof. induction n; simpl; [reflexivity|now rewrite IHn]. Qed.

Lemma run_repeat_upd (St : Z -> mstep) (f : msgrec -> msgrec) :
  (forall d id, exec d (St id) = with_msgs d (upd_msg f id (d_msgs d))) ->
  (forall m, m_id (f m) = m_id m) ->
  forall n d l m id, d_msgs d = l ++ [m] -> (forall x, In x l -> m_id x <> id) -> m_id m = id ->
  run_steps d (repeat (St id) n) = with_msgs d (l ++ [Nat.iter n f m]).
Proof.
  intros He Hf. induction n; intros d l m id Hd Hl Hm.
  - simpl. rewrite <- Hd. symmetry. apply with_msgs_id.
  - simpl. unfold run_steps in *. simpl. rewrite He, Hd, (upd_last f id l m Hl Hm).
    rewrite (IHn _ l (f m) id); [|reflexivity|exact Hl|now rewrite Hf].
    rewrite iter_shift. destruct d; reflexivity.
Qed.

Lemma run_parts bs : forall d l m id,
  d_msgs d = l ++ [m] -> (forall x, In x l -> m_id x <> id) -> m_id m = id ->
  run_steps d (flat_map (fun b : bool => (if b then [MBlob] else []) ++ [MInsPart id]) bs)
  = with_msgs d (l ++ [Nat.iter (length bs) add_part m]).
Proof.
  induction bs as [|b bs IH]; intros d l m id Hd Hl Hm.
  - simpl. rewrite <- Hd. symmetry. apply with_msgs_id.
  - cbn [flat_map length]. rewrite run_steps_app.
    assert (E : run_steps d ((if b then [MBlob] else []) ++ [MInsPart id])
                = with_msgs d (l ++ [add_part m])).
    { destruct b; unfold run_steps; simpl; rewrite Hd, (upd_last add_part id l m Hl Hm); reflexivity. }
    rewrite E. rewrite (IH _ l (add_part m) id); [|reflexivity|exact Hl|exact Hm].
    rewrite iter_shift. destruct d; reflexivity.
Qed.

Lemma iter_hdr n m : Nat.iter n add_hdr m = mkMsg (m_id m) (n + m_hdr m) (m_adr m) (m_parts m) (m_want m).
Proof. induction n; simpl; [destruct m; reflexivity|rewrite IHn; reflexivity]. Qed.
Lemma iter_adr n m : Nat.iter n add_adr m = mkMsg (m_id m) (m_hdr m) (n + m_adr m) (m_parts m) (m_want m).
Proof. induction n; simpl; [destruct m; reflexivity|rewrite IHn; reflexivity]. Qed.
Lemma iter_part n m : Nat.iter n add_part m = mkMsg (m_id m) (m_hdr m) (m_adr m) (n + m_parts m) (m_want m).
Proof. induction n; simpl; [destruct m; reflexivity|rewrite IHn; reflexivity]. Qed.

(** the state after the first [k] header rows, [j] address rows, [p] part rows *)
Definition partial_msg (id : Z) (sh : shape) (h a p : nat) : msgrec := mkMsg id h a p sh.

Lemma msg_steps_refines d sh :
  msgs_below d ->
  run_steps d (msg_steps (next_msg (d_st d)) sh)
  = mkD (d_file d) (d_schema d) (fst (store_message (d_st d)))
        (d_msgs d ++ [done_msg (next_msg (d_st d)) sh]) (d_subs d) (d_deliv d).
Proof.
  intros Hb. unfold msg_steps. set (id := next_msg (d_st d)).
  assert (Hl : forall x, In x (d_msgs d) -> m_id x <> id).
  { intros x Hx. apply Hb in Hx. unfold id. lia. }
  change (MInsMessage sh :: ?r) with ([MInsMessage sh] ++ r).
  rewrite !run_steps_app.
  set (d1 := run_steps d [MInsMessage sh]).
  assert (E1 : d1 = mkD (d_file d) (d_schema d) (fst (store_message (d_st d)))
                        (d_msgs d ++ [mkMsg id 0 0 0 sh]) (d_subs d) (d_deliv d)) by reflexivity.
  rewrite (run_repeat_upd MInsHeader add_hdr (fun _ _ => eq_refl) (fun _ => eq_refl)
             (sh_hdr sh) d1 (d_msgs d) (mkMsg id 0 0 0 sh) id); [|rewrite E1; reflexivity|exact Hl|reflexivity].
  rewrite iter_hdr. cbn [m_id m_hdr m_adr m_parts m_want].
  rewrite (run_repeat_upd MInsAddress add_adr (fun _ _ => eq_refl) (fun _ => eq_refl)
             (sh_adr sh) _ (d_msgs d) (mkMsg id (sh_hdr sh + 0) 0 0 sh) id); [|reflexivity|exact Hl|reflexivity].
  rewrite iter_adr. cbn [m_id m_hdr m_adr m_parts m_want].
  rewrite (run_parts (sh_parts sh) _ (d_msgs d) (mkMsg id (sh_hdr sh + 0) (sh_adr sh + 0) 0 sh) id);
    [|reflexivity|exact Hl|reflexivity].
  rewrite iter_part. cbn [m_id m_hdr m_adr m_parts m_want].
  rewrite E1. unfold with_msgs, done_msg. cbn [d_file d_schema d_st d_subs d_deliv].
  rewrite !Nat.add_0_r. reflexivity.
Qed.

(** ---- AddMessageToMailbox ------------------------------------------------------------ *)

Lemma bump_absent s mb : find_id s mb = None -> bump s mb = s.
Proof.
  intros F. unfold bump, set_mboxes. destruct s as [mbs lk nm gl gu gs]. cbn [mboxes links next_msg glog gused gser] in *.
  f_equal. unfold find_id in F. cbn [mboxes] in F. rewrite <- (map_id mbs) at 2. apply map_ext_in. intros m Hm.
  unfold bump_row. destruct (mb_id m =? mb) eqn:E; [|reflexivity].
  exfalso. pose proof (find_none _ _ F m Hm) as X. cbv beta in X. congruence.
Qed.

Lemma add_steps_refines d msg mb fl :
  d_st (run_steps d (add_steps (d_st d) msg mb fl)) = fst (add_message (d_st d) msg mb fl)
  /\ snd (add_message (d_st d) msg mb fl) = add_ok (d_st d) mb
  /\ run_steps d (add_steps (d_st d) msg mb fl)
     = with_st d (fst (add_message (d_st d) msg mb fl)).
Proof.
  unfold add_steps, add_message, add_ok. destruct (find_id (d_st d) mb) as [m|] eqn:F.
  - unfold run_steps. cbn [fold_left exec]. unfold insert_link. cbn [d_st with_st bump links set_mboxes].
    destruct (existsb (at_uid mb (mb_next m)) (links (d_st d))); cbn; repeat split; destruct d; reflexivity.
  - unfold run_steps. cbn [fold_left exec fst snd]. rewrite (bump_absent _ _ F). repeat split.
Qed.

Lemma store_message_next s : next_msg (fst (store_message s)) = next_msg s + 1.
Proof. reflexivity. Qed.

Lemma add_message_next s msg mb fl : next_msg (fst (add_message s msg mb fl)) = next_msg s.
Proof.
  unfold add_message. destruct (find_id s mb); [|reflexivity].
  unfold insert_link. destruct (existsb _ _); reflexivity.
Qed.

Lemma create_row_next s n t s' id : create_mailbox_row s n t = Some (s', id) -> next_msg s' = next_msg s.
Proof.
  unfold create_mailbox_row. destruct n; [discriminate|]. destruct (find_name s _); [discriminate|].
  intros E. inversion E. reflexivity.
Qed.

(** ---- APPEND ---------------------------------------------------------------------------- *)

Lemma append_refines d f fl sh :
  msgs_below d -> ready d = true ->
  run_steps d (micro d (CAppend f fl sh)) = fst (big d (CAppend f fl sh)).
Proof.
  intros Hb Hr. unfold micro, big. rewrite Hr. unfold append_steps, op_append.
  destruct (find_name (d_st d) f) as [m|] eqn:Fn.
  - rewrite run_steps_app, (msg_steps_refines d sh Hb).
    set (d1 := mkD _ _ _ _ _ _).
    change (next_msg (d_st d)) with (next_msg (d_st d)).
    assert (Ea : add_steps (d_st d) (next_msg (d_st d)) (mb_id m) fl
                 = add_steps (d_st d1) (next_msg (d_st d)) (mb_id m) fl) by reflexivity.
    rewrite Ea. destruct (add_steps_refines d1 (next_msg (d_st d)) (mb_id m) fl) as (_ & _ & E3).
    rewrite E3. unfold store_message. cbn [fst snd d_st d1].
    destruct (add_message _ _ _ _) as [s2 ok] eqn:Ea2.
    assert (Hn : next_msg s2 = next_msg (d_st d) + 1).
    { match type of Ea2 with add_message ?a ?b ?c ?e = _ => pose proof (add_message_next a b c e) as X end.
      rewrite Ea2 in X. exact X. }
    destruct ok; cbn [fst]; rewrite Hn;
      replace (next_msg (d_st d) + 1 =? next_msg (d_st d)) with false by (symmetry; apply Z.eqb_neq; lia);
      reflexivity.
  - cbn. rewrite Z.eqb_refl. destruct d; reflexivity.
Qed.

(** ---- CreateMailboxPerUser: allocator statement, then INSERT ------------------------------ *)

Lemma ready_schema2 d : ready d = true -> d_file d = true /\ (2 <=? d_schema d)%nat = true /\ (1 <=? d_schema d)%nat = true.
Proof.
  unfold ready. intros Hr. apply andb_true_iff in Hr. destruct Hr as [Hf Hs].
  apply Nat.leb_le in Hs. unfold NTABLES in Hs. repeat split; auto; apply Nat.leb_le; lia.
Qed.

Lemma create_steps_refines d n t s' id :
  ready d = true -> create_mailbox_row (d_st d) n t = Some (s', id) ->
  run_steps d (create_steps (d_st d) n t) = with_st d s'.
Proof.
  intros Hr Cr. destruct (ready_schema2 d Hr) as (F & S2 & S1).
  unfold create_steps, run_steps. cbn [fold_left exec]. rewrite F, S2. cbn [andb d_file d_schema with_st d_st].
  rewrite F, S1. cbn [andb].
  unfold create_mailbox_row in Cr. unfold insert_mailbox_row, alloc_validity.
  destruct n as [|c r]; [discriminate|]. cbn [find_name mboxes] in *.
  change (find_name (mkStore (mboxes (d_st d)) (links (d_st d)) (next_msg (d_st d)) (glog (d_st d))
            (gused (d_st d) ++ [(c :: r, next_validity (d_st d) t)]) (gser (d_st d))) (c :: r))
    with (find_name (d_st d) (c :: r)).
  destruct (find_name (d_st d) (c :: r)); [discriminate|]. inversion Cr. reflexivity.
Qed.

(** ---- delivery --------------------------------------------------------------------------- *)

Lemma msgs_below_with_st d s : msgs_below d -> next_msg s = next_msg (d_st d) -> msgs_below (with_st d s).
Proof. intros H E m Hm. cbn in *. rewrite E. now apply H. Qed.

Lemma deliver_tail_refines d id sh :
  msgs_below d ->
  run_steps d (msg_steps (next_msg (d_st d)) sh ++ add_steps (d_st d) (next_msg (d_st d)) id []
               ++ (if add_ok (d_st d) id then [MInsDelivery] else []))
  = let '(s2, msg) := store_message (d_st d) in
    let '(s3, ok) := add_message s2 msg id [] in
    mkD (d_file d) (d_schema d) s3 (d_msgs d ++ [done_msg (next_msg (d_st d)) sh]) (d_subs d)
        (if ok then S (d_deliv d) else d_deliv d).
Proof.
  intros Hb. rewrite !run_steps_app, (msg_steps_refines d sh Hb).
  set (d1 := mkD _ _ _ _ _ _).
  assert (Ea : add_steps (d_st d) (next_msg (d_st d)) id [] = add_steps (d_st d1) (next_msg (d_st d)) id [])
    by reflexivity.
  assert (Eo : add_ok (d_st d) id = add_ok (d_st d1) id) by reflexivity.
  rewrite Ea, Eo. destruct (add_steps_refines d1 (next_msg (d_st d)) id []) as (_ & E2 & E3).
  rewrite E3, <- E2. unfold store_message. cbn [d_st d1 fst].
  destruct (add_message _ _ _ _) as [s3 ok]. cbn [fst snd].
  destruct ok; reflexivity.
Qed.

Lemma deliver_refines d f t sh :
  msgs_below d -> ready d = true ->
  run_steps d (micro d (CDeliver f t sh)) = fst (big d (CDeliver f t sh)).
Proof.
  intros Hb Hr. unfold micro, big. rewrite Hr. set (d0 := d) in *.
  unfold deliver_steps, op_deliver.
  destruct (find_name (d_st d0) f) as [m|] eqn:Fn.
  - cbn [app]. rewrite (deliver_tail_refines d0 (mb_id m) sh Hb).
    unfold store_message.
    destruct (add_message _ _ _ _) as [s3 ok] eqn:Ea.
    assert (Hn : next_msg s3 = next_msg (d_st d0) + 1).
    { match type of Ea with add_message ?a ?b ?c ?e = _ => pose proof (add_message_next a b c e) as X end.
      rewrite Ea in X. exact X. }
    cbn [fst]. rewrite Hn.
    replace (next_msg (d_st d0) + 1 =? next_msg (d_st d0)) with false by (symmetry; apply Z.eqb_neq; lia).
    destruct ok; reflexivity.
  - destruct (create_mailbox_row (d_st d0) f t) as [[s' id]|] eqn:Cr.
    + rewrite run_steps_app, (create_steps_refines d0 f t s' id Hr Cr).
      pose proof (create_row_next _ _ _ _ _ Cr) as Hn0.
      assert (Hb' : msgs_below (with_st d0 s')) by (apply msgs_below_with_st; auto).
      pose proof (deliver_tail_refines (with_st d0 s') id sh Hb') as T. cbn [d_st with_st] in T.
      rewrite T. unfold store_message.
      destruct (add_message _ _ _ _) as [s3 ok] eqn:Ea.
      assert (Hn : next_msg s3 = next_msg s' + 1).
      { match type of Ea with add_message ?a ?b ?c ?e = _ => pose proof (add_message_next a b c e) as X end.
        rewrite Ea in X. exact X. }
      cbn [fst d_file d_schema d_msgs d_subs d_deliv with_st]. rewrite Hn, Hn0.
      replace (next_msg (d_st d0) + 1 =? next_msg (d_st d0)) with false by (symmetry; apply Z.eqb_neq; lia).
      destruct ok; reflexivity.
    + cbn. rewrite Z.eqb_refl. destruct d0; reflexivity.
Qed.
