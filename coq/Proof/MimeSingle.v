(** C02 — single-part messages: body octets and header list survive
    store + rebuild, for every blob history and every later store
    (code as of fixes C02-1, -3, -4, -6: no input is excepted any more). *)
From Coq Require Import String Ascii List Bool Arith NArith ZArith Lia.
From Raven Require Import Base.GoStr Base.GoStrMime Spec.Mime Model.MimeHeaders Model.MimeStore
  Spec.MimeCheck Proof.MimeBlob Proof.MimeTrim Proof.MimeRows.
Import ListNotations.

Lemma inline_fields bs r a b p :
  inline_row bs r = mk_row a b p None ->
  pp_type (r_part r) = pp_type p /\ pp_charset (r_part r) = pp_charset p /\ pp_cte (r_part r) = pp_cte p
  /\ row_content bs r = pp_text p.
Proof.
  unfold inline_row, set_text. intros H. injection H as _ _ H. destruct p. injection H. intros. cbn. auto.
Qed.

Section Single.
Variable hash : str -> str.

Lemma hdrs_equiv_aux_pointwise allow : forall hs hs',
  Forall2 (fun h h' => hdr_eqv h h' = true) hs hs' -> hdrs_equiv_aux allow hs hs' = true.
Proof.
  intros hs hs' H. induction H as [|h h' t t' E _ IH]; simpl; [reflexivity|]. now rewrite E.
Qed.

Lemma hdrs_equiv_aux_added ct : forall hs hs',
  Forall2 (fun h h' => hdr_eqv h h' = true) hs hs' -> is_default_ct ct = true ->
  hdrs_equiv_aux true hs (hs' ++ [ct]) = true.
Proof.
  intros hs hs' H D. induction H as [|h h' t t' E _ IH]; simpl.
  - now rewrite D.
  - now rewrite E.
Qed.

Lemma hdrs_kept hs : Forall2 (fun h h' => hdr_eqv h h' = true) hs (map out_hdr (map hdr_store hs)).
Proof. induction hs as [|h t IH]; simpl; constructor; [apply hdr_kept | exact IH]. Qed.

Definition has_cte (hs : list header) : bool := existsb (fun h => is_cte_name (fst h)) hs.

Lemma stored_has_ct hs : existsb (fun h => is_ct_name (fst h)) (map hdr_store hs) = has_ct hs.
Proof.
  unfold has_ct. induction hs as [|h t IH]; simpl; [reflexivity|].
  now rewrite fst_hdr_store, is_ct_name_trim, IH.
Qed.

Lemma stored_has_cte hs : existsb (fun h => is_cte_name (fst h)) (map hdr_store hs) = has_cte hs.
Proof.
  unfold has_cte. induction hs as [|h t IH]; simpl; [reflexivity|].
  now rewrite fst_hdr_store, is_cte_name_trim, IH.
Qed.

Lemma header_get_none hs : has_ct hs = false -> header_get hs s_content_type = [].
Proof.
  unfold has_ct. induction hs as [|[n v] t IH]; simpl; [reflexivity|].
  intros H. apply orb_false_iff in H as [H1 H2]. unfold is_ct_name in H1. simpl in H1.
  rewrite H1. now apply IH.
Qed.

(** what ReconstructMessage appends when no Content-Type field was stored *)
Definition single_extra (hs : list header) : list header :=
  let ct := header_get hs s_content_type in
  let mt := match ct with [] => S_ "text/plain" | _ => media_type_of ct end in
  let cs := match ct with [] => S_ "us-ascii" | _ => [] end in
  if has_ct hs then []
  else (S_ "Content-Type", S_ " " ++ mt ++ (match cs with [] => [] | c => S_ "; charset=" ++ c end))
       :: (if has_cte hs then []
           else match header_get hs s_cte_name with [] => [] | e => [(S_ "Content-Transfer-Encoding", S_ " " ++ e)] end).

(** explicit result of store + fetch for a single-part message: it mentions
    neither the blob table nor later stores *)
Lemma single_result : forall (faults : list bool) (bs later : blobs) (hs : list header) (b : str),
  hs <> [] ->
  roundtrip hash faults bs (mk_msg hs (Single b)) later
  = Some (mk_msg (map out_hdr (map hdr_store hs) ++ single_extra hs) (Single b)).
Proof.
  intros faults bs later hs b Hne.
  unfold roundtrip, store, parse_msg, single_extra. cbn [m_body m_hdrs].
  set (ct := header_get hs s_content_type).
  set (mt := match ct with [] => S_ "text/plain" | _ => media_type_of ct end).
  set (cs := match ct with [] => S_ "us-ascii" | _ => [] end).
  set (enc := header_get hs s_cte_name).
  set (p := mk_pp None mt [] enc cs [] [] b).
  destruct (store_parts hash faults bs [] [p] []) as [bs' rows'] eqn:SP.
  apply store_parts_inline in SP as (ext & new & -> & -> & Hn).
  specialize (Hn later). cbn [rowsP_aux] in Hn.
  destruct new as [|r [|r2 new]]; cbn [map] in Hn; try discriminate.
  remember (inline_row ((bs ++ ext) ++ later) r) as ir eqn:Hir.
  injection Hn as Hr. subst ir.
  apply inline_fields in Hr as (T & CS & CE & RC). cbn [pp_type pp_charset pp_cte pp_text p] in T, CS, CE, RC.
  cbn [app]. unfold fetch. cbn [s_rows s_hdrs].
  assert (NE : exists x y, map hdr_store hs = x :: y).
  { destruct hs as [|h0 ht]; [exfalso; apply Hne; reflexivity | simpl; eauto]. }
  destruct NE as (x & y & NE). rewrite NE. rewrite <- NE.
  rewrite stored_has_ct, stored_has_cte, RC, T, CS, CE.
  clearbody cs enc. destruct cs; destruct enc; reflexivity.
Qed.

Theorem single_roundtrip : forall (faults : list bool) (bs later : blobs) (hs : list header) (b : str),
  hs <> [] ->
  spec_ok (mk_msg hs (Single b)) (roundtrip hash faults bs (mk_msg hs (Single b)) later) = true.
Proof.
  intros faults bs later hs b Hne.
  rewrite (single_result faults bs later hs b Hne).
  unfold spec_ok, msg_equiv. cbn [m_body m_hdrs]. rewrite str_eqb_refl. cbn [andb].
  unfold hdrs_equiv, single_extra.
  destruct (has_ct hs) eqn:HC; cbn [negb].
  - rewrite app_nil_r. apply hdrs_equiv_aux_pointwise, hdrs_kept.
  - rewrite (header_get_none hs HC).
    assert (E : (if has_cte hs then []
                 else match header_get hs s_cte_name with
                      | [] => []
                      | e => [(S_ "Content-Transfer-Encoding", S_ " " ++ e)]
                      end) = [] \/ has_cte hs = false) by (destruct (has_cte hs); auto).
    destruct (has_cte hs) eqn:HE.
    + apply hdrs_equiv_aux_added; [apply hdrs_kept | reflexivity].
    + assert (G : header_get hs s_cte_name = []).
      { clear -HE. unfold has_cte in HE. induction hs as [|[n v] t IH]; simpl; [reflexivity|].
        simpl in HE. apply orb_false_iff in HE as [H1 H2]. unfold is_cte_name in H1. simpl in H1.
        rewrite H1. now apply IH. }
      rewrite G. apply hdrs_equiv_aux_added; [apply hdrs_kept | reflexivity].
Qed.

(** independence of the history and of the time of the fetch *)
Theorem single_independent : forall (f1 f2 : list bool) (bs1 bs2 later1 later2 : blobs) (hs : list header) (b : str),
  hs <> [] ->
  roundtrip hash f1 bs1 (mk_msg hs (Single b)) later1 = roundtrip hash f2 bs2 (mk_msg hs (Single b)) later2.
Proof.
  intros f1 f2 bs1 bs2 l1 l2 hs b Hne.
  now rewrite (single_result f1 bs1 l1 hs b Hne), (single_result f2 bs2 l2 hs b Hne).
Qed.

End Single.
