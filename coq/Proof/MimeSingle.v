(** C02 — single-part messages: body octets and header list survive
    store + rebuild outside the finding classes, for every blob history. *)
From Coq Require Import String Ascii List Bool Arith NArith ZArith Lia.
From Raven Require Import Base.GoStr Base.GoStrMime Spec.Mime Model.MimeHeaders Model.MimeStore
  Spec.MimeCheck Proof.MimeBlob Proof.MimeTrim.
Import ListNotations.

Section Single.
Variable hash : str -> str.

Lemma find_key_bound k : forall bs i j, find_key k bs i = Some j -> i <= j < i + length bs.
Proof.
  induction bs as [|[k' c] r IH]; intros i j H; simpl in *; [discriminate|].
  destruct (str_eqb k' k).
  - injection H as <-. lia.
  - apply IH in H. lia.
Qed.

Lemma store_blob_spec bs c e :
  exists ext, fst (store_blob hash bs c e) = bs ++ ext /\ snd (store_blob hash bs c e) < length (bs ++ ext).
Proof.
  unfold store_blob.
  destruct (find_key _ bs 0) as [i|] eqn:F; simpl.
  - exists []. rewrite app_nil_r. split; [reflexivity|]. apply find_key_bound in F. lia.
  - eexists. split; [reflexivity|]. rewrite app_length. simpl. lia.
Qed.

(** pointwise-equivalent header lists, optionally followed by one default Content-Type *)
Lemma hdrs_equiv_aux_pointwise allow : forall hs hs',
  Forall2 (fun h h' => hdr_eqv h h' = true) hs hs' -> hdrs_equiv_aux allow hs hs' = true.
Proof.
  intros hs hs' H. induction H as [|h h' t t' E _ IH]; simpl; [reflexivity|]. now rewrite E.
Qed.

Lemma hdrs_equiv_aux_added ct : forall hs hs',
  Forall2 (fun h h' => hdr_eqv h h' = true) hs hs' -> is_default_ct ct = true ->
  hdrs_equiv_aux true hs (hs' ++ [ct]) = true.
Proof.
  intros hs hs' H D. induction H as [|h h' t t' E _ IH]; simpl.
  - now rewrite D.
  - now rewrite E.
Qed.

Lemma hdr_kept h : fold_ws h = false -> hdr_eqv h (out_hdr (hdr_store h)) = true.
Proof.
  unfold fold_ws. destruct (has_fold (snd h)) eqn:F; simpl.
  - intros H. now apply negb_false_iff in H.
  - intros _. destruct h as [n v]. simpl in F. rewrite (hdr_store_no_fold n v F).
    unfold hdr_eqv, out_hdr. cbn [fst snd]. rewrite trim_space_sp, !trim_space_idem, !str_eqb_refl. reflexivity.
Qed.

Lemma hdrs_kept hs : existsb fold_ws hs = false ->
  Forall2 (fun h h' => hdr_eqv h h' = true) hs (map out_hdr (map hdr_store hs)).
Proof.
  induction hs as [|h t IH]; simpl; intros H; [constructor|].
  apply orb_false_iff in H as [H1 H2]. constructor; [now apply hdr_kept | now apply IH].
Qed.

Lemma stored_has_ct hs : existsb (fun h => is_ct_name (fst h)) (map hdr_store hs) = has_ct hs.
Proof.
  unfold has_ct. induction hs as [|h t IH]; simpl; [reflexivity|].
  now rewrite fst_hdr_store, is_ct_name_trim, IH.
Qed.

Lemma header_get_none hs : has_ct hs = false -> header_get hs s_content_type = [].
Proof.
  unfold has_ct. induction hs as [|[n v] t IH]; simpl; [reflexivity|].
  intros H. apply orb_false_iff in H as [H1 H2]. unfold is_ct_name in H1. simpl in H1.
  rewrite H1. now apply IH.
Qed.

(** what ReconstructMessage appends when no Content-Type field was stored *)
Definition single_extra (hs : list header) : list header :=
  let ct := header_get hs s_content_type in
  let mt := match ct with [] => S_ "text/plain" | _ => media_type_of ct end in
  let cs := match ct with [] => S_ "us-ascii" | _ => [] end in
  if has_ct hs then []
  else (S_ "Content-Type", S_ " " ++ mt ++ (match cs with [] => [] | c => S_ "; charset=" ++ c end))
       :: (match header_get hs s_cte_name with [] => [] | e => [(S_ "Content-Transfer-Encoding", S_ " " ++ e)] end).

Definition single_no_boundary (hs : list header) : bool :=
  has_prefix (media_type_of (header_get hs s_content_type)) s_multipart_.

(** explicit result of store + fetch for a single-part message that meets no
    conflicting blob: it mentions neither the blob table nor later stores *)
Lemma single_result : forall (bs later : blobs) (hs : list header) (b : str),
  hs <> [] ->
  single_no_boundary hs = false ->
  conflict_parts hash bs (snd (parse_msg (mk_msg hs (Single b)))) = false ->
  roundtrip hash bs (mk_msg hs (Single b)) later
  = Some (mk_msg (map out_hdr (map hdr_store hs) ++ single_extra hs) (Single b)).
Proof.
  intros bs later hs b Hne NB Hc. unfold single_no_boundary in NB.
  unfold roundtrip, store, parse_msg, single_extra in *. cbn [m_body m_hdrs] in *.
  set (ct := header_get hs s_content_type) in *.
  assert (MT : has_prefix (match ct with [] => S_ "text/plain" | _ => media_type_of ct end) s_multipart_ = false).
  { destruct ct; [reflexivity | exact NB]. }
  rewrite MT in *. cbn [snd] in Hc.
  set (mt := match ct with [] => S_ "text/plain" | _ => media_type_of ct end) in *.
  set (cs := match ct with [] => S_ "us-ascii" | _ => [] end) in *.
  set (enc := header_get hs s_cte_name) in *.
  set (p := mk_pp None mt [] enc cs [] [] b) in *.
  assert (CONTENT : exists r bs', store_parts hash bs [] [p] [] = (bs', [r])
            /\ r_part r = mk_pp None mt [] enc cs [] [] (match r_blob r with Some _ => [] | None => b end)
            /\ row_content (bs' ++ later) r = b).
  { cbn [store_parts]. cbn [conflict_parts] in Hc.
    destruct (out_of_line p) eqn:OL.
    - destruct (store_blob_spec bs (pp_text p) (pp_cte p)) as (ext & E1 & E2).
      destruct (store_blob hash bs (pp_text p) (pp_cte p)) as [bs1 id] eqn:SB. cbn [fst snd] in E1, E2.
      eexists _, _. split; [reflexivity|]. cbn. split; [reflexivity|].
      unfold row_content. cbn. rewrite get_blob_app by (rewrite E1; exact E2).
      destruct (str_eqb (get_blob bs1 id) (pp_text p)) eqn:Q.
      + apply str_eqb_eq in Q. exact Q.
      + cbn in Hc. discriminate.
    - eexists _, _. split; [reflexivity|]. cbn. split; reflexivity. }
  destruct CONTENT as (r & bs' & SP & RP & RC).
  rewrite SP. unfold fetch. cbn [s_rows s_hdrs].
  assert (NE : exists x y, map hdr_store hs = x :: y).
  { destruct hs as [|h0 ht]; [exfalso; apply Hne; reflexivity | simpl; eauto]. }
  destruct NE as (x & y & NE). rewrite NE. rewrite <- NE.
  rewrite stored_has_ct, RC, RP. cbn [pp_type pp_charset pp_cte].
  clearbody cs enc. destruct cs; destruct enc; reflexivity.
Qed.

Lemma classify_single_none bs hs b :
  classify hash bs (mk_msg hs (Single b)) = None ->
  single_no_boundary hs = false
  /\ conflict_parts hash bs (snd (parse_msg (mk_msg hs (Single b)))) = false
  /\ existsb fold_ws hs = false
  /\ (negb (has_ct hs) && nonempty (header_get hs s_cte_name)) = false.
Proof.
  unfold classify, single_no_boundary. cbn [m_body m_hdrs].
  destruct (has_prefix _ s_multipart_); [discriminate|].
  destruct (conflict_parts _ _ _); [discriminate|].
  destruct (existsb fold_ws hs); [discriminate|].
  destruct (negb (has_ct hs) && nonempty (header_get hs s_cte_name)); [discriminate|].
  auto.
Qed.

Theorem single_roundtrip : forall (bs later : blobs) (hs : list header) (b : str),
  hs <> [] ->
  classify hash bs (mk_msg hs (Single b)) = None ->
  spec_ok (mk_msg hs (Single b)) (roundtrip hash bs (mk_msg hs (Single b)) later) = true.
Proof.
  intros bs later hs b Hne Hc.
  destruct (classify_single_none bs hs b Hc) as (NB & CF & FW & DC).
  rewrite (single_result bs later hs b Hne NB CF).
  unfold spec_ok, msg_equiv. cbn [m_body m_hdrs]. rewrite str_eqb_refl. cbn [andb].
  unfold hdrs_equiv, single_extra.
  destruct (has_ct hs) eqn:HC; cbn [negb].
  - rewrite app_nil_r. apply hdrs_equiv_aux_pointwise, hdrs_kept, FW.
  - cbn [negb andb] in DC. rewrite (header_get_none hs HC).
    destruct (header_get hs s_cte_name); [|cbn in DC; discriminate].
    apply hdrs_equiv_aux_added; [apply hdrs_kept, FW | reflexivity].
Qed.

(** independence of the history and of the time of the fetch *)
Theorem single_independent : forall (bs1 bs2 later1 later2 : blobs) (hs : list header) (b : str),
  hs <> [] ->
  classify hash bs1 (mk_msg hs (Single b)) = None ->
  classify hash bs2 (mk_msg hs (Single b)) = None ->
  roundtrip hash bs1 (mk_msg hs (Single b)) later1 = roundtrip hash bs2 (mk_msg hs (Single b)) later2.
Proof.
  intros bs1 bs2 l1 l2 hs b Hne H1 H2.
  destruct (classify_single_none bs1 hs b H1) as (NB & CF1 & _ & _).
  destruct (classify_single_none bs2 hs b H2) as (_ & CF2 & _ & _).
  now rewrite (single_result bs1 l1 hs b Hne NB CF1), (single_result bs2 l2 hs b Hne NB CF2).
Qed.

(** an empty blob table never conflicts for a single-part message *)
Lemma single_no_conflict_empty hs b :
  conflict_parts hash [] (snd (parse_msg (mk_msg hs (Single b)))) = false.
Proof.
  unfold parse_msg. cbn [m_body m_hdrs].
  destruct (has_prefix _ s_multipart_); cbn [snd conflict_parts]; [reflexivity|].
  destruct (out_of_line _); [|reflexivity].
  unfold store_blob. cbn [find_key app length]. unfold get_blob. cbn. now rewrite str_eqb_refl.
Qed.

End Single.
