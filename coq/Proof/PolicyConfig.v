(** C17 — config.Validate accepts exactly the documented configurations. *)
From Coq Require Import String Ascii List Bool Arith ZArith Lia.
From Raven Require Import Base.GoStr Model.Policy Spec.Policy.
Import ListNotations.
Local Open Scope Z_scope.

Lemma existsb_str_In x l : existsb (str_eqb x) l = true <-> In x l.
Proof.
  rewrite existsb_exists. split.
  - intros [y [Hin E]]. apply str_eqb_eq in E. now subst.
  - intros H. exists x. split; [exact H | apply str_eqb_refl].
Qed.

Lemma validate_exact c : validate c = true <-> valid_config c.
Proof.
  unfold validate, valid_config.
  destruct c as [us tcp tmo path lvl fmt [df qe ql ad ru ms mr]]; cbn [fc_unix_socket fc_tcp_address fc_timeout
    fc_db_path fc_log_level fc_log_format fc max_size max_recipients default_folder quota_enabled quota_limit].
  split.
  - intros H.
    destruct (match us, tcp with [], [] => true | _, _ => false end) eqn:E1; [discriminate|].
    destruct (ms <=? 0) eqn:E2; [discriminate|].
    destruct (tmo <=? 0) eqn:E3; [discriminate|].
    destruct (mr <=? 0) eqn:E4; [discriminate|].
    destruct path as [|p0 path]; [discriminate|].
    destruct df as [|d0 df]; [discriminate|].
    destruct (qe && (ql <=? 0)) eqn:E5; [discriminate|].
    destruct (existsb (str_eqb lvl) [S_ "debug"; S_ "info"; S_ "warn"; S_ "error"]) eqn:E6; [|discriminate].
    destruct (existsb (str_eqb fmt) [S_ "text"; S_ "json"]) eqn:E7; [|discriminate].
    apply Z.leb_gt in E2, E3, E4.
    repeat split; try lia; try discriminate.
    + destruct us; [right; destruct tcp; [discriminate|discriminate] | left; discriminate].
    + intros ->. simpl in E5. apply Z.leb_gt in E5. lia.
    + now apply existsb_str_In.
    + now apply existsb_str_In.
  - intros (H1 & H2 & H3 & H4 & H5 & H6 & H7 & H8 & H9).
    assert (E1 : match us, tcp with [], [] => true | _, _ => false end = false).
    { destruct us; [destruct tcp; [destruct H1; congruence | reflexivity] | reflexivity]. }
    rewrite E1.
    assert (E2 : (ms <=? 0) = false) by (apply Z.leb_gt; lia). rewrite E2.
    assert (E3 : (tmo <=? 0) = false) by (apply Z.leb_gt; lia). rewrite E3.
    assert (E4 : (mr <=? 0) = false) by (apply Z.leb_gt; lia). rewrite E4.
    destruct path; [congruence|]. destruct df; [congruence|].
    assert (E5 : qe && (ql <=? 0) = false).
    { destruct qe; [|reflexivity]. simpl. apply Z.leb_gt. specialize (H7 eq_refl). lia. }
    rewrite E5.
    apply existsb_str_In in H8, H9. rewrite H8, H9. reflexivity.
Qed.
