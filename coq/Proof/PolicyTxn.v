(** C17 — the whole transaction: replies of handleDATA are consistent with
    what DeliverMessage did, and model = documented policy outside the
    finding classes. *)
From Coq Require Import String Ascii List Bool Arith ZArith Lia.
From Raven Require Import Base.GoStr Model.Policy Spec.Policy
  Proof.PolicySpam Proof.PolicyParse Proof.PolicyRcpt Proof.PolicyData.
Import ListNotations.
Local Open Scope Z_scope.

Definition nonempty (s : str) : bool := match s with [] => false | _ => true end.

Lemma file_into_okness d st f m : result_ok (fst (file_into d st f m)) = nonempty f.
Proof. destruct f; reflexivity. Qed.

Lemma file_into_db d st f m :
  roles (snd (file_into d st f m)) = roles d /\ users (snd (file_into d st f m)) = users d.
Proof. destruct f; split; reflexivity. Qed.

Section Stability.
Variable m : message.
Variable folder : str.

Definition deliv_ok (d : db) (r : str) : bool := result_ok (fst (deliver_message d r m folder)).

Definition deliv_ok_form (d : db) (r : str) : bool :=
  match extract_parts r with
  | None => false
  | Some (n, dom) =>
      (get_role_mailbox_by_email d r || get_user_by_username d n dom || negb (user_row_exists d n dom))
      && nonempty (determine_target_folder (header_map (m_headers m)) folder)
  end.

Lemma deliv_ok_is_form d r : deliv_ok d r = deliv_ok_form d r.
Proof.
  unfold deliv_ok, deliv_ok_form, deliver_message, extract_local_part, extract_domain.
  destruct (extract_parts r) as [[n dom]|]; cbn [option_map fst snd]; [|reflexivity].
  destruct (get_role_mailbox_by_email d r); cbn [orb]; [apply file_into_okness|].
  destruct (get_user_by_username d n dom); cbn [orb]; [apply file_into_okness|].
  destruct (user_row_exists d n dom); cbn [negb andb]; [reflexivity | apply file_into_okness].
Qed.

Lemma after_delivery d r :
  roles (snd (deliver_message d r m folder)) = roles d /\
  (users (snd (deliver_message d r m folder)) = users d \/
   exists n dom, user_row_exists d n dom = false /\
                 users (snd (deliver_message d r m folder)) = users d ++ [mkUser n dom true]).
Proof.
  unfold deliver_message, extract_local_part, extract_domain.
  destruct (extract_parts r) as [[n dom]|]; cbn [option_map fst snd]; [|auto].
  destruct (get_role_mailbox_by_email d r).
  { destruct (file_into_db d (RoleStore r) (determine_target_folder (header_map (m_headers m)) folder) m) as [A B].
    rewrite A, B. auto. }
  destruct (get_user_by_username d n dom).
  { destruct (file_into_db d (UserStore n dom) (determine_target_folder (header_map (m_headers m)) folder) m) as [A B].
    rewrite A, B. auto. }
  destruct (user_row_exists d n dom) eqn:E; [auto|].
  destruct (file_into_db (add_user d n dom) (UserStore n dom) (determine_target_folder (header_map (m_headers m)) folder) m) as [A B].
  rewrite A, B. cbn [add_user roles users]. split; [reflexivity|]. right. now exists n, dom.
Qed.

Lemma stable d r' r : deliv_ok (snd (deliver_message d r' m folder)) r = deliv_ok d r.
Proof.
  rewrite !deliv_ok_is_form. unfold deliv_ok_form.
  destruct (extract_parts r) as [[n dom]|]; [|reflexivity]. f_equal.
  destruct (after_delivery d r') as [HR [HU | (n' & dom' & HN & HU)]];
    unfold get_role_mailbox_by_email, get_user_by_username, user_row_exists in *; rewrite HR, HU; [reflexivity|].
  rewrite !existsb_app. cbn [existsb u_enabled]. rewrite !orb_false_r, andb_true_r.
  destruct (user_is n dom (mkUser n' dom' true)) eqn:X; [|now rewrite !orb_false_r].
  apply user_is_names in X as [X1 X2]. cbn [u_name u_domain] in X1, X2. subst n' dom'.
  rewrite HN.
  assert (G : existsb (fun u => user_is n dom u && u_enabled u) (users d) = false).
  { destruct (existsb (fun u => user_is n dom u && u_enabled u) (users d)) eqn:G; [|reflexivity].
    apply (enabled_exists d n dom) in G. unfold user_exists in G. congruence. }
  rewrite G. cbn. now rewrite !orb_true_r.
Qed.

Lemma all_results : forall acc d,
  Forall (fun kv => result_ok (snd kv) = deliv_ok d (fst kv)) (fst (deliver_to_multiple d acc m folder)).
Proof.
  induction acc as [|a acc IH]; intros d; cbn [deliver_to_multiple]; [constructor|].
  destruct (deliver_message d a m folder) as [res d1] eqn:EM.
  specialize (IH d1).
  destruct (deliver_to_multiple d1 acc m folder) as [more d2] eqn:ED. cbn [fst] in *.
  constructor.
  - cbn [fst snd]. unfold deliv_ok. now rewrite EM.
  - eapply Forall_impl; [|exact IH]. intros kv H. rewrite H.
    replace d1 with (snd (deliver_message d a m folder)) by now rewrite EM. apply stable.
Qed.
End Stability.

(* ---- the results map ---- *)

Lemma results_get_In results : forall r v, results_get results r = Some v -> In (r, v) results.
Proof.
  induction results as [|[k x] rest IH]; intros r v; cbn [results_get]; [discriminate|].
  destruct (results_get rest r) as [v'|] eqn:E.
  - intros H. injection H as ->. right. now apply IH.
  - destruct (str_eqb_spec k r) as [->|N]; [|discriminate]. intros H. injection H as ->. now left.
Qed.

Lemma results_get_some results : forall r, In r (map fst results) -> results_get results r <> None.
Proof.
  induction results as [|[k x] rest IH]; intros r; cbn [results_get map fst In]; [tauto|].
  intros [->|H].
  - destruct (results_get rest r); [discriminate|]. rewrite str_eqb_refl. discriminate.
  - specialize (IH r H). destruct (results_get rest r); [discriminate | contradiction].
Qed.

Definition reply_of (results : list (str * deliver_result)) (r : str) : bool :=
  match results_get results r with Some D_err => false | _ => true end.

Lemma reply_truth (P : str -> bool) results :
  Forall (fun kv => result_ok (snd kv) = P (fst kv)) results ->
  forall k res, In (k, res) results -> outcome_of (reply_of results k) res = to_mo res.
Proof.
  intros HF k res Hin. rewrite Forall_forall in HF.
  assert (K : In k (map fst results)).
  { apply in_map_iff. now exists (k, res). }
  unfold reply_of. destruct (results_get results k) as [v|] eqn:E; [|now apply results_get_some in K].
  apply results_get_In in E. pose proof (HF _ E) as H1. pose proof (HF _ Hin) as H2.
  cbn [fst snd] in H1, H2. rewrite <- H2 in H1.
  destruct v, res; cbn in *; try reflexivity; discriminate.
Qed.

(** replies against deliveries, recipients over quota skipped *)
Lemma zip_weave (P : str -> bool) results over :
  Forall (fun kv => result_ok (snd kv) = P (fst kv)) results ->
  forall acc l, (forall kv, In kv l -> In kv results) ->
  map fst l = filter (fun r => negb (over r)) acc ->
  zip_outcomes (map over acc) (map (fun r => if over r then false else reply_of results r) acc) l
    = weave over acc (map (fun kv => to_mo (snd kv)) l).
Proof.
  intros HF. induction acc as [|a acc IH]; intros l Hin Hk; [reflexivity|].
  cbn [map filter zip_outcomes weave] in *.
  destruct (over a) eqn:EO; cbn [negb] in *.
  - f_equal. now apply IH.
  - destruct l as [|[k res] l]; [discriminate|]. cbn [map fst snd] in *. injection Hk as -> Hk.
    rewrite (reply_truth P results HF a res (Hin _ (or_introl eq_refl))). f_equal.
    apply IH; [intros kv H; apply Hin; now right | exact Hk].
Qed.

(* ---- DATA phase ---- *)

Lemma map_erase_const {A} (w : reason) (l : list A) :
  map erase (map (fun _ => Refused w) l) = repeat MRefused (length l).
Proof. induction l; cbn; [reflexivity | now f_equal]. Qed.

Lemma over_quota_is_spec cfg d m r : over_quota cfg d m r = spec_over_quota cfg d m r.
Proof. reflexivity. Qed.

Lemma data_phase cfg d acc m :
  cfg_ok cfg -> wf_db d ->
  data_outcomes (length acc) (handle_data cfg d acc m) = map erase (fst (spec_data cfg d acc m)) /\
  do_db (handle_data cfg d acc m) = snd (spec_data cfg d acc m).
Proof.
  intros Hcfg Hwf. unfold handle_data, spec_data in *.
  destruct acc as [|a acc'].
  { destruct (max_size cfg <? m_size m); [cbn; auto|]. destruct (negb (m_parse_ok m)); cbn; auto. }
  set (acc := a :: acc') in *.
  destruct (max_size cfg <? m_size m) eqn:ES.
  { cbn [fst snd]. unfold data_outcomes. cbn [do_reply do_db]. now rewrite map_erase_const. }
  destruct (negb (m_parse_ok m)) eqn:EP.
  { cbn [fst snd]. unfold data_outcomes. cbn [do_reply do_db]. now rewrite map_erase_const. }
  change (over_quota cfg d m) with (spec_over_quota cfg d m).
  set (over := spec_over_quota cfg d m).
  set (L := filter (fun r => negb (over r)) acc).
  assert (HL : forall r, In r L -> over r = false).
  { intros r H. apply filter_In in H as [_ H]. now apply negb_true_iff in H. }
  destruct (deliver_all cfg m over L d Hcfg Hwf HL) as [D1 [D2 D3]].
  destruct (spec_weave cfg m over acc d) as [W1 W2]. fold L in W1, W2.
  pose proof (all_results m (default_folder cfg) L d) as AR.
  destruct (deliver_to_multiple d L m (default_folder cfg)) as [results d'] eqn:ED.
  cbn [fst snd] in *. unfold data_outcomes. cbn [do_reply do_deliveries do_over_quota do_db].
  split; [|now rewrite D3, W2]. rewrite W1, <- D1.
  apply (zip_weave (deliv_ok m (default_folder cfg) d) results over AR acc results); [auto | exact D2].
Qed.

(* ---- merging the two phases ---- *)

Lemma merge_agree : forall rs vs os,
  map rcpt_ok rs = map none_b vs ->
  merge_outcomes rs (map erase os) = map erase (merge_spec vs os).
Proof.
  induction rs as [|r rs IH]; intros [|v vs] os H; try discriminate; [reflexivity|].
  cbn [map] in H. injection H as H1 H2.
  cbn [merge_outcomes merge_spec]. rewrite H1.
  destruct v as [w|]; cbn [none_b].
  - cbn [map erase]. f_equal. now apply IH.
  - destruct os as [|o os]; cbn [map erase]; f_equal.
    + now apply (IH vs []).
    + now apply IH.
Qed.

(** model = documented policy, for every configuration with a non-empty
    default folder, every well-formed user table, every list of recipient
    addresses and every message — no exception left *)
Theorem policy_exact cfg d addrs m :
  cfg_ok cfg -> wf_db d ->
  txn_outcomes (run_txn_addr cfg d addrs m) = map erase (fst (spec_txn cfg d addrs m)) /\
  do_db (to_data (run_txn_addr cfg d addrs m)) = snd (spec_txn cfg d addrs m).
Proof.
  intros Hcfg Hwf.
  destruct (rcpt_phase cfg d addrs []) as [R1 R2]. cbn [length Z.of_nat app] in R1, R2.
  unfold run_txn_addr, spec_txn, txn_outcomes.
  destruct (handle_rcpts_addr cfg d [] addrs) as [rs recs] eqn:EH. cbn [fst snd] in R1, R2.
  fold (spec_accepted cfg d addrs) in R2. subst recs.
  destruct (data_phase cfg d (spec_accepted cfg d addrs) m Hcfg Hwf) as [P1 P2].
  destruct (spec_data cfg d (spec_accepted cfg d addrs) m) as [os d'] eqn:ESD.
  cbn [fst snd to_rcpt to_accepted to_data] in *.
  split; [|exact P2]. rewrite P1. now apply merge_agree.
Qed.
