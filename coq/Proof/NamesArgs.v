(** C11: for a name without white space, double quote or backslash the
    server-side unquoting (strings.Trim(arg, dquote) of CREATE/DELETE/RENAME/
    SELECT/APPEND, [ParseQuotedString] of STATUS/LIST/LSUB and the quote
    stripping of SUBSCRIBE/UNSUBSCRIBE) returns exactly the name the client
    wrote, for the atom and for the quoted form. *)
From Coq Require Import String Ascii List Bool Arith ZArith Lia.
From Raven Require Import Base.GoStr Base.GoStrFacts Base.Like Model.Pattern Model.Names Spec.Names.
Import ListNotations.

Definition no_q (n : str) : bool := negb (existsb (fun c => Ascii.eqb c dq || Ascii.eqb c bsl) n).

Lemma unescape_id s : forall n, unescape s = Some n -> no_q n = true -> s = n.
Proof.
  induction s as [|c s IH]; intros n H Hq; simpl in H.
  - now injection H as <-.
  - destruct (Ascii.eqb c bsl) eqn:Eb.
    + destruct s as [|d s']; [discriminate|].
      destruct (Ascii.eqb d dq || Ascii.eqb d bsl) eqn:Ed; [|discriminate].
      destruct (unescape s') as [n'|]; [|discriminate]. injection H as <-.
      unfold no_q in Hq. simpl in Hq. rewrite Ed in Hq. discriminate.
    + destruct (Ascii.eqb c dq) eqn:Eq; [discriminate|].
      destruct (unescape s) as [n'|] eqn:Eu; [|discriminate]. injection H as <-.
      f_equal. apply IH; [reflexivity|].
      unfold no_q in *. simpl in Hq. rewrite Eq, Eb in Hq. exact Hq.
Qed.

Notation isq := (in_set [dq]).

Lemma isq_eq c : isq c = Ascii.eqb c dq.
Proof. unfold in_set. simpl. apply orb_false_r. Qed.

Lemma drop_while_none f s : forallb (fun c => negb (f c)) s = true -> drop_while f s = s.
Proof. destruct s as [|c s]; simpl; [reflexivity|]. intros H. apply andb_true_iff in H as [H _]. now rewrite (proj1 (negb_true_iff _) H). Qed.

Lemma forallb_rev {A} (f : A -> bool) l : forallb f (rev l) = forallb f l.
Proof.
  induction l as [|a l IH]; simpl; [reflexivity|].
  rewrite forallb_app, IH. simpl. rewrite andb_true_r. apply andb_comm.
Qed.

Lemma trim_none s : forallb (fun c => negb (isq c)) s = true -> trim s [dq] = s.
Proof.
  intros H. unfold trim, trim_f, trim_right_f, trim_left_f.
  rewrite (drop_while_none isq s H).
  rewrite drop_while_none by (now rewrite forallb_rev). apply rev_involutive.
Qed.

Lemma trim_quoted n : forallb (fun c => negb (isq c)) n = true -> trim (dq :: n ++ [dq]) [dq] = n.
Proof.
  intros H. unfold trim, trim_f, trim_right_f, trim_left_f.
  cbn [drop_while]. replace (isq dq) with true by (symmetry; rewrite isq_eq; apply Ascii.eqb_refl).
  destruct n as [|c n].
  - simpl. replace (isq dq) with true by (symmetry; rewrite isq_eq; apply Ascii.eqb_refl). reflexivity.
  - assert (Hc : isq c = false).
    { simpl in H. apply andb_true_iff in H as [H _]. now apply negb_true_iff. }
    simpl app. cbn [drop_while]. rewrite Hc.
    change (c :: n ++ [dq]) with ((c :: n) ++ [dq]). rewrite rev_app_distr. simpl rev at 1. cbn [app drop_while].
    replace (isq dq) with true by (symmetry; rewrite isq_eq; apply Ascii.eqb_refl).
    change (rev n ++ [c]) with (rev (c :: n)).
    rewrite drop_while_none by (now rewrite forallb_rev). apply rev_involutive.
Qed.

Lemma no_q_isq n : no_q n = true -> forallb (fun c => negb (isq c)) n = true.
Proof.
  unfold no_q. intros H. apply negb_true_iff in H. apply forallb_forall. intros c Hc.
  rewrite isq_eq. apply negb_true_iff. destruct (Ascii.eqb c dq) eqn:E; [|reflexivity].
  exfalso. assert (T : existsb (fun c => Ascii.eqb c dq || Ascii.eqb c bsl) n = true).
  { apply existsb_exists. exists c. rewrite E. auto. }
  congruence.
Qed.

Lemma astring_no_dq raw : forallb astring_char raw = true -> no_q raw = true.
Proof.
  unfold no_q. induction raw as [|c r IH]; simpl; [reflexivity|].
  intros H. apply andb_true_iff in H as [Hc H]. rewrite negb_orb, IH by exact H. rewrite andb_true_r.
  unfold astring_char in Hc. apply andb_true_iff in Hc as [_ Hc]. apply negb_true_iff in Hc.
  destruct (Ascii.eqb c dq) eqn:E1.
  { apply Ascii.eqb_eq in E1. subst c. vm_compute in Hc. discriminate. }
  destruct (Ascii.eqb c bsl) eqn:E2.
  { apply Ascii.eqb_eq in E2. subst c. vm_compute in Hc. discriminate. }
  reflexivity.
Qed.

(** the shape of a valid raw argument whose decoded name has no quote/backslash *)
Lemma decode_shape raw n :
  decode_astring raw = Some n -> no_q n = true ->
  (raw = n /\ n <> [] /\ forallb astring_char n = true) \/ raw = dq :: n ++ [dq].
Proof.
  unfold decode_astring. destruct raw as [|c r]; [discriminate|].
  destruct (Ascii.eqb c dq) eqn:Ec.
  - apply Ascii.eqb_eq in Ec. subst c.
    destruct (rev r) as [|e mid] eqn:Er; [discriminate|].
    destruct (Ascii.eqb e dq) eqn:Ee; [|discriminate]. apply Ascii.eqb_eq in Ee. subst e.
    intros H Hq. right. apply unescape_id in H; [|exact Hq]. subst n.
    f_equal. rewrite <- (rev_involutive r), Er. reflexivity.
  - destruct (forallb astring_char (c :: r)) eqn:Ea; [|discriminate].
    intros H Hq. injection H as <-. left. repeat split; [discriminate|exact Ea].
Qed.

Theorem unquote_is_decode raw n :
  decode_astring raw = Some n -> no_q n = true ->
  trim raw [dq] = n /\ unquote1 raw = n.
Proof.
  intros H Hq. destruct (decode_shape raw n H Hq) as [(E & Hne & Ha)|E]; subst raw.
  - split.
    + apply trim_none. now apply no_q_isq.
    + destruct n as [|c n]; [congruence|]. unfold unquote1.
      assert (E : Ascii.eqb c dq = false).
      { pose proof (astring_no_dq _ Ha) as K. unfold no_q in K. simpl in K.
        rewrite negb_orb in K. apply andb_true_iff in K as [K _]. rewrite negb_orb in K.
        apply andb_true_iff in K as [K _]. now apply negb_true_iff. }
      now rewrite E.
  - split.
    + apply trim_quoted. now apply no_q_isq.
    + unfold unquote1. rewrite Ascii.eqb_refl.
      replace (2 <=? length (dq :: n ++ [dq])) with true
        by (symmetry; apply Nat.leb_le; simpl; rewrite app_length; simpl; lia).
      change (dq :: n ++ [dq]) with ((dq :: n) ++ [dq]). rewrite last_last, Ascii.eqb_refl. simpl.
      apply removelast_last.
Qed.
