(** C11: what the server takes as a mailbox name is the name the client wrote,
    for EVERY astring (atom or quoted string, blanks, double quotes and
    backslashes included): the line is cut by utils.SplitCommandLine and the
    argument read by utils.ParseQuotedString (both modelled and proved in
    Model/CmdTokenizer.v, Proof/CmdTokenizer.v -- property C04); this file
    connects them with C11's reader [decode_astring]. *)
From Coq Require Import String Ascii List Bool Arith NArith Lia.
From Raven Require Import Base.GoStr Base.GoStrFacts Model.Pattern Model.CmdTokenizer Spec.CmdArgs Proof.CmdTokenizer
  Model.Names Spec.Names Proof.NamesQuote.
Import ListNotations.

(** a string the strict reader accepts is the escaped form of what it returns *)
Lemma strict_inv k : forall s n, length s <= k -> unescape_strict s = Some n -> s = flat_map escf n.
Proof.
  induction k as [|k IH]; intros s n Hl H.
  - destruct s; [|simpl in Hl; lia]. simpl in H. now injection H as <-.
  - destruct s as [|c s]; [simpl in H; now injection H as <-|].
    cbn [unescape_strict] in H. unfold bsl in H. change dq with DQUOTE in H.
    destruct (Ascii.eqb c BSLASH) eqn:Eb.
    + apply Ascii.eqb_eq in Eb. subst c. destruct s as [|d s2]; [discriminate|].
      destruct (Ascii.eqb d DQUOTE || Ascii.eqb d BSLASH) eqn:Ed; [|discriminate].
      destruct (unescape_strict s2) as [n2|] eqn:E2; [|discriminate]. injection H as <-.
      cbn [flat_map]. unfold escf at 1. rewrite Ed. cbn [app]. f_equal. f_equal.
      apply IH; [simpl in Hl; lia | exact E2].
    + destruct (Ascii.eqb c DQUOTE) eqn:Eq; [discriminate|].
      destruct (unescape_strict s) as [n2|] eqn:E2; [|discriminate]. injection H as <-.
      cbn [flat_map]. unfold escf at 1. rewrite Eq, Eb. cbn [orb app]. f_equal.
      apply IH; [simpl in Hl; lia | exact E2].
Qed.

Lemma astring_atom_c c : astring_char c = true -> atom_c c = true.
Proof.
  revert c. intros c. generalize (fun H => ascii_forall (fun c => implb (astring_char c) (atom_c c)) H c).
  intros K. assert (T : implb (astring_char c) (atom_c c) = true) by (apply K; vm_compute; reflexivity).
  intros H. rewrite H in T. exact T.
Qed.

(** every astring is an atom or QuoteString's form of the name it denotes *)
Lemma decode_render raw n :
  decode_astring raw = Some n -> exists f, arg_ok (f, n) = true /\ raw = render_arg f n.
Proof.
  unfold decode_astring. destruct raw as [|c r]; [discriminate|].
  destruct (Ascii.eqb c dq) eqn:Ec.
  - apply Ascii.eqb_eq in Ec. subst c.
    destruct (rev r) as [|e mid] eqn:Er; [discriminate|].
    destruct (Ascii.eqb e dq) eqn:Ee; [|discriminate]. apply Ascii.eqb_eq in Ee. subst e.
    intros H. exists QuotedForm. split; [reflexivity|].
    apply (strict_inv (length (rev mid))) in H; [|lia].
    cbn [render_arg]. rewrite quote_string_esc, <- H. change DQUOTE with dq. f_equal.
    rewrite <- (rev_involutive r), Er. reflexivity.
  - destruct (forallb astring_char (c :: r)) eqn:Ea; [|discriminate].
    intros H. injection H as <-. exists AtomForm. split; [|reflexivity].
    unfold arg_ok, atom_ok. cbn [fst snd]. rewrite andb_true_iff. split; [|reflexivity].
    rewrite forallb_forall in *. intros x Hx. apply astring_atom_c. now apply Ea.
Qed.

(** utils.ParseQuotedString returns the name the client wrote *)
Theorem arg_exact raw n : decode_astring raw = Some n -> parse_quoted raw = n.
Proof. intros H. destruct (decode_render raw n H) as (f & Hok & ->). now apply parse_render. Qed.

(** utils.SplitCommandLine hands that argument to the handler in one piece *)
Theorem line_exact1 (tag word raw n : str) :
  atom_ok tag = true -> atom_ok word = true -> decode_astring raw = Some n ->
  split_command_line (tag ++ " "%char :: word ++ " "%char :: raw) = [tag; word; raw].
Proof.
  intros Ht Hw H. destruct (decode_render raw n H) as (f & Hok & ->).
  apply (split_roundtrip [(AtomForm, tag); (AtomForm, word); (f, n)]).
  cbn [forallb]. unfold arg_ok at 1 2. cbn [fst snd]. now rewrite Ht, Hw, Hok.
Qed.

Theorem line_exact2 (tag word raw1 n1 raw2 n2 : str) :
  atom_ok tag = true -> atom_ok word = true ->
  decode_astring raw1 = Some n1 -> decode_astring raw2 = Some n2 ->
  split_command_line (tag ++ " "%char :: word ++ " "%char :: raw1 ++ " "%char :: raw2) = [tag; word; raw1; raw2].
Proof.
  intros Ht Hw H1 H2. destruct (decode_render raw1 n1 H1) as (f1 & Hok1 & ->).
  destruct (decode_render raw2 n2 H2) as (f2 & Hok2 & ->).
  apply (split_roundtrip [(AtomForm, tag); (AtomForm, word); (f1, n1); (f2, n2)]).
  cbn [forallb]. unfold arg_ok at 1 2. cbn [fst snd]. now rewrite Ht, Hw, Hok1, Hok2.
Qed.
