(** C15: regression examples (the witnesses of the four repaired finding classes), evaluated on the
    model instantiated with the Go decoders (dedup key = octets that get
    hashed, object name = content; i.e. a collision-free sha256). *)
From Coq Require Import String Ascii List Bool Arith.
From Raven Require Import Base.GoStr Model.BlobCodec Model.Blobs Spec.BlobSpec Proof.Blobs.
Import ListNotations.

Definition go_key : str -> str -> str := hashed_octets.
Definition go_okey : str -> str := fun c => S_ "k" ++ c.

Lemma go_okey_inj a b : go_okey a = go_okey b -> a = b.
Proof. unfold go_okey. simpl. intros H; inversion H; reflexivity. Qed.
Lemma go_okey_ne a : go_okey a <> [].
Proof. unfold go_okey; simpl; discriminate. Qed.

Definition grun := run go_key go_okey.
Definition gread s3on evs m k o : option (option str) :=
  match row_of (grun evs) m k with
  | Some row => Some (rd (read_part s3on (grun evs) row o))
  | None => None
  end.
Definition gfailed s3on evs m k o : bool :=
  match row_of (grun evs) m k with
  | Some row => read_failed s3on (grun evs) row o
  | None => false
  end.
Definition gown evs m k : option str := option_map r_own (row_of (grun evs) m k).

(** one read, judged by the executable spec *)
Definition violates s3on evs m k o : bool :=
  match row_of (grun evs) m k with
  | Some row => negb (spec_read_ok (r_own row) (read_failed s3on (grun evs) row o)
                                   (rd (read_part s3on (grun evs) row o)))
  | None => false
  end.

(** former class DedupEncoding (K-dedup), repaired by 573e876: an attachment
    "ABCD" sent as 7bit, then the same four octets sent as base64 ("QUJDRA=="):
    equal decoded hash, but the blob does not hold the second part's text, so the
    reference is given back and the part stays inline — regression example *)
Definition wit_dedup : list event :=
  [EStore false [] [] [mkPart (S_ "7bit") (S_ "ABCD") true];
   EStore false [] [] [mkPart (S_ "base64") (S_ "QUJDRA==") true]].

Lemma dedup_encoding_repaired :
  gown wit_dedup 1 0 = Some (S_ "QUJDRA==") /\
  gread false wit_dedup 1 0 [] = Some (Some (S_ "QUJDRA==")) /\
  violates false wit_dedup 1 0 [] = false /\
  map b_refs (w_blobs (grun wit_dedup)) = [1].
Proof. vm_compute. repeat split; reflexivity. Qed.

(** regression, about the OLD observable only: the first writer's text under
    the second part's label violates the spec *)
Lemma old_dedup_violates_spec : spec_read_ok (S_ "QUJDRA==") false (Some (S_ "ABCD")) = false.
Proof. vm_compute. reflexivity. Qed.

(** former class EmptyPartS3Blob (residual of 573e876), repaired by 03ae0ff:
    an EMPTY named part stored by a writer without S3 after a writer with S3
    stored a base64 part whose text is one CRLF (decodes to nothing): same hash,
    but an S3 row does not hold a part that this store did not put into S3, so
    the reference is given back and the part stays inline — regression example *)
Definition wit_empty : list event :=
  [EStore true [] [] [mkPart (S_ "base64") crlf true];
   EStore false [] [] [mkPart [] [] true]].

Lemma empty_part_s3_blob_repaired :
  gown wit_empty 1 0 = Some [] /\
  gread true wit_empty 1 0 [] = Some (Some []) /\
  gread false wit_empty 1 0 [] = Some (Some []) /\
  violates true wit_empty 1 0 [] = false /\
  map b_refs (w_blobs (grun wit_empty)) = [1].
Proof. vm_compute. repeat split; reflexivity. Qed.

Lemma old_empty_part_violates_spec : spec_read_ok [] false (Some crlf) = false.
Proof. vm_compute. reflexivity. Qed.

(** delivery stores to the object store, the reading side has S3 disabled:
    since the repair "blob-read-errors" the read is an error, as the spec demands *)
Definition wit_config : list event := [EStore true [] [] [mkPart [] (S_ "hello world") true]].

Lemma config_mismatch_is_error :
  gfailed false wit_config 0 0 [] = true /\
  gread false wit_config 0 0 [] = Some None /\
  violates false wit_config 0 0 [] = false /\
  gread true wit_config 0 0 [] = Some (Some (S_ "hello world")).
Proof. vm_compute. repeat split; reflexivity. Qed.

(** a failed GET, and a vanished object: both are errors now *)
Definition wit_lost : list event := wit_config ++ [ELose [go_okey (S_ "hello world")]].

Lemma read_fault_is_error :
  gfailed true wit_config 0 0 [OFail] = true /\
  gread true wit_config 0 0 [OFail] = Some None /\
  violates true wit_config 0 0 [OFail] = false /\
  gfailed true wit_lost 0 0 [] = true /\
  gread true wit_lost 0 0 [] = Some None /\
  violates true wit_lost 0 0 [] = false.
Proof. vm_compute. repeat split; reflexivity. Qed.

(** regression, about the OLD read shape only (no reference to the model):
    an empty string in place of "hello world" with no error report violates the spec *)
Lemma old_behaviour_violates_spec :
  spec_read_ok (S_ "hello world") true (Some []) = false.
Proof. vm_compute. reflexivity. Qed.

(** non-vacuity of the positive theorems: S3 store under faults *)
Definition wit_faults : list event :=
  [EStore true [OFail; OFail] [] [mkPart [] (S_ "part one") true];      (* PUT fails: local blob *)
   EStore true [OFail; OOk] [OFail] [mkPart [] (S_ "part two") true];   (* S3 ok, DB fails: inline *)
   EStore true [] [] [mkPart [] (S_ "part three") true; mkPart [] (S_ "part three") true]].

Lemma faults_example :
  gread true wit_faults 0 0 [] = Some (Some (S_ "part one")) /\
  gread false wit_faults 0 0 [] = Some (Some (S_ "part one")) /\
  gread false wit_faults 1 0 [] = Some (Some (S_ "part two")) /\
  gread true wit_faults 2 1 [] = Some (Some (S_ "part three")) /\
  map b_refs (w_blobs (grun wit_faults)) = [1; 2].
Proof. vm_compute. repeat split; reflexivity. Qed.
