(** C01 — handleDATA under every configuration: the size limit (552 per
    recipient), the quota pass (an over-quota recipient is skipped and answered
    552 in its own position, raven 57171c2), the folder. *)
From Coq Require Import String Ascii List Bool ZArith Lia.
From Raven Require Import Base.GoStr Model.Store Model.Ops Model.Deliver Spec.DeliverSpec
  Proof.DeliverStore Proof.DeliverWorld Proof.DeliverHist Proof.DeliverFresh.
Import ListNotations.
Local Open Scope Z_scope.

Definition idle (w : world) (rs : list str) : list attempt := map (fun r => mkAtt w w r false) rs.

Lemma spec_refused_all w folder rs p c :
  is_2xx c = false -> spec_result w folder rs p (w, map (fun _ => c) rs, idle w rs).
Proof.
  intros Hc. unfold spec_result, idle. split; [now rewrite map_length|].
  split; [rewrite map_map; apply map_id|]. split.
  - induction rs as [|r rest IH]; simpl; auto.
  - induction rs as [|r rest IH]; simpl; constructor; [|exact IH].
    unfold position_ok. rewrite Hc. intros k. reflexivity.
Qed.

(** ---- the delivery loop with skipped positions ------------------------------------ *)

(** it is DeliverToMultipleRecipients on the filtered list: same final world,
    and the non-ghost attempts are exactly the attempts of that call *)
Lemma deliver_all_q_filter skip folder p clk rs : forall w i,
  let f := fun r => negb (skip r) in
  fst (deliver_all_q skip w folder rs p clk i) = fst (deliver_all w folder (filter f rs) p clk i) /\
  filter (fun a => negb (skip (a_rcpt a))) (snd (deliver_all_q skip w folder rs p clk i))
    = snd (deliver_all w folder (filter f rs) p clk i).
Proof.
  induction rs as [|r rest IH]; intros w i f; simpl; [auto|].
  unfold f. destruct (skip r) eqn:Sk; simpl.
  - specialize (IH w i). destruct (deliver_all_q skip w folder rest p clk i) as [w2 atts]. simpl in *.
    rewrite Sk. simpl. exact IH.
  - destruct (deliver_message w folder r p (clk i)) as [w1 ok].
    specialize (IH w1 (S i)). destruct (deliver_all_q skip w1 folder rest p clk (S i)) as [w2 atts].
    simpl in IH. destruct IH as [IH1 IH2]. revert IH1 IH2.
    destruct (deliver_all w1 folder (filter (fun r0 => negb (skip r0)) rest) p clk (S i)) as [w3 atts3].
    simpl. intros -> <-. rewrite Sk. simpl. auto.
Qed.

Lemma deliver_all_q_spec skip folder p clk rs : forall w i w' atts,
  WInv w -> deliver_all_q skip w folder rs p clk i = (w', atts) ->
  WInv w' /\ map a_rcpt atts = rs /\ chain w atts w' /\ Forall (att_ok folder p) atts /\
  Forall (fun a => skip (a_rcpt a) = true -> a_ok a = false) atts.
Proof.
  induction rs as [|r rest IH]; intros w i w' atts I; simpl.
  - intros [= <- <-]. simpl. auto.
  - destruct (skip r) eqn:Sk.
    + destruct (deliver_all_q skip w folder rest p clk i) as [w2 atts'] eqn:A. intros [= <- <-].
      destruct (IH _ _ _ _ I A) as (I2 & Em & Ch & Fa & Fs).
      split; [exact I2|]. simpl. rewrite Em. repeat split; auto.
      constructor; [|exact Fa]. split; simpl; [|discriminate]. intros _ k. reflexivity.
    + destruct (deliver_message w folder r p (clk i)) as [w1 ok] eqn:D.
      destruct (deliver_all_q skip w1 folder rest p clk (S i)) as [w2 atts'] eqn:A. intros [= <- <-].
      destruct (deliver_message_spec _ _ _ _ _ _ _ I D) as (I1 & Hatt).
      destruct (IH _ _ _ _ I1 A) as (I2 & Em & Ch & Fa & Fs).
      split; [exact I2|]. simpl. rewrite Em. repeat split; auto.
      constructor; [|exact Fs]. simpl. intros X. congruence.
Qed.

Lemma c01_any_configuration_l c oq w rs p size clk :
  WInv w -> classify_cfg c oq w rs p size clk = None -> spec_C01_cfg c oq w rs p size clk.
Proof.
  intros I. unfold classify_cfg, spec_C01_cfg, handle_data.
  destruct (c_max_size c <? size); simpl; [intros _; now apply spec_refused_all|].
  destruct (p_ok p); simpl; [|intros _; now apply spec_refused_all].
  set (skip := skipped c oq).
  destruct (deliver_all_q skip w (c_folder c) rs p clk 0) as [w' atts] eqn:A.
  destruct (deliver_all_q_spec _ _ _ _ _ _ _ _ _ I A) as (_ & Em & Ch & Fa & Fs).
  destruct (existsb _ atts) eqn:Mm; [discriminate|]. intros _. unfold spec_result.
  split; [now rewrite map_length|]. split; [exact Em|]. split; [exact Ch|].
  rewrite <- Em, map_map. apply Forall2_map_self. intros a Ha.
  pose proof (proj1 (Forall_forall _ _) Fa a Ha) as [Hrej Hacc].
  pose proof (proj1 (Forall_forall _ _) Fs a Ha) as Hs.
  unfold position_ok. destruct (skip (a_rcpt a)) eqn:Sk; simpl.
  - apply Hrej. now apply Hs.
  - assert (Eq : a_ok a = is_2xx (reply_for (results_q skip atts) (a_rcpt a))).
    { destruct (Bool.eqb (a_ok a) (is_2xx (reply_for (results_q skip atts) (a_rcpt a)))) eqn:E.
      - now apply eqb_prop.
      - exfalso. assert (X : existsb (fun a => negb (skip (a_rcpt a)) && mismatch (results_q skip atts) a) atts = true).
        { apply existsb_exists. exists a. split; [exact Ha|]. unfold mismatch. now rewrite Sk, E. }
        congruence. }
    rewrite <- Eq. destruct (a_ok a) eqn:Ok.
    + destruct (Hacc eq_refl) as (k & u' & m & l & np & H1 & H2 & H3 & H4 & H5 & H6 & H7 & H8).
      assert (Hpos : (0 <? np)%nat = true).
      { destruct (p_shape p); simpl in *; try discriminate; injection H6 as <-; reflexivity. }
      exists k, u', m, l. repeat split; auto.
      * unfold reconstructs. rewrite H7. destruct (stored_rec_intact (lk_msg l) p np) as (_ & A2 & _). rewrite A2. exact Hpos.
      * exists (stored_rec (lk_msg l) p np). destruct (stored_rec_intact (lk_msg l) p np) as (A1 & A2 & A3).
        rewrite A1, A2, A3. auto.
    + now apply Hrej.
Qed.

(** an over-quota recipient is answered 552 in its own position, and its
    position files nothing *)
Lemma over_quota_refused c oq w rs p size clk :
  c_max_size c <? size = false -> p_ok p = true ->
  let '(_, replies, atts) := handle_data c oq w rs p size clk in
  Forall2 (fun r c' => skipped c oq r = true -> c' = R552) rs replies /\
  Forall (fun a => skipped c oq (a_rcpt a) = true -> a_before a = a_after a /\ a_ok a = false) atts.
Proof.
  intros E1 E2. unfold handle_data. rewrite E1, E2. simpl.
  set (skip := skipped c oq). generalize 0%nat as i. intros i.
  destruct (deliver_all_q skip w (c_folder c) rs p clk i) as [w' atts] eqn:A. split.
  - remember (results_q skip atts) as m eqn:Em. clear. induction rs as [|r rest IH]; simpl; constructor; [|exact IH].
    intros Sk. fold skip in Sk. now rewrite Sk.
  - revert w i w' atts A. induction rs as [|r rest IH]; intros w i w' atts; simpl.
    + intros [= <- <-]. constructor.
    + destruct (skip r) eqn:Sk.
      * destruct (deliver_all_q skip w (c_folder c) rest p clk i) as [w2 atts'] eqn:A. intros [= <- <-].
        constructor; [simpl; auto | eapply IH; eauto].
      * destruct (deliver_message w (c_folder c) r p (clk i)) as [w1 ok].
        destruct (deliver_all_q skip w1 (c_folder c) rest p clk (S i)) as [w2 atts'] eqn:A. intros [= <- <-].
        constructor; [simpl; intros X; fold skip in X; congruence | eapply IH; eauto].
Qed.

(** ---- fresh worlds: no class at all ------------------------------------------------ *)

Lemma deliver_all_q_outcomes skip folder p clk rs : forall w i,
  WFresh w -> target_folder folder p <> [] ->
  Forall (fun a => skip (a_rcpt a) = false -> a_ok a = deliverable w folder (a_rcpt a) p)
         (snd (deliver_all_q skip w folder rs p clk i)).
Proof.
  induction rs as [|r rest IH]; intros w i F Ht; simpl; [constructor|].
  destruct (skip r) eqn:Sk.
  - specialize (IH w i F Ht). destruct (deliver_all_q skip w folder rest p clk i) as [w2 atts]. simpl in *.
    constructor; [simpl; congruence | exact IH].
  - destruct (deliver_message_outcome w folder r p (clk i) F Ht) as (w1 & E & F1 & Er).
    rewrite E. specialize (IH w1 (S i) F1 Ht).
    destruct (deliver_all_q skip w1 folder rest p clk (S i)) as [w2 atts]. simpl in *.
    constructor; [reflexivity|].
    eapply Forall_impl; [|exact IH]. intros a Ha X. simpl in Ha.
    rewrite <- (deliverable_roles w w1 folder (a_rcpt a) p Er). now apply Ha.
Qed.

Lemma c01_cfg_class_needs_stale_l c oq w rs p size clk :
  WFresh w -> c_folder c <> [] -> classify_cfg c oq w rs p size clk = None.
Proof.
  intros F Hf. unfold classify_cfg. destruct ((c_max_size c <? size) || negb (p_ok p)); [reflexivity|].
  set (skip := skipped c oq).
  assert (Ht : target_folder (c_folder c) p <> []).
  { unfold target_folder. destruct (p_spam p); [discriminate | exact Hf]. }
  pose proof (deliver_all_q_outcomes skip (c_folder c) p clk rs w 0%nat F Ht) as O.
  destruct (deliver_all_q skip w (c_folder c) rs p clk 0) as [w' atts]. simpl in O.
  assert (X : existsb (fun a => negb (skip (a_rcpt a)) && mismatch (results_q skip atts) a) atts = false).
  { apply not_true_is_false. intros C. apply existsb_exists in C. destruct C as (a & Ha & M).
    apply andb_true_iff in M. destruct M as [Sk M]. apply negb_true_iff in Sk.
    unfold mismatch, reply_for, results_q, results_of in M. rewrite rlookup_results in M.
    destruct (find (fun b => str_eqb (a_rcpt b) (a_rcpt a)) (rev (filter (fun a0 => negb (skip (a_rcpt a0))) atts))) as [b|] eqn:Fd.
    - apply find_some in Fd. destruct Fd as [Hb Eb]. apply in_rev in Hb. apply filter_In in Hb.
      destruct Hb as [Hb Sb]. apply negb_true_iff in Sb. apply str_eqb_eq in Eb.
      rewrite (proj1 (Forall_forall _ _) O a Ha Sk), (proj1 (Forall_forall _ _) O b Hb Sb), Eb in M.
      destruct (deliverable w (c_folder c) (a_rcpt a) p); discriminate.
    - assert (Hin : In a (rev (filter (fun a0 => negb (skip (a_rcpt a0))) atts))).
      { apply in_rev. rewrite rev_involutive. apply filter_In. split; [exact Ha | now rewrite Sk]. }
      pose proof (find_none _ _ Fd a Hin) as Y. simpl in Y. now rewrite str_eqb_refl in Y. }
  now rewrite X.
Qed.

Lemma c01_any_configuration_fresh_l c oq w rs p size clk :
  WInv w -> WFresh w -> c_folder c <> [] -> spec_C01_cfg c oq w rs p size clk.
Proof.
  intros I F Hf. apply c01_any_configuration_l; [exact I|]. now apply c01_cfg_class_needs_stale_l.
Qed.

Lemma c01_any_configuration_hist_l roles h c oq rs p size clk :
  classify_cfg c oq (wrun h (w0 roles)) rs p size clk = None ->
  spec_C01_cfg c oq (wrun h (w0 roles)) rs p size clk.
Proof. apply c01_any_configuration_l. apply wrun_WInv, WInv_w0. Qed.

(** with quota switched off (or nobody over quota) handleDATA is [lmtp_data] *)
Lemma handle_data_no_quota c oq w rs p size clk :
  (forall r, skipped c oq r = false) -> c_max_size c <? size = false ->
  handle_data c oq w rs p size clk = lmtp_data w (c_folder c) rs p clk.
Proof.
  intros Hs E. unfold handle_data, lmtp_data. rewrite E. destruct (p_ok p); simpl; [|reflexivity].
  assert (G : forall rs w i, deliver_all_q (skipped c oq) w (c_folder c) rs p clk i = deliver_all w (c_folder c) rs p clk i).
  { induction rs0 as [|r rest IH]; intros w0 i; simpl; [reflexivity|]. rewrite Hs.
    destruct (deliver_message w0 (c_folder c) r p (clk i)) as [w1 ok]. now rewrite IH. }
  rewrite G. destruct (deliver_all w (c_folder c) rs p clk 0) as [w' atts].
  assert (Fl : filter (fun a => negb (skipped c oq (a_rcpt a))) atts = atts).
  { induction atts as [|a r IH]; simpl; [reflexivity|]. rewrite Hs. simpl. now rewrite IH. }
  unfold results_q. rewrite Fl. f_equal. f_equal. apply map_ext. intros r. now rewrite Hs.
Qed.
