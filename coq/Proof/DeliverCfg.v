(** C01 — handleDATA under every configuration: the size limit (552 per
    recipient), the quota pass (computed, logged, ignored), the folder. *)
From Coq Require Import String Ascii List Bool ZArith Lia.
From Raven Require Import Base.GoStr Model.Store Model.Ops Model.Deliver Spec.DeliverSpec
  Proof.DeliverStore Proof.DeliverWorld Proof.DeliverHist Proof.DeliverFresh.
Import ListNotations.
Local Open Scope Z_scope.

Definition idle (w : world) (rs : list str) : list attempt := map (fun r => mkAtt w w r false) rs.

Lemma handle_data_cases c oq w rs p size clk :
  handle_data c oq w rs p size clk =
  if c_max_size c <? size then (w, map (fun _ => R552) rs, idle w rs)
  else lmtp_data w (c_folder c) rs p clk.
Proof.
  unfold handle_data, lmtp_data, deliver_to, idle. destruct (c_max_size c <? size); [reflexivity|].
  destruct (p_ok p); reflexivity.
Qed.

(** the verdict of CheckQuota has no influence on replies or stores *)
Lemma quota_verdict_irrelevant c oq oq' w rs p size clk :
  handle_data c oq w rs p size clk = handle_data c oq' w rs p size clk.
Proof. now rewrite !handle_data_cases. Qed.

Lemma spec_refused_all w folder rs p c :
  is_2xx c = false -> spec_result w folder rs p (w, map (fun _ => c) rs, idle w rs).
Proof.
  intros Hc. unfold spec_result, idle. split; [now rewrite map_length|].
  split; [rewrite map_map; apply map_id|]. split.
  - induction rs as [|r rest IH]; simpl; auto.
  - induction rs as [|r rest IH]; simpl; constructor; [|exact IH].
    unfold position_ok. rewrite Hc. intros k. reflexivity.
Qed.

Lemma c01_any_configuration_l c oq w rs p size clk :
  WInv w -> (c_max_size c <? size = true \/ classify w (c_folder c) rs p clk = None) ->
  spec_C01_cfg c oq w rs p size clk.
Proof.
  intros I H. unfold spec_C01_cfg. rewrite handle_data_cases.
  destruct (c_max_size c <? size) eqn:E.
  - now apply spec_refused_all.
  - destruct H as [H|H]; [discriminate|]. now apply c01_accept_iff_visible_l.
Qed.

Lemma c01_any_configuration_fresh_l c oq w rs p size clk :
  WInv w -> WFresh w -> c_folder c <> [] -> spec_C01_cfg c oq w rs p size clk.
Proof.
  intros I F Ht. unfold spec_C01_cfg. rewrite handle_data_cases.
  destruct (c_max_size c <? size); [now apply spec_refused_all|].
  apply c01_holds_when_fresh_l; auto.
  unfold target_folder. destruct (p_spam p); [discriminate | exact Ht].
Qed.

Lemma c01_any_configuration_hist_l roles h c oq rs p size clk :
  (c_max_size c <? size = true \/ classify (wrun h (w0 roles)) (c_folder c) rs p clk = None) ->
  spec_C01_cfg c oq (wrun h (w0 roles)) rs p size clk.
Proof. apply c01_any_configuration_l. apply wrun_WInv, WInv_w0. Qed.
