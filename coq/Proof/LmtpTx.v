(** C16 — one complete DATA phase of the session automaton, seen from the
    stream, for EVERY body: 354, one reply per recipient in RCPT order
    (a delivery reply carrying exactly the submitted octets, or a refusal of
    the message for that recipient when it is over the size limit or fails the
    message checks, or when that recipient is over quota), and then exactly
    what a session in the reset state does
    with the rest of the stream. *)
From Coq Require Import String Ascii List Bool ZArith NArith Lia.
From Raven Require Import Base.GoStr Model.Lmtp Spec.LmtpDialog Proof.LmtpData Proof.LmtpDialog.
Import ListNotations.
Local Open Scope Z_scope.

Section Tx.
  Variable accepts : str -> bool.
  Variable delivers : str -> str -> bool.
  Variable over : str -> str -> bool.
  Variable c : cfg.

  Notation run := (run accepts delivers over c).

  (** the per-recipient replies for the body [b] *)
  Definition finals_of (s : st) (b : list str) : list ev :=
    let d := concat b in
    if len d >? max_size c then map (fun r => Refuse r 552) (rcpts s)
    else if accepts d then map (fun r => if over r d then Refuse r 552 else Deliver r d (delivers r d)) (rcpts s)
    else map (fun r => Refuse r 554) (rcpts s).

  (** body lines are consumed silently, whatever their size and content *)
  Lemma run_data_body b : forall s d tail,
    run s (MData d) (stuff b ++ tail) = run s (MData (absorb (max_size c) d b)) tail.
  Proof.
    induction b as [|l b IH]; intros s d tail; [reflexivity|].
    cbn [stuff map app Lmtp.run step absorb].
    destruct (data_line (max_size c) d (stuff_line l)) eqn:E.
    - pose proof (stuff_line_not_term l) as T. unfold data_line in E. unfold is_term in T.
      rewrite T in E. destruct (d_big d); [discriminate|].
      destruct (_ >? _); discriminate.
    - fold (stuff b). rewrite IH.
      destruct (Lmtp.run _ _ _ _ _ _ _) as [e r]. reflexivity.
  Qed.

  Theorem transaction s dl args b term rest :
    parse_cmd dl = Some (S_ "DATA", args) ->
    mail_seen s = true -> rcpts s <> [] ->
    is_term term = true ->
    0 <= max_size c ->
    run s MCmd (dl :: stuff b ++ term :: rest) =
    (let '(e, r) := run (reset s) MCmd rest in
     (Reply TData 354 [] :: finals_of s b ++ e, r)).
  Proof.
    intros P MS RC T M.
    cbn [Lmtp.run step]. rewrite P.
    assert (Hh : handle c s (S_ "DATA") args = (s, [Reply TData 354 []], NData)).
    { unfold handle. cbn [cmd_is S_ list_ascii_of_string str_eqb Ascii.eqb Bool.eqb andb].
      rewrite MS. cbn [negb]. destruct (rcpts s); [congruence|reflexivity]. }
    rewrite Hh. rewrite run_data_body.
    cbn [Lmtp.run step app]. rewrite (data_line_term _ _ _ T).
    unfold finish_data, reject, finals_of, data_end.
    destruct (Z.gtb_spec (len (concat b)) (max_size c)) as [Hbig|Hsmall].
    - rewrite absorb_large by (cbn; auto; lia).
      destruct (run (reset s) MCmd rest) as [e r]. reflexivity.
    - rewrite absorb_small by (cbn; auto; lia). cbn [d_big d_buf d0 app].
      destruct (accepts (concat b)); destruct (run (reset s) MCmd rest) as [e r]; reflexivity.
  Qed.

  (** the same in the executable form [tx_ok] *)
  Lemma evs_eqb_refl l : evs_eqb l l = true.
  Proof.
    induction l as [|e l IH]; [reflexivity|]. cbn. rewrite IH, andb_true_r.
    destruct e as [t code a|r d o|r code]; cbn.
    - rewrite N.eqb_refl, str_eqb_refl. now destruct t.
    - rewrite !str_eqb_refl. now destruct o.
    - now rewrite str_eqb_refl, N.eqb_refl.
  Qed.

  Lemma finals_finals_of s b cont :
    finals (concat b) (rcpts s) (finals_of s b ++ cont) = Some cont.
  Proof.
    unfold finals_of.
    destruct (_ >? _); [|destruct (accepts _)];
      induction (rcpts s) as [|r rs IH]; try reflexivity; cbn;
      try destruct (over r (concat b)); cbn; now rewrite ?str_eqb_refl.
  Qed.

  Corollary transaction_tx_ok s dl args b term rest :
    parse_cmd dl = Some (S_ "DATA", args) ->
    mail_seen s = true -> rcpts s <> [] ->
    is_term term = true ->
    0 <= max_size c ->
    tx_ok (concat b) (rcpts s) (fst (run (reset s) MCmd rest))
          (fst (run s MCmd (dl :: stuff b ++ term :: rest))) = true.
  Proof.
    intros. rewrite (transaction s dl args b term rest) by assumption.
    destruct (run (reset s) MCmd rest) as [e r]. cbn [fst tx_ok N.eqb Pos.eqb andb].
    rewrite finals_finals_of. apply evs_eqb_refl.
  Qed.
End Tx.
