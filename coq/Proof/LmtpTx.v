(** C16 — one complete DATA phase of the session automaton, seen from the
    stream: 354, one reply per recipient in RCPT order carrying exactly the
    submitted octets, and then exactly what a session in the reset state does
    with the rest of the stream — for every body within the size limit that
    the message checks accept; witnesses that raven does otherwise for the
    other bodies. *)
From Coq Require Import String Ascii List Bool ZArith NArith Lia.
From Raven Require Import Base.GoStr Model.Lmtp Spec.LmtpDialog Proof.LmtpData Proof.LmtpDialog.
Import ListNotations.
Local Open Scope Z_scope.

Section Tx.
  Variable accepts : str -> bool.
  Variable delivers : str -> str -> bool.
  Variable c : cfg.

  Notation run := (run accepts delivers c).

  (** input (body of one message) -> class *)
  Definition classify_tx (b : list str) : option finding :=
    if len (concat b) >? max_size c then Some OversizeDesync
    else if negb (accepts (concat b)) then Some Single554
    else None.

  Definition deliveries (s : st) (d : str) : list ev :=
    map (fun r => Deliver r d (delivers r d)) (rcpts s).

  (** body lines are consumed silently while the running size is in the limit *)
  Lemma run_data_body b : forall s buf size tail,
    size + len (concat b) <= max_size c ->
    run s (MData buf size) (stuff b ++ tail) =
    run s (MData (buf ++ concat b) (size + len (concat b))) tail.
  Proof.
    induction b as [|l b IH]; intros s buf size tail H.
    - cbn [stuff map app concat]. rewrite app_nil_r, len_nil, Z.add_0_r. reflexivity.
    - cbn [stuff map app concat] in *. rewrite len_app in H.
      pose proof (len_nonneg (concat b)).
      cbn [Lmtp.run step]. rewrite data_line_stuff by lia.
      fold (stuff b). rewrite IH by lia.
      rewrite len_app, <- app_assoc, Z.add_assoc.
      destruct (Lmtp.run _ _ _ _ _ _) as [e r]. reflexivity.
  Qed.

  Theorem transaction s dl args b term rest :
    parse_cmd dl = Some (S_ "DATA", args) ->
    is_nil (mail_from s) = false -> rcpts s <> [] ->
    is_term term = true ->
    classify_tx b = None ->
    run s MCmd (dl :: stuff b ++ term :: rest) =
    (let '(e, r) := run (reset s) MCmd rest in
     (Reply TData 354 [] :: deliveries s (concat b) ++ e, r)).
  Proof.
    intros P MF RC T CL. unfold classify_tx in CL.
    destruct (Z.gtb_spec (len (concat b)) (max_size c)) as [|Hsz]; [discriminate|].
    destruct (accepts (concat b)) eqn:AC; [|discriminate].
    cbn [Lmtp.run step]. rewrite P.
    assert (Hh : handle c s (S_ "DATA") args = (s, [Reply TData 354 []], NData)).
    { unfold handle. cbn [cmd_is S_ list_ascii_of_string str_eqb Ascii.eqb Bool.eqb andb].
      rewrite MF. destruct (rcpts s); [congruence|reflexivity]. }
    rewrite Hh. rewrite run_data_body by lia.
    cbn [Lmtp.run step app]. rewrite (data_line_term _ _ _ _ T).
    unfold finish_data. cbn [app]. rewrite AC.
    destruct (run (reset s) MCmd rest) as [e r]. reflexivity.
  Qed.

  (** the same in the executable form used for the refutations *)
  Lemma evs_eqb_refl l : evs_eqb l l = true.
  Proof.
    induction l as [|e l IH]; [reflexivity|]. cbn. rewrite IH, andb_true_r.
    destruct e as [t code a|r d o]; cbn.
    - rewrite N.eqb_refl, str_eqb_refl. now destruct t.
    - rewrite !str_eqb_refl. now destruct o.
  Qed.

  Lemma finals_deliveries d cont : forall rs,
    finals d rs (map (fun r => Deliver r d (delivers r d)) rs ++ cont) = Some cont.
  Proof.
    induction rs as [|r rs IH]; [reflexivity|]. cbn. now rewrite !str_eqb_refl.
  Qed.

  Corollary transaction_tx_ok s dl args b term rest :
    parse_cmd dl = Some (S_ "DATA", args) ->
    is_nil (mail_from s) = false -> rcpts s <> [] ->
    is_term term = true ->
    classify_tx b = None ->
    tx_ok (concat b) (rcpts s) (fst (run (reset s) MCmd rest))
          (fst (run s MCmd (dl :: stuff b ++ term :: rest))) = true.
  Proof.
    intros. rewrite (transaction s dl args b term rest) by assumption.
    destruct (run (reset s) MCmd rest) as [e r]. cbn [fst tx_ok N.eqb Pos.eqb andb].
    unfold deliveries. rewrite finals_deliveries. apply evs_eqb_refl.
  Qed.
End Tx.
