(** Facts about Base/Like.v used by C11: a pattern [p ++ "%"] matches every
    string that starts with [p] itself (wildcards in [p] match themselves). *)
From Coq Require Import String Ascii List Bool Arith.
From Raven Require Import Base.GoStr Base.GoStrFacts Base.Like.
Import ListNotations.

Lemma las_here f t : f t = true -> like_any_suffix f t = true.
Proof. intros H. destruct t; simpl; rewrite H; reflexivity. Qed.

Lemma las_skip f c t : like_any_suffix f t = true -> like_any_suffix f (c :: t) = true.
Proof. intros H. simpl. rewrite H. apply orb_true_r. Qed.

Lemma las_nil_end r : like_any_suffix (like []) r = true.
Proof. induction r as [|c r IH]; [reflexivity|]. now apply las_skip. Qed.

Lemma like_ceq_refl c : like_ceq c c = true.
Proof. apply Ascii.eqb_refl. Qed.

Lemma like_self_prefix p r : like (p ++ [like_pct]) (p ++ r) = true.
Proof.
  induction p as [|c p IH]; simpl.
  - apply las_nil_end.
  - destruct (Ascii.eqb c like_pct).
    + apply las_skip, las_here, IH.
    + destruct (Ascii.eqb c like_us); [exact IH|].
      now rewrite like_ceq_refl, IH.
Qed.
