(** C17 — sessions: a connection that carries several transactions behaves as
    the sequence of its transactions, each started from the reset state. *)
From Coq Require Import String Ascii List Bool Arith ZArith Lia.
From Raven Require Import Base.GoStr Model.Policy Spec.Policy.
Import ListNotations.
Local Open Scope Z_scope.

Lemma run_session_app cfg : forall cs1 cs2 st,
  run_session cfg st (cs1 ++ cs2) =
  let '(r1, st1) := run_session cfg st cs1 in
  let '(r2, st2) := run_session cfg st1 cs2 in (r1 ++ r2, st2).
Proof.
  induction cs1 as [|c cs1 IH]; intros cs2 st; cbn [app run_session].
  - destruct (run_session cfg st cs2) as [r2 st2]. reflexivity.
  - destruct (step cfg st c) as [r st1]. rewrite IH.
    destruct (run_session cfg st1 cs1) as [r1 st1'].
    destruct (run_session cfg st1' cs2) as [r2 st2]. reflexivity.
Qed.

(** the RCPT commands of an open transaction *)
Lemma run_rcpts cfg d : forall lines rec,
  run_session cfg (mkS true rec, d) (map C_RCPT lines) =
  (map SR_rcpt (fst (handle_rcpts cfg d rec lines)), (mkS true (snd (handle_rcpts cfg d rec lines)), d)).
Proof.
  induction lines as [|a rest IH]; intros rec; [reflexivity|].
  cbn [map run_session step mail_seen s_rcpts negb handle_rcpts].
  destruct (handle_rcpt cfg d rec a) as [r rec'].
  rewrite IH. destruct (handle_rcpts cfg d rec' rest) as [rs fin]. reflexivity.
Qed.

Definition is_nil {A} (l : list A) : bool := match l with [] => true | _ => false end.

(** what a transaction answers inside a session *)
Definition block_replies (mail_ok : bool) (o : txn_out) : list sreply :=
  SR_mail mail_ok :: map SR_rcpt (to_rcpt o) ++ [SR_data (to_data o)].

(** state after a transaction: reset when at least one recipient had been
    accepted (whatever became of the message), still open otherwise (DATA was
    answered 503 before any data) *)
Definition state_after (o : txn_out) : sstate :=
  if is_nil (to_accepted o) then mkS true [] else s_reset.

Lemma run_block cfg d s b :
  s_rcpts s = [] ->
  run_session cfg (s, d) (block_cmds b) =
  (block_replies (negb (mail_seen s)) (run_txn cfg d (fst b) (snd b)),
   (state_after (run_txn cfg d (fst b) (snd b)), do_db (to_data (run_txn cfg d (fst b) (snd b))))).
Proof.
  destruct s as [seen rc]. cbn [s_rcpts mail_seen]. intros ->. destruct b as [lines m]. cbn [fst snd].
  unfold block_cmds. cbn [fst snd].
  change (C_MAIL :: map C_RCPT lines ++ [C_DATA m]) with ([C_MAIL] ++ map C_RCPT lines ++ [C_DATA m]).
  rewrite run_session_app.
  assert (M : run_session cfg (mkS seen [], d) [C_MAIL] = ([SR_mail (negb seen)], (mkS true [], d))).
  { cbn. destruct seen; reflexivity. }
  rewrite M. rewrite run_session_app, run_rcpts.
  unfold run_txn, block_replies, state_after.
  destruct (handle_rcpts cfg d [] lines) as [rs recs]. cbn [fst snd to_rcpt to_accepted to_data].
  cbn [run_session step mail_seen s_rcpts negb].
  destruct recs as [|r0 recs]; cbn [is_nil]; reflexivity.
Qed.

(** the replies of a session made of whole transactions *)
Fixpoint blocks_replies (cfg : config) (seen : bool) (d : db) (bs : list (list str * message)) : list sreply :=
  match bs with
  | [] => []
  | b :: rest =>
      let o := run_txn cfg d (fst b) (snd b) in
      block_replies (negb seen) o ++ blocks_replies cfg (is_nil (to_accepted o)) (do_db (to_data o)) rest
  end.

Fixpoint blocks_db (cfg : config) (d : db) (bs : list (list str * message)) : db :=
  match bs with
  | [] => d
  | b :: rest => blocks_db cfg (do_db (to_data (run_txn cfg d (fst b) (snd b)))) rest
  end.

Lemma state_after_rcpts o : s_rcpts (state_after o) = [].
Proof. unfold state_after. destruct (is_nil (to_accepted o)); reflexivity. Qed.

Lemma state_after_seen o : mail_seen (state_after o) = is_nil (to_accepted o).
Proof. unfold state_after. destruct (is_nil (to_accepted o)); reflexivity. Qed.

(** Every transaction of a session is answered, and files, exactly as the
    same transaction on a fresh connection over the database the previous
    ones left: nothing of an earlier transaction — accepted, refused for its
    size (552), unparsable (554), without accepted recipient, at the
    recipient limit — survives into the next one. *)
Theorem session_is_transactions cfg : forall bs s d,
  s_rcpts s = [] ->
  fst (run_session cfg (s, d) (flat_map block_cmds bs)) = blocks_replies cfg (mail_seen s) d bs /\
  snd (snd (run_session cfg (s, d) (flat_map block_cmds bs))) = blocks_db cfg d bs /\
  s_rcpts (fst (snd (run_session cfg (s, d) (flat_map block_cmds bs)))) = [].
Proof.
  induction bs as [|b rest IH]; intros s d Hs; [cbn; auto|].
  cbn [flat_map blocks_replies blocks_db]. rewrite run_session_app, (run_block cfg d s b Hs).
  set (o := run_txn cfg d (fst b) (snd b)).
  destruct (IH (state_after o) (do_db (to_data o)) (state_after_rcpts o)) as [I1 [I2 I3]].
  destruct (run_session cfg (state_after o, do_db (to_data o)) (flat_map block_cmds rest)) as [r2 st2].
  cbn [fst snd] in *. rewrite state_after_seen in I1. rewrite I1. auto.
Qed.

(** after DATA for a non-empty recipient list the state is the reset state,
    whatever the message and the outcome *)
Lemma data_resets cfg d rec m :
  rec <> [] -> fst (snd (step cfg (mkS true rec, d) (C_DATA m))) = s_reset.
Proof. intros H. cbn. destruct rec; [contradiction | reflexivity]. Qed.
