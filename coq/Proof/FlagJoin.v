(** C10 — why the model may keep a stored flag string as its atoms: a
    substring test of the space-joined string ([strings.Contains], SQL LIKE
    '%q%') for a non-empty, space-free [q] is the same test on some atom. *)
From Coq Require Import String Ascii List Bool Arith.
From Raven Require Import Base.GoStr Base.GoStrFacts Model.Flags Model.FlagStore.
Import ListNotations.

Definition occurs (s q : str) : Prop := exists a b, s = a ++ q ++ b.

Lemma index_occurs q : forall s, index s q <> None <-> occurs s q.
Proof.
  induction s as [|c s IH].
  - cbn [index]. destruct (has_prefix [] q) eqn:E.
    + split; [|discriminate]. intros _. apply has_prefix_spec in E. destruct E as [r E]. now exists [], r.
    + split; [congruence|]. intros [a [b H]]. exfalso.
      destruct a; [|discriminate]. simpl in H.
      assert (has_prefix [] q = true) by (apply has_prefix_spec; now exists b). congruence.
  - cbn [index]. destruct (has_prefix (c :: s) q) eqn:E.
    + split; [|discriminate]. intros _. apply has_prefix_spec in E. destruct E as [r E]. now exists [], r.
    + destruct (index s q) as [n|] eqn:Ei; simpl.
      * split; [|discriminate]. intros _. assert (H : occurs s q) by (apply IH; discriminate).
        destruct H as [a [b ->]]. now exists (c :: a), b.
      * split; [congruence|]. intros [a [b H]]. exfalso. destruct a as [|d a].
        -- simpl in H. assert (has_prefix (c :: s) q = true) by (apply has_prefix_spec; now exists b). congruence.
        -- injection H as -> ->. assert (None <> None :> option nat); [|congruence].
           apply IH. now exists a, b.
Qed.

Lemma contains_spec s q : contains s q = true <-> occurs s q.
Proof.
  unfold contains. rewrite <- index_occurs. destruct (index s q); split; congruence.
Qed.

Lemma prefix_before_sep (sp : ascii) : forall q b F R,
  ~ In sp q -> q ++ b = F ++ sp :: R -> exists c, F = q ++ c.
Proof.
  induction q as [|x q IH]; intros b F R Hn H; [now exists F|].
  destruct F as [|y F]; simpl in H.
  - injection H as -> _. exfalso. apply Hn. now left.
  - injection H as -> H.
    assert (Hn' : ~ In sp q) by (intros Hx; apply Hn; now right).
    destruct (IH b F R Hn' H) as [c ->]. now exists c.
Qed.

Lemma occurs_split (sp : ascii) q : q <> [] -> ~ In sp q ->
  forall f a b R, a ++ q ++ b = f ++ sp :: R -> occurs f q \/ occurs R q.
Proof.
  intros Hq Hn. induction f as [|d f IH]; intros a b R H.
  - destruct a as [|c a]; simpl in H.
    + destruct q as [|x q]; [congruence|]. injection H as -> _. exfalso. apply Hn. now left.
    + injection H as _ H. right. now exists a, b.
  - destruct a as [|c a].
    + left. simpl in H. destruct (prefix_before_sep sp q b (d :: f) R Hn H) as [c E]. exists [], c. exact E.
    + injection H as -> H. destruct (IH a b R H) as [[x [y ->]]|Hr]; [left | now right].
      now exists (d :: x), y.
Qed.

Lemma join_occurs (sp : ascii) q : q <> [] -> ~ In sp q ->
  forall fl, occurs (join fl [sp]) q <-> exists f, In f fl /\ occurs f q.
Proof.
  intros Hq Hn. induction fl as [|f fl IH].
  - simpl. split.
    + intros [a [b H]]. exfalso. destruct a; [|discriminate]. destruct q; [congruence | discriminate].
    + intros [f [[] _]].
  - destruct fl as [|g fl].
    + simpl. split; [intros H; exists f; auto | intros [f' [[<-|[]] H]]; assumption].
    + change (join (f :: g :: fl) [sp]) with (f ++ [sp] ++ join (g :: fl) [sp]). split.
      * intros [a [b H]]. simpl in H. symmetry in H. apply (occurs_split sp q Hq Hn) in H.
        destruct H as [H|H]; [exists f; split; [now left | assumption]|].
        apply IH in H. destruct H as [f' [Hin Ho]]. exists f'. split; [now right | assumption].
      * intros [f' [[<-|Hin] Ho]].
        -- destruct Ho as [a [b ->]]. exists a, (b ++ [sp] ++ join (g :: fl) [sp]). now rewrite <- !app_assoc.
        -- assert (Ho' : occurs (join (g :: fl) [sp]) q) by (apply IH; now exists f').
           destruct Ho' as [a [b ->]]. exists (f ++ [sp] ++ a), b. now rewrite <- !app_assoc.
Qed.

Definition SP : ascii := " "%char.

(** strings.Contains(strings.Join(atoms, " "), q)  =  some atom contains q *)
Theorem contains_join fl q : q <> [] -> ~ In SP q ->
  contains (join fl [SP]) q = flags_contain fl q.
Proof.
  intros Hq Hn. apply eq_iff_eq_true. unfold flags_contain.
  rewrite contains_spec, existsb_exists, (join_occurs SP q Hq Hn).
  split; intros [f [H1 H2]]; exists f; (split; [assumption|]); now apply contains_spec.
Qed.
