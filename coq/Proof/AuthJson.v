(** C04 — the request body built by Sprintf, read back by the strict JSON
    lexer: exact for clean strings. *)
From Coq Require Import String Ascii List Bool Arith NArith Lia.
From Raven Require Import Base.GoStr Spec.Json Model.Auth Spec.AuthSpec.
Import ListNotations.
Local Open Scope char_scope.

Lemma json_plain_inv c : json_plain c = true ->
  Ascii.eqb c QUOTE = false /\ Ascii.eqb c BSL = false /\ is_ctl c = false.
Proof.
  unfold json_plain. rewrite !andb_true_iff, !negb_true_iff. tauto.
Qed.

Lemma lex_clean v r : json_clean v = true -> lex_str (v ++ QUOTE :: r) = Some (v, r).
Proof.
  induction v as [|c v IH]; intros H.
  - reflexivity.
  - simpl in H. apply andb_true_iff in H as [Hc Hv].
    apply json_plain_inv in Hc as (H1 & H2 & H3).
    change ((c :: v) ++ QUOTE :: r) with (c :: (v ++ QUOTE :: r)).
    cbn [lex_str]. rewrite H1, H2, H3, (IH Hv). reflexivity.
Qed.

Lemma members_last f k v :
  json_clean k = true -> json_clean v = true ->
  members (S f) (QUOTE :: k ++ QUOTE :: ":" :: QUOTE :: v ++ QUOTE :: ["}"]) = Some [(k, v)].
Proof.
  intros Hk Hv. cbn [members]. rewrite Ascii.eqb_refl, (lex_clean _ _ Hk).
  cbn -[lex_str]. rewrite (lex_clean _ _ Hv). reflexivity.
Qed.

Lemma members_more f k v rest :
  json_clean k = true -> json_clean v = true ->
  members (S f) (QUOTE :: k ++ QUOTE :: ":" :: QUOTE :: v ++ QUOTE :: "," :: QUOTE :: rest) =
  match members f (QUOTE :: rest) with Some l => Some ((k, v) :: l) | None => None end.
Proof.
  intros Hk Hv. cbn [members]. rewrite Ascii.eqb_refl, (lex_clean _ _ Hk).
  cbn -[lex_str members]. rewrite (lex_clean _ _ Hv). cbn -[members]. reflexivity.
Qed.

Lemma build_body_shape e p :
  build_body e p =
  "{" :: QUOTE :: K_EMAIL ++ QUOTE :: ":" :: QUOTE :: e ++ QUOTE :: "," :: QUOTE ::
         K_PASSWORD ++ QUOTE :: ":" :: QUOTE :: p ++ QUOTE :: ["}"].
Proof.
  unfold build_body, K_EMAIL, K_PASSWORD, S_. cbn [list_ascii_of_string app].
  reflexivity.
Qed.

(** (a), positive direction, for ALL strings free of quote, backslash and
    control octets *)
Theorem body_exact_clean e p :
  json_clean e = true -> json_clean p = true -> body_exact (build_body e p) e p.
Proof.
  intros He Hp. unfold body_exact. rewrite build_body_shape.
  unfold json_fields. cbn -[members K_EMAIL K_PASSWORD app].
  cbn [length]. 
  assert (Hk1 : json_clean K_EMAIL = true) by reflexivity.
  assert (Hk2 : json_clean K_PASSWORD = true) by reflexivity.
  match goal with |- members (S ?n) _ = _ => destruct n eqn:E end.
  - exfalso. cbn in E. rewrite !app_length in E. cbn in E. lia.
  - rewrite (members_more _ K_EMAIL e _ Hk1 He).
    rewrite (members_last _ K_PASSWORD p Hk2 Hp). reflexivity.
Qed.
