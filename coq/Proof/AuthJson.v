(** C04 — the request body built by json.Marshal, read back by the strict
    JSON lexer: exact for every string that is valid UTF-8. *)
From Coq Require Import String Ascii List Bool Arith NArith Lia.
From Raven Require Import Base.GoStr Base.GoStrFacts Base.GoStrJson Spec.Json Model.Auth Spec.AuthSpec.
Import ListNotations.
Local Open Scope char_scope.

Lemma json_plain_inv c : json_plain c = true ->
  Ascii.eqb c QUOTE = false /\ Ascii.eqb c BSL = false /\ is_ctl c = false.
Proof.
  unfold json_plain. rewrite !andb_true_iff, !negb_true_iff. tauto.
Qed.

Lemma prepend_app a b r : prepend a (prepend b r) = prepend (a ++ b) r.
Proof. destruct r as [[v rest]|]; simpl; [now rewrite app_assoc|reflexivity]. Qed.

(** octets that need no escape are lexed as themselves *)
Lemma lex_plain a X : forallb json_plain a = true -> lex_str (a ++ X) = prepend a (lex_str X).
Proof.
  induction a as [|c a IH]; intros H.
  - simpl. destruct (lex_str X) as [[v r]|]; reflexivity.
  - simpl in H. apply andb_true_iff in H as [Hc Ha].
    apply json_plain_inv in Hc as (H1 & H2 & H3).
    change ((c :: a) ++ X) with (c :: (a ++ X)). cbn [lex_str]. rewrite H1, H2, H3, (IH Ha).
    now rewrite prepend_app.
Qed.

Lemma lex_clean v r : json_clean v = true -> lex_str (v ++ QUOTE :: r) = Some (v, r).
Proof.
  intros H. rewrite (lex_plain _ _ H). cbn [lex_str]. rewrite Ascii.eqb_refl. simpl. now rewrite app_nil_r.
Qed.

(** every ASCII octet, escaped as encoding/json does, is lexed back to itself *)
Lemma esc_char c X : (byte_of c <? 128)%N = true ->
  lex_str (json_esc_ascii c ++ X) = prepend [c] (lex_str X).
Proof.
  destruct c as [[] [] [] [] [] [] [] []]; intros H;
    try (vm_compute in H; discriminate H);
    (match goal with |- lex_str (?e ++ X) = _ => let v := eval vm_compute in e in change e with v end);
    simpl; reflexivity.
Qed.

Lemma high_plain c : (128 <=? byte_of c)%N = true -> json_plain c = true.
Proof.
  intros H. assert (K : implb (128 <=? byte_of c)%N (json_plain c) = true).
  { revert c H. intros c _. revert c. ascii_sweep (fun c => implb (128 <=? byte_of c)%N (json_plain c)). }
  rewrite H in K. exact K.
Qed.

Lemma in_range_high lo hi c : (128 <= lo)%N -> in_range lo hi c = true -> (128 <=? byte_of c)%N = true.
Proof.
  unfold in_range. rewrite andb_true_iff, !N.leb_le. intros L [A _]. lia.
Qed.

Ltac high := match goal with
  | H : in_range ?lo ?hi ?c = true |- (128 <=? byte_of ?c)%N = true => refine (in_range_high lo hi c _ H); lia
  | H : cont_b ?c = true |- (128 <=? byte_of ?c)%N = true => refine (in_range_high 128 191 c _ H); lia
  end.

(** a rune accepted by utf8.DecodeRuneInString consists of 2..4 octets >= 0x80 *)
Lemma rune_width_high s w : rune_width s = Some w ->
  forallb (fun c => (128 <=? byte_of c)%N) (firstn w s) = true /\ 2 <= w /\ w <= length s.
Proof.
  unfold rune_width. destruct s as [|b0 [|b1 rest]]; try discriminate.
  destruct (in_range 194 223 b0) eqn:R0.
  - destruct (cont_b b1) eqn:C1; [|discriminate]. intros H; injection H as <-.
    cbn [firstn forallb length]. split; [|lia]. rewrite !andb_true_iff. repeat split; try reflexivity; high.
  - assert (S2 : forall ok, ok = true ->
              (in_range 224 224 b0 = true \/ in_range 237 237 b0 = true \/ in_range 225 239 b0 = true
               \/ in_range 240 240 b0 = true \/ in_range 244 244 b0 = true \/ in_range 241 243 b0 = true) ->
              (128 <=? byte_of b1)%N = true ->
              match rest with
              | b2 :: rest' =>
                  if negb (cont_b b2) then None
                  else if in_range 224 239 b0 then Some 3
                  else match rest' with b3 :: _ => if cont_b b3 then Some 4 else None | [] => None end
              | [] => None
              end = Some w ->
              forallb (fun c => (128 <=? byte_of c)%N) (firstn w (b0 :: b1 :: rest)) = true /\ 2 <= w /\ w <= length (b0 :: b1 :: rest)).
    { intros ok _ H0 H1 H.
      assert (B0 : (128 <=? byte_of b0)%N = true) by (destruct H0 as [H0|[H0|[H0|[H0|[H0|H0]]]]]; high).
      destruct rest as [|b2 rest']; [discriminate|].
      destruct (cont_b b2) eqn:C2; [|discriminate]. cbn [negb] in H.
      assert (B2 : (128 <=? byte_of b2)%N = true) by high.
      destruct (in_range 224 239 b0).
      - injection H as <-. cbn [firstn forallb length]. rewrite B0, H1, B2. split; [reflexivity|lia].
      - destruct rest' as [|b3 rest'']; [discriminate|]. destruct (cont_b b3) eqn:C3; [|discriminate].
        injection H as <-. cbn [firstn forallb length]. rewrite B0, H1, B2.
        assert (B3 : (128 <=? byte_of b3)%N = true) by high. rewrite B3. split; [reflexivity|lia]. }
    destruct (in_range 224 224 b0) eqn:A1.
    { destruct (in_range 160 191 b1) eqn:Q; [|discriminate]. cbn [negb]. apply (S2 true eq_refl); [tauto|high]. }
    destruct (in_range 237 237 b0) eqn:A2.
    { destruct (in_range 128 159 b1) eqn:Q; [|discriminate]. cbn [negb]. apply (S2 true eq_refl); [tauto|high]. }
    destruct (in_range 225 239 b0) eqn:A3.
    { destruct (cont_b b1) eqn:Q; [|discriminate]. cbn [negb]. apply (S2 true eq_refl); [tauto|high]. }
    destruct (in_range 240 240 b0) eqn:A4.
    { destruct (in_range 144 191 b1) eqn:Q; [|discriminate]. cbn [negb]. apply (S2 true eq_refl); [tauto|high]. }
    destruct (in_range 244 244 b0) eqn:A5.
    { destruct (in_range 128 143 b1) eqn:Q; [|discriminate]. cbn [negb]. apply (S2 true eq_refl); [tauto|high]. }
    destruct (in_range 241 243 b0) eqn:A6.
    { destruct (cont_b b1) eqn:Q; [|discriminate]. cbn [negb]. apply (S2 true eq_refl); [tauto|high]. }
    discriminate.
Qed.

Lemma byte_is c n : (byte_of c =? n)%N = true -> c = ascii_of_N n.
Proof. intros H. apply N.eqb_eq in H. rewrite <- H. unfold byte_of. now rewrite ascii_N_embedding. Qed.

(** U+2028 / U+2029 are written as \u2028 / \u2029 and lexed back to their three octets *)
Lemma line_sep_lex s d w X : line_sep s = Some d -> rune_width s = Some w ->
  w = 3 /\ lex_str (["\"; "u"; "2"; "0"; "2"; d] ++ X) = prepend (firstn 3 s) (lex_str X).
Proof.
  unfold line_sep. destruct s as [|b0 [|b1 [|b2 rest]]]; try discriminate.
  destruct ((byte_of b0 =? 226)%N) eqn:E0; [|discriminate].
  destruct ((byte_of b1 =? 128)%N) eqn:E1; [|discriminate]. cbn [andb].
  apply byte_is in E0, E1. subst b0 b1.
  destruct ((byte_of b2 =? 168)%N) eqn:E2.
  - apply byte_is in E2. subst b2. intros H; injection H as <-. intros Hw. vm_compute in Hw.
    injection Hw as <-. split; [reflexivity|]. simpl. reflexivity.
  - destruct ((byte_of b2 =? 169)%N) eqn:E3; [|discriminate].
    apply byte_is in E3. subst b2. intros H; injection H as <-. intros Hw. vm_compute in Hw.
    injection Hw as <-. split; [reflexivity|]. simpl. reflexivity.
Qed.

Lemma forallb_impl_local {A} (f g : A -> bool) l :
  (forall x, f x = true -> g x = true) -> forallb f l = true -> forallb g l = true.
Proof. intros I. induction l as [|x l IH]; [reflexivity|]. simpl. rewrite !andb_true_iff. intros [H1 H2]. split; auto. Qed.

(** the escaped form of a valid UTF-8 string is lexed back to the string *)
Lemma esc_lex fuel : forall s X, length s <= fuel -> utf8_ok fuel s = true ->
  lex_str (json_esc fuel s ++ X) = prepend s (lex_str X).
Proof.
  induction fuel as [|f IH]; intros s X L V.
  - destruct s; [|simpl in L; lia]. simpl. destruct (lex_str X) as [[v r]|]; reflexivity.
  - destruct s as [|c s'].
    + simpl. destruct (lex_str X) as [[v r]|]; reflexivity.
    + cbn [json_esc utf8_ok] in *. destruct ((byte_of c <? 128)%N) eqn:A.
      * rewrite <- app_assoc, (esc_char _ _ A), IH; [|simpl in L; lia|exact V].
        now rewrite prepend_app.
      * destruct (rune_width (c :: s')) as [w|] eqn:W; [|discriminate].
        destruct (rune_width_high _ _ W) as (Hh & W2 & Wl).
        assert (Ls : length (skipn w (c :: s')) <= f) by (rewrite skipn_length; lia).
        rewrite <- app_assoc.
        destruct (line_sep (c :: s')) as [d|] eqn:Sp.
        -- destruct (line_sep_lex _ _ _ (json_esc f (skipn w (c :: s')) ++ X) Sp W) as [-> E].
           rewrite E, (IH _ _ Ls V), prepend_app, firstn_skipn. reflexivity.
        -- rewrite lex_plain.
           ++ rewrite (IH _ _ Ls V), prepend_app, firstn_skipn. reflexivity.
           ++ revert Hh. apply forallb_impl_local. intros x Hx. now apply high_plain.
Qed.

(** raw text between two quotes that the lexer reads as [v] *)
Definition encodes (rv v : str) : Prop := forall r, lex_str (rv ++ QUOTE :: r) = Some (v, r).

Lemma encodes_clean v : json_clean v = true -> encodes v v.
Proof. intros H r. now apply lex_clean. Qed.

Lemma encodes_escape v : utf8_valid v = true -> encodes (json_escape v) v.
Proof.
  intros H r. unfold json_escape. rewrite (esc_lex _ _ _ (le_n _) H).
  cbn [lex_str]. rewrite Ascii.eqb_refl. simpl. now rewrite app_nil_r.
Qed.

Lemma members_last f rk k rv v : encodes rk k -> encodes rv v ->
  members (S f) (QUOTE :: rk ++ QUOTE :: ":" :: QUOTE :: rv ++ QUOTE :: ["}"]) = Some [(k, v)].
Proof.
  intros Hk Hv. cbn [members]. rewrite Ascii.eqb_refl, Hk.
  cbn -[lex_str]. rewrite Hv. reflexivity.
Qed.

Lemma members_more f rk k rv v rest : encodes rk k -> encodes rv v ->
  members (S f) (QUOTE :: rk ++ QUOTE :: ":" :: QUOTE :: rv ++ QUOTE :: "," :: QUOTE :: rest) =
  match members f (QUOTE :: rest) with Some l => Some ((k, v) :: l) | None => None end.
Proof.
  intros Hk Hv. cbn [members]. rewrite Ascii.eqb_refl, Hk.
  cbn -[lex_str members]. rewrite Hv. cbn -[members]. reflexivity.
Qed.

Lemma build_body_shape e p :
  build_body e p =
  "{" :: QUOTE :: K_EMAIL ++ QUOTE :: ":" :: QUOTE :: json_escape e ++ QUOTE :: "," :: QUOTE ::
         K_PASSWORD ++ QUOTE :: ":" :: QUOTE :: json_escape p ++ QUOTE :: ["}"].
Proof. reflexivity. Qed.

(** (a) for ALL valid-UTF-8 addresses and passwords (every ASCII string, quotes,
    backslashes and control octets included) *)
Theorem body_exact_valid e p :
  utf8_valid e = true -> utf8_valid p = true -> body_exact (build_body e p) e p.
Proof.
  intros He Hp. unfold body_exact. rewrite build_body_shape.
  unfold json_fields. cbn -[members K_EMAIL K_PASSWORD app json_escape].
  cbn [length].
  assert (Hk1 : encodes K_EMAIL K_EMAIL) by (apply encodes_clean; reflexivity).
  assert (Hk2 : encodes K_PASSWORD K_PASSWORD) by (apply encodes_clean; reflexivity).
  match goal with |- members (S ?n) _ = _ => destruct n eqn:E end.
  - exfalso. cbn in E. rewrite !app_length in E. cbn in E. lia.
  - rewrite (members_more _ _ _ _ _ _ Hk1 (encodes_escape _ He)).
    rewrite (members_last _ _ _ _ _ Hk2 (encodes_escape _ Hp)). reflexivity.
Qed.

(** every ASCII string is valid UTF-8 *)
Lemma ascii_utf8_ok fuel s : length s <= fuel -> all_ascii s = true -> utf8_ok fuel s = true.
Proof.
  revert s; induction fuel as [|f IH]; intros s L A.
  - destruct s; [reflexivity|simpl in L; lia].
  - destruct s as [|c s']; [reflexivity|]. simpl in A. apply andb_true_iff in A as [Ac As].
    cbn [utf8_ok]. rewrite Ac. apply IH; [simpl in L; lia|exact As].
Qed.

Lemma ascii_utf8_valid s : all_ascii s = true -> utf8_valid s = true.
Proof. intros A. apply ascii_utf8_ok; [lia|exact A]. Qed.
