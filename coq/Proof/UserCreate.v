(** GetOrCreateUserInitialized returns after ONE pass through its body for every
    users table; the self-restarting variant never returns on a disabled row. *)
From Coq Require Import String List Bool Arith Lia.
From Raven Require Import Base.GoStr Model.UserCreate.
Import ListNotations.

Theorem step_done (t : list urow) (name : str) (dom : nat) :
  exists t' r, step t name dom Start = (t', Done r).
Proof.
  unfold step. destruct (lookup t name dom) as [id|] eqn:L; [eauto|].
  destruct (insert t name dom) as [[t' id]|]; eauto.
Qed.

Lemma run_done stp f t name dom r :
  (forall t0 r0, stp t0 name dom (Done r0) = (t0, Done r0)) -> run stp f t name dom (Done r) = (t, Done r).
Proof. intros H. induction f as [|f IH]; simpl; [reflexivity|]. rewrite H. exact IH. Qed.

(** within 2 steps (one suffices; the bound of the statement is the integrator's) *)
Theorem get_or_create_terminates (t : list urow) (name : str) (dom : nat) :
  exists t' r, run step 2 t name dom Start = (t', Done r).
Proof.
  destruct (step_done t name dom) as [t' [r E]]. exists t', r.
  cbn [run]. rewrite E. cbn [step]. reflexivity.
Qed.

(** what it returns *)
Theorem get_or_create_result (t : list urow) (name : str) (dom : nat) :
  snd (step t name dom Start) =
  match lookup t name dom with
  | Some id => Done (Found id)
  | None => if existsb (same_key name dom) t then Done NotFound else Done (Created (fresh_id t))
  end.
Proof.
  unfold step, insert. destruct (lookup t name dom) eqn:L; [reflexivity|].
  destruct (existsb (same_key name dom) t); reflexivity.
Qed.

(** the key is taken by a row the lookup does not see *)
Definition shadowed (t : list urow) (name : str) (dom : nat) : Prop :=
  lookup t name dom = None /\ existsb (same_key name dom) t = true.

Theorem restart_never_returns (t : list urow) (name : str) (dom : nat) :
  shadowed t name dom -> forall fuel, run step_restart fuel t name dom Start = (t, Start).
Proof.
  intros [L E] fuel. induction fuel as [|f IH]; [reflexivity|].
  cbn [run]. unfold step_restart, insert. rewrite L, E. exact IH.
Qed.

(** ... and a disabled row is such a table *)
Example disabled_row_is_shadowed :
  shadowed [mk_urow 1 (S_ "suspended"%string) 1 false] (S_ "suspended"%string) 1.
Proof. split; reflexivity. Qed.

Example restart_variant_spins :
  forall fuel, run step_restart fuel [mk_urow 1 (S_ "suspended"%string) 1 false] (S_ "suspended"%string) 1 Start
               = ([mk_urow 1 (S_ "suspended"%string) 1 false], Start).
Proof. exact (restart_never_returns _ _ _ disabled_row_is_shadowed). Qed.

Example current_code_answers_not_found :
  run step 2 [mk_urow 1 (S_ "suspended"%string) 1 false] (S_ "suspended"%string) 1 Start
  = ([mk_urow 1 (S_ "suspended"%string) 1 false], Done NotFound).
Proof. reflexivity. Qed.
