(** C02 — multipart messages: explicit result of store + fetch for every
    well-formed tree, every blob history and every later store. *)
From Coq Require Import String Ascii List Bool Arith NArith ZArith Lia.
From Raven Require Import Base.GoStr Base.GoStrMime Spec.Mime Model.MimeHeaders Model.MimeStore
  Spec.MimeCheck Proof.MimeBlob Proof.MimeRows Proof.MimeTree Proof.MimeTree2.
Import ListNotations.

Definition root_ct (st : str) : header := (S_ "Content-Type", S_ " multipart/" ++ st).

(** the header fields of a multipart message that survive the rebuild's filter *)
Definition kept_hdrs (hs : list header) (st : str) : list header :=
  filter (fun h => negb (is_mime_hdr (fst h))) (map hdr_store (hs ++ [root_ct st])).

Definition wf_kids (ks : list mime) : bool := nonempty_l ks && forallb wf_tree ks.

Section Multi.
Variable hash : str -> str.

Lemma root_filter st ks : wf_kids ks = true ->
  filter (isk None) (indexed (rowsP_aux [] (container_part None st :: segs 0 1 ks)))
  = [(0, mk_row 1 None (container_part None st) None)].
Proof.
  intros W. rewrite indexed_ixf. cbn [rowsP_aux]. rewrite ixf_cons. cbn [filter].
  unfold isk at 1. cbn. f_equal.
  apply filter_none_root.
  - reflexivity.
  - pose proof (seg_pok (Multi st ks) None 0 I) as G. rewrite seg_multi in G. simpl in G. apply G.
  - eapply Forall_impl; [|apply (segs_parents 0 ks 1); lia]. intros y (j & Hj & _). congruence.
Qed.

Lemma segs_nonempty ks : wf_kids ks = true -> segs 0 1 ks <> [].
Proof.
  unfold wf_kids. destruct ks as [|t r]; [discriminate|]. simpl. intros W.
  apply andb_true_iff in W as [W _].
  destruct (seg_head t (Some 0) 1 W) as (x & tl & E & _). rewrite E. discriminate.
Qed.

Lemma multi_result : forall (faults : list bool) (bs later : blobs) (hs : list header) (st : str) (ks : list mime),
  wf_kids ks = true ->
  kept_hdrs hs st <> [] ->
  roundtrip hash faults bs (mk_msg hs (Multipart st ks)) later
  = Some (mk_msg (map out_hdr (kept_hdrs hs st) ++ [(S_ "MIME-Version", S_ " 1.0")])
                 (Multipart (to_lower st) (map tmap ks))).
Proof.
  intros faults bs later hs st ks W HK.
  unfold roundtrip, store, parse_msg. cbn [m_body m_hdrs].
  set (P := container_part None st :: segs 0 1 ks).
  destruct (store_parts hash faults bs [] P []) as [bs' rows'] eqn:SP.
  apply store_parts_inline in SP as (ext & new & -> & -> & Hn).
  specialize (Hn later). cbn [app].
  set (bsF := (bs ++ ext) ++ later) in *.
  (* at least two rows *)
  assert (LEN : length new = length P).
  { apply (f_equal (@length row)) in Hn. now rewrite map_length, rowsP_aux_length in Hn. }
  pose proof (segs_nonempty ks W) as SNE.
  destruct new as [|r0 [|r1 rest]].
  { discriminate LEN. }
  { unfold P in LEN. simpl in LEN. destruct (segs 0 1 ks); [congruence | discriminate LEN]. }
  unfold fetch. cbn [s_rows s_hdrs]. cbv beta iota zeta.
  remember (r0 :: r1 :: rest) as new eqn:Hnew.
  unfold kept_hdrs, root_ct in *.
  match type of HK with ?F <> [] => destruct F as [|h0 hrest] eqn:KH end; [exfalso; apply HK; reflexivity|].
  change (fun jr : nat * row => opt_nat_eqb (r_parent (snd jr)) None) with (isk None).
  (* exactly one root *)
  pose proof (root_filter st ks W) as RF. fold P in RF. rewrite <- Hn in RF.
  rewrite indexed_map, (filter_map_lift (inline_row bsF) (isk None)) in RF by reflexivity.
  destruct (filter (isk None) (indexed new)) as [|[i r] [|c2 cs]] eqn:FR; try discriminate RF.
  cbn [map] in RF. unfold lift in RF. cbn [fst snd] in RF. remember (inline_row bsF r) as ir eqn:Hir. injection RF as Ei Er. subst i ir.
  (* the rebuild of the row list *)
  pose proof (all_nodes_ok (Multi st ks) None 0 [] [] (S (length new)) (container_part None st) (segs 0 1 ks)
                eq_refl I) as OK.
  assert (WT : wf_tree (Multi st ks) = true) by exact W.
  specialize (OK WT).
  assert (ND : need (Multi st ks) <= S (length new)).
  { pose proof (need_le_len (Multi st ks) None 0 WT) as G. rewrite seg_multi in G. fold P in G. lia. }
  specialize (OK ND I (Forall_nil _) (seg_multi None 0 st ks)).
  rewrite seg_multi, app_nil_r in OK. cbn [app filter length parent_db container_part pp_parent] in OK.
  fold P in OK. rewrite <- Hn in OK.
  cbn [build tmap] in OK.
  change (r_part {| r_pn := 1; r_parent := None; r_part := container_part None st; r_blob := None |}) with (container_part None st) in OK.
  rewrite container_is_multipart in OK. cbn [andb] in OK.
  rewrite children_inline in OK.
  assert (TY : pp_type (r_part r) = pp_type (container_part None st)).
  { apply (f_equal (fun x => pp_type (r_part x))) in Er. exact Er. }
  cbv beta iota. rewrite TY, container_is_multipart. cbn [andb].
  revert OK. destruct (children new 0) as [|c0 cr] eqn:CH; intros OK.
  { cbn in OK. discriminate OK. }
  change (nonempty_l (map (lift (inline_row bsF)) (c0 :: cr))) with true in OK. cbv iota in OK.
  injection OK as OK2.
  cbn [nonempty_l]. cbn [container_part pp_type].
  change (skipn 10 (s_multipart_ ++ to_lower st)) with (to_lower st).
  assert (EB : map (fun jr => build (length new) [] (map (inline_row bsF) new) (fst jr) (snd jr)) (map (lift (inline_row bsF)) cr)
               = map (fun jr => build (length new) bsF new (fst jr) (snd jr)) cr).
  { rewrite map_map. apply map_ext. intros [j y]. cbn [lift fst snd]. symmetry. apply build_inline. }
  rewrite <- OK2, EB, <- build_inline.
  match goal with |- match ?F with [] => None | _ :: _ => _ end = _ =>
    assert (EF : F = h0 :: hrest) by exact KH; rewrite EF end.
  reflexivity.
Qed.

End Multi.
