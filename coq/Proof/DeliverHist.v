(** C01 — the world invariant holds after EVERY history of IMAP operations
    (Model/Ops.v, clean or not: COPY, Junk moves, RENAME INBOX ... included) and
    LMTP transactions; the C03-clean histories give truthful UIDNEXT. *)
From Coq Require Import String Ascii List Bool ZArith Lia.
From Raven Require Import Base.GoStr Model.Store Model.Ops Model.Deliver Spec.UidSpec Spec.DeliverSpec
  Proof.StoreInv Proof.OpsInv Proof.UidHist Proof.DeliverStore Proof.DeliverWorld.
Import ListNotations.
Local Open Scope Z_scope.

(** ---- the counter of table [messages] never decreases ------------------------ *)

Definition nm_eq (s s' : store) : Prop := next_msg s' = next_msg s.

Lemma insert_link_nm s msg mb uid fl s' : insert_link s msg mb uid fl = Some s' -> nm_eq s s'.
Proof. unfold insert_link. destruct (existsb _ _); [discriminate|]. now intros [= <-]. Qed.

Lemma add_message_nm s msg mb fl : nm_eq s (fst (add_message s msg mb fl)).
Proof.
  unfold add_message. destruct (find_id s mb); [|reflexivity].
  destruct (insert_link (bump s mb) msg mb (mb_next m) fl) eqn:E; [|reflexivity].
  apply insert_link_nm in E. exact E.
Qed.

Lemma create_row_nm s n t s' id : create_mailbox_row s n t = Some (s', id) -> nm_eq s s'.
Proof. intros C. destruct (create_row_shape _ _ _ _ _ C) as (_ & _ & ->). reflexivity. Qed.

Lemma rename_row_nm s mb n s' : rename_row s mb n = Some s' -> nm_eq s s'.
Proof.
  unfold rename_row. destruct (find_id s mb); [|now intros [= <-]].
  destruct (existsb _ _); [discriminate|]. now intros [= <-].
Qed.

Lemma reparent_nm s a b s' : reparent s a b = Some s' -> nm_eq s s'.
Proof.
  unfold reparent. destruct (a =? b); [now intros [= <-]|].
  destruct (existsb _ _); [discriminate|]. now intros [= <-].
Qed.

Lemma uidcopy_loop_nm uids : forall s sel dest next s',
  uidcopy_loop s sel dest uids next = Some s' -> nm_eq s s'.
Proof.
  induction uids as [|u r IH]; intros s sel dest next s'; simpl; [now intros [= <-]|].
  destruct (find_link s sel u); [|apply IH].
  destruct (insert_link s (lk_msg l) dest next (add_recent (lk_flags l))) eqn:E; [|discriminate].
  intros H. apply IH in H. apply insert_link_nm in E. unfold nm_eq in *. congruence.
Qed.

Lemma copy_loop_nm seqs : forall s sel dest next s',
  copy_loop s sel dest seqs next = Some s' -> nm_eq s s'.
Proof.
  induction seqs as [|u r IH]; intros s sel dest next s'; simpl; [now intros [= <-]|].
  destruct (nth_error _ _); [|discriminate].
  destruct (insert_link s (lk_msg l) dest next (add_recent (lk_flags l))) eqn:E; [|discriminate].
  intros H. apply IH in H. apply insert_link_nm in E. unfold nm_eq in *. congruence.
Qed.

Lemma move_message_nm s msg src su d fl : nm_eq s (fst (move_message s msg src su d fl)).
Proof.
  unfold move_message. destruct (find_name s d); [|reflexivity].
  destruct (mb_id m =? src); [reflexivity|].
  destruct (insert_link s msg (mb_id m) (mb_next m) fl) eqn:E; [|reflexivity].
  apply insert_link_nm in E. exact E.
Qed.

Lemma uidstore_one_nm s sel mode new u : nm_eq s (uidstore_one s sel mode new u).
Proof.
  unfold uidstore_one. destruct (find_link s sel u); [|reflexivity].
  destruct (_ && _).
  - pose proof (move_message_nm s (lk_msg l) sel u SPAM (fremove NONJUNK (calc_flags (lk_flags l) new mode))) as H.
    destruct (move_message _ _ _ _ _ _) as [s1 ok]. destruct ok; [exact H | reflexivity].
  - destruct (_ && _); [|reflexivity].
    pose proof (move_message_nm s (lk_msg l) sel u INBOX (fremove JUNK (calc_flags (lk_flags l) new mode))) as H.
    destruct (move_message _ _ _ _ _ _) as [s1 ok]. destruct ok; [exact H | reflexivity].
Qed.

Lemma fold_nm {A} (f : store -> A -> store) (l : list A) :
  (forall s a, nm_eq s (f s a)) -> forall s, nm_eq s (fold_left f l s).
Proof.
  intros H. induction l as [|a r IH]; intros s; simpl; [reflexivity|].
  unfold nm_eq in *. rewrite IH. apply H.
Qed.

Lemma create_parents_nm s name t : nm_eq s (fst (create_parents s name t)).
Proof.
  unfold create_parents. destruct (contains_byte name SLASH); [|reflexivity]. cbn [fst].
  apply fold_nm. intros s0 a. destruct a as [|c0 a0]; [reflexivity|].
  destruct (equal_fold (c0 :: a0) INBOX); [reflexivity|].
  destruct (find_name s0 (c0 :: a0)); [reflexivity|].
  destruct (create_mailbox_row s0 (c0 :: a0) t) as [[s'' ?]|] eqn:C; [|reflexivity]. now apply create_row_nm in C.
Qed.

Ltac am_tac :=
  match goal with
  | |- context [add_message ?a ?b ?c ?d] =>
      let H := fresh "H" in
      pose proof (add_message_nm a b c d) as H; unfold nm_eq in *;
      destruct (add_message a b c d) as [? [|]]; simpl in *; lia
  end.

Lemma step_next_msg s o : next_msg s <= next_msg (fst (step s o)).
Proof.
  destruct o as [f t|f fl|sel set d|sel set d|sel set mode fl|sel|sel|n t|n|a b t]; simpl.
  - unfold op_deliver. destruct (find_name s f).
    + unfold store_message. am_tac.
    + destruct (create_mailbox_row s f t) as [[s' id]|] eqn:C; simpl; [|lia].
      apply create_row_nm in C. unfold store_message. am_tac.
  - unfold op_append. destruct (find_name s f); simpl; [|lia]. unfold store_message. am_tac.
  - unfold op_uidcopy. destruct (resolve_uids s sel set); cbn [fst]; [lia|].
    destruct (find_name s d); cbn [fst]; [|lia].
    destruct (uidcopy_loop s sel (mb_id m) (z :: l) (mb_next m)) eqn:E; cbn [fst]; [|lia].
    apply uidcopy_loop_nm in E. unfold nm_eq in E. lia.
  - unfold op_copy. destruct (resolve_seqs s sel set); cbn [fst]; [lia|].
    destruct (find_name s d); cbn [fst]; [|lia].
    destruct (copy_loop s sel (mb_id m) (z :: l) (mb_next m)) eqn:E; cbn [fst]; [|lia].
    apply copy_loop_nm in E. unfold nm_eq in E. lia.
  - pose proof (fold_nm (fun s' u => uidstore_one s' sel mode fl u) (resolve_uids s sel set)
                        (fun s0 a => uidstore_one_nm s0 sel mode fl a) s) as H. unfold nm_eq in H. lia.
  - lia.
  - lia.
  - unfold op_create. destruct (trim_suffix n [SLASH]) as [|c r] eqn:En; cbn [fst]; [lia|].
    destruct (str_eqb (to_upper (c :: r)) INBOX); cbn [fst]; [lia|].
    destruct (is_role_ns (c :: r)); cbn [fst]; [lia|].
    destruct (find_name s (c :: r)); cbn [fst]; [lia|].
    pose proof (create_parents_nm s (c :: r) t) as H1.
    destruct (create_mailbox_row (fst (create_parents s (c :: r) t)) (c :: r) t) as [[s2 ?]|] eqn:C; cbn [fst].
    + apply create_row_nm in C. unfold nm_eq in *. lia.
    + unfold nm_eq in *. lia.
  - unfold op_delete. destruct n as [|c0 n0]; cbn [fst]; [lia|].
    destruct (str_eqb (to_upper (c0 :: n0)) INBOX); cbn [fst]; [lia|].
    destruct (find_name s (c0 :: n0)); cbn [fst]; [|lia]. destruct (children s (c0 :: n0)); cbn [fst]; [|lia].
    destruct (existsb _ _); cbn [fst]; simpl; lia.
  - unfold op_rename. destruct a as [|ca ra]; cbn [fst]; [lia|]. destruct b as [|cb rb]; cbn [fst]; [lia|].
    destruct (is_role_ns (cb :: rb)); cbn [fst]; [lia|].
    destruct (str_eqb (to_upper (cb :: rb)) INBOX); cbn [fst]; [lia|].
    destruct (str_eqb (to_upper (ca :: ra)) INBOX).
    + unfold rename_inbox. destruct (find_name s (cb :: rb)); cbn [fst]; [lia|].
      destruct (find_name s INBOX); cbn [fst]; [|lia].
      pose proof (create_parents_nm s (cb :: rb) t) as H0.
      destruct (create_parents s (cb :: rb) t) as [s0 ok]. cbn [fst] in H0.
      destruct (negb ok); cbn [fst]; [unfold nm_eq in *; lia|].
      destruct (create_mailbox_row s0 (cb :: rb) t) as [[s1 nid]|] eqn:C; cbn [fst]; [|unfold nm_eq in *; lia].
      apply create_row_nm in C.
      match goal with |- context [reparent (set_next s1 nid ?x) (mb_id m) nid] => set (nx := x) end.
      destruct (reparent (set_next s1 nid nx) (mb_id m) nid) eqn:R; cbn [fst].
      * apply reparent_nm in R. unfold nm_eq in *. cbn [next_msg set_next set_mboxes] in R. lia.
      * unfold nm_eq in *. lia.
    + destruct (find_name s (ca :: ra)); cbn [fst]; [|lia]. destruct (find_name s (cb :: rb)); cbn [fst]; [lia|].
      pose proof (create_parents_nm s (cb :: rb) t) as H1.
      destruct (create_parents s (cb :: rb) t) as [s1 ok]. cbn [fst] in H1.
      destruct (negb ok); cbn [fst]; [lia|].
      destruct (rename_tx s1 (mb_id m) (ca :: ra) (cb :: rb)) eqn:R; cbn [fst]; [|lia].
      unfold rename_tx in R. destruct (rename_row s1 (mb_id m) (cb :: rb)) eqn:R1; [|discriminate].
      apply rename_row_nm in R1.
      assert (G : forall l acc s', (forall x, acc = Some x -> nm_eq s1 x) ->
                fold_left (fun acc c => match acc with None => None
                    | Some s' => rename_row s' (mb_id c) ((cb :: rb) ++ skipn (length (ca :: ra)) (mb_name c)) end) l acc = Some s' ->
                nm_eq s1 s').
      { induction l as [|x q IH]; intros acc s' Hacc; simpl.
        - intros E. now apply Hacc.
        - apply IH. intros y Ey. destruct acc as [s0'|]; [|discriminate].
          apply rename_row_nm in Ey. pose proof (Hacc s0' eq_refl). unfold nm_eq in *. congruence. }
      apply G in R; [unfold nm_eq in *; lia|]. intros x [= <-]. exact R1.
Qed.

(** ---- WInv along every history -------------------------------------------------- *)

Lemma WInv_w0 roles : WInv (w0 roles).
Proof. intros k u G. discriminate. Qed.

Lemma wstep_WInv w k t o : WInv w -> WInv (wstep w k t o).
Proof.
  intros I. unfold wstep. apply WInv_put; [exact I|].
  pose proof (getd_below w k t I) as B. intros r Hr. simpl in *.
  pose proof (B r Hr). pose proof (step_next_msg (us (getd w k t)) o). lia.
Qed.

Lemma lmtp_WInv w folder rs p clk : WInv w -> WInv (fst (fst (lmtp_data w folder rs p clk))).
Proof.
  intros I. unfold lmtp_data. destruct (p_ok p); simpl; [|exact I].
  destruct (deliver_all w folder rs p clk 0) as [w' atts] eqn:A. simpl.
  now destruct (deliver_all_spec _ _ _ _ _ _ _ _ I A).
Qed.

Lemma wrun_WInv h : forall w, WInv w -> WInv (wrun h w).
Proof.
  induction h as [|o r IH]; intros w I; simpl; [exact I|]. apply IH.
  destruct o; simpl; [now apply wstep_WInv | now apply lmtp_WInv].
Qed.

Lemma c01_after_every_history_l roles h folder rs p clk :
  classify (wrun h (w0 roles)) folder rs p clk = None ->
  spec_C01 (wrun h (w0 roles)) folder rs p clk.
Proof. apply c01_accept_iff_visible_l. apply wrun_WInv, WInv_w0. Qed.

(** ---- worlds whose stores have C03-clean histories ------------------------------- *)

(** every store is the result of a history of Model/Ops.v operations (deliveries
    are [ODeliver] there) outside C03's finding classes *)
Definition WCleanHist (w : world) : Prop :=
  forall k u, get w k = Some u ->
    exists t1 t2 t3 t4 t5 h, clean (init5 t1 t2 t3 t4 t5) h = true /\ us u = run h (init5 t1 t2 t3 t4 t5).

Lemma WCleanHist_fresh w : WCleanHist w -> WFresh w.
Proof.
  intros H k u G. destruct (H k u G) as (t1 & t2 & t3 & t4 & t5 & h & C & ->).
  apply Inv_fresh. apply (run_good h _ (Inv_init5 t1 t2 t3 t4 t5) (clean_Clean _ _ C)).
Qed.

Lemma c01_no_spurious_refusal_hist_l w folder rs p clk :
  WCleanHist w -> p_ok p = true -> forallb (fun r => deliverable w folder r p) rs = true ->
  Forall (fun c => c = R250) (snd (fst (lmtp_data w folder rs p clk))).
Proof. intros H. apply c01_no_spurious_refusal_l. now apply WCleanHist_fresh. Qed.

(** the store-level part of a delivery IS C03's [op_deliver] whenever the MIME
    parse succeeds (so C03's theorems speak about deliveries of this model) *)
Lemma deliver_store_is_op_deliver u target p t :
  p_shape p <> MultiBroken ->
  us (fst (deliver_store u target p t)) = fst (op_deliver (us u) target t) /\
  snd (deliver_store u target p t) = is_ok (snd (op_deliver (us u) target t)).
Proof.
  intros Hs. assert (exists np, parts_of (p_shape p) = Some np) as (np & Pp).
  { destruct (p_shape p); simpl; eauto. contradiction. }
  unfold deliver_store, op_deliver, store_message. rewrite Pp.
  destruct (find_name (us u) target).
  - match goal with |- context [add_message ?a ?b ?c ?d] => destruct (add_message a b c d) as [s3 [|]] end; simpl; auto.
  - destruct (create_mailbox_row (us u) target t) as [[s' id]|]; simpl; [|auto].
    match goal with |- context [add_message ?a ?b ?c ?d] => destruct (add_message a b c d) as [s3 [|]] end; simpl; auto.
Qed.
