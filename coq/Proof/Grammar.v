(** C13 — lemmas about the response automaton of Spec/Grammar.v: runs inside
    one response line ([inl]), depth shifting, runs that offer no token
    boundary ([nn]), tokens ([tokp]) and the round trip of [tokens] over a
    space-separated sequence of tokens. *)
From Coq Require Import String Ascii List Bool Arith NArith Lia.
From Raven Require Import Base.GoStr Spec.Grammar.
Import ListNotations.

(** run that stays inside the line *)
Fixpoint inl (s : st) (p : str) : option st :=
  match p with
  | [] => Some s
  | c :: p' => let s' := step s c in if badish s' then None else inl s' p'
  end.

(** run inside the line during which no state (before the last byte) is a
    possible token boundary *)
Fixpoint nn (s : st) (p : str) : option st :=
  match p with
  | [] => Some s
  | c :: p' => if neutral s then None
               else let s' := step s c in if badish s' then None else nn s' p'
  end.

Definition started (b : bool) (p : str) : bool := match p with [] => b | _ => true end.

Lemma run_app s p q : run s (p ++ q) = run (run s p) q.
Proof. apply fold_left_app. Qed.

Lemma inl_run p : forall s s', inl s p = Some s' -> run s p = s'.
Proof.
  induction p as [|c p IH]; simpl; intros s s' H; [congruence|].
  destruct (badish (step s c)); [discriminate|]. now apply IH.
Qed.

Lemma inl_app p : forall s s1 q, inl s p = Some s1 -> inl s (p ++ q) = inl s1 q.
Proof.
  induction p as [|c p IH]; simpl; intros s s1 q H; [congruence|].
  destruct (badish (step s c)); [discriminate|]. now apply IH.
Qed.

Lemma nn_app p : forall s s1 q, nn s p = Some s1 -> nn s (p ++ q) = nn s1 q.
Proof.
  induction p as [|c p IH]; simpl; intros s s1 q H; [congruence|].
  destruct (neutral s); [discriminate|].
  destruct (badish (step s c)); [discriminate|]. now apply IH.
Qed.

Lemma nosplit_app p : forall s br b s1 br1 q,
  nosplit s br b p = Some (s1, br1) -> nosplit s br b (p ++ q) = nosplit s1 br1 (started b p) q.
Proof.
  induction p as [|c p IH]; cbn [nosplit app]; intros s br b s1 br1 q H.
  - injection H as <- <-. reflexivity.
  - destruct (boundary s br && b && is_sep c); [discriminate|].
    destruct (badish (step s c)); [discriminate|].
    rewrite (IH _ _ _ _ _ _ H). destruct p; reflexivity.
Qed.

Lemma nn_nosplit p : forall s br b s', nn s p = Some s' -> nosplit s br b p = Some (s', br).
Proof.
  induction p as [|c p IH]; cbn [nn nosplit]; intros s br b s' H; [congruence|].
  unfold boundary, br_step. destruct (neutral s); [discriminate|]. cbn [andb].
  destruct (badish (step s c)); [discriminate|]. now apply IH.
Qed.

Lemma nosplit_inl p : forall s br b s' br', nosplit s br b p = Some (s', br') -> inl s p = Some s'.
Proof.
  induction p as [|c p IH]; cbn [nosplit inl]; intros s br b s' br' H; [congruence|].
  destruct (boundary s br && b && is_sep c); [discriminate|].
  destruct (badish (step s c)); [discriminate|]. now apply IH with (b := true) (br := br_step s br c) (br' := br').
Qed.

(** ---- depth shifting ---- *)

Lemma step_shift m d c k :
  m <> Start -> badish (step (m, d) c) = false ->
  step (m, d + k) c = (fst (step (m, d) c), snd (step (m, d) c) + k).
Proof.
  intros Hm Hb. destruct m; try congruence; cbn [step] in *; unfold step_norm in *;
  repeat (match goal with
          | H : context [if ?b then _ else _] |- _ => destruct b eqn:?
          | |- context [if ?b then _ else _] => destruct b eqn:?
          end);
  try destruct d; cbn in *; try discriminate; try reflexivity.
Qed.

Lemma badish_not_start s : badish s = false -> fst s <> Start.
Proof. destruct s as [[] d]; cbn; congruence. Qed.

Lemma inl_shift p : forall m d m' d' k,
  m <> Start -> inl (m, d) p = Some (m', d') -> inl (m, d + k) p = Some (m', d' + k).
Proof.
  induction p as [|c p IH]; cbn [inl]; intros m d m' d' k Hm H.
  - injection H as <- <-. reflexivity.
  - destruct (badish (step (m, d) c)) eqn:Hb; [discriminate|].
    rewrite (step_shift _ _ _ k Hm Hb).
    destruct (step (m, d) c) as [m1 d1] eqn:E. cbn [fst snd].
    assert (Hb' : badish (m1, d1 + k) = false) by (destruct m1; cbn in *; congruence).
    rewrite Hb'. apply IH; [|exact H]. apply (badish_not_start (m1, d1)). exact Hb.
Qed.

(** below a parenthesis nothing is a token boundary *)
Lemma inl_deep_nn p : forall m d m' d' k,
  m <> Start -> inl (m, d) p = Some (m', d') -> nn (m, d + S k) p = Some (m', d' + S k).
Proof.
  induction p as [|c p IH]; cbn [inl nn]; intros m d m' d' k Hm H.
  - injection H as <- <-. reflexivity.
  - destruct (badish (step (m, d) c)) eqn:Hb; [discriminate|].
    assert (Hn : neutral (m, d + S k) = false).
    { destruct m; cbn; try reflexivity. rewrite Nat.add_succ_r. reflexivity. }
    rewrite Hn. rewrite (step_shift _ _ _ (S k) Hm Hb).
    destruct (step (m, d) c) as [m1 d1] eqn:E. cbn [fst snd].
    assert (Hb' : badish (m1, d1 + S k) = false) by (destruct m1; cbn in *; congruence).
    rewrite Hb'. apply IH; [|exact H]. apply (badish_not_start (m1, d1)). exact Hb.
Qed.

(** ---- balanced pieces and tokens ---- *)

(** a piece that leaves the automaton where it was, at any depth *)
Definition bal (p : str) : Prop := inl (Norm, 0) p = Some (Norm, 0).

Definition tokp (t : str) : Prop := t <> [] /\ nosplit (Norm, 0) 0 false t = Some ((Norm, 0), 0).

Lemma tokb_tokp t : tokb t = true <-> tokp t.
Proof.
  unfold tokb, tokp. destruct t as [|c t].
  - split; [discriminate|intros [H _]; congruence].
  - destruct (nosplit (Norm, 0) 0 false (c :: t)) as [[[m d] br]|].
    + destruct m, d, br; split; intros H; try discriminate; try (split; [discriminate|reflexivity]);
        try reflexivity; destruct H as [_ H]; discriminate.
    + split; [discriminate|intros [_ H]; discriminate].
Qed.

Lemma tokp_bal t : tokp t -> bal t.
Proof. intros [_ H]. exact (nosplit_inl _ _ _ _ _ _ H). Qed.

Lemma bal_at p d : bal p -> inl (Norm, d) p = Some (Norm, d).
Proof. intros H. apply (inl_shift p Norm 0 Norm 0 d); [discriminate|exact H]. Qed.

Lemma bal_nil : bal [].
Proof. reflexivity. Qed.

Lemma bal_app p q : bal p -> bal q -> bal (p ++ q).
Proof. unfold bal. intros Hp Hq. now rewrite (inl_app _ _ _ _ Hp). Qed.

Lemma bal_sp : bal [SP].
Proof. reflexivity. Qed.

Lemma bal_join l : Forall bal l -> bal (join l [SP]).
Proof.
  induction l as [|x l IH]; intros H; [apply bal_nil|].
  inversion H as [|? ? Hx Hl]; subst. destruct l as [|y l]; [exact Hx|].
  change (join (x :: y :: l) [SP]) with (x ++ [SP] ++ join (y :: l) [SP]).
  apply bal_app; [exact Hx|]. apply bal_app; [apply bal_sp|]. now apply IH.
Qed.

(** "(" inner ")" is one token as soon as the inside is balanced *)
Lemma tokp_paren inner : bal inner -> tokp (LP :: inner ++ [RP]).
Proof.
  intros H. split; [discriminate|].
  cbn [nosplit]. change (boundary (Norm, 0) 0 && false && is_sep LP) with false. cbn iota.
  change (step (Norm, 0) LP) with (Norm, 1). cbn [badish fst].
  change (br_step (Norm, 0) 0 LP) with 0.
  pose proof (inl_deep_nn inner Norm 0 Norm 0 0 ltac:(discriminate) H) as Hn.
  cbn [Nat.add] in Hn.
  rewrite (nosplit_app inner (Norm, 1) 0 true (Norm, 1) 0 [RP]); [|now apply nn_nosplit].
  reflexivity.
Qed.

(** bytes that are neither separators nor openers of strings/literals/lists *)
Definition plain_byte (c : ascii) : bool :=
  negb (Ascii.eqb c SP) && negb (Ascii.eqb c DQ) && negb (Ascii.eqb c LP) && negb (Ascii.eqb c RP)
  && negb (Ascii.eqb c LB) && negb (Ascii.eqb c CR) && negb (Ascii.eqb c LF)
  && negb (Ascii.eqb c LSB) && negb (Ascii.eqb c RSB).

Lemma step_plain d c : plain_byte c = true ->
  step (Norm, d) c = (Norm, d) /\ is_sep c = false /\ forall br, br_step (Norm, d) br c = br.
Proof.
  unfold plain_byte, is_sep, br_step. intros H.
  repeat (apply andb_true_iff in H; destruct H as [H ?]).
  repeat match goal with H : negb _ = true |- _ => apply negb_true_iff in H end.
  cbn [step]. unfold step_norm.
  repeat match goal with H : Ascii.eqb c _ = false |- _ => rewrite H; clear H end.
  repeat split; try reflexivity. intros br. destruct (neutral (Norm, d)); reflexivity.
Qed.

Lemma nosplit_plain p : forall d br b, forallb plain_byte p = true ->
  nosplit (Norm, d) br b p = Some ((Norm, d), br).
Proof.
  induction p as [|c p IH]; intros d br b H; [reflexivity|].
  cbn [forallb] in H. apply andb_true_iff in H as [Hc Hp].
  destruct (step_plain d c Hc) as (Hs & Hsep & Hbr).
  cbn [nosplit]. rewrite Hsep, andb_false_r, Hs, Hbr. cbn [badish fst]. now apply IH.
Qed.

Lemma tokp_plain p : p <> [] -> forallb plain_byte p = true -> tokp p.
Proof. intros Hne H. split; [exact Hne|]. now apply nosplit_plain. Qed.

(** ---- take / tokens round trip ---- *)

Lemma take_nosplit t : forall s br b s' br' acc x,
  nosplit s br b t = Some (s', br') -> take s br b acc (t ++ x) = take s' br' (started b t) (rev t ++ acc) x.
Proof.
  induction t as [|c t IH]; cbn [nosplit app]; intros s br b s' br' acc x H.
  - injection H as <- <-. reflexivity.
  - cbn [take]. destruct (boundary s br && b && is_sep c); [discriminate|].
    destruct (badish (step s c)); [discriminate|].
    rewrite (IH _ _ _ _ _ (c :: acc) x H). cbn [rev]. rewrite <- app_assoc. cbn [app started].
    destruct t; reflexivity.
Qed.

Lemma take_tok t c r : tokp t -> is_sep c = true ->
  take (Norm, 0) 0 false [] (t ++ c :: r) = Some (t, c :: r).
Proof.
  intros [Hne H] Hc. rewrite (take_nosplit _ _ _ _ _ _ [] (c :: r) H).
  destruct t as [|a t]; [congruence|]. cbn [started take].
  change (boundary (Norm, 0) 0) with true. rewrite Hc. cbn [andb].
  rewrite app_nil_r, rev_involutive. reflexivity.
Qed.

Lemma take_tok_end t : tokp t -> take (Norm, 0) 0 false [] t = Some (t, []).
Proof.
  intros [Hne H]. rewrite <- (app_nil_r t) at 1. rewrite (take_nosplit _ _ _ _ _ _ [] [] H).
  destruct t as [|a t]; [congruence|]. cbn [started take].
  change (boundary (Norm, 0) 0) with true. cbn [andb].
  rewrite app_nil_r, rev_involutive. reflexivity.
Qed.

Lemma tokens_join ts : forall fuel rest,
  Forall tokp ts -> ts <> [] -> (rest = [] \/ exists r, rest = RP :: r) ->
  length ts <= fuel ->
  tokens fuel (join ts [SP] ++ rest) = Some (ts, rest).
Proof.
  induction ts as [|t ts IH]; intros fuel rest Hall Hne Hrest Hfuel; [congruence|].
  inversion Hall as [|? ? Ht Hts]; subst.
  destruct fuel as [|fuel]; [cbn in Hfuel; lia|].
  destruct ts as [|u ts].
  - cbn [join tokens]. destruct Hrest as [->|[r ->]].
    + rewrite app_nil_r, (take_tok_end _ Ht). reflexivity.
    + rewrite (take_tok _ RP r Ht eq_refl). reflexivity.
  - change (join (t :: u :: ts) [SP]) with (t ++ [SP] ++ join (u :: ts) [SP]).
    rewrite <- app_assoc. cbn [tokens app].
    rewrite (take_tok _ SP _ Ht eq_refl).
    change (Ascii.eqb SP SP) with true. cbn iota.
    rewrite (IH fuel rest Hts ltac:(discriminate) Hrest ltac:(cbn in *; lia)). reflexivity.
Qed.

Fixpoint flat_pairs (l : list (str * str)) : list str :=
  match l with [] => [] | (n, v) :: r => n :: v :: flat_pairs r end.

Lemma pair_up_flat l : pair_up (flat_pairs l) = Some l.
Proof. induction l as [|[n v] l IH]; [reflexivity|]. cbn. now rewrite IH. Qed.

Lemma flat_pairs_length l : length (flat_pairs l) = 2 * length l.
Proof. induction l as [|[n v] l IH]; cbn; lia. Qed.
