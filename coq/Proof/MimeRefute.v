(** C02 — witnesses: inputs of each finding class on which the faithful model
    (sha256 instantiated by the identity) violates the property, and examples
    showing that the hypotheses of the positive theorems are satisfiable. *)
From Coq Require Import String Ascii List Bool Arith NArith ZArith.
From Raven Require Import Base.GoStr Base.GoStrMime Spec.Mime Model.MimeHeaders Model.MimeStore
  Model.MimeBoundary Spec.MimeCheck.
Import ListNotations.

Definition H0 : list header := [(S_ "From", S_ " a@x.org"); (S_ "To", S_ " b@y.org"); (S_ "Subject", S_ " witness")].
Definition txt : mime := Leaf (mk_leaf (S_ "text/plain") (S_ "utf-8") [] [] [] [] [] (S_ "see attachment")).
Definition att64 : mime :=
  Leaf (mk_leaf (S_ "application/octet-stream") [] [] (S_ "base64") (S_ "attachment; filename=""f.bin""") (S_ "f.bin") []
                (S_ "cGxhaW4gd29yZHMgb25seQ==")).
Definition attraw : mime :=
  Leaf (mk_leaf (S_ "application/octet-stream") [] [] (S_ "binary") (S_ "attachment; filename=""g.bin""") (S_ "g.bin") []
                (S_ "plain words only")).
Definition m_first : msg := mk_msg H0 (Multipart (S_ "mixed") [txt; att64]).
Definition m_second : msg := mk_msg H0 (Multipart (S_ "mixed") [txt; attraw]).
Definition bs_after_first : blobs := fst (store hid [] m_first).

Lemma refuted_dedup :
  classify hid bs_after_first m_second = Some DedupForeignForm
  /\ spec_ok m_second (roundtrip hid bs_after_first m_second []) = false
  /\ spec_ok m_second (roundtrip hid [] m_second []) = true.
Proof. vm_compute. repeat split; reflexivity. Qed.

Lemma refuted_independence :
  omsg_eqb (roundtrip hid bs_after_first m_second []) (roundtrip hid [] m_second []) = false.
Proof. vm_compute. reflexivity. Qed.

Definition m_nob : msg :=
  mk_msg (H0 ++ [(S_ "Content-Type", S_ " multipart/mixed")]) (Single (S_ "body text" ++ crlf)).
Lemma refuted_no_boundary :
  classify hid [] m_nob = Some NoBoundary /\ roundtrip hid [] m_nob [] = None.
Proof. vm_compute. split; reflexivity. Qed.

Definition m_nob_nested : msg :=
  mk_msg H0 (Multipart (S_ "mixed") [txt; Leaf (mk_leaf (S_ "multipart/alternative") [] [] [] [] [] [] (S_ "opaque content"))]).
Lemma refuted_no_boundary_nested :
  classify hid [] m_nob_nested = Some NoBoundary /\ spec_ok m_nob_nested (roundtrip hid [] m_nob_nested []) = false.
Proof. vm_compute. split; reflexivity. Qed.

Definition m_fold : msg :=
  mk_msg [(S_ "From", S_ " a@x.org"); (S_ "Subject", S_ " hi  " ++ crlf ++ S_ " there")] (Single (S_ "x" ++ crlf)).
Lemma refuted_fold_ws :
  classify hid [] m_fold = Some FoldWs /\ spec_ok m_fold (roundtrip hid [] m_fold []) = false.
Proof. vm_compute. split; reflexivity. Qed.

Definition m_dupcte : msg :=
  mk_msg (H0 ++ [(S_ "Content-Transfer-Encoding", S_ " 8bit")]) (Single (S_ "text" ++ crlf)).
Lemma refuted_dup_cte :
  classify hid [] m_dupcte = Some DupCte /\ spec_ok m_dupcte (roundtrip hid [] m_dupcte []) = false.
Proof. vm_compute. split; reflexivity. Qed.

Definition m_ctname : msg :=
  mk_msg H0 (Multipart (S_ "mixed")
    [txt; Leaf (mk_leaf (S_ "application/pdf") [] (S_ "report.pdf") (S_ "base64") [] [] [] (S_ "JVBERi0xLjQgeA=="))]).
Lemma refuted_ct_name :
  classify hid [] m_ctname = Some CtNameDropped /\ spec_ok m_ctname (roundtrip hid [] m_ctname []) = false.
Proof. vm_compute. split; reflexivity. Qed.

(** two fetches read two clock values *)
Lemma refuted_unstable_boundary :
  str_eqb (container_ct_line (S_ "multipart/mixed") 1790887695926728677)
          (container_ct_line (S_ "multipart/mixed") 1790887696187990678) = false
  /\ gen_boundary (S_ "multipart/mixed") 1790887695926728677 = S_ "----=_Part_Mixed_1790887695926728677".
Proof. vm_compute. split; reflexivity. Qed.

(** a depth-4 message with base64, quoted-printable, raw and attachment leaves
    round-trips in the model (tree shape, relative numbering, rebuild) *)
Definition m_deep : msg :=
  mk_msg (H0 ++ [(S_ "MIME-Version", S_ " 1.0")])
    (Multipart (S_ "Mixed")
       [ Multi (S_ "alternative")
           [ txt;
             Multi (S_ "related")
               [ Leaf (mk_leaf (S_ "text/html") (S_ "utf-8") [] (S_ "quoted-printable") [] [] [] (S_ "<p>caf=C3=A9=" ++ crlf ++ S_ "</p>"));
                 Multi (S_ "mixed") [ Leaf (mk_leaf (S_ "image/png") [] [] (S_ "base64") (S_ "inline") [] (S_ "<i1@x>") (S_ "iVBORw0KGgo=")) ] ] ];
         att64;
         Leaf (mk_leaf [] [] [] [] [] [] [] (S_ "default typed part" ++ crlf)) ]).
Lemma deep_roundtrip :
  classify hid [] m_deep = None /\ spec_ok m_deep (roundtrip hid [] m_deep []) = true.
Proof. vm_compute. split; reflexivity. Qed.

Definition m_plain : msg := mk_msg H0 (Single (S_ ".dot" ++ crlf ++ S_ "body" ++ bs [0; 233] ++ S_ " no newline")).
Lemma plain_classify_none : classify hid bs_after_first m_plain = None /\ H0 <> [].
Proof. split; [vm_compute; reflexivity | discriminate]. Qed.
