(** C01 — store-level lemmas about [deliver_store]: what one delivery attempt
    does to the links and the message table of the target's store. *)
From Coq Require Import String Ascii List Bool ZArith Lia.
From Raven Require Import Base.GoStr Model.Store Model.Ops Model.Deliver Spec.DeliverSpec
  Proof.StoreInv.
Import ListNotations.
Local Open Scope Z_scope.

Lemma find_id_exists s m : In m (mboxes s) -> exists m0, find_id s (mb_id m) = Some m0 /\ In m0 (mboxes s) /\ mb_id m0 = mb_id m.
Proof.
  intros H. unfold find_id. destruct (find (fun m' => mb_id m' =? mb_id m) (mboxes s)) as [m0|] eqn:F.
  - apply find_some in F. destruct F as [F1 F2]. apply Z.eqb_eq in F2. eauto.
  - exfalso. pose proof (find_none _ _ F m H) as X. simpl in X. rewrite Z.eqb_refl in X. discriminate.
Qed.

Lemma find_name_bump s mb n :
  find_name (bump s mb) n = option_map (bump_row mb) (find_name s n).
Proof.
  unfold find_name, bump. simpl. induction (mboxes s) as [|x l IH]; simpl; [reflexivity|].
  rewrite bump_row_name. destruct (str_eqb (mb_name x) n); [reflexivity | exact IH].
Qed.

Lemma msg_of_new msgs x :
  (forall r, In r msgs -> m_id r < m_id x) ->
  find (fun r => m_id r =? m_id x) (msgs ++ [x]) = Some x.
Proof.
  induction msgs as [|y l IH]; intros B; simpl.
  - now rewrite Z.eqb_refl.
  - destruct (m_id y =? m_id x) eqn:E.
    + apply Z.eqb_eq in E. pose proof (B y (or_introl eq_refl)). lia.
    + apply IH. intros r Hr. apply B. now right.
Qed.

Lemma stored_rec_id id p np : m_id (stored_rec id p np) = id.
Proof. reflexivity. Qed.
Lemma stored_rec_intact id p np :
  m_hdrs (stored_rec id p np) = p_hdrs p /\ m_parts (stored_rec id p np) = np /\ m_lost (stored_rec id p np) = 0%nat.
Proof. unfold stored_rec, stored_rec_gen, store_part. destruct (negb (p_blob_fail p)); auto. Qed.

(** the tail of DeliverMessage once the mailbox row [m] (name [target]) is known *)
Definition tail (s1 : store) (msgs : list msgrec) (id : Z) (p : parsed) (np : nat) : ustore * bool :=
  let '(s2, msg) := store_message s1 in
  let msgs' := msgs ++ [stored_rec msg p np] in
  let '(s3, ok) := add_message s2 msg id [] in
  (mkU s3 msgs', ok).

Lemma tail_spec s1 msgs target m p np u' ok :
  find_name s1 target = Some m ->
  (forall r, In r msgs -> m_id r < next_msg s1) ->
  tail s1 msgs (mb_id m) p np = (u', ok) ->
  msgs_below u' /\
  (ok = false -> links (us u') = links s1) /\
  (ok = true -> exists m' l,
      links (us u') = links s1 ++ [l] /\ find_name (us u') target = Some m' /\ lk_mbox l = mb_id m' /\
      msg_of u' (lk_msg l) = Some (stored_rec (lk_msg l) p np)).
Proof.
  intros Fn B. unfold tail, store_message.
  set (s2 := mkStore (mboxes s1) (links s1) (next_msg s1 + 1) (glog s1) (gused s1) (gser s1)).
  pose proof (find_name_some _ _ _ Fn) as [Hm _].
  destruct (find_id_exists s2 m Hm) as (m0 & F0 & _ & E0).
  unfold add_message. rewrite F0. unfold insert_link.
  destruct (existsb (at_uid (mb_id m) (mb_next m0)) (links (bump s2 (mb_id m)))) eqn:Ex.
  - intros [= <- <-]. simpl. split; [|split; [reflexivity | discriminate]].
    intros r Hr. simpl. apply in_app_or in Hr. destruct Hr as [Hr|[<-|[]]]; simpl; [pose proof (B r Hr)|]; lia.
  - intros [= <- <-]. simpl. split; [|split; [discriminate|]].
    + intros r Hr. simpl. apply in_app_or in Hr. destruct Hr as [Hr|[<-|[]]]; simpl; [pose proof (B r Hr)|]; lia.
    + intros _. eexists (bump_row (mb_id m) m), _. split; [reflexivity|]. split; [|split].
      * change (find_name (bump s2 (mb_id m)) target = Some (bump_row (mb_id m) m)).
        rewrite find_name_bump. change (find_name s2 target) with (find_name s1 target). rewrite Fn. reflexivity.
      * simpl. now rewrite bump_row_id.
      * unfold msg_of. simpl.
        apply (msg_of_new msgs (stored_rec (next_msg s1) p np)). exact B.
Qed.

Lemma find_name_created s n t s' id :
  create_mailbox_row s n t = Some (s', id) -> find_name s' n = Some (mkMbox id n (next_validity s t) 1).
Proof.
  intros C. destruct (create_row_shape _ _ _ _ _ C) as (Fn & _ & ->).
  unfold find_name in *. simpl. clear C. revert Fn. induction (mboxes s) as [|x l IH]; simpl.
  - intros _. now rewrite str_eqb_refl.
  - destruct (str_eqb (mb_name x) n); [discriminate | exact IH].
Qed.

Lemma deliver_store_eq u target p t :
  deliver_store u target p t =
  match (match find_name (us u) target with
         | Some m => Some (us u, m)
         | None => match create_mailbox_row (us u) target t with
                   | Some (s', id) => Some (s', mkMbox id target (next_validity (us u) t) 1)
                   | None => None
                   end
         end) with
  | None => (u, false)
  | Some (s1, m) =>
    match parts_of (p_shape p) with
    | None => (mkU s1 (umsgs u), false)
    | Some np => tail s1 (umsgs u) (mb_id m) p np
    end
  end.
Proof.
  unfold deliver_store, tail. destruct (find_name (us u) target) as [m|].
  - reflexivity.
  - destruct (create_mailbox_row (us u) target t) as [[s' id]|]; [reflexivity|]. destruct u; reflexivity.
Qed.

(** one attempt inside the target's store *)
Lemma deliver_store_spec u target p t u' ok :
  msgs_below u -> deliver_store u target p t = (u', ok) ->
  msgs_below u' /\
  (ok = false -> links (us u') = links (us u)) /\
  (ok = true -> exists m' l np,
      links (us u') = links (us u) ++ [l] /\ find_name (us u') target = Some m' /\ lk_mbox l = mb_id m' /\
      parts_of (p_shape p) = Some np /\
      msg_of u' (lk_msg l) = Some (stored_rec (lk_msg l) p np)).
Proof.
  intros B. rewrite deliver_store_eq.
  destruct (find_name (us u) target) as [m|] eqn:Fn.
  - destruct (parts_of (p_shape p)) as [np|] eqn:Pp.
    + intros T. destruct (tail_spec _ _ _ _ _ _ _ _ Fn B T) as (B' & Hf & Ht).
      split; [exact B'|]. split; [exact Hf|]. intros E. destruct (Ht E) as (m' & l & H1 & H2 & H3 & H4).
      exists m', l, np. auto.
    + intros [= <- <-]. simpl. split; [exact B|]. split; [reflexivity | discriminate].
  - destruct (create_mailbox_row (us u) target t) as [[s' id]|] eqn:Cr.
    + pose proof (find_name_created _ _ _ _ _ Cr) as Fn'.
      destruct (create_row_shape _ _ _ _ _ Cr) as (_ & _ & Es').
      assert (El : links s' = links (us u)) by (rewrite Es'; reflexivity).
      assert (En : next_msg s' = next_msg (us u)) by (rewrite Es'; reflexivity).
      destruct (parts_of (p_shape p)) as [np|] eqn:Pp.
      * intros T. assert (B1 : forall r, In r (umsgs u) -> m_id r < next_msg s') by (rewrite En; exact B).
        change id with (mb_id (mkMbox id target (next_validity (us u) t) 1)) in T.
        destruct (tail_spec _ _ _ _ _ _ _ _ Fn' B1 T) as (B' & Hf & Ht).
        split; [exact B'|]. split; [rewrite <- El; exact Hf|]. intros E.
        destruct (Ht E) as (m' & l & H1 & H2 & H3 & H4). exists m', l, np. rewrite <- El. auto.
      * intros [= <- <-]. simpl. split; [intros r Hr; simpl; rewrite En; now apply B|].
        split; [intros _; exact El | discriminate].
    + intros [= <- <-]. split; [exact B|]. split; [reflexivity | discriminate].
Qed.

(** ---- an acceptable delivery into a fresh store succeeds -------------------------- *)

Lemma tail_fresh_ok s1 msgs m p np :
  fresh_store s1 -> In m (mboxes s1) ->
  exists u', tail s1 msgs (mb_id m) p np = (u', true) /\ fresh_store (us u').
Proof.
  intros (Nd & Home & Below) Hm. unfold tail, store_message.
  set (s2 := mkStore (mboxes s1) (links s1) (next_msg s1 + 1) (glog s1) (gused s1) (gser s1)).
  destruct (find_id_exists s2 m Hm) as (m0 & F0 & H0 & E0).
  assert (m0 = m) by (apply (NoDup_map_inj mb_id (mboxes s1)); auto). subst m0.
  unfold add_message. rewrite F0. unfold insert_link.
  assert (Ex : existsb (at_uid (mb_id m) (mb_next m)) (links (bump s2 (mb_id m))) = false).
  { apply existsb_at_uid_false. simpl. intros l Hl El Eu. pose proof (Below m l Hm Hl El). lia. }
  rewrite Ex. eexists. split; [reflexivity|]. simpl. repeat split; simpl.
  - rewrite map_map. erewrite map_ext; [exact Nd|]. intros; apply bump_row_id.
  - intros l Hl. apply in_app_or in Hl. destruct Hl as [Hl|[<-|[]]].
    + destruct (Home l Hl) as (mm & Hmm & Emm). exists (bump_row (mb_id m) mm). split; [now apply in_map | now rewrite bump_row_id].
    + exists (bump_row (mb_id m) m). split; [now apply in_map | now rewrite bump_row_id].
  - intros mm l Hmm Hl El. apply in_map_iff in Hmm. destruct Hmm as (m1 & <- & H1).
    rewrite bump_row_id in El. rewrite bump_row_next.
    apply in_app_or in Hl. destruct Hl as [Hl|[<-|[]]].
    + pose proof (Below m1 l H1 Hl El). destruct (mb_id m1 =? mb_id m); lia.
    + simpl in *. assert (m1 = m) by (apply (NoDup_map_inj mb_id (mboxes s1)); auto). subst m1.
      rewrite Z.eqb_refl. lia.
Qed.

Lemma fresh_created s n t s' id :
  fresh_store s -> create_mailbox_row s n t = Some (s', id) ->
  fresh_store s' /\ In (mkMbox id n (next_validity s t) 1) (mboxes s').
Proof.
  intros (Nd & Home & Below) C. destruct (create_row_shape _ _ _ _ _ C) as (_ & Eid & ->). simpl.
  assert (Hfr : forall m, In m (mboxes s) -> mb_id m < id).
  { intros m Hm. rewrite Eid. apply fresh_id_gt. now apply in_map. }
  split; [|apply in_or_app; right; now left]. repeat split; simpl.
  - rewrite map_app. simpl. apply NoDup_app_one; [exact Nd|].
    intros X. apply in_map_iff in X. destruct X as (m & Em & Hm). pose proof (Hfr m Hm). lia.
  - intros l Hl. destruct (Home l Hl) as (m & Hm & Em). exists m. split; [apply in_or_app; now left | exact Em].
  - intros m l Hm Hl El. apply in_app_or in Hm. destruct Hm as [Hm|[<-|[]]]; [now apply (Below m l)|].
    simpl in *. destruct (Home l Hl) as (m & Hm & Em). pose proof (Hfr m Hm). lia.
Qed.

Lemma deliver_store_fresh_ok u target p t :
  fresh_store (us u) -> target <> [] -> p_shape p <> MultiBroken ->
  exists u', deliver_store u target p t = (u', true) /\ fresh_store (us u').
Proof.
  intros F Ht Hs. rewrite deliver_store_eq.
  assert (exists np, parts_of (p_shape p) = Some np) as (np & Pp).
  { destruct (p_shape p); simpl; eauto. contradiction. }
  rewrite Pp. destruct (find_name (us u) target) as [m|] eqn:Fn.
  - apply find_name_some in Fn. destruct Fn as [Hm _]. now apply tail_fresh_ok.
  - destruct (create_mailbox_row (us u) target t) as [[s' id]|] eqn:Cr.
    + destruct (fresh_created _ _ _ _ _ F Cr) as (F' & Hin).
      change id with (mb_id (mkMbox id target (next_validity (us u) t) 1)). now apply tail_fresh_ok.
    + exfalso. unfold create_mailbox_row in Cr. destruct target; [contradiction|]. rewrite Fn in Cr. discriminate.
Qed.

(** the initial store (five creations from the empty store; it does not reduce
    for symbolic clock readings, so its properties are derived, not computed) *)
Lemma create_or_same_links s n t : links (create_or_same s n t) = links s.
Proof.
  unfold create_or_same. destruct (create_mailbox_row s n t) as [[s' id]|] eqn:C; [|reflexivity].
  destruct (create_row_shape _ _ _ _ _ C) as (_ & _ & ->). reflexivity.
Qed.

Lemma create_or_same_fresh s n t : fresh_store s -> fresh_store (create_or_same s n t).
Proof.
  intros F. unfold create_or_same. destruct (create_mailbox_row s n t) as [[s' id]|] eqn:C; [|exact F].
  now destruct (fresh_created _ _ _ _ _ F C).
Qed.

Lemma init5_links t1 t2 t3 t4 t5 : links (init5 t1 t2 t3 t4 t5) = [].
Proof. unfold init5. now rewrite !create_or_same_links. Qed.

Lemma fresh_init5 t1 t2 t3 t4 t5 : fresh_store (init5 t1 t2 t3 t4 t5).
Proof.
  unfold init5. repeat apply create_or_same_fresh. repeat split; simpl.
  - constructor.
  - intros l [].
  - intros m l [].
Qed.

Lemma Inv_fresh s : Inv s -> fresh_store s.
Proof.
  intros I. repeat split.
  - apply (inv_ids s I).
  - apply (inv_home s I).
  - intros m l Hm Hl E. now apply (Inv_uid_below s m l I).
Qed.

(** ---- the blob-table write fails: the part stays inline ------------------------- *)

Lemma stored_rec_places id p np :
  m_lost (stored_rec id p np) = 0%nat /\
  m_blob (stored_rec id p np) = if p_blob_fail p then 0%nat else p_big p.
Proof. unfold stored_rec, stored_rec_gen, store_part. destruct (p_blob_fail p); auto. Qed.

(** clearing the inline copy before knowing that the blob row exists loses the octets *)
Lemma clear_first_loses id p np :
  p_blob_fail p = true ->
  m_lost (stored_rec_gen true id p np) = p_big p /\ m_blob (stored_rec_gen true id p np) = 0%nat.
Proof. intros E. unfold stored_rec_gen, store_part. rewrite E. auto. Qed.
