(** C16 — the DATA reader (model of parser.ReadDataCommand) undoes dot-stuffing
    exactly, stops exactly at the terminator, and enforces the size limit. *)
From Coq Require Import String Ascii List Bool ZArith Lia.
From Raven Require Import Base.GoStr Model.Lmtp Spec.LmtpDialog.
Import ListNotations.
Local Open Scope Z_scope.

Lemma len_app a b : len (a ++ b) = len a + len b.
Proof. unfold len. rewrite app_length. lia. Qed.

Lemma len_nonneg a : 0 <= len a.
Proof. unfold len. lia. Qed.

Lemma len_nil : len [] = 0.
Proof. reflexivity. Qed.

(** a stuffed line is never a terminator *)
Lemma stuff_line_not_term l : is_term (stuff_line l) = false.
Proof.
  unfold stuff_line. destruct l as [|c l]; [reflexivity|].
  cbn [has_prefix S_ list_ascii_of_string].
  destruct (Ascii.eqb_spec "."%char c) as [<-|N].
  - cbn. reflexivity.
  - cbn [andb]. unfold is_term, dot_crlf, dot_lf.
    cbn [S_ list_ascii_of_string app str_eqb].
    destruct (Ascii.eqb_spec c "."%char) as [->|_]; [congruence|]. reflexivity.
Qed.

(** un-stuffing a stuffed line gives the line back *)
Lemma unstuff_stuff_line l :
  (if has_prefix (stuff_line l) (S_ "..") then tl (stuff_line l) else stuff_line l) = l.
Proof.
  unfold stuff_line. destruct l as [|c l]; [reflexivity|].
  cbn [has_prefix S_ list_ascii_of_string].
  destruct (Ascii.eqb_spec "."%char c) as [<-|N].
  - cbn. reflexivity.
  - cbn [andb]. cbn [has_prefix].
    destruct (Ascii.eqb_spec "."%char c) as [E|_]; [congruence|]. reflexivity.
Qed.

Lemma data_line_stuff max buf size l :
  size + len l <= max ->
  data_line max buf size (stuff_line l) = DMore (buf ++ l) (size + len l).
Proof.
  intros H. unfold data_line.
  pose proof (stuff_line_not_term l) as T. unfold is_term in T. rewrite T.
  rewrite unstuff_stuff_line.
  destruct (Z.gtb_spec (size + len l) max); [lia|reflexivity].
Qed.

Lemma data_line_stuff_big max buf size l :
  size + len l > max ->
  data_line max buf size (stuff_line l) = DTooBig.
Proof.
  intros H. unfold data_line.
  pose proof (stuff_line_not_term l) as T. unfold is_term in T. rewrite T.
  rewrite unstuff_stuff_line.
  destruct (Z.gtb_spec (size + len l) max); [reflexivity|lia].
Qed.

Lemma data_line_term max buf size t : is_term t = true -> data_line max buf size t = DEnd.
Proof. intros H. unfold data_line. unfold is_term in H. now rewrite H. Qed.

(** transparency, line level: whatever the body (any octets, lines of dots,
    lines that look like commands), reading the stuffed body followed by a
    terminator yields the body and leaves exactly what follows the terminator *)
Lemma read_data_stuff max b : forall buf size term rest,
  is_term term = true ->
  size + len (concat b) <= max ->
  read_data_lines max buf size (stuff b ++ term :: rest) = (DOk (buf ++ concat b), rest).
Proof.
  induction b as [|l b IH]; intros buf size term rest T H.
  - cbn. rewrite (data_line_term _ _ _ _ T). now rewrite app_nil_r.
  - cbn [stuff map app read_data_lines concat] in *. rewrite len_app in H.
    pose proof (len_nonneg (concat b)).
    rewrite data_line_stuff by lia.
    fold (stuff b). rewrite IH; auto; [|lia]. now rewrite app_assoc.
Qed.

(** the size limit: a body larger than the limit is refused ... *)
Lemma read_data_oversize max b : forall buf size term rest,
  size <= max ->
  size + len (concat b) > max ->
  fst (read_data_lines max buf size (stuff b ++ term :: rest)) = DErrSize.
Proof.
  induction b as [|l b IH]; intros buf size term rest Hs H.
  - cbn in H. lia.
  - cbn [stuff map app read_data_lines concat] in *. rewrite len_app in H.
    destruct (Z_le_gt_dec (size + len l) max) as [Hle|Hgt].
    + rewrite data_line_stuff by lia. fold (stuff b). apply IH; lia.
    + rewrite data_line_stuff_big by lia. reflexivity.
Qed.

(** ... and whatever is returned is within the limit, for every stream *)
Lemma read_data_within max ls : forall buf size d rest,
  size = len buf -> size <= max ->
  read_data_lines max buf size ls = (DOk d, rest) -> len d <= max.
Proof.
  induction ls as [|l ls IH]; intros buf size d rest E Hs R; cbn in R; [discriminate|].
  unfold data_line in R.
  destruct (str_eqb l dot_crlf || str_eqb l dot_lf).
  - injection R as <- _. lia.
  - set (l' := if has_prefix l (S_ "..") then tl l else l) in *.
    destruct (Z.gtb_spec (size + len l') max); [discriminate|].
    eapply IH; [| |exact R]; [rewrite len_app; lia | lia].
Qed.

(** ---- byte level ---- *)

Lemma split_aux_line p : forall s cur,
  ~ In LF p ->
  split_lines_aux (p ++ LF :: s) cur =
  (let '(ls, t) := split_lines_aux s [] in ((rev cur ++ p ++ [LF]) :: ls, t)).
Proof.
  induction p as [|c p IH]; intros s cur N.
  - cbn [app split_lines_aux]. rewrite Ascii.eqb_refl. destruct (split_lines_aux s []). reflexivity.
  - cbn [app split_lines_aux].
    destruct (Ascii.eqb_spec c LF) as [->|Hc]; [exfalso; apply N; now left|].
    rewrite IH by (intros X; apply N; now right).
    destruct (split_lines_aux s []). cbn [rev]. now rewrite <- app_assoc.
Qed.

Lemma split_lines_lines ls : forall s,
  Forall is_line ls ->
  split_lines (concat ls ++ s) = (let '(l2, t) := split_lines s in (ls ++ l2, t)).
Proof.
  induction ls as [|l ls IH]; intros s F.
  - cbn [concat app]. destruct (split_lines s); reflexivity.
  - inversion F as [|? ? [p [-> N]] F']; subst.
    cbn [concat]. unfold split_lines in *. rewrite <- !app_assoc. cbn [app].
    rewrite split_aux_line by exact N.
    rewrite IH by exact F'. destruct (split_lines_aux s []). reflexivity.
Qed.

Lemma split_aux_sound s : forall cur,
  (let '(ls, t) := split_lines_aux s cur in concat ls ++ t) = rev cur ++ s.
Proof.
  induction s as [|c s IH]; intros cur.
  - cbn. now rewrite app_nil_r.
  - cbn [split_lines_aux]. destruct (Ascii.eqb_spec c LF) as [->|Hc].
    + specialize (IH []). destruct (split_lines_aux s []) as [ls t].
      cbn [concat rev] in *. rewrite <- !app_assoc. cbn [app]. now rewrite IH.
    + rewrite IH. cbn [rev]. now rewrite <- app_assoc.
Qed.

Lemma split_lines_sound s : (let '(ls, t) := split_lines s in concat ls ++ t) = s.
Proof. exact (split_aux_sound s []). Qed.

Lemma stuff_line_is_line l : is_line l -> is_line (stuff_line l).
Proof.
  intros [p [-> N]]. unfold stuff_line. destruct (has_prefix _ _); [|now exists p].
  exists ("."%char :: p). split; [reflexivity|].
  intros [E|I]; [|tauto]. revert E. unfold LF. vm_compute. discriminate.
Qed.

Lemma is_line_b_spec l : is_line_b l = true -> is_line l.
Proof.
  induction l as [|c l IH]; [discriminate|]. destruct l as [|d l].
  - cbn. intros E. apply Ascii.eqb_eq in E. subst. exists []. split; [reflexivity|tauto].
  - cbn [is_line_b]. rewrite andb_true_iff, negb_true_iff. intros [Hc Hl].
    destruct (IH Hl) as [p [E N]]. exists (c :: p). split; [cbn; now rewrite E|].
    intros [X|X]; [|tauto]. subst. now rewrite Ascii.eqb_refl in Hc.
Qed.

Lemma term_is_line t : is_term t = true -> is_line t.
Proof.
  unfold is_term. rewrite orb_true_iff, !str_eqb_eq. intros [->| ->]; apply is_line_b_spec; reflexivity.
Qed.

(** transparency, byte level: the bytes after the terminator are exactly what
    is left in the reader *)
Lemma read_data_cmd_stuff max b term rest :
  Forall is_line b -> is_term term = true ->
  len (concat b) <= max ->
  read_data_cmd (concat (stuff b) ++ term ++ rest) max = (DOk (concat b), rest).
Proof.
  intros F T H. unfold read_data_cmd.
  assert (FS : Forall is_line (stuff b ++ [term])).
  { apply Forall_app. split.
    - unfold stuff. apply Forall_forall. intros x Hx. apply in_map_iff in Hx as [y [<- Hy]].
      apply stuff_line_is_line. rewrite Forall_forall in F. now apply F.
    - constructor; [now apply term_is_line|constructor]. }
  replace (concat (stuff b) ++ term ++ rest) with (concat (stuff b ++ [term]) ++ rest)
    by (rewrite concat_app; cbn; now rewrite app_nil_r, app_assoc).
  rewrite split_lines_lines by exact FS.
  pose proof (split_lines_sound rest) as S. destruct (split_lines rest) as [lr tr].
  rewrite <- app_assoc. cbn [app].
  rewrite read_data_stuff by (auto; lia). cbn. now rewrite S.
Qed.
