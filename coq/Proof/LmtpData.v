(** C16 — the DATA reader (model of parser.ReadDataCommand) undoes dot-stuffing
    exactly, stops exactly at the terminator, and enforces the size limit. *)
From Coq Require Import String Ascii List Bool ZArith Lia.
From Raven Require Import Base.GoStr Model.Lmtp Spec.LmtpDialog.
Import ListNotations.
Local Open Scope Z_scope.

Lemma len_app a b : len (a ++ b) = len a + len b.
Proof. unfold len. rewrite app_length. lia. Qed.

Lemma len_nonneg a : 0 <= len a.
Proof. unfold len. lia. Qed.

Lemma len_nil : len [] = 0.
Proof. reflexivity. Qed.

(** a stuffed line is never a terminator *)
Lemma stuff_line_not_term l : is_term (stuff_line l) = false.
Proof.
  unfold stuff_line. destruct l as [|c l]; [reflexivity|].
  cbn [has_prefix S_ list_ascii_of_string].
  destruct (Ascii.eqb_spec "."%char c) as [<-|N].
  - cbn. reflexivity.
  - cbn [andb]. unfold is_term, dot_crlf, dot_lf.
    cbn [S_ list_ascii_of_string app str_eqb].
    destruct (Ascii.eqb_spec c "."%char) as [->|_]; [congruence|]. reflexivity.
Qed.

(** un-stuffing a stuffed line gives the line back *)
Lemma unstuff_stuff_line l :
  (if has_prefix (stuff_line l) (S_ "..") then tl (stuff_line l) else stuff_line l) = l.
Proof.
  unfold stuff_line. destruct l as [|c l]; [reflexivity|].
  cbn [has_prefix S_ list_ascii_of_string].
  destruct (Ascii.eqb_spec "."%char c) as [<-|N].
  - cbn. reflexivity.
  - cbn [andb]. cbn [has_prefix].
    destruct (Ascii.eqb_spec "."%char c) as [E|_]; [congruence|]. reflexivity.
Qed.

Lemma data_line_stuff max d l :
  d_big d = false -> d_size d + len l <= max ->
  data_line max d (stuff_line l) =
  DMore {| d_buf := d_buf d ++ l; d_size := d_size d + len l; d_big := false |}.
Proof.
  intros B H. unfold data_line.
  pose proof (stuff_line_not_term l) as T. unfold is_term in T. rewrite T, B.
  rewrite unstuff_stuff_line.
  destruct (Z.gtb_spec (d_size d + len l) max); [lia|reflexivity].
Qed.

Lemma data_line_stuff_big max d l :
  d_big d = false -> d_size d + len l > max ->
  data_line max d (stuff_line l) =
  DMore {| d_buf := []; d_size := d_size d + len l; d_big := true |}.
Proof.
  intros B H. unfold data_line.
  pose proof (stuff_line_not_term l) as T. unfold is_term in T. rewrite T, B.
  rewrite unstuff_stuff_line.
  destruct (Z.gtb_spec (d_size d + len l) max); [reflexivity|lia].
Qed.

(** once over the limit, body lines are read and dropped *)
Lemma data_line_stuff_skip max d l :
  d_big d = true -> data_line max d (stuff_line l) = DMore d.
Proof.
  intros B. unfold data_line.
  pose proof (stuff_line_not_term l) as T. unfold is_term in T. now rewrite T, B.
Qed.

Lemma data_line_term max d t : is_term t = true -> data_line max d t = DEnd.
Proof. intros H. unfold data_line. unfold is_term in H. now rewrite H. Qed.

(** the loop state after the stuffed lines of a body *)
Fixpoint absorb (max : Z) (d : dstate) (b : list str) : dstate :=
  match b with
  | [] => d
  | l :: b' => match data_line max d (stuff_line l) with
               | DMore d' => absorb max d' b'
               | DEnd => d
               end
  end.

Lemma absorb_small max b : forall d,
  d_big d = false -> d_size d + len (concat b) <= max ->
  absorb max d b = {| d_buf := d_buf d ++ concat b; d_size := d_size d + len (concat b); d_big := false |}.
Proof.
  induction b as [|l b IH]; intros d B H.
  - cbn [absorb concat]. rewrite app_nil_r, len_nil, Z.add_0_r. destruct d; cbn in *; now subst.
  - cbn [absorb concat] in *. rewrite len_app in H. pose proof (len_nonneg (concat b)).
    rewrite data_line_stuff by (auto; lia). rewrite IH by (cbn; auto; lia). cbn.
    now rewrite len_app, <- app_assoc, Z.add_assoc.
Qed.

Lemma absorb_big max b : forall d, d_big d = true -> absorb max d b = d.
Proof.
  induction b as [|l b IH]; intros d B; [reflexivity|].
  cbn [absorb]. rewrite data_line_stuff_skip by exact B. now apply IH.
Qed.

Lemma absorb_large max b : forall d,
  d_big d = false -> d_size d <= max -> d_size d + len (concat b) > max ->
  d_big (absorb max d b) = true.
Proof.
  induction b as [|l b IH]; intros d B Hs H.
  - cbn [concat] in H. rewrite len_nil in H. lia.
  - cbn [absorb concat] in *. rewrite len_app in H.
    destruct (Z_le_gt_dec (d_size d + len l) max) as [Hle|Hgt].
    + rewrite data_line_stuff by auto. apply IH; cbn; auto; lia.
    + rewrite data_line_stuff_big by auto. now rewrite absorb_big.
Qed.

Lemma read_data_body max b : forall d tail,
  read_data_lines max d (stuff b ++ tail) = read_data_lines max (absorb max d b) tail.
Proof.
  induction b as [|l b IH]; intros d tail; [reflexivity|].
  cbn [stuff map app read_data_lines absorb].
  destruct (data_line max d (stuff_line l)) eqn:E.
  - pose proof (stuff_line_not_term l) as T. unfold data_line in E. unfold is_term in T.
    rewrite T in E. destruct (d_big d); [discriminate|].
    destruct (_ >? _); discriminate.
  - apply IH.
Qed.

(** transparency, line level: whatever the body (any octets, lines of dots,
    lines that look like commands), reading the stuffed body followed by a
    terminator yields the body and leaves exactly what follows the terminator *)
Lemma read_data_stuff max b term rest :
  is_term term = true ->
  len (concat b) <= max ->
  read_data_lines max d0 (stuff b ++ term :: rest) = (DOk (concat b), rest).
Proof.
  intros T H. rewrite read_data_body, absorb_small by (cbn; auto).
  cbn [read_data_lines]. rewrite (data_line_term _ _ _ T). reflexivity.
Qed.

(** the size limit: a body larger than the limit is refused, and it is read
    to its end all the same: exactly what follows the terminator is left *)
Lemma read_data_oversize max b term rest :
  is_term term = true ->
  0 <= max -> len (concat b) > max ->
  read_data_lines max d0 (stuff b ++ term :: rest) = (DErrSize, rest).
Proof.
  intros T M H. rewrite read_data_body. cbn [read_data_lines].
  rewrite (data_line_term _ _ _ T). unfold data_end.
  rewrite absorb_large by (cbn; auto). reflexivity.
Qed.

(** ... and whatever is returned is within the limit, for every stream *)
Lemma read_data_within max ls : forall d data rest,
  (d_big d = false -> d_size d = len (d_buf d) /\ d_size d <= max) ->
  read_data_lines max d ls = (DOk data, rest) -> len data <= max.
Proof.
  induction ls as [|l ls IH]; intros d data rest I R; cbn in R; [discriminate|].
  unfold data_line in R.
  destruct (str_eqb l dot_crlf || str_eqb l dot_lf).
  - unfold data_end in R. destruct (d_big d); [discriminate|]. injection R as <- _.
    destruct (I eq_refl). lia.
  - destruct (d_big d) eqn:B.
    + eapply IH; [|exact R]. intros X. congruence.
    + destruct (I eq_refl) as [E Hs].
      set (l' := if has_prefix l (S_ "..") then tl l else l) in *.
      destruct (Z.gtb_spec (d_size d + len l') max).
      * eapply IH; [|exact R]. cbn. discriminate.
      * eapply IH; [|exact R]. cbn. intros _. rewrite len_app. lia.
Qed.

(** ---- byte level ---- *)

Lemma frev_rev l : frev l = rev l.
Proof. unfold frev. now rewrite rev_append_rev, app_nil_r. Qed.

Lemma split_aux_line p : forall s cur,
  ~ In LF p ->
  split_lines_aux (p ++ LF :: s) cur =
  (let '(ls, t) := split_lines_aux s [] in ((rev cur ++ p ++ [LF]) :: ls, t)).
Proof.
  induction p as [|c p IH]; intros s cur N.
  - cbn [app split_lines_aux]. rewrite Ascii.eqb_refl. destruct (split_lines_aux s []). now rewrite frev_rev.
  - cbn [app split_lines_aux].
    destruct (Ascii.eqb_spec c LF) as [->|Hc]; [exfalso; apply N; now left|].
    rewrite IH by (intros X; apply N; now right).
    destruct (split_lines_aux s []). cbn [rev]. now rewrite <- app_assoc.
Qed.

Lemma split_lines_lines ls : forall s,
  Forall is_line ls ->
  split_lines (concat ls ++ s) = (let '(l2, t) := split_lines s in (ls ++ l2, t)).
Proof.
  induction ls as [|l ls IH]; intros s F.
  - cbn [concat app]. destruct (split_lines s); reflexivity.
  - inversion F as [|? ? [p [-> N]] F']; subst.
    cbn [concat]. unfold split_lines in *. rewrite <- !app_assoc. cbn [app].
    rewrite split_aux_line by exact N.
    rewrite IH by exact F'. destruct (split_lines_aux s []). reflexivity.
Qed.

Lemma split_aux_sound s : forall cur,
  (let '(ls, t) := split_lines_aux s cur in concat ls ++ t) = rev cur ++ s.
Proof.
  induction s as [|c s IH]; intros cur.
  - cbn [split_lines_aux concat app]. now rewrite frev_rev, app_nil_r.
  - cbn [split_lines_aux]. destruct (Ascii.eqb_spec c LF) as [->|Hc].
    + specialize (IH []). destruct (split_lines_aux s []) as [ls t]. rewrite frev_rev.
      cbn [concat rev] in *. rewrite <- !app_assoc. cbn [app]. now rewrite IH.
    + rewrite IH. cbn [rev]. now rewrite <- app_assoc.
Qed.

Lemma split_lines_sound s : (let '(ls, t) := split_lines s in concat ls ++ t) = s.
Proof. exact (split_aux_sound s []). Qed.

Lemma stuff_line_is_line l : is_line l -> is_line (stuff_line l).
Proof.
  intros [p [-> N]]. unfold stuff_line. destruct (has_prefix _ _); [|now exists p].
  exists ("."%char :: p). split; [reflexivity|].
  intros [E|I]; [|tauto]. revert E. unfold LF. vm_compute. discriminate.
Qed.

Lemma is_line_b_spec l : is_line_b l = true -> is_line l.
Proof.
  induction l as [|c l IH]; [discriminate|]. destruct l as [|d l].
  - cbn. intros E. apply Ascii.eqb_eq in E. subst. exists []. split; [reflexivity|tauto].
  - cbn [is_line_b]. rewrite andb_true_iff, negb_true_iff. intros [Hc Hl].
    destruct (IH Hl) as [p [E N]]. exists (c :: p). split; [cbn; now rewrite E|].
    intros [X|X]; [|tauto]. subst. now rewrite Ascii.eqb_refl in Hc.
Qed.

Lemma term_is_line t : is_term t = true -> is_line t.
Proof.
  unfold is_term. rewrite orb_true_iff, !str_eqb_eq. intros [->| ->]; apply is_line_b_spec; reflexivity.
Qed.

(** transparency, byte level: the bytes after the terminator are exactly what
    is left in the reader *)
Lemma split_stuffed b term rest :
  Forall is_line b -> is_term term = true ->
  split_lines (concat (stuff b) ++ term ++ rest) =
  (let '(lr, tr) := split_lines rest in (stuff b ++ term :: lr, tr)).
Proof.
  intros F T.
  assert (FS : Forall is_line (stuff b ++ [term])).
  { apply Forall_app. split.
    - unfold stuff. apply Forall_forall. intros x Hx. apply in_map_iff in Hx as [y [<- Hy]].
      apply stuff_line_is_line. rewrite Forall_forall in F. now apply F.
    - constructor; [now apply term_is_line|constructor]. }
  replace (concat (stuff b) ++ term ++ rest) with (concat (stuff b ++ [term]) ++ rest)
    by (rewrite concat_app; cbn; now rewrite app_nil_r, app_assoc).
  rewrite split_lines_lines by exact FS.
  destruct (split_lines rest) as [lr tr]. now rewrite <- app_assoc.
Qed.

Lemma read_data_cmd_stuff max b term rest :
  Forall is_line b -> is_term term = true ->
  len (concat b) <= max ->
  read_data_cmd (concat (stuff b) ++ term ++ rest) max = (DOk (concat b), rest).
Proof.
  intros F T H. unfold read_data_cmd. rewrite split_stuffed by assumption.
  pose proof (split_lines_sound rest) as S. destruct (split_lines rest) as [lr tr].
  rewrite read_data_stuff by auto. now rewrite S.
Qed.

(** over the limit: refused, and still exactly [rest] is left in the reader *)
Lemma read_data_cmd_oversize max b term rest :
  Forall is_line b -> is_term term = true ->
  0 <= max -> len (concat b) > max ->
  read_data_cmd (concat (stuff b) ++ term ++ rest) max = (DErrSize, rest).
Proof.
  intros F T M H. unfold read_data_cmd. rewrite split_stuffed by assumption.
  pose proof (split_lines_sound rest) as S. destruct (split_lines rest) as [lr tr].
  rewrite read_data_oversize by auto. now rewrite S.
Qed.
