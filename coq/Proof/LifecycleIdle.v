(** C20 — proofs about the rounds of the IDLE poll loop *)
From Coq Require Import List Bool NArith Arith Lia.
From Raven Require Import Model.LifecycleIdle.
Import ListNotations.

(** (i1) the tree's loop (a failing poll does not skip the read): whatever the
    polls do — succeed, fail, in any pattern — a client that is gone, or says
    DONE, is noticed in the very round in which that is so *)
Lemma noticed_within_one_round T pre : forall e p d c post,
  c = Gone \/ c = SaysDone ->
  exists x t, idle_run false T e (pre ++ (p, d, c) :: post) = Some (x, t) /\ (t <= e + durations pre + d)%N.
Proof.
  induction pre as [|[[p0 d0] c0] pre IH]; intros e p d c post Hc.
  - cbn. destruct Hc as [-> | ->]; eexists; eexists; (split; [reflexivity | lia]).
  - cbn [app idle_run]. cbn [idle_round andb].
    assert (Hd : durations (((p0, d0), c0) :: pre) = (d0 + durations pre)%N) by reflexivity. rewrite Hd.
    destruct c0; try (eexists; eexists; (split; [reflexivity | lia])).
    + destruct (T <? e + d0)%N; [eexists; eexists; (split; [reflexivity | lia])|].
      destruct (IH (e + d0)%N p d c post Hc) as [x [t [H1 H2]]]. exists x, t. split; [exact H1 | lia].
    + destruct (T <? e + d0)%N; [eexists; eexists; (split; [reflexivity | lia])|].
      destruct (IH (e + d0)%N p d c post Hc) as [x [t [H1 H2]]]. exists x, t. split; [exact H1 | lia].
Qed.

(** (i2) ... and a client that stays silent is logged out: the loop never runs
    past idleUntil by more than one round (Dmax = the longest a round takes),
    and it does not outlive rounds that add up to more than the limit *)
Lemma autologout_time T Dmax rounds : forall e,
  (forall p d c, In (p, d, c) rounds -> (d <= Dmax)%N) ->
  forall x t, idle_run false T e rounds = Some (x, t) -> x = XAutologout -> (e <= T)%N -> (t <= T + Dmax)%N.
Proof.
  induction rounds as [|[[p d] c] rest IH]; intros e Hd x t H Hx He; [discriminate|].
  cbn [idle_run idle_round andb] in H.
  assert (Hdd : (d <= Dmax)%N) by (apply (Hd p d c); left; reflexivity).
  destruct c; try (inversion H; subst; discriminate).
  - destruct (T <? e + d)%N eqn:E.
    + inversion H; subst. lia.
    + apply N.ltb_ge in E. apply (IH (e + d)%N) with (x := x); try assumption. intros; eapply Hd; right; eassumption.
  - destruct (T <? e + d)%N eqn:E.
    + inversion H; subst. lia.
    + apply N.ltb_ge in E. apply (IH (e + d)%N) with (x := x); try assumption. intros; eapply Hd; right; eassumption.
Qed.

Lemma silent_progress T rounds : forall e,
  (e <= T)%N -> (T < e + durations rounds)%N -> idle_run false T e rounds <> None.
Proof.
  induction rounds as [|[[p d] c] rest IH]; intros e He H; [cbn in H; lia|].
  cbn [idle_run idle_round andb].
  assert (Hd : durations (((p, d), c) :: rest) = (d + durations rest)%N) by reflexivity. rewrite Hd in H.
  destruct c; try discriminate.
  - destruct (T <? e + d)%N eqn:E; [discriminate|]. apply N.ltb_ge in E. apply IH; lia.
  - destruct (T <? e + d)%N eqn:E; [discriminate|]. apply N.ltb_ge in E. apply IH; lia.
Qed.

(** (i3) a loop whose failing poll skips the rest of the round (seeded change
    C20-4) never ends while the store keeps failing: not for a client that is
    gone, not for one that says DONE, not at idleUntil *)
Lemma skipping_loop_never_ends T rounds : forall e,
  (forall p d c, In (p, d, c) rounds -> p = PFail) -> idle_run true T e rounds = None.
Proof.
  induction rounds as [|[[p d] c] rest IH]; intros e H; [reflexivity|].
  cbn [idle_run]. rewrite (H p d c) by (left; reflexivity). cbn [idle_round is_fail andb].
  apply IH. intros; eapply H; right; eassumption.
Qed.
