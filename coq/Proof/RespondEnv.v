(** C13 — BuildEnvelope: for EVERY message the ENVELOPE value is one well-formed
    token with exactly ten fields (under "parseAddressList returns"); since fix
    wave 3 a value with CR/LF is a literal, so no header value is excluded.
    BODYSTRUCTURE string fields likewise. *)
From Coq Require Import String Ascii List Bool Arith NArith ZArith Lia.
From Raven Require Import Base.GoStr Base.GoStrFacts Spec.Grammar Model.Respond
     Proof.Grammar Proof.RespondTok Proof.RespondAsm.
Import ListNotations.

Section Forallb.
Variable P : ascii -> bool.

Lemma forallb_firstn n : forall s, forallb P s = true -> forallb P (firstn n s) = true.
Proof.
  induction n as [|n IH]; intros [|c s] H; try reflexivity.
  cbn in *. apply andb_true_iff in H as [Hc Hs]. now rewrite Hc, IH.
Qed.

Lemma forallb_skipn n : forall s, forallb P s = true -> forallb P (skipn n s) = true.
Proof.
  induction n as [|n IH]; intros [|c s] H; try reflexivity; try exact H.
  cbn in *. apply andb_true_iff in H as [_ Hs]. now apply IH.
Qed.

Lemma forallb_rev s : forallb P s = true -> forallb P (rev s) = true.
Proof.
  intros H. apply forallb_forall. intros x Hx. apply in_rev in Hx.
  rewrite forallb_forall in H. now apply H.
Qed.

Lemma forallb_drop_while f s : forallb P s = true -> forallb P (drop_while f s) = true.
Proof.
  induction s as [|c s IH]; intros H; [reflexivity|].
  cbn [drop_while]. destruct (f c); [|exact H].
  cbn in H. apply andb_true_iff in H as [_ Hs]. now apply IH.
Qed.

Lemma forallb_trim_f f s : forallb P s = true -> forallb P (trim_f f s) = true.
Proof.
  intros H. unfold trim_f, trim_right_f, trim_left_f.
  apply forallb_rev, forallb_drop_while, forallb_rev, forallb_drop_while, H.
Qed.

Lemma forallb_slice s i j r : forallb P s = true -> slice s i j = Some r -> forallb P r = true.
Proof.
  unfold slice. intros H. destruct (_ && _ && _); [|discriminate].
  intros E. injection E as <-. now apply forallb_firstn, forallb_skipn.
Qed.

Lemma forallb_split_aux s sep : forall cur, forallb P s = true -> forallb P cur = true ->
  Forall (fun x => forallb P x = true) (split_byte_aux s sep cur).
Proof.
  induction s as [|c s IH]; intros cur Hs Hc; cbn [split_byte_aux].
  - constructor; [now apply forallb_rev|constructor].
  - cbn in Hs. apply andb_true_iff in Hs as [Hcc Hs]. destruct (Ascii.eqb c sep).
    + constructor; [now apply forallb_rev|]. now apply IH.
    + apply IH; [exact Hs|]. cbn. now rewrite Hcc, Hc.
Qed.

Lemma forallb_split s sep : forallb P s = true -> Forall (fun x => forallb P x = true) (split_byte s sep).
Proof. intros H. now apply forallb_split_aux. Qed.
End Forallb.

Lemma clean_trim_space s : clean s = true -> clean (trim_space s) = true.
Proof. apply forallb_trim_f. Qed.

Lemma bal_quote s : bal (quote_or_nil s).
Proof. apply tokp_bal, tokp_quote_or_nil_any. Qed.

Lemma addr_struct_tok a s : addr_struct a = Some s -> tokp s.
Proof.
  unfold addr_struct.
  set (ne := match index a ["<"%char] with Some _ => _ | None => _ end).
  destruct ne as [[n e]|]; [|discriminate].
  set (mh := if contains e ["@"%char] then _ else _).
  destruct mh as [m h].
  intros E. injection E as <-.
  set (inner := quote_or_nil n ++ S_ " NIL " ++ quote_or_nil m ++ [SP] ++ quote_or_nil h).
  match goal with |- tokp ?X => assert (EX : X = LP :: inner ++ [RP]) end.
  { subst inner. cbn [app S_ list_ascii_of_string]. repeat (rewrite <- app_assoc; cbn [app]). reflexivity. }
  rewrite EX. clear EX. subst inner.
  apply tokp_paren.
  apply bal_app; [apply bal_quote|].
  apply bal_app; [reflexivity|].
  apply bal_app; [apply bal_quote|].
  apply bal_app; [reflexivity|apply bal_quote].
Qed.

Lemma addr_structs_tok l : forall r, addr_structs l = Some r -> Forall tokp r.
Proof.
  induction l as [|a l IH]; intros r; cbn [addr_structs].
  - intros E. injection E as <-. constructor.
  - destruct (trim_space a) as [|c t] eqn:Et; [now apply IH|].
    destruct (addr_struct (c :: t)) as [s|] eqn:Es; [|discriminate].
    destruct (addr_structs l) as [r'|] eqn:Er; [|discriminate].
    cbn [option_map]. intros E. injection E as <-.
    constructor; [|now apply IH]. eapply addr_struct_tok; exact Es.
Qed.

Lemma addr_paren_tok n m h :
  tokp ([LP] ++ quote_or_nil n ++ S_ " NIL " ++ quote_or_nil m ++ [SP] ++ quote_or_nil h ++ [RP]).
Proof.
  set (inner := quote_or_nil n ++ S_ " NIL " ++ quote_or_nil m ++ [SP] ++ quote_or_nil h).
  match goal with |- tokp ?X => assert (EX : X = LP :: inner ++ [RP]) end.
  { subst inner. cbn [app S_ list_ascii_of_string]. repeat (rewrite <- app_assoc; cbn [app]). reflexivity. }
  rewrite EX. clear EX. subst inner. apply tokp_paren.
  apply bal_app; [apply bal_quote|]. apply bal_app; [reflexivity|].
  apply bal_app; [apply bal_quote|]. apply bal_app; [reflexivity|apply bal_quote].
Qed.

Lemma mail_structs_tok l : Forall tokp (mail_structs l).
Proof.
  unfold mail_structs. apply Forall_map. apply Forall_forall. intros [n a] _. cbn [fst snd].
  destruct (split_at_last a "@"%char) as [m h]. apply addr_paren_tok.
Qed.

(** for EVERY result net/mail can return (any strings as name and address) and
    every header value the rendered list is one well-formed token *)
Lemma parse_address_list_tok mp a r : parse_address_list mp a = Some r -> tokp r.
Proof.
  unfold parse_address_list. destruct a as [|c a]; [intros E; injection E as <-; apply tokp_NIL|].
  destruct (mp (c :: a)) as [[|x l]|].
  2:{ intros E. injection E as <-.
      apply (tokp_paren (join (mail_structs (x :: l)) [SP])). apply bal_join.
      eapply Forall_impl; [|apply mail_structs_tok]. intros t. apply tokp_bal. }
  all: destruct (addr_structs (split_byte (c :: a) ","%char)) as [l0|] eqn:El; try discriminate;
    pose proof (addr_structs_tok _ _ El) as Hl;
    destruct l0 as [|y l0]; intros E; injection E as <-; try apply tokp_NIL;
    apply (tokp_paren (join (y :: l0) [SP])); apply (bal_join (y :: l0));
    (eapply Forall_impl; [|exact Hl]); intros t; apply tokp_bal.
Qed.

Lemma envelope_fields_tok mp d s f sd rt t c b ir mi fs :
  envelope_fields mp d s f sd rt t c b ir mi = Some fs -> Forall tokp fs /\ length fs = 10.
Proof.
  unfold envelope_fields, opt_list. cbn [fold_right].
  set (sd' := match sd with [] => f | _ => sd end).
  set (rt' := match rt with [] => f | _ => rt end).
  destruct (parse_address_list mp f) as [xf|] eqn:Ef;
  destruct (parse_address_list mp sd') as [xs|] eqn:Es;
  destruct (parse_address_list mp rt') as [xr|] eqn:Er;
  destruct (parse_address_list mp t) as [xt|] eqn:Et;
  destruct (parse_address_list mp c) as [xc|] eqn:Ec;
  destruct (parse_address_list mp b) as [xb|] eqn:Eb; cbn; intros E; try discriminate.
  injection E as <-. split; [|reflexivity].
  repeat (apply Forall_cons); try apply Forall_nil;
    try apply tokp_quote_or_nil_any;
    try (eapply parse_address_list_tok; eassumption).
Qed.

Theorem envelope_wf mp raw v :
  envelope_value mp raw = Some v ->
  tokb v = true /\ exists fs, length fs = 10 /\ Forall (fun t => tokb t = true) fs
                              /\ tokens (S (length v)) (skipn 1 v) = Some (fs, [RP]).
Proof.
  unfold envelope_value. intros E.
  match type of E with match ?X with _ => _ end = _ => destruct X as [fs|] eqn:Ef; [|discriminate] end.
  injection E as <-.
  destruct (envelope_fields_tok _ _ _ _ _ _ _ _ _ _ _ fs Ef) as [Htok Hlen].
  split.
  - apply tokb_tokp. apply (tokp_paren (join fs [SP])). apply (bal_join fs).
    eapply Forall_impl; [|exact Htok]. intros t. apply tokp_bal.
  - exists fs. split; [exact Hlen|]. split.
    + eapply Forall_impl; [|exact Htok]. intros t. apply tokb_tokp.
    + cbn [app skipn]. apply tokens_join; [exact Htok|destruct fs; [discriminate|discriminate]| |].
      * right. exists []. reflexivity.
      * cbn [length]. rewrite app_length.
        assert (Forall (fun t : str => t <> []) fs) by (eapply Forall_impl; [|exact Htok]; intros t [Ht _]; exact Ht).
        pose proof (join_length_ge fs [SP] H). lia.
Qed.

(** regression (bare_cr_header, repaired in fix wave 3): the line raven sent for
    "Subject: a<CR>b" carried the CR inside a quoted string; the value is a
    literal now *)
Definition w_cr_msg : str :=
  S_ "Subject: a" ++ [CR] ++ S_ "b" ++ crlf ++ S_ "From: x@y" ++ crlf ++ crlf ++ S_ "hello" ++ crlf.

Lemma old_bare_cr_malformed :
  wf_stream (send (S_ "* 1 FETCH (ENVELOPE (NIL ""a" ++ [CR] ++ S_ "b"" NIL NIL NIL NIL NIL NIL NIL NIL))")) = false
  /\ match envelope_value (fun _ => None) w_cr_msg with
     | Some v => wf_stream (send (fetch_line 1 [Inline (S_ "ENVELOPE") v])) = true
     | None => False
     end.
Proof. vm_compute. auto. Qed.

(** ---- strings: one quoted string or one literal ---- *)

Lemma qs_body_escape s : clean s = true -> qs_body (escape s ++ [DQ]) = true.
Proof.
  induction s as [|c s IH]; intros H; [reflexivity|].
  apply clean_cons in H as (Hcr & Hlf & Hs).
  rewrite escape_cons, <- app_assoc. unfold esc1.
  destruct (Ascii.eqb_spec c BSL) as [->|Hb].
  - cbn [app qs_body]. change (Ascii.eqb BSL DQ) with false. change (Ascii.eqb BSL BSL) with true.
    cbn [orb andb]. cbn iota. now apply IH.
  - destruct (Ascii.eqb_spec c DQ) as [->|Hq].
    + cbn [app qs_body]. change (Ascii.eqb BSL DQ) with false. change (Ascii.eqb BSL BSL) with true.
      change (Ascii.eqb DQ DQ) with true. cbn [orb andb]. cbn iota. now apply IH.
    + cbn [app qs_body]. apply Ascii.eqb_neq in Hb, Hq. rewrite Hq, Hb, Hcr, Hlf. cbn [orb]. cbn iota.
      now apply IH.
Qed.

Lemma literal_strict_lit_text p : literal_strict (lit_text p) = true.
Proof.
  unfold lit_text, literal_strict. cbn [app]. change (Ascii.eqb LB LB) with true. cbn [andb].
  rewrite (span_digits_app (dec (length p)) [] RB (crlf ++ p) (dec_digits _) eq_refl). cbn [rev app].
  pose proof (dec_nonempty (length p)) as Hne. destruct (dec (length p)) as [|d0 ds] eqn:Ed; [congruence|].
  change (has_prefix (RB :: crlf ++ p) (RB :: crlf)) with (has_prefix ((RB :: crlf) ++ p) (RB :: crlf)).
  rewrite has_prefix_app. cbn [andb skipn crlf app].
  pose proof (dec_val (length p)) as Hv. rewrite Ed in Hv. unfold dval in Hv. rewrite Hv.
  apply N.eqb_refl.
Qed.

Lemma string_quote_or_nil s : s <> [] -> string_ok (quote_or_nil s) = true.
Proof.
  intros Hne. destruct s as [|c s]; [congruence|]. unfold string_ok, quote_or_nil.
  destruct (clean (c :: s)) eqn:E.
  - unfold quoted_strict. change (Ascii.eqb DQ DQ) with true. cbn [andb]. now rewrite qs_body_escape.
  - now rewrite literal_strict_lit_text, orb_true_r.
Qed.

Lemma nstring_quote_or_nil s : nstring_ok (quote_or_nil s) = true.
Proof.
  destruct s as [|c s]; [reflexivity|]. unfold nstring_ok.
  now rewrite string_quote_or_nil, orb_true_r.
Qed.

(** the fields BuildBodyStructure prints after the parameter list of a
    single-part message: for EVERY raw message they are single tokens; id /
    description are NIL or a string, the encoding is a string *)
Theorem single_tail_ok raw is_text :
  Forall (fun t => tokb t = true) (single_tail raw is_text)
  /\ Forall (fun t => nstring_ok t = true) (firstn 3 (single_tail raw is_text))
  /\ string_ok (nth 2 (single_tail raw is_text) []) = true.
Proof.
  assert (Hne : bs_encoding raw <> []).
  { unfold bs_encoding, to_upper. destruct (extract_header raw (S_ "Content-Transfer-Encoding")); discriminate. }
  assert (Hnil : tokb NIL = true) by reflexivity.
  unfold single_tail. split; [|split].
  - destruct is_text; cbn [app];
      repeat (apply Forall_cons; [first [ apply tokb_tokp, tokp_quote_or_nil_any
                                        | apply tokb_tokp, tokp_dec | exact Hnil ]|]);
      apply Forall_nil.
  - cbn [firstn app]. repeat constructor; apply nstring_quote_or_nil.
  - cbn [nth app]. now apply string_quote_or_nil.
Qed.

(** the disposition field: NIL, or a list that starts with ONE string *)
Lemma disp_list_strict disp :
  disp_list disp = NIL
  \/ exists t ps rest, disp = Some (t, ps) /\ disp_list disp = LP :: quote_or_nil (to_upper t) ++ rest
                       /\ string_ok (quote_or_nil (to_upper t)) = true.
Proof.
  destruct disp as [[t ps]|]; [|now left].
  destruct t as [|c t]; [now left|]. right. exists (c :: t), ps. eexists. split; [reflexivity|].
  split; [reflexivity|]. apply string_quote_or_nil. discriminate.
Qed.

(** regression (fix c1eb865): what used to be printed for an unparsable
    disposition does not start with a string *)
Lemma old_disposition_nil_malformed :
  string_ok (S_ "NIL") = false /\ disp_list (Some ([], [])) = NIL.
Proof. vm_compute. auto. Qed.
