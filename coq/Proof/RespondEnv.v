(** C13 — BuildEnvelope: for every message whose ten envelope header values
    carry no bare CR, the ENVELOPE value is one well-formed token with
    exactly ten fields (under "parseAddressList returns"). *)
From Coq Require Import String Ascii List Bool Arith NArith ZArith Lia.
From Raven Require Import Base.GoStr Base.GoStrFacts Spec.Grammar Model.Respond
     Proof.Grammar Proof.RespondTok Proof.RespondAsm.
Import ListNotations.

Section Forallb.
Variable P : ascii -> bool.

Lemma forallb_firstn n : forall s, forallb P s = true -> forallb P (firstn n s) = true.
Proof.
  induction n as [|n IH]; intros [|c s] H; try reflexivity.
  cbn in *. apply andb_true_iff in H as [Hc Hs]. now rewrite Hc, IH.
Qed.

Lemma forallb_skipn n : forall s, forallb P s = true -> forallb P (skipn n s) = true.
Proof.
  induction n as [|n IH]; intros [|c s] H; try reflexivity; try exact H.
  cbn in *. apply andb_true_iff in H as [_ Hs]. now apply IH.
Qed.

Lemma forallb_rev s : forallb P s = true -> forallb P (rev s) = true.
Proof.
  intros H. apply forallb_forall. intros x Hx. apply in_rev in Hx.
  rewrite forallb_forall in H. now apply H.
Qed.

Lemma forallb_drop_while f s : forallb P s = true -> forallb P (drop_while f s) = true.
Proof.
  induction s as [|c s IH]; intros H; [reflexivity|].
  cbn [drop_while]. destruct (f c); [|exact H].
  cbn in H. apply andb_true_iff in H as [_ Hs]. now apply IH.
Qed.

Lemma forallb_trim_f f s : forallb P s = true -> forallb P (trim_f f s) = true.
Proof.
  intros H. unfold trim_f, trim_right_f, trim_left_f.
  apply forallb_rev, forallb_drop_while, forallb_rev, forallb_drop_while, H.
Qed.

Lemma forallb_slice s i j r : forallb P s = true -> slice s i j = Some r -> forallb P r = true.
Proof.
  unfold slice. intros H. destruct (_ && _ && _); [|discriminate].
  intros E. injection E as <-. now apply forallb_firstn, forallb_skipn.
Qed.

Lemma forallb_split_aux s sep : forall cur, forallb P s = true -> forallb P cur = true ->
  Forall (fun x => forallb P x = true) (split_byte_aux s sep cur).
Proof.
  induction s as [|c s IH]; intros cur Hs Hc; cbn [split_byte_aux].
  - constructor; [now apply forallb_rev|constructor].
  - cbn in Hs. apply andb_true_iff in Hs as [Hcc Hs]. destruct (Ascii.eqb c sep).
    + constructor; [now apply forallb_rev|]. now apply IH.
    + apply IH; [exact Hs|]. cbn. now rewrite Hcc, Hc.
Qed.

Lemma forallb_split s sep : forallb P s = true -> Forall (fun x => forallb P x = true) (split_byte s sep).
Proof. intros H. now apply forallb_split_aux. Qed.
End Forallb.

Lemma clean_trim_space s : clean s = true -> clean (trim_space s) = true.
Proof. apply forallb_trim_f. Qed.

Lemma bal_quote s : clean s = true -> bal (quote_or_nil s).
Proof. intros H. apply tokp_bal, tokp_quote_or_nil, H. Qed.

Lemma addr_struct_tok a s : clean a = true -> addr_struct a = Some s -> tokp s.
Proof.
  unfold addr_struct. intros Ha.
  set (ne := match index a ["<"%char] with Some _ => _ | None => _ end).
  assert (Hne : forall n e, ne = Some (n, e) -> clean n = true /\ clean e = true).
  { subst ne. intros n e. destruct (index a ["<"%char]) as [st_|].
    - destruct (index (skipn st_ a) [">"%char]) as [en|].
      + destruct (slice a (Z.of_nat st_ + 1) (Z.of_nat (en + st_))) as [email|] eqn:Es; [|discriminate].
        intros E. injection E as <- <-. split.
        * unfold trim. apply forallb_trim_f, clean_trim_space. now apply forallb_firstn.
        * eapply forallb_slice; eassumption.
      + intros E. injection E as <- <-. split; [reflexivity|exact Ha].
    - intros E. injection E as <- <-. split; [reflexivity|exact Ha]. }
  destruct ne as [[n e]|]; [|discriminate].
  destruct (Hne n e eq_refl) as [Hn He].
  set (mh := if contains e ["@"%char] then _ else _).
  assert (Hmh : clean (fst mh) = true /\ clean (snd mh) = true).
  { subst mh. destruct (contains e ["@"%char]); [|split; [exact He|reflexivity]].
    unfold split_at_first. destruct (index_byte e "@"%char); cbn [fst snd].
    - split; [now apply forallb_firstn|now apply forallb_skipn].
    - split; [exact He|reflexivity]. }
  destruct mh as [m h]. cbn [fst snd] in Hmh. destruct Hmh as [Hm Hh].
  intros E. injection E as <-.
  set (inner := quote_or_nil n ++ S_ " NIL " ++ quote_or_nil m ++ [SP] ++ quote_or_nil h).
  assert (Eq : forall X, X = LP :: inner ++ [RP] -> tokp X -> tokp X) by auto.
  match goal with |- tokp ?X => assert (EX : X = LP :: inner ++ [RP]) end.
  { subst inner. cbn [app S_ list_ascii_of_string]. repeat (rewrite <- app_assoc; cbn [app]). reflexivity. }
  rewrite EX. clear Eq EX.
  subst inner.
  apply tokp_paren.
  apply bal_app; [now apply bal_quote|].
  apply bal_app; [reflexivity|].
  apply bal_app; [now apply bal_quote|].
  apply bal_app; [reflexivity|now apply bal_quote].
Qed.

Lemma addr_structs_tok l : forall r, Forall (fun x => clean x = true) l ->
  addr_structs l = Some r -> Forall tokp r.
Proof.
  induction l as [|a l IH]; intros r Hl; cbn [addr_structs].
  - intros E. injection E as <-. constructor.
  - inversion Hl as [|? ? Ha Hl']; subst.
    destruct (trim_space a) as [|c t] eqn:Et; [now apply IH|].
    destruct (addr_struct (c :: t)) as [s|] eqn:Es; [|discriminate].
    destruct (addr_structs l) as [r'|] eqn:Er; [|discriminate].
    cbn [option_map]. intros E. injection E as <-.
    constructor; [|now apply IH].
    eapply addr_struct_tok; [|exact Es]. rewrite <- Et. now apply clean_trim_space.
Qed.

Lemma parse_address_list_tok a r : clean a = true -> parse_address_list a = Some r -> tokp r.
Proof.
  unfold parse_address_list. intros Ha. destruct a as [|c a]; [intros E; injection E as <-; apply tokp_NIL|].
  destruct (addr_structs (split_byte (c :: a) ","%char)) as [l|] eqn:El; [|discriminate].
  pose proof (addr_structs_tok _ _ (forallb_split _ _ ","%char Ha) El) as Hl.
  destruct l as [|x l]; intros E; injection E as <-; [apply tokp_NIL|].
  apply (tokp_paren (join (x :: l) [SP])). apply (bal_join (x :: l)).
  eapply Forall_impl; [|exact Hl]. intros t. apply tokp_bal.
Qed.

Lemma envelope_fields_tok d s f sd rt t c b ir mi fs :
  Forall (fun x => clean x = true) [d; s; f; sd; rt; t; c; b; ir; mi] ->
  envelope_fields d s f sd rt t c b ir mi = Some fs -> Forall tokp fs /\ length fs = 10.
Proof.
  intros H. repeat (match goal with H : Forall _ (_ :: _) |- _ => inversion H; clear H; subst end).
  unfold envelope_fields, opt_list. cbn [fold_right].
  set (sd' := match sd with [] => f | _ => sd end).
  set (rt' := match rt with [] => f | _ => rt end).
  assert (Hsd : clean sd' = true) by (subst sd'; destruct sd; assumption).
  assert (Hrt : clean rt' = true) by (subst rt'; destruct rt; assumption).
  destruct (parse_address_list f) as [xf|] eqn:Ef;
  destruct (parse_address_list sd') as [xs|] eqn:Es;
  destruct (parse_address_list rt') as [xr|] eqn:Er;
  destruct (parse_address_list t) as [xt|] eqn:Et;
  destruct (parse_address_list c) as [xc|] eqn:Ec;
  destruct (parse_address_list b) as [xb|] eqn:Eb; cbn; intros E; try discriminate.
  injection E as <-. split; [|reflexivity].
  repeat (apply Forall_cons); try apply Forall_nil;
    try (apply tokp_quote_or_nil; assumption);
    try (eapply parse_address_list_tok; [|eassumption]; assumption).
Qed.

Lemma classify_headers_clean raw : classify_headers raw = None ->
  Forall (fun h => clean (extract_header raw h) = true) env_headers.
Proof.
  unfold classify_headers. destruct (forallb _ env_headers) eqn:E; [intros _|discriminate].
  apply Forall_forall. rewrite forallb_forall in E. exact E.
Qed.

Theorem envelope_wf raw v :
  envelope_value raw = Some v -> classify_headers raw = None ->
  tokb v = true /\ exists fs, length fs = 10 /\ Forall (fun t => tokb t = true) fs
                              /\ tokens (S (length v)) (skipn 1 v) = Some (fs, [RP]).
Proof.
  unfold envelope_value. intros E Hc.
  apply classify_headers_clean in Hc. unfold env_headers in Hc.
  match type of E with match ?X with _ => _ end = _ => destruct X as [fs|] eqn:Ef; [|discriminate] end.
  injection E as <-.
  assert (Hc' : Forall (fun x => clean x = true) (map (extract_header raw) env_headers)).
  { apply Forall_map. exact Hc. }
  destruct (envelope_fields_tok _ _ _ _ _ _ _ _ _ _ fs Hc' Ef) as [Htok Hlen].
  split.
  - apply tokb_tokp. apply (tokp_paren (join fs [SP])). apply (bal_join fs).
    eapply Forall_impl; [|exact Htok]. intros t. apply tokp_bal.
  - exists fs. split; [exact Hlen|]. split.
    + eapply Forall_impl; [|exact Htok]. intros t. apply tokb_tokp.
    + cbn [app skipn]. apply tokens_join; [exact Htok|destruct fs; [discriminate|discriminate]| |].
      * right. exists []. reflexivity.
      * cbn [length]. rewrite app_length.
        assert (Forall (fun t : str => t <> []) fs) by (eapply Forall_impl; [|exact Htok]; intros t [Ht _]; exact Ht).
        pose proof (join_length_ge fs [SP] H). lia.
Qed.

(** the defect: QuoteOrNIL lets a bare CR through *)
Definition w_cr_msg : str :=
  S_ "Subject: a" ++ [CR] ++ S_ "b" ++ crlf ++ S_ "From: x@y" ++ crlf ++ crlf ++ S_ "hello" ++ crlf.

Lemma refuted_bare_cr :
  classify_headers w_cr_msg = Some bare_cr_header
  /\ match envelope_value w_cr_msg with
     | Some v => wf_stream (send (fetch_line 1 [Inline (S_ "ENVELOPE") v])) = false
     | None => False
     end.
Proof. vm_compute. auto. Qed.

(** ---- BODYSTRUCTURE string fields ---- *)

Lemma qs_body_escape s : clean s = true -> qs_body (escape s ++ [DQ]) = true.
Proof.
  induction s as [|c s IH]; intros H; [reflexivity|].
  apply clean_cons in H as (Hcr & Hlf & Hs).
  rewrite escape_cons, <- app_assoc. unfold esc1.
  destruct (Ascii.eqb_spec c BSL) as [->|Hb].
  - cbn [app qs_body]. change (Ascii.eqb BSL DQ) with false. change (Ascii.eqb BSL BSL) with true.
    cbn [orb andb]. cbn iota. now apply IH.
  - destruct (Ascii.eqb_spec c DQ) as [->|Hq].
    + cbn [app qs_body]. change (Ascii.eqb BSL DQ) with false. change (Ascii.eqb BSL BSL) with true.
      change (Ascii.eqb DQ DQ) with true. cbn [orb andb]. cbn iota. now apply IH.
    + cbn [app qs_body]. apply Ascii.eqb_neq in Hb, Hq. rewrite Hq, Hb, Hcr, Hlf. cbn [orb]. cbn iota.
      now apply IH.
Qed.

Lemma nstring_quote_or_nil s : clean s = true -> nstring_ok (quote_or_nil s) = true.
Proof.
  intros H. destruct s as [|c s]; [reflexivity|].
  unfold nstring_ok, quote_or_nil, quoted_strict. change (Ascii.eqb DQ DQ) with true. cbn [andb].
  now rewrite qs_body_escape, orb_true_r.
Qed.

Lemma quoted_strict_quote s : s <> [] -> clean s = true -> quoted_strict (quote_or_nil s) = true.
Proof.
  intros Hne H. destruct s as [|c s]; [congruence|].
  unfold quote_or_nil, quoted_strict. change (Ascii.eqb DQ DQ) with true. cbn [andb].
  now apply qs_body_escape.
Qed.

Lemma clean_to_upper s : clean s = true -> clean (to_upper s) = true.
Proof.
  assert (K : forall c, negb (negb (Ascii.eqb c CR) && negb (Ascii.eqb c LF))
                        || (negb (Ascii.eqb (upper_c c) CR) && negb (Ascii.eqb (upper_c c) LF)) = true).
  { ascii_sweep (fun c => negb (negb (Ascii.eqb c CR) && negb (Ascii.eqb c LF))
                          || (negb (Ascii.eqb (upper_c c) CR) && negb (Ascii.eqb (upper_c c) LF))). }
  unfold clean, to_upper. induction s as [|c s IH]; intros H; [reflexivity|].
  cbn [map forallb] in *. apply andb_true_iff in H as [Hc Hs].
  specialize (K c). rewrite Hc in K. cbn [negb orb] in K. now rewrite K, IH.
Qed.

(** the fields BuildBodyStructure prints after the parameter list of a
    single-part message: NIL / one quoted string each, then numbers and NIL *)
Theorem single_tail_ok raw is_text :
  clean (extract_header raw (S_ "Content-ID")) = true ->
  clean (extract_header raw (S_ "Content-Description")) = true ->
  clean (extract_header raw (S_ "Content-Transfer-Encoding")) = true ->
  Forall (fun t => tokb t = true) (single_tail raw is_text)
  /\ Forall (fun t => nstring_ok t = true) (firstn 3 (single_tail raw is_text))
  /\ quoted_strict (nth 2 (single_tail raw is_text) []) = true.
Proof.
  intros Hi Hd He.
  assert (Henc : clean (bs_encoding raw) = true).
  { unfold bs_encoding. apply clean_to_upper.
    destruct (extract_header raw (S_ "Content-Transfer-Encoding")); [reflexivity|exact He]. }
  assert (Hne : bs_encoding raw <> []).
  { unfold bs_encoding, to_upper. destruct (extract_header raw (S_ "Content-Transfer-Encoding")); discriminate. }
  assert (Hnil : tokb NIL = true) by reflexivity.
  unfold single_tail. split; [|split].
  - destruct is_text; cbn [app];
      repeat (apply Forall_cons; [first [ apply tokb_tokp, tokp_quote_or_nil; assumption
                                        | apply tokb_tokp, tokp_dec | exact Hnil ]|]);
      apply Forall_nil.
  - cbn [firstn app]. repeat constructor; now apply nstring_quote_or_nil.
  - cbn [nth app]. now apply quoted_strict_quote.
Qed.

(** the disposition field for a parsed type, and the defect for an unparsable one *)
Lemma disp_list_strict t ps : t <> [] -> clean t = true ->
  exists rest, disp_list (Some (t, ps)) = LP :: quote_or_nil (to_upper t) ++ rest
               /\ quoted_strict (quote_or_nil (to_upper t)) = true.
Proof.
  intros Hne Hc. eexists. split; [reflexivity|].
  apply quoted_strict_quote; [|now apply clean_to_upper].
  destruct t; [congruence|discriminate].
Qed.

Lemma refuted_disposition_nil :
  classify_disp (Some ([], [])) = Some disposition_nil
  /\ disp_list (Some ([], [])) = S_ "(NIL NIL)"
  /\ quoted_strict (S_ "NIL") = false.
Proof. vm_compute. auto. Qed.
