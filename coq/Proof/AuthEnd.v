(** C04 — entry points composed with the attempt: from the bytes on the wire
    to the property. *)
From Coq Require Import String Ascii List Bool Arith NArith.
From Raven Require Import Base.GoStr Base.GoStrB64 Spec.Json Model.CmdTokenizer Model.Auth Spec.CmdArgs Spec.AuthSpec Proof.CmdTokenizer
  Proof.AuthFlow Proof.AuthLogin Proof.AuthPlain.
Import ListNotations.

Theorem login_end_to_end d tag fu fp u p b ens init :
  atom_ok tag = true -> arg_ok (fu, u) = true -> arg_ok (fp, p) = true ->
  line_safe u = true -> line_safe p = true ->
  ensure_sound ens -> in_domain d u p = true ->
  imap_spec d u p (accepted b)
    (run_creds d (login_creds false true (login_line tag fu fp u p)) b ens init).
Proof.
  intros At Au Ap _ _ ES C2. rewrite (login_args_exact _ _ _ _ _ At Au Ap). simpl run_creds.
  now apply imap_attempt_spec.
Qed.

Theorem authplain_end_to_end d z u p b ens init :
  count_byte z NUL = 0 -> count_byte u NUL = 0 -> count_byte p NUL = 0 -> u <> [] -> p <> [] ->
  ensure_sound ens -> in_domain d u p = true ->
  imap_spec d u p (accepted b)
    (run_creds d (authplain_creds false true (b64_encode (z ++ NUL :: u ++ NUL :: p) ++ crlf)) b ens init).
Proof.
  intros Hz Hu Hp Eu Ep ES C. rewrite (authplain_exact _ _ _ Hz Hu Hp Eu Ep). simpl run_creds.
  now apply imap_attempt_spec.
Qed.
