(** C10 — the STORE loops of the model change exactly the addressed rows
    (outside the listed finding classes). *)
From Coq Require Import String Ascii List Bool Arith ZArith Lia.
From Raven Require Import Base.GoStr Model.Flags Spec.FlagSet Proof.Flags Model.FlagStore Spec.FlagHistory.
Import ListNotations.
Local Open Scope Z_scope.

Definition lkey (l : link) : Z * Z := (lk_mbox l, lk_uid l).
(** UNIQUE(mailbox_id, uid) *)
Definition uniq_keys (ls : list link) : Prop := NoDup (map lkey ls).

(** ---------- idempotence of CalculateNewFlags ---------- *)

Lemma to_set_ci_app_nodup l : forall m, NoDup (keys (m ++ l)) -> fold_left (fun m f => set_add_ci f m) l m = m ++ l.
Proof.
  induction l as [|f l IH]; intros m H; simpl; [now rewrite app_nil_r|].
  assert (Hf : mem_ci f m = false).
  { apply mem_ci_false. intros Hin. rewrite keys_app in H. simpl in H. apply NoDup_remove_2 in H. apply H.
    apply in_app_iff. now left. }
  unfold set_add_ci at 2. rewrite Hf. rewrite IH; rewrite <- app_assoc; simpl; auto.
Qed.

Lemma to_set_ci_nodup_id l : NoDup (keys l) -> to_set_ci l = l.
Proof. intros H. unfold to_set_ci. now rewrite to_set_ci_app_nodup. Qed.

Lemma add_all_absorb new : forall m, (forall f, In f new -> eqf f RECENT = false -> In (fkey f) (keys m)) -> add_all new m = m.
Proof.
  unfold add_all. induction new as [|f new IH]; intros m H; simpl; [reflexivity|].
  destruct (eqf f RECENT) eqn:E.
  - apply IH. intros g Hg. apply H. now right.
  - assert (Hm : mem_ci f m = true) by (apply mem_ci_In, H; [now left | assumption]).
    unfold set_add_ci. rewrite Hm. apply IH. intros g Hg. apply H. now right.
Qed.

Lemma filter_all_true {A} (p : A -> bool) l : (forall x, In x l -> p x = true) -> filter p l = l.
Proof.
  induction l as [|x l IH]; simpl; intros H; [reflexivity|].
  rewrite (H x (or_introl eq_refl)). f_equal. apply IH. intros y Hy. apply H. now right.
Qed.

Lemma del_all_absorb new : forall m, (forall f, In f new -> eqf f RECENT = false -> ~ In (fkey f) (keys m)) -> del_all new m = m.
Proof.
  unfold del_all. induction new as [|f new IH]; intros m H; simpl; [reflexivity|].
  destruct (eqf f RECENT) eqn:E.
  - apply IH. intros g Hg. apply H. now right.
  - assert (Hm : set_del_ci f m = m).
    { unfold set_del_ci. apply filter_all_true. intros x Hx. apply negb_true_iff, eqf_false.
      intros Hk. apply (H f); [now left | assumption |]. rewrite <- Hk. now apply in_map. }
    rewrite Hm. apply IH. intros g Hg. apply H. now right.
Qed.

Lemma calc_nodup cur new s : NoDup (keys (calculate_new_flags cur new s)).
Proof.
  unfold calculate_new_flags.
  destruct (str_eqb s IT_FLAGS); [apply add_all_NoDup; constructor|].
  destruct (str_eqb s IT_ADD); [apply add_all_NoDup, to_set_ci_NoDup|].
  destruct (str_eqb s IT_DEL); [apply del_all_NoDup, to_set_ci_NoDup | apply to_set_ci_NoDup].
Qed.

Lemma calc_idem cur new s :
  calculate_new_flags (calculate_new_flags cur new s) new s = calculate_new_flags cur new s.
Proof.
  pose proof (calc_nodup cur new s) as Hnd. revert Hnd.
  unfold calculate_new_flags.
  destruct (str_eqb s IT_FLAGS); [reflexivity|].
  destruct (str_eqb s IT_ADD).
  - intros Hnd. rewrite (to_set_ci_nodup_id _ Hnd). apply add_all_absorb.
    intros f Hf Hr. apply add_all_keys. right. split; [now apply in_map | now apply eqf_false].
  - destruct (str_eqb s IT_DEL).
    + intros Hnd. rewrite (to_set_ci_nodup_id _ Hnd). apply del_all_absorb.
      intros f Hf Hr Hin. apply del_all_keys in Hin. destruct Hin as [_ Hx]. apply Hx.
      split; [now apply in_map | now apply eqf_false].
    + intros Hnd. now rewrite (to_set_ci_nodup_id _ Hnd).
Qed.

Lemma will_move_after e sp mb item new l :
  will_move e sp mb item new (set_flags l (calculate_new_flags (lk_flags l) new item)) = false.
Proof.
  unfold will_move, junk_added, nonjunk_added. simpl. rewrite calc_idem.
  now rewrite !andb_negb_l.
Qed.

(** ---------- rows, keys ---------- *)

Lemma uniq_inj ls : uniq_keys ls -> forall a b, In a ls -> In b ls -> lkey a = lkey b -> a = b.
Proof.
  unfold uniq_keys. induction ls as [|x ls IH]; simpl; intros H a b Ha Hb E; [contradiction|].
  inversion H as [|? ? Hx Hn]; subst.
  destruct Ha as [<-|Ha], Hb as [<-|Hb]; auto.
  - exfalso. apply Hx. rewrite E. now apply in_map.
  - exfalso. apply Hx. rewrite <- E. now apply in_map.
Qed.

Lemma has_key_lkey mb u l : has_key mb u l = true <-> lkey l = (mb, u).
Proof.
  unfold has_key, lkey. rewrite andb_true_iff, !Z.eqb_eq. split; [intros [-> ->]; auto | intros [= -> ->]; auto].
Qed.

Definition upd (mb : Z) (T : list Z) (item : str) (new : list str) (l : link) : link :=
  if in_mbox mb l && memZ (lk_uid l) T then set_flags l (calculate_new_flags (lk_flags l) new item) else l.

Lemma spec_update_upd ls mb T item new : spec_update ls mb T item new = map (upd mb T item new) ls.
Proof. reflexivity. Qed.

Lemma upd_lkey mb T item new l : lkey (upd mb T item new l) = lkey l.
Proof. unfold upd. now destruct (in_mbox mb l && memZ (lk_uid l) T). Qed.
Lemma upd_msg_ mb T item new l : lk_msg (upd mb T item new l) = lk_msg l.
Proof. unfold upd. now destruct (in_mbox mb l && memZ (lk_uid l) T). Qed.
Lemma upd_uid_ mb T item new l : lk_uid (upd mb T item new l) = lk_uid l.
Proof. unfold upd. now destruct (in_mbox mb l && memZ (lk_uid l) T). Qed.
Lemma upd_mbox_ mb T item new l : lk_mbox (upd mb T item new l) = lk_mbox l.
Proof. unfold upd. now destruct (in_mbox mb l && memZ (lk_uid l) T). Qed.

Lemma map_lkey_upd ls mb T item new : map lkey (map (upd mb T item new) ls) = map lkey ls.
Proof. rewrite map_map. apply map_ext. intros l. apply upd_lkey. Qed.

Lemma memZ_app x a b : memZ x (a ++ b) = memZ x a || memZ x b.
Proof. unfold memZ. apply existsb_app. Qed.

Lemma upd_compose mb T1 T2 item new l :
  upd mb T2 item new (upd mb T1 item new l) = upd mb (T1 ++ T2) item new l.
Proof.
  unfold upd at 2 3. rewrite memZ_app.
  destruct (in_mbox mb l) eqn:Em; simpl.
  - destruct (memZ (lk_uid l) T1) eqn:E1; simpl.
    + unfold upd. simpl. unfold in_mbox in *. simpl. rewrite Em. simpl.
      destruct (memZ (lk_uid l) T2); [|reflexivity].
      unfold set_flags. simpl. now rewrite calc_idem.
    + unfold upd. rewrite Em. reflexivity.
  - unfold upd. rewrite Em. reflexivity.
Qed.

Lemma spec_update_compose ls mb T1 T2 item new :
  spec_update (spec_update ls mb T1 item new) mb T2 item new = spec_update ls mb (T1 ++ T2) item new.
Proof. rewrite !spec_update_upd, map_map. apply map_ext. intros l. apply upd_compose. Qed.

Lemma spec_update_nil ls mb item new : spec_update ls mb [] item new = ls.
Proof.
  rewrite spec_update_upd. rewrite <- (map_id ls) at 2. apply map_ext. intros l.
  unfold upd. simpl. now rewrite andb_false_r.
Qed.

Lemma find_map_pres {A} (p : A -> bool) (g : A -> A) l :
  (forall x, p (g x) = p x) -> find p (map g l) = option_map g (find p l).
Proof.
  intros H. induction l as [|x l IH]; simpl; [reflexivity|]. rewrite H. now destruct (p x).
Qed.

Lemma find_key_upd ls mb T item new mb' u :
  find_key (map (upd mb T item new) ls) mb' u = option_map (upd mb T item new) (find_key ls mb' u).
Proof.
  unfold find_key. apply find_map_pres. intros l. unfold has_key. now rewrite upd_mbox_, upd_uid_.
Qed.

(** ---------- UID STORE ---------- *)

(** a row that is not re-filed is updated in place - also when Junk is added
    inside Spam / NonJunk inside INBOX (MoveMessageToMailbox reports "not moved") *)
Lemma no_move_row e s mb l0 item new :
  will_move e (spam s) mb item new l0 = false ->
  store_row e s mb l0 item new = with_links s (upd_uid mb (lk_uid l0) (links s) (calculate_new_flags (lk_flags l0) new item)).
Proof.
  unfold will_move, store_row, move. cbv zeta.
  destruct (junk_added _ _).
  - destruct (spam s) as [d|]; [|reflexivity]. intros H. apply negb_false_iff in H. now rewrite H.
  - destruct (nonjunk_added _ _); [|reflexivity].
    intros H. apply negb_false_iff in H. now rewrite H.
Qed.

Lemma store_uid_one_spec e s mb item new u :
  uniq_keys (links s) ->
  (forall l0, find_key (links s) mb u = Some l0 -> will_move e (spam s) mb item new l0 = false) ->
  store_uid_one e mb item new s u = with_links s (spec_update (links s) mb [u] item new).
Proof.
  intros Hu Ht. unfold store_uid_one. set (ls := links s) in *. destruct (find_key ls mb u) as [l0|] eqn:Ef.
  - rewrite (no_move_row _ _ _ _ _ _ (Ht l0 eq_refl)). f_equal. fold ls.
    assert (Hk0 : lk_uid l0 = u).
    { apply find_some in Ef. destruct Ef as [_ Hk]. apply has_key_lkey in Hk. now injection Hk. }
    rewrite Hk0. unfold upd_uid. rewrite spec_update_upd. apply map_ext_in. intros l Hl.
    unfold upd, has_key, in_mbox, memZ. simpl. rewrite orb_false_r.
    destruct ((lk_mbox l =? mb) && (lk_uid l =? u)) eqn:E; [|reflexivity].
    apply find_some in Ef. destruct Ef as [Hin Hk].
    assert (l = l0).
    { apply (uniq_inj ls Hu); auto. apply has_key_lkey in Hk. rewrite Hk. now apply has_key_lkey. }
    now subst.
  - assert (K : spec_update ls mb [u] item new = ls).
    { rewrite spec_update_upd. rewrite <- (map_id ls) at 2. apply map_ext_in. intros l Hl.
      unfold upd, in_mbox, memZ. simpl. rewrite orb_false_r.
      pose proof (find_none _ _ Ef l Hl) as Hn. unfold has_key in Hn. now rewrite Hn. }
    rewrite K. subst ls. now destruct s.
Qed.

Lemma store_uid_fold e mb item new : forall uids s,
  uniq_keys (links s) ->
  (forall u l0, In u uids -> find_key (links s) mb u = Some l0 -> will_move e (spam s) mb item new l0 = false) ->
  fold_left (store_uid_one e mb item new) uids s = with_links s (spec_update (links s) mb uids item new).
Proof.
  induction uids as [|u uids IH]; intros s Hu Ht; simpl.
  - rewrite spec_update_nil. now destruct s.
  - rewrite store_uid_one_spec; auto.
    2:{ intros l0 Hf. apply (Ht u l0); auto. now left. }
    rewrite IH.
    + simpl. unfold with_links. simpl. f_equal. apply (spec_update_compose (links s) mb [u] uids).
    + simpl. unfold uniq_keys. rewrite spec_update_upd, map_lkey_upd. exact Hu.
    + simpl. intros u' l0' Hin Hf. rewrite spec_update_upd, find_key_upd in Hf.
      destruct (find_key (links s) mb u') as [l0|] eqn:Ef; [|discriminate]. simpl in Hf. injection Hf as <-.
      unfold upd. destruct (in_mbox mb l0 && memZ (lk_uid l0) [u]).
      * apply will_move_after.
      * apply (Ht u' l0); auto. now right.
Qed.

Lemma junk_class_none e sp mb item new rows :
  junk_class e sp mb item new rows = None -> forall l, In l rows -> will_move e sp mb item new l = false.
Proof.
  unfold junk_class. destruct (existsb _ rows) eqn:E; [discriminate|]. intros _ l Hl.
  rewrite <- not_true_iff_false, existsb_exists in E.
  destruct (will_move e sp mb item new l) eqn:Ew; [|reflexivity]. exfalso. apply E. now exists l.
Qed.

Lemma rows_of_uids_In ls mb uids u l0 :
  In u uids -> find_key ls mb u = Some l0 -> In l0 (rows_of_uids ls mb uids).
Proof.
  intros Hu Hf. unfold rows_of_uids. apply in_flat_map. exists u. split; [assumption|]. rewrite Hf. now left.
Qed.

Theorem store_uid_exact e s mb q item new :
  uniq_keys (links s) ->
  junk_class e (spam s) mb item new (rows_of_uids (links s) mb (expand_uid (links s) mb q)) = None ->
  store_uid e s mb q item new = with_links s (spec_update (links s) mb (expand_uid (links s) mb q) item new).
Proof.
  intros Hu Hc. unfold store_uid. apply store_uid_fold; [assumption|].
  intros u l0 Hin Hf. apply (junk_class_none _ _ _ _ _ _ Hc). eapply rows_of_uids_In; eauto.
Qed.

(** plain STORE: the same loop over the UIDs the sequence set denotes when the
    command starts *)
Theorem store_seq_exact e s mb q item new :
  uniq_keys (links s) ->
  junk_class e (spam s) mb item new (rows_of_uids (links s) mb (seq_targets (links s) mb q)) = None ->
  store_seq e s mb q item new = with_links s (spec_update (links s) mb (seq_targets (links s) mb q) item new).
Proof.
  intros Hu Hc. unfold store_seq. apply store_uid_fold; [assumption|].
  intros u l0 Hin Hf. apply (junk_class_none _ _ _ _ _ _ Hc). eapply rows_of_uids_In; eauto.
Qed.
