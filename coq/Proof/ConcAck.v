(** C08 — (b) an acknowledged delivery/append is linked, for every schedule:
    - thread sets without removing operations ([keeps]: deliveries, appends,
      CREATE, UID COPY): the link sits at the thread's (mailbox, uid) with the
      thread's own message;
    - thread sets of deliveries, appends and CREATE only ([simple]): that link
      is the ONLY link carrying the message (exactly once);
    plus the regression instances of the two repaired races. *)
From Coq Require Import String Ascii List Bool ZArith Lia Arith.
From Raven Require Import Base.GoStr Model.Store Model.Ops Model.Conc Proof.StoreInv
  Proof.ConcStore Proof.ConcInv.
Import ListNotations.
Local Open Scope Z_scope.

Definition all_progs (P : prog -> bool) (c : config) : Prop :=
  forall i th, nth_error (c_threads c) i = Some th -> P (t_prog th) = true.

Definition linked (s : store) (mb m u : Z) : Prop :=
  exists l, In l (links s) /\ lkey l = (mb, u) /\ lk_msg l = m.

Record KInv (c : config) : Prop := mkKInv {
  k_progs : all_progs keeps c;
  k_ok : forall i th mb m u, nth_error (c_threads c) i = Some th -> t_st th = SOk mb m u ->
         linked (c_store c) mb m u
}.

Lemma start_prog p : t_prog (start p) = p.
Proof. destruct p; reflexivity. Qed.
Lemma start_not_ok p mb m u : t_st (start p) <> SOk mb m u.
Proof. destruct p; discriminate. Qed.

Lemma init_progs P s ps : forallb P ps = true -> all_progs P (init_cfg s ps).
Proof.
  intros H i th N. cbn [init_cfg c_threads] in N. apply nth_error_In in N.
  apply in_map_iff in N. destruct N as (p & <- & Hp). rewrite start_prog.
  rewrite forallb_forall in H. auto.
Qed.

Lemma init_kinv s ps : forallb keeps ps = true -> KInv (init_cfg s ps).
Proof.
  intros H. split; [apply init_progs; exact H|].
  intros i th mb m u N S. cbn [init_cfg c_threads] in N. apply nth_error_In in N.
  apply in_map_iff in N. destruct N as (p & <- & _). exfalso. eapply start_not_ok; eauto.
Qed.

Lemma step_progs P c i : all_progs P c -> all_progs P (sched_step c i).
Proof.
  intros A. unfold sched_step. destruct (nth_error (c_threads c) i) as [th|] eqn:N; [|exact A].
  destruct (thread_step (c_store c) th) as [s' th'] eqn:T.
  destruct (thread_step_effect _ _ _ _ T) as [P' _].
  intros j thj H. cbn [c_threads] in H. rewrite nth_error_replace in H.
  destruct (Nat.eqb j i).
  - rewrite N in H. injection H as <-. rewrite P'. eauto.
  - eauto.
Qed.

Lemma linked_keeps s s' mb m u : Keeps s s' -> linked s mb m u -> linked s' mb m u.
Proof.
  intros K (l & I & E1 & E2). destruct (K l I) as (l' & I' & E1' & E2').
  exists l'. repeat split; auto; congruence.
Qed.

Lemma sched_step_kinv c i : KInv c -> KInv (sched_step c i).
Proof.
  intros [A K]. split; [apply step_progs; exact A|].
  unfold sched_step. destruct (nth_error (c_threads c) i) as [th|] eqn:N; [|exact K].
  destruct (thread_step (c_store c) th) as [s' th'] eqn:T.
  destruct (thread_step_effect _ _ _ _ T) as [P E].
  cbn [c_store c_threads].
  assert (G : Keeps (c_store c) s' /\
              (forall mb m u, t_st th' = SOk mb m u -> linked s' mb m u)).
  { destruct E as [EL EN EO EK ES | mb ES EL EN ES' | mb m u ES EI ES' | a EP ES -> EO EK].
    - split; [apply Keeps_same; exact EL|]. intros mb m u S.
      assert (X : is_okst th = true). { rewrite <- EK. unfold is_okst. rewrite S. reflexivity. }
      rewrite (ES X) in S. eapply linked_keeps; [apply Keeps_same; exact EL|]. eauto.
    - split; [apply Keeps_same; exact EL|]. intros mb' m u S. congruence.
    - split; [eapply Keeps_insert; eauto|]. intros mb' m' u' S. rewrite ES' in S.
      injection S as <- <- <-. destruct (insert_link_new _ _ _ _ _ _ EI) as (l & I & E1 & E2).
      exists l. auto.
    - split.
      + apply atomic_keeps. rewrite <- EP. eauto.
      + intros mb m u S. unfold is_okst in EK. rewrite S in EK. discriminate. }
  destruct G as [GK GN].
  intros j thj mb m u H S. rewrite nth_error_replace in H. destruct (Nat.eqb j i).
  - rewrite N in H. injection H as <-. eauto.
  - eapply linked_keeps; eauto.
Qed.

Lemma run_sched_kinv sch : forall c, KInv c -> KInv (run_sched sch c).
Proof.
  induction sch as [|i r IH]; simpl; intros c I; auto. apply IH. apply sched_step_kinv. exact I.
Qed.

Lemma c08_ack_linked_l : forall s ps sch i th mb m u,
  forallb keeps ps = true ->
  nth_error (c_threads (run_sched sch (init_cfg s ps))) i = Some th ->
  t_st th = SOk mb m u ->
  linked (c_store (run_sched sch (init_cfg s ps))) mb m u.
Proof.
  intros s ps sch i th mb m u H. apply (k_ok _ (run_sched_kinv sch _ (init_kinv s ps H))).
Qed.

(** ---- exactly once (simple thread sets) ------------------------------------------------------ *)

Definition msgs_nodup (s : store) : Prop := NoDup (map lk_msg (links s)).

Lemma sched_step_minv c i :
  CInv c -> all_progs simple c -> msgs_nodup (c_store c) -> msgs_nodup (c_store (sched_step c i)).
Proof.
  intros I A M. unfold sched_step. destruct (nth_error (c_threads c) i) as [th|] eqn:N; [|exact M].
  destruct (thread_step (c_store c) th) as [s' th'] eqn:T.
  destruct (thread_step_effect _ _ _ _ T) as [P E]. cbn [c_store]. unfold msgs_nodup in *.
  destruct E as [EL _ _ _ _ | mb _ EL _ _ | mb m u ES EI _ | a EP _ -> _ _].
  - rewrite EL. exact M.
  - rewrite EL. exact M.
  - destruct (insert_link_shape _ _ _ _ _ _ EI) as (_ & L & _ & _). rewrite L, map_app. simpl.
    apply NoDup_app_one; auto. intros C. apply in_map_iff in C. destruct C as (l & E & Hl).
    eapply (ci_nolink _ I i th m N); eauto.
    + unfold owns. rewrite ES. reflexivity.
    + unfold is_okst. rewrite ES. reflexivity.
  - rewrite atomic_simple; auto. rewrite <- EP. eauto.
Qed.

Lemma run_sched_minv sch : forall c,
  CInv c -> all_progs simple c -> msgs_nodup (c_store c) ->
  msgs_nodup (c_store (run_sched sch c)).
Proof.
  induction sch as [|i r IH]; simpl; intros c I A M; auto.
  apply IH; [apply sched_step_inv | apply step_progs | apply sched_step_minv]; auto.
Qed.

Lemma simple_keeps p : simple p = true -> keeps p = true.
Proof. destruct p as [| |[]| |]; simpl; auto. Qed.

Lemma c08_exactly_once_l : forall s ps sch i th mb m u,
  store_ok s -> msgs_nodup s -> forallb simple ps = true ->
  nth_error (c_threads (run_sched sch (init_cfg s ps))) i = Some th ->
  t_st th = SOk mb m u ->
  exists l, In l (links (c_store (run_sched sch (init_cfg s ps)))) /\
            lk_mbox l = mb /\ lk_uid l = u /\ lk_msg l = m /\
            forall l', In l' (links (c_store (run_sched sch (init_cfg s ps)))) ->
                       lk_msg l' = m -> l' = l.
Proof.
  intros s ps sch i th mb m u OK M S N St.
  assert (K : forallb keeps ps = true).
  { rewrite forallb_forall in *. intros p Hp. apply simple_keeps. auto. }
  destruct (c08_ack_linked_l s ps sch i th mb m u K N St) as (l & I & E1 & E2).
  exists l. unfold lkey in E1. injection E1 as E1 E1'. repeat split; auto.
  intros l' I' E'.
  pose proof (run_sched_minv sch _ (init_inv s ps OK) (init_progs simple s ps S) M) as MN.
  eapply NoDup_map_inj; eauto. congruence.
Qed.

(** ---- a thread on its own = the sequential operation of Model/Ops.v --------------------------- *)

Definition res_ok (r : result) : bool :=
  match r with ROk | RAppendUid _ _ => true | _ => false end.

(** ---- the schedules that used to bounce a delivery (classes uidnext_race and
    create_race, repaired by fixes/c08-atomic-uidnext.patch and
    fixes/c08-deliver-folder-race.patch) --------------------------------------------- *)

Definition failed_at (c : config) (i : nat) : bool :=
  match nth_error (c_threads c) i with Some th => is_failst th | None => false end.

(** two deliveries to INBOX, allocation steps back to back, inserts in the
    opposite order: both are stored, UIDs 1 and 2, uid_next 3 *)
Definition w_ps : list prog := [PDeliver INBOX 0; PDeliver INBOX 0].
Definition w_sch : list tid := [0; 0; 1; 1; 0; 1; 1; 0]%nat.

Lemma c08_regression_lost_delivery_l :
  failed_at (run_sched w_sch (init_cfg (init 0) w_ps)) 0 = false /\
  failed_at (run_sched w_sch (init_cfg (init 0) w_ps)) 1 = false /\
  mbox_view (run_sched w_sch (init_cfg (init 0) w_ps)) INBOX = (3, [(1, 0); (2, 1)]).
Proof. vm_compute. repeat split. Qed.

(** two first deliveries to a missing folder, both see it missing: the loser
    of the CREATE looks it up again and delivers *)
Definition w2_ps : list prog := [PDeliver (S_ "D") 7; PDeliver (S_ "D") 8].
Definition w2_sch : list tid := [0; 1; 0; 1; 0; 0; 0; 1; 1; 1; 1; 1]%nat.

Lemma c08_regression_create_race_l :
  failed_at (run_sched w2_sch (init_cfg (init 0) w2_ps)) 0 = false /\
  failed_at (run_sched w2_sch (init_cfg (init 0) w2_ps)) 1 = false /\
  mbox_view (run_sched w2_sch (init_cfg (init 0) w2_ps)) (S_ "D") = (3, [(1, 0); (2, 1)]).
Proof. vm_compute. repeat split. Qed.
