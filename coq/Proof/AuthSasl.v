(** C04 — the SASL service: every answer to an AUTH request is one line
    carrying the request's id; an OK line only after a 200 for exactly the
    decoded pair. *)
From Coq Require Import String Ascii List Bool Arith NArith ZArith Lia.
From Raven Require Import Base.GoStr Base.GoStrFacts Base.GoStrB64 Spec.Json Model.Auth Spec.AuthSpec
  Proof.AuthJson Proof.AuthIdent.
Import ListNotations.
Local Open Scope char_scope.

Lemma contains_app a b c : contains_byte (a ++ b) c = contains_byte a c || contains_byte b c.
Proof. unfold contains_byte. apply existsb_app. Qed.

Lemma contains_cons d s c : contains_byte (d :: s) c = Ascii.eqb c d || contains_byte s c.
Proof. reflexivity. Qed.

Lemma contains_rev a c : contains_byte (rev a) c = contains_byte a c.
Proof.
  induction a as [|d a IH]; [reflexivity|]. simpl rev. rewrite contains_app, IH.
  unfold contains_byte. simpl. rewrite orb_false_r. apply orb_comm.
Qed.

Lemma contains_firstn n a c : contains_byte (firstn n a) c = true -> contains_byte a c = true.
Proof.
  revert a; induction n as [|n IH]; intros [|d a]; simpl; try discriminate.
  unfold contains_byte in *. simpl. rewrite !orb_true_iff. intros [H|H]; [now left|right; now apply IH].
Qed.

Lemma contains_drop_cr raw c : contains_byte (drop_cr raw) c = true -> contains_byte raw c = true.
Proof. unfold drop_cr. destruct (has_suffix raw [CR]); [apply contains_firstn|trivial]. Qed.

(** pieces of a split contain only octets of the whole *)
Lemma split_in_sub s c x k : In x (split_byte s c) -> contains_byte x k = true -> contains_byte s k = true.
Proof.
  remember (length s) as n eqn:En. revert s En x.
  induction n as [n IHn] using lt_wf_ind. intros s En x Hin Hk.
  destruct (contains_byte s c) eqn:Hc.
  - destruct (first_occurrence _ _ Hc) as (a & b & -> & Ha).
    rewrite (split_first _ _ _ Ha) in Hin. rewrite contains_app. destruct Hin as [<-|Hin].
    + now rewrite Hk.
    + assert (contains_byte b k = true).
      { apply (IHn (length b)) with (x := x); auto. subst n. rewrite app_length. simpl. lia. }
      unfold contains_byte in *. simpl. rewrite H. now rewrite !orb_true_r.
  - apply contains_count in Hc. rewrite (split_none _ _ Hc) in Hin. destruct Hin as [<-|[]]. exact Hk.
Qed.

Lemma line1_assoc v id rest : sasl_line1 v id rest = (v ++ TAB :: id ++ TAB :: rest) ++ [LF].
Proof. unfold sasl_line1. rewrite <- app_assoc. simpl. rewrite <- app_assoc. reflexivity. Qed.

Lemma single_line_snoc x : contains_byte x LF = false -> single_line (x ++ [LF]) = true.
Proof. intros H. unfold single_line. rewrite rev_app_distr. simpl. now rewrite contains_rev, H. Qed.

Lemma split_snoc_lf x : contains_byte x LF = false -> split_byte (x ++ [LF]) LF = [x; []].
Proof. intros H. apply contains_count in H. rewrite (split_first _ _ _ H). reflexivity. Qed.

Definition verb_ok (v : str) : Prop := v = S_ "OK" \/ v = S_ "FAIL" \/ v = S_ "CONT".

Lemma line1_wf v id rest : verb_ok v ->
  contains_byte id LF = false -> contains_byte rest LF = false ->
  single_line (sasl_line1 v id rest) = true /\ carries_id id (sasl_line1 v id rest) = true.
Proof.
  intros Hv Hid Hr. split.
  - rewrite line1_assoc. apply single_line_snoc.
    rewrite contains_app. change (TAB :: id ++ TAB :: rest) with ([TAB] ++ id ++ [TAB] ++ rest).
    rewrite !contains_app, Hid, Hr.
    destruct Hv as [->|[->| ->]]; reflexivity.
  - unfold carries_id, sasl_line1.
    assert (E : forall v0, v0 ++ TAB :: id ++ TAB :: rest ++ [LF] = (v0 ++ TAB :: id ++ [TAB]) ++ rest ++ [LF]).
    { intros v0. rewrite <- app_assoc. simpl. rewrite <- app_assoc. reflexivity. }
    rewrite E. destruct Hv as [->|[->| ->]]; rewrite has_prefix_app; rewrite ?orb_true_r; reflexivity.
Qed.

(** has_ok_line on a one-line answer is decided by its verb *)
Lemma ok_line1 v id rest : contains_byte (v ++ TAB :: id ++ TAB :: rest) LF = false ->
  has_ok_line (sasl_line1 v id rest) = has_prefix (v ++ TAB :: id ++ TAB :: rest) (S_ "OK" ++ [TAB]).
Proof.
  intros H. unfold has_ok_line. rewrite line1_assoc, (split_snoc_lf _ H). simpl existsb.
  now rewrite !orb_false_r.
Qed.

Lemma sasl_email_addr domain u : sasl_email domain u = address_of domain u.
Proof. unfold sasl_email, address_of. now destruct (contains_byte u AT). Qed.

(** what handlePlain does before consulting the backend *)
Lemma plain_creds_inl id resp given w :
  sasl_plain_creds id resp given = inl w ->
  exists v rest, w = sasl_line1 v id rest /\ (v = S_ "FAIL" \/ v = S_ "CONT") /\ contains_byte rest LF = false.
Proof.
  unfold sasl_plain_creds. destruct given; simpl.
  - destruct resp as [|r0 resp].
    + intros H; injection H as <-. eexists; eexists; split; [reflexivity|]. split; [now left|reflexivity].
    + destruct (b64_decode (r0 :: resp)) as [dec|].
      * destruct (plain_fields dec) as [[u p]|]; [discriminate|].
        intros H; injection H as <-. eexists; eexists; split; [reflexivity|]. split; [now left|reflexivity].
      * intros H; injection H as <-. eexists; eexists; split; [reflexivity|]. split; [now left|reflexivity].
  - intros H; injection H as <-. eexists; eexists; split; [reflexivity|]. split; [now right|reflexivity].
Qed.

Section OneRequest.
  Variables (domain raw : str) (b : outcome).
  Variables (cmd id mech : str) (ps : list str).
  Hypothesis Hsplit : split_byte (drop_cr raw) TAB = cmd :: id :: mech :: ps.
  Hypothesis Hcmd : cmd = S_AUTH.

  Lemma sasl_line_is_auth : sasl_line domain raw b = sasl_auth domain (cmd :: id :: mech :: ps) b.
  Proof. unfold sasl_line. rewrite Hsplit, Hcmd. reflexivity. Qed.

  Lemma sasl_decoded_is :
    sasl_decoded raw =
    if str_eqb (to_upper mech) (S_ "PLAIN") then
      let '(resp, given) := sasl_params ps [] false in
      match sasl_plain_creds id resp given with inr (u, p) => Some (id, u, p) | inl _ => None end
    else None.
  Proof. unfold sasl_decoded. rewrite Hsplit, Hcmd. rewrite str_eqb_refl. reflexivity. Qed.
End OneRequest.

Lemma request_id_inv raw id : request_id raw = Some id ->
  exists cmd mech ps, split_byte (drop_cr raw) TAB = cmd :: id :: mech :: ps /\ cmd = S_AUTH.
Proof.
  unfold request_id. destruct (split_byte (drop_cr raw) TAB) as [|cmd [|id' [|mech ps]]]; try discriminate.
  destruct (str_eqb cmd S_AUTH) eqn:E; [|discriminate]. intros H; injection H as <-.
  apply str_eqb_eq in E. now exists cmd, mech, ps.
Qed.

Lemma user_bad_false u : sasl_user_bad u = false -> contains_byte u LF = false.
Proof. unfold sasl_user_bad. rewrite !orb_false_iff. tauto. Qed.

(** (d): for EVERY request line and backend outcome, the answer to an AUTH
    request is a single line carrying its id *)
Theorem sasl_single_line domain raw b id :
  contains_byte raw LF = false ->
  request_id raw = Some id ->
  single_line (s_wrote (sasl_line domain raw b)) = true
  /\ carries_id id (s_wrote (sasl_line domain raw b)) = true.
Proof.
  intros Hlf Hid.
  destruct (request_id_inv _ _ Hid) as (cmd & mech & ps & Hs & Hc).
  assert (Hidlf : contains_byte id LF = false).
  { destruct (contains_byte id LF) eqn:E; [|reflexivity].
    assert (In id (split_byte (drop_cr raw) TAB)) by (rewrite Hs; right; now left).
    pose proof (contains_drop_cr _ _ (split_in_sub _ _ _ _ H E)). congruence. }
  rewrite (sasl_line_is_auth domain raw b _ _ _ _ Hs Hc).
  unfold sasl_auth. destruct (sasl_params ps [] false) as [resp given].
  destruct (str_eqb (to_upper mech) (S_ "PLAIN")) eqn:Em.
  - unfold sasl_plain. destruct (sasl_plain_creds id resp given) as [w|[u p]] eqn:Ec.
    + destruct (plain_creds_inl _ _ _ _ Ec) as (v & rest & -> & Hv & Hr). simpl s_wrote.
      apply line1_wf; auto. unfold verb_ok. tauto.
    + destruct (sasl_user_bad u) eqn:Eb.
      * simpl s_wrote. apply line1_wf; auto. unfold verb_ok. tauto.
      * pose proof (user_bad_false _ Eb) as Hu.
        destruct (sasl_authenticate domain u p b) as [bodies ok].
        destruct ok; simpl s_wrote; apply line1_wf; auto; try (unfold verb_ok; tauto);
          repeat rewrite contains_cons; rewrite ?contains_app, Hu; reflexivity.
  - destruct (str_eqb (to_upper mech) (S_ "LOGIN")).
    + unfold sasl_login. destruct resp; simpl s_wrote; apply line1_wf; auto; unfold verb_ok; tauto.
    + simpl s_wrote. apply line1_wf; auto; unfold verb_ok; tauto.
Qed.

Lemma nolf_line v id rest :
  contains_byte v LF = false -> contains_byte id LF = false -> contains_byte rest LF = false ->
  contains_byte (v ++ TAB :: id ++ TAB :: rest) LF = false.
Proof.
  intros Hv Hi Hr. change (TAB :: id ++ TAB :: rest) with ([TAB] ++ id ++ [TAB] ++ rest).
  now rewrite !contains_app, Hv, Hi, Hr.
Qed.

Lemma ok_line_not v id rest : v = S_ "FAIL" \/ v = S_ "CONT" ->
  contains_byte id LF = false -> contains_byte rest LF = false ->
  has_ok_line (sasl_line1 v id rest) = false.
Proof.
  intros Hv Hi Hr. rewrite ok_line1.
  - destruct Hv as [-> | ->]; reflexivity.
  - apply nolf_line; auto. destruct Hv as [-> | ->]; reflexivity.
Qed.

(** (b) for the SASL service, for EVERY request line and backend outcome: an
    OK line is written only after the backend answered 200 to a request built
    from exactly the decoded pair, and the answer is then exactly
    OK <id> user=<decoded user>; the backend reads exactly that pair whenever
    it is valid UTF-8 *)
Theorem sasl_ok_only_200 domain raw b :
  contains_byte raw LF = false ->
  has_ok_line (s_wrote (sasl_line domain raw b)) = true ->
  accepted b = true /\
  exists id u p, sasl_decoded raw = Some (id, u, p)
    /\ s_sent (sasl_line domain raw b) = [build_body (address_of domain u) p]
    /\ (in_domain domain u p = true -> body_exact (build_body (address_of domain u) p) (address_of domain u) p)
    /\ s_wrote (sasl_line domain raw b) = S_ "OK" ++ TAB :: id ++ TAB :: S_ "user=" ++ u ++ [LF].
Proof.
  intros Hlf Hok.
  destruct (split_byte (drop_cr raw) TAB) as [|cmd [|id [|mech ps]]] eqn:Hs;
    try (unfold sasl_line in Hok; rewrite Hs in Hok; discriminate Hok).
  - unfold sasl_line in Hok; rewrite Hs in Hok.
    destruct (str_eqb cmd (S_ "VERSION")); [discriminate Hok|].
    destruct (str_eqb cmd (S_ "CPID")); [discriminate Hok|].
    destruct (str_eqb cmd (S_ "AUTH")); discriminate Hok.
  - destruct (str_eqb cmd S_AUTH) eqn:Ec.
    + apply str_eqb_eq in Ec.
      assert (Hidlf : contains_byte id LF = false).
      { destruct (contains_byte id LF) eqn:E; [|reflexivity].
        assert (In id (split_byte (drop_cr raw) TAB)) by (rewrite Hs; right; now left).
        pose proof (contains_drop_cr _ _ (split_in_sub _ _ _ _ H E)). congruence. }
      rewrite (sasl_line_is_auth domain raw b _ _ _ _ Hs Ec) in *.
      rewrite (sasl_decoded_is raw _ _ _ _ Hs Ec).
      unfold sasl_auth in *. destruct (sasl_params ps [] false) as [resp given].
      destruct (str_eqb (to_upper mech) (S_ "PLAIN")) eqn:Em.
      * unfold sasl_plain in *. destruct (sasl_plain_creds id resp given) as [w|[u p]] eqn:Ecr.
        -- destruct (plain_creds_inl _ _ _ _ Ecr) as (v & rest & -> & Hv & Hr). simpl s_wrote in Hok.
           rewrite (ok_line_not _ _ _ Hv Hidlf Hr) in Hok. discriminate.
        -- destruct (sasl_user_bad u) eqn:Eb.
           { simpl s_wrote in Hok. rewrite ok_line_not in Hok; auto; discriminate. }
           pose proof (user_bad_false _ Eb) as Hu.
           unfold sasl_authenticate in *. destruct (multi_at u) eqn:Em2.
           { simpl s_wrote in Hok. rewrite ok_line_not in Hok; auto; [discriminate|].
             repeat rewrite contains_cons. rewrite ?contains_app, Hu. reflexivity. }
           destruct (accepted b) eqn:Ea.
           ++ split; [reflexivity|]. exists id, u, p. rewrite sasl_email_addr. simpl s_sent. simpl s_wrote.
              repeat split. intros D. unfold in_domain in D. apply andb_true_iff in D as [D1 D2].
              now apply body_exact_valid.
           ++ simpl s_wrote in Hok. rewrite ok_line_not in Hok; auto; [discriminate|].
              repeat rewrite contains_cons. rewrite ?contains_app, Hu. reflexivity.
      * destruct (str_eqb (to_upper mech) (S_ "LOGIN")).
        -- unfold sasl_login in Hok. destruct resp; simpl s_wrote in Hok; rewrite ok_line_not in Hok; auto; discriminate.
        -- simpl s_wrote in Hok. rewrite ok_line_not in Hok; auto; discriminate.
    + unfold sasl_line in Hok; rewrite Hs in Hok.
      destruct (str_eqb cmd (S_ "VERSION")); [discriminate Hok|].
      destruct (str_eqb cmd (S_ "CPID")); [discriminate Hok|].
      change (S_ "AUTH") with S_AUTH in Hok. rewrite Ec in Hok. discriminate Hok.
Qed.

(** user names with TAB, CR or LF, and user names with more than one '@', are
    answered FAIL without contacting the backend (the first without echo) *)
Theorem sasl_bad_user_refused domain id resp given u p b :
  sasl_plain_creds id resp given = inr (u, p) -> sasl_user_bad u = true ->
  sasl_plain domain id resp given b =
  mk_sasl [] (sasl_line1 (S_ "FAIL") id (S_ "reason=Invalid credentials format")).
Proof. intros E B. unfold sasl_plain. now rewrite E, B. Qed.

Theorem sasl_multi_at_refused domain u p b : multi_at u = true ->
  sasl_authenticate domain u p b = ([], false).
Proof. intros M. unfold sasl_authenticate. now rewrite M. Qed.
