(** C13 — statements assembled for Properties/C13.v (token-level facts in the
    boolean form used there, and the refutation witnesses). *)
From Coq Require Import String Ascii List Bool Arith NArith Lia.
From Raven Require Import Base.GoStr Base.GoStrFacts Spec.Grammar Model.Respond Model.RespondFetch
     Proof.Grammar Proof.RespondTok Proof.RespondAsm.
Import ListNotations.

Lemma quote_or_nil_wf s :
  tokb (quote_or_nil s) = true
  /\ (s <> [] -> clean s = true -> unquote (quote_or_nil s) = Some s)
  /\ (clean s = false -> quote_or_nil s = lit_text s).
Proof.
  split; [apply tokb_tokp, tokp_quote_or_nil_any|]. split; [apply unquote_quote|].
  intros H. destruct s as [|c s]; [discriminate|]. unfold quote_or_nil. now rewrite H.
Qed.

(** a strict client that meets a literal reads the announcement and exactly
    the announced octets as ONE token, whatever the octets are *)
Lemma literal_exact p rest c : is_sep c = true ->
  take (Norm, 0) 0 false [] (lit_text p ++ c :: rest) = Some (lit_text p, c :: rest).
Proof. intros Hc. apply take_tok; [apply tokp_lit_text|exact Hc]. Qed.

Lemma literal_tok p : tokb (lit_text p) = true.
Proof. apply tokb_tokp, tokp_lit_text. Qed.

Lemma number_tok n : tokb (dec n) = true.
Proof. apply tokb_tokp, tokp_dec. Qed.

Lemma flags_value_tok flags : flags_plain flags = true -> tokb (LP :: flags ++ [RP]) = true.
Proof. intros E. apply tokb_tokp, tokp_paren. exact (inl_flags _ 0 E). Qed.

Lemma list_line_ok kw attrs name :
  forallb plain_byte kw = true -> forallb flag_byte attrs = true -> clean name = true ->
  wf_stream (send (list_line kw attrs name)) = true
  /\ tokb (quote_string name) = true /\ unquote (quote_string name) = Some name.
Proof.
  intros Hk Ha Hn. split; [now apply list_line_wf|].
  split; [apply tokb_tokp, tokp_quote_string, Hn|apply unquote_quote_string].
Qed.

Lemma status_line_ok name items :
  clean name = true -> Forall (fun kv => forallb plain_byte (fst kv) = true) items ->
  wf_stream (send (status_line name items)) = true.
Proof. intros Hn Hi. now apply status_line_wf. Qed.

(** ---- witnesses ---- *)
Definition w_two_literals : list out :=
  [Lit (S_ "BODY[TEXT]") (S_ "hello"); Lit (S_ "BODY[HEADER]") (S_ "a: b")].
Definition w_fields_after_section : list out :=
  [Lit (S_ "BODY[1]") (S_ "part one"); Lit (S_ "BODY[HEADER.FIELDS (SUBJECT)]") (S_ "Subject: x")].
Definition w_literal_then_inline : list out :=
  [Lit (S_ "BODY[1]") (S_ "part one"); Inline (S_ "BODY[2]") (S_ "NIL")].

(** the lines raven sent for these contributions BEFORE the F14 fix (item names
    first, all literals after them; HEADER.FIELDS overwriting): the strict client
    cannot pair them. Plain byte strings, no reference to the current model. *)
Definition old_two_literals : str :=
  S_ "* 1 FETCH (BODY[TEXT] BODY[HEADER] {5}" ++ crlf ++ S_ "hello {4}" ++ crlf ++ S_ "a: b)".
Definition old_fields_overwrite : str :=
  S_ "* 1 FETCH (BODY[1] BODY[HEADER.FIELDS (SUBJECT)] {10}" ++ crlf ++ S_ "Subject: x)".
Definition old_literal_then_inline : str :=
  S_ "* 1 FETCH (BODY[1] BODY[2] NIL {8}" ++ crlf ++ S_ "part one)".

Lemma old_assembly_unreadable :
  fetch_pairs (send old_two_literals) = None /\ fetch_pairs (send old_fields_overwrite) = None
  /\ option_map snd (fetch_pairs (send old_literal_then_inline))
     <> Some (map pair_of w_literal_then_inline).
Proof. vm_compute. repeat split; discriminate. Qed.

(** ... and the same contributions through the repaired assembly *)
Lemma new_assembly_examples :
  fetch_pairs (send (fetch_line 1 w_two_literals)) = Some (dec 1, map pair_of w_two_literals)
  /\ fetch_pairs (send (fetch_line 1 w_fields_after_section)) = Some (dec 1, map pair_of w_fields_after_section)
  /\ fetch_pairs (send (fetch_line 1 w_literal_then_inline)) = Some (dec 1, map pair_of w_literal_then_inline).
Proof. vm_compute. auto. Qed.

(** the LIST / STATUS lines raven sent for the names a-quote-b and c-backslash-d BEFORE the F15 fix *)
Lemma old_name_lines_malformed :
  wf_stream (send (S_ "* LIST (\Unmarked) ""/"" ""a""b""")) = false
  /\ wf_stream (send (S_ "* LIST (\Unmarked) ""/"" ""c\d""")) = false
  /\ wf_stream (send (S_ "* STATUS ""a""b"" (MESSAGES 0)")) = false.
Proof. vm_compute. auto. Qed.

Lemma new_name_lines_examples :
  wf_stream (send (list_line (S_ "LIST") (S_ "\Unmarked") (S_ "a""b"))) = true
  /\ wf_stream (send (list_line (S_ "LIST") (S_ "\Unmarked") (S_ "c\d"))) = true
  /\ wf_stream (send (status_line (S_ "a""b") [(S_ "MESSAGES", 0)])) = true.
Proof. vm_compute. auto. Qed.

(** regression (fix e64d29e): the line raven sent when x)y could be stored as a flag *)
Lemma old_flag_atom_malformed :
  wf_stream (send (S_ "* 1 FETCH (FLAGS (x)y))")) = false /\ flags_plain (S_ "x)y") = false.
Proof. vm_compute. auto. Qed.

(** ---- requested items that are not answered under their own name ---- *)
Definition w_env : fenv :=
  Build_fenv 7 (S_ "\Seen") (S_ "01-Jan-2024 00:00:00 +0000")
    (S_ "Subject: x" ++ crlf ++ S_ "To: a@b" ++ crlf ++ crlf ++ S_ "hello world" ++ crlf)
    (S_ "(""TEXT"" ""PLAIN"" NIL NIL NIL ""7BIT"" 13 1 NIL NIL NIL)") [(S_ "1", S_ "hello world")] [].

Definition unanswered (req : list fitem) (cls : finding) : Prop :=
  classify_req req = Some cls
  /\ match fetch_plan (fetch_items (render_req req)) w_env with
     | Some plan => answered req plan = false
     | None => False
     end.

(** still open: RFC822 is answered as BODY[] (raven's test suite asserts it) *)
Lemma refuted_rfc822_renamed : unanswered [I_Simple (S_ "RFC822")] rfc822_renamed.
Proof. vm_compute. auto. Qed.

(** regression (item_suppressed / partial_range, repaired by the item parser of
    fix wave 3): the requests that used to lose an item, or to answer a range
    without its origin, are answered item by item *)
Definition answered_now (req : list fitem) : Prop :=
  match fetch_plan (fetch_items (render_req req)) w_env with
  | Some plan => answered req plan = true /\ forallb out_okb plan = true
  | None => False
  end.

Lemma regression_items_answered :
  answered_now [I_Simple (S_ "BODY"); I_Sec true (S_Part (S_ "1") false) None]
  /\ answered_now [I_Simple (S_ "RFC822.SIZE"); I_Simple (S_ "RFC822.HEADER"); I_Simple (S_ "BODYSTRUCTURE"); I_Simple (S_ "BODY")]
  /\ answered_now [I_Sec false S_Header None; I_Sec false (S_Fields [S_ "TO"]) None; I_Sec true (S_Fields [S_ "SUBJECT"; S_ "X-UID"]) None]
  /\ answered_now [I_Sec true S_Header None; I_Sec true S_Header (Some (3, 5))]
  /\ answered_now [I_Sec false S_Text (Some (0, 5)); I_Sec false (S_Part (S_ "1") false) (Some (3, 4)); I_Sec false S_Text None]
  /\ answered_now [I_Sec false (S_Fields [S_ "SUBJECT"]) (Some (2, 6)); I_Sec false (S_Part (S_ "2") false) (Some (0, 9))].
Proof. vm_compute. repeat split; reflexivity. Qed.

(** the old answers, as byte strings: BODY missing next to BODY[1]; BODY[TEXT]<0.5>
    answered without origin *)
Lemma old_item_answers :
  option_map (fun r => map fst (snd r)) (fetch_pairs (send (S_ "* 1 FETCH (BODY[1] {5}" ++ crlf ++ S_ "hello)")))
    = Some [S_ "BODY[1]"]
  /\ option_map (fun r => map fst (snd r)) (fetch_pairs (send (S_ "* 1 FETCH (BODY[TEXT] {5}" ++ crlf ++ S_ "hello)")))
    = Some [S_ "BODY[TEXT]"].
Proof. vm_compute. auto. Qed.
