(** C13 — statements assembled for Properties/C13.v (token-level facts in the
    boolean form used there, and the refutation witnesses). *)
From Coq Require Import String Ascii List Bool Arith NArith Lia.
From Raven Require Import Base.GoStr Base.GoStrFacts Spec.Grammar Model.Respond
     Proof.Grammar Proof.RespondTok Proof.RespondAsm.
Import ListNotations.

Lemma quote_or_nil_wf s : clean s = true ->
  tokb (quote_or_nil s) = true /\ (s <> [] -> unquote (quote_or_nil s) = Some s).
Proof.
  intros H. split; [apply tokb_tokp, tokp_quote_or_nil, H|apply unquote_quote].
Qed.

(** a strict client that meets a literal reads the announcement and exactly
    the announced octets as ONE token, whatever the octets are *)
Lemma literal_exact p rest c : is_sep c = true ->
  take (Norm, 0) 0 false [] (lit_text p ++ c :: rest) = Some (lit_text p, c :: rest).
Proof. intros Hc. apply take_tok; [apply tokp_lit_text|exact Hc]. Qed.

Lemma literal_tok p : tokb (lit_text p) = true.
Proof. apply tokb_tokp, tokp_lit_text. Qed.

Lemma number_tok n : tokb (dec n) = true.
Proof. apply tokb_tokp, tokp_dec. Qed.

Lemma flags_value_tok flags : classify_flags flags = None -> tokb (LP :: flags ++ [RP]) = true.
Proof.
  unfold classify_flags. destruct (forallb flag_byte flags) eqn:E; [intros _|discriminate].
  apply tokb_tokp, tokp_paren. exact (inl_flags _ 0 E).
Qed.

Lemma list_line_ok kw attrs name :
  forallb plain_byte kw = true -> forallb flag_byte attrs = true -> classify_name name = None ->
  wf_stream (send (list_line kw attrs name)) = true /\ unquote (DQ :: name ++ [DQ]) = Some name.
Proof.
  unfold classify_name. intros Hk Ha Hn. destruct (name_plain name) eqn:E; [|discriminate].
  split; [now apply list_line_wf|now apply list_name_roundtrip].
Qed.

Lemma status_line_ok name items :
  classify_name name = None -> Forall (fun kv => forallb plain_byte (fst kv) = true) items ->
  wf_stream (send (status_line name items)) = true.
Proof.
  unfold classify_name. intros Hn Hi. destruct (name_plain name) eqn:E; [|discriminate].
  now apply status_line_wf.
Qed.

(** ---- witnesses ---- *)
Definition w_two_literals : list out :=
  [Lit (S_ "BODY[TEXT]") (S_ "hello"); Lit (S_ "BODY[HEADER]") (S_ "a: b")].
Definition w_fields_overwrite : list out :=
  [Lit (S_ "BODY[1]") (S_ "part one"); LitOver (S_ "BODY[HEADER.FIELDS (SUBJECT)]") (S_ "Subject: x")].
Definition w_literal_then_inline : list out :=
  [Lit (S_ "BODY[1]") (S_ "part one"); Inline (S_ "BODY[2]") (S_ "NIL")].

Lemma refuted_multi_literal :
  exists plan, classify_plan plan = Some multi_literal /\ forallb out_okb plan = true
               /\ fetch_pairs (send (fetch_line 1 plan)) = None.
Proof. exists w_two_literals. vm_compute. auto. Qed.

Lemma refuted_fields_overwrite :
  classify_plan w_fields_overwrite = Some multi_literal /\ forallb out_okb w_fields_overwrite = true
  /\ fetch_pairs (send (fetch_line 1 w_fields_overwrite)) = None.
Proof. vm_compute. auto. Qed.

Lemma refuted_literal_then_inline :
  classify_plan w_literal_then_inline = Some multi_literal /\ forallb out_okb w_literal_then_inline = true
  /\ fetch_pairs (send (fetch_line 1 w_literal_then_inline)) <> Some (dec 1, map pair_of w_literal_then_inline).
Proof. vm_compute. repeat split; discriminate. Qed.

Lemma refuted_name_unescaped :
  exists name, classify_name name = Some name_unescaped
               /\ wf_stream (send (list_line (S_ "LIST") (S_ "\Unmarked") name)) = false
               /\ wf_stream (send (status_line name [(S_ "MESSAGES", 0)])) = false.
Proof. exists (S_ "a""b"). vm_compute. auto. Qed.

Lemma refuted_name_backslash :
  classify_name (S_ "c\d") = Some name_unescaped
  /\ wf_stream (send (list_line (S_ "LIST") (S_ "\Unmarked") (S_ "c\d"))) = false.
Proof. vm_compute. auto. Qed.

Lemma refuted_flag_atom :
  exists flags, classify_flags flags = Some flag_atom
    /\ wf_stream (send (fetch_line 1 [Inline (S_ "FLAGS") (LP :: flags ++ [RP])])) = false.
Proof. exists (S_ "x)y"). vm_compute. auto. Qed.
