(** C14 (c) — mapIMAPPartPathToDBPart over the rows the store derives from a
    MIME tree finds exactly the node that the IMAP numbering gives the path,
    and nothing for any other path.  For ALL trees, id bases and paths. *)
From Coq Require Import String Ascii List Bool Arith Lia.
From Raven Require Import Base.GoStr Base.GoStrFacts Model.Sections Spec.Attrs.
Import ListNotations.

Scheme tree_mind := Induction for tree Sort Prop
  with forest_mind := Induction for forest Sort Prop.
Combined Scheme tree_forest_mind from tree_mind, forest_mind.

(** ---- basic facts about rows ---- *)

Lemma root_par t par pn next : rpar (root_row t par pn next) = par.
Proof. destruct t; reflexivity. Qed.
Lemma root_id t par pn next : rid (root_row t par pn next) = next.
Proof. destruct t; reflexivity. Qed.
Lemma root_pn t par pn next : rpn (root_row t par pn next) = pn.
Proof. destruct t; reflexivity. Qed.
Lemma root_view t par pn next : view_r (root_row t par pn next) = view_t t.
Proof. destruct t; reflexivity. Qed.

Definition tail (t : tree) (next : nat) : list row :=
  match t with
  | Leaf _ _ _ => []
  | Multi _ ks => flat_f ks next 1 (S next)
  end.

Lemma flat_cons t par pn next : flat t par pn next = root_row t par pn next :: tail t next.
Proof. destruct t; reflexivity. Qed.

Lemma has_par_root t par pn next q :
  has_par q (root_row t par pn next) = match par with Some p => Nat.eqb p q | None => false end.
Proof. unfold has_par. now rewrite root_par. Qed.

Lemma size_pos t : 1 <= size t.
Proof. destruct t; simpl; lia. Qed.

(** the root rows of a forest's trees, as the store numbers them *)
Fixpoint heads (f : forest) (par pn next : nat) : list row :=
  match f with
  | FNil => []
  | FCons t f' => root_row t (Some par) pn next :: heads f' par (S pn) (next + size t)
  end.

(** ---- children queries from outside a subtree's id range ---- *)

Lemma filter_outside :
  (forall t par pn next q, q < next \/ next + size t <= q ->
     filter (has_par q) (flat t par pn next) =
     if has_par q (root_row t par pn next) then [root_row t par pn next] else []) /\
  (forall f par pn next q, q < next \/ next + size_f f <= q -> q <> par ->
     filter (has_par q) (flat_f f par pn next) = []).
Proof.
  apply tree_forest_mind.
  - intros ct enc c par pn next q _. reflexivity.
  - intros ct ks IH par pn next q R. cbn [flat size] in *.
    change (mkRow next pn par ct [] []) with (root_row (Multi ct ks) par pn next).
    cbn [filter]. rewrite IH by lia. destruct (has_par q _); reflexivity.
  - reflexivity.
  - intros t IHt f IHf par pn next q R N. cbn [flat_f size_f] in *.
    rewrite filter_app, IHt by lia. rewrite IHf by lia.
    rewrite has_par_root. destruct (Nat.eqb_spec par q); [congruence | reflexivity].
Qed.

Lemma filter_heads f : forall par pn next, par < next ->
  filter (has_par par) (flat_f f par pn next) = heads f par pn next.
Proof.
  induction f as [|t f IH]; intros par pn next L; [reflexivity|].
  cbn [flat_f heads]. rewrite filter_app.
  rewrite (proj1 filter_outside) by lia. rewrite has_par_root, Nat.eqb_refl.
  rewrite IH by (pose proof (size_pos t); lia). reflexivity.
Qed.

(** ---- sort.Slice leaves the heads in place ---- *)

Lemma insert_front r l :
  match l with [] => True | x :: _ => rpn r <= rpn x end -> insert_pn r l = r :: l.
Proof.
  destruct l as [|x l]; [reflexivity|]. intros H. cbn [insert_pn].
  destruct (Nat.ltb_spec (rpn x) (rpn r)); [lia | reflexivity].
Qed.

Lemma sort_heads f : forall par pn next, sort_pn (heads f par pn next) = heads f par pn next.
Proof.
  induction f as [|t f IH]; intros par pn next; [reflexivity|].
  cbn [heads sort_pn]. rewrite IH. apply insert_front.
  destruct f as [|t' f']; cbn [heads]; [exact I|]. rewrite !root_pn. lia.
Qed.

(** ---- the walk ---- *)

Definition walk_from (T : list row) (hs : list row) (i : nat) (p : list nat) : option row :=
  match nth1 hs i with None => None | Some r => walk T r p end.

Definition descend_kid (f : forest) (i : nat) (p : list nat) : option tree :=
  match nth_kid f i with None => None | Some k => descend k p end.

Lemma walk_descend :
  (forall t T par pn next,
     (forall p0, par = Some p0 -> p0 < next) ->
     (forall q, next <= q < next + size t ->
        filter (has_par q) T = filter (has_par q) (flat t par pn next)) ->
     forall p, option_map view_r (walk T (root_row t par pn next) p) = option_map view_t (descend t p)) /\
  (forall f T par pn next,
     par < next ->
     (forall q, next <= q < next + size_f f ->
        filter (has_par q) T = filter (has_par q) (flat_f f par pn next)) ->
     forall i p, option_map view_r (walk_from T (heads f par pn next) i p) =
                 option_map view_t (descend_kid f i p)).
Proof.
  apply tree_forest_mind.
  - (* Leaf *)
    intros ct enc c T par pn next Hpar Hctx [|i p]; [reflexivity|].
    cbn [walk descend root_row rid]. unfold children.
    rewrite (Hctx next) by (simpl; lia). cbn [flat filter].
    replace (has_par next (mkRow next pn par ct enc c)) with false.
    + destruct i as [|[|j]]; reflexivity.
    + unfold has_par; cbn [rpar]. destruct par as [p0|]; [|reflexivity].
      specialize (Hpar p0 eq_refl). symmetry. apply Nat.eqb_neq. lia.
  - (* Multi *)
    intros ct ks IH T par pn next Hpar Hctx [|i p]; [reflexivity|].
    cbn [walk descend root_row rid]. unfold children.
    rewrite (Hctx next) by (simpl; lia). cbn [flat filter].
    replace (has_par next (mkRow next pn par ct [] [])) with false.
    2:{ unfold has_par; cbn [rpar]. destruct par as [p0|]; [|reflexivity].
        specialize (Hpar p0 eq_refl). symmetry. apply Nat.eqb_neq. lia. }
    rewrite filter_heads by lia. rewrite sort_heads.
    apply (IH T next 1 (S next)); [lia|].
    intros q R. rewrite (Hctx q) by (simpl; lia). cbn [flat filter].
    replace (has_par q (mkRow next pn par ct [] [])) with false; [reflexivity|].
    unfold has_par; cbn [rpar]. destruct par as [p0|]; [|reflexivity].
    specialize (Hpar p0 eq_refl). symmetry. apply Nat.eqb_neq. lia.
  - (* FNil *)
    intros T par pn next _ _ i p. unfold walk_from, descend_kid. cbn [heads nth_kid].
    destruct i as [|[|j]]; reflexivity.
  - (* FCons *)
    intros t IHt f IHf T par pn next L Hctx i p.
    unfold walk_from, descend_kid. cbn [heads nth_kid size_f] in *.
    destruct i as [|[|j]].
    + reflexivity.
    + cbn [nth1 nth_error]. apply IHt.
      * intros p0 E. injection E as <-. exact L.
      * intros q R. rewrite (Hctx q) by lia. cbn [flat_f]. rewrite filter_app.
        rewrite (proj2 filter_outside f par (S pn) (next + size t) q) by lia.
        apply app_nil_r.
    + change (nth1 (root_row t (Some par) pn next :: heads f par (S pn) (next + size t)) (S (S j)))
        with (nth1 (heads f par (S pn) (next + size t)) (S j)).
      apply (IHf T par (S pn) (next + size t)).
      * pose proof (size_pos t). lia.
      * intros q R. rewrite (Hctx q) by lia. cbn [flat_f]. rewrite filter_app.
        rewrite (proj1 filter_outside t (Some par) pn next q) by lia.
        rewrite has_par_root. destruct (Nat.eqb_spec par q); [lia | reflexivity].
Qed.

(** ---- top level ---- *)

Lemma filter_no_par :
  (forall t par pn next, filter no_par (flat t par pn next) =
     if no_par (root_row t par pn next) then [root_row t par pn next] else []) /\
  (forall f par pn next, filter no_par (flat_f f par pn next) = []).
Proof.
  apply tree_forest_mind.
  - reflexivity.
  - intros ct ks IH par pn next. cbn [flat filter root_row]. rewrite IH.
    destruct (no_par _); reflexivity.
  - reflexivity.
  - intros t IHt f IHf par pn next. cbn [flat_f]. rewrite filter_app, IHt, IHf.
    unfold no_par. rewrite root_par. reflexivity.
Qed.

Lemma to_lower_multipart : to_lower multipart_pfx = multipart_pfx.
Proof. vm_compute. reflexivity. Qed.

Lemma prefix_lower ct : has_prefix ct multipart_pfx = true -> has_prefix (to_lower ct) multipart_pfx = true.
Proof.
  intros H. apply has_prefix_spec in H. destruct H as [r ->].
  unfold to_lower. rewrite map_app. fold (to_lower multipart_pfx). rewrite to_lower_multipart.
  apply has_prefix_app.
Qed.

Theorem path_agrees t base p :
  wf t = true ->
  option_map view_r (map_path (rows_of t base) p) = option_map view_t (tree_at t p).
Proof.
  intros W. destruct p as [|i p]; [reflexivity|].
  unfold map_path, rows_of.
  rewrite (proj1 filter_no_par). unfold no_par at 1. rewrite root_par.
  cbn [sort_pn insert_pn].
  assert (M : forall p', option_map view_r (walk (flat t None 1 base) (root_row t None 1 base) p')
                         = option_map view_t (descend t p')).
  { apply (proj1 walk_descend); [discriminate | reflexivity]. }
  destruct t as [ct enc c | ct ks].
  - cbn [wf] in W. apply negb_true_iff in W.
    cbn [root_row rct]. rewrite W. cbn [tree_at].
    destruct i as [|[|j]]; [reflexivity | | destruct j; reflexivity].
    cbn [nth1 nth_error Nat.eqb]. apply M.
  - cbn [wf] in W. apply andb_true_iff in W. destruct W as [W _].
    cbn [root_row rct rid]. rewrite (prefix_lower _ W). cbn [tree_at].
    exact (M (i :: p)).
Qed.

(** ---- consequences for BODY[p] ---- *)

Lemma wf_nth_kid f : forall i k, wf_f f = true -> nth_kid f i = Some k -> wf k = true.
Proof.
  induction f as [|t f IH]; intros i k W H; [discriminate|].
  cbn [wf_f] in W. apply andb_true_iff in W. destruct W as [Wt Wf].
  cbn [nth_kid] in H. destruct i as [|[|j]]; [discriminate | congruence | eauto].
Qed.

Lemma wf_descend p : forall t s, wf t = true -> descend t p = Some s -> wf s = true.
Proof.
  induction p as [|i p IH]; intros t s W H.
  - cbn in H. congruence.
  - destruct t as [|ct ks]; [discriminate|]. cbn [descend] in H.
    destruct (nth_kid ks i) as [k|] eqn:K; [|discriminate].
    cbn [wf] in W. apply andb_true_iff in W. destruct W as [_ W].
    eapply IH; [eapply wf_nth_kid; eauto | exact H].
Qed.

Lemma wf_tree_at t p s : wf t = true -> tree_at t p = Some s -> wf s = true.
Proof.
  destruct p as [|i p]; [discriminate|]. intros W H.
  destruct t as [ct enc c | ct ks]; cbn [tree_at] in H.
  - destruct (Nat.eqb i 1); [|discriminate]. eapply wf_descend; eauto.
  - eapply wf_descend; eauto.
Qed.

Theorem absent_path_nil t base p :
  wf t = true -> tree_at t p = None -> section_of (rows_of t base) p = SNil.
Proof.
  intros W H. pose proof (path_agrees t base p W) as A. rewrite H in A.
  unfold section_of. destruct (map_path (rows_of t base) p); [discriminate | reflexivity].
Qed.

Theorem leaf_path_content t base p ct enc c :
  wf t = true -> tree_at t p = Some (Leaf ct enc c) ->
  section_of (rows_of t base) p = SLeaf c /\
  exists r, map_path (rows_of t base) p = Some r /\ rct r = ct /\ renc r = enc /\ rcontent r = c.
Proof.
  intros W H. pose proof (path_agrees t base p W) as A. rewrite H in A.
  pose proof (wf_tree_at _ _ _ W H) as WL. cbn [wf] in WL. apply negb_true_iff in WL.
  unfold section_of. destruct (map_path (rows_of t base) p) as [r|]; [|discriminate].
  cbn in A. injection A as E1 E2 E3. unfold view_r in *. subst.
  assert (N : has_prefix (rct r) multipart_pfx = false).
  { destruct (has_prefix (rct r) multipart_pfx) eqn:E; [|reflexivity].
    apply prefix_lower in E. congruence. }
  rewrite N. split; [reflexivity|]. exists r. auto.
Qed.
