(** FilterMailboxes / MatchWildcard against the RFC relation with INBOX folding. *)
From Coq Require Import String Ascii List Bool Arith Lia.
From Raven Require Import Base.GoStr Base.GoStrFacts Model.Pattern Spec.Match Proof.Pattern.
Import ListNotations.

Lemma upper_star_inv c : upper_c c = star -> c = star.
Proof. now apply upper_c_fix_inv. Qed.
Lemma upper_pct_inv c : upper_c c = pct -> c = pct.
Proof. now apply upper_c_fix_inv. Qed.
Lemma upper_delim_inv c : upper_c c = delim -> c = delim.
Proof. now apply upper_c_fix_inv. Qed.

Lemma in_to_upper_delim s : In delim (to_upper s) -> In delim s.
Proof.
  unfold to_upper. rewrite in_map_iff. intros (c & E & H).
  apply upper_delim_inv in E. now subst.
Qed.

(** upper-casing both sides preserves a match *)
Lemma matches_upper p t : Matches p t -> Matches (to_upper p) (to_upper t).
Proof.
  induction 1 as [|c p t Hs Hp _ IH|p s t _ IH|p s t Hn _ IH]; cbn [to_upper map].
  - constructor.
  - apply M_chr; [intros E; apply upper_star_inv in E; congruence
                 |intros E; apply upper_pct_inv in E; congruence | exact IH].
  - change (upper_c star) with star. fold (to_upper p). fold (to_upper (s ++ t)).
    rewrite to_upper_app. now apply M_star.
  - change (upper_c pct) with pct. fold (to_upper p). fold (to_upper (s ++ t)).
    rewrite to_upper_app. apply M_pct; [|exact IH].
    intros H; apply Hn, in_to_upper_delim, H.
Qed.

(** a wildcard-free pattern matches only itself *)
Lemma matches_literal p t : ~ In star p -> ~ In pct p -> Matches p t -> t = p.
Proof.
  intros Hs Hp H. induction H as [|c p t _ _ _ IH| |]; simpl in *.
  - reflexivity.
  - f_equal. apply IH; tauto.
  - tauto.
  - tauto.
Qed.

Lemma matches_refl_literal p : ~ In star p -> ~ In pct p -> Matches p p.
Proof.
  induction p as [|c p IH]; simpl; intros Hs Hp; [constructor|].
  apply M_chr; [intuition congruence | intuition congruence | apply IH; tauto].
Qed.

Lemma INBOX_literal : ~ In star INBOX /\ ~ In pct INBOX.
Proof. split; intros H; vm_compute in H; intuition discriminate. Qed.

Lemma upper_INBOX_literal p : to_upper p = INBOX -> ~ In star p /\ ~ In pct p.
Proof.
  intros E. destruct INBOX_literal as [A B]. split; intros H.
  - apply A. rewrite <- E. unfold to_upper. apply in_map_iff. exists star; split; [reflexivity|exact H].
  - apply B. rewrite <- E. unfold to_upper. apply in_map_iff. exists pct; split; [reflexivity|exact H].
Qed.

Lemma to_upper_INBOX : to_upper INBOX = INBOX.
Proof. reflexivity. Qed.

(** names other than (case variants of) INBOX: MatchWildcard is the RFC relation *)
Lemma match_wildcard_other m canon :
  to_upper m <> INBOX -> (match_wildcard m canon = true <-> Matches canon m).
Proof.
  intros Hm. unfold match_wildcard.
  destruct (str_eqb_spec (to_upper m) INBOX) as [E|_]; [contradiction|].
  destruct (str_eqb_spec (to_upper canon) INBOX) as [E|_].
  - rewrite dp_match_correct. destruct INBOX_literal as [A B].
    destruct (upper_INBOX_literal _ E) as [A' B'].
    split; intros H.
    + apply matches_literal in H; auto. subst m. now rewrite to_upper_INBOX in Hm.
    + apply matches_literal in H; auto. subst m. contradiction.
  - apply dp_match_correct.
Qed.

(** INBOX itself *)
Lemma match_wildcard_inbox_upper canon :
  match_wildcard INBOX (to_upper canon) = true <-> Matches (to_upper canon) INBOX.
Proof.
  unfold match_wildcard. rewrite to_upper_INBOX, str_eqb_refl, to_upper_idem.
  destruct (str_eqb_spec (to_upper canon) INBOX) as [E|_].
  - rewrite E, dp_match_correct. destruct INBOX_literal. split; intros _; now apply matches_refl_literal.
  - apply dp_match_correct.
Qed.

Lemma match_wildcard_inbox canon :
  match_wildcard INBOX canon = true -> Matches (to_upper canon) INBOX.
Proof.
  unfold match_wildcard. rewrite to_upper_INBOX, str_eqb_refl.
  destruct (str_eqb_spec (to_upper canon) INBOX) as [E|_].
  - intros _. rewrite E. destruct INBOX_literal. now apply matches_refl_literal.
  - rewrite dp_match_correct. intros H. apply matches_upper in H. now rewrite to_upper_INBOX in H.
Qed.

Theorem filter_mailboxes_exact ns reference pattern n :
  (forall m, In m ns -> to_upper m = INBOX -> m = INBOX) ->
  let canon := build_canonical_pattern reference pattern in
  In n (filter_mailboxes ns reference pattern) <->
  (In n ns \/ n = INBOX) /\ MatchesI canon n.
Proof.
  intros Huniq canon. unfold filter_mailboxes. fold canon.
  set (matches := filter (fun m => match_wildcard m canon) ns).
  assert (Hin : forall x, In x matches <-> In x ns /\ match_wildcard x canon = true)
    by (intros x; unfold matches; rewrite filter_In; reflexivity).
  destruct (str_eqb_spec n INBOX) as [->|Hn].
  - (* n = INBOX *)
    destruct (match_wildcard INBOX (to_upper canon)) eqn:Hup.
    + apply match_wildcard_inbox_upper in Hup.
      split; [intros _; split; [now right | right; now split]|intros _].
      destruct (existsb _ matches) eqn:Hex.
      * apply existsb_exists in Hex as (m & Hm & E). apply str_eqb_eq in E.
        apply Hin in Hm as Hm'. destruct Hm' as [Hm' _].
        rewrite (Huniq m Hm' E) in Hm. exact Hm.
      * apply in_or_app. right. now left.
    + split.
      * intros H. apply Hin in H as [_ H]. apply match_wildcard_inbox in H.
        apply match_wildcard_inbox_upper in H. congruence.
      * intros [_ [H|[_ H]]].
        -- apply matches_upper in H. rewrite to_upper_INBOX in H.
           apply match_wildcard_inbox_upper in H. congruence.
        -- apply match_wildcard_inbox_upper in H. congruence.
  - (* n <> INBOX *)
    assert (Hcore : In n matches <-> (In n ns \/ n = INBOX) /\ MatchesI canon n).
    { rewrite Hin. split.
      - intros [Hns H]. split; [now left|]. left.
        apply match_wildcard_other; [|exact H].
        intros E. apply Hn. now apply Huniq.
      - intros [[Hns|E] [H|[E' _]]]; try contradiction.
        split; [exact Hns|]. apply match_wildcard_other; [|exact H].
        intros E. apply Hn. now apply Huniq. }
    destruct (match_wildcard INBOX (to_upper canon)); [|exact Hcore].
    destruct (existsb _ matches); [exact Hcore|].
    rewrite in_app_iff, Hcore. split; [intros [H|[H|[]]]; [exact H|congruence] | now left].
Qed.

(** BuildCanonicalPattern: the three documented cases *)
Theorem canon_absolute reference pattern :
  has_prefix pattern [delim] = true -> build_canonical_pattern reference pattern = pattern.
Proof. unfold build_canonical_pattern. now intros ->. Qed.

Theorem canon_empty_reference pattern : build_canonical_pattern [] pattern = pattern.
Proof. unfold build_canonical_pattern. now destruct (has_prefix pattern [delim]). Qed.

Theorem canon_relative reference pattern :
  has_prefix pattern [delim] = false -> reference <> [] ->
  build_canonical_pattern reference pattern =
  if has_suffix reference [delim] then reference ++ pattern else reference ++ [delim] ++ pattern.
Proof.
  unfold build_canonical_pattern. intros -> H. destruct reference; [contradiction|].
  now destruct (has_suffix _ _).
Qed.
