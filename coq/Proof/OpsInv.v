(** C03 — every operation of Model/Ops.v, in the hierarchy-free scope and
    outside the finding classes, preserves the invariant ([step_good]); so do
    whole histories ([run_good]). *)
From Coq Require Import String Ascii List Bool ZArith Lia.
From Raven Require Import Base.GoStr Model.Store Model.Ops Spec.UidSpec Proof.StoreInv.
Import ListNotations.
Local Open Scope Z_scope.

(** ---- the MAX(uid)+1 loops either assign a new instance or change nothing -- *)

Lemma insert_link_gser s msg mb uid fl s' :
  insert_link s msg mb uid fl = Some s' -> gser s' = gser s + 1.
Proof.
  unfold insert_link. destruct (existsb _ _); [discriminate|]. intros [= <-]. reflexivity.
Qed.

Lemma uidcopy_loop_gser uids : forall s sel dest next s',
  uidcopy_loop s sel dest uids next = Some s' -> gser s <= gser s' /\ (gser s' = gser s -> s' = s).
Proof.
  induction uids as [|u r IH]; simpl; intros s sel dest next s' H.
  - injection H as <-. split; [lia | reflexivity].
  - destruct (find_link s sel u) as [l|]; [|now apply IH in H].
    destruct (insert_link s (lk_msg l) dest next (add_recent (lk_flags l))) as [s1|] eqn:E; [|discriminate].
    apply insert_link_gser in E. apply IH in H. destruct H as [H _]. split; lia.
Qed.

Lemma copy_loop_gser seqs : forall s sel dest next s',
  copy_loop s sel dest seqs next = Some s' -> gser s <= gser s' /\ (gser s' = gser s -> s' = s).
Proof.
  induction seqs as [|n r IH]; simpl; intros s sel dest next s' H.
  - injection H as <-. split; [lia | reflexivity].
  - destruct (nth_error (links_sorted s sel) (Z.to_nat (n - 1))) as [l|]; [|discriminate].
    destruct (insert_link s (lk_msg l) dest next (add_recent (lk_flags l))) as [s1|] eqn:E; [|discriminate].
    apply insert_link_gser in E. apply IH in H. destruct H as [H _]. split; lia.
Qed.

Lemma op_uidcopy_clean s sel set d :
  gser (fst (op_uidcopy s sel set d)) = gser s -> fst (op_uidcopy s sel set d) = s.
Proof.
  unfold op_uidcopy. destruct (resolve_uids s sel set) as [|u r]; [reflexivity|].
  destruct (find_name s d) as [m|]; [|reflexivity].
  destruct (uidcopy_loop s sel (mb_id m) (u :: r) (max_uid s (mb_id m) + 1)) as [s'|] eqn:E; [|reflexivity].
  simpl. intros G. apply uidcopy_loop_gser in E. now apply E.
Qed.

Lemma op_copy_clean s sel set d :
  gser (fst (op_copy s sel set d)) = gser s -> fst (op_copy s sel set d) = s.
Proof.
  unfold op_copy. destruct (resolve_seqs s sel set) as [|u r]; [reflexivity|].
  destruct (find_name s d) as [m|]; [|reflexivity].
  destruct (copy_loop s sel (mb_id m) (u :: r) (max_uid s (mb_id m) + 1)) as [s'|] eqn:E; [|reflexivity].
  simpl. intros G. apply copy_loop_gser in E. now apply E.
Qed.

(** ---- UID STORE: flag updates only, unless a Junk/NonJunk move assigns ------ *)

Definition Quiet (s s' : store) : Prop :=
  gser s <= gser s' /\ (gser s' = gser s -> CoreEq s s').

Lemma Quiet_refl s : Quiet s s.
Proof. split; [lia | intros _; apply CoreEq_refl]. Qed.

Lemma Quiet_trans a b c : Quiet a b -> Quiet b c -> Quiet a c.
Proof.
  intros [A1 A2] [B1 B2]. split; [lia|]. intros E.
  assert (E1 : gser b = gser a) by lia. assert (E2 : gser c = gser b) by lia.
  eapply CoreEq_trans; [apply A2, E1 | apply B2, E2].
Qed.

Lemma set_flags_quiet s mb u fl : Quiet s (set_flags s mb u fl).
Proof.
  split; [simpl; lia|]. intros _. repeat split. simpl. rewrite map_map. apply map_ext.
  intros l. destruct (at_uid mb u l); reflexivity.
Qed.

Lemma move_message_quiet s msg src d fl : Quiet s (fst (move_message s msg src d fl)).
Proof.
  unfold move_message. destruct (find_name s d) as [m|]; [|apply Quiet_refl].
  destruct (mb_id m =? src); [apply Quiet_refl|].
  destruct (insert_link s msg (mb_id m) (max_uid s (mb_id m) + 1) fl) as [s1|] eqn:E; [|apply Quiet_refl].
  apply insert_link_gser in E. unfold Quiet, delete_links, set_links. simpl. split; [lia | intros X; exfalso; lia].
Qed.

Lemma uidstore_one_quiet s sel mode new u : Quiet s (uidstore_one s sel mode new u).
Proof.
  unfold uidstore_one. destruct (find_link s sel u) as [l|]; [|apply Quiet_refl].
  destruct (negb (fmem JUNK (lk_flags l)) && fmem JUNK (calc_flags (lk_flags l) new mode)).
  - pose proof (move_message_quiet s (lk_msg l) sel SPAM (fremove NONJUNK (calc_flags (lk_flags l) new mode))) as Q.
    destruct (move_message s (lk_msg l) sel SPAM _) as [s1 ok]. destruct ok; [exact Q | apply set_flags_quiet].
  - destruct (negb (fmem NONJUNK (lk_flags l)) && fmem NONJUNK (calc_flags (lk_flags l) new mode)).
    + pose proof (move_message_quiet s (lk_msg l) sel INBOX (fremove JUNK (calc_flags (lk_flags l) new mode))) as Q.
      destruct (move_message s (lk_msg l) sel INBOX _) as [s1 ok]. destruct ok; [exact Q | apply set_flags_quiet].
    + apply set_flags_quiet.
Qed.

Lemma uidstore_fold_quiet sel mode new uids : forall s,
  Quiet s (fold_left (fun s' u => uidstore_one s' sel mode new u) uids s).
Proof.
  induction uids as [|u r IH]; simpl; intros s; [apply Quiet_refl|].
  eapply Quiet_trans; [apply uidstore_one_quiet | apply IH].
Qed.

(** ---- one clean step ---------------------------------------------------------- *)

Lemma store_message_core s : CoreEq s (fst (store_message s)).
Proof. repeat split. Qed.

Lemma good_after_core s s1 s2 : Inv s -> CoreEq s s1 -> Good s1 s2 -> Good s s2.
Proof. intros I E G. eapply Good_trans; [apply Good_core_eq; eauto | exact G]. Qed.

Lemma deliver_tail_good s id m :
  Inv s -> find_id s id = Some m ->
  Good s (fst (let '(s2, msg) := store_message s in
               let '(s3, ok) := add_message s2 msg id [] in (s3, if ok then ROk else RNo))).
Proof.
  intros I Hf. unfold store_message.
  set (s2 := mkStore (mboxes s) (links s) (next_msg s + 1) (glog s) (gused s) (gser s)).
  assert (E : CoreEq s s2) by (repeat split).
  assert (I2 : Inv s2) by (eapply Inv_core_eq; eauto).
  destruct (add_message_good s2 (next_msg s) id [] m I2 Hf) as (s3 & -> & G & _).
  simpl. eapply good_after_core; eauto.
Qed.

Lemma step_good s o : Inv s -> flat_step s o = true -> step_class s o = None -> Good s (fst (step s o)).
Proof.
  intros I F C. destruct o as [f t|f fl|sel set d|sel set d|sel set mode fl|sel|sel|n t|n|a b t];
    unfold step_class in C; simpl in *.
  - (* deliver *)
    unfold op_deliver in *. destruct (find_name s f) as [m|] eqn:Fn.
    + apply find_name_some in Fn. destruct Fn as [Hm _].
      simpl. apply (deliver_tail_good s (mb_id m) m); auto. now apply find_id_in.
    + destruct (create_mailbox_row s f t) as [[s' id]|] eqn:Cr; [|apply Good_refl; auto].
      assert (N : ~ In (f, t) (gused s)).
      { apply used_b_false. destruct (used_b s f t); [|reflexivity].
        destruct (let '(s2, msg) := store_message s' in _) in C. discriminate. }
      destruct (create_row_good s f t s' id I Cr N) as (G & Em & _).
      eapply Good_trans; [exact G|]. destruct G as [I' _].
      apply (deliver_tail_good s' id (mkMbox id f t 1)); auto.
      replace id with (mb_id (mkMbox id f t 1)) at 1 by reflexivity.
      apply find_id_in; auto. rewrite Em. apply in_or_app. right. now left.
  - (* append *)
    unfold op_append. destruct (find_name s f) as [m|] eqn:Fn; [|apply Good_refl; auto].
    apply find_name_some in Fn. destruct Fn as [Hm _].
    unfold store_message.
    set (s2 := mkStore (mboxes s) (links s) (next_msg s + 1) (glog s) (gused s) (gser s)).
    assert (E : CoreEq s s2) by (repeat split).
    assert (I2 : Inv s2) by (eapply Inv_core_eq; eauto).
    assert (Hf : find_id s2 (mb_id m) = Some m) by (apply find_id_in; auto).
    destruct (add_message_good s2 (next_msg s) (mb_id m) fl m I2 Hf) as (s3 & -> & G & _).
    simpl. eapply good_after_core; eauto.
  - (* uid copy *)
    destruct (op_uidcopy s sel set d) as [s' r] eqn:E. simpl in *.
    destruct (gser s' =? gser s) eqn:G; [|discriminate]. apply Z.eqb_eq in G.
    pose proof (op_uidcopy_clean s sel set d) as K. rewrite E in K. simpl in K. rewrite (K G).
    now apply Good_refl.
  - (* copy *)
    destruct (op_copy s sel set d) as [s' r] eqn:E. simpl in *.
    destruct (gser s' =? gser s) eqn:G; [|discriminate]. apply Z.eqb_eq in G.
    pose proof (op_copy_clean s sel set d) as K. rewrite E in K. simpl in K. rewrite (K G).
    now apply Good_refl.
  - (* uid store *)
    unfold op_uidstore in *. simpl in *.
    destruct (gser _ =? gser s) eqn:G; [|discriminate]. apply Z.eqb_eq in G.
    apply Good_core_eq; auto. now apply (uidstore_fold_quiet sel mode fl (resolve_uids s sel set) s).
  - now apply Good_delete_links.
  - now apply Good_delete_links.
  - (* create *)
    unfold op_create in *. remember (trim_suffix n [SLASH]) as name eqn:En. clear En.
    destruct name as [|c r]; [apply Good_refl; auto|]. cbv iota beta in *.
    set (name := c :: r) in *.
    destruct (str_eqb (to_upper name) INBOX); [apply Good_refl; auto|].
    destruct (find_name s name); [apply Good_refl; auto|].
    apply negb_true_iff in F. rewrite F in *.
    destruct (create_mailbox_row s name t) as [[s2 id]|] eqn:Cr; [|apply Good_refl; auto].
    simpl in *. destruct (used_b s name t) eqn:U; [discriminate|].
    destruct (create_row_good s name t s2 id I Cr (used_b_false _ _ _ U)) as (G & _). exact G.
  - (* delete *)
    clear C. unfold op_delete. destruct n as [|c r]; [apply Good_refl; auto|]. set (n := c :: r).
    destruct (str_eqb (to_upper n) INBOX); [apply Good_refl; auto|].
    destruct (find_name s n) as [m|]; [|apply Good_refl; auto].
    destruct (children s n); [|apply Good_refl; auto].
    destruct (existsb _ _); [apply Good_refl; auto|].
    simpl. now apply delete_mbox_good.
  - (* rename *)
    apply andb_true_iff in F. destruct F as [F Fc]. apply andb_true_iff in F. destruct F as [Fs Fl].
    apply negb_true_iff in Fs. apply negb_true_iff in Fl.
    unfold op_rename in *.
    destruct a as [|ca ra]; [apply Good_refl; auto|].
    destruct b as [|cb rb]; [apply Good_refl; auto|]. cbv iota beta in *.
    set (a := ca :: ra) in *. set (b := cb :: rb) in *.
    destruct (str_eqb (to_upper b) INBOX); [apply Good_refl; auto|].
    unfold is_inbox in C.
    destruct (str_eqb (to_upper a) INBOX).
    + (* RENAME INBOX *)
      unfold rename_inbox in *.
      destruct (find_name s b) eqn:Fb; [apply Good_refl; auto|].
      destruct (find_name s INBOX) as [ib|] eqn:Fi; [|apply Good_refl; auto].
      destruct (create_mailbox_row s b t) as [[s1 nid]|] eqn:Cr; [|apply Good_refl; auto].
      destruct (create_row_shape s b t s1 nid Cr) as (_ & Enid & Es1).
      assert (El : links s1 = links s) by (rewrite Es1; reflexivity).
      assert (Hnone : forall l, In l (links s) -> lk_mbox l <> nid).
      { intros l Hl E. destruct (inv_home s I l Hl) as (m & Hm & Ei).
        pose proof (fresh_id_gt (map mb_id (mboxes s)) (mb_id m) (in_map mb_id _ _ Hm)). lia. }
      unfold reparent in *. destruct (mb_id ib =? nid) eqn:Eq.
      * simpl in *. destruct (links_in s (mb_id ib)); [|discriminate].
        destruct (used_b s b t) eqn:U; [discriminate|].
        destruct (create_row_good s b t s1 nid I Cr (used_b_false _ _ _ U)) as (G & _). exact G.
      * assert (Hex : existsb (fun l => existsb (at_uid nid (lk_uid l)) (links s1)) (links_in s1 (mb_id ib)) = false).
        { apply not_true_is_false. intros X. apply existsb_exists in X. destruct X as (l & _ & X).
          apply existsb_exists in X. destruct X as (l' & Hl' & X). unfold at_uid in X.
          apply andb_true_iff in X. destruct X as [X _]. apply Z.eqb_eq in X.
          rewrite El in Hl'. exact (Hnone l' Hl' X). }
        rewrite Hex in *. simpl in *.
        destruct (links_in s (mb_id ib)) eqn:Li; [|discriminate].
        destruct (used_b s b t) eqn:U; [discriminate|].
        destruct (create_row_good s b t s1 nid I Cr (used_b_false _ _ _ U)) as (G & _).
        eapply Good_trans; [exact G|]. destruct G as [I1 _].
        apply Good_core_eq; auto.
        assert (Li1 : links_in s1 (mb_id ib) = []) by (unfold links_in in *; rewrite El; exact Li).
        unfold relog. rewrite Li1. simpl.
        repeat split; simpl.
        -- destruct (find_id s1 nid); simpl; now rewrite app_nil_r.
        -- symmetry. rewrite map_map. apply map_ext_in.
           intros l Hl. destruct (in_mbox (mb_id ib) l) eqn:X; [|reflexivity].
           exfalso. assert (In l (links_in s1 (mb_id ib))) by (apply filter_In; auto).
           rewrite Li1 in H. contradiction.
    + (* plain RENAME *)
      destruct (find_name s a) as [m|] eqn:Fa; [|apply Good_refl; auto].
      destruct (find_name s b) eqn:Fb; [apply Good_refl; auto|].
      rewrite Fs in *. simpl in *.
      apply find_name_some in Fa. destruct Fa as [Hm Ena].
      pose proof (find_id_in s m I Hm) as Hf.
      destruct (used_b s b (mb_validity m)) eqn:U.
      * (* class CSameSecond unless the rename fails; it cannot fail *)
        exfalso. unfold rename_tx, rename_row in C. rewrite Hf in C.
        assert (Hex : existsb (fun m' => str_eqb (mb_name m') b && negb (mb_id m' =? mb_id m)) (mboxes s) = false).
        { apply not_true_is_false. intros X. apply existsb_exists in X. destruct X as (m' & Hm' & A).
          apply andb_true_iff in A. destruct A as [A _]. apply str_eqb_eq in A.
          exact (find_name_none s b m' Fb Hm' A). }
        rewrite Hex in C. fold (ren (mb_id m) b) in C.
        match type of C with context [children ?x a] => assert (Hc : children x a = []) end.
        { unfold children. simpl. apply (proj2 (filter_nil _ _)).
          intros m' Hm'. apply in_map_iff in Hm'. destruct Hm' as (m0 & <- & H0). unfold ren.
          destruct (mb_id m0 =? mb_id m); simpl; [exact Fl|].
          destruct (children s a) eqn:Ch; [|discriminate].
          unfold children in Ch. exact (proj1 (filter_nil _ _) Ch m0 H0). }
        rewrite Hc in C. simpl in C. discriminate.
      * destruct (rename_row_good s (mb_id m) b m I Hf Fb (used_b_false _ _ _ U)) as (s' & R & G & Em & El).
        unfold rename_tx. rewrite R.
        assert (Hc : children s' a = []).
        { unfold children. rewrite Em. apply (proj2 (filter_nil _ _)).
          intros m' Hm'. apply in_map_iff in Hm'. destruct Hm' as (m0 & <- & H0). unfold ren.
          destruct (mb_id m0 =? mb_id m); simpl; [exact Fl|].
          destruct (children s a) eqn:Ch; [|discriminate].
          unfold children in Ch. exact (proj1 (filter_nil _ _) Ch m0 H0). }
        rewrite Hc. simpl. exact G.
Qed.
