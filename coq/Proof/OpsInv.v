(** C03 — every operation of Model/Ops.v, in the hierarchy-free scope and
    outside the finding class validity_same_second, preserves the invariant
    ([step_good]).  Since the fix wave COPY, UID COPY, the Junk/NonJunk move and
    RENAME INBOX with messages preserve it unconditionally. *)
From Coq Require Import String Ascii List Bool ZArith Lia.
From Raven Require Import Base.GoStr Model.Store Model.Ops Spec.UidSpec Proof.StoreInv.
Import ListNotations.
Local Open Scope Z_scope.

(** ---- COPY / UID COPY: allocation from uid_next, written back ------------------ *)

Lemma insert_link_gser s msg mb uid fl s' :
  insert_link s msg mb uid fl = Some s' -> gser s' = gser s + 1.
Proof.
  unfold insert_link. destruct (existsb _ _); [discriminate|]. intros [= <-]. reflexivity.
Qed.

Lemma find_id_same_mboxes s s' mb : mboxes s' = mboxes s -> find_id s' mb = find_id s mb.
Proof. intros E. unfold find_id. now rewrite E. Qed.

Lemma find_link_same_links s s' mb u : links s' = links s -> find_link s' mb u = find_link s mb u.
Proof. intros E. unfold find_link. now rewrite E. Qed.

Lemma uidcopy_loop_good uids : forall s sel dest next d,
  Inv (set_next s dest next) -> find_id s dest = Some d ->
  match uidcopy_loop s sel dest uids next with
  | Some sF => Good (set_next s dest next) sF
  | None => True
  end.
Proof.
  induction uids as [|u r IH]; simpl; intros s sel dest next d I Hf.
  - now apply Good_refl.
  - destruct (find_link s sel u) as [l|]; [|now apply (IH s sel dest next d)].
    destruct (insert_set_good s (lk_msg l) dest next (add_recent (lk_flags l)) d I Hf) as (s' & -> & G & Em & _).
    assert (Hf' : find_id s' dest = Some d) by (rewrite (find_id_same_mboxes s s' dest Em); exact Hf).
    pose proof (IH s' sel dest (next + 1) d (proj1 G) Hf') as K.
    destruct (uidcopy_loop s' sel dest r (next + 1)); [|exact Logic.I].
    eapply Good_trans; eauto.
Qed.

Lemma copy_loop_good seqs : forall s sel dest next d,
  Inv (set_next s dest next) -> find_id s dest = Some d ->
  match copy_loop s sel dest seqs next with
  | Some sF => Good (set_next s dest next) sF
  | None => True
  end.
Proof.
  induction seqs as [|n r IH]; simpl; intros s sel dest next d I Hf.
  - now apply Good_refl.
  - destruct (nth_error (links_sorted s sel) (Z.to_nat (n - 1))) as [l|]; [|exact Logic.I].
    destruct (insert_set_good s (lk_msg l) dest next (add_recent (lk_flags l)) d I Hf) as (s' & -> & G & Em & _).
    assert (Hf' : find_id s' dest = Some d) by (rewrite (find_id_same_mboxes s s' dest Em); exact Hf).
    pose proof (IH s' sel dest (next + 1) d (proj1 G) Hf') as K.
    destruct (copy_loop s' sel dest r (next + 1)); [|exact Logic.I].
    eapply Good_trans; eauto.
Qed.

Lemma op_uidcopy_good s sel set d : Inv s -> Good s (fst (op_uidcopy s sel set d)).
Proof.
  intros I. unfold op_uidcopy. destruct (resolve_uids s sel set) as [|u r]; [now apply Good_refl|].
  destruct (find_name s d) as [m|] eqn:Fn; [|now apply Good_refl].
  apply find_name_some in Fn. destruct Fn as [Hm _]. pose proof (find_id_in s m I Hm) as Hf.
  pose proof (set_next_self s (mb_id m) m (inv_ids s I) Hf) as Es.
  assert (IT : Inv (set_next s (mb_id m) (mb_next m))) by (rewrite Es; exact I).
  pose proof (uidcopy_loop_good (u :: r) s sel (mb_id m) (mb_next m) m IT Hf) as K.
  destruct (uidcopy_loop s sel (mb_id m) (u :: r) (mb_next m)); simpl; [|now apply Good_refl].
  rewrite Es in K. exact K.
Qed.

Lemma op_copy_good s sel set d : Inv s -> Good s (fst (op_copy s sel set d)).
Proof.
  intros I. unfold op_copy. destruct (resolve_seqs s sel set) as [|u r]; [now apply Good_refl|].
  destruct (find_name s d) as [m|] eqn:Fn; [|now apply Good_refl].
  apply find_name_some in Fn. destruct Fn as [Hm _]. pose proof (find_id_in s m I Hm) as Hf.
  pose proof (set_next_self s (mb_id m) m (inv_ids s I) Hf) as Es.
  assert (IT : Inv (set_next s (mb_id m) (mb_next m))) by (rewrite Es; exact I).
  pose proof (copy_loop_good (u :: r) s sel (mb_id m) (mb_next m) m IT Hf) as K.
  destruct (copy_loop s sel (mb_id m) (u :: r) (mb_next m)); simpl; [|now apply Good_refl].
  rewrite Es in K. exact K.
Qed.

(** ---- UID STORE with the Junk / NonJunk move ------------------------------------- *)

Lemma set_flags_core s mb u fl : CoreEq s (set_flags s mb u fl).
Proof.
  repeat split. simpl. rewrite map_map. apply map_ext.
  intros l. destruct (at_uid mb u l); reflexivity.
Qed.

Lemma move_message_good s msg src d fl : Inv s -> Good s (fst (move_message s msg src d fl)).
Proof.
  intros I. unfold move_message. destruct (find_name s d) as [m|] eqn:Fn; [|now apply Good_refl].
  destruct (mb_id m =? src); [now apply Good_refl|].
  apply find_name_some in Fn. destruct Fn as [Hm _]. pose proof (find_id_in s m I Hm) as Hf.
  pose proof (set_next_self s (mb_id m) m (inv_ids s I) Hf) as Es.
  assert (IT : Inv (set_next s (mb_id m) (mb_next m))) by (rewrite Es; exact I).
  destruct (insert_set_good s msg (mb_id m) (mb_next m) fl m IT Hf) as (s' & -> & G & _).
  rewrite Es in G. simpl. eapply Good_trans; [exact G|]. apply Good_delete_links. apply G.
Qed.

Lemma uidstore_one_good s sel mode new u : Inv s -> Good s (uidstore_one s sel mode new u).
Proof.
  intros I. unfold uidstore_one. destruct (find_link s sel u) as [l|]; [|now apply Good_refl].
  assert (SF : forall fl, Good s (set_flags s sel u fl)) by (intros; apply Good_core_eq; auto; apply set_flags_core).
  destruct (negb (fmem JUNK (lk_flags l)) && fmem JUNK (calc_flags (lk_flags l) new mode)).
  - pose proof (move_message_good s (lk_msg l) sel SPAM (fremove NONJUNK (calc_flags (lk_flags l) new mode)) I) as Q.
    destruct (move_message s (lk_msg l) sel SPAM _) as [s1 ok]. destruct ok; [exact Q | apply SF].
  - destruct (negb (fmem NONJUNK (lk_flags l)) && fmem NONJUNK (calc_flags (lk_flags l) new mode)).
    + pose proof (move_message_good s (lk_msg l) sel INBOX (fremove JUNK (calc_flags (lk_flags l) new mode)) I) as Q.
      destruct (move_message s (lk_msg l) sel INBOX _) as [s1 ok]. destruct ok; [exact Q | apply SF].
    + apply SF.
Qed.

Lemma uidstore_fold_good sel mode new uids : forall s, Inv s ->
  Good s (fold_left (fun s' u => uidstore_one s' sel mode new u) uids s).
Proof.
  induction uids as [|u r IH]; simpl; intros s I; [now apply Good_refl|].
  pose proof (uidstore_one_good s sel mode new u I) as G.
  eapply Good_trans; [exact G|]. apply IH. apply G.
Qed.

(** ---- one clean step ---------------------------------------------------------- *)

Lemma store_message_core s : CoreEq s (fst (store_message s)).
Proof. repeat split. Qed.

Lemma good_after_core s s1 s2 : Inv s -> CoreEq s s1 -> Good s1 s2 -> Good s s2.
Proof. intros I E G. eapply Good_trans; [apply Good_core_eq; eauto | exact G]. Qed.

Lemma deliver_tail_good s id m :
  Inv s -> find_id s id = Some m ->
  Good s (fst (let '(s2, msg) := store_message s in
               let '(s3, ok) := add_message s2 msg id [] in (s3, if ok then ROk else RNo))).
Proof.
  intros I Hf. unfold store_message.
  set (s2 := mkStore (mboxes s) (links s) (next_msg s + 1) (glog s) (gused s) (gser s)).
  assert (E : CoreEq s s2) by (repeat split).
  assert (I2 : Inv s2) by (eapply Inv_core_eq; eauto).
  destruct (add_message_good s2 (next_msg s) id [] m I2 Hf) as (s3 & -> & G & _).
  simpl. eapply good_after_core; eauto.
Qed.

Lemma step_good s o : Inv s -> flat_step s o = true -> step_class s o = None -> Good s (fst (step s o)).
Proof.
  intros I F C. destruct o as [f t|f fl|sel set d|sel set d|sel set mode fl|sel|sel|n t|n|a b t];
    unfold step_class in C; simpl in *.
  - (* deliver *)
    unfold op_deliver in *. destruct (find_name s f) as [m|] eqn:Fn.
    + apply find_name_some in Fn. destruct Fn as [Hm _].
      simpl. apply (deliver_tail_good s (mb_id m) m); auto. now apply find_id_in.
    + destruct (create_mailbox_row s f t) as [[s' id]|] eqn:Cr; [|apply Good_refl; auto].
      assert (N : ~ In (f, t) (gused s)).
      { apply used_b_false. destruct (used_b s f t); [|reflexivity].
        destruct (let '(s2, msg) := store_message s' in _) in C. discriminate. }
      destruct (create_row_good s f t s' id I Cr N) as (G & Em & _).
      eapply Good_trans; [exact G|]. destruct G as [I' _].
      apply (deliver_tail_good s' id (mkMbox id f t 1)); auto.
      replace id with (mb_id (mkMbox id f t 1)) at 1 by reflexivity.
      apply find_id_in; auto. rewrite Em. apply in_or_app. right. now left.
  - (* append *)
    unfold op_append. destruct (find_name s f) as [m|] eqn:Fn; [|apply Good_refl; auto].
    apply find_name_some in Fn. destruct Fn as [Hm _].
    unfold store_message.
    set (s2 := mkStore (mboxes s) (links s) (next_msg s + 1) (glog s) (gused s) (gser s)).
    assert (E : CoreEq s s2) by (repeat split).
    assert (I2 : Inv s2) by (eapply Inv_core_eq; eauto).
    assert (Hf : find_id s2 (mb_id m) = Some m) by (apply find_id_in; auto).
    destruct (add_message_good s2 (next_msg s) (mb_id m) fl m I2 Hf) as (s3 & -> & G & _).
    simpl. eapply good_after_core; eauto.
  - now apply op_uidcopy_good.
  - now apply op_copy_good.
  - unfold op_uidstore. simpl. now apply uidstore_fold_good.
  - now apply Good_delete_links.
  - now apply Good_delete_links.
  - (* create *)
    unfold op_create in *. remember (trim_suffix n [SLASH]) as name eqn:En. clear En.
    destruct name as [|c r]; [apply Good_refl; auto|]. cbv iota beta in *.
    set (name := c :: r) in *.
    destruct (str_eqb (to_upper name) INBOX); [apply Good_refl; auto|].
    destruct (find_name s name); [apply Good_refl; auto|].
    apply negb_true_iff in F. rewrite F in *.
    destruct (create_mailbox_row s name t) as [[s2 id]|] eqn:Cr; [|apply Good_refl; auto].
    simpl in *. destruct (used_b s name t) eqn:U; [discriminate|].
    destruct (create_row_good s name t s2 id I Cr (used_b_false _ _ _ U)) as (G & _). exact G.
  - (* delete *)
    clear C. unfold op_delete. destruct n as [|c r]; [apply Good_refl; auto|]. set (n := c :: r).
    destruct (str_eqb (to_upper n) INBOX); [apply Good_refl; auto|].
    destruct (find_name s n) as [m|]; [|apply Good_refl; auto].
    destruct (children s n); [|apply Good_refl; auto].
    destruct (existsb _ _); [apply Good_refl; auto|].
    simpl. now apply delete_mbox_good.
  - (* rename *)
    apply andb_true_iff in F. destruct F as [F Fc]. apply andb_true_iff in F. destruct F as [Fs Fl].
    apply negb_true_iff in Fs. apply negb_true_iff in Fl.
    unfold op_rename in *.
    destruct a as [|ca ra]; [apply Good_refl; auto|].
    destruct b as [|cb rb]; [apply Good_refl; auto|]. cbv iota beta in *.
    set (a := ca :: ra) in *. set (b := cb :: rb) in *.
    destruct (str_eqb (to_upper b) INBOX); [apply Good_refl; auto|].
    unfold is_inbox in C.
    destruct (str_eqb (to_upper a) INBOX).
    + (* RENAME INBOX *)
      unfold rename_inbox in *.
      destruct (find_name s b) eqn:Fb; [apply Good_refl; auto|].
      destruct (find_name s INBOX) as [ib|] eqn:Fi; [|apply Good_refl; auto].
      destruct (create_mailbox_row s b t) as [[s1 nid]|] eqn:Cr; [|apply Good_refl; auto].
      destruct (create_row_shape s b t s1 nid Cr) as (_ & Enid & Es1).
      apply find_name_some in Fi. destruct Fi as [Hib _].
      assert (Hnone : forall l, In l (links s) -> lk_mbox l <> nid).
      { intros l Hl E. destruct (inv_home s I l Hl) as (m & Hm & Ei).
        pose proof (fresh_id_gt (map mb_id (mboxes s)) (mb_id m) (in_map mb_id _ _ Hm)). lia. }
      assert (Hne : mb_id ib <> nid).
      { pose proof (fresh_id_gt (map mb_id (mboxes s)) (mb_id ib) (in_map mb_id _ _ Hib)). lia. }
      assert (Hx : forall l, In l (links s) -> lk_mbox l = mb_id ib -> lk_uid l < mb_next ib).
      { intros l Hl E. now apply (Inv_uid_below s ib l I). }
      destruct (used_b s b t) eqn:U.
      * (* the rename cannot fail, so this is class CSameSecond *)
        exfalso.
        assert (Hex : exists s2, reparent (set_next s1 nid (mb_next ib)) (mb_id ib) nid = Some s2).
        { unfold reparent. destruct (mb_id ib =? nid) eqn:E0; [eauto|].
          match goal with |- context [existsb ?f ?l] => assert (X : existsb f l = false) end.
          { apply not_true_is_false. intros X. apply existsb_exists in X. destruct X as (l & _ & X).
            apply existsb_exists in X. destruct X as (l' & Hl' & X). unfold at_uid in X.
            apply andb_true_iff in X. destruct X as [X _]. apply Z.eqb_eq in X.
            rewrite Es1 in Hl'. simpl in Hl'. exact (Hnone l' Hl' X). }
          rewrite X. eauto. }
        destruct Hex as (s2 & R). rewrite R in C. simpl in C. discriminate.
      * assert (N : ~ In (b, t) (gused s)) by (now apply used_b_false).
        destruct (create_row_good s b t s1 nid I Cr N) as ([I1 _] & _).
        destruct (reparent_good s s1 (mb_id ib) nid b t (mb_next ib) I I1) as (s2 & -> & G); auto;
          rewrite Es1; reflexivity.
    + (* plain RENAME *)
      destruct (find_name s a) as [m|] eqn:Fa; [|apply Good_refl; auto].
      destruct (find_name s b) eqn:Fb; [apply Good_refl; auto|].
      rewrite Fs in *. simpl in *.
      apply find_name_some in Fa. destruct Fa as [Hm Ena].
      pose proof (find_id_in s m I Hm) as Hf.
      destruct (used_b s b (mb_validity m)) eqn:U.
      * (* class CSameSecond unless the rename fails; it cannot fail *)
        exfalso. unfold rename_tx, rename_row in C. rewrite Hf in C.
        assert (Hex : existsb (fun m' => str_eqb (mb_name m') b && negb (mb_id m' =? mb_id m)) (mboxes s) = false).
        { apply not_true_is_false. intros X. apply existsb_exists in X. destruct X as (m' & Hm' & A).
          apply andb_true_iff in A. destruct A as [A _]. apply str_eqb_eq in A.
          exact (find_name_none s b m' Fb Hm' A). }
        rewrite Hex in C. fold (ren (mb_id m) b) in C.
        match type of C with context [children ?x a] => assert (Hc : children x a = []) end.
        { unfold children. simpl. apply (proj2 (filter_nil _ _)).
          intros m' Hm'. apply in_map_iff in Hm'. destruct Hm' as (m0 & <- & H0). unfold ren.
          destruct (mb_id m0 =? mb_id m); simpl; [exact Fl|].
          destruct (children s a) eqn:Ch; [|discriminate].
          unfold children in Ch. exact (proj1 (filter_nil _ _) Ch m0 H0). }
        rewrite Hc in C. simpl in C. discriminate.
      * destruct (rename_row_good s (mb_id m) b m I Hf Fb (used_b_false _ _ _ U)) as (s' & R & G & Em & El).
        unfold rename_tx. rewrite R.
        assert (Hc : children s' a = []).
        { unfold children. rewrite Em. apply (proj2 (filter_nil _ _)).
          intros m' Hm'. apply in_map_iff in Hm'. destruct Hm' as (m0 & <- & H0). unfold ren.
          destruct (mb_id m0 =? mb_id m); simpl; [exact Fl|].
          destruct (children s a) eqn:Ch; [|discriminate].
          unfold children in Ch. exact (proj1 (filter_nil _ _) Ch m0 H0). }
        rewrite Hc. simpl. exact G.
Qed.
