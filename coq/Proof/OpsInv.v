(** C03 — every operation of Model/Ops.v, in the hierarchy-free scope and
    outside the finding class validity_same_second, preserves the invariant
    ([step_good]).  Since the fix wave COPY, UID COPY, the Junk/NonJunk move and
    RENAME INBOX with messages preserve it unconditionally. *)
From Coq Require Import String Ascii List Bool ZArith Lia.
From Raven Require Import Base.GoStr Model.Store Model.Ops Spec.UidSpec Proof.StoreInv.
Import ListNotations.
Local Open Scope Z_scope.

(** ---- COPY / UID COPY: allocation from uid_next, written back ------------------ *)

Lemma insert_link_gser s msg mb uid fl s' :
  insert_link s msg mb uid fl = Some s' -> gser s' = gser s + 1.
Proof.
  unfold insert_link. destruct (existsb _ _); [discriminate|]. intros [= <-]. reflexivity.
Qed.

Lemma find_id_same_mboxes s s' mb : mboxes s' = mboxes s -> find_id s' mb = find_id s mb.
Proof. intros E. unfold find_id. now rewrite E. Qed.

Lemma find_link_same_links s s' mb u : links s' = links s -> find_link s' mb u = find_link s mb u.
Proof. intros E. unfold find_link. now rewrite E. Qed.

Lemma find_link_in' s mb' u l : find_link s mb' u = Some l -> In l (links s).
Proof. unfold find_link. intros H. apply find_some in H. tauto. Qed.

Lemma ins_by_uid_in' x l ls : In x (ins_by_uid l ls) -> x = l \/ In x ls.
Proof.
  induction ls as [|a ls IH]; simpl; [intuition (subst; auto)|].
  destruct (lk_uid l <=? lk_uid a); simpl; [intuition (subst; auto)|].
  intros [->|H]; [right; left; reflexivity|]. destruct (IH H); tauto.
Qed.

Lemma sort_by_uid_in' x ls : In x (sort_by_uid ls) -> In x ls.
Proof.
  induction ls as [|a ls IH]; simpl; [tauto|]. intros H. apply ins_by_uid_in' in H.
  destruct H as [->|H]; [now left | right; auto].
Qed.

Lemma uidcopy_loop_good uids : forall s sel dest next d,
  Inv (set_next s dest next) -> find_id s dest = Some d ->
  match uidcopy_loop s sel dest uids next with
  | Some sF => Good (set_next s dest next) sF
  | None => True
  end.
Proof.
  induction uids as [|u r IH]; simpl; intros s sel dest next d I Hf.
  - now apply Good_refl.
  - destruct (find_link s sel u) as [l|] eqn:Fl; [|now apply (IH s sel dest next d)].
    assert (Hl : In l (links (set_next s dest next))) by (simpl; eapply find_link_in'; exact Fl).
    destruct (insert_set_good s (lk_msg l) dest next (add_recent (lk_flags l)) d I Hf (inv_msg _ I l Hl)) as (s' & -> & G & Em & _).
    assert (Hf' : find_id s' dest = Some d) by (rewrite (find_id_same_mboxes s s' dest Em); exact Hf).
    pose proof (IH s' sel dest (next + 1) d (proj1 G) Hf') as K.
    destruct (uidcopy_loop s' sel dest r (next + 1)); [|exact Logic.I].
    eapply Good_trans; eauto.
Qed.

Lemma copy_loop_good seqs : forall s sel dest next d,
  Inv (set_next s dest next) -> find_id s dest = Some d ->
  match copy_loop s sel dest seqs next with
  | Some sF => Good (set_next s dest next) sF
  | None => True
  end.
Proof.
  induction seqs as [|n r IH]; simpl; intros s sel dest next d I Hf.
  - now apply Good_refl.
  - destruct (nth_error (links_sorted s sel) (Z.to_nat (n - 1))) as [l|] eqn:Fnth; [|exact Logic.I].
    assert (Hl : In l (links (set_next s dest next))).
    { simpl. apply nth_error_In in Fnth. unfold links_sorted in Fnth. apply sort_by_uid_in' in Fnth.
      unfold links_in in Fnth. apply filter_In in Fnth. tauto. }
    destruct (insert_set_good s (lk_msg l) dest next (add_recent (lk_flags l)) d I Hf (inv_msg _ I l Hl)) as (s' & -> & G & Em & _).
    assert (Hf' : find_id s' dest = Some d) by (rewrite (find_id_same_mboxes s s' dest Em); exact Hf).
    pose proof (IH s' sel dest (next + 1) d (proj1 G) Hf') as K.
    destruct (copy_loop s' sel dest r (next + 1)); [|exact Logic.I].
    eapply Good_trans; eauto.
Qed.

Lemma op_uidcopy_good s sel set d : Inv s -> Good s (fst (op_uidcopy s sel set d)).
Proof.
  intros I. unfold op_uidcopy. destruct (resolve_uids s sel set) as [|u r]; [now apply Good_refl|].
  destruct (find_name s d) as [m|] eqn:Fn; [|now apply Good_refl].
  apply find_name_some in Fn. destruct Fn as [Hm _]. pose proof (find_id_in s m I Hm) as Hf.
  pose proof (set_next_self s (mb_id m) m (inv_ids s I) Hf) as Es.
  assert (IT : Inv (set_next s (mb_id m) (mb_next m))) by (rewrite Es; exact I).
  pose proof (uidcopy_loop_good (u :: r) s sel (mb_id m) (mb_next m) m IT Hf) as K.
  destruct (uidcopy_loop s sel (mb_id m) (u :: r) (mb_next m)); simpl; [|now apply Good_refl].
  rewrite Es in K. exact K.
Qed.

Lemma op_copy_good s sel set d : Inv s -> Good s (fst (op_copy s sel set d)).
Proof.
  intros I. unfold op_copy. destruct (resolve_seqs s sel set) as [|u r]; [now apply Good_refl|].
  destruct (find_name s d) as [m|] eqn:Fn; [|now apply Good_refl].
  apply find_name_some in Fn. destruct Fn as [Hm _]. pose proof (find_id_in s m I Hm) as Hf.
  pose proof (set_next_self s (mb_id m) m (inv_ids s I) Hf) as Es.
  assert (IT : Inv (set_next s (mb_id m) (mb_next m))) by (rewrite Es; exact I).
  pose proof (copy_loop_good (u :: r) s sel (mb_id m) (mb_next m) m IT Hf) as K.
  destruct (copy_loop s sel (mb_id m) (u :: r) (mb_next m)); simpl; [|now apply Good_refl].
  rewrite Es in K. exact K.
Qed.

(** ---- UID STORE with the Junk / NonJunk move ------------------------------------- *)

Lemma set_flags_core s mb u fl : CoreEq s (set_flags s mb u fl).
Proof.
  repeat split; simpl; try lia.
  - rewrite map_map. apply map_ext. intros l. destruct (at_uid mb u l); reflexivity.
  - rewrite map_map. apply map_ext. intros l. destruct (at_uid mb u l); reflexivity.
Qed.

Lemma move_message_good s msg src su d fl : Inv s -> msg < next_msg s -> Good s (fst (move_message s msg src su d fl)).
Proof.
  intros I Hmsg. unfold move_message. destruct (find_name s d) as [m|] eqn:Fn; [|now apply Good_refl].
  destruct (mb_id m =? src); [now apply Good_refl|].
  apply find_name_some in Fn. destruct Fn as [Hm _]. pose proof (find_id_in s m I Hm) as Hf.
  pose proof (set_next_self s (mb_id m) m (inv_ids s I) Hf) as Es.
  assert (IT : Inv (set_next s (mb_id m) (mb_next m))) by (rewrite Es; exact I).
  destruct (insert_set_good s msg (mb_id m) (mb_next m) fl m IT Hf Hmsg) as (s' & -> & G & _).
  rewrite Es in G. simpl. eapply Good_trans; [exact G|]. apply Good_delete_links. apply G.
Qed.

Lemma uidstore_one_good s sel mode new u : Inv s -> Good s (uidstore_one s sel mode new u).
Proof.
  intros I. unfold uidstore_one. destruct (find_link s sel u) as [l|] eqn:Fl; [|now apply Good_refl].
  assert (Hmsg : lk_msg l < next_msg s) by (apply (inv_msg s I); eapply find_link_in'; exact Fl).
  assert (SF : forall fl, Good s (set_flags s sel u fl)) by (intros; apply Good_core_eq; auto; apply set_flags_core).
  destruct (negb (fmem JUNK (lk_flags l)) && fmem JUNK (calc_flags (lk_flags l) new mode)).
  - pose proof (move_message_good s (lk_msg l) sel u SPAM (fremove NONJUNK (calc_flags (lk_flags l) new mode)) I Hmsg) as Q.
    destruct (move_message s (lk_msg l) sel u SPAM _) as [s1 ok]. destruct ok; [exact Q | apply SF].
  - destruct (negb (fmem NONJUNK (lk_flags l)) && fmem NONJUNK (calc_flags (lk_flags l) new mode)).
    + pose proof (move_message_good s (lk_msg l) sel u INBOX (fremove JUNK (calc_flags (lk_flags l) new mode)) I Hmsg) as Q.
      destruct (move_message s (lk_msg l) sel u INBOX _) as [s1 ok]. destruct ok; [exact Q | apply SF].
    + apply SF.
Qed.

Lemma uidstore_fold_good sel mode new uids : forall s, Inv s ->
  Good s (fold_left (fun s' u => uidstore_one s' sel mode new u) uids s).
Proof.
  induction uids as [|u r IH]; simpl; intros s I; [now apply Good_refl|].
  pose proof (uidstore_one_good s sel mode new u I) as G.
  eapply Good_trans; [exact G|]. apply IH. apply G.
Qed.

(** ---- one clean step ---------------------------------------------------------- *)

Lemma store_message_core s : CoreEq s (fst (store_message s)).
Proof. repeat split. simpl. lia. Qed.

Lemma good_after_core s s1 s2 : Inv s -> CoreEq s s1 -> Good s1 s2 -> Good s s2.
Proof. intros I E G. eapply Good_trans; [apply Good_core_eq; eauto | exact G]. Qed.

Lemma deliver_tail_good s id m :
  Inv s -> find_id s id = Some m ->
  Good s (fst (let '(s2, msg) := store_message s in
               let '(s3, ok) := add_message s2 msg id [] in (s3, if ok then ROk else RNo))).
Proof.
  intros I Hf. unfold store_message.
  set (s2 := mkStore (mboxes s) (links s) (next_msg s + 1) (glog s) (gused s) (gser s)).
  assert (E : CoreEq s s2) by (repeat split; simpl; lia).
  assert (I2 : Inv s2) by (eapply Inv_core_eq; eauto).
  destruct (add_message_good s2 (next_msg s) id [] m I2 Hf ltac:(simpl; lia)) as (s3 & -> & G & _).
  simpl. eapply good_after_core; eauto.
Qed.

Lemma step_good s o : Inv s -> flat_step s o = true -> step_class s o = None -> Good s (fst (step s o)).
Proof.
  intros I F C. destruct o as [f t|f fl|sel set d|sel set d|sel set mode fl|sel|sel|n t|n|a b t];
    unfold step_class in C; simpl in *.
  - (* deliver *)
    unfold op_deliver in *. destruct (find_name s f) as [m|] eqn:Fn.
    + apply find_name_some in Fn. destruct Fn as [Hm _].
      simpl. apply (deliver_tail_good s (mb_id m) m); auto. now apply find_id_in.
    + destruct (create_mailbox_row s f t) as [[s' id]|] eqn:Cr; [|apply Good_refl; auto].
      destruct (create_row_good s f t s' id I Cr) as (G & Em & _).
      eapply Good_trans; [exact G|]. destruct G as [I' _].
      apply (deliver_tail_good s' id (mkMbox id f (next_validity s t) 1)); auto.
      replace id with (mb_id (mkMbox id f (next_validity s t) 1)) at 1 by reflexivity.
      apply find_id_in; auto. rewrite Em. apply in_or_app. right. now left.
  - (* append *)
    unfold op_append. destruct (find_name s f) as [m|] eqn:Fn; [|apply Good_refl; auto].
    apply find_name_some in Fn. destruct Fn as [Hm _].
    unfold store_message.
    set (s2 := mkStore (mboxes s) (links s) (next_msg s + 1) (glog s) (gused s) (gser s)).
    assert (E : CoreEq s s2) by (repeat split; simpl; lia).
    assert (I2 : Inv s2) by (eapply Inv_core_eq; eauto).
    assert (Hf : find_id s2 (mb_id m) = Some m) by (apply find_id_in; auto).
    destruct (add_message_good s2 (next_msg s) (mb_id m) fl m I2 Hf ltac:(simpl; lia)) as (s3 & -> & G & _).
    simpl. eapply good_after_core; eauto.
  - now apply op_uidcopy_good.
  - now apply op_copy_good.
  - unfold op_uidstore. simpl. now apply uidstore_fold_good.
  - now apply Good_delete_links.
  - now apply Good_delete_links.
  - (* create *)
    unfold op_create in *. remember (trim_suffix n [SLASH]) as name eqn:En. clear En.
    destruct name as [|c r]; [apply Good_refl; auto|]. cbv iota beta in *.
    set (name := c :: r) in *.
    destruct (str_eqb (to_upper name) INBOX); [apply Good_refl; auto|].
    destruct (is_role_ns name); [apply Good_refl; auto|].
    destruct (find_name s name); [apply Good_refl; auto|].
    apply negb_true_iff in F. unfold create_parents. rewrite F. change (fst (s, true)) with s.
    destruct (create_mailbox_row s name t) as [[s2 id]|] eqn:Cr; [|apply Good_refl; auto].
    simpl in *. destruct (create_row_good s name t s2 id I Cr) as (G & _). exact G.
  - (* delete *)
    clear C. unfold op_delete. destruct n as [|c r]; [apply Good_refl; auto|]. set (n := c :: r).
    destruct (str_eqb (to_upper n) INBOX); [apply Good_refl; auto|].
    destruct (find_name s n) as [m|]; [|apply Good_refl; auto].
    destruct (children s n); [|apply Good_refl; auto].
    destruct (existsb _ _); [apply Good_refl; auto|].
    simpl. now apply delete_mbox_good.
  - (* rename *)
    apply andb_true_iff in F. destruct F as [F Fu]. apply andb_true_iff in F. destruct F as [F Fc].
    apply andb_true_iff in F. destruct F as [Fs Fl].
    apply negb_true_iff in Fs. apply negb_true_iff in Fl. clear C.
    unfold op_rename in *.
    destruct a as [|ca ra]; [apply Good_refl; auto|].
    destruct b as [|cb rb]; [apply Good_refl; auto|]. cbv iota beta in *.
    set (a := ca :: ra) in *. set (b := cb :: rb) in *.
    destruct (is_role_ns b); [apply Good_refl; auto|].
    destruct (str_eqb (to_upper b) INBOX); [apply Good_refl; auto|].
    unfold is_inbox in Fu.
    destruct (str_eqb (to_upper a) INBOX).
    + (* RENAME INBOX *)
      unfold rename_inbox in *.
      destruct (find_name s b) eqn:Fb; [apply Good_refl; auto|].
      destruct (find_name s INBOX) as [ib|] eqn:Fi; [|apply Good_refl; auto].
      unfold create_parents. rewrite Fs. cbv iota beta. change (negb true) with false. cbv iota.
      destruct (create_mailbox_row s b t) as [[s1 nid]|] eqn:Cr; [|apply Good_refl; auto].
      destruct (create_row_shape s b t s1 nid Cr) as (_ & Enid & Es1).
      apply find_name_some in Fi. destruct Fi as [Hib _].
      assert (Hnone : forall l, In l (links s) -> lk_mbox l <> nid).
      { intros l Hl E. destruct (inv_home s I l Hl) as (m & Hm & Ei).
        pose proof (fresh_id_gt (map mb_id (mboxes s)) (mb_id m) (in_map mb_id _ _ Hm)). lia. }
      assert (Hne : mb_id ib <> nid).
      { pose proof (fresh_id_gt (map mb_id (mboxes s)) (mb_id ib) (in_map mb_id _ _ Hib)). lia. }
      assert (Hx : forall l, In l (links s) -> lk_mbox l = mb_id ib -> lk_uid l < mb_next ib).
      { intros l Hl E. now apply (Inv_uid_below s ib l I). }
      pose proof (next_validity_fresh s b t) as N.
      destruct (create_row_good s b t s1 nid I Cr) as ([I1 _] & _).
      set (x := Z.max (match find_id s1 nid with Some mt => mb_next mt | None => 1 end) (mb_next ib)).
      assert (Hx' : forall l, In l (links s) -> lk_mbox l = mb_id ib -> lk_uid l < x).
      { intros l Hl E. specialize (Hx l Hl E). unfold x. lia. }
      destruct (reparent_good s s1 (mb_id ib) nid b (next_validity s t) x I I1) as (s2 & -> & G); auto;
        rewrite Es1; reflexivity.
    + (* plain RENAME *)
      destruct (find_name s a) as [m|] eqn:Fa; [|apply Good_refl; auto].
      destruct (find_name s b) eqn:Fb; [apply Good_refl; auto|].
      unfold create_parents. rewrite Fs. cbv iota beta. change (negb true) with false. cbv iota.
      apply find_name_some in Fa. destruct Fa as [Hm Ena].
      pose proof (find_id_in s m I Hm) as Hf.
      apply negb_true_iff in Fu.
      destruct (rename_row_good s (mb_id m) b m I Hf Fb (used_b_false _ _ _ Fu)) as (s' & R & G & Em & El).
      unfold rename_tx. rewrite R.
      destruct (children s a) eqn:Ch; [|discriminate].
      simpl. exact G.
Qed.
