(** C09: EXPUNGE / UID EXPUNGE / CLOSE remove exactly the selected rows and
    the untagged EXPUNGE numbers, replayed in order by a client, give the
    server's new numbering; listings agree; histories keep UIDs ascending. *)
From Coq Require Import String Ascii List Bool Arith ZArith Lia.
From Raven Require Import Base.GoStr Base.GoStrZ Model.SeqSet Model.Expunge Spec.SeqSet Proof.SeqSetStr.
Import ListNotations.
Local Open Scope Z_scope.

(** the index form of the notice loop *)
Fixpoint idx_loop (sel : msg -> bool) (l : list msg) (k d : Z) : list Z :=
  match l with
  | [] => []
  | m :: l' => if sel m then (k - d) :: idx_loop sel l' (k + 1) (d + 1) else idx_loop sel l' (k + 1) d
  end.

Lemma assoc_number_from m pre post k0 :
  ~ In (m_id m) (map m_id pre) ->
  assoc (m_id m) (number_from k0 (pre ++ m :: post)) = k0 + Z.of_nat (length pre).
Proof.
  revert k0; induction pre as [|x pre IH]; intros k0 Hn; cbn [app number_from assoc length].
  - rewrite Z.eqb_refl. simpl. lia.
  - simpl in Hn. destruct (m_id m =? m_id x) eqn:E.
    + apply Z.eqb_eq in E. exfalso. apply Hn. left. congruence.
    + rewrite IH by (intros C; apply Hn; now right). rewrite Nat2Z.inj_succ. lia.
Qed.

Lemma expunge_loop_idx sel k0 : forall l pre d,
  NoDup (map m_id (pre ++ l)) ->
  expunge_loop (number_from k0 (pre ++ l)) (filter sel l) d = idx_loop sel l (k0 + Z.of_nat (length pre)) d.
Proof.
  induction l as [|m l IH]; intros pre d Hnd; [reflexivity|].
  assert (Hm : ~ In (m_id m) (map m_id pre)).
  { rewrite map_app in Hnd. simpl in Hnd. apply NoDup_remove_2 in Hnd. intros C. apply Hnd. apply in_or_app. now left. }
  assert (E : pre ++ m :: l = (pre ++ [m]) ++ l) by (now rewrite <- app_assoc).
  assert (L : k0 + Z.of_nat (length (pre ++ [m])) = k0 + Z.of_nat (length pre) + 1)
    by (rewrite app_length; simpl; lia).
  cbn [filter idx_loop]. destruct (sel m).
  - cbn [expunge_loop]. rewrite assoc_number_from by exact Hm. f_equal.
    rewrite E. rewrite IH by (now rewrite <- E). now rewrite L.
  - rewrite E. rewrite IH by (now rewrite <- E). now rewrite L.
Qed.

Lemma remove_nth_app {A} (a : list A) x b : remove_nth (length a) (a ++ x :: b) = a ++ b.
Proof. induction a as [|y a IH]; simpl; [reflexivity | now rewrite IH]. Qed.

Lemma replay_cons {A} (n : Z) ns (v : list A) : replay (n :: ns) v = replay ns (apply_expunge v n).
Proof. reflexivity. Qed.

Lemma replay_idx (sel : msg -> bool) : forall (l kept : list msg) k d,
  Z.of_nat (length kept) = k - 1 - d ->
  replay (idx_loop sel l k d) (kept ++ l) = kept ++ filter (fun m => negb (sel m)) l.
Proof.
  induction l as [|m l IH]; intros kept k d Hk; [reflexivity|].
  cbn [idx_loop filter]. destruct (sel m) eqn:E; cbn [negb].
  - rewrite replay_cons. unfold apply_expunge. replace (k - d <? 1) with false by (symmetry; apply Z.ltb_ge; lia).
    replace (Z.to_nat (k - d - 1)) with (length kept) by lia.
    rewrite remove_nth_app. apply IH. lia.
  - replace (kept ++ m :: l) with ((kept ++ [m]) ++ l) by (now rewrite <- app_assoc).
    rewrite IH by (rewrite app_length; simpl; lia). now rewrite <- app_assoc.
Qed.

Lemma nodup_inj (l : list msg) a b :
  NoDup (map m_id l) -> In a l -> In b l -> m_id a = m_id b -> a = b.
Proof.
  induction l as [|x l IH]; [contradiction|]. simpl. intros Hnd Ha Hb E.
  inversion Hnd as [|? ? Hx Hl]; subst.
  destruct Ha as [->|Ha], Hb as [->|Hb]; auto.
  - exfalso. apply Hx. rewrite E. now apply in_map.
  - exfalso. apply Hx. rewrite <- E. now apply in_map.
Qed.

Lemma remove_ids_filter sel (l : list msg) :
  NoDup (map m_id l) ->
  remove_ids (map m_id (filter sel l)) l = filter (fun m => negb (sel m)) l.
Proof.
  intros Hnd. unfold remove_ids. apply filter_ext_in. intros m Hm. f_equal.
  destruct (sel m) eqn:E.
  - apply existsb_exists. exists (m_id m). split; [|apply Z.eqb_refl].
    apply in_map. apply filter_In. now split.
  - destruct (existsb (Z.eqb (m_id m)) (map m_id (filter sel l))) eqn:X; [|reflexivity].
    apply existsb_exists in X. destruct X as (i & Hi & Ei). apply Z.eqb_eq in Ei. subst i.
    apply in_map_iff in Hi. destruct Hi as (m' & Eid & Hm'). apply filter_In in Hm'. destruct Hm' as [Hin Hs].
    assert (m' = m) by (apply (nodup_inj l); auto). subst. congruence.
Qed.

Theorem expunge_sel_correct sel (mbox : list msg) :
  NoDup (map m_id mbox) ->
  snd (expunge_sel sel mbox) = filter (fun m => negb (sel m)) mbox
  /\ replay (fst (expunge_sel sel mbox)) mbox = snd (expunge_sel sel mbox).
Proof.
  intros Hnd. unfold expunge_sel. destruct (filter sel mbox) as [|t r] eqn:F.
  - assert (K : filter (fun m => negb (sel m)) mbox = mbox).
    { clear Hnd. induction mbox as [|m l IH]; [reflexivity|]. simpl in *. destruct (sel m); [discriminate|].
      simpl. now rewrite IH. }
    simpl. now rewrite K.
  - rewrite <- F. cbn [fst snd]. rewrite remove_ids_filter by exact Hnd. split; [reflexivity|].
    pose proof (expunge_loop_idx sel 1 mbox [] 0 Hnd) as EL. cbn [app length] in EL. rewrite EL.
    apply (replay_idx sel mbox [] (1 + Z.of_nat 0) 0). simpl. lia.
Qed.

(** EXPUNGE *)
Theorem expunge_replay (mbox : list msg) :
  NoDup (map m_id mbox) ->
  let '(notices, mbox') := handle_expunge mbox in
  mbox' = filter (fun m => negb (sql_deleted (m_flags m))) mbox /\ replay notices mbox = mbox'.
Proof.
  intros Hnd. unfold handle_expunge.
  pose proof (expunge_sel_correct (fun m => sql_deleted (m_flags m)) mbox Hnd) as [H1 H2].
  destruct (expunge_sel _ mbox) as [ns mb]. simpl in *. now split.
Qed.

(** UID EXPUNGE *)
Theorem uid_expunge_replay (set : str) (mbox : list msg) :
  NoDup (map m_id mbox) ->
  let uids := parse_uidset_db set (map m_uid mbox) in
  let '(notices, mbox') := handle_uid_expunge set mbox in
  mbox' = filter (fun m => negb (uid_expunge_sel uids m)) mbox /\ replay notices mbox = mbox'.
Proof.
  intros Hnd. unfold handle_uid_expunge. cbv zeta.
  destruct (parse_uidset_db set (map m_uid mbox)) as [|u us] eqn:P.
  - cbv beta iota. split; [|reflexivity]. symmetry. clear P Hnd.
    induction mbox as [|m l IH]; [reflexivity|]. cbn [filter uid_expunge_sel existsb andb negb]. f_equal. exact IH.
  - pose proof (expunge_sel_correct (uid_expunge_sel (u :: us)) mbox Hnd) as [H1 H2].
    destruct (expunge_sel _ mbox) as [ns mb]. simpl in *. now split.
Qed.

(** CLOSE *)
Theorem close_exact (mbox : list msg) :
  NoDup (map m_id mbox) ->
  handle_close mbox = filter (fun m => negb (sql_deleted (m_flags m))) mbox.
Proof. intros Hnd. unfold handle_close. now apply remove_ids_filter. Qed.

(** where no stored flag string fools LIKE, "flagged \Deleted" is the atom test *)
Lemma filter_deleted_spec (mbox : list msg) :
  (forall m, In m mbox -> sql_deleted (m_flags m) = has_deleted (m_flags m)) ->
  filter (fun m => negb (sql_deleted (m_flags m))) mbox = filter (fun m => negb (has_deleted (m_flags m))) mbox.
Proof. intros H. apply filter_ext_in. intros m Hm. now rewrite H. Qed.

(** ---- listings describe the same mailbox ---- *)
Lemma label_from_fst k l : map fst (label_from k l) = zseq k (length l).
Proof. revert k; induction l as [|u l IH]; intros k; simpl; [reflexivity | now rewrite IH]. Qed.

Lemma label_from_snd k l : map snd (label_from k l) = l.
Proof. revert k; induction l as [|u l IH]; intros k; simpl; [reflexivity | now rewrite IH]. Qed.

Lemma search_all_numbers mbox : search_all mbox = zrange 1 (exists_count mbox).
Proof.
  unfold search_all, exists_count, zrange. rewrite label_from_fst, map_length. f_equal. lia.
Qed.

Lemma zskipn_0 {A} (l : list A) : zskipn 0 l = l.
Proof. destruct l; reflexivity. Qed.

Lemma zfirstn_all {A} (l : list A) : forall k, Z.of_nat (length l) <= k -> zfirstn k l = l.
Proof.
  induction l as [|x l IH]; intros k H; [reflexivity|]. cbn [zfirstn].
  cbn [length] in H. rewrite Nat2Z.inj_succ in H.
  replace (k <=? 0) with false by (symmetry; apply Z.leb_gt; lia). f_equal. apply IH. lia.
Qed.

(** rank by COUNT(uid' <= uid) is the position, for strictly ascending uids *)
Lemma ascending_lt x l : ascending (x :: l) -> forall y, In y l -> x < y.
Proof.
  revert x; induction l as [|z l IH]; intros x H y Hy; [contradiction|].
  destruct H as [Hxz Hr]. destruct Hy as [->|Hy]; [exact Hxz|].
  assert (z < y) by (apply IH; assumption). lia.
Qed.

Lemma ascending_tail x l : ascending (x :: l) -> ascending l.
Proof. intros [_ H]. exact H. Qed.

Lemma rank_position pre u post :
  ascending (pre ++ u :: post) -> rank_of (pre ++ u :: post) u = Z.of_nat (length pre) + 1.
Proof.
  unfold rank_of. induction pre as [|x pre IH]; intros H.
  - cbn [app filter]. rewrite Z.leb_refl. cbn [length].
    assert (K : filter (fun v => v <=? u) post = []).
    { pose proof (ascending_lt u post H) as L. clear H. induction post as [|y post IHp]; [reflexivity|].
      simpl. replace (y <=? u) with false by (symmetry; apply Z.leb_gt; apply L; now left).
      apply IHp. intros z Hz. apply L. now right. }
    rewrite K. reflexivity.
  - cbn [app filter]. assert (x < u) by (apply (ascending_lt x (pre ++ u :: post) H); apply in_or_app; right; now left).
    replace (x <=? u) with true by (symmetry; apply Z.leb_le; lia).
    cbn [length]. rewrite Nat2Z.inj_succ. rewrite Nat2Z.inj_succ in *. rewrite IH by (now apply ascending_tail in H). lia.
Qed.

(** ---- histories keep the uid order strict ---- *)
Lemma ascending_insert m l :
  ascending (map m_uid l) -> ascending (map m_uid (insert_row m l)).
Proof.
  induction l as [|x l IH]; intros H; [simpl; auto|].
  cbn [insert_row]. destruct (m_uid m <? m_uid x) eqn:E1.
  - apply Z.ltb_lt in E1. cbn [map ascending]. split; [exact E1 | exact H].
  - destruct (m_uid m =? m_uid x) eqn:E2; [exact H|].
    apply Z.ltb_ge in E1. apply Z.eqb_neq in E2.
    specialize (IH (ascending_tail _ _ H)).
    cbn [map]. destruct l as [|y l].
    + cbn [insert_row map ascending]. repeat split; auto. lia.
    + cbn [insert_row] in *. destruct H as [Hxy Hr].
      destruct (m_uid m <? m_uid y) eqn:E3.
      * cbn [map ascending] in *. split; [lia | exact IH].
      * destruct (m_uid m =? m_uid y) eqn:E4.
        -- cbn [map ascending] in *. split; [exact Hxy | exact IH].
        -- cbn [map ascending] in *. split; [exact Hxy | exact IH].
Qed.

Lemma ascending_filter (f : msg -> bool) l :
  ascending (map m_uid l) -> ascending (map m_uid (filter f l)).
Proof.
  induction l as [|x l IH]; intros H; [simpl; auto|].
  pose proof (ascending_lt _ _ H) as L. specialize (IH (ascending_tail _ _ H)).
  cbn [filter]. destruct (f x); [|exact IH].
  cbn [map]. remember (filter f l) as fl eqn:Ef. destruct fl as [|y fl]; [simpl; auto|].
  cbn [map ascending] in *. split; [|exact IH].
  apply L. apply in_map. assert (In y (filter f l)) by (rewrite <- Ef; now left).
  apply filter_In in H0. tauto.
Qed.

Lemma set_flags_uids i f l : map m_uid (set_flags_nth i f l) = map m_uid l.
Proof.
  unfold set_flags_nth. generalize 0%nat as k. induction l as [|x l IH]; intros k; [reflexivity|].
  cbn [length seq combine map]. rewrite IH. destruct (Nat.eqb k i); reflexivity.
Qed.

Lemma h_step_ascending mb o : ascending (map m_uid (rows mb)) -> ascending (map m_uid (rows (h_step mb o))).
Proof.
  intros H. destruct o; cbn [h_step rows].
  - now apply ascending_insert.
  - now apply ascending_insert.
  - now rewrite set_flags_uids.
  - unfold handle_expunge, expunge_sel. destruct (filter _ (rows mb)); [exact H|]. cbn [snd]. now apply ascending_filter.
  - unfold handle_uid_expunge. destruct (parse_uidset_db _ _); [exact H|].
    unfold expunge_sel. destruct (filter _ (rows mb)); [exact H|]. cbn [snd]. now apply ascending_filter.
  - unfold handle_close. now apply ascending_filter.
Qed.

Theorem history_ascending (h : list hop) : ascending (map m_uid (rows (run_history h))).
Proof.
  unfold run_history.
  assert (G : forall mb, ascending (map m_uid (rows mb)) -> ascending (map m_uid (rows (fold_left h_step h mb)))).
  { induction h as [|o h IH]; intros mb H; [exact H|]. simpl. apply IH. now apply h_step_ascending. }
  apply G. simpl. auto.
Qed.
