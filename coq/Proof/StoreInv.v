(** C03 — the invariant of the mailbox/UID state machine and the row-level
    lemmas: each primitive of Model/Store.v preserves the invariant and relates
    the states before/after ([Step_ok]). *)
From Coq Require Import String Ascii List Bool ZArith Lia.
From Raven Require Import Base.GoStr Model.Store Model.Ops Spec.UidSpec.
Import ListNotations.
Local Open Scope Z_scope.

Record Inv (s : store) : Prop := mkInv {
  inv_names : NoDup (map mb_name (mboxes s));
  inv_ids : NoDup (map mb_id (mboxes s));
  inv_uniq : NoDup (map (fun l => (lk_mbox l, lk_uid l)) (links s));
  inv_home : forall l, In l (links s) -> exists m, In m (mboxes s) /\ mb_id m = lk_mbox l;
  inv_logged : visible_logged s;
  inv_used_e : forall e, In e (glog s) -> In (ge_name e, ge_validity e) (gused s);
  inv_used_m : forall m, In m (mboxes s) -> In (mb_name m, mb_validity m) (gused s);
  inv_fun : uid_functional s;
  inv_next : uidnext_truthful s;
  inv_msg : forall l, In l (links s) -> lk_msg l < next_msg s
}.

(** relation between the state before and after one (or more) clean operations *)
Definition Step_ok (s s' : store) : Prop :=
  incl (glog s) (glog s') /\ incl (gused s) (gused s') /\
  (forall m', In m' (mboxes s') ->
     (exists m, In m (mboxes s) /\ mb_name m = mb_name m' /\ mb_validity m = mb_validity m' /\
                mb_next m <= mb_next m')
     \/ ~ In (mb_name m', mb_validity m') (gused s)) /\
  (forall e', In e' (glog s') -> ~ In e' (glog s) ->
     forall e, In e (glog s) -> ge_name e = ge_name e' -> ge_validity e = ge_validity e' ->
               ge_uid e < ge_uid e').

Definition Good (s s' : store) : Prop := Inv s' /\ Step_ok s s'.

Lemma gentry_eq_dec (a b : gentry) : {a = b} + {a <> b}.
Proof.
  destruct a as [n v u g], b as [n' v' u' g'].
  destruct (str_eqb_spec n n'); [|right; congruence].
  destruct (Z.eq_dec v v'); [|right; congruence].
  destruct (Z.eq_dec u u'); [|right; congruence].
  destruct (Z.eq_dec g g'); [|right; congruence].
  left. congruence.
Qed.

Lemma Step_ok_refl s : Step_ok s s.
Proof.
  repeat split; try apply incl_refl.
  - intros m' H. left. exists m'. repeat split; auto; lia.
  - intros e' H N. contradiction.
Qed.

Lemma Step_ok_same s s' :
  mboxes s' = mboxes s -> glog s' = glog s -> gused s' = gused s -> Step_ok s s'.
Proof. intros E1 E2 E3. unfold Step_ok. rewrite E1, E2, E3. apply Step_ok_refl. Qed.

Lemma Step_ok_trans s1 s2 s3 : Step_ok s1 s2 -> Step_ok s2 s3 -> Step_ok s1 s3.
Proof.
  intros (L1 & U1 & M1 & A1) (L2 & U2 & M2 & A2). repeat split.
  - eapply incl_tran; eauto.
  - eapply incl_tran; eauto.
  - intros m3 H3. destruct (M2 m3 H3) as [(m2 & H2 & En & Ev & Le)|N].
    + destruct (M1 m2 H2) as [(m1 & H1 & En1 & Ev1 & Le1)|N1].
      * left. exists m1. repeat split; auto; try congruence; lia.
      * right. rewrite <- En, <- Ev. exact N1.
    + right. intros C. apply N. apply U1. exact C.
  - intros e' H3 N1 e He En Ev.
    destruct (in_dec gentry_eq_dec e' (glog s2)) as [I2|I2].
    2:{ apply (A2 e' H3 I2 e (L1 e He) En Ev). }
    apply (A1 e' I2 N1 e He En Ev).
Qed.

Lemma Good_refl s : Inv s -> Good s s.
Proof. intros H. split; [exact H | apply Step_ok_refl]. Qed.

Lemma Good_trans s1 s2 s3 : Good s1 s2 -> Good s2 s3 -> Good s1 s3.
Proof. intros [_ A] [I B]. split; [exact I | eapply Step_ok_trans; eauto]. Qed.

(** ---- list helpers ------------------------------------------------------- *)

Lemma find_some_in {A} (f : A -> bool) l x : find f l = Some x -> In x l /\ f x = true.
Proof. apply find_some. Qed.

Lemma find_name_some s n m : find_name s n = Some m -> In m (mboxes s) /\ mb_name m = n.
Proof.
  unfold find_name. intros H. apply find_some in H. destruct H as [H1 H2].
  split; [exact H1 | now apply str_eqb_eq].
Qed.

Lemma find_name_none s n m : find_name s n = None -> In m (mboxes s) -> mb_name m <> n.
Proof.
  unfold find_name. intros H Hm E. eapply find_none in H; eauto. simpl in H.
  rewrite E, str_eqb_refl in H. discriminate.
Qed.

Lemma find_id_some s i m : find_id s i = Some m -> In m (mboxes s) /\ mb_id m = i.
Proof.
  unfold find_id. intros H. apply find_some in H. destruct H as [H1 H2].
  split; [exact H1 | now apply Z.eqb_eq].
Qed.

Lemma fold_max_ge l x : In x l -> x <= fold_right Z.max 0 l.
Proof. induction l as [|y l IH]; simpl; [tauto|]. intros [->|H]; [lia | specialize (IH H); lia]. Qed.

Lemma fresh_id_gt l x : In x l -> x < fresh_id l.
Proof. intros H. unfold fresh_id. pose proof (fold_max_ge l x H). lia. Qed.

Lemma NoDup_map_filter {A B} (k : A -> B) (p : A -> bool) l :
  NoDup (map k l) -> NoDup (map k (filter p l)).
Proof.
  induction l as [|x l IH]; simpl; [auto|]. intros H. inversion H as [|? ? N H']; subst.
  destruct (p x); simpl; [constructor|]; auto.
  intros C. apply N. apply in_map_iff in C. destruct C as (y & E & Hy).
  apply filter_In in Hy. apply in_map_iff. exists y. tauto.
Qed.

Lemma NoDup_map_inj {A B} (k : A -> B) l x y :
  NoDup (map k l) -> In x l -> In y l -> k x = k y -> x = y.
Proof.
  induction l as [|a l IH]; simpl; [tauto|]. intros H Hx Hy E. inversion H as [|? ? N H']; subst.
  destruct Hx as [->|Hx], Hy as [->|Hy]; auto.
  - exfalso. apply N. rewrite E. now apply in_map.
  - exfalso. apply N. rewrite <- E. now apply in_map.
Qed.

Lemma filter_nil {A} (p : A -> bool) l : filter p l = [] <-> (forall x, In x l -> p x = false).
Proof.
  induction l as [|a l IH]; simpl; [split; [intros _ x [] | reflexivity]|].
  destruct (p a) eqn:E; split.
  - discriminate.
  - intros H. specialize (H a (or_introl eq_refl)). congruence.
  - intros H x [<-|Hx]; [exact E | now apply IH].
  - intros H. apply IH. intros x Hx. apply H. now right.
Qed.

Lemma NoDup_app_one {A} (l : list A) x : NoDup l -> ~ In x l -> NoDup (l ++ [x]).
Proof.
  induction l as [|a l IH]; simpl; intros H N.
  - constructor; [tauto | constructor].
  - inversion H as [|? ? Na H']; subst. constructor.
    + intros C. apply in_app_or in C. destruct C as [C|[C|[]]]; [tauto|]. apply N. now left.
    + apply IH; auto.
Qed.

(** ---- shape 1: same core ------------------------------------------------- *)

Definition core (l : link) : Z * Z * Z := (lk_mbox l, lk_uid l, lk_gid l).

Definition CoreEq (s s' : store) : Prop :=
  mboxes s = mboxes s' /\ glog s = glog s' /\ gused s = gused s' /\
  map core (links s) = map core (links s') /\
  map lk_msg (links s) = map lk_msg (links s') /\ next_msg s <= next_msg s'.

Lemma core_in ls ls' l' : map core ls = map core ls' -> In l' ls' ->
  exists l, In l ls /\ core l = core l'.
Proof.
  intros E H. apply (in_map core) in H. rewrite <- E in H. apply in_map_iff in H.
  destruct H as (l & E' & Hl). eauto.
Qed.

Lemma CoreEq_refl s : CoreEq s s.
Proof. repeat split. lia. Qed.

Lemma CoreEq_trans a b c : CoreEq a b -> CoreEq b c -> CoreEq a c.
Proof. intros (A1 & A2 & A3 & A4 & A5 & A6) (B1 & B2 & B3 & B4 & B5 & B6). repeat split; try congruence. lia. Qed.

Lemma Inv_core_eq s s' : CoreEq s s' -> Inv s -> Inv s'.
Proof.
  intros (Em & Eg & Eu & El & Emsg & En) I. destruct I as [I1 I2 I3 I4 I5 I6 I7 I8 I9 I10].
  constructor.
  - rewrite <- Em. exact I1.
  - rewrite <- Em. exact I2.
  - replace (map (fun l => (lk_mbox l, lk_uid l)) (links s'))
      with (map (fun c : Z * Z * Z => (fst (fst c), snd (fst c))) (map core (links s')))
      by (rewrite map_map; reflexivity).
    rewrite <- El. rewrite map_map. exact I3.
  - intros l' Hl'. destruct (core_in _ _ _ El Hl') as (l & Hl & Ec).
    rewrite <- Em. destruct (I4 l Hl) as (m & Hm & Ei). exists m. split; auto.
    unfold core in Ec. congruence.
  - intros m l' Hm Hl' Ei. rewrite <- Em in Hm. rewrite <- Eg.
    destruct (core_in _ _ _ El Hl') as (l & Hl & Ec). unfold core in Ec.
    injection Ec as E1 E2 E3. rewrite <- E2, <- E3. apply I5; auto. congruence.
  - intros e He. rewrite <- Eg in He. rewrite <- Eu. auto.
  - intros m Hm. rewrite <- Em in Hm. rewrite <- Eu. auto.
  - unfold uid_functional. rewrite <- Eg. exact I8.
  - unfold uidnext_truthful. rewrite <- Eg, <- Em. exact I9.
  - intros l' Hl'. apply (in_map lk_msg) in Hl'. rewrite <- Emsg in Hl'. apply in_map_iff in Hl'.
    destruct Hl' as (l & E & Hl). rewrite <- E. specialize (I10 l Hl). lia.
Qed.

Lemma Good_core_eq s s' : CoreEq s s' -> Inv s -> Good s s'.
Proof.
  intros E I. split; [eapply Inv_core_eq; eauto|].
  destruct E as (Em & Eg & Eu & El & _). apply Step_ok_same; auto.
Qed.

(** ---- shape 2: links removed --------------------------------------------- *)

Lemma Good_delete_links s p : Inv s -> Good s (delete_links s p).
Proof.
  intros I. destruct I as [I1 I2 I3 I4 I5 I6 I7 I8 I9 I10].
  split; [|apply Step_ok_same; reflexivity].
  constructor; simpl; auto.
  - now apply NoDup_map_filter.
  - intros l Hl. apply filter_In in Hl. apply I4. tauto.
  - intros m l Hm Hl. apply filter_In in Hl. apply I5; tauto.
  - intros l Hl. apply filter_In in Hl. apply I10. tauto.
Qed.

(** ---- shape 3: uid_next incremented, link inserted (AddMessageToMailbox) -- *)

Lemma bump_row_name mb m : mb_name (bump_row mb m) = mb_name m.
Proof. unfold bump_row. destruct (mb_id m =? mb); reflexivity. Qed.
Lemma bump_row_id mb m : mb_id (bump_row mb m) = mb_id m.
Proof. unfold bump_row. destruct (mb_id m =? mb); reflexivity. Qed.
Lemma bump_row_validity mb m : mb_validity (bump_row mb m) = mb_validity m.
Proof. unfold bump_row. destruct (mb_id m =? mb); reflexivity. Qed.
Lemma bump_row_next mb m :
  mb_next (bump_row mb m) = if mb_id m =? mb then mb_next m + 1 else mb_next m.
Proof. unfold bump_row. destruct (mb_id m =? mb); reflexivity. Qed.

Lemma find_id_bump s mb m :
  find_id s mb = Some m -> find_id (bump s mb) mb = Some (bump_row mb m).
Proof.
  unfold find_id, bump. simpl. induction (mboxes s) as [|x l IH]; simpl; [discriminate|].
  rewrite bump_row_id. destruct (mb_id x =? mb) eqn:E; [intros [= ->]; reflexivity | exact IH].
Qed.

Lemma existsb_at_uid_false s mb u :
  (forall l, In l (links s) -> lk_mbox l = mb -> lk_uid l <> u) ->
  existsb (at_uid mb u) (links s) = false.
Proof.
  intros H. apply not_true_is_false. intros C. apply existsb_exists in C.
  destruct C as (l & Hl & A). unfold at_uid in A. apply andb_true_iff in A.
  destruct A as [A1 A2]. apply Z.eqb_eq in A1. apply Z.eqb_eq in A2. eapply H; eauto.
Qed.

(** existing UIDs are below uid_next *)
Lemma Inv_uid_below s m l : Inv s -> In m (mboxes s) -> In l (links s) -> lk_mbox l = mb_id m ->
  lk_uid l < mb_next m.
Proof.
  intros I Hm Hl E.
  pose proof (inv_logged s I m l Hm Hl E) as Hlog.
  apply (inv_next s I m _ Hm Hlog); reflexivity.
Qed.

Lemma add_message_good s msg mb flags m :
  Inv s -> find_id s mb = Some m -> msg < next_msg s ->
  exists s2, add_message s msg mb flags = (s2, true) /\ Good s s2 /\
    mboxes s2 = map (bump_row mb) (mboxes s) /\
    links s2 = links s ++ [mkLink (fresh_id (map lk_id (links s))) msg mb (mb_next m) flags (gser s)] /\
    next_msg s2 = next_msg s /\
    glog s2 = glog s ++ [mkGe (mb_name m) (mb_validity m) (mb_next m) (gser s)] /\
    gused s2 = gused s.
Proof.
  intros I Hf Hmsg. pose proof (find_id_some _ _ _ Hf) as [Hm Ei].
  unfold add_message. rewrite Hf. unfold insert_link.
  assert (Hno : existsb (at_uid mb (mb_next m)) (links (bump s mb)) = false).
  { apply existsb_at_uid_false. simpl. intros l Hl El Eu.
    pose proof (Inv_uid_below s m l I Hm Hl ltac:(congruence)). lia. }
  rewrite Hno. unfold log_for. rewrite (find_id_bump _ _ _ Hf). rewrite bump_row_name, bump_row_validity.
  eexists. split; [reflexivity|]. split; [|simpl; repeat split].
  set (ent := mkGe (mb_name m) (mb_validity m) (mb_next m) (gser s)).
  destruct I as [I1 I2 I3 I4 I5 I6 I7 I8 I9 I10].
  assert (Hkey : forall m', In m' (mboxes s) -> mb_name m' = mb_name m -> m' = m).
  { intros m' Hm' E. apply (NoDup_map_inj mb_name (mboxes s)); auto. }
  assert (Hidk : forall m', In m' (mboxes s) -> mb_id m' = mb -> m' = m).
  { intros m' Hm' E. apply (NoDup_map_inj mb_id (mboxes s)); auto. congruence. }
  split.
  - constructor; simpl.
    + rewrite map_map. erewrite map_ext; [exact I1|]. intros; apply bump_row_name.
    + rewrite map_map. erewrite map_ext; [exact I2|]. intros; apply bump_row_id.
    + rewrite map_app. simpl. apply NoDup_app_one.
      * exact I3.
      * intros C. apply in_map_iff in C. destruct C as (l & E & Hl). injection E as E1 E2.
        pose proof (Inv_uid_below s m l (mkInv s I1 I2 I3 I4 I5 I6 I7 I8 I9 I10) Hm Hl ltac:(congruence)). lia.
    + intros l Hl. apply in_app_or in Hl. destruct Hl as [Hl|[<-|[]]].
      * destruct (I4 l Hl) as (m0 & H0 & E0). exists (bump_row mb m0). split.
        -- now apply in_map.
        -- now rewrite bump_row_id.
      * exists (bump_row mb m). split; [now apply in_map | now rewrite bump_row_id].
    + intros m' l Hm' Hl El. apply in_map_iff in Hm'. destruct Hm' as (m0 & <- & H0).
      rewrite bump_row_name, bump_row_validity. rewrite bump_row_id in El.
      apply in_or_app. apply in_app_or in Hl. destruct Hl as [Hl|[<-|[]]].
      * left. now apply I5.
      * right. simpl in *. left. rewrite (Hidk m0 H0 (eq_sym El)). reflexivity.
    + intros e He. apply in_app_or in He. destruct He as [He|[<-|[]]]; [now apply I6|].
      simpl. now apply I7.
    + intros m' Hm'. apply in_map_iff in Hm'. destruct Hm' as (m0 & <- & H0).
      rewrite bump_row_name, bump_row_validity. now apply I7.
    + intros e1 e2 H1 H2 En Ev Eu.
      apply in_app_or in H1. apply in_app_or in H2.
      destruct H1 as [H1|[<-|[]]], H2 as [H2|[<-|[]]]; auto.
      * exfalso. simpl in *. pose proof (I9 m e1 Hm H1 En Ev). lia.
      * exfalso. simpl in *. pose proof (I9 m e2 Hm H2 (eq_sym En) (eq_sym Ev)). lia.
    + intros m' e Hm' He En Ev. apply in_map_iff in Hm'. destruct Hm' as (m0 & <- & H0).
      rewrite bump_row_name in En. rewrite bump_row_validity in Ev. rewrite bump_row_next.
      apply in_app_or in He. destruct He as [He|[<-|[]]].
      * pose proof (I9 m0 e H0 He En Ev). destruct (mb_id m0 =? mb); lia.
      * simpl in *. rewrite (Hkey m0 H0 (eq_sym En)). rewrite Ei, Z.eqb_refl. lia.
    + intros l Hl. apply in_app_or in Hl. destruct Hl as [Hl|[<-|[]]]; [now apply I10 | exact Hmsg].
  - repeat split; simpl.
    + apply incl_appl, incl_refl.
    + apply incl_refl.
    + intros m' Hm'. apply in_map_iff in Hm'. destruct Hm' as (m0 & <- & H0). left.
      exists m0. rewrite bump_row_name, bump_row_validity, bump_row_next.
      repeat split; auto. destruct (mb_id m0 =? mb); lia.
    + intros e' He' N e He En Ev. apply in_app_or in He'. destruct He' as [He'|[<-|[]]]; [contradiction|].
      simpl in *. apply (I9 m e Hm He En Ev).
Qed.

(** ---- shape 4: a mailbox row is created (CreateMailboxPerUser) ------------ *)

Lemma used_b_false s n v : used_b s n v = false -> ~ In (n, v) (gused s).
Proof.
  unfold used_b. intros H C. apply not_true_iff_false in H. apply H.
  apply existsb_exists. exists (n, v). split; [exact C|].
  now rewrite str_eqb_refl, Z.eqb_refl.
Qed.

Lemma create_row_shape s n t s' id :
  create_mailbox_row s n t = Some (s', id) ->
  find_name s n = None /\ id = fresh_id (map mb_id (mboxes s)) /\
  s' = mkStore (mboxes s ++ [mkMbox id n (next_validity s t) 1]) (links s) (next_msg s) (glog s)
               (gused s ++ [(n, next_validity s t)]) (gser s).
Proof.
  unfold create_mailbox_row. destruct n; [discriminate|].
  destruct (find_name s (a :: n)); [discriminate|]. intros [= <- <-]. auto.
Qed.

(** the stamp handed out by the allocator was never used in this store, with any name *)
Lemma next_validity_fresh s (n' : str) t : ~ In (n', next_validity s t) (gused s).
Proof.
  intros C. apply (in_map snd) in C. simpl in C. apply fold_max_ge in C.
  unfold next_validity, vhigh in *. lia.
Qed.

Lemma create_row_good s n t s' id :
  Inv s -> create_mailbox_row s n t = Some (s', id) ->
  Good s s' /\ mboxes s' = mboxes s ++ [mkMbox id n (next_validity s t) 1] /\ links s' = links s /\
  (forall l, In l (links s) -> lk_mbox l <> id).
Proof.
  intros I H. pose proof (next_validity_fresh s n t) as N. set (v := next_validity s t) in *.
  unfold create_mailbox_row in H. fold v in H.
  destruct n as [|c n0] eqn:En; [discriminate|]. rewrite <- En in *. clear En c n0.
  destruct (find_name s n) eqn:Fn; [discriminate|]. injection H as <- <-.
  set (id := fresh_id (map mb_id (mboxes s))).
  assert (Hfresh : forall l, In l (links s) -> lk_mbox l <> id).
  { intros l Hl E. destruct (inv_home s I l Hl) as (m & Hm & Ei).
    pose proof (fresh_id_gt (map mb_id (mboxes s)) (mb_id m) (in_map mb_id _ _ Hm)). fold id in H. lia. }
  split; [|simpl; auto].
  destruct I as [I1 I2 I3 I4 I5 I6 I7 I8 I9 I10]. split.
  - constructor; simpl.
    + rewrite map_app. simpl. apply NoDup_app_one; auto.
      intros C. apply in_map_iff in C. destruct C as (m & E & Hm).
      exact (find_name_none s n m Fn Hm E).
    + rewrite map_app. simpl. apply NoDup_app_one; auto.
      intros C. pose proof (fresh_id_gt _ _ C). fold id in H. lia.
    + exact I3.
    + intros l Hl. destruct (I4 l Hl) as (m & Hm & E). exists m. split; auto. apply in_or_app. now left.
    + intros m l Hm Hl E. apply in_app_or in Hm. destruct Hm as [Hm|[<-|[]]]; [now apply I5|].
      simpl in E. exfalso. exact (Hfresh l Hl E).
    + intros e He. apply in_or_app. left. now apply I6.
    + intros m Hm. apply in_or_app. apply in_app_or in Hm. destruct Hm as [Hm|[<-|[]]]; [left; now apply I7|].
      right. simpl. now left.
    + exact I8.
    + intros m e Hm He En Ev. apply in_app_or in Hm. destruct Hm as [Hm|[<-|[]]]; [now apply (I9 m e)|].
      simpl in *. exfalso. apply N. rewrite <- En, <- Ev. now apply I6.
    + exact I10.
  - repeat split; simpl.
    + apply incl_refl.
    + apply incl_appl, incl_refl.
    + intros m Hm. apply in_app_or in Hm. destruct Hm as [Hm|[<-|[]]].
      * left. exists m. repeat split; auto. lia.
      * right. exact N.
    + intros e' He' C. contradiction.
Qed.

(** ---- shape 5: a mailbox row and its links are deleted --------------------- *)

Lemma delete_mbox_good s id :
  Inv s ->
  let s1 := delete_links s (in_mbox id) in
  Good s (set_mboxes s1 (filter (fun m' => negb (mb_id m' =? id)) (mboxes s1))).
Proof.
  intros I. destruct I as [I1 I2 I3 I4 I5 I6 I7 I8 I9 I10]. simpl. split.
  - constructor; simpl.
    + now apply NoDup_map_filter.
    + now apply NoDup_map_filter.
    + now apply NoDup_map_filter.
    + intros l Hl. apply filter_In in Hl. destruct Hl as [Hl Hp].
      destruct (I4 l Hl) as (m & Hm & E). exists m. split; auto. apply filter_In. split; auto.
      unfold in_mbox in Hp. rewrite E. exact Hp.
    + intros m l Hm Hl E. apply filter_In in Hm. apply filter_In in Hl. apply I5; tauto.
    + exact I6.
    + intros m Hm. apply filter_In in Hm. apply I7. tauto.
    + exact I8.
    + intros m e Hm. apply filter_In in Hm. apply I9. tauto.
    + intros l Hl. apply filter_In in Hl. apply I10. tauto.
  - repeat split; simpl; try apply incl_refl.
    + intros m Hm. apply filter_In in Hm. left. exists m. repeat split; try tauto. lia.
    + intros e' He' C. contradiction.
Qed.

(** ---- shape 6: a mailbox row is renamed (flat) ------------------------------ *)

Definition ren (mb : Z) (new : str) (m' : mbox) : mbox :=
  if mb_id m' =? mb then mkMbox (mb_id m') new (mb_validity m') (mb_next m') else m'.

Lemma ren_id mb new m : mb_id (ren mb new m) = mb_id m.
Proof. unfold ren. destruct (mb_id m =? mb); reflexivity. Qed.
Lemma ren_validity mb new m : mb_validity (ren mb new m) = mb_validity m.
Proof. unfold ren. destruct (mb_id m =? mb); reflexivity. Qed.
Lemma ren_next mb new m : mb_next (ren mb new m) = mb_next m.
Proof. unfold ren. destruct (mb_id m =? mb); reflexivity. Qed.

Lemma ren_names mb new l :
  NoDup (map mb_id l) -> NoDup (map mb_name l) -> ~ In new (map mb_name l) ->
  NoDup (map mb_name (map (ren mb new) l)).
Proof.
  induction l as [|x l IH]; simpl; intros Hi Hn N; [constructor|].
  inversion Hi as [|? ? Ni Hi']; subst. inversion Hn as [|? ? Nn Hn']; subst.
  assert (Sub : forall y, In y (map mb_name (map (ren mb new) l)) -> y = new \/ In y (map mb_name l)).
  { intros y Hy. apply in_map_iff in Hy. destruct Hy as (m' & E & Hm'). apply in_map_iff in Hm'.
    destruct Hm' as (m0 & <- & H0). unfold ren in E. destruct (mb_id m0 =? mb); simpl in E.
    - now left.
    - right. rewrite <- E. now apply in_map. }
  constructor.
  - intros C. unfold ren at 1 in C. destruct (mb_id x =? mb) eqn:E; simpl in C.
    + apply Z.eqb_eq in E. apply in_map_iff in C. destruct C as (m' & E' & Hm').
      apply in_map_iff in Hm'. destruct Hm' as (m0 & <- & H0). unfold ren in E'.
      destruct (mb_id m0 =? mb) eqn:E0.
      * apply Z.eqb_eq in E0. apply Ni. rewrite E, <- E0. now apply in_map.
      * apply N. right. rewrite <- E'. now apply in_map.
    + destruct (Sub _ C) as [E'|C']; [apply N; left; exact E' | contradiction].
  - apply IH; auto.
Qed.

Lemma rename_row_good s mb new m :
  Inv s -> find_id s mb = Some m -> find_name s new = None ->
  ~ In (new, mb_validity m) (gused s) ->
  exists s', rename_row s mb new = Some s' /\ Good s s' /\
             mboxes s' = map (ren mb new) (mboxes s) /\ links s' = links s.
Proof.
  intros I Hf Fn N. pose proof (find_id_some _ _ _ Hf) as [Hm Ei].
  unfold rename_row. rewrite Hf.
  assert (Hex : existsb (fun m' => str_eqb (mb_name m') new && negb (mb_id m' =? mb)) (mboxes s) = false).
  { apply not_true_is_false. intros C. apply existsb_exists in C. destruct C as (m' & Hm' & A).
    apply andb_true_iff in A. destruct A as [A _]. apply str_eqb_eq in A.
    exact (find_name_none s new m' Fn Hm' A). }
  rewrite Hex. eexists. split; [reflexivity|]. split; [|simpl; auto].
  set (v := mb_validity m).
  destruct I as [I1 I2 I3 I4 I5 I6 I7 I8 I9 I10].
  assert (Hidk : forall m', In m' (mboxes s) -> mb_id m' = mb -> m' = m).
  { intros m' Hm' E. apply (NoDup_map_inj mb_id (mboxes s)); auto. congruence. }
  assert (Hrl : forall e, In e (relog s mb new v) ->
            exists l, In l (links s) /\ lk_mbox l = mb /\ e = mkGe new v (lk_uid l) (lk_gid l)).
  { intros e He. unfold relog in He. apply in_map_iff in He. destruct He as (l & <- & Hl).
    apply filter_In in Hl. destruct Hl as [Hl Hp]. unfold in_mbox in Hp. apply Z.eqb_eq in Hp. eauto. }
  assert (Hnew : forall e, In e (glog s) -> ge_name e = new -> ge_validity e = v -> False).
  { intros e He En Ev. apply N. fold v. rewrite <- En, <- Ev. now apply I6. }
  fold (ren mb new). split.
  - constructor; simpl.
    + apply ren_names; auto. intros C. apply in_map_iff in C. destruct C as (m' & E & Hm').
      exact (find_name_none s new m' Fn Hm' E).
    + rewrite map_map. erewrite map_ext; [exact I2|]. intros; apply ren_id.
    + exact I3.
    + intros l Hl. destruct (I4 l Hl) as (m0 & H0 & E). exists (ren mb new m0).
      split; [now apply in_map | now rewrite ren_id].
    + intros m' l Hm' Hl E. apply in_map_iff in Hm'. destruct Hm' as (m0 & <- & H0).
      rewrite ren_id in E. rewrite ren_validity. apply in_or_app. unfold ren.
      destruct (mb_id m0 =? mb) eqn:E0; simpl.
      * right. apply Z.eqb_eq in E0. rewrite (Hidk m0 H0 E0). fold v. unfold relog.
        apply in_map_iff. exists l. split; auto. apply filter_In. split; auto.
        unfold in_mbox. apply Z.eqb_eq. congruence.
      * left. now apply I5.
    + intros e He. apply in_or_app. apply in_app_or in He. destruct He as [He|He].
      * left. now apply I6.
      * right. destruct (Hrl e He) as (l & _ & _ & ->). simpl. now left.
    + intros m' Hm'. apply in_map_iff in Hm'. destruct Hm' as (m0 & <- & H0).
      apply in_or_app. unfold ren. destruct (mb_id m0 =? mb) eqn:E0; simpl.
      * right. apply Z.eqb_eq in E0. rewrite (Hidk m0 H0 E0). now left.
      * left. now apply I7.
    + intros e1 e2 H1 H2 En Ev Eu. apply in_app_or in H1. apply in_app_or in H2.
      destruct H1 as [H1|H1], H2 as [H2|H2].
      * now apply I8.
      * exfalso. destruct (Hrl e2 H2) as (l & _ & _ & ->). simpl in *. eapply Hnew; eauto.
      * exfalso. destruct (Hrl e1 H1) as (l & _ & _ & ->). simpl in *. eapply Hnew; eauto.
      * destruct (Hrl e1 H1) as (l1 & L1 & M1 & ->). destruct (Hrl e2 H2) as (l2 & L2 & M2 & ->).
        simpl in *. f_equal.
        apply (NoDup_map_inj (fun l => (lk_mbox l, lk_uid l)) (links s)); auto. congruence.
    + intros m' e Hm' He En Ev. apply in_map_iff in Hm'. destruct Hm' as (m0 & <- & H0).
      rewrite ren_next. rewrite ren_validity in Ev. unfold ren in En.
      apply in_app_or in He. destruct (mb_id m0 =? mb) eqn:E0; simpl in En.
      * apply Z.eqb_eq in E0. pose proof (Hidk m0 H0 E0) as ->. destruct He as [He|He].
        -- exfalso. eapply Hnew; eauto.
        -- destruct (Hrl e He) as (l & Hl & Ml & ->). simpl.
           apply (Inv_uid_below s m l (mkInv s I1 I2 I3 I4 I5 I6 I7 I8 I9 I10)); auto. congruence.
      * destruct He as [He|He]; [now apply (I9 m0 e)|].
        destruct (Hrl e He) as (l & _ & _ & ->). simpl in En. exfalso.
        exact (find_name_none s new m0 Fn H0 (eq_sym En)).
    + exact I10.
  - repeat split; simpl.
    + apply incl_appl, incl_refl.
    + apply incl_appl, incl_refl.
    + intros m' Hm'. apply in_map_iff in Hm'. destruct Hm' as (m0 & <- & H0).
      unfold ren. destruct (mb_id m0 =? mb) eqn:E0; simpl.
      * right. apply Z.eqb_eq in E0. rewrite (Hidk m0 H0 E0). exact N.
      * left. exists m0. repeat split; auto. lia.
    + intros e' He' Nn e He En Ev. apply in_app_or in He'. destruct He' as [He'|He']; [contradiction|].
      destruct (Hrl e' He') as (l & _ & _ & ->). simpl in *. exfalso. eapply Hnew; eauto.
Qed.

Lemma find_id_in s m : Inv s -> In m (mboxes s) -> find_id s (mb_id m) = Some m.
Proof.
  intros I Hm. unfold find_id. destruct (find (fun m0 => mb_id m0 =? mb_id m) (mboxes s)) as [m'|] eqn:F.
  - apply find_some in F. destruct F as [H' E]. apply Z.eqb_eq in E. f_equal.
    apply (NoDup_map_inj mb_id (mboxes s)); auto. apply (inv_ids s I).
  - exfalso. eapply find_none in F; eauto. simpl in F. rewrite Z.eqb_refl in F. discriminate.
Qed.

(** ---- fix wave: allocation from uid_next with write-back ---------------------- *)

Lemma next_row_id mb n m : mb_id (next_row mb n m) = mb_id m.
Proof. unfold next_row. destruct (mb_id m =? mb); reflexivity. Qed.
Lemma next_row_name mb n m : mb_name (next_row mb n m) = mb_name m.
Proof. unfold next_row. destruct (mb_id m =? mb); reflexivity. Qed.
Lemma next_row_validity mb n m : mb_validity (next_row mb n m) = mb_validity m.
Proof. unfold next_row. destruct (mb_id m =? mb); reflexivity. Qed.

Lemma find_id_set_next s mb n m :
  find_id s mb = Some m -> find_id (set_next s mb n) mb = Some (next_row mb n m).
Proof.
  unfold find_id, set_next. simpl. induction (mboxes s) as [|x l IH]; simpl; [discriminate|].
  rewrite next_row_id. destruct (mb_id x =? mb) eqn:E; [intros [= ->]; reflexivity | exact IH].
Qed.

Lemma set_next_self s mb m :
  NoDup (map mb_id (mboxes s)) -> find_id s mb = Some m -> set_next s mb (mb_next m) = s.
Proof.
  intros N Hf. pose proof (find_id_some _ _ _ Hf) as [Hm Ei].
  unfold set_next, set_mboxes. replace (map (next_row mb (mb_next m)) (mboxes s)) with (mboxes s).
  - destruct s; reflexivity.
  - rewrite <- (map_id (mboxes s)) at 1. apply map_ext_in. intros m' Hm'. unfold next_row.
    destruct (mb_id m' =? mb) eqn:E; [|reflexivity]. apply Z.eqb_eq in E.
    assert (m' = m) as -> by (apply (NoDup_map_inj mb_id (mboxes s)); auto; congruence).
    destruct m; reflexivity.
Qed.

Lemma Good_core_after s s2 s2' : Good s s2 -> CoreEq s2 s2' -> Good s s2'.
Proof.
  intros [I S] E. split; [eapply Inv_core_eq; eauto|].
  eapply Step_ok_trans; [exact S|]. destruct E as (E1 & E2 & E3 & _). apply Step_ok_same; auto.
Qed.

(** INSERT with uid = the running counter [n], then uid_next := n + 1, seen from
    the state in which uid_next already is [n] *)
Lemma insert_set_good s msg mb n fl d :
  Inv (set_next s mb n) -> find_id s mb = Some d -> msg < next_msg s ->
  exists s', insert_link s msg mb n fl = Some s' /\
             Good (set_next s mb n) (set_next s' mb (n + 1)) /\
             mboxes s' = mboxes s /\
             links s' = links s ++ [mkLink (fresh_id (map lk_id (links s))) msg mb n fl (gser s)].
Proof.
  intros I Hf Hmsg. set (T := set_next s mb n) in *.
  pose proof (find_id_set_next s mb n d Hf) as HfT. fold T in HfT.
  assert (En : mb_next (next_row mb n d) = n).
  { unfold next_row. apply find_id_some in Hf. destruct Hf as [_ ->]. now rewrite Z.eqb_refl. }
  destruct (add_message_good T msg mb fl _ I HfT Hmsg) as (s2 & Ea & G & Em & El & Enm & Eg & Eu).
  rewrite En in *. rewrite next_row_name, next_row_validity in Eg.
  unfold add_message in Ea. rewrite HfT, En in Ea. unfold insert_link in *.
  change (links (bump T mb)) with (links s) in Ea.
  destruct (existsb (at_uid mb n) (links s)); [discriminate|].
  eexists. split; [reflexivity|]. split; [|simpl; auto].
  eapply Good_core_after; [exact G|].
  repeat split; simpl.
  - rewrite Em. unfold T. simpl. rewrite map_map. apply map_ext. intros m. unfold bump_row, next_row.
    destruct (mb_id m =? mb) eqn:E; simpl; rewrite E; reflexivity.
  - rewrite Eg. unfold log_for. rewrite Hf. reflexivity.
  - rewrite Eu. reflexivity.
  - rewrite El. reflexivity.
  - rewrite El. reflexivity.
  - rewrite Enm. unfold T. simpl. lia.
Qed.

Lemma NoDup_map_inj_on {A B C} (k : A -> B) (k' : A -> C) l :
  NoDup (map k l) -> (forall x y, In x l -> In y l -> k' x = k' y -> k x = k y) ->
  NoDup (map k' l).
Proof.
  induction l as [|a l IH]; simpl; intros N H; [constructor|].
  inversion N as [|? ? Na N']; subst. constructor.
  - intros C0. apply in_map_iff in C0. destruct C0 as (y & E & Hy). apply Na.
    rewrite (H a y (or_introl eq_refl) (or_intror Hy) (eq_sym E)). now apply in_map.
  - apply IH; auto.
Qed.

(** RENAME INBOX (repaired): the links of row [ib] go to the just created, empty
    row [nid] whose (name, validity) is new and whose uid_next becomes [x] *)
Lemma reparent_good s s1 ib nid new t x :
  Inv s -> Inv s1 ->
  mboxes s1 = mboxes s ++ [mkMbox nid new t 1] -> links s1 = links s -> glog s1 = glog s ->
  gused s1 = gused s ++ [(new, t)] ->
  (forall l, In l (links s) -> lk_mbox l <> nid) -> ~ In (new, t) (gused s) ->
  (forall l, In l (links s) -> lk_mbox l = ib -> lk_uid l < x) -> ib <> nid ->
  exists s2, reparent (set_next s1 nid x) ib nid = Some s2 /\ Good s s2.
Proof.
  intros I I1 Em El Eg Eu Hnone N Hx Hne.
  unfold reparent. destruct (ib =? nid) eqn:E0; [apply Z.eqb_eq in E0; contradiction|]. clear E0.
  set (T := set_next s1 nid x).
  assert (HfT : find_id T nid = Some (mkMbox nid new t x)).
  { assert (F1 : find_id s1 nid = Some (mkMbox nid new t 1)).
    { replace nid with (mb_id (mkMbox nid new t 1)) at 1 by reflexivity. apply find_id_in; auto.
      rewrite Em. apply in_or_app. right. now left. }
    unfold T. rewrite (find_id_set_next _ _ x _ F1). unfold next_row. simpl. now rewrite Z.eqb_refl. }
  assert (Hex : existsb (fun l => existsb (at_uid nid (lk_uid l)) (links T)) (links_in T ib) = false).
  { apply not_true_is_false. intros X. apply existsb_exists in X. destruct X as (l & _ & X).
    apply existsb_exists in X. destruct X as (l' & Hl' & X). unfold at_uid in X.
    apply andb_true_iff in X. destruct X as [X _]. apply Z.eqb_eq in X.
    simpl in Hl'. rewrite El in Hl'. exact (Hnone l' Hl' X). }
  rewrite Hex, HfT. eexists. split; [reflexivity|]. simpl mb_name. simpl mb_validity.
  set (mv := fun l => if in_mbox ib l then mkLink (lk_id l) (lk_msg l) nid (lk_uid l) (lk_flags l) (lk_gid l) else l).
  assert (Hrl : forall e, In e (relog T ib new t) ->
            exists l, In l (links s) /\ lk_mbox l = ib /\ e = mkGe new t (lk_uid l) (lk_gid l)).
  { intros e He. unfold relog in He. apply in_map_iff in He. destruct He as (l & <- & Hl).
    apply filter_In in Hl. destruct Hl as [Hl Hp]. unfold in_mbox in Hp. apply Z.eqb_eq in Hp.
    simpl in Hl. rewrite El in Hl. eauto. }
  assert (Hrl' : forall l, In l (links s) -> lk_mbox l = ib -> In (mkGe new t (lk_uid l) (lk_gid l)) (relog T ib new t)).
  { intros l Hl E. unfold relog. apply in_map_iff. exists l. split; auto. apply filter_In. split.
    - simpl. now rewrite El.
    - unfold in_mbox. now apply Z.eqb_eq. }
  assert (Hnew : forall e, In e (glog s) -> ge_name e = new -> ge_validity e = t -> False).
  { intros e He En Ev. apply N. rewrite <- En, <- Ev. now apply (inv_used_e s I). }
  assert (Hmv : forall l, In l (links s) -> (lk_mbox l = ib /\ lk_mbox (mv l) = nid) \/ (lk_mbox l <> ib /\ mv l = l)).
  { intros l Hl. unfold mv, in_mbox. destruct (lk_mbox l =? ib) eqn:E; [left|right].
    - apply Z.eqb_eq in E. simpl. auto.
    - apply Z.eqb_neq in E. auto. }
  assert (Hmvu : forall l, lk_uid (mv l) = lk_uid l /\ lk_gid (mv l) = lk_gid l).
  { intros l. unfold mv. destruct (in_mbox ib l); auto. }
  assert (Hrow : forall m0, In m0 (mboxes s1) -> mb_id m0 = nid -> m0 = mkMbox nid new t 1).
  { intros m0 H0 E. apply (NoDup_map_inj mb_id (mboxes s1));
      [apply I1 | exact H0 | rewrite Em; apply in_or_app; right; now left | exact E]. }
  assert (Hrown : forall m0, In m0 (mboxes s1) -> mb_name m0 = new -> m0 = mkMbox nid new t 1).
  { intros m0 H0 E. apply (NoDup_map_inj mb_name (mboxes s1));
      [apply I1 | exact H0 | rewrite Em; apply in_or_app; right; now left | exact E]. }
  fold mv. split.
  - constructor; simpl.
    + rewrite map_map. erewrite map_ext; [apply (inv_names s1 I1)|]. intros; apply next_row_name.
    + rewrite map_map. erewrite map_ext; [apply (inv_ids s1 I1)|]. intros; apply next_row_id.
    + rewrite map_map. rewrite El.
      apply (NoDup_map_inj_on (fun l => (lk_mbox l, lk_uid l))); [apply (inv_uniq s I)|].
      intros a b Ha Hb E. destruct (Hmvu a) as [Ua _]. destruct (Hmvu b) as [Ub _].
      injection E as E1 E2. rewrite Ua, Ub in E2.
      destruct (Hmv a Ha) as [[A1 A2]|[A1 A2]], (Hmv b Hb) as [[B1 B2]|[B1 B2]].
      * congruence.
      * exfalso. rewrite B2 in E1. rewrite A2 in E1. exact (Hnone b Hb (eq_sym E1)).
      * exfalso. rewrite A2 in E1. rewrite B2 in E1. exact (Hnone a Ha E1).
      * rewrite A2, B2 in E1. congruence.
    + intros l' Hl'. apply in_map_iff in Hl'. destruct Hl' as (l & <- & Hl). rewrite El in Hl.
      destruct (Hmv l Hl) as [[A1 A2]|[A1 A2]].
      * exists (next_row nid x (mkMbox nid new t 1)). split.
        -- apply in_map. rewrite Em. apply in_or_app. right. now left.
        -- rewrite next_row_id. simpl. now rewrite A2.
      * rewrite A2. rewrite <- El in Hl. destruct (inv_home s1 I1 l Hl) as (m0 & H0 & E).
        exists (next_row nid x m0). split; [now apply in_map | now rewrite next_row_id].
    + intros m' l' Hm' Hl' E. apply in_map_iff in Hm'. destruct Hm' as (m0 & <- & H0).
      apply in_map_iff in Hl'. destruct Hl' as (l & <- & Hl). rewrite El in Hl.
      rewrite next_row_id in E. rewrite next_row_name, next_row_validity.
      destruct (Hmvu l) as [-> ->]. apply in_or_app.
      destruct (Hmv l Hl) as [[A1 A2]|[A1 A2]].
      * right. rewrite A2 in E. rewrite (Hrow m0 H0 (eq_sym E)). simpl. now apply Hrl'.
      * left. rewrite A2 in E. rewrite Eg. rewrite <- Eg. rewrite <- El in Hl.
        now apply (inv_logged s1 I1).
    + intros e He. apply in_app_or in He. destruct He as [He|He].
      * now apply (inv_used_e s1 I1).
      * destruct (Hrl e He) as (l & _ & _ & ->). simpl. rewrite Eu. apply in_or_app. right. now left.
    + intros m' Hm'. apply in_map_iff in Hm'. destruct Hm' as (m0 & <- & H0).
      rewrite next_row_name, next_row_validity. now apply (inv_used_m s1 I1).
    + intros e1 e2 H1 H2 En Ev Eu'. apply in_app_or in H1. apply in_app_or in H2.
      rewrite Eg in H1, H2.
      destruct H1 as [H1|H1], H2 as [H2|H2].
      * now apply (inv_fun s I).
      * exfalso. destruct (Hrl e2 H2) as (l & _ & _ & ->). simpl in *. eapply Hnew; eauto.
      * exfalso. destruct (Hrl e1 H1) as (l & _ & _ & ->). simpl in *. eapply Hnew; eauto.
      * destruct (Hrl e1 H1) as (l1 & L1 & M1 & ->). destruct (Hrl e2 H2) as (l2 & L2 & M2 & ->).
        simpl in *. f_equal.
        apply (NoDup_map_inj (fun l => (lk_mbox l, lk_uid l)) (links s)); auto; [apply I | congruence].
    + intros m' e Hm' He En Ev. apply in_map_iff in Hm'. destruct Hm' as (m0 & <- & H0).
      rewrite next_row_name in En. rewrite next_row_validity in Ev.
      apply in_app_or in He. rewrite Eg in He. unfold next_row.
      destruct (mb_id m0 =? nid) eqn:E0; simpl.
      * apply Z.eqb_eq in E0. rewrite (Hrow m0 H0 E0) in En, Ev. simpl in En, Ev. destruct He as [He|He].
        -- exfalso. eapply Hnew; eauto.
        -- destruct (Hrl e He) as (l & Hl & Ml & ->). simpl. now apply Hx.
      * apply Z.eqb_neq in E0. destruct He as [He|He].
        -- rewrite <- Eg in He. now apply (inv_next s1 I1 m0 e).
        -- destruct (Hrl e He) as (l & _ & _ & ->). simpl in En. exfalso. apply E0.
           rewrite (Hrown m0 H0 (eq_sym En)). reflexivity.
    + intros l' Hl'. apply in_map_iff in Hl'. destruct Hl' as (l & <- & Hl).
      pose proof (inv_msg s1 I1 l Hl) as K. unfold mv. destruct (in_mbox ib l); exact K.
  - repeat split; simpl.
    + rewrite Eg. apply incl_appl, incl_refl.
    + rewrite Eu. apply incl_appl, incl_refl.
    + intros m' Hm'. apply in_map_iff in Hm'. destruct Hm' as (m0 & <- & H0).
      rewrite next_row_name, next_row_validity. rewrite Em in H0. apply in_app_or in H0.
      destruct H0 as [H0|[<-|[]]].
      * left. exists m0. repeat split; auto. unfold next_row.
        destruct (mb_id m0 =? nid) eqn:E0; simpl; [|lia]. exfalso. apply Z.eqb_eq in E0.
        assert (In m0 (mboxes s1)) by (rewrite Em; apply in_or_app; now left).
        pose proof (Hrow m0 H E0) as ->. simpl in *.
        apply N. now apply (inv_used_m s I (mkMbox nid new t 1)).
      * right. exact N.
    + intros e' He' Nn e He En Ev. apply in_app_or in He'. rewrite Eg in He'.
      destruct He' as [He'|He']; [contradiction|].
      destruct (Hrl e' He') as (l & _ & _ & ->). simpl in *. exfalso. eapply Hnew; eauto.
Qed.
