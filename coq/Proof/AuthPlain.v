(** C04 — SASL PLAIN messages (RFC 4616) sent base64-encoded: raven extracts
    exactly the authcid and password, in IMAP AUTHENTICATE PLAIN and in the
    SASL service. *)
From Coq Require Import String Ascii List Bool Arith NArith Lia.
From Raven Require Import Base.GoStr Base.GoStrFacts Base.GoStrB64 Spec.Json Model.Auth Spec.AuthSpec
  Proof.AuthIdent Proof.AuthLogin Proof.AuthB64.
Import ListNotations.
Local Open Scope char_scope.

Lemma drop_while_app_all f (a b : str) : forallb f a = true -> drop_while f (a ++ b) = drop_while f b.
Proof. induction a as [|c a IH]; [reflexivity|]. simpl. intros H. apply andb_true_iff in H as [H1 H2]. now rewrite H1, IH. Qed.

Lemma trim_space_app E t : nsp E = true -> allsp t = true -> trim_space (E ++ t) = E.
Proof.
  intros N T. unfold trim_space, trim_f, trim_right_f, trim_left_f.
  assert (D1 : drop_while is_space (E ++ t) = E ++ t \/ E = []).
  { destruct E as [|c E]; [now right|left]. simpl in *. apply andb_true_iff in N as [N _].
    apply negb_true_iff in N. now rewrite N. }
  destruct D1 as [D1 | ->].
  - rewrite D1, rev_app_distr, drop_while_app_all by (unfold allsp in T; now rewrite forallb_rev).
    rewrite drop_while_none; [apply rev_involutive|]. unfold nsp in N. now rewrite forallb_rev.
  - simpl. destruct (drop_while_decomp is_space t) as (t' & E & Ht').
    assert (drop_while is_space t = []).
    { clear E Ht' t'. induction t as [|c t IH]; [reflexivity|]. simpl in *. apply andb_true_iff in T as [T1 T2]. rewrite T1. auto. }
    now rewrite H.
Qed.

Lemma encode_nsp s : nsp (b64_encode s) = true.
Proof.
  pose proof (encode_chars s) as H. revert H. unfold nsp. apply forallb_impl.
  intros c H. apply andb_true_iff in H. tauto.
Qed.

Lemma encode_len s : s <> [] -> 4 <= length (b64_encode s).
Proof. destruct s as [|a [|b [|c r]]]; [congruence| | |]; intros _; simpl; lia. Qed.

Lemma split3 z u p c : count_byte z c = 0 -> count_byte u c = 0 -> count_byte p c = 0 ->
  split_byte (z ++ c :: u ++ c :: p) c = [z; u; p].
Proof. intros Hz Hu Hp. now rewrite (split_first _ _ _ Hz), (split_first _ _ _ Hu), (split_none _ _ Hp). Qed.

(** AUTHENTICATE PLAIN: authzid NUL authcid NUL passwd, base64, CRLF *)
Theorem authplain_exact z u p :
  count_byte z NUL = 0 -> count_byte u NUL = 0 -> count_byte p NUL = 0 -> u <> [] -> p <> [] ->
  authplain_creds false true (b64_encode (z ++ NUL :: u ++ NUL :: p) ++ crlf) = Creds u p.
Proof.
  intros Hz Hu Hp Eu Ep. unfold authplain_creds. cbn [negb].
  rewrite trim_space_app by (apply encode_nsp || reflexivity).
  set (m := z ++ NUL :: u ++ NUL :: p).
  assert (Hm : m <> []) by (unfold m; destruct z; discriminate).
  destruct (str_eqb (b64_encode m) (S_ "*")) eqn:Es.
  - apply str_eqb_eq in Es. pose proof (encode_len m Hm) as L. rewrite Es in L. simpl in L. lia.
  - rewrite b64_roundtrip. unfold plain_fields, m. rewrite (split3 _ _ _ _ Hz Hu Hp).
    destruct u; [congruence|]. destruct p; [congruence|]. reflexivity.
Qed.

Lemma count_nsp_tab s : nsp s = true -> count_byte s TAB = 0.
Proof.
  intros N. apply contains_count. unfold contains_byte. apply not_true_is_false. intros H.
  apply existsb_exists in H as (c & I & E). apply Ascii.eqb_eq in E. subst c.
  unfold nsp in N. rewrite forallb_forall in N. specialize (N _ I). discriminate.
Qed.

Lemma drop_cr_keep l c : Ascii.eqb c CR = false -> drop_cr (l ++ [c]) = l ++ [c].
Proof.
  intros H. unfold drop_cr, has_suffix. rewrite rev_app_distr. cbn [rev app has_prefix].
  rewrite Ascii.eqb_sym, H. reflexivity.
Qed.

(** the SASL service reads the same message out of a Dovecot AUTH request *)
Theorem sasl_decoded_exact id z u p :
  count_byte id TAB = 0 ->
  count_byte z NUL = 0 -> count_byte u NUL = 0 -> count_byte p NUL = 0 ->
  sasl_decoded (S_AUTH ++ TAB :: id ++ TAB :: S_ "PLAIN" ++ TAB :: S_ "service=smtp" ++ TAB ::
                S_ "resp=" ++ b64_encode (z ++ NUL :: u ++ NUL :: p)) = Some (id, u, p).
Proof.
  intros Hid Hz Hu Hp. set (m := z ++ NUL :: u ++ NUL :: p).
  assert (Hm : m <> []) by (unfold m; destruct z; discriminate).
  pose proof (encode_len m Hm) as L. pose proof (encode_nsp m) as N. pose proof (encode_chars m) as Ch.
  set (E := b64_encode m) in *.
  set (line := S_AUTH ++ TAB :: id ++ TAB :: S_ "PLAIN" ++ TAB :: S_ "service=smtp" ++ TAB :: S_ "resp=" ++ E).
  assert (Hdrop : drop_cr line = line).
  { destruct (exists_last (l := E)) as (E' & c & EE); [intros ->; simpl in L; lia|].
    assert (Hc : Ascii.eqb c CR = false).
    { rewrite EE, forallb_app in Ch. apply andb_true_iff in Ch as [_ Ch]. simpl in Ch.
      rewrite andb_true_r in Ch. apply andb_true_iff in Ch as [Ch _]. apply negb_true_iff in Ch.
      unfold is_crlf in Ch. apply orb_false_iff in Ch. tauto. }
    unfold line. rewrite EE.
    replace (S_AUTH ++ TAB :: id ++ TAB :: S_ "PLAIN" ++ TAB :: S_ "service=smtp" ++ TAB :: S_ "resp=" ++ E' ++ [c])
      with ((S_AUTH ++ TAB :: id ++ TAB :: S_ "PLAIN" ++ TAB :: S_ "service=smtp" ++ TAB :: S_ "resp=" ++ E') ++ [c]).
    - now apply drop_cr_keep.
    - rewrite <- !app_assoc. simpl. rewrite <- !app_assoc. simpl. reflexivity. }
  unfold sasl_decoded. rewrite Hdrop. unfold line.
  assert (Hr : count_byte (S_ "resp=" ++ E) TAB = 0) by (rewrite count_app, (count_nsp_tab _ N); reflexivity).
  rewrite (split_first S_AUTH _ TAB eq_refl), (split_first id _ TAB Hid),
          (split_first (S_ "PLAIN") _ TAB eq_refl), (split_first (S_ "service=smtp") _ TAB eq_refl),
          (split_none _ _ Hr).
  rewrite str_eqb_refl. cbn [andb]. change (str_eqb (to_upper (S_ "PLAIN")) (S_ "PLAIN")) with true. cbv iota.
  assert (Hpar : sasl_params [S_ "service=smtp"; S_ "resp=" ++ E] [] false = (E, true)).
  { cbn [sasl_params]. change (has_prefix (S_ "service=smtp") (S_ "service=")) with true. cbv iota.
    change (has_prefix (S_ "resp=" ++ E) (S_ "service=")) with false. cbv iota.
    rewrite has_prefix_app. unfold trim_prefix. rewrite has_prefix_app. reflexivity. }
  destruct (sasl_params _ _ _) as [resp given]. injection Hpar as -> ->.
  unfold sasl_plain_creds. cbn [negb].
  destruct E as [|e0 E0] eqn:EE; [simpl in L; lia|]. rewrite <- EE. unfold E. rewrite b64_roundtrip.
  unfold plain_fields, m. rewrite (split3 _ _ _ _ Hz Hu Hp). reflexivity.
Qed.
