(** C16 — nothing that was answered stays unsent: with sendRawResponse's
    "write, then flush" every reply owed for the lines processed so far has
    reached the client when the server waits for more input. *)
From Coq Require Import String Ascii List Bool ZArith NArith.
From Raven Require Import Base.GoStr Model.Lmtp.
Import ListNotations.

Section Write.
  Variable accepts : str -> bool.
  Variable delivers : str -> str -> bool.
  Variable over : str -> str -> bool.
  Variable c : cfg.

  Lemma send_always rest w evs :
    w_buf w = [] ->
    w_buf (send always_flush rest w evs) = [] /\
    w_sent (send always_flush rest w evs) = w_sent w ++ evs.
  Proof.
    intros B. unfold send, always_flush. destruct evs as [|e evs].
    - now rewrite app_nil_r.
    - cbn. now rewrite B.
  Qed.

  Lemma run_io_always ls : forall s m w,
    w_buf w = [] ->
    w_buf (run_io accepts delivers over always_flush c s m w ls) = [] /\
    w_sent (run_io accepts delivers over always_flush c s m w ls) =
      w_sent w ++ run_open accepts delivers over c s m ls.
  Proof.
    induction ls as [|l ls IH]; intros s m w B; cbn [run_io run_open].
    - now rewrite app_nil_r.
    - destruct (step accepts delivers over c s m l) as [[[s1 m1] e1] q].
      destruct (send_always ls w e1 B) as [B1 S1].
      destruct q; [now rewrite S1|].
      destruct (IH s1 m1 _ B1) as [B2 S2]. split; [exact B2|].
      now rewrite S2, S1, app_assoc.
  Qed.

  (** what is written while the connection is open is the beginning of what the
      whole-stream run writes (the rest: the 554 for a message cut off by EOF) *)
  Lemma run_open_prefix ls : forall s m,
    exists t, fst (run accepts delivers over c s m ls) = run_open accepts delivers over c s m ls ++ t.
  Proof.
    induction ls as [|l ls IH]; intros s m; cbn [run run_open].
    - eexists. reflexivity.
    - destruct (step accepts delivers over c s m l) as [[[s1 m1] e1] q]. destruct q.
      + exists []. cbn. now rewrite app_nil_r.
      + destruct (IH s1 m1) as [t E]. destruct (run accepts delivers over c s1 m1 ls) as [e r].
        cbn [fst] in *. exists t. now rewrite E, app_assoc.
  Qed.

  Theorem no_unsent_replies ls :
    w_buf (run_io accepts delivers over always_flush c st0 MCmd wr0 ls) = [] /\
    w_sent (run_io accepts delivers over always_flush c st0 MCmd wr0 ls) =
      run_open accepts delivers over c st0 MCmd ls.
  Proof. apply (run_io_always ls st0 MCmd wr0). reflexivity. Qed.
End Write.
