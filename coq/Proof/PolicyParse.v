(** C17 — lemmas about Session.parseRcptTo and the address splitting. *)
From Coq Require Import String Ascii List Bool Arith ZArith Lia.
From Raven Require Import Base.GoStr Base.GoStrFacts Model.Policy Spec.Policy.
Import ListNotations.

Lemma drop_while_all f sp s : forallb f sp = true -> drop_while f (sp ++ s) = drop_while f s.
Proof.
  induction sp as [|c sp IH]; simpl; [reflexivity|].
  intros H. apply andb_true_iff in H as [Hc Hs]. rewrite Hc. auto.
Qed.

Lemma drop_while_stop f c s : f c = false -> drop_while f (c :: s) = c :: s.
Proof. intros H. simpl. now rewrite H. Qed.

(** a string that begins and ends with a non-blank byte is a fixed point of TrimSpace *)
Lemma trim_space_fixed c x d :
  is_space c = false -> is_space d = false -> trim_space (c :: x ++ [d]) = c :: x ++ [d].
Proof.
  intros Hc Hd. unfold trim_space, trim_f, trim_left_f, trim_right_f.
  rewrite drop_while_stop by exact Hc.
  assert (R : rev (c :: x ++ [d]) = d :: rev (c :: x)).
  { change (c :: x ++ [d]) with ((c :: x) ++ [d]). rewrite rev_app_distr. reflexivity. }
  rewrite R. rewrite drop_while_stop by exact Hd.
  change (d :: rev (c :: x)) with ([d] ++ rev (c :: x)).
  rewrite rev_app_distr, rev_involutive. reflexivity.
Qed.

Lemma trim_space_lead sp c x d :
  forallb is_space sp = true -> is_space c = false -> is_space d = false ->
  trim_space (sp ++ c :: x ++ [d]) = c :: x ++ [d].
Proof.
  intros Hs Hc Hd.
  pose proof (trim_space_fixed c x d Hc Hd) as F.
  unfold trim_space, trim_f, trim_left_f in *.
  rewrite drop_while_all by exact Hs. exact F.
Qed.

Lemma trim_suffix_last x d : trim_suffix (x ++ [d]) [d] = x.
Proof.
  unfold trim_suffix, has_suffix. rewrite rev_app_distr. simpl.
  rewrite Ascii.eqb_refl. simpl.
  rewrite app_length. simpl. replace (length x + 1 - 1) with (length x) by lia.
  rewrite firstn_app, firstn_all, Nat.sub_diag. simpl. apply app_nil_r.
Qed.

Lemma drop_while_mid f q d t : f d = false -> drop_while f (q ++ d :: t) = drop_while f q ++ d :: t.
Proof.
  intros H. induction q as [|c q IH]; cbn [app drop_while].
  - now rewrite H.
  - destruct (f c); [exact IH | reflexivity].
Qed.

Lemma trim_right_mid f l d p : f d = false ->
  trim_right_f f (l ++ d :: p) = l ++ d :: trim_right_f f p.
Proof.
  intros H. unfold trim_right_f.
  assert (R : rev (l ++ d :: p) = rev p ++ d :: rev l).
  { rewrite rev_app_distr. cbn [rev]. now rewrite <- app_assoc. }
  rewrite R, (drop_while_mid f (rev p) d (rev l) H).
  rewrite rev_app_distr. cbn [rev]. rewrite rev_involutive, <- app_assoc. reflexivity.
Qed.

(** TrimSpace of  c l d p  with c, d non-blank: only the tail p is trimmed *)
Lemma trim_space_shape c l d p : is_space c = false -> is_space d = false ->
  trim_space (c :: l ++ d :: p) = c :: l ++ d :: trim_right_f is_space p.
Proof.
  intros Hc Hd. unfold trim_space, trim_f, trim_left_f.
  rewrite drop_while_stop by exact Hc.
  exact (trim_right_mid is_space (c :: l) d p Hd).
Qed.

Lemma trim_space_lead_shape sp c l d p :
  forallb is_space sp = true -> is_space c = false -> is_space d = false ->
  trim_space (sp ++ c :: l ++ d :: p) = c :: l ++ d :: trim_right_f is_space p.
Proof.
  intros Hs Hc Hd. pose proof (trim_space_shape c l d p Hc Hd) as F.
  unfold trim_space, trim_f, trim_left_f in *.
  rewrite drop_while_all by exact Hs. exact F.
Qed.

Lemma index_single x c t : ~ In c x -> index (x ++ c :: t) [c] = Some (length x).
Proof.
  induction x as [|e x IH]; intros H.
  - cbn [app index has_prefix]. now rewrite Ascii.eqb_refl.
  - cbn [app]. unfold index; fold index. cbn [has_prefix].
    assert (N : Ascii.eqb c e = false).
    { apply Ascii.eqb_neq. intros ->. apply H. now left. }
    rewrite N. cbn [andb]. rewrite IH by (intros K; apply H; now right). reflexivity.
Qed.

Lemma firstn_mid {A} (x : list A) c t : firstn (S (length x)) (x ++ c :: t) = x ++ [c].
Proof. induction x as [|e x IH]; cbn [length app]; [reflexivity | rewrite firstn_cons; now rewrite IH]. Qed.

Lemma not_contains_not_In s c : contains_byte s c = false -> ~ In c s.
Proof.
  unfold contains_byte. intros H K.
  assert (X : existsb (Ascii.eqb c) s = true).
  { apply existsb_exists. exists c. split; [exact K | apply Ascii.eqb_refl]. }
  congruence.
Qed.

Lemma upper_T_not_space a : upper_c a = "T"%char -> is_space a = false.
Proof.
  intros H.
  assert (K : negb (Ascii.eqb (upper_c a) "T"%char) || negb (is_space a) = true).
  { revert a H. intros a _. revert a.
    ascii_sweep (fun a => negb (Ascii.eqb (upper_c a) "T"%char) || negb (is_space a)). }
  rewrite H in K. cbn in K. now apply negb_true_iff in K.
Qed.

(** Every legal RCPT argument  TO:<path>[ SP parameters]  (keyword in any
    case, optional blanks before the bracket) yields exactly the path. *)
Lemma parse_rcpt_to_shape args addr : rcpt_shape args addr -> parse_rcpt_to args = Some addr.
Proof.
  intros H. destruct H as [pre sp addr params Hpre Hsp Haddr Hparams].
  unfold equal_fold in Hpre. apply str_eqb_eq in Hpre.
  destruct pre as [|a [|b [|c [|x pre]]]]; try discriminate.
  cbn in Hpre. injection Hpre as Ha Hb Hc.
  pose proof (upper_T_not_space a Ha) as Sa.
  unfold parse_rcpt_to.
  set (body := sp ++ "<"%char :: addr ++ ">"%char :: params).
  assert (T1 : trim_space ([a; b; c] ++ body)
               = a :: (b :: c :: sp ++ "<"%char :: addr) ++ ">"%char :: trim_right_f is_space params).
  { replace ([a; b; c] ++ body) with (a :: (b :: c :: sp ++ "<"%char :: addr) ++ ">"%char :: params).
    - apply trim_space_shape; [exact Sa | reflexivity].
    - unfold body. cbn [app]. now rewrite <- app_assoc. }
  rewrite T1. set (t := trim_right_f is_space params).
  cbn [length app Nat.ltb Nat.leb firstn skipn orb].
  assert (EF : equal_fold [a; b; c] (S_ "TO:") = true).
  { unfold equal_fold. cbn. now rewrite Ha, Hb, Hc. }
  rewrite EF. cbn [negb].
  assert (T2 : trim_space ((sp ++ "<"%char :: addr) ++ ">"%char :: t)
               = "<"%char :: addr ++ ">"%char :: trim_right_f is_space t).
  { rewrite <- app_assoc. cbn [app]. apply trim_space_lead_shape; [exact Hsp | reflexivity | reflexivity]. }
  rewrite T2. set (t' := trim_right_f is_space t).
  cbn [has_prefix S_ list_ascii_of_string]. rewrite Ascii.eqb_refl. cbn [andb].
  assert (IX : index ("<"%char :: addr ++ ">"%char :: t') [">"%char] = Some (S (length addr))).
  { change ("<"%char :: addr ++ ">"%char :: t') with (("<"%char :: addr) ++ ">"%char :: t').
    apply (index_single ("<"%char :: addr) ">"%char t').
    intros [K|K]; [discriminate | exact (not_contains_not_In addr _ Haddr K)]. }
  rewrite IX.
  change ("<"%char :: addr ++ ">"%char :: t') with (("<"%char :: addr) ++ ">"%char :: t').
  change (S (S (length addr))) with (S (length ("<"%char :: addr))).
  rewrite firstn_mid.
  unfold trim_prefix. cbn [app has_prefix S_ list_ascii_of_string length skipn].
  rewrite Ascii.eqb_refl. cbn [andb]. f_equal. apply trim_suffix_last.
Qed.

(** regression: the parser before the fixes C17-1 / C17-2 (TrimPrefix "TO:" and
    "to:" only, ">" removed only from the end) *)
Definition old_parse_rcpt_to (args : str) : option str :=
  let args := trim_space args in
  if negb (has_prefix (to_upper args) (S_ "TO:")) then None
  else
    let args := trim_prefix args (S_ "TO:") in
    let args := trim_prefix args (S_ "to:") in
    let args := trim_space args in
    let args := trim_prefix args (S_ "<") in
    let args := trim_suffix args (S_ ">") in
    Some args.
