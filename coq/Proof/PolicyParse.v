(** C17 — lemmas about Session.parseRcptTo and the address splitting. *)
From Coq Require Import String Ascii List Bool Arith ZArith Lia.
From Raven Require Import Base.GoStr Base.GoStrFacts Model.Policy Spec.Policy.
Import ListNotations.

Lemma drop_while_all f sp s : forallb f sp = true -> drop_while f (sp ++ s) = drop_while f s.
Proof.
  induction sp as [|c sp IH]; simpl; [reflexivity|].
  intros H. apply andb_true_iff in H as [Hc Hs]. rewrite Hc. auto.
Qed.

Lemma drop_while_stop f c s : f c = false -> drop_while f (c :: s) = c :: s.
Proof. intros H. simpl. now rewrite H. Qed.

(** a string that begins and ends with a non-blank byte is a fixed point of TrimSpace *)
Lemma trim_space_fixed c x d :
  is_space c = false -> is_space d = false -> trim_space (c :: x ++ [d]) = c :: x ++ [d].
Proof.
  intros Hc Hd. unfold trim_space, trim_f, trim_left_f, trim_right_f.
  rewrite drop_while_stop by exact Hc.
  assert (R : rev (c :: x ++ [d]) = d :: rev (c :: x)).
  { change (c :: x ++ [d]) with ((c :: x) ++ [d]). rewrite rev_app_distr. reflexivity. }
  rewrite R. rewrite drop_while_stop by exact Hd.
  change (d :: rev (c :: x)) with ([d] ++ rev (c :: x)).
  rewrite rev_app_distr, rev_involutive. reflexivity.
Qed.

Lemma trim_space_lead sp c x d :
  forallb is_space sp = true -> is_space c = false -> is_space d = false ->
  trim_space (sp ++ c :: x ++ [d]) = c :: x ++ [d].
Proof.
  intros Hs Hc Hd.
  pose proof (trim_space_fixed c x d Hc Hd) as F.
  unfold trim_space, trim_f, trim_left_f in *.
  rewrite drop_while_all by exact Hs. exact F.
Qed.

Lemma trim_suffix_last x d : trim_suffix (x ++ [d]) [d] = x.
Proof.
  unfold trim_suffix, has_suffix. rewrite rev_app_distr. simpl.
  rewrite Ascii.eqb_refl. simpl.
  rewrite app_length. simpl. replace (length x + 1 - 1) with (length x) by lia.
  rewrite firstn_app, firstn_all, Nat.sub_diag. simpl. apply app_nil_r.
Qed.

Lemma space_not_t c : is_space c = true -> Ascii.eqb "t"%char c = false.
Proof.
  intros H.
  assert (K : negb (is_space c) || negb (Ascii.eqb "t"%char c) = true).
  { revert c H. intros c _. revert c.
    ascii_sweep (fun c => negb (is_space c) || negb (Ascii.eqb "t"%char c)). }
  rewrite H in K. simpl in K. now apply negb_true_iff in K.
Qed.

Lemma no_to_prefix sp x : forallb is_space sp = true ->
  has_prefix (sp ++ "<"%char :: x) (S_ "to:") = false.
Proof.
  destruct sp as [|c sp]; [reflexivity|].
  intros H. cbn [forallb] in H. apply andb_true_iff in H as [Hc _].
  cbn [has_prefix app S_ list_ascii_of_string]. now rewrite (space_not_t c Hc).
Qed.

(** RCPT TO:<addr> (prefix TO: or to:, optional blanks, no parameters) yields addr,
    for every byte string addr *)
Lemma parse_rcpt_to_bracketed pre sp addr :
  pre = S_ "TO:" \/ pre = S_ "to:" -> forallb is_space sp = true ->
  parse_rcpt_to (pre ++ sp ++ "<"%char :: addr ++ [">"%char]) = Some addr.
Proof.
  intros Hpre Hsp. unfold parse_rcpt_to.
  set (body := sp ++ "<"%char :: addr ++ [">"%char]).
  assert (Hbody : body = (sp ++ "<"%char :: addr) ++ [">"%char]).
  { unfold body. rewrite <- app_assoc. reflexivity. }
  assert (T2 : trim_space body = "<"%char :: addr ++ [">"%char]).
  { unfold body. apply trim_space_lead; [exact Hsp | reflexivity | reflexivity]. }
  assert (T1 : forall a b, is_space a = false ->
               trim_space (a :: b :: ":"%char :: body) = a :: b :: ":"%char :: body).
  { intros a b Ha. rewrite Hbody.
    apply (trim_space_fixed a (b :: ":"%char :: sp ++ "<"%char :: addr) ">"%char); [exact Ha | reflexivity]. }
  assert (Fin : trim_suffix (trim_prefix (trim_space body) (S_ "<")) (S_ ">") = addr).
  { rewrite T2. unfold trim_prefix.
    cbn [has_prefix S_ list_ascii_of_string length skipn].
    rewrite Ascii.eqb_refl. cbn [andb]. apply trim_suffix_last. }
  destruct Hpre as [-> | ->].
  - change (S_ "TO:" ++ body) with ("T"%char :: "O"%char :: ":"%char :: body).
    rewrite T1 by reflexivity.
    change (has_prefix (to_upper ("T"%char :: "O"%char :: ":"%char :: body)) (S_ "TO:")) with true.
    cbn [negb].
    change (trim_prefix ("T"%char :: "O"%char :: ":"%char :: body) (S_ "TO:")) with body.
    unfold trim_prefix at 2. unfold body at 1. rewrite no_to_prefix by exact Hsp.
    fold body. now rewrite Fin.
  - change (S_ "to:" ++ body) with ("t"%char :: "o"%char :: ":"%char :: body).
    rewrite T1 by reflexivity.
    change (has_prefix (to_upper ("t"%char :: "o"%char :: ":"%char :: body)) (S_ "TO:")) with true.
    cbn [negb].
    change (trim_prefix ("t"%char :: "o"%char :: ":"%char :: body) (S_ "TO:"))
      with ("t"%char :: "o"%char :: ":"%char :: body).
    change (trim_prefix ("t"%char :: "o"%char :: ":"%char :: body) (S_ "to:")) with body.
    now rewrite Fin.
Qed.

Lemma trim_suffix_other x c : Ascii.eqb ">"%char c = false -> trim_suffix (x ++ [c]) (S_ ">") = x ++ [c].
Proof.
  intros H. unfold trim_suffix, has_suffix. rewrite rev_app_distr.
  cbn [rev app S_ list_ascii_of_string has_prefix]. now rewrite H.
Qed.

(** ESMTP parameters after the path stay in the "address": for every addr and
    every parameter text ending in a non-blank byte other than ">" *)
Lemma parse_rcpt_to_params addr p c :
  is_space c = false -> Ascii.eqb ">"%char c = false ->
  parse_rcpt_to (S_ "TO:<" ++ addr ++ S_ "> " ++ p ++ [c]) = Some (addr ++ S_ "> " ++ p ++ [c]).
Proof.
  intros Hc Hgt. unfold parse_rcpt_to.
  set (tail := addr ++ S_ "> " ++ p ++ [c]).
  assert (Htail : tail = (addr ++ S_ "> " ++ p) ++ [c]).
  { unfold tail. now rewrite !app_assoc. }
  change (S_ "TO:<" ++ tail) with ("T"%char :: "O"%char :: ":"%char :: "<"%char :: tail).
  assert (T1 : trim_space ("T"%char :: "O"%char :: ":"%char :: "<"%char :: tail)
               = "T"%char :: "O"%char :: ":"%char :: "<"%char :: tail).
  { rewrite Htail.
    apply (trim_space_fixed "T"%char ("O"%char :: ":"%char :: "<"%char :: addr ++ S_ "> " ++ p) c); [reflexivity | exact Hc]. }
  assert (T2 : trim_space ("<"%char :: tail) = "<"%char :: tail).
  { rewrite Htail. apply (trim_space_fixed "<"%char (addr ++ S_ "> " ++ p) c); [reflexivity | exact Hc]. }
  rewrite T1.
  change (has_prefix (to_upper ("T"%char :: "O"%char :: ":"%char :: "<"%char :: tail)) (S_ "TO:")) with true.
  cbn [negb].
  change (trim_prefix ("T"%char :: "O"%char :: ":"%char :: "<"%char :: tail) (S_ "TO:")) with ("<"%char :: tail).
  change (trim_prefix ("<"%char :: tail) (S_ "to:")) with ("<"%char :: tail).
  rewrite T2.
  change (trim_prefix ("<"%char :: tail) (S_ "<")) with tail.
  rewrite Htail. now rewrite trim_suffix_other.
Qed.

(** a mixed-case "To:" passes the prefix test but is never removed *)
Lemma parse_rcpt_to_mixed_case addr :
  parse_rcpt_to (S_ "To:<" ++ addr ++ S_ ">") = Some (S_ "To:<" ++ addr).
Proof.
  unfold parse_rcpt_to.
  change (S_ "To:<" ++ addr ++ S_ ">") with ("T"%char :: ("o"%char :: ":"%char :: "<"%char :: addr) ++ [">"%char]).
  rewrite trim_space_fixed by reflexivity.
  change (has_prefix (to_upper ("T"%char :: ("o"%char :: ":"%char :: "<"%char :: addr) ++ [">"%char])) (S_ "TO:")) with true.
  cbn [negb].
  change (trim_prefix ("T"%char :: ("o"%char :: ":"%char :: "<"%char :: addr) ++ [">"%char]) (S_ "TO:"))
    with ("T"%char :: ("o"%char :: ":"%char :: "<"%char :: addr) ++ [">"%char]).
  change (trim_prefix ("T"%char :: ("o"%char :: ":"%char :: "<"%char :: addr) ++ [">"%char]) (S_ "to:"))
    with ("T"%char :: ("o"%char :: ":"%char :: "<"%char :: addr) ++ [">"%char]).
  rewrite trim_space_fixed by reflexivity.
  change (trim_prefix ("T"%char :: ("o"%char :: ":"%char :: "<"%char :: addr) ++ [">"%char]) (S_ "<"))
    with ("T"%char :: ("o"%char :: ":"%char :: "<"%char :: addr) ++ [">"%char]).
  change ("T"%char :: ("o"%char :: ":"%char :: "<"%char :: addr) ++ [">"%char])
    with ((S_ "To:<" ++ addr) ++ [">"%char]).
  now rewrite trim_suffix_last.
Qed.

(** the two shapes are legal RCPT arguments whose path is [addr] *)
Lemma refuted_rcpt_params :
  exists args addr, rcpt_shape args addr /\ parse_rcpt_to args <> Some addr.
Proof.
  exists (S_ "TO:<a@b> NOTIFY=NEVER"), (S_ "a@b"). split.
  - apply (RS (S_ "TO:") [] (S_ "a@b") (S_ " NOTIFY=NEVER")); try reflexivity.
    right. now exists (S_ "NOTIFY=NEVER").
  - vm_compute. discriminate.
Qed.

Lemma refuted_rcpt_prefix_case :
  exists args addr, rcpt_shape args addr /\ parse_rcpt_to args <> Some addr.
Proof.
  exists (S_ "To:<a@b>"), (S_ "a@b"). split.
  - apply (RS (S_ "To:") [] (S_ "a@b") []); try reflexivity. now left.
  - vm_compute. discriminate.
Qed.
