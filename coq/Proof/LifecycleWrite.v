(** C20 — proofs about clients that stop reading (Model/LifecycleWrite.v) *)
From Coq Require Import List Bool ZArith NArith Arith Lia.
From Raven Require Import Base.GoStr Model.Lifecycle Model.LifecycleSrv Model.LifecycleWrite Spec.Lifecycle Proof.Lifecycle.
Import ListNotations.

Definition is_data (e : event) : bool := match e with Data _ _ => true | _ => false end.

(* ---------------- IMAP ---------------- *)

Lemma irun_w_done c s es : i_mode s = IDone -> irun_w c s es = (s, 0%N).
Proof. intro H. destruct es as [|[e w] es]; [reflexivity|]. cbn [irun_w]. rewrite H. reflexivity. Qed.

(** once the server has closed the connection, two more (failing) reads end the handler, at no cost *)
Lemma irun_w_closed s es : 2 <= length es -> i_done (fst (irun_w true s es)) = true /\ snd (irun_w true s es) = 0%N.
Proof.
  intro H. destruct es as [|[e1 w1] [|[e2 w2] es]]; simpl in H; try lia.
  destruct s as [m a se t]; destruct m; cbn; try (rewrite irun_w_done by reflexivity); cbn; split; reflexivity.
Qed.

Lemma imap_stalled_terminates s e es :
  i_done s = false -> writes (real_replies (snd (istep s e))) = true -> 2 <= length es ->
  i_done (fst (irun_w false s ((e, WBlocked) :: es))) = true /\
  snd (irun_w false s ((e, WBlocked) :: es)) = (read_cost (ideadline (i_mode s)) e + 300000)%N.
Proof.
  intros Hd Hw Hl. cbn [irun_w]. unfold i_done in Hd. rewrite Hd.
  destruct (istep s e) as [s1 r]. cbn [snd] in Hw. rewrite Hw. cbn [is_blocked negb andb orb].
  rewrite orb_true_r.
  destruct (irun_w_closed s1 es Hl) as [H1 H2].
  destruct (irun_w true s1 es) as [s2 c2]. cbn [fst snd] in *. subst c2. split; [exact H1 | lia].
Qed.

(* ---------------- LMTP ---------------- *)

Lemma lrun_w_cons cf werr s e w es :
  l_done s = false ->
  lrun_w cf werr s ((e, w) :: es) =
  let s1 := fst (lstep cf s e) in
  let blocked := (negb werr && writes (snd (lstep cf s e)) && is_blocked w)%bool in
  (fst (lrun_w cf (werr || blocked) s1 es),
   (read_cost (ldeadline cf (l_mode s)) e + (if blocked then lc_timeout_ms cf else 0) + snd (lrun_w cf (werr || blocked) s1 es))%N).
Proof.
  intro H. cbn [lrun_w]. unfold l_done in H. destruct (l_mode s) eqn:Em; try discriminate;
    destruct (lstep cf s e) as [s1 r]; cbn [fst snd];
    destruct (lrun_w cf (werr || (negb werr && writes r && is_blocked w)) s1 es); reflexivity.
Qed.

Lemma lrun_w_done cf werr s es : l_done s = true -> lrun_w cf werr s es = (s, 0%N).
Proof.
  intro H. destruct es as [|[e w] es]; [reflexivity|]. cbn [lrun_w]. unfold l_done in H.
  destruct (l_mode s); try discriminate. reflexivity.
Qed.

Definition stall_bound (cf : lconf) (werr : bool) : N := ((if werr then 2 else 3) * lc_timeout_ms cf)%N.

Lemma lmtp_stalled_tail cf werr s :
  let r := lrun_w cf werr s (with_w WBlocked [Timeout; Timeout]) in
  l_done (fst r) = true /\ (snd r <= stall_bound cf werr)%N.
Proof.
  unfold stall_bound. destruct s as [m a b c]; destruct m; destruct werr; cbn -[N.mul N.add N.le]; split; try reflexivity; lia.
Qed.

Lemma lmtp_stalled_terminates cf ds : forall werr s,
  forallb is_data ds = true ->
  let r := lrun_w cf werr s (with_w WBlocked (ds ++ [Timeout; Timeout])) in
  l_done (fst r) = true /\ (snd r <= stall_bound cf werr)%N.
Proof.
  induction ds as [|d ds IH]; intros werr s Hd; [apply lmtp_stalled_tail|].
  cbn [forallb] in Hd. apply andb_prop in Hd as [Hd1 Hd2].
  unfold with_w. rewrite <- app_comm_cons. cbn [map]. fold (with_w WBlocked (ds ++ [Timeout; Timeout])).
  destruct (l_done s) eqn:Es.
  - rewrite lrun_w_done by exact Es. cbn [fst snd]. split; [exact Es | unfold stall_bound; lia].
  - rewrite lrun_w_cons by exact Es. cbn zeta. cbn [fst snd].
    destruct d as [l o| | |]; try discriminate Hd1. cbn [read_cost].
    destruct werr; cbn [negb andb orb].
    + destruct (IH true (fst (lstep cf s (Data l o))) Hd2) as [H1 H2].
      split; [exact H1|]. unfold stall_bound in *. lia.
    + destruct (writes (snd (lstep cf s (Data l o))) && is_blocked WBlocked)%bool;
        [destruct (IH true (fst (lstep cf s (Data l o))) Hd2) as [H1 H2]
        |destruct (IH false (fst (lstep cf s (Data l o))) Hd2) as [H1 H2]];
        (split; [exact H1|]); unfold stall_bound in *; lia.
Qed.

(* ---------------- SASL ---------------- *)

Lemma srun_w_closed sh m es : 1 <= length es -> s_done (fst (srun_w sh true m es)) = true /\ snd (srun_w sh true m es) = 0%N.
Proof.
  intro H. destruct es as [|[e w] es]; simpl in H; try lia.
  destruct m; [|split; reflexivity]. cbn. destruct es as [|[e2 w2] es]; split; reflexivity.
Qed.

Lemma sasl_stalled_terminates sh e es :
  snd (sstep sh SCmd e) <> 0 -> 1 <= length es ->
  s_done (fst (srun_w sh false SCmd ((e, WBlocked) :: es))) = true /\
  snd (srun_w sh false SCmd ((e, WBlocked) :: es)) = (read_cost (sdeadline SCmd) e + 30000)%N.
Proof.
  intros Hw Hl. cbn [srun_w].
  destruct (sstep sh SCmd e) as [m1 n]. cbn [snd] in Hw.
  apply Nat.eqb_neq in Hw. rewrite Hw. cbn [negb is_blocked andb orb].
  destruct (srun_w_closed sh m1 es Hl) as [H1 H2].
  destruct (srun_w sh true m1 es) as [m2 c2]. cbn [fst snd] in *. subst c2. split; [exact H1 | lia].
Qed.

Lemma write_deadlines_exist k cf : write_deadline k cf <> None.
Proof. destruct k; discriminate. Qed.
