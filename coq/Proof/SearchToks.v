(** C19 — the tokens of fragment keys are tokens the tokenizer returns unchanged
    (parenthesised lists included); induction principle over nested keys. *)
From Coq Require Import String Ascii List Bool Arith NArith ZArith Lia.
From Raven Require Import Base.GoStr Base.GoStrFacts Model.Search Model.SearchText Spec.Search Model.SearchClass
  Proof.SearchTok Proof.SearchAtoms Proof.SearchDate Proof.SearchEval.
From Raven Require Model.SeqSet Spec.SeqSet Proof.FetchSearchExact.
Import ListNotations.
Local Open Scope Z_scope.
Local Arguments Ascii.eqb : simpl never.

Definition plain (c : ascii) : bool :=
  negb (is_space c) && negb (Ascii.eqb c dq) && negb (Ascii.eqb c lpar) && negb (Ascii.eqb c rpar).

Lemma plain_scan t : forallb plain t = true -> tok_scan t false 0 = true.
Proof.
  induction t as [|c t IH]; intros H; [reflexivity|]. cbn [forallb] in H. apply andb_true_iff in H as [H1 H2].
  unfold plain in H1. repeat (apply andb_true_iff in H1 as [H1 ?]).
  repeat match goal with X : negb _ = true |- _ => apply negb_true_iff in X end.
  cbn [tok_scan]. rewrite H3, H0, H, H1. now apply IH.
Qed.

Lemma plain_tok t : t <> [] -> forallb plain t = true -> tok_ok t = true.
Proof. intros N H. destruct t; [congruence|]. now apply plain_scan. Qed.

Lemma digits_plain d : forallb is_digit d = true -> forallb plain d = true.
Proof.
  apply forallb_impl. intros c H. destruct (digit_facts c H) as (_ & _ & _ & _ & _ & _ & A & B & C & D).
  unfold plain. now rewrite A, B, C, D.
Qed.

Lemma quote_scan v : string_ok v = true -> tok_scan (v ++ [dq]) true 0 = true.
Proof.
  induction v as [|c v IH]; intros H; [reflexivity|]. cbn [string_ok forallb] in H. apply andb_true_iff in H as [H1 H2].
  unfold qchar_ok in H1. repeat (apply andb_true_iff in H1 as [H1 ?]). apply negb_true_iff in H1.
  cbn [app tok_scan]. rewrite H1. now apply IH.
Qed.

Lemma quote_tok v : string_ok v = true -> tok_ok (quote v) = true.
Proof. intros H. unfold quote, tok_ok. cbn [tok_scan]. replace (Ascii.eqb dq dq) with true by reflexivity. cbn [negb]. now apply quote_scan. Qed.

Lemma seqchar_plain c : FetchSearchExact.seqchar c = true -> plain c = true.
Proof.
  intros H. assert (K : negb (FetchSearchExact.seqchar c) || plain c = true).
  { clear H. revert c. ascii_sweep (fun c => negb (FetchSearchExact.seqchar c) || plain c). }
  rewrite H in K. exact K.
Qed.

Lemma set_tok s : Spec.SeqSet.wf s = true -> tok_ok (Spec.SeqSet.print s) = true.
Proof.
  intros W. destruct (print_set_facts s W) as (_ & _ & HD & SC). apply plain_tok.
  - intros E. rewrite E in HD. discriminate.
  - revert SC. apply forallb_impl. apply seqchar_plain.
Qed.

Lemma field_name_string f : field_name_ok f = true -> string_ok f = true.
Proof.
  unfold field_name_ok, string_ok. destruct f as [|x f]; [discriminate|]. apply forallb_impl. intros c H.
  assert (K : negb ((32 <? byte_of c)%N && (byte_of c <? 127)%N && negb (Ascii.eqb c colon) && negb (Ascii.eqb c dq) && negb (Ascii.eqb c backslash)) || qchar_ok c = true).
  { clear H. revert c. ascii_sweep (fun c => negb ((32 <? byte_of c)%N && (byte_of c <? 127)%N && negb (Ascii.eqb c colon) && negb (Ascii.eqb c dq) && negb (Ascii.eqb c backslash)) || qchar_ok c). }
  rewrite H in K. exact K.
Qed.

Lemma simple_toks_ok k mb : atomic k -> wf_key k = true -> simple_class k mb = None -> forallb tok_ok (key_tokens k) = true.
Proof.
  intros Hat W C. destruct k; try contradiction; cbn [simple_class] in C; try discriminate; cbn [key_tokens wf_key] in *.
  - reflexivity.
  - destruct f; reflexivity.
  - destruct f; reflexivity.
  - reflexivity.
  - destruct (atom_facts w W) as (A1 & _ & _ & _ & A5). cbn [forallb]. rewrite (plain_tok w A1 A5). reflexivity.
  - destruct (atom_facts w W) as (A1 & _ & _ & _ & A5). cbn [forallb]. rewrite (plain_tok w A1 A5). reflexivity.
  - unfold set_ok in W. cbn [forallb]. now rewrite (set_tok s W).
  - unfold set_ok in W. cbn [forallb]. now rewrite (set_tok s W).
  - cbn [forallb]. rewrite (quote_tok v W). destruct h; reflexivity.
  - apply andb_true_iff in W as [W1 W2]. cbn [forallb]. now rewrite (quote_tok f (field_name_string f W1)), (quote_tok v W2).
  - cbn [forallb]. now rewrite (quote_tok v W).
  - cbn [forallb]. now rewrite (quote_tok v W).
  - destruct (numeral_digits n W) as [Hd Hne]. cbn [forallb]. now rewrite (plain_tok n Hne (digits_plain n Hd)).
  - destruct (numeral_digits n W) as [Hd Hne]. cbn [forallb]. now rewrite (plain_tok n Hne (digits_plain n Hd)).
  - cbn [forallb]. rewrite (plain_tok (print_date d)).
    + destruct sent, c; reflexivity.
    + destruct d as [[dd mon] yyyy]. unfold print_date. intros E. destruct dd; cbn [app] in E; discriminate E.
    + exact (date_plain d W).
Qed.

(** induction over keys, lists of keys inside parenthesised lists included *)
Lemma key_ind2 (P : key -> Prop) :
  (forall k, atomic k -> P k) -> (forall k, P k -> P (KNot k)) -> (forall a b, P a -> P b -> P (KOr a b)) ->
  (forall l, Forall P l -> P (KGroup l)) -> forall k, P k.
Proof.
  intros Ha Hn Ho Hg. fix IH 1. intros k. destruct k; try (apply Ha; exact I).
  - apply Hn, IH.
  - apply Ho; apply IH.
  - apply Hg. induction l as [|x l IHl]; constructor; [apply IH | exact IHl].
Qed.

Lemma first_class_none {A} (f : A -> option cls) l : first_class f l = None -> Forall (fun x => f x = None) l.
Proof.
  induction l as [|x l IH]; intros H; constructor; cbn [first_class] in H; destruct (f x) eqn:E; try discriminate; auto.
Qed.

Lemma atomic_class k mb : atomic k -> key_class k mb = simple_class k mb.
Proof. destruct k; cbn; (reflexivity || contradiction). Qed.

Lemma flat_toks_ok (P : key -> Prop) l :
  Forall (fun k => forallb tok_ok (key_tokens k) = true) l -> forallb tok_ok (flat_map key_tokens l) = true.
Proof.
  induction 1 as [|k l H _ IH]; [reflexivity|]. cbn [flat_map]. rewrite forallb_app. now rewrite H, IH.
Qed.

Lemma key_toks_ok mb k : wf_key k = true -> key_class k mb = None -> forallb tok_ok (key_tokens k) = true.
Proof.
  induction k as [k A | k IH | a b IHa IHb | l IH] using key_ind2; intros W C.
  - rewrite (atomic_class k mb A) in C. now apply simple_toks_ok with (mb := mb).
  - cbn [key_class wf_key key_tokens forallb] in *. now rewrite IH.
  - cbn [key_class wf_key key_tokens forallb] in *. apply andb_true_iff in W as [W1 W2].
    destruct (key_class a mb) eqn:C1; [discriminate|]. rewrite forallb_app. now rewrite IHa, IHb.
  - cbn [key_class wf_key key_tokens forallb] in *. apply andb_true_iff in W as [W _]. rewrite andb_true_r.
    apply group_tok. apply (flat_toks_ok (fun _ => True)).
    apply first_class_none in C. rewrite forallb_forall in W. rewrite Forall_forall in *.
    intros k Hk. apply IH; auto.
Qed.

Lemma prog_toks_ok ks mb : forallb wf_key ks = true -> classify ks mb = None -> forallb tok_ok (prog_tokens ks) = true.
Proof.
  induction ks as [|k ks IH]; intros W C; [reflexivity|].
  cbn [forallb] in W. apply andb_true_iff in W as [W1 W2].
  cbn [classify] in C. destruct (key_class k mb) eqn:C1; [discriminate|].
  unfold prog_tokens. cbn [flat_map]. rewrite forallb_app. rewrite (key_toks_ok mb k W1 C1). now apply IH.
Qed.

Lemma key_tokens_nonempty k : key_tokens k <> [].
Proof. destruct k; discriminate. Qed.

Lemma tok_ok_head c t : tok_ok (c :: t) = true -> is_space c = false.
Proof.
  unfold tok_ok. cbn [tok_scan]. destruct (Ascii.eqb_spec c dq) as [->|_]; [reflexivity|].
  destruct (Ascii.eqb_spec c lpar) as [->|_]; [reflexivity|].
  destruct (Ascii.eqb c rpar); [discriminate|]. destruct (is_space c); [discriminate | reflexivity].
Qed.

