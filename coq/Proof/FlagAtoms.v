(** C10 — every stored flag is an RFC 3501 flag: an invariant of all
    operations (fix 07: STORE / UID STORE / APPEND validate the named flags). *)
From Coq Require Import String Ascii List Bool Arith ZArith Lia.
From Raven Require Import Base.GoStr Base.GoStrFacts Model.Flags Spec.FlagSet Proof.Flags Model.FlagStore Spec.FlagHistory
     Proof.FlagStore Proof.FlagStoreSeq.
Import ListNotations.
Local Open Scope Z_scope.

Definition all_valid (fl : list str) : Prop := forall f, In f fl -> valid_flag f = true.
Definition atoms_ok (ls : list link) : Prop := forall l, In l ls -> all_valid (lk_flags l).

Lemma flags_valid_all fl : flags_valid fl = true <-> all_valid fl.
Proof. unfold flags_valid, all_valid. apply forallb_forall. Qed.

Lemma atoms_insert ls l ls' : atoms_ok ls -> all_valid (lk_flags l) -> insert ls l = Some ls' -> atoms_ok ls'.
Proof.
  unfold insert. destruct (existsb _ ls); [discriminate|]. intros H Hl [= <-] x Hx.
  apply in_app_iff in Hx. destruct Hx as [Hx|[<-|[]]]; auto.
Qed.

Lemma atoms_filter p ls : atoms_ok ls -> atoms_ok (filter p ls).
Proof. intros H x Hx. apply filter_In in Hx. now apply H. Qed.

Lemma atoms_upd_uid mb u ls fl : atoms_ok ls -> all_valid fl -> atoms_ok (upd_uid mb u ls fl).
Proof.
  intros H Hf x Hx. unfold upd_uid in Hx. apply in_map_iff in Hx. destruct Hx as [y [<- Hy]].
  destruct (has_key mb u y); [exact Hf | now apply H].
Qed.

Lemma calc_valid cur new item : all_valid cur -> all_valid new -> all_valid (calculate_new_flags cur new item).
Proof. intros Hc Hn f Hf. apply calc_incl in Hf. destruct Hf; auto. Qed.

Lemma cleaned_valid fl x : all_valid fl -> all_valid (remove_flag_from_set (to_set fl) x).
Proof.
  intros H f Hf. unfold remove_flag_from_set, set_del in Hf. apply filter_In in Hf. destruct Hf as [Hf _].
  rewrite to_set_In in Hf. now apply H.
Qed.

Lemma atoms_move s msg src u dest fl s' :
  atoms_ok (links s) -> all_valid fl -> move s msg src u dest fl = Some s' -> atoms_ok (links s').
Proof.
  unfold move. destruct dest as [dest|]; [|discriminate]. destruct (src =? dest); [discriminate|].
  destruct (insert (links s) _) as [l1|] eqn:E; [|discriminate]. intros H Hf [= <-]. simpl.
  apply atoms_filter. eapply atoms_insert; [exact H | | exact E]; simpl; exact Hf.
Qed.

Lemma atoms_store_row e s mb l0 item new :
  atoms_ok (links s) -> In l0 (links s) -> all_valid new -> atoms_ok (links (store_row e s mb l0 item new)).
Proof.
  intros H Hl Hn. pose proof (calc_valid _ _ item (H l0 Hl) Hn) as Hc.
  unfold store_row. cbv zeta.
  destruct (junk_added _ _).
  - destruct (move _ _ _ _ _ _) eqn:E; [|now apply atoms_upd_uid].
    eapply atoms_move; [exact H | | exact E]. now apply cleaned_valid.
  - destruct (nonjunk_added _ _); [|now apply atoms_upd_uid].
    destruct (move _ _ _ _ _ _) eqn:E; [|now apply atoms_upd_uid].
    eapply atoms_move; [exact H | | exact E]. now apply cleaned_valid.
Qed.

Lemma atoms_store_uid_one e mb item new s u :
  all_valid new -> atoms_ok (links s) -> atoms_ok (links (store_uid_one e mb item new s u)).
Proof.
  intros Hn H. unfold store_uid_one. destruct (find_key (links s) mb u) as [l0|] eqn:E; [|assumption].
  apply find_some in E. now apply atoms_store_row.
Qed.

Lemma atoms_fold {A} (f : st -> A -> st) xs :
  (forall s x, atoms_ok (links s) -> atoms_ok (links (f s x))) ->
  forall s, atoms_ok (links s) -> atoms_ok (links (fold_left f xs s)).
Proof. intros H. induction xs as [|x xs IH]; simpl; auto. Qed.

Lemma recent_valid : valid_flag RECENT = true.
Proof. vm_compute. reflexivity. Qed.

Lemma copy_flags_valid fl : all_valid fl -> all_valid (copy_flags fl).
Proof.
  intros H f Hf. unfold copy_flags in Hf. destruct (mem_ci RECENT fl); [auto|].
  apply in_app_iff in Hf. destruct Hf as [Hf|[<-|[]]]; [auto | apply recent_valid].
Qed.

Lemma atoms_copy_loop mb dest : forall uids ls nu ls' nu',
  atoms_ok ls -> copy_loop ls mb dest nu uids = Some (ls', nu') -> atoms_ok ls'.
Proof.
  induction uids as [|u us IH]; simpl; intros ls nu ls' nu' H E; [now injection E as <- _|].
  destruct (find_key ls mb u) as [l0|] eqn:Ef; [|eauto].
  destruct (insert ls _) eqn:Ei; [|discriminate]. eapply IH; [|exact E].
  eapply atoms_insert; [exact H | | exact Ei]. simpl. apply copy_flags_valid. apply find_some in Ef. now apply H.
Qed.

Lemma atoms_copy_seq_loop mb dest : forall ns ls nu ls' nu',
  atoms_ok ls -> copy_seq_loop ls mb dest nu ns = Some (ls', nu') -> atoms_ok ls'.
Proof.
  induction ns as [|n ns IH]; simpl; intros ls nu ls' nu' H E; [now injection E as <- _|].
  destruct (nth_link ls mb n) as [l0|] eqn:Ef; [|discriminate].
  destruct (insert ls _) eqn:Ei; [|discriminate]. eapply IH; [|exact E].
  eapply atoms_insert; [exact H | | exact Ei]. simpl. apply copy_flags_valid. apply nth_link_In in Ef. now apply H.
Qed.

(** every operation keeps "all stored flags are RFC 3501 flags" *)
Theorem atoms_step e s o : atoms_ok (links s) -> atoms_ok (links (step e s o)).
Proof.
  intros H. destruct o as [ro si mb q item new|ro si mb q item new|mb q dest|mb q dest|mb fl|ro mb|del|id]; simpl.
  - destruct ro; simpl; [assumption|]. destruct (flags_valid new) eqn:Ev; simpl; [|assumption].
    apply flags_valid_all in Ev. unfold store_seq. apply atoms_fold; [|assumption]. intros; now apply atoms_store_uid_one.
  - destruct ro; simpl; [assumption|]. destruct (flags_valid new) eqn:Ev; simpl; [|assumption].
    apply flags_valid_all in Ev. unfold store_uid. apply atoms_fold; [|assumption]. intros; now apply atoms_store_uid_one.
  - unfold copy_uid. destruct (expand_uid (links s) mb q) as [|u0 us]; [assumption|].
    unfold copy_finish. destruct (copy_loop _ _ _ _ _) as [[ls nu]|] eqn:E; [|assumption]. simpl. eapply atoms_copy_loop; eauto.
  - unfold copy_seq. destruct (expand_seq (links s) mb q) as [|u0 us]; [assumption|].
    unfold copy_finish. destruct (copy_seq_loop _ _ _ _ _) as [[ls nu]|] eqn:E; [|assumption]. simpl. eapply atoms_copy_seq_loop; eauto.
  - destruct (flags_valid fl) eqn:Ev; [|assumption]. apply flags_valid_all in Ev.
    unfold append. destruct (insert _ _) eqn:E; simpl; [|assumption]. eapply atoms_insert; [exact H | | exact E]; simpl; exact Ev.
  - destruct ro; [assumption|]. simpl. unfold expunge. now apply atoms_filter.
  - unfold drop_spam. destruct (spam s); [|assumption]. destruct del; simpl; [now apply atoms_filter | assumption].
  - unfold create_spam. destruct (spam s); assumption.
Qed.

Theorem atoms_run e : forall h s, atoms_ok (links s) -> atoms_ok (links (run e s h)).
Proof. induction h as [|o h IH]; intros s H; simpl; [assumption|]. apply IH. now apply atoms_step. Qed.

(** a command that names something that is not a flag changes nothing *)
Theorem invalid_flag_refused e s o :
  match o with
  | OStore _ _ _ _ _ new | OUidStore _ _ _ _ _ new => flags_valid new = false
  | OAppend _ fl => flags_valid fl = false
  | _ => False
  end -> step e s o = s.
Proof.
  destruct o; simpl; try contradiction; intros ->; simpl; [now rewrite orb_true_r | now rewrite orb_true_r | reflexivity].
Qed.

(** what a valid flag is made of: it is not empty and has none of the bytes that
    would break a parenthesised FLAGS list *)
Definition list_breaker (c : ascii) : bool := in_set (S_ "() {""") c || (byte_of c <? 32)%N.

Lemma atom_char_safe c : atom_char c = true -> list_breaker c = false.
Proof.
  revert c. assert (K : forall c, negb (atom_char c) || negb (list_breaker c) = true).
  { apply (Raven.Base.GoStrFacts.ascii_forall (fun c => negb (atom_char c) || negb (list_breaker c))). vm_compute. reflexivity. }
  intros c H. specialize (K c). rewrite H in K. simpl in K. now apply negb_true_iff in K.
Qed.

Lemma valid_flag_chars f : valid_flag f = true -> f <> [] /\ forallb (fun c => negb (list_breaker c)) f = true.
Proof.
  unfold valid_flag, trim_prefix. intros H. split; [intros ->; discriminate|].
  destruct f as [|d f]; [discriminate|].
  change (has_prefix (d :: f) (S_ "\")) with (Ascii.eqb "\"%char d && true) in H. rewrite andb_true_r in H.
  destruct (Ascii.eqb_spec "\"%char d) as [<-|Hd].
  - change (skipn (length (S_ "\")) ("\"%char :: f)) with f in H.
    assert (Hf : forallb atom_char f = true) by (destruct f; [discriminate | exact H]).
    apply forallb_forall. intros x [<-|Hx]; [vm_compute; reflexivity|].
    rewrite forallb_forall in Hf. now rewrite (atom_char_safe x (Hf x Hx)).
  - apply forallb_forall. intros x Hx. rewrite forallb_forall in H. now rewrite (atom_char_safe x (H x Hx)).
Qed.
