(** C13 — the item parser of fix wave 3 (Model/RespondFetch.v [split_items],
    [parse_item], [answer], [collect]): for every request written as a list of
    RFC 3501 data items, the items are recovered exactly, and every requested
    item is answered once, under its own name (with the origin for a partial),
    in request order. *)
From Coq Require Import String Ascii List Bool Arith NArith ZArith Lia.
From Raven Require Import Base.GoStr Base.GoStrFacts Spec.Grammar Model.Respond Model.RespondFetch
     Proof.Grammar Proof.RespondTok Proof.RespondAsm.
Import ListNotations.

(** ---- the tokenizer ---- *)

(** a text that the tokenizer reads through without cutting: no separator
    outside a section; the result is the section state at its end *)
Fixpoint scan (t : str) (in_sec : bool) : option bool :=
  match t with
  | [] => Some in_sec
  | c :: r =>
      if in_sec then scan r (negb (Ascii.eqb c RSB))
      else if Ascii.eqb c LSB then scan r true
      else if is_item_sep c then None
      else scan r false
  end.

Lemma split_scan t : forall b b' cur rest,
  scan t b = Some b' -> split_items (t ++ rest) b cur = split_items rest b' (rev t ++ cur).
Proof.
  induction t as [|c t IH]; cbn [scan app split_items rev]; intros b b' cur rest H.
  - injection H as <-. reflexivity.
  - destruct b.
    + rewrite (IH _ _ (c :: cur) rest H). now rewrite <- app_assoc.
    + destruct (Ascii.eqb c LSB).
      * rewrite (IH _ _ (c :: cur) rest H). now rewrite <- app_assoc.
      * destruct (is_item_sep c); [discriminate|].
        rewrite (IH _ _ (c :: cur) rest H). now rewrite <- app_assoc.
Qed.

Lemma scan_app t : forall b b1 u, scan t b = Some b1 -> scan (t ++ u) b = scan u b1.
Proof.
  induction t as [|c t IH]; cbn [scan app]; intros b b1 u H.
  - now injection H as <-.
  - destruct b; [now apply IH|]. destruct (Ascii.eqb c LSB); [now apply IH|].
    destruct (is_item_sep c); [discriminate|now apply IH].
Qed.

(** a whole item: non-empty, read through from outside a section to outside *)
Definition itok (t : str) : Prop := t <> [] /\ scan t false = Some false.

Lemma split_join ts : Forall itok ts ->
  split_items (join ts [SP] ++ [RP]) false [] = ts.
Proof.
  induction ts as [|t ts IH]; intros H; [reflexivity|].
  inversion H as [|? ? [Hne Ht] Hts]; subst. destruct ts as [|u ts].
  - cbn [join]. rewrite (split_scan t false false [] [RP] Ht). rewrite app_nil_r.
    cbn [split_items]. change (Ascii.eqb RP LSB) with false. change (is_item_sep RP) with true. cbn iota.
    destruct (rev t) eqn:E; [apply (f_equal (@rev ascii)) in E; rewrite rev_involutive in E; cbn in E; congruence|].
    rewrite <- E, rev_involutive. reflexivity.
  - change (join (t :: u :: ts) [SP]) with (t ++ [SP] ++ join (u :: ts) [SP]).
    rewrite <- app_assoc. rewrite (split_scan t false false [] _ Ht). rewrite app_nil_r.
    cbn [app split_items]. change (Ascii.eqb SP LSB) with false. change (is_item_sep SP) with true. cbn iota.
    destruct (rev t) eqn:E; [apply (f_equal (@rev ascii)) in E; rewrite rev_involutive in E; cbn in E; congruence|].
    rewrite <- E, rev_involutive. f_equal. exact (IH Hts).
Qed.

Lemma split_req ts : Forall itok ts -> split_items ([LP] ++ join ts [SP] ++ [RP]) false [] = ts.
Proof. intros H. cbn [app split_items]. now apply split_join. Qed.

(** bytes that neither separate items nor open / close a section *)
Definition ibyte (c : ascii) : bool :=
  negb (is_item_sep c) && negb (Ascii.eqb c LSB) && negb (Ascii.eqb c RSB).

Lemma scan_ibytes t : forall u, forallb ibyte t = true -> scan (t ++ u) false = scan u false.
Proof.
  induction t as [|c t IH]; intros u H; [reflexivity|].
  cbn [forallb] in H. apply andb_true_iff in H as [Hc Ht].
  unfold ibyte in Hc. apply andb_true_iff in Hc as [Hc H3]. apply andb_true_iff in Hc as [H1 H2].
  apply negb_true_iff in H1, H2, H3. cbn [app scan]. rewrite H2, H1. now apply IH.
Qed.

Lemma scan_insec t : forall u, forallb (fun c => negb (Ascii.eqb c RSB)) t = true ->
  scan (t ++ u) true = scan u true.
Proof.
  induction t as [|c t IH]; intros u H; [reflexivity|].
  cbn [forallb] in H. apply andb_true_iff in H as [Hc Ht]. cbn [app scan]. rewrite Hc. now apply IH.
Qed.

(** ---- generic list facts ---- *)

Lemma index_byte_skip p : forall c r, forallb (fun d => negb (Ascii.eqb d c)) p = true ->
  index_byte (p ++ c :: r) c = Some (length p).
Proof.
  induction p as [|d p IH]; intros c r H; cbn [app index_byte length].
  - now rewrite Ascii.eqb_refl.
  - cbn [forallb] in H. apply andb_true_iff in H as [Hd Hp]. apply negb_true_iff in Hd.
    rewrite Hd, (IH _ _ Hp). reflexivity.
Qed.

Lemma index_byte_none p c : forallb (fun d => negb (Ascii.eqb d c)) p = true -> index_byte p c = None.
Proof.
  induction p as [|d p IH]; intros H; [reflexivity|].
  cbn [forallb] in H. apply andb_true_iff in H as [Hd Hp]. apply negb_true_iff in Hd.
  cbn [index_byte]. now rewrite Hd, IH.
Qed.

Lemma firstn_app_exact {A} (p r : list A) : firstn (length p) (p ++ r) = p.
Proof. induction p; cbn; [destruct r; reflexivity|now f_equal]. Qed.

Lemma skipn_app_exact {A} (p r : list A) : skipn (length p) (p ++ r) = r.
Proof. induction p; cbn; auto. Qed.

Lemma to_upper_fix s : forallb (fun c => negb (is_lower c)) s = true -> to_upper s = s.
Proof.
  induction s as [|c s IH]; intros H; [reflexivity|].
  cbn [forallb] in H. apply andb_true_iff in H as [Hc Hs]. apply negb_true_iff in Hc.
  cbn [to_upper map]. fold (to_upper s). now rewrite (upper_c_fix c Hc), IH.
Qed.

Lemma forallb_impl {A} (f g : A -> bool) l :
  (forall x, f x = true -> g x = true) -> forallb f l = true -> forallb g l = true.
Proof.
  intros Hi. induction l as [|x l IH]; [reflexivity|]. cbn. intros H.
  apply andb_true_iff in H as [Hx Hl]. now rewrite (Hi _ Hx), IH.
Qed.

(** ---- requests: validity, rendering, parsing back ---- *)

Definition simple_names : list str :=
  [S_ "UID"; S_ "FLAGS"; S_ "INTERNALDATE"; S_ "RFC822.SIZE"; S_ "ENVELOPE"; S_ "BODYSTRUCTURE";
   S_ "BODY"; S_ "RFC822.HEADER"; S_ "RFC822.TEXT"].

Definition field_byte (c : ascii) : bool := is_upper c || is_digit c || Ascii.eqb c "-".
Definition pd_byte (c : ascii) : bool := is_digit c || Ascii.eqb c ".".
Definition is_nil {A} (l : list A) : bool := match l with [] => true | _ => false end.

(** header field names are written in upper case (the server upper-cases them
    anyway); part numbers are positive, dot-separated *)
Definition sec_valid (s : section) : bool :=
  match s with
  | S_All | S_Text | S_Header => true
  | S_Fields ns => negb (is_nil ns) && forallb (fun n => negb (is_nil n) && forallb field_byte n) ns
  | S_Part p _ => match p with c :: _ => is_digit c | [] => false end && forallb pd_byte p && part_path_ok p
  end.

Definition item_valid (it : fitem) : bool :=
  match it with
  | I_Simple n => existsb (str_eqb n) simple_names
  | I_Sec _ s _ => sec_valid s
  end.

Definition ptxt (part : option (nat * nat)) : str :=
  match part with Some (a, b) => ["<"%char] ++ dec a ++ ["."%char] ++ dec b ++ [">"%char] | None => [] end.

Definition pitem_of (it : fitem) : pitem :=
  match it with
  | I_Simple n => Build_pitem n false [] None
  | I_Sec peek s part => Build_pitem (if peek then S_ "BODY.PEEK" else S_ "BODY") true (sec_text s) part
  end.

Lemma forallb_join (P : ascii -> bool) ns : P SP = true ->
  forallb (fun n => forallb P n) ns = true -> forallb P (join ns [SP]) = true.
Proof.
  intros Hsp. induction ns as [|n ns IH]; intros H; [reflexivity|].
  cbn [forallb] in H. apply andb_true_iff in H as [Hn Hns]. destruct ns as [|m ns]; [exact Hn|].
  change (join (n :: m :: ns) [SP]) with (n ++ [SP] ++ join (m :: ns) [SP]).
  rewrite !forallb_app, Hn, (IH Hns). cbn [forallb]. now rewrite Hsp.
Qed.

Lemma field_byte_props c : field_byte c = true ->
  negb (Ascii.eqb c RSB) = true /\ negb (is_lower c) = true /\ negb (Ascii.eqb c RP) = true
  /\ negb (Ascii.eqb c LP) = true /\ negb (is_space c) = true.
Proof.
  revert c.
  assert (K : forall c, negb (field_byte c) || (negb (Ascii.eqb c RSB) && negb (is_lower c) && negb (Ascii.eqb c RP)
                        && negb (Ascii.eqb c LP) && negb (is_space c)) = true).
  { ascii_sweep (fun c => negb (field_byte c) || (negb (Ascii.eqb c RSB) && negb (is_lower c) && negb (Ascii.eqb c RP)
                        && negb (Ascii.eqb c LP) && negb (is_space c))). }
  intros c H. specialize (K c). rewrite H in K. cbn [negb orb] in K.
  repeat (apply andb_true_iff in K as [K ?]). auto.
Qed.

Lemma pd_byte_props c : pd_byte c = true ->
  negb (Ascii.eqb c RSB) = true /\ negb (is_lower c) = true /\ negb (Ascii.eqb c "M") = true
  /\ upper_c c = c /\ ibyte c = true.
Proof.
  revert c.
  assert (K : forall c, negb (pd_byte c) || (negb (Ascii.eqb c RSB) && negb (is_lower c) && negb (Ascii.eqb c "M")
                        && Ascii.eqb (upper_c c) c && ibyte c) = true).
  { ascii_sweep (fun c => negb (pd_byte c) || (negb (Ascii.eqb c RSB) && negb (is_lower c) && negb (Ascii.eqb c "M")
                        && Ascii.eqb (upper_c c) c && ibyte c)). }
  intros c H. specialize (K c). rewrite H in K. cbn [negb orb] in K.
  repeat (apply andb_true_iff in K as [K ?]).
  match goal with H : Ascii.eqb (upper_c c) c = true |- _ => apply Ascii.eqb_eq in H end. auto.
Qed.

(** the section text of a valid section has no closing bracket and no lower-case letter *)
Lemma sec_text_props s : sec_valid s = true ->
  forallb (fun c => negb (Ascii.eqb c RSB)) (sec_text s) = true
  /\ forallb (fun c => negb (is_lower c)) (sec_text s) = true.
Proof.
  destruct s as [| | |ns|p m]; cbn [sec_valid sec_text]; intros H; try (split; reflexivity).
  - apply andb_true_iff in H as [_ H].
    assert (A : forallb (fun n => forallb (fun c => negb (Ascii.eqb c RSB)) n) ns = true
                /\ forallb (fun n => forallb (fun c => negb (is_lower c)) n) ns = true).
    { clear -H. induction ns as [|n ns IH]; [split; reflexivity|].
      cbn [forallb] in *. apply andb_true_iff in H as [Hn Hns]. apply andb_true_iff in Hn as [_ Hn].
      destruct (IH Hns) as [I1 I2]. rewrite I1, I2, !andb_true_r. split.
      - eapply forallb_impl; [|exact Hn]. intros c Hc. now destruct (field_byte_props c Hc) as (? & _).
      - eapply forallb_impl; [|exact Hn]. intros c Hc. now destruct (field_byte_props c Hc) as (_ & ? & _). }
    destruct A as [A1 A2]. rewrite !forallb_app.
    rewrite (forallb_join _ ns eq_refl A1), (forallb_join _ ns eq_refl A2). split; reflexivity.
  - apply andb_true_iff in H as [H _]. apply andb_true_iff in H as [_ H].
    rewrite !forallb_app. split.
    + rewrite (forallb_impl _ _ p (fun c Hc => proj1 (pd_byte_props c Hc)) H). destruct m; reflexivity.
    + rewrite (forallb_impl _ _ p (fun c Hc => proj1 (proj2 (pd_byte_props c Hc))) H). destruct m; reflexivity.
Qed.

(** fmt "%d.%d" reads back what [dec] wrote *)
Lemma digits_val_dval s : forall v, digits_val s (Z.of_N v) = Z.of_N (dval v s).
Proof.
  induction s as [|c s IH]; intros v; [reflexivity|].
  cbn [digits_val]. unfold dval. cbn [fold_left]. fold (dval (10 * v + (byte_of c - 48)) s).
  rewrite <- IH. f_equal. unfold digit_val. lia.
Qed.

Lemma digits_val_dec n : Z.to_nat (digits_val (dec n) 0) = n.
Proof. change 0%Z with (Z.of_N 0). rewrite digits_val_dval, dec_val. lia. Qed.

Lemma span_digits_all ds : forall acc, forallb is_digit ds = true -> span_digits ds acc = (rev acc ++ ds, []).
Proof.
  induction ds as [|d ds IH]; intros acc H; cbn [span_digits]; [now rewrite app_nil_r|].
  cbn [forallb] in H. apply andb_true_iff in H as [Hd Hds]. rewrite Hd, IH by exact Hds. cbn [rev].
  now rewrite <- app_assoc.
Qed.

Lemma scan_range2_dec a b : scan_range2 (dec a ++ ["."%char] ++ dec b) = Some (a, b).
Proof.
  unfold scan_range2, scan_range. cbn [app].
  rewrite (span_digits_app (dec a) [] "."%char (dec b) (dec_digits a) eq_refl). cbn [rev app].
  pose proof (digits_val_dec a) as Ha. pose proof (dec_nonempty a) as Hna.
  destruct (dec a) as [|a0 as_]; [congruence|]. rewrite Ha.
  change (Ascii.eqb "." ".") with true. cbn iota.
  rewrite (span_digits_all (dec b) [] (dec_digits b)). cbn [rev app].
  pose proof (digits_val_dec b) as Hb. pose proof (dec_nonempty b) as Hnb.
  destruct (dec b) as [|b0 bs]; [congruence|]. now rewrite Hb.
Qed.

Lemma parse_ptxt part :
  match ptxt part with
  | c :: _ =>
      if Ascii.eqb c "<" && Nat.leb 2 (length (ptxt part)) && Ascii.eqb (last (ptxt part) " "%char) ">"
      then scan_range2 (firstn (length (ptxt part) - 2) (skipn 1 (ptxt part)))
      else None
  | [] => None
  end = part.
Proof.
  destruct part as [[a b]|]; [|reflexivity]. unfold ptxt.
  set (m := dec a ++ ["."%char] ++ dec b).
  replace (["<"%char] ++ dec a ++ ["."%char] ++ dec b ++ [">"%char]) with ("<"%char :: m ++ [">"%char])
    by (subst m; cbn [app]; now rewrite <- !app_assoc).
  change (Ascii.eqb "<" "<") with true.
  assert (Hl : length ("<"%char :: m ++ [">"%char]) = S (S (length m))) by (cbn [length]; rewrite app_length; cbn; lia).
  rewrite Hl. cbn [Nat.leb andb].
  change ("<"%char :: m ++ [">"%char]) with (("<"%char :: m) ++ [">"%char]) at 1. rewrite last_last.
  change (Ascii.eqb ">" ">") with true. cbn iota.
  cbn [skipn]. replace (S (S (length m)) - 2) with (length m) by lia.
  rewrite firstn_app_exact. subst m. apply scan_range2_dec.
Qed.

Lemma render_sec peek s part :
  render_item (I_Sec peek s part)
  = (if peek then S_ "BODY.PEEK[" else S_ "BODY[") ++ sec_text s ++ RSB :: ptxt part.
Proof. unfold render_item, ptxt. destruct part as [[a b]|]; reflexivity. Qed.

Lemma parse_render it : item_valid it = true -> parse_item (render_item it) = pitem_of it.
Proof.
  destruct it as [n|peek s part]; cbn [item_valid].
  - intros H. apply existsb_exists in H as (m & Hm & E). apply str_eqb_eq in E. subst m.
    cbn [In simple_names] in Hm. repeat destruct Hm as [<-|Hm]; try reflexivity. contradiction.
  - intros H. destruct (sec_text_props s H) as [Hrb _].
    rewrite render_sec. unfold parse_item.
    destruct peek.
    + change (index_byte (S_ "BODY.PEEK[" ++ ?x) LSB) with (Some 9). cbv beta iota.
      change (skipn 10 (S_ "BODY.PEEK[" ++ ?x)) with x.
      change (firstn 9 (S_ "BODY.PEEK[" ++ ?x)) with (S_ "BODY.PEEK").
      rewrite (index_byte_skip _ RSB _ Hrb). cbv beta iota. rewrite firstn_app_exact.
      change (sec_text s ++ RSB :: ptxt part) with (sec_text s ++ [RSB] ++ ptxt part).
      rewrite app_assoc.
      replace (S (length (sec_text s))) with (length (sec_text s ++ [RSB])) by (rewrite app_length; cbn; lia).
      rewrite skipn_app_exact, parse_ptxt. reflexivity.
    + change (index_byte (S_ "BODY[" ++ ?x) LSB) with (Some 4). cbv beta iota.
      change (skipn 5 (S_ "BODY[" ++ ?x)) with x.
      change (firstn 4 (S_ "BODY[" ++ ?x)) with (S_ "BODY").
      rewrite (index_byte_skip _ RSB _ Hrb). cbv beta iota. rewrite firstn_app_exact.
      change (sec_text s ++ RSB :: ptxt part) with (sec_text s ++ [RSB] ++ ptxt part).
      rewrite app_assoc.
      replace (S (length (sec_text s))) with (length (sec_text s ++ [RSB])) by (rewrite app_length; cbn; lia).
      rewrite skipn_app_exact, parse_ptxt. reflexivity.
Qed.

(** ---- every rendered item is one token of the tokenizer ---- *)

Lemma plain_ibyte c : plain_byte c = true -> ibyte c = true.
Proof.
  revert c.
  assert (K : forall c, negb (plain_byte c) || ibyte c = true)
    by (ascii_sweep (fun c => negb (plain_byte c) || ibyte c)).
  intros c H. specialize (K c). now rewrite H in K.
Qed.

Lemma ptxt_ibytes part : forallb ibyte (ptxt part) = true.
Proof.
  destruct part as [[a b]|]; [|reflexivity]. unfold ptxt. rewrite !forallb_app.
  rewrite (forallb_impl _ _ _ plain_ibyte (dec_plain a)), (forallb_impl _ _ _ plain_ibyte (dec_plain b)).
  reflexivity.
Qed.

Lemma itok_render it : item_valid it = true -> itok (render_item it).
Proof.
  destruct it as [n|peek s part]; cbn [item_valid]; intros H.
  - apply existsb_exists in H as (m & Hm & E). apply str_eqb_eq in E. subst m.
    cbn [In simple_names] in Hm. repeat destruct Hm as [<-|Hm]; try (split; [discriminate|reflexivity]).
    contradiction.
  - destruct (sec_text_props s H) as [Hrb _]. rewrite render_sec. split; [destruct peek; discriminate|].
    assert (E : scan ((if peek then S_ "BODY.PEEK[" else S_ "BODY[") ++ sec_text s ++ RSB :: ptxt part) false
                = scan (sec_text s ++ RSB :: ptxt part) true) by (destruct peek; reflexivity).
    rewrite E, (scan_insec _ _ Hrb). cbn [scan]. rewrite Ascii.eqb_refl. cbn [negb].
    rewrite <- (app_nil_r (ptxt part)), (scan_ibytes _ [] (ptxt_ibytes part)). reflexivity.
Qed.

(** ---- what each parsed item answers ---- *)

Definition origin (part : option (nat * nat)) : str :=
  match part with Some (a, _) => ["<"%char] ++ dec a ++ [">"%char] | None => [] end.

Lemma expected_sec peek s part : sec_valid s = true ->
  expected_name (I_Sec peek s part) = S_ "BODY[" ++ sec_text s ++ [RSB] ++ origin part.
Proof.
  intros H. destruct (sec_text_props s H) as [_ Hl]. unfold expected_name. rewrite (to_upper_fix _ Hl).
  destruct part as [[a b]|]; reflexivity.
Qed.

Lemma label_section_out L it d : out_label (section_out L it d) = L ++ origin (p_partial it).
Proof. unfold section_out. destruct (p_partial it) as [[a b]|]; cbn; [reflexivity|now rewrite app_nil_r]. Qed.

Lemma fields_aux_word w : forall rest cur, forallb (fun c => negb (is_space c)) w = true ->
  fields_aux (w ++ rest) cur = fields_aux rest (rev w ++ cur).
Proof.
  induction w as [|c w IH]; intros rest cur H; [reflexivity|].
  cbn [forallb] in H. apply andb_true_iff in H as [Hc Hw]. apply negb_true_iff in Hc.
  cbn [app fields_aux]. rewrite Hc, (IH _ _ Hw). cbn [rev]. now rewrite <- app_assoc.
Qed.

Lemma rev_cons_nonempty (c : ascii) n : rev (c :: n) <> [].
Proof. cbn [rev]. intros E. apply app_eq_nil in E as [_ E]. discriminate. Qed.

Lemma fields_aux_end cur : cur <> [] -> fields_aux [] cur = [rev cur].
Proof. destruct cur; [congruence|reflexivity]. Qed.

Lemma fields_aux_sp rest cur : cur <> [] -> fields_aux (SP :: rest) cur = rev cur :: fields_aux rest [].
Proof. destruct cur; [congruence|reflexivity]. Qed.

Lemma fields_join ns : forallb (fun n => negb (is_nil n) && forallb (fun c => negb (is_space c)) n) ns = true ->
  fields (join ns [SP]) = ns.
Proof.
  unfold fields. induction ns as [|n ns IH]; intros H; [reflexivity|].
  cbn [forallb] in H. apply andb_true_iff in H as [Hn Hns]. apply andb_true_iff in Hn as [Hne Hw].
  destruct n as [|c0 n0]; [discriminate|]. destruct ns as [|m ns].
  - cbn [join]. rewrite <- (app_nil_r (c0 :: n0)), (fields_aux_word _ [] [] Hw), app_nil_r.
    rewrite (fields_aux_end _ (rev_cons_nonempty c0 n0)). now rewrite rev_involutive, app_nil_r.
  - change (join ((c0 :: n0) :: m :: ns) [SP]) with ((c0 :: n0) ++ [SP] ++ join (m :: ns) [SP]).
    rewrite (fields_aux_word _ _ [] Hw), app_nil_r. cbn [app].
    rewrite (fields_aux_sp _ _ (rev_cons_nonempty c0 n0)), rev_involutive. f_equal. exact (IH Hns).
Qed.

Lemma header_field_names_render ns : sec_valid (S_Fields ns) = true ->
  header_field_names (sec_text (S_Fields ns)) = ns.
Proof.
  cbn [sec_valid sec_text]. intros H. apply andb_true_iff in H as [Hne H].
  unfold header_field_names.
  change (index_byte (S_ "HEADER.FIELDS (" ++ ?x) LP) with (Some 14). cbv beta iota.
  change (skipn 15 (S_ "HEADER.FIELDS (" ++ ?x)) with x.
  assert (Hrp : forallb (fun d => negb (Ascii.eqb d RP)) (join ns [SP]) = true).
  { apply forallb_join; [reflexivity|]. eapply forallb_impl; [|exact H]. intros n Hn.
    apply andb_true_iff in Hn as [_ Hn]. eapply forallb_impl; [|exact Hn]. intros c Hc.
    now destruct (field_byte_props c Hc) as (_ & _ & ? & _). }
  rewrite (index_byte_skip _ RP [] Hrp). cbv beta iota. rewrite firstn_app_exact.
  rewrite fields_join.
  - destruct ns as [|n ns]; [discriminate|].
    assert (E : map to_upper (n :: ns) = n :: ns).
    { clear -H. induction (n :: ns) as [|x l IH]; [reflexivity|]. cbn [forallb] in H.
      apply andb_true_iff in H as [Hx Hl]. apply andb_true_iff in Hx as [_ Hx]. cbn [map]. rewrite (IH Hl). f_equal.
      apply to_upper_fix. eapply forallb_impl; [|exact Hx]. intros c Hc.
      now destruct (field_byte_props c Hc) as (_ & ? & _). }
    exact E.
  - eapply forallb_impl; [|exact H]. intros n Hn. apply andb_true_iff in Hn as [Hn1 Hn2].
    rewrite Hn1. cbn [andb]. eapply forallb_impl; [|exact Hn2]. intros c Hc.
    now destruct (field_byte_props c Hc) as (_ & _ & _ & _ & ?).
Qed.

Lemma has_prefix_MIME_pd q : match q with c :: _ => negb (Ascii.eqb c "M") = true | [] => True end ->
  has_prefix q (S_ "MIME") = false.
Proof.
  destruct q as [|c q]; [reflexivity|]. intros H. apply negb_true_iff in H.
  change (has_prefix (c :: q) (S_ "MIME")) with (Ascii.eqb "M" c && has_prefix q (S_ "IME")).
  rewrite Ascii.eqb_sym, H. reflexivity.
Qed.

Lemma index_mime_none p : forallb pd_byte p = true -> index p (S_ ".MIME") = None.
Proof.
  induction p as [|c p IH]; intros H; [reflexivity|].
  cbn [forallb] in H. apply andb_true_iff in H as [Hc Hp].
  cbn [index]. change (has_prefix (c :: p) (S_ ".MIME")) with (Ascii.eqb "." c && has_prefix p (S_ "MIME")).
  rewrite has_prefix_MIME_pd.
  - rewrite andb_false_r, (IH Hp). reflexivity.
  - destruct p as [|d p]; [exact I|]. cbn [forallb] in Hp. apply andb_true_iff in Hp as [Hd _].
    now destruct (pd_byte_props d Hd) as (_ & _ & ? & _).
Qed.

Lemma index_mime_at p : forallb pd_byte p = true -> index (p ++ S_ ".MIME") (S_ ".MIME") = Some (length p).
Proof.
  induction p as [|c p IH]; intros H; [reflexivity|].
  cbn [forallb] in H. apply andb_true_iff in H as [Hc Hp].
  cbn [app index]. change (has_prefix (c :: p ++ S_ ".MIME") (S_ ".MIME"))
    with (Ascii.eqb "." c && has_prefix (p ++ S_ ".MIME") (S_ "MIME")).
  rewrite has_prefix_MIME_pd.
  - rewrite andb_false_r, (IH Hp). reflexivity.
  - destruct p as [|d p]; [reflexivity|]. cbn [forallb] in Hp. apply andb_true_iff in Hp as [Hd _].
    cbn [app]. now destruct (pd_byte_props d Hd) as (_ & _ & ? & _).
Qed.

Lemma digit_not_TH c : is_digit c = true ->
  Ascii.eqb c "T" = false /\ Ascii.eqb c "H" = false /\ Ascii.eqb "H" c = false.
Proof.
  revert c.
  assert (K : forall c, negb (is_digit c) || (negb (Ascii.eqb c "T") && negb (Ascii.eqb c "H") && negb (Ascii.eqb "H" c)) = true)
    by (ascii_sweep (fun c => negb (is_digit c) || (negb (Ascii.eqb c "T") && negb (Ascii.eqb c "H") && negb (Ascii.eqb "H" c)))).
  intros c H. specialize (K c). rewrite H in K. cbn [negb orb] in K.
  repeat (apply andb_true_iff in K as [K ?]).
  repeat match goal with H : negb _ = true |- _ => apply negb_true_iff in H end. auto.
Qed.

(** every valid requested item is answered by exactly one response part that
    carries the name RFC 3501 requires (or the Go code panics: ENVELOPE) *)
Lemma answer_label it e outs : item_valid it = true ->
  answer (pitem_of it) e = Some outs -> exists o, outs = [o] /\ out_label o = expected_name it.
Proof.
  destruct it as [n|peek s part]; cbn [item_valid]; intros H E.
  - apply existsb_exists in H as (m & Hm & Em). apply str_eqb_eq in Em. subst m.
    cbn [In simple_names] in Hm.
    repeat destruct Hm as [<-|Hm]; try contradiction; cbn in E;
      try (injection E as <-; eexists; split; reflexivity).
    (* ENVELOPE *)
    destruct (envelope_value (mail_table (e_mail e)) (e_msg e)) as [v|]; [|discriminate].
    injection E as <-. eexists; split; reflexivity.
  - rewrite (expected_sec peek s part H).
    destruct (sec_text_props s H) as [_ Hl].
    unfold answer in E. cbn [pitem_of p_has_sec p_name p_sec p_partial] in E.
    assert (Hn : str_eqb (if peek then S_ "BODY.PEEK" else S_ "BODY") (S_ "BODY")
                 || str_eqb (if peek then S_ "BODY.PEEK" else S_ "BODY") (S_ "BODY.PEEK") = true)
      by (destruct peek; reflexivity).
    rewrite Hn, (to_upper_fix _ Hl) in E. clear Hn.
    set (it := {| p_name := if peek then S_ "BODY.PEEK" else S_ "BODY"; p_has_sec := true;
                  p_sec := sec_text s; p_partial := part |}) in *.
    assert (Hp : p_partial it = part) by reflexivity.
    destruct s as [| | |ns|p m].
    + cbn in E. injection E as <-. eexists; split; [reflexivity|].
      rewrite label_section_out, Hp. reflexivity.
    + cbn in E. injection E as <-. eexists; split; [reflexivity|].
      rewrite label_section_out, Hp. reflexivity.
    + cbn in E. injection E as <-. eexists; split; [reflexivity|].
      rewrite label_section_out, Hp. reflexivity.
    + pose proof (header_field_names_render ns H) as Hf.
      cbn [sec_text] in E, Hf |- *.
      change (match S_ "HEADER.FIELDS (" ++ ?x with [] => ?a | c0 :: _ => ?b c0 end) with (b "H"%char) in E.
      cbv beta in E.
      change (str_eqb (S_ "HEADER.FIELDS (" ++ ?x) (S_ "TEXT")) with false in E.
      change (str_eqb (S_ "HEADER.FIELDS (" ++ ?x) (S_ "HEADER")) with false in E.
      change (has_prefix (S_ "HEADER.FIELDS (" ++ ?x) (S_ "HEADER.FIELDS ")) with true in E.
      rewrite orb_true_r in E. cbn [orb] in E. cbv iota in E.
      rewrite Hf in E. injection E as <-. eexists; split; [reflexivity|].
      rewrite label_section_out, Hp.
      cbn [S_ list_ascii_of_string app]. repeat (rewrite <- app_assoc; cbn [app]). reflexivity.
    + cbn [sec_valid] in H. apply andb_true_iff in H as [H Hpath]. apply andb_true_iff in H as [Hd Hpd].
      destruct p as [|c0 p0]; [discriminate|].
      destruct (digit_not_TH c0 Hd) as (HT & HH & HH').
      cbn [sec_text app] in E |- *.
      change (str_eqb (c0 :: ?x) (S_ "TEXT")) with (Ascii.eqb c0 "T" && str_eqb x (S_ "EXT")) in E.
      change (str_eqb (c0 :: ?x) (S_ "HEADER")) with (Ascii.eqb c0 "H" && str_eqb x (S_ "EADER")) in E.
      change (str_eqb (c0 :: ?x) (S_ "HEADER.FIELDS")) with (Ascii.eqb c0 "H" && str_eqb x (S_ "EADER.FIELDS")) in E.
      change (has_prefix (c0 :: ?x) (S_ "HEADER.FIELDS ")) with (Ascii.eqb "H" c0 && has_prefix x (S_ "EADER.FIELDS ")) in E.
      change (has_prefix (c0 :: ?x) (S_ "HEADER.FIELDS(")) with (Ascii.eqb "H" c0 && has_prefix x (S_ "EADER.FIELDS(")) in E.
      rewrite HT, HH, HH', Hd in E. cbn [andb orb] in E. cbv iota in E.
      assert (Hnum : (match index (c0 :: p0 ++ (if m then S_ ".MIME" else [])) (S_ ".MIME") with
                      | Some i => firstn i (c0 :: p0 ++ (if m then S_ ".MIME" else []))
                      | None => c0 :: p0 ++ (if m then S_ ".MIME" else []) end) = c0 :: p0).
      { destruct m.
        - change (c0 :: p0 ++ S_ ".MIME") with ((c0 :: p0) ++ S_ ".MIME").
          rewrite (index_mime_at _ Hpd). apply firstn_app_exact.
        - rewrite app_nil_r, (index_mime_none _ Hpd). reflexivity. }
      rewrite Hnum, Hpath in E. cbv iota in E.
      destruct part as [[a b]|]; cbn [p_partial it] in E.
      * injection E as <-. eexists; split; [reflexivity|].
        destruct (clamp_slice _ a b); cbn [out_label pair_of fst origin]; now rewrite <- !app_assoc.
      * injection E as <-. eexists; split; [reflexivity|].
        destruct (match assoc _ (e_parts e) with Some p1 => p1 | None => [] end);
          cbn [out_label pair_of fst origin]; now rewrite <- !app_assoc, ?app_nil_r.
Qed.

(** the loop over the items with its [answered] map *)
Lemma collect_names req : forall e seen plan,
  forallb item_valid req = true -> NoDup (map expected_name req) ->
  (forall it, In it req -> ~ In (expected_name it) seen) ->
  collect (map pitem_of req) e seen = Some plan ->
  map out_label plan = map expected_name req.
Proof.
  induction req as [|it req IH]; intros e seen plan Hv Hnd Hseen E.
  - cbn in E. injection E as <-. reflexivity.
  - cbn [forallb] in Hv. apply andb_true_iff in Hv as [Hit Hreq].
    cbn [map] in Hnd. inversion Hnd as [|? ? Hnotin Hnd']; subst.
    cbn [map collect] in E.
    destruct (answer (pitem_of it) e) as [outs|] eqn:Ea; [|discriminate].
    destruct (answer_label it e outs Hit Ea) as (o & -> & Hl).
    assert (Hfresh : existsb (str_eqb (out_label o)) seen = false).
    { destruct (existsb (str_eqb (out_label o)) seen) eqn:X; [|reflexivity].
      apply existsb_exists in X as (x & Hx & Ex). apply str_eqb_eq in Ex. subst x.
      exfalso. apply (Hseen it (or_introl eq_refl)). now rewrite <- Hl. }
    cbn [filter] in E. rewrite Hfresh in E. cbn [negb map app] in E.
    destruct (collect (map pitem_of req) e (out_label o :: seen)) as [r|] eqn:Er; [|discriminate].
    injection E as <-. cbn [map app]. rewrite Hl. f_equal.
    apply (IH e (out_label o :: seen) r Hreq Hnd'); [|exact Er].
    intros it' Hin [Heq|Hin']; [|exact (Hseen it' (or_intror Hin) Hin')].
    apply Hnotin. rewrite <- Hl, Heq. now apply in_map.
Qed.

(** For every request made of valid, pairwise different RFC 3501 data items
    (RFC822 excepted, see [classify_req]) and every message, the response parts
    carry exactly the requested names, each once, in request order, with the
    origin for every partial. *)
Theorem items_answered req e plan :
  forallb item_valid req = true -> NoDup (map expected_name req) ->
  fetch_plan (render_req req) e = Some plan ->
  map out_label plan = map expected_name req.
Proof.
  intros Hv Hnd E. unfold fetch_plan, parse_items, render_req in E.
  assert (Htok : Forall itok (map render_item req)).
  { apply Forall_map. apply Forall_forall. intros it Hin. apply itok_render.
    rewrite forallb_forall in Hv. now apply Hv. }
  rewrite (split_req _ Htok), map_map in E.
  assert (Hmap : map (fun x => parse_item (render_item x)) req = map pitem_of req).
  { apply map_ext_in. intros it Hin. apply parse_render. rewrite forallb_forall in Hv. now apply Hv. }
  rewrite Hmap in E. apply (collect_names req e [] plan Hv Hnd); [intros it _ []|exact E].
Qed.

(** the tokenizer and the item reader are total: defined by structural recursion
    on the text, with no partial operation — stated as: every byte string has a
    list of items, and the list has at most one item per byte *)
Lemma split_items_length s : forall b cur, length (split_items s b cur) <= length s + (match cur with [] => 0 | _ => 1 end).
Proof.
  induction s as [|c s IH]; intros b cur; cbn [split_items length].
  - destruct cur; cbn; lia.
  - destruct b.
    + specialize (IH (negb (Ascii.eqb c RSB)) (c :: cur)). cbn in IH. destruct cur; lia.
    + destruct (Ascii.eqb c LSB).
      * specialize (IH true (c :: cur)). cbn in IH. destruct cur; lia.
      * destruct (is_item_sep c).
        -- destruct cur; cbn [length]; specialize (IH false []); cbn in IH; lia.
        -- specialize (IH false (c :: cur)). cbn in IH. destruct cur; lia.
Qed.

Theorem item_parser_total items : exists its, parse_items items = its /\ length its <= length items.
Proof.
  eexists. split; [reflexivity|]. unfold parse_items. rewrite map_length.
  pose proof (split_items_length items false []). cbn in H. lia.
Qed.

(** the two halves together: what the strict client reads from the line sent for
    a request is exactly the requested item names, each with one value *)
Theorem requested_items_in_response req e plan seq :
  req <> [] -> forallb item_valid req = true -> NoDup (map expected_name req) ->
  fetch_plan (render_req req) e = Some plan -> forallb out_okb plan = true ->
  wf_stream (send (fetch_line seq plan)) = true
  /\ exists ps, fetch_pairs (send (fetch_line seq plan)) = Some (dec seq, ps)
                /\ map fst ps = map expected_name req.
Proof.
  intros Hne Hv Hnd E Hok. pose proof (items_answered req e plan Hv Hnd E) as Hn.
  assert (Hp : plan <> []).
  { intros ->. destruct req; [congruence|discriminate]. }
  destruct (fetch_assembly_ok seq plan Hp Hok) as [Hwf Hfp]. split; [exact Hwf|].
  exists (map pair_of plan). split; [exact Hfp|]. rewrite map_map. exact Hn.
Qed.
