(** C12, service layer: isolation follows from the regenerated facts; without
    recover a single panicking command takes every later connection down. *)
From Coq Require Import String Ascii List Bool Arith Lia.
From Raven Require Import Base.GoStr Model.Service Spec.NoCrash.
Import ListNotations.

Lemma step_recovering (ev : conn_event) :
  recovers (ev_entry ev) = true -> step true ev = (true, alone ev).
Proof.
  intros R. unfold step, alone.
  destruct (conn_loop (ev_handler ev) (ev_cmds ev)) as [[rs p] n].
  destruct p; [rewrite R|]; reflexivity.
Qed.

Lemma facts_ok_safe (t : list entry) (e : entry) :
  facts_ok t = true -> In e t -> e_conn e = true -> recovers e = true.
Proof.
  unfold facts_ok. rewrite !andb_true_iff. intros [[[A _] _] _] I C.
  rewrite forallb_forall in A. specialize (A e I). unfold entry_safe in A.
  rewrite C in A. exact A.
Qed.

Theorem isolated_of_facts (t : list entry) : facts_ok t = true -> isolated t.
Proof.
  intros F evs. induction evs as [|ev evs IH]; intros FT; [reflexivity|].
  cbn [run map].
  assert (R : recovers (ev_entry ev) = true).
  { destruct (FT ev (or_introl eq_refl)) as [I C]. eapply facts_ok_safe; eauto. }
  rewrite (step_recovering ev R).
  rewrite IH; [reflexivity|]. intros ev' I'. apply FT. now right.
Qed.

(** what a failing table is missing *)
Theorem facts_not_ok_witness (t : list entry) :
  facts_ok t = false ->
  (exists e, In e t /\ e_conn e = true /\ recovers e = false)
  \/ (exists sv, In sv [Imap; Lmtp; Sasl] /\ existsb (serves sv) t = false).
Proof.
  unfold facts_ok. intros F.
  destruct (forallb entry_safe t) eqn:A.
  - right. simpl in F.
    destruct (existsb (serves Imap) t) eqn:X1; [|exists Imap; simpl; auto].
    destruct (existsb (serves Lmtp) t) eqn:X2; [|exists Lmtp; simpl; auto].
    destruct (existsb (serves Sasl) t) eqn:X3; [discriminate|exists Sasl; simpl; auto].
  - left. clear F.
    induction t as [|e t IH]; [discriminate|].
    simpl in A. destruct (entry_safe e) eqn:S.
    + destruct (IH A) as [e' [I H]]. exists e'. split; [now right | exact H].
    + exists e. split; [now left|]. unfold entry_safe in S.
      apply orb_false_iff in S as [C R]. apply negb_false_iff in C. now split.
Qed.

(** the status of ANY table, in one statement *)
Theorem service_status (t : list entry) :
  if facts_ok t then isolated t
  else (exists e, In e t /\ e_conn e = true /\ recovers e = false)
       \/ (exists sv, In sv [Imap; Lmtp; Sasl] /\ existsb (serves sv) t = false).
Proof.
  destruct (facts_ok t) eqn:F; [now apply isolated_of_facts | now apply facts_not_ok_witness].
Qed.

(** ---- the converse direction: an unrecovered panic is fatal ---- *)
Lemma conn_loop_panics (h : handler) (cmds : list cmd) :
  (exists c, In c cmds /\ h c = None) -> snd (fst (conn_loop h cmds)) = true.
Proof.
  induction cmds as [|c cmds IH]; intros [c0 [I N]]; [destruct I|].
  simpl. destruct (h c) as [r|] eqn:E.
  - destruct I as [->|I]; [congruence|].
    specialize (IH (ex_intro _ c0 (conj I N))).
    destruct (conn_loop h cmds) as [[rs p] n]. simpl in *. exact IH.
  - reflexivity.
Qed.

Lemma run_dead (evs : list conn_event) :
  run false evs = (false, map (fun ev => mk_obs [] true (length (ev_cmds ev))) evs).
Proof.
  induction evs as [|ev evs IH]; [reflexivity|]. cbn [run map step]. rewrite IH. reflexivity.
Qed.

Theorem unrecovered_panic_kills (e : entry) (h : handler) (cmds : list cmd) (later : list conn_event) :
  recovers e = false ->
  (exists c, In c cmds /\ h c = None) ->
  fst (run true (mk_event e h cmds :: later)) = false
  /\ skipn 1 (snd (run true (mk_event e h cmds :: later)))
     = map (fun ev => mk_obs [] true (length (ev_cmds ev))) later.
Proof.
  intros R P. apply conn_loop_panics in P.
  cbn [run step ev_entry ev_handler ev_cmds].
  destruct (conn_loop h cmds) as [[rs p] n]. simpl in P. subst p. rewrite R.
  rewrite run_dead. split; reflexivity.
Qed.

(** ---- regression fact about the OLD tree (no recover in any entry point):
    an abstract handler that panics on one command; it does not mention the
    function-layer models ---- *)
Local Open Scope string_scope.

Definition panicking_handler : handler :=
  fun c => if str_eqb c (S_ "boom") then None else Some [S_ "OK"].

Definition old_imap_entry : entry :=
  mk_entry (S_ "cmd/server/main.go:86") (S_ "HandleConnection") Imap true true false.

Definition old_events : list conn_event :=
  [ mk_event old_imap_entry panicking_handler [S_ "a NOOP"; S_ "boom"];
    mk_event old_imap_entry panicking_handler [S_ "b NOOP"] ].

Example old_service_without_recover :
  recovers old_imap_entry = false
  /\ fst (run true old_events) = false
  /\ snd (run true old_events) <> map alone old_events.
Proof.
  repeat split; try (vm_compute; reflexivity). vm_compute. discriminate.
Qed.

(** the same events on an entry point that recovers: isolated *)
Example recovering_entry_isolates :
  let e := mk_entry (S_ "cmd/server/main.go:86") (S_ "HandleConnection") Imap true true true in
  let evs := [ mk_event e panicking_handler [S_ "a NOOP"; S_ "boom"; S_ "never"];
               mk_event e panicking_handler [S_ "b NOOP"] ] in
  run true evs = (true, map alone evs)
  /\ map o_closed (snd (run true evs)) = [true; false].
Proof. vm_compute. split; reflexivity. Qed.
