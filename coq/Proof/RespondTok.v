(** C13 — the atoms the response builders emit are single well-formed tokens:
    decimal numbers, literals {n}CRLF + n octets, QuoteOrNIL of a CR/LF-free
    string (and it decodes back to the string). *)
From Coq Require Import String Ascii List Bool Arith NArith Lia.
From Raven Require Import Base.GoStr Base.GoStrFacts Spec.Grammar Model.Respond Proof.Grammar.
Import ListNotations.

(** ---- decimal rendering ---- *)

Definition dval (v : N) (ds : str) : N :=
  fold_left (fun a c => (10 * a + (byte_of c - 48))%N) ds v.

Lemma dec_aux_app f : forall n acc, dec_aux f n acc = dec_aux f n [] ++ acc.
Proof.
  induction f as [|f IH]; intros n acc; [reflexivity|].
  cbn [dec_aux]. destruct (n <? 10)%N; [reflexivity|].
  rewrite IH, (IH _ [_]), <- app_assoc. reflexivity.
Qed.

Lemma digit_of k : (k < 10)%N ->
  is_digit (ascii_of_N (48 + k)) = true /\ (byte_of (ascii_of_N (48 + k)) - 48 = k)%N
  /\ plain_byte (ascii_of_N (48 + k)) = true.
Proof.
  intros H.
  assert (E : In k [0;1;2;3;4;5;6;7;8;9]%N).
  { cbn. lia. }
  cbn in E. repeat destruct E as [<-|E]; try (repeat split; reflexivity). contradiction.
Qed.

Lemma dec_aux_digits f : forall n, forallb is_digit (dec_aux f n []) = true
  /\ forallb plain_byte (dec_aux f n []) = true.
Proof.
  induction f as [|f IH]; intros n; [split; reflexivity|].
  cbn [dec_aux]. pose proof (digit_of (n mod 10) ltac:(apply N.mod_lt; lia)) as (Hd & _ & Hp).
  destruct (n <? 10)%N.
  - cbn [forallb]. now rewrite Hd, Hp.
  - rewrite dec_aux_app, !forallb_app. destruct (IH (n / 10)%N) as [-> ->]. cbn [forallb andb]. now rewrite Hd, Hp.
Qed.

Lemma dec_aux_val f : forall n, N.to_nat n < f -> dval 0 (dec_aux f n []) = n.
Proof.
  induction f as [|f IH]; intros n Hn; [lia|].
  cbn [dec_aux]. pose proof (digit_of (n mod 10) ltac:(apply N.mod_lt; lia)) as (_ & Hv & _).
  destruct (N.ltb_spec n 10) as [Hlt|Hge].
  - unfold dval. cbn [fold_left]. rewrite Hv. rewrite N.mod_small by exact Hlt. lia.
  - rewrite dec_aux_app. unfold dval. rewrite fold_left_app. cbn [fold_left].
    fold (dval 0 (dec_aux f (n / 10) [])). rewrite IH.
    + rewrite Hv. pose proof (N.div_mod n 10 ltac:(lia)). lia.
    + assert (n / 10 < n)%N by (apply N.div_lt; lia). lia.
Qed.

Lemma dec_nonempty n : dec n <> [].
Proof.
  unfold dec. cbn [dec_aux]. destruct (N.of_nat n <? 10)%N; [discriminate|].
  rewrite dec_aux_app. intros H. apply app_eq_nil in H as [_ H]. discriminate.
Qed.

Lemma dec_digits n : forallb is_digit (dec n) = true.
Proof. apply dec_aux_digits. Qed.

Lemma dec_plain n : forallb plain_byte (dec n) = true.
Proof. apply dec_aux_digits. Qed.

Lemma dec_val n : dval 0 (dec n) = N.of_nat n.
Proof. apply dec_aux_val. lia. Qed.

Lemma tokp_dec n : tokp (dec n).
Proof. apply tokp_plain; [apply dec_nonempty|apply dec_plain]. Qed.

(** ---- literals ---- *)

Lemma nn_litnum ds : forall b v d, forallb is_digit ds = true ->
  nn (LitNum b v, d) ds = Some (LitNum (started b ds) (dval v ds), d).
Proof.
  induction ds as [|c ds IH]; intros b v d H; [reflexivity|].
  cbn [forallb] in H. apply andb_true_iff in H as [Hc Hds].
  cbn [nn neutral step]. rewrite Hc. cbn [badish fst]. rewrite IH by exact Hds.
  cbn [started]. unfold dval. cbn [fold_left]. destruct ds; reflexivity.
Qed.

Lemma nn_litdata p : forall d, p <> [] -> nn (LitData (N.of_nat (length p)), d) p = Some (Norm, d).
Proof.
  induction p as [|c p IH]; intros d Hne; [congruence|].
  cbn [nn neutral step]. destruct p as [|c' p].
  - reflexivity.
  - destruct (N.leb_spec (N.of_nat (length (c :: c' :: p))) 1) as [Hle|Hgt].
    + cbn [length] in Hle. lia.
    + cbn [badish fst].
      replace (N.of_nat (length (c :: c' :: p)) - 1)%N with (N.of_nat (length (c' :: p)))
        by (cbn [length]; lia).
      apply IH. discriminate.
Qed.

Lemma nn_lit_text p d : nn (LitNum false 0, d) (dec (length p) ++ [RB] ++ crlf ++ p) = Some (Norm, d).
Proof.
  rewrite (nn_app _ _ _ _ (nn_litnum _ false 0%N d (dec_digits _))).
  rewrite dec_val.
  assert (Hs : started false (dec (length p)) = true).
  { pose proof (dec_nonempty (length p)). destruct (dec (length p)); [congruence|reflexivity]. }
  rewrite Hs. cbn [app nn neutral step crlf].
  change (is_digit RB) with false. cbn iota.
  change (Ascii.eqb RB RB && true) with true. cbn iota. cbn [badish fst].
  change (Ascii.eqb CR CR) with true. cbn iota. cbn [badish fst].
  change (Ascii.eqb LF LF) with true. cbn iota.
  destruct p as [|c p].
  - reflexivity.
  - destruct (N.eqb_spec (N.of_nat (length (c :: p))) 0) as [E|E]; [cbn [length] in E; lia|].
    cbn [badish fst]. apply nn_litdata. discriminate.
Qed.

Lemma tokp_lit_text p : tokp (lit_text p).
Proof.
  split; [discriminate|]. unfold lit_text. cbn [app nosplit].
  change (boundary (Norm, 0) 0 && false && is_sep LB) with false. cbn iota.
  change (step (Norm, 0) LB) with (LitNum false 0, 0). cbn [badish fst].
  change (br_step (Norm, 0) 0 LB) with 0.
  apply nn_nosplit, nn_lit_text.
Qed.

(** ---- QuoteOrNIL ---- *)

Definition esc1 (c : ascii) : str :=
  if Ascii.eqb c BSL then [BSL; BSL] else if Ascii.eqb c DQ then [BSL; DQ] else [c].

Lemma escape_cons c s : escape (c :: s) = esc1 c ++ escape s.
Proof.
  unfold escape, replace_byte, esc1. cbn [flat_map]. rewrite flat_map_app.
  f_equal. destruct (Ascii.eqb_spec c BSL) as [->|Hb]; [reflexivity|].
  cbn [flat_map]. destruct (Ascii.eqb c DQ); now rewrite app_nil_r.
Qed.

Lemma clean_cons c s : clean (c :: s) = true ->
  Ascii.eqb c CR = false /\ Ascii.eqb c LF = false /\ clean s = true.
Proof.
  unfold clean. cbn [forallb]. intros H. apply andb_true_iff in H as [H Hs].
  apply andb_true_iff in H as [H1 H2]. apply negb_true_iff in H1, H2. auto.
Qed.

Lemma nn_quoted s : forall d, clean s = true -> nn (Quo, d) (escape s ++ [DQ]) = Some (Norm, d).
Proof.
  induction s as [|c s IH]; intros d H; [reflexivity|].
  apply clean_cons in H as (Hcr & Hlf & Hs).
  rewrite escape_cons, <- app_assoc. unfold esc1.
  destruct (Ascii.eqb_spec c BSL) as [->|Hb].
  - cbn [app nn neutral step]. change (Ascii.eqb BSL DQ) with false. cbn iota.
    change (Ascii.eqb BSL BSL) with true. cbn iota. cbn [badish fst orb].
    apply IH, Hs.
  - destruct (Ascii.eqb_spec c DQ) as [->|Hq].
    + cbn [app nn neutral step]. change (Ascii.eqb BSL DQ) with false. cbn iota.
      change (Ascii.eqb BSL BSL) with true. cbn iota. cbn [badish fst].
      change (Ascii.eqb DQ DQ) with true. cbn [orb]. cbn iota. cbn [badish fst].
      apply IH, Hs.
    + cbn [app nn neutral step].
      apply Ascii.eqb_neq in Hb, Hq. rewrite Hq, Hb, Hcr, Hlf. cbn [orb]. cbn iota. cbn [badish fst].
      apply IH, Hs.
Qed.

Lemma tokp_NIL : tokp NIL.
Proof. apply tokp_plain; [discriminate|reflexivity]. Qed.

Lemma tokp_quote_or_nil s : clean s = true -> tokp (quote_or_nil s).
Proof.
  intros H. destruct s as [|c s]; [apply tokp_NIL|].
  unfold quote_or_nil. rewrite H. split; [discriminate|].
  cbn [nosplit]. change (boundary (Norm, 0) 0 && false && is_sep DQ) with false. cbn iota.
  change (step (Norm, 0) DQ) with (Quo, 0). cbn [badish fst].
  change (br_step (Norm, 0) 0 DQ) with 0.
  apply nn_nosplit, nn_quoted, H.
Qed.

(** QuoteOrNIL of ANY string is one token: NIL, a quoted string, or (when the
    string contains CR or LF) a literal *)
Lemma tokp_quote_or_nil_any s : tokp (quote_or_nil s).
Proof.
  destruct (clean s) eqn:E; [now apply tokp_quote_or_nil|].
  destruct s as [|c s]; [apply tokp_NIL|]. unfold quote_or_nil. rewrite E. apply tokp_lit_text.
Qed.

Lemma unescape_escape s : unescape (escape s) = s.
Proof.
  induction s as [|c s IH]; [reflexivity|].
  rewrite escape_cons. unfold esc1.
  destruct (Ascii.eqb_spec c BSL) as [->|Hb].
  - cbn [app unescape]. change (Ascii.eqb BSL BSL) with true. cbn iota. now rewrite IH.
  - destruct (Ascii.eqb_spec c DQ) as [->|Hq].
    + cbn [app unescape]. change (Ascii.eqb BSL BSL) with true. cbn iota. now rewrite IH.
    + cbn [app]. destruct (escape s) as [|e es] eqn:E.
      * cbn in IH. subst s. reflexivity.
      * change (unescape (c :: e :: es)) with (if Ascii.eqb c BSL then e :: unescape es else c :: unescape (e :: es)).
        apply Ascii.eqb_neq in Hb. rewrite Hb. now rewrite IH.
Qed.

Lemma unquote_quote s : s <> [] -> clean s = true -> unquote (quote_or_nil s) = Some s.
Proof.
  intros Hne Hc. destruct s as [|c s]; [congruence|].
  unfold quote_or_nil. rewrite Hc. unfold unquote. change (Ascii.eqb DQ DQ) with true. cbn iota.
  rewrite rev_app_distr. cbn [rev app]. change (Ascii.eqb DQ DQ) with true. cbn iota.
  now rewrite rev_involutive, unescape_escape.
Qed.

(** ---- item names with a section: atom "[" section "]" atom ---- *)

(** bytes of a section specification without parentheses: atom bytes and SP *)
Definition sec_byte (c : ascii) : bool := plain_byte c || Ascii.eqb c SP.

Lemma nosplit_sec sec : forall br b, forallb sec_byte sec = true ->
  nosplit (Norm, 0) (S br) b sec = Some ((Norm, 0), S br).
Proof.
  induction sec as [|c sec IH]; intros br b H; [reflexivity|].
  cbn [forallb] in H. apply andb_true_iff in H as [Hc Hs].
  cbn [nosplit]. change (boundary (Norm, 0) (S br)) with false. cbn [andb]. cbn iota.
  unfold sec_byte in Hc. apply orb_true_iff in Hc as [Hc|Hc].
  - destruct (step_plain 0 c Hc) as (E & _ & Hbr). rewrite E, Hbr. cbn [badish fst]. now apply IH.
  - apply Ascii.eqb_eq in Hc. subst c. change (step (Norm, 0) SP) with (Norm, 0).
    change (br_step (Norm, 0) (S br) SP) with (S br). cbn [badish fst]. now apply IH.
Qed.

Lemma tokp_section a sec z :
  a <> [] -> forallb plain_byte a = true -> forallb sec_byte sec = true -> forallb plain_byte z = true ->
  tokp (a ++ [LSB] ++ sec ++ [RSB] ++ z).
Proof.
  intros Hne Ha Hs Hz. split; [destruct a; [congruence|discriminate]|].
  rewrite (nosplit_app a _ _ _ _ _ _ (nosplit_plain a 0 0 false Ha)).
  cbn [app nosplit]. destruct a as [|a0 a]; [congruence|]. cbn [started].
  change (boundary (Norm, 0) 0 && true && is_sep LSB) with false. cbn iota.
  change (step (Norm, 0) LSB) with (Norm, 0). cbn [badish fst].
  change (br_step (Norm, 0) 0 LSB) with 1.
  rewrite (nosplit_app sec _ _ _ _ _ _ (nosplit_sec sec 0 true Hs)).
  cbn [app nosplit]. change (boundary (Norm, 0) 1) with false. cbn [andb]. cbn iota.
  change (step (Norm, 0) RSB) with (Norm, 0). cbn [badish fst].
  change (br_step (Norm, 0) 1 RSB) with 0.
  apply nosplit_plain, Hz.
Qed.
