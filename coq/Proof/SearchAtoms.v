(** C19 — the atoms of the evaluator on printed keys: flag tests on the joined
    flag string, numerals, sequence sets, dates. *)
From Coq Require Import String Ascii List Bool Arith NArith ZArith Lia.
From Raven Require Import Base.GoStr Base.GoStrFacts Model.Search Spec.Search Model.SearchClass Proof.SearchTok.
Import ListNotations.
Local Open Scope Z_scope.
Local Arguments Ascii.eqb : simpl never.

(** ** strings.Contains on a joined list *)
Lemma contains_cons c s w : contains (c :: s) w = has_prefix (c :: s) w || contains s w.
Proof.
  unfold contains. cbn [index]. destruct (has_prefix (c :: s) w); [reflexivity|].
  destruct (index s w); reflexivity.
Qed.

Lemma contains_nil w : w <> [] -> contains [] w = false.
Proof. destruct w; [congruence | reflexivity]. Qed.

Lemma has_prefix_contains s w : has_prefix s w = true -> contains s w = true.
Proof. intros H. unfold contains. destruct s; cbn [index]; now rewrite H. Qed.

Lemma contains_refl w : contains w w = true.
Proof. apply has_prefix_contains. rewrite <- (app_nil_r w) at 1. apply has_prefix_app. Qed.

Definition no_sp (w : str) : bool := negb (existsb (Ascii.eqb sp) w).

Lemma hp_sep w : forall f rest, no_sp w = true -> has_prefix (f ++ sp :: rest) w = has_prefix f w.
Proof.
  induction w as [|c w IH]; intros f rest H; [reflexivity|].
  unfold no_sp in H. simpl in H. apply negb_true_iff, orb_false_iff in H as [H1 H2].
  destruct f as [|d f]; simpl.
  - rewrite Ascii.eqb_sym, H1. reflexivity.
  - rewrite IH; [reflexivity|]. unfold no_sp. now rewrite H2.
Qed.

Lemma contains_sep w f rest : w <> [] -> no_sp w = true ->
  contains (f ++ sp :: rest) w = contains f w || contains rest w.
Proof.
  intros Hne Hsp. induction f as [|c f IH].
  - simpl app. rewrite contains_cons. pose proof (hp_sep w [] rest Hsp) as E. simpl app in E. rewrite E.
    rewrite (contains_nil w Hne). destruct w; [congruence | reflexivity].
  - simpl app. rewrite !contains_cons. rewrite IH.
    change (c :: f ++ sp :: rest) with ((c :: f) ++ sp :: rest). rewrite (hp_sep w (c :: f) rest Hsp).
    now rewrite orb_assoc.
Qed.

Lemma contains_join w fs : w <> [] -> no_sp w = true ->
  contains (join fs [sp]) w = existsb (fun f => contains f w) fs.
Proof.
  intros Hne Hsp. induction fs as [|f fs IH]; [now apply contains_nil|].
  destruct fs as [|g fs].
  - simpl. now rewrite orb_false_r.
  - change (join (f :: g :: fs) [sp]) with (f ++ sp :: join (g :: fs) [sp]).
    rewrite contains_sep by assumption. rewrite IH. reflexivity.
Qed.

(** the flag test of the evaluator is membership, when no flag of the message
    properly contains the searched one *)
Lemma flag_test w fs : w <> [] -> no_sp w = true ->
  forallb (fun f => negb (contains f w) || str_eqb f w) fs = true ->
  contains (join fs [sp]) w = existsb (str_eqb w) fs.
Proof.
  intros Hne Hsp H. rewrite contains_join by assumption.
  induction fs as [|f fs IH]; [reflexivity|].
  simpl in H. apply andb_true_iff in H as [H1 H2]. simpl. rewrite IH by exact H2. f_equal.
  destruct (str_eqb_spec w f) as [->|N]; [apply contains_refl|].
  destruct (contains f w); [|reflexivity]. simpl in H1. apply str_eqb_eq in H1. congruence.
Qed.

(** ** message.hasFlag on the joined flag string (fix 378938d): strings.Fields
    gives back the flags of a well-formed view, so the test is set membership *)
Lemma flag_cmp_agree a b : flag_eqb a b = flag_same a b.
Proof. reflexivity. Qed.

Lemma fields_aux_tok t : forall s cur, forallb (fun c => negb (is_space c)) t = true ->
  fields_aux (t ++ s) cur = fields_aux s (rev t ++ cur).
Proof.
  induction t as [|c t IH]; intros s cur H; [reflexivity|].
  cbn [forallb] in H. apply andb_true_iff in H as [H1 H2]. apply negb_true_iff in H1.
  cbn [app fields_aux]. rewrite H1. rewrite IH by exact H2. cbn [rev]. now rewrite <- app_assoc.
Qed.

Lemma flag_ok_inv f : flag_ok f = true -> f <> [] /\ forallb (fun c => negb (is_space c)) f = true.
Proof. unfold flag_ok. destruct f; [discriminate|]. intros H. split; [discriminate | exact H]. Qed.

Lemma rev_rev_cons (f : str) : f <> [] -> exists c r, rev f = c :: r.
Proof.
  intros N. destruct (rev f) eqn:E; [|eauto].
  apply (f_equal (@rev _)) in E. rewrite rev_involutive in E. now subst.
Qed.

Lemma fields_join fs : forallb flag_ok fs = true -> fields (join fs [sp]) = fs.
Proof.
  unfold fields. induction fs as [|f fs IH]; intros H; [reflexivity|].
  cbn [forallb] in H. apply andb_true_iff in H as [Hf H]. destruct (flag_ok_inv f Hf) as [Hne Hsp].
  destruct (rev_rev_cons f Hne) as (c & r & E).
  destruct fs as [|g fs].
  - cbn [join]. rewrite <- (app_nil_r f) at 1. rewrite fields_aux_tok by exact Hsp. rewrite app_nil_r.
    cbn [fields_aux]. rewrite E, <- E, rev_involutive. reflexivity.
  - change (join (f :: g :: fs) [sp]) with (f ++ sp :: join (g :: fs) [sp]).
    rewrite fields_aux_tok by exact Hsp. rewrite app_nil_r. cbn [fields_aux].
    replace (is_space sp) with true by reflexivity. rewrite E, <- E, rev_involutive.
    f_equal. now apply IH.
Qed.

Lemma flag_test_go fs w : forallb flag_ok fs = true ->
  has_flag_go (join fs [sp]) w = existsb (fun g => flag_same g w) fs.
Proof.
  intros H. unfold has_flag_go. rewrite (fields_join fs H). clear H.
  induction fs as [|a l IH']; [reflexivity|]. cbn [existsb]. now rewrite flag_cmp_agree, IH'.
Qed.

(** ** numerals *)
Lemma digit_facts c : is_digit c = true ->
  Ascii.eqb c "-"%char = false /\ Ascii.eqb c "+"%char = false /\ Ascii.eqb c star = false
  /\ Ascii.eqb c colon = false /\ is_lower c = false /\ is_upper c = false /\ is_space c = false
  /\ Ascii.eqb c dq = false /\ Ascii.eqb c lpar = false /\ Ascii.eqb c rpar = false.
Proof.
  intros H.
  assert (K : negb (is_digit c) || (negb (Ascii.eqb c "-"%char) && negb (Ascii.eqb c "+"%char) && negb (Ascii.eqb c star)
              && negb (Ascii.eqb c colon) && negb (is_lower c) && negb (is_upper c) && negb (is_space c)
              && negb (Ascii.eqb c dq) && negb (Ascii.eqb c lpar) && negb (Ascii.eqb c rpar)) = true).
  { clear H. revert c. ascii_sweep (fun c => negb (is_digit c) || (negb (Ascii.eqb c "-"%char) && negb (Ascii.eqb c "+"%char) && negb (Ascii.eqb c star)
              && negb (Ascii.eqb c colon) && negb (is_lower c) && negb (is_upper c) && negb (is_space c)
              && negb (Ascii.eqb c dq) && negb (Ascii.eqb c lpar) && negb (Ascii.eqb c rpar))). }
  rewrite H in K. simpl in K. repeat (apply andb_true_iff in K as [K ?]).
  repeat match goal with X : negb _ = true |- _ => apply negb_true_iff in X end.
  repeat split; assumption.
Qed.

Lemma two32_le_max v : v < two32 -> v <= max_int64.
Proof. unfold two32, max_int64. lia. Qed.

Lemma atoi_numeral d : numeral_ok d = true -> atoi d = Some (digits_val d 0).
Proof.
  unfold numeral_ok. destruct d as [|c d]; [discriminate|]. intros H.
  apply andb_true_iff in H as [Hd Hv]. apply Z.ltb_lt in Hv.
  assert (Hc : is_digit c = true) by (simpl in Hd; now apply andb_true_iff in Hd).
  destruct (digit_facts c Hc) as (E1 & E2 & _).
  unfold atoi. rewrite E1, E2. rewrite Hd.
  apply two32_le_max in Hv. apply Z.leb_le in Hv. now rewrite Hv.
Qed.

Lemma numeral_digits d : numeral_ok d = true -> forallb is_digit d = true /\ d <> [].
Proof. unfold numeral_ok. destruct d; [discriminate|]. intros H. apply andb_true_iff in H as [H _]. split; [exact H | discriminate]. Qed.

Lemma to_upper_nolower s : forallb (fun c => negb (is_lower c)) s = true -> to_upper s = s.
Proof.
  induction s as [|c s IH]; intros H; [reflexivity|]. simpl in H. apply andb_true_iff in H as [H1 H2].
  simpl. rewrite IH by exact H2. apply negb_true_iff in H1. now rewrite (upper_c_fix c H1).
Qed.

Lemma forallb_impl {A} (P Q : A -> bool) l : (forall x, P x = true -> Q x = true) -> forallb P l = true -> forallb Q l = true.
Proof. intros I H. rewrite forallb_forall in *. auto. Qed.

Lemma digits_nolower d : forallb is_digit d = true -> forallb (fun c => negb (is_lower c)) d = true.
Proof. apply forallb_impl. intros c H. destruct (digit_facts c H) as (_ & _ & _ & _ & E & _). now rewrite E. Qed.

Lemma contains_single s c : contains s [c] = existsb (Ascii.eqb c) s.
Proof.
  induction s as [|d s IH]; [reflexivity|]. rewrite contains_cons, IH. simpl. now rewrite andb_true_r.
Qed.

Lemma digits_no_colon d : forallb is_digit d = true -> existsb (Ascii.eqb colon) d = false.
Proof.
  induction d as [|c d IH]; intros H; [reflexivity|]. simpl in H. apply andb_true_iff in H as [H1 H2].
  simpl. rewrite IH by exact H2. destruct (digit_facts c H1) as (_ & _ & _ & E & _).
  rewrite Ascii.eqb_sym, E. reflexivity.
Qed.

Lemma split_no_sep b cur : existsb (Ascii.eqb colon) b = false -> split_byte_aux b colon cur = [rev cur ++ b].
Proof.
  revert cur. induction b as [|c b IH]; intros cur H; simpl; [now rewrite app_nil_r|].
  simpl in H. apply orb_false_iff in H as [H1 H2]. rewrite Ascii.eqb_sym, H1.
  rewrite IH by exact H2. simpl. now rewrite <- app_assoc.
Qed.

Lemma split_one_sep a b cur : existsb (Ascii.eqb colon) a = false -> existsb (Ascii.eqb colon) b = false ->
  split_byte_aux (a ++ colon :: b) colon cur = [rev cur ++ a; b].
Proof.
  revert cur. induction a as [|c a IH]; intros cur Ha Hb; simpl.
  - rewrite app_nil_r. now rewrite (split_no_sep b [] Hb).
  - simpl in Ha. apply orb_false_iff in Ha as [H1 H2]. rewrite Ascii.eqb_sym, H1.
    rewrite IH by assumption. simpl. now rewrite <- app_assoc.
Qed.

