(** C05, delivery clause: corollary of C17's filing lemmas. *)
From Coq Require Import String Ascii List Bool Arith ZArith.
From Raven Require Import Base.GoStr Model.Policy Spec.Policy Proof.PolicyFacts.
Import ListNotations.

Lemma delivery_reaches_only_recipients cfg d acc m r st f :
  In (r, D_ok st f) (do_deliveries (handle_data cfg d acc m)) ->
  In r acc /\ spec_target d r = Some st.
Proof. intros H. pose proof (filed_where cfg d acc m r st f H) as K. tauto. Qed.
