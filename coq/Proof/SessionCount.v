(** C09: the observing client's message count, obtained by strictly applying
    every untagged EXISTS / EXPUNGE of its own session, equals the session's
    LastMessageCount after every command, hence the server's count at every
    NOOP boundary — for every trace of commands and arbitrary external
    changes of the mailbox, outside the three bookkeeping finding classes. *)
From Coq Require Import String Ascii List Bool Arith ZArith Lia.
From Raven Require Import Base.GoStr Base.GoStrZ Model.SeqSet Model.Expunge Model.Session
  Spec.SeqSet Spec.SeqSetFindings Spec.SessionView Proof.SeqSetStr Proof.ExpungeReplay Proof.JunkStore.
Import ListNotations.
Local Open Scope Z_scope.

Lemma nodupb_NoDup l : nodupb l = true -> NoDup l.
Proof.
  induction l as [|x l IH]; intros H; [constructor|]. cbn in H. apply andb_true_iff in H. destruct H as [H1 H2].
  constructor; [|now apply IH]. intros C. apply negb_true_iff in H1.
  assert (existsb (Z.eqb x) l = true) by (apply existsb_exists; exists x; split; [exact C | apply Z.eqb_refl]). congruence.
Qed.

Lemma cnt_replay_app a b c : cnt_replay (a ++ b) c = cnt_replay b (cnt_replay a c).
Proof. unfold cnt_replay. apply fold_left_app. Qed.

(** NOOP's generic notices are always acceptable to the client *)
Lemma cnt_count_down : forall cnt c, Z.of_nat cnt <= c ->
  cnt_replay (map NExpunge (count_down c cnt)) (Some c) = Some (c - Z.of_nat cnt).
Proof.
  induction cnt as [|n IH]; intros c H.
  - cbn. f_equal. lia.
  - rewrite Nat2Z.inj_succ in H. cbn [count_down map]. unfold cnt_replay. cbn [fold_left cnt_apply].
    replace ((1 <=? c) && (c <=? c)) with true by (symmetry; apply andb_true_iff; split; apply Z.leb_le; lia).
    fold (cnt_replay (map NExpunge (count_down (c - 1) n)) (Some (c - 1))).
    rewrite IH by lia. f_equal. lia.
Qed.

Lemma noop_count last n : 0 <= n -> 0 <= last -> cnt_replay (noop_notes last n) (Some last) = Some n.
Proof.
  intros Hn Hl. unfold noop_notes, noop_notices. destruct (last <? n) eqn:A.
  - apply Z.ltb_lt in A. replace (n <? last) with false by (symmetry; apply Z.ltb_ge; lia).
    cbn. replace (last <=? n) with true by (symmetry; apply Z.leb_le; lia). reflexivity.
  - apply Z.ltb_ge in A. cbn [app]. destruct (n <? last) eqn:B.
    + apply Z.ltb_lt in B. rewrite cnt_count_down by lia. f_equal. lia.
    + apply Z.ltb_ge in B. cbn. f_equal. lia.
Qed.

(** own EXPUNGE: every notice names a message the client has *)
Lemma cnt_idx sel last : forall l k d,
  0 <= d <= k - 1 -> within sel l k last = true -> d <= last ->
  exists j, Z.of_nat (length (idx_loop sel l k d)) = j /\ d + j <= last
            /\ cnt_replay (map NExpunge (idx_loop sel l k d)) (Some (last - d)) = Some (last - d - j).
Proof.
  induction l as [|m l IH]; intros k d Hd Hw Hl.
  - exists 0. cbn. split; [reflexivity|]. split; [lia|]. f_equal. lia.
  - cbn [within] in Hw. apply andb_true_iff in Hw. destruct Hw as [Hm Hw]. cbn [idx_loop].
    destruct (sel m) eqn:S.
    + cbn in Hm. apply Z.leb_le in Hm.
      destruct (IH (k + 1) (d + 1) ltac:(lia) Hw ltac:(lia)) as (j & Ej & Hj & R).
      exists (j + 1). cbn [length map]. rewrite Nat2Z.inj_succ, Ej. split; [lia|]. split; [lia|].
      unfold cnt_replay. cbn [fold_left cnt_apply].
      replace ((1 <=? k - d) && (k - d <=? last - d)) with true
        by (symmetry; apply andb_true_iff; split; apply Z.leb_le; lia).
      fold (cnt_replay (map NExpunge (idx_loop sel l (k + 1) (d + 1))) (Some (last - d - 1))).
      replace (last - d - 1) with (last - (d + 1)) by lia. rewrite R. f_equal. lia.
    + destruct (IH (k + 1) d ltac:(lia) Hw Hl) as (j & Ej & Hj & R). exists j. auto.
Qed.

Lemma expunge_sel_notes sel rows : NoDup (map m_id rows) -> fst (expunge_sel sel rows) = idx_loop sel rows 1 0.
Proof.
  intros Hn. pose proof (expunge_loop_idx sel 1 rows [] 0 Hn) as E. cbn [app length] in E.
  change (1 + Z.of_nat 0) with 1 in E. unfold expunge_sel. destruct (filter sel rows) eqn:F.
  - cbn [fst]. rewrite <- E. reflexivity.
  - cbn [fst]. exact E.
Qed.

Lemma expunge_sel_rows_nodup sel rows : NoDup (map m_id rows) -> NoDup (map m_id (snd (expunge_sel sel rows))).
Proof.
  intros Hn. unfold expunge_sel. destruct (filter sel rows); [exact Hn|]. cbn [snd]. unfold remove_ids.
  now apply nodup_ids_filter.
Qed.

Lemma junk_loop_nodup uids0 : forall seqs cur, NoDup (map m_id cur) ->
  NoDup (map m_id (snd (store_junk_loop uids0 seqs cur))).
Proof.
  induction seqs as [|s r IH]; intros cur Hn; [exact Hn|]. cbn [store_junk_loop].
  destruct (s >? Z.of_nat (length uids0)); [now apply IH|].
  destruct (find _ cur) as [m|]; [|now apply IH].
  specialize (IH (remove_ids [m_id m] cur) (nodup_ids_filter _ _ Hn)).
  destruct (store_junk_loop uids0 r (remove_ids [m_id m] cur)) as [[ns ids] mb]. exact IH.
Qed.

Lemma expunge_step_count sel rows last :
  NoDup (map m_id rows) -> 0 <= last -> within sel rows 1 last = true ->
  let ns := fst (expunge_sel sel rows) in
  cnt_replay (map NExpunge ns) (Some last) = Some (last_after_expunge last ns) /\ 0 <= last_after_expunge last ns.
Proof.
  intros Hn Hl Hw. cbv zeta. rewrite expunge_sel_notes by exact Hn.
  destruct (cnt_idx sel last rows 1 0 ltac:(lia) Hw Hl) as (j & Ej & Hj & R).
  replace (last - 0) with last in R by lia. rewrite R. unfold last_after_expunge.
  destruct (idx_loop sel rows 1 0) as [|x l] eqn:I.
  - cbn in Ej. subst j. split; [f_equal; lia | exact Hl].
  - rewrite Ej. replace (last - j <? 0) with false by (symmetry; apply Z.ltb_ge; lia).
    split; [f_equal; lia | lia].
Qed.

(** the Junk auto-move: every accepted notice takes one message off both counts *)
Lemma junk_dec : forall ns last c', 0 <= last ->
  cnt_replay (map NExpunge ns) (Some last) = Some c' -> dec_each last ns = c' /\ 0 <= c'.
Proof.
  induction ns as [|k ns IH]; intros last c' Hl R.
  - cbn in R. injection R as <-. split; [reflexivity | exact Hl].
  - unfold cnt_replay in R. cbn [map fold_left cnt_apply] in R.
    destruct ((1 <=? k) && (k <=? last)) eqn:V.
    + apply andb_true_iff in V. destruct V as [V1 V2]. apply Z.leb_le in V1. apply Z.leb_le in V2.
      unfold dec_each. cbn [fold_left]. replace (0 <? last) with true by (symmetry; apply Z.ltb_lt; lia).
      apply (IH (last - 1) c' ltac:(lia)). exact R.
    + exfalso. clear -R. induction (map NExpunge ns) as [|x l IHl]; [discriminate R | exact (IHl R)].
Qed.

Definition inv (st : tstate) : Prop :=
  t_cls st = None -> t_nodup st = true ->
  t_cnt st = Some (t_last st) /\ NoDup (map m_id (t_rows st)) /\ 0 <= t_last st.

Lemma count_nonneg rows : 0 <= count_of rows.
Proof. unfold count_of. lia. Qed.

Lemma step_inv st it : inv st -> inv (trace_step st it).
Proof.
  intros I. destruct it as [rows'|c]; unfold inv; cbn [trace_step].
  - cbn [t_cls t_nodup t_cnt t_last t_rows]. intros Hc Hn. apply andb_true_iff in Hn. destruct Hn as [Hn1 Hn2].
    destruct (I Hc Hn1) as (A & _ & B). repeat split; auto. now apply nodupb_NoDup.
  - destruct (sess_step c (t_rows st) (t_last st)) as [[notes rows'] last'] eqn:S.
    cbn [t_cls t_nodup t_cnt t_last t_rows]. intros Hc Hn.
    destruct (t_cls st) eqn:C; [discriminate|]. destruct (I C Hn) as (A & N & L).
    destruct c; cbn [sess_step classify_step] in S, Hc.
    + injection S as <- <- <-. repeat split; auto. apply count_nonneg.
    + injection S as <- <- <-. rewrite A. rewrite noop_count by (auto using count_nonneg).
      repeat split; auto. apply count_nonneg.
    + injection S as <- <- <-. cbn. repeat split; auto.
    + destruct (within _ (t_rows st) 1 (t_last st)) eqn:W; [|discriminate].
      unfold handle_expunge in S.
      pose proof (expunge_step_count _ _ _ N L W) as [R1 R2].
      pose proof (expunge_sel_rows_nodup (fun m => sql_deleted (m_flags m)) _ N) as N'.
      destruct (expunge_sel _ (t_rows st)) as [ns mb]. cbn [fst snd] in *. injection S as <- <- <-.
      rewrite A. repeat split; auto.
    + unfold handle_uid_expunge in S.
      destruct (parse_uidset_db set (map m_uid (t_rows st))) as [|u us] eqn:P.
      * injection S as <- <- <-. cbn. repeat split; auto.
      * destruct (within _ (t_rows st) 1 (t_last st)) eqn:W; [|discriminate].
        pose proof (expunge_step_count _ _ _ N L W) as [R1 R2].
        pose proof (expunge_sel_rows_nodup (uid_expunge_sel (u :: us)) _ N) as N'.
        destruct (expunge_sel _ (t_rows st)) as [ns mb]. cbn [fst snd] in *. injection S as <- <- <-.
        rewrite A. repeat split; auto.
    + unfold handle_store_junk in *.
      pose proof (junk_loop_nodup (map m_uid (t_rows st)) (parse_seqset_db set (Z.of_nat (length (t_rows st)))) _ N) as N'.
      destruct (store_junk_loop _ _ (t_rows st)) as [[ns ids] mb]. cbn [fst snd] in *.
      destruct (cnt_replay (map NExpunge ns) (Some (t_last st))) as [c'|] eqn:R; [|discriminate].
      injection S as <- <- <-. rewrite A, R.
      destruct (junk_dec ns (t_last st) c' L R) as [E1 E2]. rewrite E1. repeat split; auto.
    + injection S as <- <- <-. cbn. repeat split; auto.
Qed.

Lemma fold_inv tr : forall st, inv st -> inv (fold_left trace_step tr st).
Proof. induction tr as [|it tr IH]; intros st I; [exact I|]. cbn. apply IH. now apply step_inv. Qed.

Theorem session_count_sync : forall (tr : list titem) (rows0 : list msg),
  let st := run_trace (Cmd CSelect :: tr) rows0 in
  t_cls st = None -> t_nodup st = true -> t_cnt st = Some (t_last st).
Proof.
  intros tr rows0. cbv zeta. unfold run_trace. cbn [fold_left].
  set (st1 := trace_step _ (Cmd CSelect)).
  assert (I : inv st1).
  { unfold inv, st1. cbn. intros _ Hn. repeat split; [now apply nodupb_NoDup | apply count_nonneg]. }
  intros Hc Hn. now destruct (fold_inv tr st1 I Hc Hn).
Qed.

(** at a NOOP boundary the client's count is the server's count *)
Theorem noop_boundary_count : forall (tr : list titem) (rows0 : list msg),
  let st := run_trace (Cmd CSelect :: tr ++ [Cmd CNoop]) rows0 in
  t_cls st = None -> t_nodup st = true -> t_cnt st = Some (count_of (t_rows st)).
Proof.
  intros tr rows0. cbv zeta. intros Hc Hn.
  pose proof (session_count_sync (tr ++ [Cmd CNoop]) rows0 Hc Hn) as E. rewrite E. f_equal.
  unfold run_trace. rewrite app_comm_cons, fold_left_app. cbn [fold_left trace_step sess_step t_last t_rows]. reflexivity.
Qed.
