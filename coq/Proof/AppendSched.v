(** C03 — for EVERY interleaving of other writers' committed commands between
    the statements of an APPEND, the UID announced by APPENDUID is the UID of
    the row the APPEND inserted. *)
From Coq Require Import String Ascii List Bool ZArith Lia.
From Raven Require Import Base.GoStr Model.Store Model.Ops Spec.UidSpec Model.UidView Model.AppendSched Proof.StoreInv Proof.OpsInv Proof.UidHist.
Import ListNotations.
Local Open Scope Z_scope.

(** what a command of another writer may do to table message_mailbox, as far as
    the rows of mailbox [mb] are concerned *)
Definition pres (f : link -> link) : Prop :=
  forall l, lk_msg (f l) = lk_msg l /\ lk_mbox (f l) = lk_mbox l /\ lk_uid (f l) = lk_uid l /\ lk_gid (f l) = lk_gid l.

Inductive LStep (mb : Z) : store -> store -> Prop :=
| LS_same s s' : links s' = links s -> next_msg s <= next_msg s' -> LStep mb s s'
| LS_fresh s s' l : links s' = links s ++ [l] -> lk_msg l = next_msg s -> next_msg s' = next_msg s + 1 -> LStep mb s s'
| LS_copy s s' l : links s' = links s ++ [l] -> next_msg s' = next_msg s ->
                   (exists l0, In l0 (links s) /\ lk_msg l0 = lk_msg l) -> LStep mb s s'
| LS_map s s' f : links s' = map f (links s) -> pres f -> next_msg s' = next_msg s -> LStep mb s s'
| LS_del s s' q : links s' = filter q (links s) -> (forall l, lk_mbox l = mb -> q l = true) ->
                  next_msg s' = next_msg s -> LStep mb s s'
| LS_trans s1 s2 s3 : LStep mb s1 s2 -> LStep mb s2 s3 -> LStep mb s1 s3.

Lemma LS_refl mb s : LStep mb s s.
Proof. apply LS_same; [reflexivity | lia]. Qed.

(** ---- invariants along the other writers' steps ------------------------------ *)

Definition MsgInv (s : store) : Prop := forall l, In l (links s) -> lk_msg l < next_msg s.
Definition NoM (M : Z) (s : store) : Prop := (forall l, In l (links s) -> lk_msg l <> M) /\ M < next_msg s.
Definition Mine (M mb uid g : Z) (s : store) : Prop :=
  exists pre l post, links s = pre ++ l :: post /\ (forall x, In x pre -> own M mb x = false) /\
                     lk_msg l = M /\ lk_mbox l = mb /\ lk_uid l = uid /\ lk_gid l = g.

Lemma MsgInv_step mb s s' : LStep mb s s' -> MsgInv s -> MsgInv s'.
Proof.
  induction 1 as [s s' E N|s s' l E Em En|s s' l E En (l0 & H0 & E0)|s s' f E P En|s s' q E Q En|s1 s2 s3 _ IH1 _ IH2];
    intros I; unfold MsgInv in *.
  - rewrite E. intros l Hl. specialize (I l Hl). lia.
  - rewrite E. intros x Hx. apply in_app_or in Hx. destruct Hx as [Hx|[<-|[]]]; [specialize (I x Hx)|]; lia.
  - rewrite E, En. intros x Hx. apply in_app_or in Hx. destruct Hx as [Hx|[<-|[]]]; auto.
    rewrite <- E0. auto.
  - rewrite E, En. intros x Hx. apply in_map_iff in Hx. destruct Hx as (y & <- & Hy).
    destruct (P y) as (-> & _). auto.
  - rewrite E, En. intros x Hx. apply filter_In in Hx. apply I. tauto.
  - auto.
Qed.

Lemma NoM_step M mb s s' : LStep mb s s' -> NoM M s -> NoM M s'.
Proof.
  induction 1 as [s s' E N|s s' l E Em En|s s' l E En (l0 & H0 & E0)|s s' f E P En|s s' q E Q En|s1 s2 s3 _ IH1 _ IH2];
    intros [A B]; unfold NoM in *.
  - rewrite E. split; [exact A | lia].
  - rewrite E. split; [|lia]. intros x Hx. apply in_app_or in Hx. destruct Hx as [Hx|[<-|[]]]; [exact (A x Hx) | lia].
  - rewrite E, En. split; [|exact B]. intros x Hx. apply in_app_or in Hx. destruct Hx as [Hx|[<-|[]]]; [exact (A x Hx)|].
    rewrite <- E0. exact (A l0 H0).
  - rewrite E, En. split; [|exact B]. intros x Hx. apply in_map_iff in Hx. destruct Hx as (y & <- & Hy).
    destruct (P y) as (-> & _). exact (A y Hy).
  - rewrite E, En. split; [|exact B]. intros x Hx. apply filter_In in Hx. apply A. tauto.
  - auto.
Qed.

Lemma own_pres M mb f l : pres f -> own M mb (f l) = own M mb l.
Proof. intros P. unfold own. destruct (P l) as (-> & -> & _). reflexivity. Qed.

Lemma Mine_step M mb uid g s s' : LStep mb s s' -> Mine M mb uid g s -> Mine M mb uid g s'.
Proof.
  induction 1 as [s s' E N|s s' x E Em En|s s' x E En _|s s' f E P En|s s' q E Q En|s1 s2 s3 _ IH1 _ IH2];
    intros (pre & l & post & El & Hp & A1 & A2 & A3 & A4); unfold Mine.
  - exists pre, l, post. rewrite E. repeat split; auto.
  - exists pre, l, (post ++ [x]). rewrite E, El, <- app_assoc. simpl. repeat split; auto.
  - exists pre, l, (post ++ [x]). rewrite E, El, <- app_assoc. simpl. repeat split; auto.
  - exists (map f pre), (f l), (map f post). rewrite E, El, map_app. simpl.
    destruct (P l) as (B1 & B2 & B3 & B4). repeat split; try congruence.
    intros y Hy. apply in_map_iff in Hy. destruct Hy as (z & <- & Hz). rewrite own_pres; auto.
  - exists (filter q pre), l, (filter q post). rewrite E, El, filter_app. simpl. rewrite (Q l A2).
    repeat split; auto. intros y Hy. apply filter_In in Hy. apply Hp. tauto.
  - apply IH2, IH1. exists pre, l, post. repeat split; auto.
Qed.

Lemma Mine_find M mb uid g s : Mine M mb uid g s ->
  exists l, find (own M mb) (links s) = Some l /\ In l (links s) /\
            lk_msg l = M /\ lk_mbox l = mb /\ lk_uid l = uid /\ lk_gid l = g.
Proof.
  intros (pre & l & post & El & Hp & A1 & A2 & A3 & A4). exists l. rewrite El. split.
  - clear El. induction pre as [|a pre IH]; simpl.
    + unfold own. rewrite A1, A2, !Z.eqb_refl. reflexivity.
    + rewrite (Hp a (or_introl eq_refl)). apply IH. intros x Hx. apply Hp. now right.
  - split; [apply in_or_app; right; now left | auto].
Qed.

(** ---- every command of another writer is an [LStep] --------------------------- *)

Lemma insert_link_shape s msg mb' u fl s' : insert_link s msg mb' u fl = Some s' ->
  links s' = links s ++ [mkLink (fresh_id (map lk_id (links s))) msg mb' u fl (gser s)] /\
  next_msg s' = next_msg s /\ mboxes s' = mboxes s.
Proof. unfold insert_link. destruct (existsb _ _); [discriminate|]. intros [= <-]. auto. Qed.

Lemma insert_copy_LStep mb s msg mb' u fl s' :
  insert_link s msg mb' u fl = Some s' -> (exists l0, In l0 (links s) /\ lk_msg l0 = msg) -> LStep mb s s'.
Proof.
  intros H Hc. apply insert_link_shape in H. destruct H as (E & En & _).
  eapply LS_copy; eauto.
Qed.

Lemma set_next_LStep mb s d n : LStep mb s (set_next s d n).
Proof. apply LS_same; simpl; [reflexivity | lia]. Qed.

Lemma add_message_fresh_LStep mb s0 id fl :
  LStep mb s0 (fst (add_message (fst (store_message s0)) (next_msg s0) id fl)).
Proof.
  unfold add_message, store_message. simpl.
  set (s1 := mkStore (mboxes s0) (links s0) (next_msg s0 + 1) (glog s0) (gused s0) (gser s0)).
  destruct (find_id s1 id) as [m|]; simpl.
  - destruct (insert_link (bump s1 id) (next_msg s0) id (mb_next m) fl) as [s2|] eqn:E; simpl.
    + apply insert_link_shape in E. destruct E as (E & En & _). simpl in *.
      eapply LS_fresh; eauto.
    + apply LS_same; simpl; [reflexivity | lia].
  - apply LS_same; simpl; [reflexivity | lia].
Qed.

Lemma op_append_LStep mb s f fl : LStep mb s (fst (op_append s f fl)).
Proof.
  unfold op_append. destruct (find_name s f) as [m|]; [|apply LS_refl].
  pose proof (add_message_fresh_LStep mb s (mb_id m) fl) as K.
  unfold store_message in *. simpl in *.
  destruct (add_message _ (next_msg s) (mb_id m) fl) as [s2 ok]. simpl in K.
  destruct ok; exact K.
Qed.

Lemma create_row_LStep mb s n t s' id : create_mailbox_row s n t = Some (s', id) -> LStep mb s s'.
Proof.
  unfold create_mailbox_row. destruct n; [discriminate|]. destruct (find_name s _); [discriminate|].
  intros [= <- <-]. apply LS_same; simpl; [reflexivity | lia].
Qed.

Lemma op_deliver_LStep mb s f t : LStep mb s (fst (op_deliver s f t)).
Proof.
  unfold op_deliver.
  assert (K : forall s1 id, LStep mb s1 (fst (let '(s2, msg) := store_message s1 in
             let '(s3, ok) := add_message s2 msg id [] in (s3, if ok then ROk else RNo)))).
  { intros s1 id. pose proof (add_message_fresh_LStep mb s1 id []) as K.
    unfold store_message in *. simpl in *.
    destruct (add_message _ (next_msg s1) id []) as [s3 ok]. exact K. }
  destruct (find_name s f) as [m|].
  - apply K.
  - destruct (create_mailbox_row s f t) as [[s' id]|] eqn:C; [|apply LS_refl].
    eapply LS_trans; [eapply create_row_LStep; eauto | apply K].
Qed.

Lemma find_link_in s mb' u l : find_link s mb' u = Some l -> In l (links s).
Proof. unfold find_link. intros H. apply find_some in H. tauto. Qed.

Lemma uidcopy_loop_LStep mb uids : forall s sel dest next s',
  uidcopy_loop s sel dest uids next = Some s' -> LStep mb s s'.
Proof.
  induction uids as [|u r IH]; simpl; intros s sel dest next s' H.
  - injection H as <-. apply set_next_LStep.
  - destruct (find_link s sel u) as [l|] eqn:F; [|eauto].
    destruct (insert_link s (lk_msg l) dest next (add_recent (lk_flags l))) as [s1|] eqn:E; [|discriminate].
    eapply LS_trans; [|eapply IH; eauto].
    eapply insert_copy_LStep; eauto. exists l. split; [eapply find_link_in; eauto | reflexivity].
Qed.

Lemma ins_by_uid_in x l ls : In x (ins_by_uid l ls) -> x = l \/ In x ls.
Proof.
  induction ls as [|a ls IH]; simpl; [intuition (subst; auto)|].
  destruct (lk_uid l <=? lk_uid a); simpl; [intuition (subst; auto)|].
  intros [->|H]; [right; left; reflexivity|]. destruct (IH H); tauto.
Qed.

Lemma sort_by_uid_in x ls : In x (sort_by_uid ls) -> In x ls.
Proof.
  induction ls as [|a ls IH]; simpl; [tauto|]. intros H. apply ins_by_uid_in in H.
  destruct H as [->|H]; [now left | right; auto].
Qed.

Lemma copy_loop_LStep mb seqs : forall s sel dest next s',
  copy_loop s sel dest seqs next = Some s' -> LStep mb s s'.
Proof.
  induction seqs as [|n r IH]; simpl; intros s sel dest next s' H.
  - injection H as <-. apply set_next_LStep.
  - destruct (nth_error (links_sorted s sel) (Z.to_nat (n - 1))) as [l|] eqn:F; [|discriminate].
    destruct (insert_link s (lk_msg l) dest next (add_recent (lk_flags l))) as [s1|] eqn:E; [|discriminate].
    eapply LS_trans; [|eapply IH; eauto].
    eapply insert_copy_LStep; eauto. exists l. split; [|reflexivity].
    apply nth_error_In in F. unfold links_sorted in F. apply sort_by_uid_in in F.
    unfold links_in in F. apply filter_In in F. tauto.
Qed.

Lemma op_uidcopy_LStep mb s sel set d : LStep mb s (fst (op_uidcopy s sel set d)).
Proof.
  unfold op_uidcopy. destruct (resolve_uids s sel set); [apply LS_refl|].
  destruct (find_name s d) as [m|]; [|apply LS_refl].
  destruct (uidcopy_loop s sel (mb_id m) _ (mb_next m)) eqn:E; [|apply LS_refl].
  simpl. eapply uidcopy_loop_LStep; eauto.
Qed.

Lemma op_copy_LStep mb s sel set d : LStep mb s (fst (op_copy s sel set d)).
Proof.
  unfold op_copy. destruct (resolve_seqs s sel set); [apply LS_refl|].
  destruct (find_name s d) as [m|]; [|apply LS_refl].
  destruct (copy_loop s sel (mb_id m) _ (mb_next m)) eqn:E; [|apply LS_refl].
  simpl. eapply copy_loop_LStep; eauto.
Qed.

Lemma set_flags_LStep mb s mb' u fl : LStep mb s (set_flags s mb' u fl).
Proof.
  eapply LS_map with (f := fun l => if at_uid mb' u l
      then mkLink (lk_id l) (lk_msg l) (lk_mbox l) (lk_uid l) fl (lk_gid l) else l); simpl; auto.
  intros l. destruct (at_uid mb' u l); simpl; auto.
Qed.

Lemma move_message_LStep mb s msg src su d fl :
  src <> mb -> (exists l0, In l0 (links s) /\ lk_msg l0 = msg) ->
  LStep mb s (fst (move_message s msg src su d fl)).
Proof.
  intros Hs Hc. unfold move_message. destruct (find_name s d) as [m|]; [|apply LS_refl].
  destruct (mb_id m =? src); [apply LS_refl|].
  destruct (insert_link s msg (mb_id m) (mb_next m) fl) as [s1|] eqn:E; [|apply LS_refl].
  simpl. eapply LS_trans; [eapply insert_copy_LStep; eauto|].
  eapply LS_trans; [apply (set_next_LStep mb s1 (mb_id m) (mb_next m + 1))|].
  eapply LS_del with (q := fun l => negb (at_uid src su l)); simpl; auto.
  intros l El. unfold at_uid. rewrite El. destruct (mb =? src) eqn:X; [apply Z.eqb_eq in X; congruence | reflexivity].
Qed.

Lemma uidstore_one_LStep mb s sel mode new u : sel <> mb -> LStep mb s (uidstore_one s sel mode new u).
Proof.
  intros Hs. unfold uidstore_one. destruct (find_link s sel u) as [l|] eqn:F; [|apply LS_refl].
  assert (Hc : exists l0, In l0 (links s) /\ lk_msg l0 = lk_msg l).
  { exists l. split; [eapply find_link_in; eauto | reflexivity]. }
  destruct (negb (fmem JUNK (lk_flags l)) && fmem JUNK (calc_flags (lk_flags l) new mode)).
  - pose proof (move_message_LStep mb s (lk_msg l) sel u SPAM (fremove NONJUNK (calc_flags (lk_flags l) new mode)) Hs Hc) as K.
    destruct (move_message s (lk_msg l) sel u SPAM _) as [s1 ok]. destruct ok; [exact K | apply set_flags_LStep].
  - destruct (negb (fmem NONJUNK (lk_flags l)) && fmem NONJUNK (calc_flags (lk_flags l) new mode)).
    + pose proof (move_message_LStep mb s (lk_msg l) sel u INBOX (fremove JUNK (calc_flags (lk_flags l) new mode)) Hs Hc) as K.
      destruct (move_message s (lk_msg l) sel u INBOX _) as [s1 ok]. destruct ok; [exact K | apply set_flags_LStep].
    + apply set_flags_LStep.
Qed.

Lemma uidstore_fold_LStep mb sel mode new uids : sel <> mb -> forall s,
  LStep mb s (fold_left (fun s' u => uidstore_one s' sel mode new u) uids s).
Proof.
  intros Hs. induction uids as [|u r IH]; simpl; intros s; [apply LS_refl|].
  apply (LS_trans mb s (uidstore_one s sel mode new u)); [apply uidstore_one_LStep; exact Hs | apply IH].
Qed.

Lemma writer_LStep mb s o : writer_ok mb o = true -> LStep mb s (fst (step s o)).
Proof.
  destruct o; simpl; try discriminate; intros W.
  - apply op_deliver_LStep.
  - apply op_append_LStep.
  - apply op_uidcopy_LStep.
  - apply op_copy_LStep.
  - unfold op_uidstore. simpl. apply uidstore_fold_LStep.
    apply negb_true_iff in W. now apply Z.eqb_neq in W.
Qed.

Lemma run_LStep mb e : Forall (fun o => writer_ok mb o = true) e -> forall s, LStep mb s (run e s).
Proof.
  induction 1 as [|o e W _ IH]; intros s; [apply LS_refl|].
  change (run (o :: e) s) with (run e (fst (step s o))).
  apply (LS_trans mb s (fst (step s o))); [apply writer_LStep; exact W | apply IH].
Qed.

(** ---- the theorem ------------------------------------------------------------ *)

Lemma appenduid_all_schedules_l : forall s mb fl e1 e2 e3 e4 s' v u ins,
  Inv s ->
  Forall (fun o => writer_ok mb o = true) (e1 ++ e2 ++ e3 ++ e4) ->
  append_sched_full s mb fl e1 e2 e3 e4 = (s', RAppendUid v u, ins) ->
  exists uid g l, ins = Some (uid, g) /\ u = uid /\ In l (links s') /\
                  lk_msg l = next_msg s /\ lk_mbox l = mb /\ lk_uid l = u /\ lk_gid l = g.
Proof.
  intros s mb fl e1 e2 e3 e4 s' v u ins I0 W H. pose proof (inv_msg s I0) as I.
  apply Forall_app in W. destruct W as [W1 W]. apply Forall_app in W. destruct W as [W2 W].
  apply Forall_app in W. destruct W as [W3 W4].
  unfold append_sched_full, append_sched_gen, store_message in H.
  set (M := next_msg s) in *.
  set (s0 := mkStore (mboxes s) (links s) (M + 1) (glog s) (gused s) (gser s)) in *.
  assert (N0 : NoM M s0).
  { split; simpl; [|lia]. intros l Hl. specialize (I l Hl). fold M in I. lia. }
  pose proof (NoM_step M mb _ _ (run_LStep mb e1 W1 s0) N0) as N1.
  unfold alloc_uid in H. destruct (find_id (run e1 s0) mb) as [m|]; [|discriminate].
  assert (N2 : NoM M (bump (run e1 s0) mb)) by exact N1.
  pose proof (NoM_step M mb _ _ (run_LStep mb e2 W2 _) N2) as N2'.
  destruct (insert_link (run e2 (bump (run e1 s0) mb)) M mb (mb_next m) fl) as [s3|] eqn:E; [|discriminate].
  set (s2' := run e2 (bump (run e1 s0) mb)) in *.
  apply insert_link_shape in E. destruct E as (El & _ & _).
  assert (M3 : Mine M mb (mb_next m) (gser s2') s3).
  { exists (links s2'), (mkLink (fresh_id (map lk_id (links s2'))) M mb (mb_next m) fl (gser s2')), [].
    repeat split; auto. intros x Hx. unfold own. destruct N2' as [A _].
    destruct (lk_msg x =? M) eqn:X; [apply Z.eqb_eq in X; exfalso; eapply A; eauto | reflexivity]. }
  pose proof (Mine_step _ _ _ _ _ _ (run_LStep mb e3 W3 s3) M3) as M3'.
  pose proof (Mine_step _ _ _ _ _ _ (run_LStep mb e4 W4 _) M3') as M4.
  destruct (find_id (run e3 s3) mb) as [m'|].
  - injection H as <- <- <- <-. destruct (Mine_find _ _ _ _ _ M4) as (l & F & Hl & A1 & A2 & A3 & A4).
    unfold announce_tree. rewrite F. exists (mb_next m), (gser s2'), l. repeat split; auto.
  - injection H as <- <- <- <-. destruct (Mine_find _ _ _ _ _ M4) as (l & F & Hl & A1 & A2 & A3 & A4).
    unfold announce_tree. rewrite F. exists (mb_next m), (gser s2'), l. repeat split; auto.
Qed.

(** without other writers the statement-level APPEND is [op_append] *)
Lemma append_sched_sequential_l : forall s f fl m,
  find_name s f = Some m -> append_sched s (mb_id m) fl [] [] [] [] = op_append s f fl.
Proof.
  intros s f fl m Fn. unfold append_sched, append_sched_full, append_sched_gen, op_append, alloc_uid, add_message.
  rewrite Fn. unfold store_message. simpl.
  set (s0 := mkStore (mboxes s) (links s) (next_msg s + 1) (glog s) (gused s) (gser s)).
  destruct (find_id s0 (mb_id m)) as [m0|]; [|reflexivity].
  destruct (insert_link (bump s0 (mb_id m)) (next_msg s) (mb_id m) (mb_next m0) fl) as [s3|]; [|reflexivity].
  simpl. unfold announce_tree, own. destruct (find_id s3 (mb_id m)); reflexivity.
Qed.

(** the set of message ids stays below the counter along writer-only histories *)
Lemma MsgInv_run mb e s : Forall (fun o => writer_ok mb o = true) e -> MsgInv s -> MsgInv (run e s).
Proof. intros W. apply (MsgInv_step mb). now apply run_LStep. Qed.

(** regression: announcing "uid_next - 1" (one read of the mailbox row) is
    refuted by ONE delivery between the INSERT and that read *)
Lemma announce_uidnext_refuted :
  let s := run sched_prep (init 100) in
  exists e3 s' v u uid g,
    Forall (fun o => writer_ok 1 o = true) e3 /\
    append_sched_gen announce_uidnext s 1 [] [] [] e3 [] = (s', RAppendUid v u, Some (uid, g)) /\ u <> uid.
Proof.
  exists [ODeliver INBOX 0]. vm_compute. do 5 eexists. split; [repeat constructor|].
  split; [reflexivity | discriminate].
Qed.

(** ... from every state reached by a clean history of a new account *)
Lemma appenduid_all_schedules_reachable_l : forall t1 t2 t3 t4 t5 h mb fl e1 e2 e3 e4 s' v u ins,
  clean (init5 t1 t2 t3 t4 t5) h = true ->
  Forall (fun o => writer_ok mb o = true) (e1 ++ e2 ++ e3 ++ e4) ->
  append_sched_full (run h (init5 t1 t2 t3 t4 t5)) mb fl e1 e2 e3 e4 = (s', RAppendUid v u, ins) ->
  exists uid g l, ins = Some (uid, g) /\ u = uid /\ In l (links s') /\
                  lk_msg l = next_msg (run h (init5 t1 t2 t3 t4 t5)) /\ lk_mbox l = mb /\ lk_uid l = u /\ lk_gid l = g.
Proof.
  intros t1 t2 t3 t4 t5 h mb fl e1 e2 e3 e4 s' v u ins C. apply appenduid_all_schedules_l.
  now apply inv_reachable_l.
Qed.

(** every stamp handed out by CreateMailboxPerUser is above every UIDVALIDITY the
    store has ever used, whatever the clock says *)
Lemma new_validity_above_all_l : forall s n t s' id n' v',
  create_mailbox_row s n t = Some (s', id) -> In (n', v') (gused s) ->
  exists m, In m (mboxes s') /\ mb_id m = id /\ mb_name m = n /\ v' < mb_validity m /\ t <= mb_validity m.
Proof.
  intros s n t s' id n' v' C H. apply create_row_shape in C. destruct C as (_ & _ & ->).
  exists (mkMbox id n (next_validity s t) 1). simpl. repeat split.
  - apply in_or_app. right. now left.
  - apply (in_map snd) in H. simpl in H. apply fold_max_ge in H. unfold next_validity, vhigh. lia.
  - unfold next_validity. lia.
Qed.

(** a reachable, non-trivial state and a schedule with three other writers: the
    premises are satisfiable and the conclusion is what is computed *)
Definition ex_hist : list op :=
  [OAppend (S_ "Trash") []; OAppend (S_ "Trash") [S_ "\Seen"]; OAppend INBOX []; ODeliver INBOX 0;
   OUidCopy 4 [UOne 1] INBOX; OCreate (S_ "A") 100; ODelete (S_ "A"); OCreate (S_ "A") 100;
   OUidStore 1 [UOne 1] SAdd [S_ "\Deleted"]; OExpunge 1].
Lemma reachable_schedule_example :
  clean (init 100) ex_hist = true /\
  exists s' v g,
    append_sched_full (run ex_hist (init 100)) 1 []
       [ODeliver INBOX 0] [OAppend INBOX []] [OUidCopy 4 [UOne 2] INBOX] [OUidStore 4 [UOne 1] SAdd [NONJUNK]]
    = (s', RAppendUid v 5, Some (5, g)) /\ length (links_in s' 1) = 7%nat.
Proof. split; [vm_compute; reflexivity|]. vm_compute. do 3 eexists. split; reflexivity. Qed.
