(** C15: the invariant of the blob table / bucket / part rows and its
    preservation by every step of every history (any fault oracle). *)
From Coq Require Import String Ascii List Bool Arith Lia.
From Raven Require Import Base.GoStr Model.Blobs.
Import ListNotations.

(* ---------------------------------------------------------------- table *)

Definition bump (b : blobrow) : blobrow := mkBlob (b_key b) (b_form b) (S (b_refs b)).

Lemma incr_ref_from_nth i bl id n :
  nth_error (incr_ref_from i bl id) n =
  option_map (fun b => if Nat.eqb (i + n) id then bump b else b) (nth_error bl n).
Proof.
  revert i n; induction bl as [|b bl IH]; intros i n; simpl.
  - destruct n; reflexivity.
  - destruct n; simpl.
    + rewrite Nat.add_0_r. destruct (Nat.eqb i id); destruct b; reflexivity.
    + rewrite IH. replace (S i + n) with (i + S n) by lia. reflexivity.
Qed.

Lemma get_blob_incr bl id id' :
  get_blob (incr_ref bl id) id' =
  option_map (fun b => if Nat.eqb id' id then bump b else b) (get_blob bl id').
Proof.
  destruct id' as [|n]; [reflexivity|]. unfold get_blob, incr_ref.
  rewrite incr_ref_from_nth. reflexivity.
Qed.

Lemma incr_ref_from_keys i bl id : map b_key (incr_ref_from i bl id) = map b_key bl.
Proof.
  revert i; induction bl as [|b bl IH]; intros i; simpl; [reflexivity|].
  rewrite IH. destruct (Nat.eqb i id); reflexivity.
Qed.

Definition unbump (b : blobrow) : blobrow := mkBlob (b_key b) (b_form b) (Nat.pred (b_refs b)).

Lemma decr_incr_from i bl id : decr_ref_from i (incr_ref_from i bl id) id = bl.
Proof.
  revert i; induction bl as [|b bl IH]; intros i; simpl; [reflexivity|].
  rewrite IH. destruct (Nat.eqb i id); destruct b; reflexivity.
Qed.

Lemma decr_incr bl id : decr_ref (incr_ref bl id) id = bl.
Proof. apply decr_incr_from. Qed.

Lemma find_key_from_some i bl k id :
  find_key_from i bl k = Some id ->
  exists n b, id = i + n /\ nth_error bl n = Some b /\ b_key b = k.
Proof.
  revert i; induction bl as [|b bl IH]; intros i H; simpl in H; [discriminate|].
  destruct (str_eqb_spec (b_key b) k) as [E|E].
  - inversion H; subst. exists 0, b. split; [lia|split; [reflexivity|congruence]].
  - destruct (IH _ H) as (n & b' & -> & Hn & Hk). exists (S n), b'. split; [lia|split; assumption].
Qed.

Lemma find_key_from_none i bl k :
  find_key_from i bl k = None -> ~ In k (map b_key bl).
Proof.
  revert i; induction bl as [|b bl IH]; intros i H; simpl in *; [tauto|].
  destruct (str_eqb_spec (b_key b) k) as [E|E]; [discriminate|].
  intros [F|F]; [contradiction|]. exact (IH _ H F).
Qed.

Lemma find_key_some bl k id :
  find_key bl k = Some id -> exists b, get_blob bl id = Some b /\ b_key b = k.
Proof.
  intros H. destruct (find_key_from_some _ _ _ _ H) as (n & b & -> & Hn & Hk).
  exists b. split; [exact Hn|exact Hk].
Qed.

Lemma get_blob_some_le bl id b : get_blob bl id = Some b -> 1 <= id <= length bl.
Proof.
  destruct id as [|n]; simpl; [discriminate|]. intros H.
  assert (n < length bl) by (apply nth_error_Some; congruence). lia.
Qed.

Lemma get_blob_app_old bl x id b : get_blob bl id = Some b -> get_blob (bl ++ [x]) id = Some b.
Proof.
  destruct id as [|n]; simpl; [discriminate|]. intros H.
  rewrite nth_error_app1; [assumption|]. apply nth_error_Some; congruence.
Qed.

Lemma get_blob_app_new bl x : get_blob (bl ++ [x]) (S (length bl)) = Some x.
Proof. simpl. rewrite nth_error_app2 by lia. rewrite Nat.sub_diag. reflexivity. Qed.

Lemma get_blob_app_inv bl x id b :
  get_blob (bl ++ [x]) id = Some b ->
  get_blob bl id = Some b \/ (id = S (length bl) /\ b = x).
Proof.
  destruct id as [|n]; simpl; [discriminate|]. intros H.
  destruct (Nat.lt_ge_cases n (length bl)) as [L|L].
  - rewrite nth_error_app1 in H by assumption. left; assumption.
  - rewrite nth_error_app2 in H by assumption.
    destruct (n - length bl) as [|m] eqn:E; simpl in H.
    + inversion H; subst. right. split; [lia|reflexivity].
    + destruct m; discriminate.
Qed.

(* ------------------------------------------------------------- invariant *)

Definition refcount (id : nat) (rows : list partrow) : nat :=
  length (filter (fun r => match r_blob r with Some i => Nat.eqb i id | None => false end) rows).

Lemma refcount_app id a b : refcount id (a ++ b) = refcount id a + refcount id b.
Proof. unfold refcount. rewrite filter_app, app_length. reflexivity. Qed.

Section Inv.
Variable key : str -> str -> str.
Variable okey : str -> str.

(** where a part's octets are after the store loop: in the row itself, or in
    a blob filed under the part's own dedup key *)
(** the hex form of sha256 is never empty *)
Hypothesis okey_ne : forall a, okey a <> [].

(** the blob's stored form is the part's own text *)
Definition form_ok (f : form) (own : str) : Prop := form_is_own okey f own = true.

Definition row_ok (bl : list blobrow) (r : partrow) : Prop :=
  match r_blob r with
  | None => r_text r = r_own r
  | Some id => exists b, get_blob bl id = Some b /\ b_key b = key (r_enc r) (r_own r) /\ form_ok (b_form b) (r_own r)
  end.

Definition objs_ok (objs : list (str * str)) : Prop :=
  forall k c, lookup objs k = Some c -> k = okey c.

Record inv (bl : list blobrow) (objs : list (str * str)) (rows : list partrow) : Prop := mkInv {
  i_rows : Forall (row_ok bl) rows;
  i_objs : objs_ok objs;
  i_refs : forall id b, get_blob bl id = Some b -> b_refs b = refcount id rows;
  i_nodup : NoDup (map b_key bl) }.

Lemma row_ok_incr bl id r : row_ok bl r -> row_ok (incr_ref bl id) r.
Proof.
  unfold row_ok. destruct (r_blob r) as [i|]; [|tauto].
  intros (b & Hb & Hk). rewrite get_blob_incr, Hb. simpl.
  destruct (Nat.eqb i id); eexists; split; try reflexivity; exact Hk.
Qed.

Lemma row_ok_app bl x r : row_ok bl r -> row_ok (bl ++ [x]) r.
Proof.
  unfold row_ok. destruct (r_blob r) as [i|]; [|tauto].
  intros (b & Hb & Hk). exists b. split; [apply get_blob_app_old; assumption|assumption].
Qed.

Lemma inv_inline bl objs rows c enc :
  inv bl objs rows -> inv bl objs (rows ++ [mkRow None c enc c]).
Proof.
  intros [R O F N]. constructor; try assumption.
  - apply Forall_app. split; [assumption|]. constructor; [reflexivity|constructor].
  - intros id b Hb. rewrite refcount_app. simpl. rewrite Nat.add_0_r. apply F; assumption.
Qed.

Lemma inv_store_blob f bl objs rows enc content id bl' :
  inv bl objs rows ->
  store_blob key f bl enc content OOk = (Some id, bl') ->
  (forall b, get_blob bl' id = Some b -> form_ok (b_form b) content) ->
  inv bl' objs (rows ++ [mkRow (Some id) [] enc content]).
Proof.
  intros [R O F N] H Hform. unfold store_blob in H.
  destruct (find_key bl (key enc content)) as [i|] eqn:E; inversion H; subst; clear H.
  - (* existing row: increment *)
    destruct (find_key_some _ _ _ E) as (b0 & Hb0 & Hk0).
    constructor.
    + apply Forall_app. split.
      * eapply Forall_impl; [|exact R]. intros; apply row_ok_incr; assumption.
      * constructor; [|constructor]. unfold row_ok; simpl.
        pose proof (Hform (bump b0)) as Hf.
        rewrite get_blob_incr, Hb0 in *; simpl in *. rewrite Nat.eqb_refl in *.
        eexists; split; [reflexivity|split; [exact Hk0|exact (Hf eq_refl)]].
    + assumption.
    + intros i b Hb. rewrite get_blob_incr in Hb.
      destruct (get_blob bl i) as [b1|] eqn:E1; simpl in Hb; [|discriminate].
      rewrite refcount_app. unfold refcount at 2; simpl.
      rewrite (Nat.eqb_sym id i).
      destruct (Nat.eqb i id); inversion Hb; subst; simpl; rewrite (F _ _ E1); lia.
    + unfold incr_ref. rewrite incr_ref_from_keys. assumption.
  - (* new row *)
    constructor.
    + apply Forall_app. split.
      * eapply Forall_impl; [|exact R]. intros; apply row_ok_app; assumption.
      * constructor; [|constructor]. unfold row_ok; simpl.
        pose proof (Hform (mkBlob (key enc content) f 1)) as Hf. simpl in Hf.
        rewrite nth_error_app2 in * by lia. rewrite Nat.sub_diag in *. simpl in *.
        eexists; split; [reflexivity|split; [reflexivity|exact (Hf eq_refl)]].
    + assumption.
    + intros i b Hb. rewrite refcount_app. unfold refcount at 2; cbn [filter r_blob].
      destruct (get_blob_app_inv _ _ _ _ Hb) as [Old|[-> ->]].
      * pose proof (get_blob_some_le _ _ _ Old) as L.
        destruct (Nat.eqb_spec (S (length bl)) i) as [X|X]; [lia|]. simpl.
        rewrite (F _ _ Old). lia.
      * rewrite Nat.eqb_refl. simpl.
        assert (Z : refcount (S (length bl)) rows = 0).
        { clear -R. unfold refcount. induction rows as [|r rows IH]; [reflexivity|].
          inversion R as [|? ? H1 H2]; subst. cbn [filter].
          destruct (r_blob r) as [j|] eqn:Ej; [|apply IH; assumption].
          unfold row_ok in H1. rewrite Ej in H1. destruct H1 as (b & Hb & _).
          pose proof (get_blob_some_le _ _ _ Hb).
          destruct (Nat.eqb_spec j (S (length bl))); [lia|]. apply IH; assumption. }
        rewrite Z. reflexivity.
    + rewrite map_app. simpl.
      apply find_key_from_none in E.
      clear -N E. induction (map b_key bl) as [|k l IH]; simpl.
      * constructor; [tauto|constructor].
      * inversion N; subst. constructor.
        -- rewrite in_app_iff. simpl. intros [X|[X|[]]]; [contradiction|]. apply E. left; symmetry; assumption.
        -- apply IH; [assumption|]. intros X; apply E; right; assumption.
Qed.

Lemma store_blob_fail f bl enc content : store_blob key f bl enc content OFail = (None, bl).
Proof. reflexivity. Qed.

Lemma store_blob_ok_some f bl enc content :
  exists id bl', store_blob key f bl enc content OOk = (Some id, bl').
Proof. unfold store_blob. destruct (find_key bl (key enc content)); eauto. Qed.

(* ----------------------------------------------------------------- bucket *)

Lemma lookup_remove objs k k' c : lookup (remove_obj objs k) k' = Some c -> lookup objs k' = Some c.
Proof.
  induction objs as [|[a b] objs IH]; simpl; [discriminate|].
  destruct (str_eqb_spec a k) as [E|E]; simpl.
  - intros H. destruct (str_eqb_spec a k') as [E'|E'].
    + subst a. subst k'. clear -H. exfalso.
      induction objs as [|[a b'] objs IH]; simpl in H; [discriminate|].
      destruct (str_eqb_spec a k) as [E|E]; simpl in H; [auto|].
      destruct (str_eqb_spec a k); [contradiction|auto].
    + auto.
  - destruct (str_eqb a k'); auto.
Qed.

Lemma objs_ok_remove objs k : objs_ok objs -> objs_ok (remove_obj objs k).
Proof. intros H k' c L. apply H. eapply lookup_remove; eassumption. Qed.

Lemma objs_ok_put objs c : objs_ok objs -> objs_ok (put_obj objs (okey c) c).
Proof.
  intros H k c' L. unfold put_obj in L. simpl in L.
  destruct (str_eqb_spec (okey c) k) as [E|E].
  - inversion L; subst; reflexivity.
  - apply H. eapply lookup_remove; eassumption.
Qed.

Lemma lookup_put objs k c : lookup (put_obj objs k c) k = Some c.
Proof. unfold put_obj; simpl. rewrite str_eqb_refl. reflexivity. Qed.

Lemma s3_store_objs objs content o r objs' o' lg :
  objs_ok objs -> s3_store okey objs content o = (r, objs', o', lg) -> objs_ok objs'.
Proof.
  intros H E. unfold s3_store in E. destruct (take o) as [h o1].
  destruct (match h with OOk => has_obj objs (okey content) | OFail => false end).
  - inversion E; subst; assumption.
  - destruct (take o1) as [p o2]. destruct p; inversion E; subst; [apply objs_ok_put|]; assumption.
Qed.

Lemma s3_store_some objs content o k objs' o' lg :
  (forall a b, okey a = okey b -> a = b) ->
  objs_ok objs -> s3_store okey objs content o = (Some k, objs', o', lg) ->
  k = okey content /\ lookup objs' k = Some content.
Proof.
  intros Inj H E. unfold s3_store in E. destruct (take o) as [h o1].
  destruct (match h with OOk => has_obj objs (okey content) | OFail => false end) eqn:Hh.
  - inversion E; subst. split; [reflexivity|].
    destruct h; [|discriminate]. unfold has_obj in Hh.
    destruct (lookup objs' (okey content)) as [c|] eqn:L; [|discriminate].
    rewrite (Inj _ _ (H _ _ L)). reflexivity.
  - destruct (take o1) as [p o2]. destruct p; inversion E; subst.
    split; [reflexivity|apply lookup_put].
Qed.

(* ------------------------------------------------------------ store loop *)

Definition all_rows (w : world) : list partrow := concat (w_msgs w).

Definition winv (w : world) (extra : list partrow) : Prop :=
  inv (w_blobs w) (w_objs w) (all_rows w ++ extra).

Lemma inv_objs_change bl objs objs' rows : inv bl objs rows -> objs_ok objs' -> inv bl objs' rows.
Proof. intros [R O F N] H. constructor; assumption. Qed.

(** which (form, stored id) pairs the store loop hands to store_blob / blobHoldsContent *)
Definition call_ok (f : form) (stored : option str) (content : str) : Prop :=
  (f = FLocal content /\ stored = None) \/ (f = FS3 (okey content) /\ stored = Some (okey content)).

Lemma blob_holds_form bl id content f stored :
  call_ok f stored content ->
  blob_holds bl id content stored = true ->
  forall b, get_blob bl id = Some b -> form_ok (b_form b) content.
Proof.
  intros C H b Hb. unfold blob_holds in H. rewrite Hb in H.
  destruct C as [[-> ->]|[-> ->]].
  - destruct (b_form b) as [c|k] eqn:E; [exact H|discriminate].
  - destruct (okey content) as [|c0 k0] eqn:EK; [exfalso; eapply okey_ne; eassumption|].
    destruct (b_form b) as [c|k] eqn:E; [discriminate|].
    unfold form_ok. simpl. rewrite EK. exact H.
Qed.

Lemma new_row_holds bl kk f stored content :
  call_ok f stored content ->
  blob_holds (bl ++ [mkBlob kk f 1]) (S (length bl)) content stored = true.
Proof.
  intros C. unfold blob_holds. rewrite get_blob_app_new. simpl.
  destruct C as [[-> ->]|[-> ->]].
  - apply str_eqb_refl.
  - destruct (okey content) as [|c0 k0] eqn:EK; [exfalso; eapply okey_ne; eassumption|].
    apply str_eqb_refl.
Qed.

(** the reference is only ever given back for a row that existed before (so
    DecrementBlobReference never reaches its "delete at 0" branch), and giving
    it back restores the table *)
Lemma give_back_keeps_row f stored bl enc content id bl' :
  call_ok f stored content ->
  store_blob key f bl enc content OOk = (Some id, bl') ->
  blob_holds bl' id content stored = false ->
  find_key bl (key enc content) = Some id /\ decr_ref bl' id = bl.
Proof.
  intros C H Hh. unfold store_blob in H.
  destruct (find_key bl (key enc content)) as [i|] eqn:E; inversion H; subst.
  - split; [reflexivity|apply decr_incr].
  - rewrite (new_row_holds _ _ _ _ _ C) in Hh. discriminate.
Qed.

Lemma link_inv f stored bl objs rows p d0 r bl' row bl'' :
  call_ok f stored (p_content p) ->
  inv bl objs rows ->
  store_blob key f bl (p_enc p) (p_content p) d0 = (r, bl') ->
  link_or_inline p r bl' stored = (row, bl'') ->
  inv bl'' objs (rows ++ [row]) /\ r_own row = p_content p /\ r_enc row = p_enc p.
Proof.
  intros C I Hs Hl. unfold link_or_inline in Hl.
  destruct d0.
  2:{ rewrite store_blob_fail in Hs. inversion Hs; subst. inversion Hl; subst.
      split; [apply inv_inline; assumption|split; reflexivity]. }
  destruct r as [id|].
  2:{ unfold store_blob in Hs. destruct (find_key bl _); discriminate. }
  destruct (blob_holds bl' id (p_content p) stored) eqn:Hh; inversion Hl; subst.
  - split; [|split; reflexivity].
    eapply inv_store_blob; [eassumption|eassumption|].
    eapply blob_holds_form; eassumption.
  - destruct (give_back_keeps_row _ _ _ _ _ _ _ C Hs Hh) as (_ & ->).
    split; [apply inv_inline; assumption|split; reflexivity].
Qed.

Lemma s3_store_key objs content o k objs' o' lg :
  s3_store okey objs content o = (Some k, objs', o', lg) -> k = okey content.
Proof.
  unfold s3_store. destruct (take o) as [h o1].
  destruct (match h with OOk => has_obj objs (okey content) | OFail => false end).
  - intros E; inversion E; reflexivity.
  - destruct (take o1) as [q o2]. destruct q; intros E; inversion E; reflexivity.
Qed.

Lemma store_part_inv s3on w p o d extra row w' o' d' :
  winv w extra ->
  store_part key okey s3on w p o d = (row, w', o', d') ->
  winv w' (extra ++ [row]) /\ w_msgs w' = w_msgs w /\ r_own row = p_content p /\ r_enc row = p_enc p.
Proof.
  unfold winv, all_rows. intros I E. unfold store_part in E.
  destruct (out_of_line p).
  2:{ inversion E; subst. split; [|split; [reflexivity|split; reflexivity]].
      rewrite app_assoc. apply inv_inline; assumption. }
  destruct s3on.
  - destruct (s3_store okey (w_objs w) (p_content p) o) as [[[r objs'] o1] lg] eqn:Es.
    pose proof (s3_store_objs _ _ _ _ _ _ _ (i_objs _ _ _ I) Es) as Ho.
    pose proof (inv_objs_change _ _ _ _ I Ho) as I'.
    destruct (take d) as [d0 d1].
    destruct r as [k|].
    + rewrite (s3_store_key _ _ _ _ _ _ _ Es) in *.
      destruct (store_blob key (FS3 (okey (p_content p))) (w_blobs w) (p_enc p) (p_content p) d0) as [r bl'] eqn:Eb.
      destruct (link_or_inline p r bl' (Some (okey (p_content p)))) as [row0 bl''] eqn:El.
      inversion E; subst; simpl.
      destruct (link_inv _ _ _ _ _ _ _ _ _ _ _ (or_intror (conj eq_refl eq_refl)) I' Eb El) as (J & Own & Enc).
      split; [rewrite app_assoc; exact J|split; [reflexivity|split; assumption]].
    + destruct (store_blob key (FLocal (p_content p)) (w_blobs w) (p_enc p) (p_content p) d0) as [r bl'] eqn:Eb.
      destruct (link_or_inline p r bl' None) as [row0 bl''] eqn:El.
      inversion E; subst; simpl.
      destruct (link_inv _ _ _ _ _ _ _ _ _ _ _ (or_introl (conj eq_refl eq_refl)) I' Eb El) as (J & Own & Enc).
      split; [rewrite app_assoc; exact J|split; [reflexivity|split; assumption]].
  - destruct (take d) as [d0 d1].
    destruct (store_blob key (FLocal (p_content p)) (w_blobs w) (p_enc p) (p_content p) d0) as [r bl'] eqn:Eb.
    destruct (link_or_inline p r bl' None) as [row0 bl''] eqn:El.
    inversion E; subst; simpl.
    destruct (link_inv _ _ _ _ _ _ _ _ _ _ _ (or_introl (conj eq_refl eq_refl)) I Eb El) as (J & Own & Enc).
    split; [rewrite app_assoc; exact J|split; [reflexivity|split; assumption]].
Qed.

Lemma store_parts_inv s3on ps : forall w o d acc rows w',
  winv w (rev acc) ->
  store_parts key okey s3on w ps o d acc = (rows, w') ->
  winv w' rows /\ w_msgs w' = w_msgs w /\
  map r_own rows = map r_own (rev acc) ++ map p_content ps /\
  map r_enc rows = map r_enc (rev acc) ++ map p_enc ps.
Proof.
  induction ps as [|p ps IH]; intros w o d acc rows w' I E; simpl in E.
  - inversion E; subst. rewrite !app_nil_r. split; [assumption|split; [reflexivity|split; reflexivity]].
  - destruct (store_part key okey s3on w p o d) as [[[row w1] o1] d1] eqn:Ep.
    destruct (store_part_inv _ _ _ _ _ _ _ _ _ _ I Ep) as (I1 & M1 & Own & Enc).
    destruct (IH w1 o1 d1 (row :: acc) rows w' I1 E) as (I2 & M2 & O2 & E2).
    split; [assumption|split; [congruence|split]].
    + rewrite O2. simpl. rewrite map_app, <- app_assoc. simpl. rewrite Own. reflexivity.
    + rewrite E2. simpl. rewrite map_app, <- app_assoc. simpl. rewrite Enc. reflexivity.
Qed.

Lemma all_rows_snoc bl objs msgs rows lg :
  all_rows (mkW bl objs (msgs ++ [rows]) lg) = concat msgs ++ rows.
Proof. unfold all_rows; simpl. rewrite concat_app. simpl. rewrite app_nil_r. reflexivity. Qed.

Lemma store_msg_inv s3on w ps o d :
  winv w [] ->
  exists rows, winv (store_msg key okey s3on w ps o d) [] /\
    w_msgs (store_msg key okey s3on w ps o d) = w_msgs w ++ [rows] /\
    map r_own rows = map p_content ps /\ map r_enc rows = map p_enc ps.
Proof.
  intros I. unfold store_msg.
  destruct (store_parts key okey s3on w ps o d []) as [rows w'] eqn:E.
  destruct (store_parts_inv s3on ps w o d [] rows w' I E) as (I' & M & O & En).
  exists rows. simpl. split; [|split; [rewrite M; reflexivity|split; assumption]].
  unfold winv in *. rewrite all_rows_snoc, app_nil_r. unfold all_rows in I'. simpl. exact I'.
Qed.

Lemma fold_remove_ok ks : forall objs, objs_ok objs -> objs_ok (fold_left remove_obj ks objs).
Proof. induction ks as [|k ks IH]; intros objs H; simpl; [assumption|]. apply IH, objs_ok_remove, H. Qed.

Lemma step_inv w e : winv w [] -> winv (step key okey w e) [].
Proof.
  intros I. destruct e as [s3on o d ps|ks]; simpl.
  - destruct (store_msg_inv s3on w ps o d I) as (rows & I' & _). exact I'.
  - unfold winv, all_rows in *; simpl. eapply inv_objs_change; [exact I|].
    apply fold_remove_ok. exact (i_objs _ _ _ I).
Qed.

Lemma winv_w0 : winv w0 [].
Proof.
  constructor; simpl.
  - constructor.
  - intros k c H; discriminate.
  - intros [|[|n]] b H; discriminate.
  - constructor.
Qed.

Lemma fold_step_inv evs : forall w, winv w [] -> winv (fold_left (step key okey) evs w) [].
Proof. induction evs as [|e evs IH]; intros w I; simpl; [assumption|]. apply IH, step_inv, I. Qed.

Lemma run_inv evs : winv (run key okey evs) [].
Proof. apply fold_step_inv, winv_w0. Qed.

End Inv.
