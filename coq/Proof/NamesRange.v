(** C11: the SQL range test of db.childNameRange,
    [name >= n+"/" AND name < n+"0"] under bytewise comparison, holds exactly
    for the names that start with n+"/" -- for all byte strings. *)
From Coq Require Import String Ascii List Bool Arith NArith Lia.
From Raven Require Import Base.GoStr Base.GoStrFacts Base.GoStrOrder Model.Pattern Model.Names Spec.Names.
Import ListNotations.

Lemma byte_of_inj x y : byte_of x = byte_of y -> x = y.
Proof. unfold byte_of. intros H. rewrite <- (ascii_N_embedding x), <- (ascii_N_embedding y). now f_equal. Qed.

Lemma eqb_byte x y : Ascii.eqb x y = N.eqb (byte_of x) (byte_of y).
Proof.
  destruct (Ascii.eqb_spec x y) as [->|N]; symmetry.
  - apply N.eqb_refl.
  - apply N.eqb_neq. intros H. apply N. now apply byte_of_inj.
Qed.

Lemma str_cmp_nil_r a : str_cmp a [] <> Lt.
Proof. destruct a; simpl; discriminate. Qed.

Lemma str_cmp_nil_l b : str_cmp [] b <> Gt.
Proof. destruct b; simpl; discriminate. Qed.

Lemma child_range_nil m : child_range [] m = has_prefix m [delim].
Proof.
  unfold child_range, str_leb, str_ltb. destruct m as [|y m]; [reflexivity|].
  cbn [app str_cmp has_prefix]. rewrite eqb_byte.
  change (byte_of delim) with 47%N. change (byte_of "0"%char) with 48%N.
  destruct (N.compare_spec 47 (byte_of y)) as [E|L|G].
  - rewrite <- E. simpl. rewrite andb_true_r.
    destruct m; reflexivity.
  - replace (47 =? byte_of y)%N with false by (symmetry; apply N.eqb_neq; lia). simpl.
    destruct (N.compare_spec (byte_of y) 48) as [E2|L2|G2]; try lia; try reflexivity.
    destruct m; reflexivity.
  - replace (47 =? byte_of y)%N with false by (symmetry; apply N.eqb_neq; lia). reflexivity.
Qed.

Theorem child_range_prefix n : forall m, child_range n m = has_prefix m (n ++ [delim]).
Proof.
  induction n as [|x n IH]; intros m; [apply child_range_nil|].
  destruct m as [|y m]; [reflexivity|].
  specialize (IH m). unfold child_range, str_leb, str_ltb in *.
  cbn [app str_cmp has_prefix]. rewrite eqb_byte, (N.compare_antisym (byte_of x) (byte_of y)).
  destruct (N.compare_spec (byte_of x) (byte_of y)) as [E|L|G]; simpl.
  - rewrite E, N.eqb_refl. simpl. exact IH.
  - replace (byte_of x =? byte_of y)%N with false by (symmetry; apply N.eqb_neq; lia). reflexivity.
  - replace (byte_of x =? byte_of y)%N with false by (symmetry; apply N.eqb_neq; lia). reflexivity.
Qed.

Corollary child_range_is_child n m : child_range n m = is_child n m.
Proof. apply child_range_prefix. Qed.
