(** C02 — the stored rows, read with the blob table of any later time, are the
    rows one would get without a blob table at all ([rowsP_aux]): blob
    de-duplication is invisible to the rebuild (code as of fix C02-6). *)
From Coq Require Import String Ascii List Bool Arith NArith ZArith Lia.
From Raven Require Import Base.GoStr Base.GoStrMime Spec.Mime Model.MimeHeaders Model.MimeStore Proof.MimeBlob.
Import ListNotations.

Definition set_text (p : ppart) (t : str) : ppart :=
  mk_pp (pp_parent p) (pp_type p) (pp_disp p) (pp_cte p) (pp_charset p) (pp_filename p) (pp_cid p) t.

Definition inline_row (bs : blobs) (r : row) : row :=
  mk_row (r_pn r) (r_parent r) (set_text (r_part r) (row_content bs r)) None.

Definition parent_db (done : list ppart) (p : ppart) : option nat :=
  match pp_parent p with
  | Some j => if j <? length done then Some j else None
  | None => None
  end.

Definition same_parent (p : ppart) (q : ppart) : bool := opt_nat_eqb (pp_parent q) (pp_parent p).

(** the rows of a message when nothing is stored out of line *)
Fixpoint rowsP_aux (done todo : list ppart) : list row :=
  match todo with
  | [] => []
  | p :: rest =>
      mk_row (S (length (filter (same_parent p) done))) (parent_db done p) p None
      :: rowsP_aux (done ++ [p]) rest
  end.

Section Rows.
Variable hash : str -> str.

Lemma find_key_bound k : forall bs i j, find_key k bs i = Some j -> i <= j < i + length bs.
Proof.
  induction bs as [|[k' c] r IH]; intros i j H; simpl in *; [discriminate|].
  destruct (str_eqb k' k).
  - injection H as <-. lia.
  - apply IH in H. lia.
Qed.

Lemma store_blob_spec bs c e :
  exists ext, fst (store_blob hash bs c e) = bs ++ ext /\ snd (store_blob hash bs c e) < length (bs ++ ext).
Proof.
  unfold store_blob.
  destruct (find_key _ bs 0) as [i|] eqn:F; simpl.
  - exists []. rewrite app_nil_r. split; [reflexivity|]. apply find_key_bound in F. lia.
  - eexists. split; [reflexivity|]. rewrite app_length. simpl. lia.
Qed.

Lemma set_text_id p : set_text p (pp_text p) = p.
Proof. now destruct p. Qed.

Lemma store_parts_inline : forall todo faults bs done rows bs' rows',
  store_parts hash faults bs done todo rows = (bs', rows') ->
  exists ext new, bs' = bs ++ ext /\ rows' = rows ++ new /\
    forall later, map (inline_row (bs' ++ later)) new = rowsP_aux done todo.
Proof.
  induction todo as [|p rest IH]; intros faults bs done rows bs' rows' H; simpl in H.
  - injection H as <- <-. exists [], []. rewrite !app_nil_r. repeat split; reflexivity.
  - destruct (out_of_line p) eqn:OL.
    + destruct (hd false faults) eqn:FL.
      * (* the blob store failed: the part stays in line, the blob table is unchanged *)
        apply IH in H as (ext & new & -> & -> & Hn).
        eexists ext, (_ :: new). split; [reflexivity|]. split; [now rewrite <- app_assoc|].
        intros later. cbn [map rowsP_aux]. rewrite Hn. f_equal.
        unfold inline_row, row_content. cbn. now destruct p.
      * destruct (store_blob_spec bs (pp_text p) (pp_cte p)) as (ext0 & E1 & E2).
        destruct (store_blob hash bs (pp_text p) (pp_cte p)) as [b id] eqn:SB. cbn [fst snd] in E1, E2.
        destruct (str_eqb (get_blob b id) (pp_text p)) eqn:Q.
        -- apply IH in H as (ext & new & -> & -> & Hn).
           exists (ext0 ++ ext), (mk_row (S (length (filter (fun q => opt_nat_eqb (pp_parent q) (pp_parent p)) done)))
                                 (match pp_parent p with Some j => if j <? length done then Some j else None | None => None end)
                                 (mk_pp (pp_parent p) (pp_type p) (pp_disp p) (pp_cte p) (pp_charset p) (pp_filename p) (pp_cid p) [])
                                 (Some id) :: new).
           split; [rewrite E1; now rewrite app_assoc|]. split; [now rewrite <- app_assoc|].
           intros later. cbn [map rowsP_aux]. rewrite Hn. f_equal.
           unfold inline_row, row_content. cbn [r_pn r_parent r_part r_blob].
           rewrite <- app_assoc, get_blob_app by (rewrite E1; exact E2).
           apply str_eqb_eq in Q. rewrite Q. unfold set_text. cbn. now destruct p.
        -- apply IH in H as (ext & new & -> & -> & Hn).
           eexists (ext0 ++ ext), (_ :: new).
           split; [rewrite E1; now rewrite app_assoc|]. split; [now rewrite <- app_assoc|].
           intros later. cbn [map rowsP_aux]. rewrite Hn. f_equal.
           unfold inline_row, row_content. cbn. now destruct p.
    + apply IH in H as (ext & new & -> & -> & Hn).
      eexists ext, (_ :: new). split; [reflexivity|]. split; [now rewrite <- app_assoc|].
      intros later. cbn [map rowsP_aux]. rewrite Hn. f_equal.
      unfold inline_row, row_content. cbn. now destruct p.
Qed.

(** reading a row with its blob table = reading the in-line row without one *)
Lemma emit_leaf_inline bs r : emit_leaf bs r = emit_leaf [] (inline_row bs r).
Proof. destruct r as [pn par [a b c d e f g h] bl]. reflexivity. Qed.

Lemma row_content_inline bs r : row_content [] (inline_row bs r) = row_content bs r.
Proof. reflexivity. Qed.

Definition lift (f : row -> row) (jr : nat * row) : nat * row := (fst jr, f (snd jr)).

Lemma combine_seq_map (f : row -> row) : forall l a,
  combine (seq a (length (map f l))) (map f l) = map (lift f) (combine (seq a (length l)) l).
Proof.
  induction l as [|x l IH]; intros a; simpl; [reflexivity|]. now rewrite IH.
Qed.

Lemma indexed_map (f : row -> row) l : indexed (map f l) = map (lift f) (indexed l).
Proof. apply combine_seq_map. Qed.

Lemma filter_map_lift (f : row -> row) (q : nat * row -> bool) l :
  (forall x, q (lift f x) = q x) -> filter q (map (lift f) l) = map (lift f) (filter q l).
Proof.
  intros H. induction l as [|x l IH]; simpl; [reflexivity|].
  rewrite H. destruct (q x); simpl; now rewrite IH.
Qed.

Lemma insert_pn_map (f : row -> row) : (forall r, r_pn (f r) = r_pn r) ->
  forall l x, insert_pn (lift f x) (map (lift f) l) = map (lift f) (insert_pn x l).
Proof.
  intros H. induction l as [|y l IH]; intros x; simpl; [reflexivity|].
  rewrite !H. destruct (r_pn (snd y) <=? r_pn (snd x)); simpl; [now rewrite IH | reflexivity].
Qed.

Lemma sort_pn_map (f : row -> row) : (forall r, r_pn (f r) = r_pn r) ->
  forall l, sort_pn (map (lift f) l) = map (lift f) (sort_pn l).
Proof.
  intros H. induction l as [|x l IH]; simpl; [reflexivity|].
  unfold sort_pn in *. simpl. rewrite IH. now apply insert_pn_map.
Qed.

Lemma children_inline bs rows i :
  children (map (inline_row bs) rows) i = map (lift (inline_row bs)) (children rows i).
Proof.
  unfold children. rewrite indexed_map, filter_map_lift by reflexivity.
  now apply sort_pn_map.
Qed.

Lemma build_inline bs rows : forall fuel i r,
  build fuel bs rows i r = build fuel [] (map (inline_row bs) rows) i (inline_row bs r).
Proof.
  induction fuel as [|f IH]; intros i r; cbn [build].
  - now rewrite emit_leaf_inline.
  - rewrite children_inline.
    change (pp_type (r_part (inline_row bs r))) with (pp_type (r_part r)).
    assert (N : nonempty_l (map (lift (inline_row bs)) (children rows i)) = nonempty_l (children rows i))
      by (destruct (children rows i); reflexivity).
    rewrite N.
    destruct (is_multipart_type (pp_type (r_part r)) && nonempty_l (children rows i)).
    + f_equal. rewrite map_map. apply map_ext. intros [j r']. cbn [lift fst snd]. apply IH.
    + now rewrite emit_leaf_inline.
Qed.

End Rows.
