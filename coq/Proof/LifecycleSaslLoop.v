(** C20 — proofs about the timed SASL scanner loop *)
From Coq Require Import String List Bool NArith Arith Lia.
From Raven Require Import Base.GoStr Model.Lifecycle Model.LifecycleSaslLoop.
Import ListNotations.

Definition alive {A B} (r : A * N * B) : N := snd (fst r).
Definition final {B C} (r : tstate * B * C) : tstate := fst (fst r).

Lemma trun_cons c shut s dt l ls :
  trun c shut s ((dt, l) :: ls) =
  (final (trun c shut (final (tstep c shut s dt l)) ls),
   (alive (tstep c shut s dt l) + alive (trun c shut (final (tstep c shut s dt l)) ls))%N,
   (if snd (tstep c shut s dt l) then 1 else 0) + snd (trun c shut (final (tstep c shut s dt l)) ls)).
Proof.
  cbn [trun]. destruct (tstep c shut s dt l) as [[s1 a] armed].
  unfold final, alive. cbn [fst snd]. destruct (trun c shut s1 ls) as [[s2 a2] n2]. reflexivity.
Qed.

(** one step, shutdown begun, the `continue` path does not re-arm: the time
    alive is taken out of the time left, and what is left never grows *)
Lemma tstep_budget c s dt l :
  rearm_malformed c = false ->
  let r := tstep c true s dt l in
  (alive r + (if t_done (final r) then 0 else t_left (final r)) <= (if t_done s then 0 else t_left s))%N.
Proof.
  intro Hc. unfold tstep, alive, final. destruct s as [d left]. cbn [t_done t_left].
  destruct d; [cbn; lia|].
  destruct (left <=? dt)%N eqn:E; [cbn; lia|]. apply N.leb_gt in E.
  destruct (kind_of l); cbn [fst snd t_done t_left]; try lia.
  rewrite Hc. destruct (true && check_malformed c)%bool; cbn [fst snd t_done t_left]; lia.
Qed.

(** (s1) Shutdown has begun and the client keeps SENDING — any lines, at any
    intervals: the handler is alive for no longer than the time that was left
    on its deadline; no line a client can send extends it *)
Lemma shutdown_alive_bound c ls : rearm_malformed c = false -> forall s,
  (alive (trun c true s ls) <= (if t_done s then 0 else t_left s))%N.
Proof.
  intro Hc. induction ls as [|[dt l] ls IH]; intro s; [cbn; lia|].
  rewrite trun_cons. unfold alive at 1. cbn [fst snd].
  pose proof (tstep_budget c s dt l Hc) as H. cbn zeta in H.
  pose proof (IH (final (tstep c true s dt l))) as H2. lia.
Qed.

Lemma left_le_timeout c shut s dt l :
  (t_left s <= read_timeout)%N -> (t_left (final (tstep c shut s dt l)) <= read_timeout)%N.
Proof.
  intro H. unfold tstep, final. destruct s as [d left]. cbn [t_done t_left] in *.
  destruct d; [cbn; exact H|].
  destruct (left <=? dt)%N eqn:E; [cbn; unfold read_timeout; lia|]. apply N.leb_gt in E.
  destruct (kind_of l); cbn [fst]; try (cbn; unfold read_timeout; lia).
  - destruct (shut && check_malformed c)%bool; [cbn; unfold read_timeout; lia|].
    destruct (rearm_malformed c); cbn [fst t_left]; lia.
  - destruct shut; cbn [fst t_left]; unfold read_timeout; lia.
Qed.

Lemma left_le_timeout_run c shut ls : forall s,
  (t_left s <= read_timeout)%N -> (t_left (final (trun c shut s ls)) <= read_timeout)%N.
Proof.
  induction ls as [|[dt l] ls IH]; intros s H; [exact H|].
  rewrite trun_cons. unfold final at 1. cbn [fst]. apply IH, left_le_timeout, H.
Qed.

(** from the start of a connection, through any history [before] (shutdown not
    begun), then Shutdown begins: whatever the client sends from then on, the
    connection ends within one read deadline *)
Lemma shutdown_wait_bounded c before after :
  rearm_malformed c = false ->
  (alive (trun c true (final (trun c false t_init before)) after) <= read_timeout)%N.
Proof.
  intro Hc.
  pose proof (shutdown_alive_bound c after Hc (final (trun c false t_init before))) as H.
  pose proof (left_le_timeout_run c false before t_init (N.le_refl _)) as H2.
  destruct (t_done (final (trun c false t_init before))); lia.
Qed.

(** (s2) when the `continue` path passes the shutdown check too (fixes/C20-7):
    once shutdown has begun the handler ends at the next line, whatever it is *)
Lemma strict_one_line c s dt l :
  check_malformed c = true -> t_done (final (tstep c true s dt l)) = true.
Proof.
  intro Hc. unfold tstep, final. destruct s as [d left]. cbn [t_done t_left].
  destruct d; [reflexivity|]. destruct (left <=? dt)%N; [reflexivity|].
  destruct (kind_of l); try reflexivity. rewrite Hc. reflexivity.
Qed.

(** (s3) why the renewal must not move to the top of the loop (seeded change
    C20-2): lines of one field, 29.999 s apart, keep the connection — and
    Shutdown — for as long as the client likes *)
Definition ping : str := S_ "PING"%string.

Lemma seeded_step s : t_done s = false -> t_left s = read_timeout ->
  tstep seeded_loop true s 29999%N ping = (mk_t false read_timeout, 29999%N, true).
Proof. destruct s as [d left]. cbn [t_done t_left]. intros -> ->. vm_compute. reflexivity. Qed.

Lemma seeded_unbounded n :
  final (trun seeded_loop true t_init (repeat (29999%N, ping) n)) = t_init /\
  alive (trun seeded_loop true t_init (repeat (29999%N, ping) n)) = (N.of_nat n * 29999)%N.
Proof.
  induction n as [|n [IH1 IH2]]; [split; reflexivity|].
  cbn [repeat]. rewrite trun_cons. rewrite (seeded_step t_init) by reflexivity.
  change (final (mk_t false read_timeout, 29999%N, true)) with t_init.
  change (alive (mk_t false read_timeout, 29999%N, true)) with 29999%N.
  unfold final, alive in *. cbn [fst snd]. rewrite IH1, IH2. split; [reflexivity | lia].
Qed.

(** the tree's loop on the same input ends at the deadline *)
Lemma tree_on_pings :
  trun tree_loop true t_init [(29999%N, ping); (29999%N, ping); (29999%N, ping)] = (mk_t true 0, 30000%N, 0).
Proof. vm_compute. reflexivity. Qed.

(** the timed loop and the untimed handler model (Model/Lifecycle.v sstep) are
    the same function of the line as long as the deadline does not fire *)
Lemma tstep_agrees shut s dt l o :
  t_done s = false -> (dt < t_left s)%N ->
  t_done (final (tstep tree_loop shut s dt l)) = match fst (sstep shut SCmd (Data l o)) with SDone => true | SCmd => false end.
Proof.
  intros Hd Hl. unfold tstep, final, kind_of. rewrite Hd. apply N.leb_gt in Hl. rewrite Hl. cbn [sstep].
  destruct (max_token <=? N.of_nat (length l))%N; [reflexivity|].
  destruct (length (split_tab l) <? 2); [destruct shut; reflexivity|]. destruct shut; reflexivity.
Qed.
